// Package c13: property C13 — 3D tile keys (hZoom, x, y, vZoom, z) convert to IDs that cover the tile and keep its footprint
// (transform.ConvertTileXYZsToExtendedSpatialIDs, ConvertTileXYZsToSpatialIDs, object.NewTileXYZ).
// Tiles travel as lists [hZoom; x; y; vZoom; z]; the invokers build each tile with NewTileXYZ (a failing NewTileXYZ ends the call with an
// error, as a caller would experience it). Generators: requests of 0..5 tiles, h and v zooms independent over 0..35, z aimed at the
// altitude band the spatial-ID axis can express (incl. first/last index), every (base exponent, offset, output zoom) combination with the
// per-tile range length bounded, requests whose tiles share z at DIFFERENT vertical zooms, overlapping / duplicated / permuted tiles,
// failing tiles at any position (also last), zoom errors, and ~10 % sequences of related calls made back to back.
package c13

import (
	"math"

	"github.com/trajectoryjp/spatial_id_go/v4/common/consts"
	"github.com/trajectoryjp/spatial_id_go/v4/common/object"
	"github.com/trajectoryjp/spatial_id_go/v4/transform"

	. "verif/harness/gen"
	"verif/harness/run"
	w "verif/harness/wire"
)

const (
	nExt = "ConvertTileXYZsToExtendedSpatialIDs"
	nSp  = "ConvertTileXYZsToSpatialIDs"
	nNew = "NewTileXYZ"
	nSeq = "TileSequence"
	nPair = "TilePair"
	nObj  = "TileObjectSequence"
	nChk  = "VerifExtendedSpatialIDCheckZoom"
	nGrid = "CheckZoomGrid"
)

// ---------------------------------------------------------------- invokers

type tile [5]int64 // hZoom, x, y, vZoom, z

func tileVal(t tile) w.Val { return w.L(w.I(t[0]), w.I(t[1]), w.I(t[2]), w.I(t[3]), w.I(t[4])) }
func tilesVal(ts []tile) w.Val {
	l := w.List{}
	for _, t := range ts {
		l = append(l, tileVal(t))
	}
	return l
}

func buildTiles(v w.Val) ([]*object.TileXYZ, error) {
	req := []*object.TileXYZ{}
	for _, tv := range w.AsList(v) {
		f := w.AsInts(tv)
		if len(f) != 5 {
			panic("tile is not a list of five integers")
		}
		t, err := object.NewTileXYZ(f[0], f[1], f[2], f[3], f[4])
		if err != nil {
			return nil, err
		}
		req = append(req, t)
	}
	return req, nil
}

func eidsVal(r []object.ExtendedSpatialID, err error) w.Val {
	var v w.Val = w.Nil{}
	if r != nil {
		l := w.List{}
		for _, e := range r {
			l = append(l, w.L(w.I(e.HZoom()), w.I(e.X()), w.I(e.Y()), w.I(e.VZoom()), w.I(e.Z())))
		}
		v = l
	}
	return w.WithErr(v, err)
}

// estimate: an upper bound of the number of results of one call, from the zooms alone (the generators keep it small; shrinking a
// failing case moves zooms toward 0, which can ask for 2^30 IDs — such candidates are refused before the library is called)
func estimate(spatial bool, ts [][]int64, E, outV int64) int64 {
	if outV < 0 || outV > 35 {
		return 0
	}
	var sum int64
	for _, t := range ts {
		if len(t) != 5 || t[0] < 0 || t[0] > 35 || t[3] < 0 || t[3] > 35 {
			continue
		}
		bits := outV - 25
		if E > t[3] {
			if E-t[3] > 60 {
				return 1 << 40
			}
			bits += E - t[3]
		}
		if bits < 0 {
			bits = 0
		}
		if spatial {
			if t[0] < outV {
				bits += 2 * (outV - t[0])
			} else {
				bits += t[0] - outV
			}
		}
		if bits > 40 {
			return 1 << 40
		}
		sum += int64(1)<<uint(bits) + 1
	}
	return sum
}

// caps on the estimate (must equal DC13.cap): above them the invoker does not call the library and returns the marker; the dispatch entry
// recomputes the estimate and answers class "skipped" only if it really exceeds the cap
const guardCapExt, guardCapSp = 140000, 12000

// the generators stay below these
const genCapExt, genCapSp = 70000, 6000

const sizeMarker = "c13-size-guard"

func guardCap(spatial bool) int64 {
	if spatial {
		return guardCapSp
	}
	return guardCapExt
}
func genCap(spatial bool) int64 {
	if spatial {
		return genCapSp
	}
	return genCapExt
}

func call(spatial bool, tiles w.Val, E, O, outV int64) w.Val {
	var raw [][]int64
	for _, tv := range w.AsList(tiles) {
		raw = append(raw, w.AsInts(tv))
	}
	if estimate(spatial, raw, E, outV) > guardCap(spatial) {
		return w.S(sizeMarker)
	}
	req, err := buildTiles(tiles)
	if err != nil {
		return w.Err{V: w.Nil{}}
	}
	if spatial {
		r, err := transform.ConvertTileXYZsToSpatialIDs(req, E, O, outV)
		return w.WithErr(w.Strs(r), err)
	}
	return eidsVal(transform.ConvertTileXYZsToExtendedSpatialIDs(req, E, O, outV))
}

func fnConv(name string, spatial bool) *run.Fn {
	return &run.Fn{Name: name, Invoke: func(a []w.Val) w.Val {
		return call(spatial, a[0], w.AsInt(a[1]), w.AsInt(a[2]), w.AsInt(a[3]))
	}}
}

// NewTileXYZ observed through the accessors
func fnNew() *run.Fn {
	return &run.Fn{Name: nNew, Invoke: func(a []w.Val) w.Val {
		t, err := object.NewTileXYZ(w.AsInt(a[0]), w.AsInt(a[1]), w.AsInt(a[2]), w.AsInt(a[3]), w.AsInt(a[4]))
		if t == nil {
			return w.WithErr(w.Nil{}, err)
		}
		return w.WithErr(w.L(w.I(t.HZoom()), w.I(t.X()), w.I(t.Y()), w.I(t.VZoom()), w.I(t.Z())), err)
	}}
}

// both variants on the same arguments: observed [extended result; spatial result]
func fnPair() *run.Fn {
	return &run.Fn{Name: nPair, Invoke: func(a []w.Val) w.Val {
		E, O, outV := w.AsInt(a[1]), w.AsInt(a[2]), w.AsInt(a[3])
		return w.L(call(false, a[0], E, O, outV), call(true, a[0], E, O, outV))
	}}
}

func getters(t *object.TileXYZ) []w.Val {
	return []w.Val{w.I(t.HZoom()), w.I(t.X()), w.I(t.Y()), w.I(t.VZoom()), w.I(t.Z())}
}

// TileObjectSequence: one real *TileXYZ (zero value or NewTileXYZ) driven through a sequence of setter calls [code; value]
// (0 SetHZoom, 1 SetX, 2 SetY, 3 SetVZoom, 4 SetZ); after every call the error flag and the five getters are recorded; finally the object
// itself (twice the same pointer when alias) is converted by ConvertTileXYZsToExtendedSpatialIDs.
// observed [constructor getters; trace; conversion result], or [E nil] when the constructor refuses.
func fnObj() *run.Fn {
	return &run.Fn{Name: nObj, Invoke: func(a []w.Val) w.Val {
		init := w.AsInts(a[0])
		var t *object.TileXYZ
		if len(init) == 0 {
			t = &object.TileXYZ{}
		} else {
			var err error
			t, err = object.NewTileXYZ(init[0], init[1], init[2], init[3], init[4])
			if err != nil || t == nil {
				return w.L(w.Err{V: w.Nil{}})
			}
		}
		ctor := w.List(getters(t))
		trace := w.List{}
		for _, ov := range w.AsList(a[1]) {
			o := w.AsInts(ov)
			var err error
			switch o[0] {
			case 0:
				err = t.SetHZoom(o[1])
			case 1:
				t.SetX(o[1])
			case 2:
				t.SetY(o[1])
			case 3:
				err = t.SetVZoom(o[1])
			case 4:
				t.SetZ(o[1])
			default:
				panic("unknown setter code")
			}
			trace = append(trace, w.List(append([]w.Val{w.B(err != nil)}, getters(t)...)))
		}
		E, O, outV := w.AsInt(a[3]), w.AsInt(a[4]), w.AsInt(a[5])
		req := []*object.TileXYZ{t}
		raw := [][]int64{{t.HZoom(), t.X(), t.Y(), t.VZoom(), t.Z()}}
		if w.AsBool(a[2]) {
			req = append(req, t)
			raw = append(raw, raw[0])
		}
		var conv w.Val
		if estimate(false, raw, E, outV) > guardCap(false) {
			conv = w.S(sizeMarker)
		} else {
			conv = eidsVal(transform.ConvertTileXYZsToExtendedSpatialIDs(req, E, O, outV))
		}
		return w.L(ctor, trace, conv)
	}}
}

// the zoom window of the conversions through the verif hook
func fnChk() *run.Fn {
	return &run.Fn{Name: nChk, Invoke: func(a []w.Val) w.Val {
		return w.B(transform.VerifExtendedSpatialIDCheckZoom(w.AsInt(a[0]), w.AsInt(a[1])))
	}}
}

// ... on the whole grid lo..hi x lo..hi in one call (hZoom outer, vZoom inner)
func fnGrid() *run.Fn {
	return &run.Fn{Name: nGrid, Invoke: func(a []w.Val) w.Val {
		lo, hi := w.AsInt(a[0]), w.AsInt(a[1])
		if hi-lo > 200 || hi < lo {
			panic("grid too large")
		}
		out := w.List{}
		for h := lo; h <= hi; h++ {
			for v := lo; v <= hi; v++ {
				out = append(out, w.B(transform.VerifExtendedSpatialIDCheckZoom(h, v)))
			}
		}
		return out
	}}
}

// several conversions back to back: args[0] = [[tiles; E; O; outV; spatial?] ...], observed = the list of results
func fnSeq() *run.Fn {
	return &run.Fn{Name: nSeq, Invoke: func(a []w.Val) w.Val {
		out := w.List{}
		for _, c := range w.AsList(a[0]) {
			x := w.AsList(c)
			out = append(out, call(w.AsBool(x[4]), x[0], w.AsInt(x[1]), w.AsInt(x[2]), w.AsInt(x[3])))
		}
		return out
	}}
}

// ---------------------------------------------------------------- generator arithmetic (steering only, never an oracle)

func pow2(k int64) int64 { return int64(1) << uint(k) }

func ashift(i, s int64) int64 {
	if s >= 0 {
		if s > 62 {
			return 0
		}
		return i << uint(s)
	}
	if -s > 62 {
		if i < 0 {
			return -1
		}
		return 0
	}
	return i >> uint(-s)
}

func sign(g *Gen, x int64) int64 {
	if g.Chance(0.4) {
		return -x
	}
	return x
}

// offset: 0, ±2^k, odd, negative, the library's 2^24, random
func offset(g *Gen) (int64, string) {
	if g.Chance(0.04) { // up to the edge of the proved int64 domain: almost every such request must fail
		k := 36 + g.Int63n(15)
		o := pow2(k) + g.Pick(0, 0, 1, -1, g.Int63n(1<<20))
		if k == 50 {
			o = pow2(50) - g.Int63n(3)
		}
		return sign(g, o), "off=2^36..2^50"
	}
	switch g.Intn(11) {
	case 0, 1, 2:
		return 0, "off=0"
	case 3:
		return sign(g, pow2(g.Int63n(27))), "off=pow2"
	case 4:
		return sign(g, pow2(g.Int63n(26)+1)+g.Pick(1, -1)), "off=pow2±1"
	case 5, 6:
		return sign(g, g.Pick(1, 3, 5, 7, 9, 13, 15, 17, 31, 33, 127, 255, 1023)), "off=small-odd"
	case 7:
		return g.Pick(consts.ZBaseOffsetForNegativeFIndex, -consts.ZBaseOffsetForNegativeFIndex, consts.ZBaseOffsetForNegativeFIndex+1, consts.ZBaseOffsetForNegativeFIndex-1), "off=2^24"
	case 8:
		return g.Int63n(pow2(26)) - pow2(25), "off=random"
	case 9:
		return 2*(g.Int63n(pow2(18))-pow2(17)) + 1, "off=odd"
	}
	return sign(g, g.Pick(2, 4, 6, 8, 10, 100, 4096)), "off=small-even"
}

type params struct {
	E, O, outV int64
	spatial    bool
	budget     int64 // log2 of the number of results one tile may produce (range length x expansion factor)
}

// vzoomFor: a tile vertical zoom for which the range of one key has at most about 2^bits indices at outV
func vzoomFor(g *Gen, p params, bits int64) int64 {
	lo := p.E + p.outV - 25 - bits // max(E-kz,0) + outV - 25 <= bits
	if lo < 0 {
		lo = 0
	}
	if lo > 35 {
		lo = 35
	}
	if g.Chance(0.3) {
		up := lo + 1
		if up > 35 {
			up = 35
		}
		return g.Pick(lo, lo, 35, (lo+35)/2, up)
	}
	return lo + g.Int63n(36-lo)
}

// zFor: a key at zoom kz, mostly inside the altitude band [-2^25, 2^25) m of the spatial-ID axis, ends forced
func zFor(g *Gen, p params, kz int64) (int64, string) {
	top := pow2(25)
	switch g.Intn(12) {
	case 0:
		return g.HIndex(kz), "z=any"
	case 1:
		return g.Pick(0, pow2(kz)-1), "z=first/last"
	}
	var k int64
	for try := 0; try < 6; try++ {
		u := g.Pick(-top, -top+1, -1, 0, 1, top-1, top-2, g.Int63n(2*top)-top, g.Int63n(2*top)-top, g.Int63n(2*top)-top, g.Int63n(4096)-2048, g.Int63n(64)-32)
		k = ashift(u+p.O, kz-p.E) + g.Pick(0, 0, 0, 0, 1, -1)
		if k >= 0 && k < pow2(kz) {
			break
		}
	}
	if k < 0 || k >= pow2(kz) {
		if g.Chance(0.5) {
			return g.HIndex(kz), "z=any"
		}
		return g.Pick(0, pow2(kz)-1), "z=first/last"
	}
	return k, "z=targeted"
}

func hzoomFor(g *Gen, p params, rangeBits int64) int64 {
	if !p.spatial {
		return g.Zoom()
	}
	// expansion factor 4^(outV-h) (h < outV) resp. 2^(h-outV) (h > outV); keep rangeBits + log2(factor) <= budget
	room := p.budget - rangeBits
	if room < 0 {
		room = 0
	}
	var h int64
	switch g.Intn(4) {
	case 0:
		h = p.outV
	case 1:
		h = p.outV - g.Int63n(room/2+1)
	default:
		h = p.outV + g.Int63n(room+1)*g.Pick(1, 1, -1)/1
		if h < p.outV {
			h = p.outV - (p.outV-h)/2
		}
	}
	if h < 0 {
		h = 0
	}
	if h > 35 {
		h = 35
	}
	return h
}

func genParams(g *Gen, spatial bool) (params, []string) {
	p := params{E: g.Zoom(), outV: g.Zoom(), spatial: spatial}
	if g.Chance(0.3) {
		p.E = g.Pick(25, 25, 24, 26, 23, 30)
	}
	if g.Chance(0.22) {
		p.outV = g.Pick(0, 0, 0, 1, 1, 35, 35, 34, 2)
	}
	// log2 of the results one tile may produce: mostly small, rarely up to 2^11
	switch c := g.Intn(100); {
	case c < 55:
		p.budget = g.Int63n(5)
	case c < 88:
		p.budget = 5 + g.Int63n(3)
	case c < 98:
		p.budget = 8 + g.Int63n(2)
	default:
		p.budget = 10 + g.Int63n(2)
	}
	var otag string
	p.O, otag = offset(g)
	return p, []string{otag, Tag("E=%d", p.E), Tag("out=%d", p.outV)}
}

func genTile(g *Gen, p params, bits int64) (tile, string) {
	if bits > p.budget {
		bits = p.budget
	}
	rb := g.Int63n(bits + 1)
	if g.Chance(0.4) {
		rb = g.Int63n(rb + 1)
	}
	kz := vzoomFor(g, p, rb)
	z, ztag := zFor(g, p, kz)
	// the range really produced may be shorter than 2^rb; for the spatial variant bound the product with the worst case
	eb := p.E - kz
	if eb < 0 {
		eb = 0
	}
	eb += p.outV - 25
	if eb < 0 {
		eb = 0
	}
	h := hzoomFor(g, p, eb+1)
	return tile{h, g.HIndex(h), g.HIndex(h), kz, z}, ztag
}

// a tile that makes the call fail: z outside its zoom, or inside but mapped outside the target index range
func badTile(g *Gen, p params) (tile, string) {
	t, _ := genTile(g, p, 4)
	kz := t[3]
	switch g.Intn(4) {
	case 0:
		t[4] = g.Pick(pow2(kz), pow2(kz)+1, -1, -2, -pow2(kz))
		return t, "bad:z-out-of-zoom"
	case 1: // altitude just outside ±2^25 m
		top := pow2(25)
		u := g.Pick(top, top+1, -top-1, -top-2, 2*top, -2*top)
		k := ashift(u+p.O, kz-p.E)
		if k >= 0 && k < pow2(kz) {
			t[4] = k
			return t, "bad:altitude-outside"
		}
		t[4] = pow2(kz)
		return t, "bad:z-out-of-zoom"
	case 2:
		t[4] = g.Pick(0, pow2(kz)-1) // with a large offset / exponent usually outside the band
		return t, "bad:maybe-first/last"
	}
	t[4] = pow2(kz) + g.Int63n(5)
	return t, "bad:z-out-of-zoom"
}

// the same z at another vertical zoom (same or other footprint)
func otherVZoom(g *Gen, p params, t tile) tile {
	u := t
	d := g.Pick(1, -1, 1, -1, 2, -2, 3)
	kz := t[3] + d
	lo := p.E + p.outV - 25 - p.budget
	if kz < lo {
		kz = t[3] + 1
	}
	if kz < 0 {
		kz = t[3] + 1
	}
	if kz > 35 {
		kz = t[3] - 1
	}
	if kz < 0 {
		kz = 0
	}
	u[3] = kz
	if g.Chance(0.4) { // other footprint, same horizontal zoom
		u[1], u[2] = g.HIndex(u[0]), g.HIndex(u[0])
	}
	return u
}

// a tile overlapping t: same footprint and zoom with equal / adjacent z, or the parent / a child cell at the neighbouring zoom
func overlapping(g *Gen, t tile) tile {
	u := t
	kz := t[3]
	switch g.Intn(5) {
	case 0:
	case 1:
		u[4] = t[4] + g.Pick(1, -1)
	case 2:
		if kz > 0 {
			u[3], u[4] = kz-1, t[4]>>1
		}
	case 3:
		if kz < 35 {
			u[3], u[4] = kz+1, 2*t[4]+g.Pick(0, 1)
		}
	case 4:
		u[4] = t[4] + g.Pick(2, -2, 1)
	}
	if u[4] < 0 {
		u[4] = 0
	}
	if u[4] >= pow2(u[3]) {
		u[4] = pow2(u[3]) - 1
	}
	return u
}

func shuffle(g *Gen, ts []tile) []tile {
	r := append([]tile{}, ts...)
	g.R.Shuffle(len(r), func(i, j int) { r[i], r[j] = r[j], r[i] })
	return r
}

// one request
func genRequest(g *Gen, spatial bool) (params, []tile, []string) {
	p, tags := genParams(g, spatial)
	var ts []tile
	mode := ""
	c := g.Intn(100)
	big := g.Intn(1000)
	switch {
	case big < 40: // many small tiles with heavy overlap: 20..200 (extended) / 10..60 (spatial)
		mode = "req:many-tiles"
		p.budget = g.Int63n(4)
		if p.outV > 28 { // a metre is 2^(outV-25) indices: keep the per-tile ranges short
			p.outV = g.Pick(25, 26, 27, 28, 0, 1, 24)
		}
		n := 20 + g.Intn(181)
		if spatial {
			n = 10 + g.Intn(51)
		}
		seedTiles := 1 + g.Intn(6)
		for i := 0; i < seedTiles; i++ {
			t, _ := genTile(g, p, 3)
			ts = append(ts, t)
		}
		for len(ts) < n {
			b := ts[g.Intn(len(ts))]
			switch g.Intn(5) {
			case 0:
				ts = append(ts, b)
			case 1:
				ts = append(ts, otherVZoom(g, p, b))
			default:
				ts = append(ts, overlapping(g, b))
			}
		}
		ts = shuffle(g, ts)
	case big < 52 && !spatial: // one tall tile: 2^12 .. 2^16 indices (extended variant only), alone or with neighbours
		mode = "req:tall-tile"
		rb := 12 + g.Int63n(5)
		lo := p.E + p.outV - 25 - rb
		if lo < 0 || lo > 35 { // not expressible with these (E, outV)
			p.E, p.outV = 25, 25
			lo = 25 - rb
		}
		t, zt := genTile(g, p, 2)
		t[3] = lo
		t[4], zt = zFor(g, p, lo)
		ts = []tile{t}
		tags = append(tags, zt)
		if g.Chance(0.4) {
			ts = append(ts, overlapping(g, t))
		}
		if g.Chance(0.3) {
			x, _ := genTile(g, p, 3)
			ts = append(ts, x)
		}
	case big < 90 && !spatial: // x, y outside [0, 2^hZoom): copied unchecked by the extended variant
		mode = "req:out-of-grid-xy"
		n := 1 + g.Intn(4)
		for i := 0; i < n; i++ {
			t, _ := genTile(g, p, 5)
			w := pow2(t[0])
			t[1] = g.Pick(-1, w, w+1, -w, 1<<62, -(1 << 62), math.MaxInt64, math.MinInt64, g.Int63n(1<<40)-(1<<39), t[1])
			t[2] = g.Pick(-1, w, 2*w, -7, 1<<62, math.MaxInt64, math.MinInt64, g.Int63n(1<<40)-(1<<39), t[2])
			ts = append(ts, t)
		}
		if g.Chance(0.3) {
			ts = append(ts, ts[0])
		}
	case c < 4:
		mode = "req:empty"
	case c < 22: // independent tiles
		mode = "req:independent"
		n := 1 + g.Intn(5)
		bits := int64(11)
		if n > 1 {
			bits = 9
		}
		for i := 0; i < n; i++ {
			t, zt := genTile(g, p, bits)
			ts = append(ts, t)
			tags = append(tags, zt)
		}
	case c < 50: // same z at different vertical zooms inside ONE request
		mode = "req:same-z-other-vzoom"
		t, zt := genTile(g, p, 8)
		tags = append(tags, zt)
		if g.Chance(0.35) { // small parameters: the shape named by the reviewers, e.g. (vZoom 25, z 1), (vZoom 24, z 1) / (3, 5), (2, 5)
			p.E, p.O = g.Pick(25, 25, 24, 26), g.Pick(0, 0, 0, 1, -1, 8)
			p.outV = g.Pick(25, 24, 26, 23, 3, 2, 4)
			kz := g.Pick(25, 24, 26, 3, 2, 4, 5)
			if kz < p.E+p.outV-25-6 {
				kz = p.E + p.outV - 25 - 6
			}
			if kz > 35 {
				kz = 35
			}
			t[3] = kz
			t[4] = g.Pick(1, 5, 0, 2, 3, pow2(kz)-1, pow2(kz)/2, g.HIndex(kz))
			if t[4] >= pow2(kz) {
				t[4] = pow2(kz) - 1
			}
			if spatial {
				t[0] = hzoomFor(g, p, 7)
				t[1], t[2] = g.HIndex(t[0]), g.HIndex(t[0])
			}
			tags = append(tags, "small-params")
		}
		ts = []tile{t, otherVZoom(g, p, t)}
		for g.Chance(0.3) && len(ts) < 5 {
			ts = append(ts, otherVZoom(g, p, ts[g.Intn(len(ts))]))
		}
		if g.Chance(0.3) {
			x, _ := genTile(g, p, 6)
			ts = append(ts, x)
		}
		if g.Chance(0.5) {
			ts = shuffle(g, ts)
		}
	case c < 68: // overlapping ranges: dedupe across tiles
		mode = "req:overlapping"
		t, zt := genTile(g, p, 9)
		tags = append(tags, zt)
		ts = []tile{t}
		if g.Chance(0.35) {
			// a run of 3..5 consecutive key cells of ONE column, permuted, sometimes followed by the coarser cell over the first of them:
			// a later tile's covering range then has both ends already reported by two different earlier tiles while its interior is new
			// (the ends overlap whenever the offset is not aligned to the cell height)
			tags = append(tags, "column-run")
			if g.Chance(0.7) { // output indices of 2..8 m, key cells of 2 or 4 of them, an odd offset: neighbouring ranges share their end index
				j := 1 + g.Int63n(3)
				p.E = g.Pick(25, 25, 24, 26, 20, 30)
				p.outV = 25 - j
				p.O = sign(g, g.Pick(1, 1, 3, 5, 7, 2*g.Int63n(1000)+1))
				tags = append(tags, "misaligned")
				kz := p.E - (j + 1 + g.Int63n(2))
				t[3] = kz
				t[4], _ = zFor(g, p, kz)
				if spatial {
					t[0] = hzoomFor(g, p, 4)
					t[1], t[2] = g.HIndex(t[0]), g.HIndex(t[0])
				}
			} else {
				t, _ = genTile(g, p, 5)
			}
			k := int64(3 + g.Intn(3))
			if t[4]+k > pow2(t[3]) {
				t[4] = pow2(t[3]) - k
				if t[4] < 0 {
					t[4] = 0
				}
			}
			ts = nil
			for i := int64(0); i < k; i++ {
				if u := t; t[4]+i < pow2(t[3]) {
					u[4] = t[4] + i
					ts = append(ts, u)
				}
			}
			ts = shuffle(g, ts)
			if g.Chance(0.4) && t[3] > 0 {
				u := t
				u[3], u[4] = t[3]-1, t[4]>>1
				ts = append(ts, u)
			}
		} else {
			n := 1 + g.Intn(4)
			for i := 0; i < n; i++ {
				ts = append(ts, overlapping(g, ts[g.Intn(len(ts))]))
			}
		}
	case c < 78: // duplicated and permuted tiles
		mode = "req:duplicates"
		n := 1 + g.Intn(3)
		for i := 0; i < n; i++ {
			t, _ := genTile(g, p, 9)
			ts = append(ts, t)
		}
		ts = append(ts, ts[g.Intn(len(ts))])
		if g.Chance(0.5) && len(ts) < 5 {
			ts = append(ts, ts[g.Intn(len(ts))])
		}
		ts = shuffle(g, ts)
	case c < 86: // a tile whose covering range straddles (or just touches) the top / bottom of the target index range, anywhere in the request
		mode = "req:straddle"
		b, _ := genTile(g, p, 4)
		if p.E > 0 && g.Chance(0.8) { // key cells taller than a metre: only those can straddle (not just touch) the end of the range
			d := 1 + g.Int63n(6)
			if d > p.E {
				d = p.E
			}
			b[3] = p.E - d
			if spatial {
				b[0] = hzoomFor(g, p, 7)
				b[1], b[2] = g.HIndex(b[0]), g.HIndex(b[0])
			}
		}
		kz := b[3]
		b[4] = g.Pick(pow2(kz)-1, pow2(kz)-1, 0, 0, g.HIndex(kz), pow2(kz)/2)
		hgt := int64(1)
		if p.E > kz {
			hgt = pow2(p.E - kz)
		}
		top := pow2(25)
		edge := "top"
		if g.Chance(0.5) {
			top, edge = -top, "bottom"
		}
		// the key cell [k*hgt - O, (k+1)*hgt - O) contains altitude `top` at distance rr from its lower end; rr = 0 / hgt: it only touches
		rr := g.Pick(0, 1, 1, 1, 2, hgt-1, hgt-1, hgt/2, hgt, hgt, g.Int63n(hgt+1), g.Int63n(hgt+1))
		p.O = ashift(b[4], p.E-kz) - top + rr
		tags = append(tags, "straddle:"+edge, Tag("straddle-rr=%v", map[bool]string{true: "touch", false: "inside"}[rr == 0 || rr == hgt]))
		n := g.Intn(4)
		for i := 0; i < n; i++ {
			t, _ := genTile(g, p, 6)
			ts = append(ts, t)
		}
		pos := g.Intn(len(ts) + 1)
		if g.Chance(0.35) {
			pos = len(ts)
		}
		ts = append(ts[:pos], append([]tile{b}, ts[pos:]...)...)
		tags = append(tags, Tag("badpos=%d/%d", pos, len(ts)))
	case c < 93: // one failing tile at any position (often last) among valid ones
		mode = "req:one-bad-tile"
		n := g.Intn(4)
		for i := 0; i < n; i++ {
			t, _ := genTile(g, p, 8)
			ts = append(ts, t)
		}
		b, bt := badTile(g, p)
		tags = append(tags, bt)
		pos := len(ts)
		if g.Chance(0.4) {
			pos = g.Intn(len(ts) + 1)
		}
		ts = append(ts[:pos], append([]tile{b}, ts[pos:]...)...)
		tags = append(tags, Tag("badpos=%d/%d", pos, len(ts)))
	case c < 98: // output zoom outside 0..35
		mode = "req:bad-output-zoom"
		n := g.Intn(4) // also the empty request: the zoom is checked before the loop (322d7d5)
		for i := 0; i < n; i++ {
			t, _ := genTile(g, p, 4)
			ts = append(ts, t)
		}
		p.outV = g.Pick(-1, 36, 37, -25, 64)
	default: // a tile NewTileXYZ refuses, inside a request
		mode = "req:bad-tile-zoom"
		n := 1 + g.Intn(3)
		for i := 0; i < n; i++ {
			t, _ := genTile(g, p, 4)
			ts = append(ts, t)
		}
		i := g.Intn(len(ts))
		ts[i][g.Pick(0, 3)] = g.Pick(-1, 36, -3, 40, -2)
	}
	ts = trim(p, ts, spatial)
	return p, ts, append(tags, mode, Tag("tiles=%d", len(ts)))
}

func est(p params, ts []tile, spatial bool) int64 {
	raw := make([][]int64, len(ts))
	for i, t := range ts {
		raw[i] = t[:]
	}
	return estimate(spatial, raw, p.E, p.outV)
}

// trim drops tiles from the end until the request is small enough
func trim(p params, ts []tile, spatial bool) []tile {
	for len(ts) > 0 && est(p, ts, spatial) > genCap(spatial) {
		ts = ts[:len(ts)-1]
	}
	return ts
}

// trivial: the empty request with a valid output zoom, and requests NewTileXYZ refuses to build (no conversion takes place: the case
// exercises NewTileXYZ only and must not count as an evaluation of the conversions)
func trivial(p params, ts []tile) bool {
	for _, t := range ts {
		if t[0] < 0 || t[0] > 35 || t[3] < 0 || t[3] > 35 {
			return true
		}
	}
	return len(ts) == 0 && p.outV >= 0 && p.outV <= 35
}

func argsOf(p params, ts []tile) []w.Val {
	return []w.Val{tilesVal(ts), w.I(p.E), w.I(p.O), w.I(p.outV)}
}
func callVal(p params, ts []tile, spatial bool) w.Val {
	return w.L(tilesVal(ts), w.I(p.E), w.I(p.O), w.I(p.outV), w.B(spatial))
}

// a sequence of related calls: the same request with one argument changed, repeated, permuted, in the other variant
func genSequence(g *Gen) ([]w.Val, []string) {
	spatial := g.Chance(0.4)
	p, ts, tags := genRequest(g, spatial)
	calls := w.List{callVal(p, ts, spatial)}
	n := 1 + g.Intn(3)
	for i := 0; i < n; i++ {
		q, us, sp := p, ts, spatial
		switch g.Intn(8) {
		case 0: // identical
		case 1:
			us = shuffle(g, ts)
		case 2:
			if q.outV > 0 && (q.outV > 25 || g.Chance(0.5)) {
				q.outV--
			} else if q.outV < 35 && q.outV >= 0 {
				q.outV++ // one zoom finer: at most twice the results
			}
		case 3:
			q.O += g.Pick(1, -1, 2, 16, -16)
		case 4:
			q.O = -q.O
		case 5:
			if q.E > 0 {
				q.E-- // key cells half as tall: never more results
			}
		case 6: // same tiles, every vZoom one finer (same z): half as tall
			us = append([]tile{}, ts...)
			for k := range us {
				if us[k][3] < 35 && us[k][3] >= 0 {
					us[k][3]++
				}
			}
		case 7:
			if !sp {
				sp = true
				// keep the expansion small (horizontal zoom next to the output zoom) and the footprint inside the grid
				us = append([]tile{}, ts...)
				for k := range us {
					if us[k][0] >= 0 && us[k][0] <= 35 {
						h := us[k][0]
						if q.outV >= 0 && q.outV <= 35 {
							h = q.outV + g.Pick(0, 1, -1, 2)
							if h < 0 {
								h = 0
							}
							if h > 35 {
								h = 35
							}
						}
						us[k][0], us[k][1], us[k][2] = h, g.HIndex(h), g.HIndex(h)
					}
				}
			} else {
				sp = false
			}
		}
		if est(q, us, sp) > genCap(sp) {
			q, us, sp = p, ts, spatial
		}
		calls = append(calls, callVal(q, us, sp))
	}
	if len(ts) > 0 && g.Chance(0.3) {
		// a call that fails after it has worked through the valid tiles (a failing tile last), then the first request again: whatever the
		// failed call left behind (pooled buffers, partly filled de-duplication sets) must not reach the next result
		b, bt := badTile(g, p)
		bad := append(append([]tile{}, ts...), b)
		if est(p, bad, spatial) <= genCap(spatial) {
			calls = append(calls, callVal(p, bad, spatial), callVal(p, ts, spatial))
			tags = append(tags, "failing-tail", bt)
		}
	}
	return []w.Val{calls}, append(tags, "sequence", Tag("calls=%d", len(calls)))
}

// a TileXYZ object, a sequence of setter calls (valid and refused zooms, any x / y / z), then the conversion of the object
func genObjSequence(g *Gen) ([]w.Val, []string) {
	p, tags := genParams(g, false)
	t, zt := genTile(g, p, 6)
	tags = append(tags, zt)
	init := w.List{}
	start := tile{}
	mode := "obj:zero-value"
	if g.Chance(0.6) {
		mode = "obj:constructor"
		start = tile{g.Zoom(), g.HIndex(5), g.Int63n(100) - 50, g.Zoom(), g.Int63n(64)}
		if g.Chance(0.1) {
			start[g.Pick(0, 3)] = g.Pick(-1, 36, -3, 64)
			mode = "obj:constructor-refuses"
		}
		init = tileVal(start).(w.List)
	}
	// the setter calls: drive the object towards the target tile t in random order, with refused zooms, overwritten and repeated values in between
	type op struct{ c, v int64 }
	need := []op{{0, t[0]}, {1, t[1]}, {2, t[2]}, {3, t[3]}, {4, t[4]}}
	g.R.Shuffle(len(need), func(i, j int) { need[i], need[j] = need[j], need[i] })
	var ops []op
	for _, o := range need {
		for g.Chance(0.45) { // noise before the call that counts
			switch g.Intn(5) {
			case 0:
				ops = append(ops, op{g.Pick(0, 3), g.Pick(-1, 36, 37, -36, 64, math.MinInt64, math.MaxInt64)}) // refused
			case 1: // an accepted value of the field about to be set (overwritten by the call that counts)
				if o.c == 0 || o.c == 3 {
					ops = append(ops, op{o.c, g.Zoom()})
				} else {
					ops = append(ops, op{o.c, g.Int63n(1 << 20)})
				}
			case 2:
				ops = append(ops, op{g.Pick(1, 2, 4), g.Pick(-1, 0, 1<<40, math.MaxInt64, math.MinInt64, g.Int63n(1000))})
			case 3:
				ops = append(ops, o) // the same call twice
			default:
				ops = append(ops, op{o.c, o.v + g.Pick(1, -1)})
			}
		}
		if o.c == 0 || o.c == 3 || g.Chance(0.9) { // the zooms always end on the target (they bound the size of the result)
			ops = append(ops, o)
		}
	}
	ol := w.List{}
	for _, o := range ops {
		ol = append(ol, w.L(w.I(o.c), w.I(o.v)))
	}
	return []w.Val{init, ol, w.B(g.Chance(0.3)), w.I(p.E), w.I(p.O), w.I(p.outV)}, append(tags, mode, "object", Tag("setter-calls=%d", len(ops)))
}

func genNewTile(g *Gen) ([]w.Val, []string) {
	zs := []int64{-1, -2, -3, -25, 0, 1, 25, 34, 35, 36, 37, 64, -36, 1 << 40, -(1 << 40)}
	h, v := g.Zoom(), g.Zoom()
	tag := "new:valid"
	switch g.Intn(5) {
	case 0:
		h = zs[g.Intn(len(zs))]
		tag = "new:h-edge"
	case 1:
		v = zs[g.Intn(len(zs))]
		tag = "new:v-edge"
	case 2:
		h, v = zs[g.Intn(len(zs))], zs[g.Intn(len(zs))]
		tag = "new:both-edge"
	}
	x, y, z := g.Int63n(1<<36)-(1<<20), g.Int63n(1<<36)-(1<<20), g.Int63n(1<<36)-(1<<35)
	if g.Chance(0.3) {
		x, y, z = g.Pick(0, -1, 1), g.Pick(0, -1, 7), g.Pick(0, -1, 5)
	}
	if g.Chance(0.15) {
		x, y, z = g.Pick(math.MaxInt64, math.MinInt64, x), g.Pick(math.MinInt64, math.MaxInt64, y), g.Pick(math.MaxInt64, math.MinInt64, z)
		if g.Chance(0.3) {
			h = g.Pick(math.MaxInt64, math.MinInt64, h)
			v = g.Pick(math.MinInt64, math.MaxInt64, v)
			tag = "new:both-edge"
		}
		tag += ",int64-extremes"
	}
	return []w.Val{w.I(h), w.I(x), w.I(y), w.I(v), w.I(z)}, []string{tag}
}

// fixed requests run first on every seed: the documentation's examples and the shapes the reviewers named
type fixedReq struct {
	ts         []tile
	E, O, outV int64
}

var fixed = []fixedReq{
	{[]tile{{20, 85263, 65423, 23, 0}}, 25, 8, 23},
	{[]tile{{20, 85263, 65423, 26, 3}}, 25, -2, 26},
	{[]tile{{20, 85263, 65423, 23, 0}}, 25, 7, 23},
	{[]tile{{3, 1, 2, 25, 1}, {3, 1, 2, 24, 1}}, 25, 0, 25},
	{[]tile{{3, 1, 2, 24, 1}, {3, 1, 2, 25, 1}}, 25, 0, 25},
	{[]tile{{3, 1, 2, 25, 1}, {4, 5, 6, 24, 1}}, 25, 0, 25},
	{[]tile{{3, 1, 2, 3, 5}, {3, 1, 2, 2, 5}}, 25, 0, 3},
	{[]tile{{3, 1, 2, 2, 5}, {3, 1, 2, 3, 5}}, 25, 0, 3},
	{[]tile{{3, 1, 2, 3, 5}}, 25, 0, 3},
	{[]tile{{1, 0, 1, 25, 0}, {1, 0, 1, 25, 1}, {1, 0, 1, 24, 0}}, 25, 0, 25},
	{[]tile{{0, 0, 0, 1, 0}, {1, 0, 0, 1, 0}}, 25, 0, 1},
	{[]tile{}, 25, 0, 25},
	{[]tile{}, 25, 0, 36},
	{[]tile{}, 25, 0, -1},
	{[]tile{}, 0, 7, 0},
	{[]tile{{2, 1, 3, 25, 4}}, 25, 0, 3},
	{[]tile{{2, 1, 3, 0, 0}}, 25, consts.ZBaseOffsetForNegativeFIndex, 1},
	{[]tile{{2, 1, 3, 25, 0}, {2, 1, 3, 25, 1 << 25}}, 25, 0, 25}, // the second z does not exist at zoom 25
	{[]tile{{3, 5, 2, 3, 3}}, 3, 2, 0},                           // output vertical zoom 0 with hZoom 3: 3/0/5/2 .. 3/7/5/2
	{[]tile{{3, 5, 2, 3, 3}, {0, 0, 0, 3, 3}}, 3, 2, 0},
	{[]tile{{4, 5, 2, 3, 3}}, 3, 2, 1},
	{[]tile{{35, 5, 2, 35, 3}}, 35, 2, 35},
	// the covering range starts on a legal index and runs past the top (2^25-1 .. 2^25) resp. starts below the bottom: error for the whole call
	{[]tile{{20, 85263, 65423, 24, 1<<24 - 1}}, 25, -1, 25},
	{[]tile{{20, 85263, 65423, 23, 0}, {20, 85263, 65423, 24, 1<<24 - 1}}, 25, -1, 25},
	{[]tile{{20, 85263, 65423, 24, 1<<24 - 1}, {20, 85263, 65423, 23, 0}}, 25, -1, 25},
	{[]tile{{20, 85263, 65423, 23, 0}, {20, 85263, 65423, 24, 1<<24 - 1}, {20, 85263, 65423, 23, 1}}, 25, -1, 25},
	{[]tile{{20, 85263, 65423, 24, 0}}, 25, 1<<25 + 1, 25},
	{[]tile{{20, 85263, 65423, 24, 0}}, 25, 1 << 25, 25},
	{[]tile{{20, 85263, 65423, 24, 1<<24 - 1}}, 25, 0, 25},
}

func init() {
	Scale["C13"] = 1700
	Registry["C13"] = func(r *run.Runner, g *Gen, n int) {
		r.Register(fnConv(nExt, false), fnConv(nSp, true), fnNew(), fnSeq(), fnPair(), fnObj(), fnChk(), fnGrid())
		if n == 0 {
			return
		}
		for _, f := range fixed {
			p := params{E: f.E, O: f.O, outV: f.outV}
			r.Run(run.Case{Prop: "C13", Fn: nExt, Args: argsOf(p, f.ts), Tags: []string{"fixed"}, Trivial: trivial(p, f.ts)})
			// spatial variant: horizontal zoom next to the output zoom, otherwise the expansion has 4^(outV-h) members per ID
			sts := append([]tile{}, f.ts...)
			for k := range sts {
				if d := f.outV - sts[k][0]; d > 2 || d < -4 {
					h := f.outV - int64(k%2)
					if h < 0 {
						h = 0
					}
					sts[k][0], sts[k][1], sts[k][2] = h, sts[k][1]%pow2(h), sts[k][2]%pow2(h)
				}
			}
			r.Run(run.Case{Prop: "C13", Fn: nSp, Args: argsOf(p, sts), Tags: []string{"fixed"}, Trivial: trivial(p, f.ts)})
			r.Run(run.Case{Prop: "C13", Fn: nPair, Args: argsOf(p, sts), Tags: []string{"fixed"}, Trivial: trivial(p, f.ts)})
		}
		r.Run(run.Case{Prop: "C13", Fn: nNew, Args: []w.Val{w.I(-3), w.I(0), w.I(0), w.I(-2), w.I(0)}, Tags: []string{"fixed"}})
		// the zoom window of the conversions, exhaustively on -4..41 x -4..41 through the verif hook, and on int64 extremes
		r.Run(run.Case{Prop: "C13", Fn: nGrid, Args: []w.Val{w.I(-4), w.I(41)}, Tags: []string{"fixed", "zoom-window-grid"}})
		for _, pr := range [][2]int64{{0, 0}, {35, 35}, {36, 0}, {0, 36}, {-1, 35}, {35, -1}, {math.MinInt64, 0}, {0, math.MaxInt64}, {math.MaxInt64, math.MinInt64}, {1 << 32, 5}, {5, 1 << 32}} {
			r.Run(run.Case{Prop: "C13", Fn: nChk, Args: []w.Val{w.I(pr[0]), w.I(pr[1])}, Tags: []string{"fixed", "zoom-window"}})
		}
		// a setter sequence on the zero value, then the conversion of that object
		r.Run(run.Case{Prop: "C13", Fn: nObj, Tags: []string{"fixed", "object"}, Args: []w.Val{w.List{},
			w.L(w.L(w.I(0), w.I(36)), w.L(w.I(0), w.I(20)), w.L(w.I(1), w.I(85263)), w.L(w.I(2), w.I(65423)), w.L(w.I(3), w.I(-1)), w.L(w.I(3), w.I(23)), w.L(w.I(4), w.I(0)), w.L(w.I(0), w.I(40))),
			w.B(true), w.I(25), w.I(7), w.I(23)}})
		for i := 0; i < n; i++ {
			switch c := g.Intn(100); {
			case c < 40:
				p, ts, tags := genRequest(g, false)
				r.Run(run.Case{Prop: "C13", Fn: nExt, Args: argsOf(p, ts), Tags: append(tags, "ext"), Trivial: trivial(p, ts)})
			case c < 66:
				p, ts, tags := genRequest(g, true)
				r.Run(run.Case{Prop: "C13", Fn: nSp, Args: argsOf(p, ts), Tags: append(tags, "spatial"), Trivial: trivial(p, ts)})
			case c < 84:
				p, ts, tags := genRequest(g, true)
				r.Run(run.Case{Prop: "C13", Fn: nPair, Args: argsOf(p, ts), Tags: append(tags, "pair"), Trivial: trivial(p, ts)})
			case c < 92:
				a, tags := genSequence(g)
				r.Run(run.Case{Prop: "C13", Fn: nSeq, Args: a, Tags: tags})
			case c < 97:
				a, tags := genObjSequence(g)
				r.Run(run.Case{Prop: "C13", Fn: nObj, Args: a, Tags: tags})
			default:
				a, tags := genNewTile(g)
				r.Run(run.Case{Prop: "C13", Fn: nNew, Args: a, Tags: tags})
			}
		}
	}
}
