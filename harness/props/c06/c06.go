// Package c06: invokers and generators of property C06 (a line is voxelised without gaps, onto voxels the segment touches).
package c06

import (
	"math"
	"unsafe"

	"github.com/trajectoryjp/spatial_id_go/v4/common/object"
	"github.com/trajectoryjp/spatial_id_go/v4/shape"

	. "verif/harness/gen"
	"verif/harness/run"
	w "verif/harness/wire"
)

func pointArg(v w.Val) *object.Point {
	if _, ok := v.(w.Nil); ok {
		return nil
	}
	l := w.AsList(v)
	// the stored fields exactly as given (SetLat is not idempotent, so the point is not rebuilt through NewPoint)
	return RawPoint(w.AsFlt(l[0]), w.AsFlt(l[1]), w.AsFlt(l[2]))
}

// tooLong: the end points are more than ~1500 cells apart on some axis. Only the shared shrinker produces such calls (it moves a
// coordinate to 0); they would take minutes, and the model does not judge segments beyond 400 cells either (DC06.span_ok),
// so the implementation is not called; the dispatcher recomputes the span itself and answers class "skipped" (not a pass).
func tooLong(p1, p2 w.Val, h, v int64) bool {
	if _, ok := p1.(w.Nil); ok {
		return false
	}
	if _, ok := p2.(w.Nil); ok {
		return false
	}
	if h < 0 || h > 35 || v < 0 || v > 35 {
		return false
	}
	a, b := w.AsList(p1), w.AsList(p2)
	if len(a) != 3 || len(b) != 3 {
		return false
	}
	dx := math.Abs(w.AsFlt(b[0])-w.AsFlt(a[0])) / cellLon(h) // the segment is interpolated linearly (through lon 0): no wrap
	dy := math.Abs(rowOf(w.AsFlt(b[1]), h) - rowOf(w.AsFlt(a[1]), h))
	df := math.Abs(w.AsFlt(b[2])-w.AsFlt(a[2])) / cellAlt(v)
	return !(dx <= 1500 && dy <= 1500 && df <= 1500) // NaN counts as too long
}

func fnLine() *run.Fn {
	return &run.Fn{Name: "GetExtendedSpatialIdsOnLine", Invoke: func(a []w.Val) w.Val {
		if tooLong(a[0], a[1], w.AsInt(a[2]), w.AsInt(a[3])) {
			return w.Nil{}
		}
		ids, err := shape.GetExtendedSpatialIdsOnLine(pointArg(a[0]), pointArg(a[1]), w.AsInt(a[2]), w.AsInt(a[3]))
		return w.WithErr(w.Strs(ids), err)
	}}
}
func fnLineSid() *run.Fn {
	return &run.Fn{Name: "GetSpatialIdsOnLine", Invoke: func(a []w.Val) w.Val {
		if tooLong(a[0], a[1], w.AsInt(a[2]), w.AsInt(a[2])) {
			return w.Nil{}
		}
		ids, err := shape.GetSpatialIdsOnLine(pointArg(a[0]), pointArg(a[1]), w.AsInt(a[2]))
		return w.WithErr(w.Strs(ids), err)
	}}
}

// both exported functions on the same input (the spatial-ID form must be the extended form with h = v, converted)
func fnSidVsExt() *run.Fn {
	return &run.Fn{Name: "LineSidVsExt", Invoke: func(a []w.Val) w.Val {
		z := w.AsInt(a[2])
		if tooLong(a[0], a[1], z, z) {
			return w.L(w.Nil{}, w.Nil{})
		}
		sids, e1 := shape.GetSpatialIdsOnLine(pointArg(a[0]), pointArg(a[1]), z)
		eids, e2 := shape.GetExtendedSpatialIdsOnLine(pointArg(a[0]), pointArg(a[1]), z, z)
		return w.L(w.WithErr(w.Strs(sids), e1), w.WithErr(w.Strs(eids), e2))
	}}
}

// setRaw overwrites the stored fields of an existing point object (the caller mutating / reusing its own object)
func setRaw(p *object.Point, lon, lat, alt float64) {
	f := (*[3]float64)(unsafe.Pointer(p))
	f[0], f[1], f[2] = lon, lat, alt
	if p.Lon() != lon && lon == lon || p.Lat() != lat && lat == lat || p.Alt() != alt && alt == alt {
		panic("harness: object.Point layout changed")
	}
}

// LineHistory: a sequence of calls in one case. args: [reuse, mutate, steps]; a step is [false, p1, p2, h, v] (extended form) or
// [true, p1, p2, zoom] (spatial-ID form). reuse: the caller passes the SAME two point objects in every step, overwriting their
// fields before each call and scribbling on them after it; mutate: the caller overwrites and reorders every returned slice
// after recording it. Result: one observed value per step.
func fnHistory() *run.Fn {
	return &run.Fn{Name: "LineHistory", Invoke: func(a []w.Val) w.Val {
		reuse, mutate := w.AsBool(a[0]), w.AsBool(a[1])
		pa, pb := &object.Point{}, &object.Point{}
		var out w.List
		for _, st := range w.AsList(a[2]) {
			f := w.AsList(st)
			sid := w.AsBool(f[0])
			h := w.AsInt(f[3])
			v := h
			if !sid {
				v = w.AsInt(f[4])
			}
			if tooLong(f[1], f[2], h, v) {
				out = append(out, w.Nil{})
				continue
			}
			arg := func(x w.Val, own *object.Point) *object.Point {
				if _, ok := x.(w.Nil); ok {
					return nil
				}
				l := w.AsList(x)
				if reuse {
					setRaw(own, w.AsFlt(l[0]), w.AsFlt(l[1]), w.AsFlt(l[2]))
					return own
				}
				return RawPoint(w.AsFlt(l[0]), w.AsFlt(l[1]), w.AsFlt(l[2]))
			}
			p1, p2 := arg(f[1], pa), arg(f[2], pb)
			var ids []string
			var err error
			if sid {
				ids, err = shape.GetSpatialIdsOnLine(p1, p2, h)
			} else {
				ids, err = shape.GetExtendedSpatialIdsOnLine(p1, p2, h, v)
			}
			out = append(out, w.WithErr(w.Strs(append([]string{}, ids...)), err))
			if mutate { // the caller does what it likes with its own result
				for i := range ids {
					ids[i] = "0/0/0/0/0"
				}
				if len(ids) > 1 {
					ids[0], ids[len(ids)-1] = "1/1/1/1/1", "2/2/2/2/2"
				}
			}
			if reuse { // ... and with its own objects
				setRaw(pa, 1, 2, 3)
				setRaw(pb, -4, -5, -6)
			}
		}
		return out
	}}
}

func cellLon(h int64) float64 { return 360 / math.Pow(2, float64(h)) }
func cellAlt(v int64) float64 { return math.Pow(2, 25-float64(v)) }

// latitude of the north edge of row y at zoom h (approximation, only used to place generated points near corners)
func rowLat(y float64, h int64) float64 {
	return math.Atan(math.Sinh(math.Pi*(1-2*y/math.Pow(2, float64(h))))) * 180 / math.Pi
}
func rowOf(lat float64, h int64) float64 {
	r := lat * math.Pi / 180
	return math.Floor(math.Pow(2, float64(h)) * (1 - math.Log(math.Tan(r)+1/math.Cos(r))/math.Pi) / 2)
}

func clamp(x, lo, hi float64) float64 { return math.Max(lo, math.Min(hi, x)) }

// zooms with emphasis on the threshold switches (h >= 31, v >= 34)
func lineZooms(g *Gen) (int64, int64) {
	h, v := g.Zoom(), g.Zoom()
	if g.Chance(0.45) {
		h = g.Pick(30, 31, 30, 31, 29, 32, 35)
	}
	if g.Chance(0.45) {
		v = g.Pick(33, 34, 33, 34, 32, 35)
	}
	return h, v
}

func spanCells(g *Gen) float64 {
	switch {
	case g.Chance(0.5):
		return 1 + g.R.Float64()*4
	case g.Chance(0.6):
		return 5 + g.R.Float64()*10
	}
	return 15 + g.R.Float64()*25
}

func sgn(g *Gen) float64 {
	if g.Chance(0.5) {
		return -1
	}
	return 1
}

type seg struct {
	a, b [3]float64 // lon, lat, alt (before storing)
	kind string
}

func genSegment(g *Gen, h, v int64) seg {
	cl, ca := cellLon(h), cellAlt(v)
	lon := g.R.Float64()*358 - 179
	lat := g.R.Float64()*168 - 84
	alt := (g.R.Float64()*2 - 1) * 1000
	if g.Chance(0.15) {
		alt = (g.R.Float64()*2 - 1) * 3.0e7
	}
	if g.Chance(0.1) {
		alt = (g.R.Float64()*2 - 1) * 2 * ca
	}
	k := spanCells(g)
	cy := func(lat float64) float64 { return cl * math.Cos(lat*math.Pi/180) } // height of a row in degrees of latitude
	s := seg{}
	mk := func(nx, ny, nf float64) {
		s.a = [3]float64{lon, lat, alt}
		s.b = [3]float64{lon + nx*cl, lat + ny*cy(lat), alt + nf*ca}
	}
	switch g.Intn(12) {
	case 0, 1: // generic direction
		s.kind = "generic"
		mk((g.R.Float64()*2-1)*k, (g.R.Float64()*2-1)*k, (g.R.Float64()*2-1)*k)
	case 2: // axis-parallel
		s.kind = "axis-parallel"
		d := sgn(g) * k
		switch g.Intn(3) {
		case 0:
			mk(d, 0, 0)
		case 1:
			mk(0, d, 0)
		default:
			mk(0, 0, d)
		}
	case 3: // diagonal: the same number of cells on every axis (or on two of them)
		s.kind = "diagonal"
		switch g.Intn(4) {
		case 0:
			mk(sgn(g)*k, sgn(g)*k, 0)
		case 1:
			mk(sgn(g)*k, 0, sgn(g)*k)
		case 2:
			mk(0, sgn(g)*k, sgn(g)*k)
		default:
			mk(sgn(g)*k, sgn(g)*k, sgn(g)*k)
		}
	case 4: // both end points on exact cell corners +- a few ulps: the segment runs through voxel corners
		s.kind = "corners"
		x0 := math.Floor((lon + 180) / cl)
		f0 := math.Floor(alt / ca)
		y0 := rowOf(lat, h)
		nx, ny, nf := math.Round((g.R.Float64()*2-1)*k), math.Round((g.R.Float64()*2-1)*k), math.Round((g.R.Float64()*2-1)*k)
		if g.Chance(0.5) {
			m := math.Max(1, math.Round(k))
			nx, ny, nf = sgn(g)*m, sgn(g)*m, sgn(g)*m
		}
		u := func() int { return g.Intn(5) - 2 }
		s.a = [3]float64{Ulp(x0*cl-180, u()), Ulp(rowLat(y0, h), u()), Ulp(f0*ca, u())}
		s.b = [3]float64{Ulp((x0+nx)*cl-180, u()), Ulp(rowLat(y0+ny, h), u()), Ulp((f0+nf)*ca, u())}
	case 5: // crossing f = 0
		s.kind = "cross-f0"
		alt = -g.R.Float64() * k * ca
		mk((g.R.Float64()*2-1)*k, (g.R.Float64()*2-1)*k, 0)
		s.b[2] = g.R.Float64() * k * ca
		if g.Chance(0.3) {
			s.a[2], s.b[2] = g.PickF(0, math.Copysign(0, -1), -ca, ca, Ulp(0, 1), Ulp(0, -1)), g.PickF(-ca*k, ca*k, -ca, ca)
		}
	case 6: // near the latitude limit
		s.kind = "lat-limit"
		lat = sgn(g) * (LatMax - g.R.Float64()*k*cy(LatMax)*g.PickF(0, 0.5, 1, 2))
		mk((g.R.Float64()*2-1)*k, (g.R.Float64()*2-1)*k, (g.R.Float64()*2-1)*k*g.PickF(0, 1))
		if g.Chance(0.3) {
			s.b[1] = math.Copysign(LatMax, lat)
		}
	case 7: // at the antimeridian edges / equator / prime meridian
		s.kind = "edges"
		switch g.Intn(5) {
		case 0:
			lon = g.PickF(180, -180, math.Nextafter(180, 0), math.Nextafter(-180, 0), 179.99999999999994)
			if g.Chance(0.3) { // combined with the latitude limit
				lat = sgn(g) * (LatMax - g.R.Float64()*k*cy(LatMax))
			}
			if g.Chance(0.3) { // combined with a crossing of f = 0
				alt = -g.R.Float64() * k * ca * 0.5
			}
			mk(-math.Copysign(1, lon)*g.R.Float64()*k, (g.R.Float64()*2-1)*k, (g.R.Float64()*2-1)*k)
		case 1:
			lon = -g.R.Float64() * k * cl * g.PickF(0, 0.5, 1)
			mk(g.R.Float64()*k, (g.R.Float64()*2-1)*k, 0)
		case 2:
			lat = -g.R.Float64() * k * cl * g.PickF(0, 0.5, 1)
			mk((g.R.Float64()*2-1)*k, g.R.Float64()*k, 0)
		case 3:
			lon, lat, alt = g.PickF(0, 1e-20, -1e-20), g.PickF(0, 1e-11, -1e-11, 2e-10), g.PickF(0, 1e-20, -1e-9)
			mk((g.R.Float64()*2-1)*k, (g.R.Float64()*2-1)*k, (g.R.Float64()*2-1)*k)
		default: // west to east across the whole map at a low zoom (interpolated linearly through lon = 0)
			lon = -180 + g.R.Float64()*20
			mk(0, (g.R.Float64()*2-1)*k, (g.R.Float64()*2-1)*k)
			s.b[0] = 180 - g.R.Float64()*20
		}
	case 8: // identical end points
		s.kind = "identical"
		mk(0, 0, 0)
	case 9: // a small fraction of a cell: usually both ends in one voxel
		s.kind = "tiny"
		q := g.PickF(0.01, 0.1, 0.3, 1e-6)
		mk((g.R.Float64()*2-1)*q, (g.R.Float64()*2-1)*q, (g.R.Float64()*2-1)*q)
	case 10: // spans around the six termination thresholds (of either zoom regime), half of them across a voxel corner
		s.kind = "threshold"
		f := func() float64 { return g.PickF(0.3, 0.9, 0.999, 1, 1.001, 1.1, 2, 4, 5.5, 9, 30) }
		tl, tp, ta := 0.00000002, 0.00000002, 0.003
		if h >= 31 {
			tl, tp = 0.000000005, 0.0000000005
		}
		if v >= 34 {
			ta = 0.0005
		}
		dl, dp, da := sgn(g)*tl*f(), sgn(g)*tp*f(), sgn(g)*ta*f()
		if g.Chance(0.5) {
			s.a = [3]float64{lon, lat, alt}
		} else {
			s.kind = "threshold-corner"
			// the segment crosses a column, a row and an altitude boundary at independent parameters
			x0 := math.Floor((lon + 180) / cl)
			f0 := math.Floor(alt / ca)
			y0 := rowOf(lat, h)
			s.a = [3]float64{x0*cl - 180 - g.R.Float64()*dl, rowLat(y0, h) - g.R.Float64()*dp, f0*ca - g.R.Float64()*da}
		}
		s.b = [3]float64{s.a[0] + dl, s.a[1] + dp, s.a[2] + da}
	default: // one axis long, the others within a cell or two (shallow crossing of faces)
		s.kind = "shallow"
		d := sgn(g) * k
		e := func() float64 { return (g.R.Float64()*2 - 1) * 1.5 }
		switch g.Intn(3) {
		case 0:
			mk(d, e(), e())
		case 1:
			mk(e(), d, e())
		default:
			mk(e(), e(), d)
		}
	}
	// low zooms: keep the far end on the map
	s.b[0] = clamp(s.b[0], -180, 180)
	s.b[1] = clamp(s.b[1], -LatMax, LatMax)
	s.a[0] = clamp(s.a[0], -180, 180)
	s.a[1] = clamp(s.a[1], -LatMax, LatMax)
	lim := 33554432.0
	s.a[2] = clamp(s.a[2], -lim, lim)
	s.b[2] = clamp(s.b[2], -lim, lim)
	// bound the number of voxels when the clamped segment is still long in cells (low zoom on one axis only is fine)
	return s
}

// number of cells the segment spans on its longest axis (rough; used to keep every call cheap)
func cells(s seg, h, v int64) float64 {
	cl, ca := cellLon(h), cellAlt(v)
	n := math.Abs(s.b[0]-s.a[0]) / cl
	n = math.Max(n, math.Abs(rowOf(s.b[1], h)-rowOf(s.a[1], h)))
	n = math.Max(n, math.Abs(s.b[2]-s.a[2])/ca)
	return n
}

func storedLat(lat float64) float64 {
	p, err := object.NewPoint(0, lat, 0)
	if err != nil {
		return math.NaN()
	}
	return p.Lat()
}

// a stored latitude that moves into another row when it is stored again (SetLat is not idempotent): the D14 class
func unstableLat(g *Gen, h int64) (float64, bool) {
	for try := 0; try < 300000; try++ {
		raw := g.R.Float64()*168 - 84
		st := storedLat(raw)
		st2 := storedLat(st)
		if st2 != st && rowOf(st2, h) != rowOf(st, h) {
			return raw, true // NewPoint(raw) stores st; storing st again gives st2 in another row
		}
	}
	return 0, false
}

func genUnstable(g *Gen, h, v int64) (seg, bool) {
	lat, ok := unstableLat(g, h)
	if !ok {
		return seg{}, false
	}
	cl, ca := cellLon(h), cellAlt(v)
	cy := cl * math.Cos(lat*math.Pi/180)
	lon := g.R.Float64()*358 - 179
	alt := (g.R.Float64()*2 - 1) * 1000
	k := 1 + g.R.Float64()*12
	s := seg{kind: "unstable-endpoint"}
	s.a = [3]float64{lon, lat, alt}
	s.b = [3]float64{lon + (g.R.Float64()*2-1)*g.PickF(0, 0.2, 1, k)*cl, lat + sgn(g)*k*cy, alt + (g.R.Float64()*2-1)*g.PickF(0, 0.2, 1)*ca}
	if g.Chance(0.35) {
		// constant latitude: every midpoint has the unstable latitude and is re-cut into the neighbouring row
		s.kind = "unstable-const-lat"
		s.b = [3]float64{lon + sgn(g)*k*cl, lat, alt + (g.R.Float64()*2-1)*g.PickF(0, 0, 1, k)*ca}
		if g.Chance(0.3) {
			s.b[0] = lon
			s.b[2] = alt + sgn(g)*k*ca
		}
	}
	if g.Chance(0.15) {
		// both stored end points in one voxel (the function must return that single ID although the re-stored points lie elsewhere)
		s.kind = "unstable-one-voxel"
		s.b = [3]float64{lon + g.R.Float64()*1e-3*cl, lat, alt}
	}
	if g.Chance(0.5) {
		s.a, s.b = s.b, s.a
	}
	return s, true
}

// steep segments at high latitude and hZoom 34/35: the latitude rows are much lower than the longitude columns are wide, so the
// latitude threshold (5e-10 degrees at these zooms) is the one that decides when the recursion may stop
func genHighLat(g *Gen, h, v int64) seg {
	cl, ca := cellLon(h), cellAlt(v)
	// the higher the latitude the lower a row is against the latitude threshold: 80..85 degrees at zoom 35, 83.5..85 at zoom 34
	lo := 80.0
	if h <= 34 {
		lo = 83.5
	}
	if g.Chance(0.15) {
		lo = 76
	}
	lat := sgn(g) * (lo + g.R.Float64()*(85.04-lo))
	cy := cl * math.Cos(lat*math.Pi/180)
	lon := g.R.Float64()*358 - 179
	alt := (g.R.Float64()*2 - 1) * 1000
	rows := 5 + g.R.Float64()*38
	s := seg{kind: "high-lat-steep"}
	s.a = [3]float64{lon, lat, alt}
	// mostly north-south; sometimes a shallow diagonal (a fraction of a column per row) or a full diagonal in cells
	dx := 0.0
	switch g.Intn(10) {
	case 0, 1, 2:
		dx = (g.R.Float64()*2 - 1) * 0.15 * rows * cy
	case 3:
		dx = (g.R.Float64()*2 - 1) * cl
	case 4:
		dx = sgn(g) * rows * cl * g.PickF(1, 0.5, 0.1)
	}
	dz := 0.0
	switch g.Intn(10) {
	case 0:
		dz = (g.R.Float64()*2 - 1) * 0.0004
	case 1:
		dz = (g.R.Float64()*2 - 1) * 2 * ca
	}
	s.b = [3]float64{lon + dx, lat + sgn(g)*rows*cy, alt + dz}
	return s
}

// segments spanning the whole grid width (west-most to east-most column, linearly through lon = 0) or height at low zooms
func genFullSpan(g *Gen, h, v int64) seg {
	cl, ca := cellLon(h), cellAlt(v)
	s := seg{kind: "full-span"}
	lat := g.R.Float64()*160 - 80
	alt := (g.R.Float64()*2 - 1) * 1000
	in := func() float64 { return g.R.Float64() * cl * g.PickF(0.01, 0.5, 0.99) } // inside the first / last column
	switch g.Intn(4) {
	case 0: // same row, same altitude
		s.a = [3]float64{-180 + in(), lat, alt}
		s.b = [3]float64{180 - in(), lat, alt}
	case 1:
		s.a = [3]float64{-180 + in(), lat, alt}
		s.b = [3]float64{180 - in(), lat + (g.R.Float64()*2-1)*20, alt + (g.R.Float64()*2-1)*2*ca}
	case 2: // north-most to south-most row
		lon := g.R.Float64()*358 - 179
		s.a = [3]float64{lon, LatMax - g.R.Float64()*0.5, alt}
		s.b = [3]float64{lon + g.PickF(0, 0, 1)*(g.R.Float64()*2-1)*cl, -LatMax + g.R.Float64()*0.5, alt}
	default: // corner to corner
		s.a = [3]float64{-180 + in(), LatMax - g.R.Float64()*0.5, alt}
		s.b = [3]float64{180 - in(), -LatMax + g.R.Float64()*0.5, alt + (g.R.Float64()*2-1)*3*ca}
	}
	if g.Chance(0.5) {
		s.a, s.b = s.b, s.a
	}
	return s
}

// tiny segments across a voxel corner whose spans lie between the two regimes of a threshold (h >= 31: 2e-8 / 5e-9 / 5e-10,
// v >= 34: 0.003 / 0.0005) at the zoom where the regime switches: the recursion must go on exactly where the other regime stops
func genSwitch(g *Gen) (seg, int64, int64) {
	h, v := g.Zoom(), g.Zoom()
	lo := func(a, b float64) float64 { return a * math.Pow(b/a, 0.05+0.9*g.R.Float64()) } // log-uniform strictly between a and b
	var dl, dp, da float64
	if g.Chance(0.5) { // horizontal switch
		h = g.Pick(31, 31, 31, 30, 32, 35)
		if v >= 34 {
			da = 0.0005 * 0.5 * g.R.Float64()
		} else {
			da = 0.003 * 0.5 * g.R.Float64()
		}
		switch g.Intn(3) {
		case 0:
			dl, dp = lo(0.000000005, 0.00000002), 0.0000000005*g.R.Float64()
		case 1:
			dl, dp = 0.000000005*g.R.Float64(), lo(0.0000000005, 0.00000002)
		default:
			dl, dp = lo(0.000000005, 0.00000002), lo(0.0000000005, 0.00000002)
		}
	} else { // vertical switch
		v = g.Pick(34, 34, 34, 33, 35)
		da = lo(0.0005, 0.003)
		if h >= 31 {
			dl, dp = 0.000000005*g.R.Float64(), 0.0000000005*g.R.Float64()
		} else {
			dl, dp = 0.00000002*g.R.Float64(), 0.00000002*g.R.Float64()
		}
	}
	cl, ca := cellLon(h), cellAlt(v)
	lon := g.R.Float64()*358 - 179
	lat := g.R.Float64()*168 - 84
	alt := (g.R.Float64()*2 - 1) * 1000
	x0 := math.Floor((lon + 180) / cl)
	f0 := math.Floor(alt / ca)
	y0 := rowOf(lat, h)
	dl, dp, da = sgn(g)*dl, sgn(g)*dp, sgn(g)*da
	// all boundary crossings on the same side of the midpoint
	t := func() float64 { return 0.05 + 0.4*g.R.Float64() }
	if g.Chance(0.5) {
		t = func() float64 { return 0.55 + 0.4*g.R.Float64() }
	}
	s := seg{kind: "switch-corner"}
	s.a = [3]float64{x0*cl - 180 - t()*dl, rowLat(y0, h) - t()*dp, f0*ca - t()*da}
	s.b = [3]float64{s.a[0] + dl, s.a[1] + dp, s.a[2] + da}
	return s, h, v
}

// end points symmetric about a voxel corner: the exact midpoint lies on cell boundaries, so the last bit of the float midpoint
// start + 0.5*(end - start) decides the voxel
func genMidOnBoundary(g *Gen, h, v int64) seg {
	cl, ca := cellLon(h), cellAlt(v)
	lon := g.R.Float64()*358 - 179
	lat := g.R.Float64()*168 - 84
	alt := (g.R.Float64()*2 - 1) * 1000
	if g.Chance(0.2) {
		alt = (g.R.Float64()*2 - 1) * 3.0e7
	}
	x0 := math.Floor((lon + 180) / cl)
	f0 := math.Floor(alt / ca)
	y0 := rowOf(lat, h)
	k := spanCells(g) / 2
	if g.Chance(0.6) {
		// a corner within a few cells of altitude 0 and a half-length of several cells: start and end are rounded much more
		// coarsely than the midpoint, which is where (a+b)/2 and a+0.5*(b-a) part
		f0 = float64(g.Intn(7) - 3)
		k = math.Max(k, 2+g.R.Float64()*4)
	}
	cx, cy, cz := x0*cl-180, rowLat(y0, h), f0*ca
	dx, dy, dz := (g.R.Float64()*2-1)*k*cl, (g.R.Float64()*2-1)*k*cl*math.Cos(lat*math.Pi/180), (g.R.Float64()*2-1)*k*ca
	dz = sgn(g) * (2 + g.R.Float64()*(k-1)) * ca
	switch g.Intn(4) {
	case 0:
		dx, dy = 0, 0
	case 1:
		dx, dy = dx*0.1, dy*0.1
	}
	s := seg{kind: "mid-on-boundary"}
	s.a = [3]float64{cx - dx, cy - dy, cz - dz}
	s.b = [3]float64{cx + dx, cy + dy, cz + dz}
	return s
}

// longer segments (60..300 cells on the longest axis), generic direction
func genLong(g *Gen, h, v int64) seg {
	cl, ca := cellLon(h), cellAlt(v)
	lon := g.R.Float64()*300 - 150
	lat := g.R.Float64()*140 - 70
	alt := (g.R.Float64()*2 - 1) * 1000
	k := 60 + g.R.Float64()*240
	cy := cl * math.Cos(lat*math.Pi/180)
	d := func() float64 { return (g.R.Float64()*2 - 1) * k * g.PickF(1, 1, 0.3, 0.02, 0) }
	s := seg{kind: "long"}
	s.a = [3]float64{lon, lat, alt}
	s.b = [3]float64{clamp(lon+d()*cl, -180, 180), clamp(lat+d()*cy, -LatMax, LatMax), clamp(alt+d()*ca, -33554432, 33554432)}
	return s
}

// lines with vZoom > hZoom whose vertical index leaves [-2^hZoom, 2^hZoom-1] (the horizontal index range): the neighbour test
// must not treat the vertical index like a horizontal one
func genVAboveH(g *Gen) (seg, int64, int64) {
	h := g.Int63n(9)
	v := h + 4 + g.Int63n(11)
	if v > 18 {
		v = 18
	}
	cl, ca := cellLon(h), cellAlt(v)
	maxH := math.Pow(2, float64(h))
	f0 := sgn(g) * (maxH + 2 + math.Floor(g.R.Float64()*40))
	if g.Chance(0.3) {
		f0 = sgn(g) * (maxH + g.PickF(-1, 0, 1, 2))
	}
	lon := g.R.Float64()*300 - 150
	lat := g.R.Float64()*140 - 70
	alt := (f0 + g.R.Float64()) * ca
	k := 3 + g.R.Float64()*30
	s := seg{kind: "v-above-h"}
	s.a = [3]float64{lon, lat, alt}
	dh := func() float64 { return (g.R.Float64()*2 - 1) * g.PickF(0, 0.001, 0.05, 0.6) }
	s.b = [3]float64{lon + dh()*cl, lat + dh()*cl*math.Cos(lat*math.Pi/180), alt + math.Copysign(k*ca, f0)*g.PickF(1, 1, -0.5)}
	return s, h, v
}

// one step of a call history
func stepExt(p1, p2 w.Val, h, v int64) w.Val { return w.L(w.B(false), p1, p2, w.I(h), w.I(v)) }
func stepSid(p1, p2 w.Val, z int64) w.Val    { return w.L(w.B(true), p1, p2, w.I(z)) }

func storedVal(a [3]float64) (w.Val, bool) {
	_, v, ok := StoredPoint(clamp(a[0], -180, 180), clamp(a[1], -LatMax, LatMax), clamp(a[2], -33554432, 33554432))
	return v, ok
}

// genHistory: consecutive RELATED calls (same key-like arguments with different remaining ones and the reverse), invalid/valid
// pairs, repeats. Every case starts with a fixed unrelated priming call, so a shrunk case replays in a fresh process.
func genHistory(g *Gen) (steps w.List, tag string, ok bool) {
	h, v := lineZooms(g)
	if g.Chance(0.5) {
		h, v = g.Zoom(), g.Zoom()
	}
	var s seg
	for {
		s = genSegment(g, h, v)
		if s.kind != "identical" && s.kind != "tiny" && cells(s, h, v) <= 12 {
			break
		}
	}
	p1, ok1 := storedVal(s.a)
	p2, ok2 := storedVal(s.b)
	// a second, related segment: same start, other end
	cl, ca := cellLon(h), cellAlt(v)
	q2, ok3 := storedVal([3]float64{s.b[0] + (g.R.Float64()*2-1)*3*cl, s.b[1] + (g.R.Float64()*2-1)*3*cl*math.Cos(s.b[1]*math.Pi/180), s.b[2] + (g.R.Float64()*2-1)*3*ca})
	// both ends in one voxel
	t2, ok4 := storedVal([3]float64{s.a[0] + 1e-4*cl*g.R.Float64(), s.a[1], s.a[2]})
	if !(ok1 && ok2 && ok3 && ok4) {
		return nil, "", false
	}
	pr1, _ := storedVal([3]float64{139.7531, 35.6851, 12.5})
	pr2, _ := storedVal([3]float64{139.7533, 35.6853, 40.5})
	steps = w.List{stepExt(pr1, pr2, 20, 20)}
	bad := badZooms[g.Intn(4)]
	switch g.Intn(10) {
	case 0: // same points, same hZoom, other vZoom, and back
		tag = "same-points-other-vzoom"
		v2 := g.Int63n(v + 1) // coarser, or up to three levels finer (keeps the segment small)
		if v2 == v || g.Chance(0.5) {
			v2 = v + 1 + g.Int63n(3)
			if v2 > 35 {
				v2 = v - 1
			}
		}
		if v2 < 0 {
			v2 = 1
		}
		steps = append(steps, stepExt(p1, p2, h, v), stepExt(p1, p2, h, v2), stepExt(p1, p2, h, v))
	case 1: // same points, other hZoom (coarser, to stay small)
		tag = "same-points-other-hzoom"
		h2 := g.Int63n(h + 1)
		if h2 == h && h > 0 {
			h2 = h - 1
		}
		steps = append(steps, stepExt(p1, p2, h, v), stepExt(p1, p2, h2, v), stepExt(p1, p2, h, v))
	case 2: // same zooms, other points, and back
		tag = "same-zooms-other-points"
		steps = append(steps, stepExt(p1, p2, h, v), stepExt(p1, q2, h, v), stepExt(p2, p1, h, v), stepExt(p1, p2, h, v))
	case 3: // invalid then valid with the same remaining arguments
		tag = "invalid-then-valid"
		switch g.Intn(3) {
		case 0:
			steps = append(steps, stepExt(p1, p2, h, bad), stepExt(p1, p2, h, v))
		case 1:
			steps = append(steps, stepExt(p1, p2, bad, v), stepExt(p1, p2, h, v))
		default:
			steps = append(steps, stepExt(w.Nil{}, p2, h, v), stepExt(p1, w.Nil{}, h, v), stepExt(p1, p2, h, v))
		}
	case 4: // valid, invalid, the same invalid again, valid again
		tag = "valid-invalid-invalid"
		steps = append(steps, stepExt(p1, p2, h, v), stepExt(p1, p2, h, bad), stepExt(p1, p2, h, bad), stepExt(p1, p2, h, v))
	case 5: // identical calls
		tag = "repeat"
		steps = append(steps, stepExt(p1, p2, h, v), stepExt(p1, p2, h, v), stepExt(p1, p2, h, v))
	case 6: // both forms interleaved on the same input
		tag = "sid-ext-interleaved"
		steps = append(steps, stepSid(p1, p2, h), stepExt(p1, p2, h, h), stepSid(p1, p2, h), stepSid(p1, q2, h))
	case 7: // a single-voxel answer, then a line (and the reverse)
		tag = "single-then-line"
		if g.Chance(0.5) {
			steps = append(steps, stepSid(p1, t2, h), stepSid(p1, p2, h), stepSid(p1, t2, h))
		} else {
			steps = append(steps, stepExt(p1, t2, h, v), stepExt(p1, p2, h, v), stepExt(p1, t2, h, v))
		}
	case 8: // invalid spatial-ID call between valid ones
		tag = "sid-valid-invalid-valid"
		steps = append(steps, stepSid(p1, p2, h), stepSid(p1, p2, bad), stepSid(p1, p2, bad), stepSid(p1, p2, h))
	default: // same zooms, a sequence of different segments sharing an end point
		tag = "chain-of-segments"
		steps = append(steps, stepExt(p1, p2, h, v), stepExt(p2, q2, h, v), stepExt(q2, p1, h, v), stepExt(p1, p2, h, v))
	}
	return steps, tag, true
}

// segments within a few ulps of the meridian +-180 / ending exactly at 180 or -180: float midpoints round to exactly 180.0, which the
// code folds onto column 0 (longitude is cyclic), at intermediate rows and altitudes
func genNear180(g *Gen, h, v int64) seg {
	cl, ca := cellLon(h), cellAlt(v)
	near := func() float64 {
		sg := sgn(g)
		return sg * Ulp(180, -g.Intn(7))
	}
	lat := g.R.Float64()*160 - 80
	if g.Chance(0.2) {
		lat = 0
	}
	alt := (g.R.Float64()*2 - 1) * 1000
	if g.Chance(0.2) {
		alt = (g.R.Float64()*2 - 1) * 3.0e7
	}
	k := 1 + g.R.Float64()*8
	cy := cl * math.Cos(lat*math.Pi/180)
	s := seg{kind: "near-180"}
	a0 := near()
	var b0 float64
	switch g.Intn(4) {
	case 0, 1: // both ends within a few ulps of the same meridian side
		b0 = math.Copysign(Ulp(180, -g.Intn(7)), a0)
	case 2: // the other end a few cells inside
		b0 = a0 - math.Copysign(g.R.Float64()*k*cl, a0)
	default: // exactly on the meridian and one ulp-ish inside
		a0 = math.Copysign(180, a0)
		b0 = math.Copysign(Ulp(180, -1-g.Intn(3)), a0)
	}
	s.a = [3]float64{a0, lat, alt}
	s.b = [3]float64{b0, lat + (g.R.Float64()*2-1)*k*cy*g.PickF(0, 1, 1), alt + (g.R.Float64()*2-1)*k*ca*g.PickF(0, 1, 1)}
	if g.Chance(0.5) {
		s.a, s.b = s.b, s.a
	}
	return s
}

var badZooms = []int64{-1, 36, 37, 100, -36, math.MinInt64, math.MaxInt64}

func init() {
	Scale["C06"] = 450
	Registry["C06"] = func(r *run.Runner, g *Gen, n int) {
		MathOracles(r)
		r.Register(fnLine(), fnLineSid(), fnSidVsExt(), fnHistory())
		hwm := int64(0)
		nodeFail := 0 // runs of the model in which some visited node failed its A1/A2 check
		if n > 0 { // the recorded witness of finding class retruncation_unstable_endpoint (DESIGN.md 5.3, D14): row ...392 is missing
			_, p1, _ := StoredPoint(45.72633137829496, -80.75007534638786, 639.72)
			_, p2, _ := StoredPoint(45.72633138036946, -80.75007530962435, 639.72)
			r.Run(run.Case{Prop: "C06", Fn: "GetExtendedSpatialIdsOnLine", Tags: []string{"d14-witness"},
				Args: []w.Val{p1, p2, w.I(34), w.I(6)}})
			// same start point, constant latitude: the segment lies in row ...393, the code returns columns in row ...392
			_, p3, _ := StoredPoint(45.7263315, -80.75007534638786, 639.72)
			r.Run(run.Case{Prop: "C06", Fn: "GetExtendedSpatialIdsOnLine", Tags: []string{"d14-const-lat-witness"},
				Args: []w.Val{p1, p3, w.I(34), w.I(6)}})
		}
		if n > 0 { // regression cases (thorough run, seed 1): float midpoints that round to longitude 180.0 and are folded onto column 0
			r.Run(run.Case{Prop: "C06", Fn: "GetSpatialIdsOnLine", Tags: []string{"regress-midpoint-rounds-to-180"},
				Args: []w.Val{w.L(w.F(FBits(0x40667ffffffffffe)), w.F(FBits(0xc04317c7d72a6ce8)), w.F(FBits(0x416b894780000000))),
					w.L(w.F(FBits(0x4066800000000000)), w.F(FBits(0xc04317c8e5442d7b)), w.F(FBits(0x416b894780000000))), w.I(25)}})
			r.Run(run.Case{Prop: "C06", Fn: "GetExtendedSpatialIdsOnLine", Tags: []string{"regress-midpoint-rounds-to-180"},
				Args: []w.Val{w.L(w.F(FBits(0x4066800000000000)), w.F(0), w.F(FBits(0xc08ad80000000000))),
					w.L(w.F(FBits(0x40667ffffffffffe)), w.F(0), w.F(FBits(0xc08adf64e29fb5d1))), w.I(2), w.I(28)}})
		}
		for i := 0; i < n; i++ {
			if i%8 == 1 { // call histories
				if steps, tag, ok := genHistory(g); ok {
					reuse, mutate := g.Chance(0.5), g.Chance(0.7)
					r.Run(run.Case{Prop: "C06", Fn: "LineHistory",
						Tags: []string{"history", "history=" + tag, Tag("history-reuse-objects=%v", reuse), Tag("history-mutate-results=%v", mutate)},
						Args: []w.Val{w.B(reuse), w.B(mutate), steps}})
				}
				continue
			}
			h, v := lineZooms(g)
			cmp := i%15 == 8 // both exported functions on the same input
			sid := i%6 == 4 || cmp
			if sid {
				if g.Chance(0.5) {
					v = h
				} else {
					h = v
				}
			}
			var s seg
			for {
				s = genSegment(g, h, v)
				if cells(s, h, v) <= 45 {
					break
				}
			}
			if i%11 == 2 {
				s, h, v = genSwitch(g)
				if sid {
					if g.Chance(0.5) {
						v = h
					} else {
						h = v
					}
				}
			}
			if i%9 == 4 {
				s = genMidOnBoundary(g, h, v)
			}
			if i%7 == 3 {
				h = g.Pick(35, 34, 35, 34, 35, 33)
				if sid {
					v = h
				}
				s = genHighLat(g, h, v)
			}
			if i%9 == 7 {
				h = g.Pick(2, 3, 4, 5, 6, 2, 3, 4)
				if sid {
					v = h
				} else if g.Chance(0.5) {
					v = g.Pick(0, 1, 2, 3, 4, 5, 6)
				}
				s = genFullSpan(g, h, v)
			}
			if i%50 == 20 {
				if h < 12 {
					h = 12 + g.Int63n(24)
					if sid {
						v = h
					}
				}
				for {
					s = genLong(g, h, v)
					if c := cells(s, h, v); c <= 320 {
						break
					}
				}
			}
			if i%10 == 0 {
				s, h, v = genVAboveH(g)
				if sid {
					sid, cmp = false, false
				}
			}
			if i%14 == 9 {
				s = genNear180(g, h, v)
			}
			if i%12 == 5 { // an end point that is not stable under re-storing (the recorded finding class)
				h = g.Pick(35, 34, 33, 32, 31, 30)
				if sid {
					v = h
				}
				if u, ok := genUnstable(g, h, v); ok {
					s = u
				}
			}
			// the judged domain: on the map, |alt| <= 2^25
			for _, q := range []*[3]float64{&s.a, &s.b} {
				q[0] = clamp(q[0], -180, 180)
				q[1] = clamp(q[1], -LatMax, LatMax)
				q[2] = clamp(q[2], -33554432, 33554432)
			}
			_, p1, ok1 := StoredPoint(s.a[0], s.a[1], s.a[2])
			_, p2, ok2 := StoredPoint(s.b[0], s.b[1], s.b[2])
			if !ok1 || !ok2 {
				continue
			}
			if i%20 == 6 { // the caller stored the start latitude twice (SetLat(p.Lat())): another stored value
				l := w.AsList(p1)
				if _, q, ok := StoredPoint(w.AsFlt(l[0]), w.AsFlt(l[1]), w.AsFlt(l[2])); ok {
					p1 = q
				}
			}
			tags := []string{Tag("hzoom=%d", h), Tag("vzoom=%d", v), "kind=" + s.kind}
			triv := s.kind == "identical"
			if i%25 == 11 { // malformed: nil pointers, zooms outside 0..35
				tags = []string{"malformed"}
				triv = false
				switch g.Intn(5) {
				case 0:
					p1 = w.Nil{}
					tags = append(tags, "nil-start")
				case 1:
					p2 = w.Nil{}
					tags = append(tags, "nil-end")
				case 2:
					p1, p2 = w.Nil{}, w.Nil{}
					tags = append(tags, "nil-both")
				case 3:
					h = badZooms[g.Intn(len(badZooms))]
					if sid {
						v = h
					}
					tags = append(tags, "bad-hzoom")
				default:
					v = badZooms[g.Intn(len(badZooms))]
					if sid {
						h = v
					}
					tags = append(tags, "bad-vzoom")
				}
			}
			var vd run.Verdict
			if cmp {
				r.Run(run.Case{Prop: "C06", Fn: "LineSidVsExt", Tags: append(tags, "sid-vs-ext"), Trivial: triv,
					Args: []w.Val{p1, p2, w.I(h)}})
				continue
			}
			if sid {
				vd = r.Run(run.Case{Prop: "C06", Fn: "GetSpatialIdsOnLine", Tags: append(tags, "sid"), Trivial: triv,
					Args: []w.Val{p1, p2, w.I(h)}})
			} else {
				vd = r.Run(run.Case{Prop: "C06", Fn: "GetExtendedSpatialIdsOnLine", Tags: tags, Trivial: triv,
					Args: []w.Val{p1, p2, w.I(h), w.I(v)}})
			}
			// the model reports the deepest recursion level it needed (fuel is 64)
			if l, ok := vd.Model.(w.List); ok && len(l) == 3 {
				if b, ok := l[2].(w.Bool); ok && !bool(b) {
					nodeFail++
				}
				if d, ok := l[1].(w.Int); ok && d.V.IsInt64() && d.V.Int64() > hwm {
					hwm = d.V.Int64()
				}
				if ids, ok := l[0].(w.List); ok {
					r.Sum.Tags[Tag("voxels<=%d", bucket(len(ids)))]++
				}
			}
		}
		if n > 0 {
			r.Sum.Tags[Tag("STAT fuel_high_water_mark=%d (of 64)", hwm)] = 1
			r.Sum.Tags[Tag("STAT runs_with_a_failed_A1A2_node_check=%d", nodeFail)] = 1
		}
	}
}

func bucket(n int) int {
	for _, b := range []int{0, 1, 2, 5, 10, 20, 50, 100, 200, 500} {
		if n <= b {
			return b
		}
	}
	return 100000
}
