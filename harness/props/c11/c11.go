// Package c11: property C11 (quadkeys = bit interleaving, exact round trip, pair groups of the key conversions).
package c11

import (
	"fmt"
	"math"
	"math/big"
	"strconv"
	"strings"

	"github.com/trajectoryjp/spatial_id_go/v4/common/object"
	"github.com/trajectoryjp/spatial_id_go/v4/transform"

	. "verif/harness/gen"
	"verif/harness/run"
	w "verif/harness/wire"
)

// ---------------------------------------------------------------------------------------------- invokers

func fnEncode() *run.Fn {
	return &run.Fn{Name: "HorizontalIDToQuadkey", Invoke: func(a []w.Val) w.Val {
		if n, ok := parseFields(w.AsStr(a[0]), 3); !ok || !small(n[0]) || n[0] > 31 {
			return skipped // from zoom 32 on the int64 sum wraps: outside the judged range
		}
		return w.I(transform.VerifConvertHorizontalIDToQuadkey(w.AsStr(a[0])))
	}}
}
func fnDecode() *run.Fn {
	return &run.Fn{Name: "QuadkeyToHorizontalID", Invoke: func(a []w.Val) w.Val {
		x, y := transform.VerifConvertQuadkeyToHorizontalID(w.AsInt(a[0]), w.AsInt(a[1]))
		return w.L(w.I(x), w.I(y))
	}}
}
func fnRoundTripKey() *run.Fn {
	return &run.Fn{Name: "QuadkeyRoundTrip", Invoke: func(a []w.Val) w.Val {
		h, x, y := w.AsInt(a[0]), w.AsInt(a[1]), w.AsInt(a[2])
		key := transform.VerifConvertHorizontalIDToQuadkey(fmt.Sprintf("%d/%d/%d", h, x, y))
		x2, y2 := transform.VerifConvertQuadkeyToHorizontalID(key, h)
		return w.L(w.I(key), w.I(x2), w.I(y2))
	}}
}
func fnDedup() *run.Fn {
	return &run.Fn{Name: "DeleteDuplicationList", Invoke: func(a []w.Val) w.Val {
		return w.Strs(transform.VerifDeleteDuplicationList(w.AsStrs(a[0])))
	}}
}
func fnQCheck() *run.Fn {
	return &run.Fn{Name: "QuadkeyCheckZoom", Invoke: func(a []w.Val) w.Val {
		return w.B(transform.VerifQuadkeyCheckZoom(w.AsInt(a[0]), w.AsInt(a[1])))
	}}
}

func pairsVal(ps [][2]int64) w.Val {
	l := make(w.List, len(ps))
	for i, p := range ps {
		l[i] = w.L(w.I(p[0]), w.I(p[1]))
	}
	return l
}
func groupsVal(gs []*object.FromExtendedSpatialIDToQuadkeyAndVerticalID) w.Val {
	l := make(w.List, 0, len(gs))
	for _, g := range gs {
		if g == nil {
			l = append(l, w.Nil{})
			continue
		}
		l = append(l, w.L(w.I(g.QuadkeyZoom()), w.I(g.VerticalZoom()), w.F(g.MaxHeight()), w.F(g.MinHeight()), pairsVal(g.InnerIDList())))
	}
	return l
}
func groupsAltVal(gs []*object.FromExtendedSpatialIDToQuadkeyAndAltitudekey) w.Val {
	l := make(w.List, 0, len(gs))
	for _, g := range gs {
		if g == nil {
			l = append(l, w.Nil{})
			continue
		}
		l = append(l, w.L(w.I(g.QuadkeyZoom()), w.I(g.AltitudekeyZoom()), w.I(g.ZBaseExponent()), w.I(g.ZBaseOffset()), pairsVal(g.InnerIDList())))
	}
	return l
}
func itemsFromVal(v w.Val) []*object.QuadkeyAndVerticalID {
	var r []*object.QuadkeyAndVerticalID
	for _, it := range w.AsList(v) {
		f := w.AsList(it)
		r = append(r, object.NewQuadkeyAndVerticalID(w.AsInt(f[0]), w.AsInt(f[1]), w.AsInt(f[2]), w.AsInt(f[3]), w.AsFlt(f[4]), w.AsFlt(f[5])))
	}
	return r
}

// ---- size guards: the generators bound the output size of every call, the runner's shrinker does not. A call whose output would be
// huge is not made; the model side answers bad-case for the marker (a shrink candidate is then discarded).
const costLimit = 2000

var skipped = w.S("skipped: output too large")

func cost1(h, v, oh, ov int64) float64 {
	dh, dv := oh-h, ov-v
	if dh < 0 {
		dh = 0
	}
	if dv < 0 {
		dv = 0
	}
	if dh > 8 || dv > 16 {
		return math.Inf(1)
	}
	return math.Pow(4, float64(dh)) * math.Pow(2, float64(dv))
}
func parseFields(s string, n int) ([]int64, bool) {
	fs := strings.Split(s, "/")
	if len(fs) != n {
		return nil, false
	}
	r := make([]int64, n)
	for i, f := range fs {
		x, err := strconv.ParseInt(f, 10, 64)
		if err != nil {
			return nil, false
		}
		r[i] = x
	}
	return r, true
}
func idsCost(ids []string, sid bool, oh, ov int64, mult float64) float64 {
	t := 0.0
	for _, s := range ids {
		if sid {
			if n, ok := parseFields(s, 4); ok {
				t += cost1(n[0], n[0], oh, ov) * mult
			}
		} else if n, ok := parseFields(s, 5); ok {
			t += cost1(n[0], n[3], oh, ov) * mult
		}
	}
	return t
}
func small(z int64) bool { return -64 <= z && z <= 64 }
func idsCostAlt(ids []string, oq, oa, E, O int64) float64 {
	t := 0.0
	for _, s := range ids {
		n, ok := parseFields(s, 5)
		if !ok {
			continue
		}
		if !small(n[3]) || !small(oa) || !small(E) {
			return math.Inf(1)
		}
		mn, mx, err := transform.ConvertZToMinMaxAltitudekey(n[4], n[3], oa, E, O)
		if err != nil {
			continue
		}
		c := float64(mx) - float64(mn) + 1
		if c < 0 {
			c = 0
		}
		t += cost1(n[0], 0, oq, 0) * c
	}
	return t
}
func itemsCost(v w.Val, oh, ov int64) float64 {
	t := 0.0
	for _, it := range w.AsList(v) {
		f := w.AsList(it)
		t += cost1(w.AsInt(f[0]), w.AsInt(f[2]), oh, ov)
	}
	return t
}

func fnE2Q() *run.Fn {
	return &run.Fn{Name: "E2Q", Invoke: func(a []w.Val) w.Val {
		if idsCost(w.AsStrs(a[0]), false, w.AsInt(a[1]), w.AsInt(a[2]), 1) > costLimit {
			return skipped
		}
		gs, err := transform.ConvertExtendedSpatialIDsToQuadkeysAndVerticalIDs(w.AsStrs(a[0]), w.AsInt(a[1]), w.AsInt(a[2]), w.AsFlt(a[3]), w.AsFlt(a[4]))
		return w.WithErr(groupsVal(gs), err)
	}}
}
func fnS2Q() *run.Fn {
	return &run.Fn{Name: "S2Q", Invoke: func(a []w.Val) w.Val {
		if idsCost(w.AsStrs(a[0]), true, w.AsInt(a[1]), w.AsInt(a[2]), 1) > costLimit {
			return skipped
		}
		gs, err := transform.ConvertSpatialIDsToQuadkeysAndVerticalIDs(w.AsStrs(a[0]), w.AsInt(a[1]), w.AsInt(a[2]), w.AsFlt(a[3]), w.AsFlt(a[4]))
		return w.WithErr(groupsVal(gs), err)
	}}
}
func fnE2QA() *run.Fn {
	return &run.Fn{Name: "E2QA", Invoke: func(a []w.Val) w.Val {
		if idsCostAlt(w.AsStrs(a[0]), w.AsInt(a[1]), w.AsInt(a[2]), w.AsInt(a[3]), w.AsInt(a[4])) > costLimit {
			return skipped
		}
		gs, err := transform.ConvertExtendedSpatialIDsToQuadkeysAndAltitudekeys(w.AsStrs(a[0]), w.AsInt(a[1]), w.AsInt(a[2]), w.AsInt(a[3]), w.AsInt(a[4]))
		return w.WithErr(groupsAltVal(gs), err)
	}}
}
func fnQ2E() *run.Fn {
	return &run.Fn{Name: "Q2E", Invoke: func(a []w.Val) w.Val {
		if itemsCost(a[0], w.AsInt(a[1]), w.AsInt(a[2])) > costLimit {
			return skipped
		}
		ids, err := transform.ConvertQuadkeysAndVerticalIDsToExtendedSpatialIDs(itemsFromVal(a[0]), w.AsInt(a[1]), w.AsInt(a[2]))
		return w.WithErr(w.Strs(ids), err)
	}}
}
func fnQ2S() *run.Fn {
	return &run.Fn{Name: "Q2S", Invoke: func(a []w.Val) w.Val {
		if itemsCost(a[0], w.AsInt(a[1]), w.AsInt(a[1])) > costLimit {
			return skipped
		}
		ids, err := transform.ConvertQuadkeysAndVerticalIDsToSpatialIDs(itemsFromVal(a[0]), w.AsInt(a[1]))
		return w.WithErr(w.Strs(ids), err)
	}}
}

// IDs -> groups at (oh, ov) -> every pair of every group back to IDs at (bh, bv); observed [groups; back]
func fnRoundTrip() *run.Fn {
	return &run.Fn{Name: "RoundTrip", Invoke: func(a []w.Val) w.Val {
		if idsCost(w.AsStrs(a[0]), false, w.AsInt(a[1]), w.AsInt(a[2]), cost1(w.AsInt(a[1]), w.AsInt(a[2]), w.AsInt(a[5]), w.AsInt(a[6]))) > costLimit {
			return skipped
		}
		gs, err := transform.ConvertExtendedSpatialIDsToQuadkeysAndVerticalIDs(w.AsStrs(a[0]), w.AsInt(a[1]), w.AsInt(a[2]), w.AsFlt(a[3]), w.AsFlt(a[4]))
		if err != nil {
			return w.Err{V: w.Nil{}}
		}
		var items []*object.QuadkeyAndVerticalID
		for _, g := range gs {
			for _, p := range g.InnerIDList() {
				items = append(items, object.NewQuadkeyAndVerticalID(g.QuadkeyZoom(), p[0], g.VerticalZoom(), p[1], g.MaxHeight(), g.MinHeight()))
			}
		}
		// the groups come from the implementation: if their zooms are not the requested ones the second call could be huge; report the
		// groups with an unusable second component instead (the checker then rejects the observation)
		second := 0.0
		for _, g := range gs {
			second += cost1(g.QuadkeyZoom(), g.VerticalZoom(), w.AsInt(a[5]), w.AsInt(a[6])) * float64(len(g.InnerIDList()))
		}
		if second > 4*costLimit {
			return w.L(groupsVal(gs), w.S("second call not made: too large"))
		}
		back, err := transform.ConvertQuadkeysAndVerticalIDsToExtendedSpatialIDs(items, w.AsInt(a[5]), w.AsInt(a[6]))
		if err != nil {
			return w.Err{V: w.Nil{}}
		}
		return w.L(groupsVal(gs), w.Strs(back))
	}}
}

// ---- Params: constructor + setter sequences on the quadkey-side objects, read back through every getter.
// args [slices; steps]; step = [target 0/1; kind; ...]; observed [snapshots after every step (both objects); the caller's slices at the end]
type paramObj struct {
	v *object.FromExtendedSpatialIDToQuadkeyAndVerticalID
	a *object.FromExtendedSpatialIDToQuadkeyAndAltitudekey
	q *object.QuadkeyAndVerticalID
}

func pairsOrdered(ps [][2]int64) w.Val {
	l := make(w.List, len(ps))
	for i, p := range ps {
		l[i] = w.L(w.I(p[0]), w.I(p[1]))
	}
	return l
}
func (o *paramObj) snap() w.Val {
	switch {
	case o.v != nil:
		return w.L(w.L(w.I(o.v.QuadkeyZoom()), w.I(o.v.VerticalZoom())), w.L(w.F(o.v.MaxHeight()), w.F(o.v.MinHeight())), pairsOrdered(o.v.InnerIDList()))
	case o.a != nil:
		return w.L(w.L(w.I(o.a.QuadkeyZoom()), w.I(o.a.AltitudekeyZoom()), w.I(o.a.ZBaseExponent()), w.I(o.a.ZBaseOffset())), w.L(), pairsOrdered(o.a.InnerIDList()))
	case o.q != nil:
		return w.L(w.L(w.I(o.q.QuadkeyZoom()), w.I(o.q.Quadkey()), w.I(o.q.VZoom()), w.I(o.q.VIndex())), w.L(w.F(o.q.MaxHeight()), w.F(o.q.MinHeight())), w.L())
	}
	return w.L(w.L(), w.L(), w.L())
}
// shape and applicability of a step list (the runner's shrinker can drop a constructor or mangle a step): the model refuses the same lists
func paramsValid(a []w.Val) bool {
	isInt := func(v w.Val) bool { i, ok := v.(w.Int); return ok && i.V.IsInt64() }
	isFlt := func(v w.Val) bool { _, ok := v.(w.Flt); return ok }
	isStr := func(v w.Val) bool { _, ok := v.(w.Str); return ok }
	sl, ok := a[0].(w.List)
	if !ok {
		return false
	}
	for _, sv := range sl {
		l, ok := sv.(w.List)
		if !ok {
			return false
		}
		for _, pv := range l {
			f, ok := pv.(w.List)
			if !ok || len(f) != 2 || !isInt(f[0]) || !isInt(f[1]) {
				return false
			}
		}
	}
	steps, ok := a[1].(w.List)
	if !ok || len(steps) > 64 {
		return false
	}
	kinds := [2]int{-1, -1}
	zset := [][]string{{"SetQuadkeyZoom", "SetVerticalZoom"}, {"SetQuadkeyZoom", "SetAltitudekeyZoom", "SetZBaseExponent", "SetZBaseOffset"}, {"SetQuadkeyZoom", "SetQuadkey", "SetVZoom", "SetVIndex"}}
	for _, sv := range steps {
		f, ok := sv.(w.List)
		if !ok || len(f) < 2 || !isInt(f[0]) || !isStr(f[1]) {
			return false
		}
		t := 0
		if w.AsInt(f[0]) != 0 {
			t = 1
		}
		ints := func(from, to int) bool {
			for i := from; i < to; i++ {
				if !isInt(f[i]) {
					return false
				}
			}
			return true
		}
		switch w.AsStr(f[1]) {
		case "NewV":
			if len(f) != 7 || !ints(2, 5) || !isFlt(f[5]) || !isFlt(f[6]) || w.AsInt(f[3]) < -1 {
				return false
			}
			kinds[t] = 0
		case "NewA":
			if len(f) != 7 || !ints(2, 7) || w.AsInt(f[3]) < -1 {
				return false
			}
			kinds[t] = 1
		case "NewQ":
			if len(f) != 8 || !ints(2, 6) || !isFlt(f[6]) || !isFlt(f[7]) {
				return false
			}
			kinds[t] = 2
		case "SetZ":
			if len(f) != 4 || !isStr(f[2]) || !isInt(f[3]) || kinds[t] < 0 {
				return false
			}
			found := false
			for _, n := range zset[kinds[t]] {
				found = found || n == w.AsStr(f[2])
			}
			if !found {
				return false
			}
		case "SetF":
			if len(f) != 4 || !isStr(f[2]) || !isFlt(f[3]) || kinds[t] < 0 || kinds[t] == 1 || (w.AsStr(f[2]) != "SetMaxHeight" && w.AsStr(f[2]) != "SetMinHeight") {
				return false
			}
		case "SetInner":
			if len(f) != 3 || !isInt(f[2]) || w.AsInt(f[2]) < -1 || kinds[t] < 0 || kinds[t] == 2 {
				return false
			}
		case "CallerWrite":
			if len(f) != 6 || !ints(2, 6) || w.AsInt(f[2]) < 0 || w.AsInt(f[3]) < 0 {
				return false
			}
		case "GetterWrite":
			if len(f) != 5 || !ints(2, 5) || w.AsInt(f[2]) < 0 || kinds[t] < 0 {
				return false
			}
		default:
			return false
		}
	}
	return true
}

func fnParams() *run.Fn {
	return &run.Fn{Name: "Params", Invoke: func(a []w.Val) w.Val {
		if len(a) != 2 || !paramsValid(a) {
			return w.S("refused: not a well-formed step list")
		}
		var slices [][][2]int64
		for _, sv := range w.AsList(a[0]) {
			sl := [][2]int64{}
			for _, pv := range w.AsList(sv) {
				f := w.AsList(pv)
				sl = append(sl, [2]int64{w.AsInt(f[0]), w.AsInt(f[1])})
			}
			slices = append(slices, sl)
		}
		ref := func(v w.Val) [][2]int64 {
			i := w.AsInt(v)
			if i < 0 || int(i) >= len(slices) {
				return nil
			}
			return slices[i]
		}
		objs := [2]*paramObj{{}, {}}
		snaps := w.List{}
		for _, sv := range w.AsList(a[1]) {
			f := w.AsList(sv)
			o := objs[0]
			if w.AsInt(f[0]) != 0 {
				o = objs[1]
			}
			switch w.AsStr(f[1]) {
			case "NewV":
				*o = paramObj{v: object.NewFromExtendedSpatialIDToQuadkeyAndVerticalID(w.AsInt(f[2]), ref(f[3]), w.AsInt(f[4]), w.AsFlt(f[5]), w.AsFlt(f[6]))}
			case "NewA":
				*o = paramObj{a: object.NewFromExtendedSpatialIDToQuadkeyAndAltitudekey(w.AsInt(f[2]), ref(f[3]), w.AsInt(f[4]), w.AsInt(f[5]), w.AsInt(f[6]))}
			case "NewQ":
				*o = paramObj{q: object.NewQuadkeyAndVerticalID(w.AsInt(f[2]), w.AsInt(f[3]), w.AsInt(f[4]), w.AsInt(f[5]), w.AsFlt(f[6]), w.AsFlt(f[7]))}
			case "SetZ":
				z := w.AsInt(f[3])
				switch name := w.AsStr(f[2]); {
				case o.v != nil && name == "SetQuadkeyZoom":
					o.v.SetQuadkeyZoom(z)
				case o.v != nil && name == "SetVerticalZoom":
					o.v.SetVerticalZoom(z)
				case o.a != nil && name == "SetQuadkeyZoom":
					o.a.SetQuadkeyZoom(z)
				case o.a != nil && name == "SetAltitudekeyZoom":
					o.a.SetAltitudekeyZoom(z)
				case o.a != nil && name == "SetZBaseExponent":
					o.a.SetZBaseExponent(z)
				case o.a != nil && name == "SetZBaseOffset":
					o.a.SetZBaseOffset(z)
				case o.q != nil && name == "SetQuadkeyZoom":
					o.q.SetQuadkeyZoom(z)
				case o.q != nil && name == "SetQuadkey":
					o.q.SetQuadkey(z)
				case o.q != nil && name == "SetVZoom":
					o.q.SetVZoom(z)
				case o.q != nil && name == "SetVIndex":
					o.q.SetVIndex(z)
				default:
					panic("harness: Params: setter " + name + " does not exist for this object")
				}
			case "SetF":
				x := w.AsFlt(f[3])
				switch name := w.AsStr(f[2]); {
				case o.v != nil && name == "SetMaxHeight":
					o.v.SetMaxHeight(x)
				case o.v != nil && name == "SetMinHeight":
					o.v.SetMinHeight(x)
				case o.q != nil && name == "SetMaxHeight":
					o.q.SetMaxHeight(x)
				case o.q != nil && name == "SetMinHeight":
					o.q.SetMinHeight(x)
				default:
					panic("harness: Params: setter " + name + " does not exist for this object")
				}
			case "SetInner":
				switch {
				case o.v != nil:
					o.v.SetInnerIDList(ref(f[2]))
				case o.a != nil:
					o.a.SetInnerIDList(ref(f[2]))
				default:
					panic("harness: Params: SetInnerIDList does not exist for this object")
				}
			case "CallerWrite": // the caller writes into its own slice after handing it over
				sid, idx := w.AsInt(f[2]), w.AsInt(f[3])
				if int(sid) < len(slices) && int(idx) < len(slices[sid]) {
					slices[sid][idx] = [2]int64{w.AsInt(f[4]), w.AsInt(f[5])}
				}
			case "GetterWrite": // a write through the slice the getter returned
				var l [][2]int64
				switch {
				case o.v != nil:
					l = o.v.InnerIDList()
				case o.a != nil:
					l = o.a.InnerIDList()
				}
				if idx := w.AsInt(f[2]); int(idx) < len(l) {
					l[idx] = [2]int64{w.AsInt(f[3]), w.AsInt(f[4])}
				}
			}
			snaps = append(snaps, w.L(objs[0].snap(), objs[1].snap()))
		}
		fin := w.List{}
		for _, sl := range slices {
			fin = append(fin, pairsOrdered(sl))
		}
		return w.L(snaps, fin)
	}}
}

// ---------------------------------------------------------------------------------------------- generators

func min64(a, b int64) int64 {
	if a < b {
		return a
	}
	return b
}

func clamp(v, lo, hi int64) int64 {
	if v < lo {
		return lo
	}
	if v > hi {
		return hi
	}
	return v
}

// quadkey zoom: 1..31, edges forced
func qzoom(g *Gen) int64 {
	if g.Chance(0.4) { // edges, and the zooms whose keys exceed 2^53
		return g.Pick(1, 2, 27, 28, 29, 30, 31, 31)
	}
	return 1 + g.Int63n(31)
}

// an index 0 <= x < 2^h: 0, all ones, alternating bit patterns, leading zero bits, single bits, uniform
func hidx(g *Gen, h int64) int64 {
	if h <= 0 {
		return 0
	}
	ww := int64(1) << uint(h)
	switch g.Intn(10) {
	case 0:
		return 0
	case 1:
		return ww - 1
	case 2:
		return 0x5555555555555555 & (ww - 1)
	case 3:
		return 0x2AAAAAAAAAAAAAAA & (ww - 1)
	case 4, 5: // leading zero bits (the key then has leading zero digits, absent from the base-4 string)
		return g.Int63n(ww) >> uint(g.Intn(int(h)+1))
	case 6:
		return int64(1) << uint(g.Intn(int(h)))
	case 7: // high bits and low bits set
		return (ww/2 | g.Int63n(ww) | 1) & (ww - 1)
	}
	return g.Int63n(ww)
}

func pow4(z int64) int64 { return int64(1) << uint(2*z) }

// reference interleave used only to build inputs of the decoder (keys with chosen shapes)
func mkKey(h, x, y int64) int64 {
	var k int64
	for i := int64(0); i < h; i++ {
		k |= ((x >> uint(i)) & 1) << uint(2*i)
		k |= ((y >> uint(i)) & 1) << uint(2*i+1)
	}
	return k
}

type emitter struct {
	r    *run.Runner
	g    *Gen
	last func() // re-emits a case related to the previous one
}

func (e *emitter) run(fn string, tags []string, triv bool, args ...w.Val) {
	e.r.Run(run.Case{Prop: "C11", Fn: fn, Tags: append([]string{"fn=" + fn}, tags...), Trivial: triv, Args: args})
}

// ---- key level
func (e *emitter) keyCase() {
	g := e.g
	switch g.Intn(10) {
	case 0, 1, 2: // encoder, in the domain
		h := qzoom(g)
		x, y := hidx(g, h), hidx(g, h)
		e.run("HorizontalIDToQuadkey", []string{Tag("hz=%d", h)}, false, w.S(fmt.Sprintf("%d/%d/%d", h, x, y)))
		e.last = func() { // same tile text at another zoom, and the identical call again
			h2 := clamp(h+g.Pick(-1, 1, 0), 1, 31)
			e.run("HorizontalIDToQuadkey", []string{Tag("hz=%d", h2), "related"}, false, w.S(fmt.Sprintf("%d/%d/%d", h2, x, y)))
			e.run("HorizontalIDToQuadkey", []string{Tag("hz=%d", h), "related"}, false, w.S(fmt.Sprintf("%d/%d/%d", h, x, y)))
		}
	case 3: // encoder outside the grid: indices wider than the zoom (the `i < hZoom` exit), negative, zoom 0, zooms 32..35 with narrow indices
		var h, x, y int64
		switch g.Intn(4) {
		case 0:
			h = qzoom(g)
			x, y = g.Int63n(1<<40), g.Int63n(1<<40)
		case 1:
			h = qzoom(g)
			x, y = hidx(g, h)+(int64(1)<<uint(h)), hidx(g, h)|(int64(1)<<uint(h+g.Int63n(3)))
		case 2:
			h = g.Pick(0, -1, 0, -3)
			x, y = g.Int63n(1<<31), g.Int63n(1<<31)
		default:
			h = qzoom(g)
			x, y = -1-g.Int63n(100), hidx(g, h)
			if g.Chance(0.5) {
				x, y = y, x
			}
		}
		e.run("HorizontalIDToQuadkey", []string{"outside-grid"}, false, w.S(fmt.Sprintf("%d/%d/%d", h, x, y)))
	case 4, 5: // decoder, in the domain: keys with leading zero digits, 0, 4^z-1
		z := qzoom(g)
		var q int64
		switch g.Intn(5) {
		case 0:
			q = 0
		case 1:
			q = pow4(z) - 1
		case 2:
			q = g.Int63n(pow4(z)) >> uint(2*g.Intn(int(z)+1))
		case 3:
			q = mkKey(z, hidx(g, z), hidx(g, z))
		default:
			q = g.Int63n(pow4(z))
		}
		e.run("QuadkeyToHorizontalID", []string{Tag("qz=%d", z)}, false, w.I(q), w.I(z))
		e.last = func() {
			z2 := clamp(z+g.Pick(-1, 1), 1, 31)
			e.run("QuadkeyToHorizontalID", []string{Tag("qz=%d", z2), "related"}, false, w.I(q), w.I(z2))
			e.run("QuadkeyToHorizontalID", []string{Tag("qz=%d", z), "related"}, false, w.I(q), w.I(z))
		}
	case 6: // decoder outside the domain: key >= 4^zoom, negative key, zooms 0, -1, 32, 40
		z := g.Pick(0, -1, 32, 40, qzoom(g), qzoom(g))
		q := g.Int63n(math.MaxInt64)
		if g.Chance(0.5) {
			q >>= uint(g.Intn(63))
		}
		if g.Chance(0.15) {
			q = -q
		}
		e.run("QuadkeyToHorizontalID", []string{"outside-domain"}, false, w.I(q), w.I(z))
	case 7, 8: // both directions
		h := qzoom(g)
		x, y := hidx(g, h), hidx(g, h)
		e.run("QuadkeyRoundTrip", []string{Tag("hz=%d", h)}, false, w.I(h), w.I(x), w.I(y))
		e.last = func() {
			h2 := clamp(h+1, 1, 31)
			e.run("QuadkeyRoundTrip", []string{Tag("hz=%d", h2), "related"}, false, w.I(h2), w.I(x), w.I(y))
			e.run("QuadkeyRoundTrip", []string{Tag("hz=%d", h), "related"}, false, w.I(h), w.I(y), w.I(x))
		}
	default:
		if g.Chance(0.5) {
			h := g.Pick(-1, 0, 1, 2, 30, 31, 32, 33, 35, 36, g.Int63n(40)-2)
			v := g.Pick(-1, 0, 1, 34, 35, 36, g.Int63n(40)-2)
			e.run("QuadkeyCheckZoom", []string{"zoomcheck"}, false, w.I(h), w.I(v))
		} else {
			n := g.Intn(7)
			pool := []string{"1/0", "1/1", "2/-3", "25/7", "", "1/0 ", "a"}
			l := make([]string, n)
			for i := range l {
				l[i] = pool[g.Intn(len(pool))]
			}
			e.run("DeleteDuplicationList", []string{Tag("len=%d", n)}, n == 0, w.Strs(l))
		}
	}
}

// ---- list level
type idspec struct{ h, x, y, v, f int64 }

func (s idspec) eid() string { return EID(s.h, s.x, s.y, s.v, s.f) }

// a list of 0..6 IDs around a base tile at zooms near (h0, v0): repeats, ancestors/descendants (nested), other f, neighbours
func genSpecs(g *Gen, h0, v0 int64, sameZoom bool) []idspec {
	n := g.Intn(7)
	if g.Chance(0.2) {
		n = 1
	}
	return genSpecsN(g, h0, v0, sameZoom, false, n)
}

// sid: spatial IDs (horizontal and vertical zoom are one number): every nested variant moves both zooms together
func genSpecsN(g *Gen, h0, v0 int64, sameZoom, sid bool, n int) []idspec {
	base := idspec{h0, hidx(g, h0), hidx(g, h0), v0, g.VIndex(v0)}
	var l []idspec
	for len(l) < n {
		var s idspec
		k := g.Intn(14)
		if k >= 11 && len(l) > 0 { // the same tile with a vertical index close to a previous one: ranges arrive out of order, with gaps
			p := l[g.Intn(len(l))]
			s = p
			s.f = p.f + g.Pick(-5, -4, -3, -2, -1, 1, 2, 3, 4, 5, 2, 4)
			lim := int64(1) << uint(p.v)
			if s.f >= lim {
				s.f = lim - 1
			}
			if s.f < -lim {
				s.f = -lim
			}
			l = append(l, s)
			continue
		}
		if k >= 11 {
			k = 0
		}
		if sameZoom && (k == 2 || k == 3 || k >= 8) {
			k = 4 + g.Intn(2)
		}
		if sid && len(l) > 0 && (k == 2 || k == 3 || k >= 8) {
			p := l[g.Intn(len(l))]
			d := g.Int63n(3)
			switch {
			case k == 2 || k == 10: // ancestor
				if p.h-d < 0 {
					d = p.h
				}
				s = idspec{p.h - d, p.x >> uint(d), p.y >> uint(d), p.h - d, p.f >> uint(d)}
			case k == 3: // descendant
				if d > 1 {
					d = 1
				}
				if p.h+d > h0+1 || p.h+d > 35 {
					d = 0
				}
				s = idspec{p.h + d, p.x<<uint(d) + g.Int63n(1<<uint(d)), p.y<<uint(d) + g.Int63n(1<<uint(d)), p.h + d, p.f<<uint(d) + g.Int63n(1<<uint(d))}
			default: // the same z/f/x/y numbers one zoom finer (a different voxel)
				s = p
				if p.h+1 <= 35 && p.h+1 <= h0+1 {
					s.h, s.v = p.h+1, p.h+1
				}
			}
			l = append(l, s)
			continue
		}
		switch {
		case len(l) == 0 || k == 0:
			s = base
		case k == 1: // repeat
			s = l[g.Intn(len(l))]
		case k == 2: // ancestor of a previous ID (nested)
			p := l[g.Intn(len(l))]
			dh, dv := g.Int63n(3), g.Int63n(3)
			if p.h-dh < 0 {
				dh = p.h
			}
			if p.v-dv < 0 {
				dv = p.v
			}
			s = idspec{p.h - dh, p.x >> uint(dh), p.y >> uint(dh), p.v - dv, p.f >> uint(dv)}
		case k == 3: // descendant of a previous ID (nested)
			p := l[g.Intn(len(l))]
			dh, dv := g.Int63n(2), g.Int63n(3)
			if p.h+dh > h0+1 || p.h+dh > 35 {
				dh = 0
			}
			if p.v+dv > v0+2 || p.v+dv > 35 {
				dv = 0
			}
			s = idspec{p.h + dh, p.x<<uint(dh) + g.Int63n(1<<uint(dh)), p.y<<uint(dh) + g.Int63n(1<<uint(dh)), p.v + dv, p.f<<uint(dv) + g.Int63n(1<<uint(dv))}
		case k == 4: // same tile, another f
			p := l[g.Intn(len(l))]
			s = p
			s.f = g.VIndex(p.v)
		case k == 5: // neighbour column / row (wrapping inside the grid)
			p := l[g.Intn(len(l))]
			s = p
			m := int64(1)<<uint(p.h) - 1
			s.x = (p.x + g.Pick(1, -1, 0)) & m
			s.y = (p.y + g.Pick(1, -1, 0)) & m
		case k == 8 || k == 9: // the same x, y at another horizontal zoom (a different tile)
			p := l[g.Intn(len(l))]
			s = p
			if p.h > 0 && p.x < int64(1)<<uint(p.h-1) && p.y < int64(1)<<uint(p.h-1) && p.h-1 >= h0-1 && g.Chance(0.5) {
				s.h = p.h - 1
			} else if p.h+1 <= 35 && p.h+1 <= h0+2 {
				s.h = p.h + 1
			}
		case k == 10: // the same tile and index at another vertical zoom
			p := l[g.Intn(len(l))]
			s = p
			if p.v+1 <= 35 && p.v+1 <= v0+2 {
				s.v = p.v + 1
			} else if p.v > 0 && p.v-1 >= v0-1 && p.f >= -(int64(1)<<uint(p.v-1)) && p.f < int64(1)<<uint(p.v-1) {
				s.v = p.v - 1
			}
		default:
			s = idspec{h0, hidx(g, h0), hidx(g, h0), v0, g.VIndex(v0)}
		}
		l = append(l, s)
	}
	return l
}

// number of output IDs of one ID under the zoom change (h, v) -> (oh, ov); +Inf-like when too large
func expansion(h, v, oh, ov int64) float64 {
	e := 1.0
	if oh > h {
		e *= math.Pow(4, float64(oh-h))
	}
	if ov > v {
		e *= math.Pow(2, float64(ov-v))
	}
	return e
}

// replace every string that parses as five (or, for spatial IDs, four) integers and would expand too much by a plainly malformed one
func guard(ids []string, sid bool, oh, ov, bh, bv int64, limit float64) []string {
	total := 0.0
	for i, s := range ids {
		fs := strings.Split(s, "/")
		var n []int64
		okAll := true
		for _, f := range fs {
			x, err := strconv.ParseInt(f, 10, 64)
			if err != nil {
				okAll = false
				break
			}
			n = append(n, x)
		}
		if !okAll {
			continue
		}
		var h, v int64
		if sid && len(n) == 4 {
			h, v = n[0], n[0]
		} else if !sid && len(n) == 5 {
			h, v = n[0], n[3]
		} else {
			continue
		}
		e := expansion(h, v, oh, ov)
		if bh >= 0 {
			e *= expansion(oh, ov, bh, bv)
		}
		total += e
		if total > limit {
			ids[i] = "a/0/0/0/0"
			total -= e
		}
	}
	return ids
}

// output zooms within +-3 (h) / +-4 (v) of the base, clamped to 1..31 / 0..35, expansion kept small
func outZooms(g *Gen, h0, v0 int64, limit float64) (int64, int64) {
	for {
		oh := clamp(h0+g.Int63n(7)-3, 1, 31)
		ov := clamp(v0+g.Int63n(9)-4, 0, 35)
		if g.Chance(0.25) {
			oh = clamp(h0, 1, 31)
		}
		if g.Chance(0.25) {
			ov = v0
		}
		// IDs of the list lie up to one level below / two levels above the base zooms
		if expansion(h0-1, v0-1, oh, ov) <= limit {
			return oh, ov
		}
	}
}

func heights(g *Gen) (float64, float64, string) {
	switch g.Intn(12) {
	case 0:
		v := []float64{100.5, -3, 1e9, math.Inf(1), math.Copysign(0, -1)}[g.Intn(5)]
		return v, v, "heights=equal-nonzero"
	case 1:
		return float64(g.Pick(-1, 0, 5)), 6, "heights=inverted"
	case 2:
		return math.NaN(), 0, "heights=nan"
	}
	return 0, 0, "heights=0"
}

func idStrings(g *Gen, specs []idspec, sid bool) ([]string, []string) {
	var ids []string
	var tags []string
	for _, s := range specs {
		if sid {
			ids = append(ids, SID(s.h, s.f, s.x, s.y))
		} else {
			ids = append(ids, s.eid())
		}
	}
	if len(ids) > 0 && g.Chance(0.05) { // accepted non-canonical numerals inside a valid ID: "+1", "007", "-0"
		i := g.Intn(len(ids))
		fs := strings.Split(ids[i], "/")
		j := g.Intn(len(fs))
		switch {
		case fs[j] == "0" && g.Chance(0.5):
			fs[j] = "-0"
		case !strings.HasPrefix(fs[j], "-") && g.Chance(0.5):
			fs[j] = "+" + fs[j]
		case strings.HasPrefix(fs[j], "-"):
			fs[j] = "-00" + fs[j][1:]
		default:
			fs[j] = "00" + fs[j]
		}
		ids[i] = strings.Join(fs, "/")
		tags = append(tags, "noncanonical-numeral")
	}
	if len(ids) > 0 && g.Chance(0.04) { // malformed
		m := g.Malformed()
		if sid && g.Chance(0.5) {
			m = []string{"1/0/0", "1/0/0/0/0", "1/a/0/0", "", "1//0/0", "1/0/0/0/", "1/0/0/99999999999999999999"}[g.Intn(7)]
		}
		ids[g.Intn(len(ids))] = m
		tags = append(tags, "malformed")
	} else if len(ids) > 0 && g.Chance(0.03) { // well formed, outside the grid: index out of range
		i := g.Intn(len(ids))
		s := specs[i]
		switch g.Intn(3) {
		case 0:
			s.x += int64(1) << uint(s.h)
		case 1:
			s.y = -1 - s.y
		default:
			s.f = (int64(1) << uint(s.v)) + g.Int63n(3)
		}
		if sid {
			ids[i] = SID(s.h, s.f, s.x, s.y)
		} else {
			ids[i] = s.eid()
		}
		tags = append(tags, "index-out-of-range")
	} else if len(ids) > 0 && !sid && g.Chance(0.02) { // well formed, zoom outside 0..35 (36: a call that accepted it would only zoom out)
		i := g.Intn(len(ids))
		s := specs[i]
		if g.Chance(0.5) {
			s.h = 36
		} else {
			s.v = 36
		}
		ids[i] = s.eid()
		tags = append(tags, "invalid-id-zoom")
	}
	return ids, tags
}

func shuffled(g *Gen, l []string) []string {
	c := append([]string{}, l...)
	g.R.Shuffle(len(c), func(i, j int) { c[i], c[j] = c[j], c[i] })
	return c
}

// zooms the conversions must refuse; chosen so that a call that wrongly accepted them would still be cheap
func badOutH(g *Gen, h0 int64) int64 {
	if h0 >= 33 {
		return g.Pick(32, 36, 0, -1)
	}
	if h0 >= 29 {
		return g.Pick(32, 32, 0, -1)
	}
	return g.Pick(0, -1)
}
func badOutV(g *Gen, v0 int64) int64 {
	if v0 >= 31 {
		return g.Pick(36, 36, -1)
	}
	return -1
}

func (e *emitter) baseZooms(forSid bool) (int64, int64) {
	g := e.g
	h0 := g.Zoom()
	if g.Chance(0.7) {
		h0 = qzoom(g)
	}
	if g.Chance(0.08) {
		h0 = g.Pick(29, 30, 31, 33, 35)
	}
	v0 := g.Zoom()
	if forSid {
		v0 = h0
	}
	return h0, v0
}

func (e *emitter) e2qCase(fn string) {
	g := e.g
	sid := fn == "S2Q"
	h0, v0 := e.baseZooms(sid)
	same := g.Chance(0.3)
	shape := g.Intn(100)
	var specs []idspec
	switch {
	case shape < 5: // long list (20..60 IDs), zoom-out or equal zooms only: many groups behind one de-duplication map
		if h0 < 4 {
			h0 = 4 + g.Int63n(28)
			if sid {
				v0 = h0
			}
		}
		specs = genSpecsN(g, h0, v0, true, sid, 20+g.Intn(41))
	case shape < 11: // deep zoom-out: 30..35 -> 1..3 horizontally, 30..35 -> 0..2 vertically (negative f: floor, not truncation)
		h0 = 30 + g.Int63n(6)
		v0 = 30 + g.Int63n(6)
		if sid {
			v0 = h0
		}
		specs = genSpecsN(g, h0, v0, same, sid, 1+g.Intn(6))
	default:
		n := g.Intn(7)
		if g.Chance(0.2) {
			n = 1
		}
		specs = genSpecsN(g, h0, v0, same, sid, n)
	}
	ids, tags := idStrings(g, specs, sid)
	oh, ov := outZooms(g, h0, v0, 256)
	if same {
		oh, ov = clamp(h0, 1, 31), v0
	}
	if shape < 5 {
		oh, ov = clamp(h0-g.Int63n(4), 1, 31), clamp(v0-g.Int63n(5), 0, 35)
		tags = append(tags, "long-list")
	} else if shape < 11 {
		oh, ov = 1+g.Int63n(3), g.Int63n(3)
		tags = append(tags, "deep-zoom-out")
	}
	if g.Chance(0.05) { // invalid output zooms
		if g.Chance(0.6) {
			oh = badOutH(g, h0)
		} else {
			ov = badOutV(g, v0)
		}
		tags = append(tags, "invalid-out-zoom")
	}
	mx, mn, ht := heights(g)
	ids = guard(ids, sid, oh, ov, -1, -1, 1500)
	tags = append(tags, Tag("len=%d", len(ids)), Tag("oh=%d", oh), Tag("dh=%d", oh-h0), Tag("dv=%d", ov-v0), ht)
	e.run(fn, tags, len(ids) == 0, w.Strs(ids), w.I(oh), w.I(ov), w.F(mx), w.F(mn))
	e.last = func() {
		// the same list at other output zooms, permuted, and the identical call again
		oh2, ov2 := outZooms(g, h0, v0, 256)
		i2 := guard(append([]string{}, ids...), sid, oh2, ov2, -1, -1, 1500)
		e.run(fn, []string{"related", Tag("len=%d", len(ids))}, len(ids) == 0, w.Strs(i2), w.I(oh2), w.I(ov2), w.F(mx), w.F(mn))
		e.run(fn, []string{"related", "permuted"}, len(ids) == 0, w.Strs(shuffled(g, ids)), w.I(oh), w.I(ov), w.F(mx), w.F(mn))
		e.run(fn, []string{"related", "identical"}, len(ids) == 0, w.Strs(ids), w.I(oh), w.I(ov), w.F(mx), w.F(mn))
		if len(ids) > 0 {
			// a call that FAILS after it has worked through the valid IDs (malformed last element), then the identical valid call: whatever
			// the failed call left behind (pooled buffers, partly filled de-duplication sets) must not reach the next result
			bad := append(append([]string{}, ids...), ids[len(ids)-1]+"x")
			e.run(fn, []string{"related", "failing-tail"}, false, w.Strs(bad), w.I(oh), w.I(ov), w.F(mx), w.F(mn))
			e.run(fn, []string{"related", "after-failed-call"}, false, w.Strs(ids), w.I(oh), w.I(ov), w.F(mx), w.F(mn))
		}
	}
}

var two62 = new(big.Int).Lsh(big.NewInt(1), 62)

// the altitude-key computation stays inside int64 (no wrap-around) and yields at most `limit` keys (or an error)
func altSafe(f, v, oa, E, O int64, limit int64) bool {
	fraction := v - 25
	if fraction < 0 {
		fraction = 0
	}
	toUnit := 25 - v + fraction
	if toUnit > 62 || fraction > 62 {
		return false
	}
	sh := func(x *big.Int, s int64) *big.Int {
		if s >= 0 {
			return new(big.Int).Lsh(x, uint(s))
		}
		return new(big.Int).Rsh(x, uint(-s))
	}
	lower := sh(big.NewInt(f), toUnit)
	upper := sh(big.NewInt(f+1), toUnit)
	offset := sh(big.NewInt(O), fraction)
	toKey := oa - E - fraction
	if toKey > 62 || toKey < -200 {
		return false
	}
	a := new(big.Int).Add(lower, offset)
	b := new(big.Int).Add(upper, offset)
	lo := sh(a, toKey)
	hi := sh(b, toKey)
	for _, z := range []*big.Int{lower, upper, offset, a, b, lo, hi} {
		if new(big.Int).Abs(z).Cmp(two62) >= 0 {
			return false
		}
	}
	cnt := new(big.Int).Sub(hi, lo)
	return cnt.Cmp(big.NewInt(limit)) <= 0
}

func (e *emitter) e2qaCase() {
	g := e.g
	h0, v0 := e.baseZooms(false)
	specs := genSpecs(g, h0, v0, g.Chance(0.3))
	ids, tags := idStrings(g, specs, false)
	oq, _ := outZooms(g, h0, v0, 64)
	var oa, E, O int64
	for try := 0; ; try++ {
		E = g.Pick(25, 25, 24, 26, 20, g.Int63n(36))
		O = g.Pick(0, 0, 1<<24, 1, -1, 7, 100, -(1 << 20), g.Int63n(1<<25))
		oa = clamp(E-(25-v0)+g.Int63n(7)-3, 0, 35)
		if g.Chance(0.2) {
			oa = g.Zoom()
		}
		ok := true
		for _, s := range specs {
			if !altSafe(s.f, s.v, oa, E, O, 16) {
				ok = false
				break
			}
		}
		if ok {
			break
		}
		if try > 50 {
			specs, ids, tags = nil, nil, nil
			break
		}
	}
	// an out-of-range f inserted by idStrings fails validateIndexExists before any shift: harmless
	if g.Chance(0.04) {
		oq = badOutH(g, h0)
		tags = append(tags, "invalid-out-zoom")
	}
	ids = guard(ids, false, oq, 0, -1, -1, 100)
	tags = append(tags, Tag("len=%d", len(ids)), Tag("oq=%d", oq), Tag("E=%d", E))
	e.run("E2QA", tags, len(ids) == 0, w.Strs(ids), w.I(oq), w.I(oa), w.I(E), w.I(O))
	e.last = func() {
		O2 := O + g.Pick(1, -1, 2)
		okAll := true
		for _, s := range specs {
			if !altSafe(s.f, s.v, oa, E, O2, 16) {
				okAll = false
			}
		}
		if okAll {
			e.run("E2QA", []string{"related"}, len(ids) == 0, w.Strs(ids), w.I(oq), w.I(oa), w.I(E), w.I(O2))
		}
		e.run("E2QA", []string{"related", "permuted"}, len(ids) == 0, w.Strs(shuffled(g, ids)), w.I(oq), w.I(oa), w.I(E), w.I(O))
		e.run("E2QA", []string{"related", "identical"}, len(ids) == 0, w.Strs(ids), w.I(oq), w.I(oa), w.I(E), w.I(O))
		if len(ids) > 0 { // a failing call (malformed last element) and the identical valid call after it
			bad := append(append([]string{}, ids...), ids[len(ids)-1]+"x")
			e.run("E2QA", []string{"related", "failing-tail"}, false, w.Strs(bad), w.I(oq), w.I(oa), w.I(E), w.I(O))
			e.run("E2QA", []string{"related", "after-failed-call"}, false, w.Strs(ids), w.I(oq), w.I(oa), w.I(E), w.I(O))
		}
	}
}

func qitem(z, k, vz, vi int64) w.Val { return w.L(w.I(z), w.I(k), w.I(vz), w.I(vi), w.F(0), w.F(0)) }

// an element whose zooms must be refused (quadkey zoom 0, 32, -1; vertical zoom -1, 36), alone, first, or after a valid element
func (e *emitter) q2eBadZoom(fn string) {
	g := e.g
	sid := fn == "Q2S"
	z0, v0 := qzoom(g), g.Zoom()
	if sid {
		v0 = z0
	}
	var bad w.Val
	var oh, ov int64
	kind := g.Intn(6)
	switch kind {
	case 0, 1: // key zoom 0 / -1: output zooms small, so that a call that wrongly accepted the element stays cheap
		oh, ov = g.Int63n(3), g.Int63n(4)
		bad = qitem(g.Pick(0, 0, -1), g.Pick(0, 0, 1, 3), g.Pick(0, 0, v0), g.Pick(0, 0, -1))
	case 2:
		oh, ov = g.Int63n(3), g.Int63n(4)
		bad = qitem(z0, mkKey(z0, hidx(g, z0), hidx(g, z0)), -1, g.Pick(0, -1))
	case 3, 4:
		oh, ov = clamp(z0+g.Int63n(3)-1, 0, 35), v0
		bad = qitem(32, g.Int63n(pow4(31)), v0, g.VIndex(v0))
	default:
		oh, ov = clamp(z0+g.Int63n(3)-1, 0, 35), v0
		bad = qitem(z0, mkKey(z0, hidx(g, z0), hidx(g, z0)), 36, g.VIndex(35))
	}
	if sid {
		ov = oh
	}
	good := func() w.Val { return qitem(z0, mkKey(z0, hidx(g, z0), hidx(g, z0)), v0, g.VIndex(v0)) }
	var items w.List
	pos := ""
	switch g.Intn(4) {
	case 0:
		items, pos = w.List{bad}, "alone"
	case 1:
		items, pos = w.List{bad, good()}, "first"
	case 2:
		items, pos = w.List{good(), bad}, "after-valid"
	default:
		items, pos = w.List{good(), bad, good()}, "middle"
	}
	tags := []string{"refused-zoom", "refused-zoom-" + pos, Tag("len=%d", len(items))}
	if sid {
		e.run(fn, tags, false, items, w.I(oh))
	} else {
		e.run(fn, tags, false, items, w.I(oh), w.I(ov))
	}
}

func (e *emitter) q2eCase(fn string) {
	g := e.g
	sid := fn == "Q2S"
	if g.Chance(0.1) {
		e.q2eBadZoom(fn)
		return
	}
	z0 := qzoom(g)
	v0 := g.Zoom()
	n := g.Intn(7)
	shape := g.Intn(100)
	if shape < 5 { // long list (zoom-out / equal zooms below)
		n = 20 + g.Intn(41)
	} else if shape < 11 { // one key of zoom 31, output zooms 34 / 35 below
		z0, n = 31, 1
	}
	bx, by := hidx(g, z0), hidx(g, z0)
	var items w.List
	var tags []string
	type it struct{ z, k, vz, vi int64 }
	var raw []it
	for i := 0; i < n; i++ {
		var t it
		switch {
		case i > 0 && g.Chance(0.25): // repeat
			t = raw[g.Intn(len(raw))]
		case i > 0 && g.Chance(0.3): // nested: the parent tile / parent vertical cell of a previous item
			p := raw[g.Intn(len(raw))]
			t = p
			if p.z > 1 && g.Chance(0.6) {
				t.z, t.k = p.z-1, p.k>>2
			}
			if p.vz > 0 && g.Chance(0.6) {
				t.vz, t.vi = p.vz-1, p.vi>>1
			}
		case g.Chance(0.4): // same tile, other f
			t = it{z0, mkKey(z0, bx, by), v0, g.VIndex(v0)}
		case shape >= 11 && shape < 20: // a key of a distant zoom in the same call
			zz, vv := qzoom(g), g.Zoom()
			t = it{zz, mkKey(zz, hidx(g, zz), hidx(g, zz)), vv, g.VIndex(vv)}
		default:
			t = it{z0, mkKey(z0, hidx(g, z0), hidx(g, z0)), v0, g.VIndex(v0)}
		}
		raw = append(raw, t)
	}
	mx, mn := 0.0, 0.0
	bad := ""
	if n > 0 && g.Chance(0.08) {
		i := g.Intn(n)
		switch g.Intn(5) {
		case 0:
			raw[i].z = 32
			bad = "invalid-key-zoom"
		case 1:
			raw[i].vz = 36
			bad = "invalid-v-zoom"
		case 2:
			raw[i].k = 4611686018427388064 + g.Pick(0, 1, 1000)
			raw[i].z = 31
			bad = "key-limit"
		case 3:
			raw[i].k = pow4(raw[i].z) + g.Int63n(pow4(raw[i].z)) // key of a finer zoom: outside the domain, no error
			bad = "key-too-wide"
		default:
			raw[i].k = -1 - g.Int63n(1000)
			bad = "negative-key"
		}
		tags = append(tags, bad)
	}
	zmin, vmin := z0, v0
	for _, t := range raw {
		if t.z >= 1 && t.z < zmin {
			zmin = t.z
		}
		if t.vz >= 0 && t.vz < vmin {
			vmin = t.vz
		}
	}
	// heights per item: mostly 0/0; sometimes other equal pairs mixed in; sometimes one inverted / NaN element among valid ones
	hmode := g.Intn(15)
	inv := -1
	if hmode == 1 && n > 0 {
		inv = g.Intn(n)
		tags = append(tags, "heights=one-inverted")
	} else if hmode == 0 {
		tags = append(tags, "heights=mixed-equal")
	}
	for i, t := range raw {
		a, b := mx, mn
		if hmode == 0 {
			v := []float64{0, 7.5, -3, math.Inf(1), math.Copysign(0, -1)}[g.Intn(5)]
			a, b = v, v
		}
		if i == inv {
			a, b = -1, 3
			if g.Chance(0.3) {
				a, b = math.NaN(), 0
			}
		}
		items = append(items, w.L(w.I(t.z), w.I(t.k), w.I(t.vz), w.I(t.vi), w.F(a), w.F(b)))
	}
	if items == nil {
		items = w.List{}
	}
	if sid {
		z := clamp(z0+g.Int63n(5)-2, 0, 35)
		if shape < 5 {
			z = clamp(min64(zmin, vmin)-g.Int63n(3), 0, 35)
		} else if shape < 11 && vmin >= 31 {
			z = g.Pick(34, 35)
		}
		for expansion(zmin, vmin, z, z)*float64(n+1) > 1500 {
			z--
		}
		if z < 0 {
			z = 0
		}
		if g.Chance(0.04) {
			z = -1
			if zmin >= 33 && vmin >= 30 {
				z = g.Pick(-1, 36)
			}
			tags = append(tags, "invalid-out-zoom")
		}
		e.run(fn, append(tags, Tag("len=%d", n), Tag("qz=%d", z0)), n == 0, items, w.I(z))
		e.last = func() {
			e.run(fn, []string{"related", "identical"}, n == 0, items, w.I(z))
		}
		return
	}
	var oh, ov int64
	for try := 0; ; try++ {
		oh = clamp(z0+g.Int63n(7)-3, 0, 35)
		ov = clamp(v0+g.Int63n(9)-4, 0, 35)
		if g.Chance(0.3) {
			oh, ov = z0, v0
		}
		if try > 40 {
			oh, ov = clamp(zmin+g.Int63n(3)-1, 0, 35), clamp(vmin+g.Int63n(3)-1, 0, 35)
		}
		if try > 80 {
			oh, ov = zmin, vmin
		}
		if shape < 5 {
			oh, ov = clamp(zmin-g.Int63n(4), 0, 35), clamp(vmin-g.Int63n(5), 0, 35)
		} else if shape < 11 {
			oh, ov = g.Pick(34, 35), clamp(vmin-g.Int63n(3), 0, 35)
		}
		if expansion(zmin, vmin, oh, ov) <= 256 {
			break
		}
	}
	if shape >= 11 && g.Chance(0.04) {
		switch {
		case vmin >= 30 && g.Chance(0.5):
			ov = 36
		case zmin == 31 && n <= 1:
			oh = 36
		case g.Chance(0.5):
			ov = -1
		default:
			oh = -1
		}
		if expansion(zmin, vmin, oh, ov)*float64(n+1) > 1500 {
			oh = -1
			if ov > 35 {
				ov = vmin
			}
		}
		tags = append(tags, "invalid-out-zoom")
	}
	if n > 0 && bad == "" && g.Chance(0.04) && oh >= 0 && oh <= 3 && ov <= 6 { // key zoom 0 / negative zooms: only where a call that accepted them stays cheap
		f := w.AsList(items[g.Intn(n)])
		if g.Chance(0.5) {
			f[0] = w.I(g.Pick(0, -1))
		} else {
			f[2] = w.I(-1)
		}
		tags = append(tags, "invalid-item-zoom")
	}
	e.run(fn, append(tags, Tag("len=%d", n), Tag("qz=%d", z0), Tag("dh=%d", oh-z0), Tag("dv=%d", ov-v0)), n == 0, items, w.I(oh), w.I(ov))
	e.last = func() {
		oh2 := clamp(oh+g.Pick(-1, 1), 0, 35)
		if expansion(zmin, vmin, oh2, ov) <= 256 {
			e.run(fn, []string{"related"}, n == 0, items, w.I(oh2), w.I(ov))
		}
		rev := append(w.List{}, items...)
		for i, j := 0, len(rev)-1; i < j; i, j = i+1, j-1 {
			rev[i], rev[j] = rev[j], rev[i]
		}
		e.run(fn, []string{"related", "permuted"}, n == 0, rev, w.I(oh), w.I(ov))
		e.run(fn, []string{"related", "identical"}, n == 0, items, w.I(oh), w.I(ov))
	}
}

func (e *emitter) roundTripCase() {
	g := e.g
	h0 := qzoom(g)
	v0 := g.Zoom()
	same := g.Chance(0.45)
	shape := g.Intn(100)
	var specs []idspec
	switch {
	case shape < 5: // long list, same zooms everywhere: the exact round trip on many IDs
		same = true
		specs = genSpecsN(g, h0, v0, true, false, 20+g.Intn(41))
	case shape < 11: // one ID of zoom 31, back-conversion to horizontal zoom 34 / 35
		h0, same = 31, false
		specs = genSpecsN(g, h0, v0, true, false, 1)
	default:
		specs = genSpecs(g, h0, v0, same)
	}
	ids, tags := idStrings(g, specs, false)
	hv := []float64{0, 0, 0, 100.5, -3, math.Copysign(0, -1)}[g.Intn(6)] // maxHeight == minHeight, not only 0
	var oh, ov, bh, bv int64
	if same {
		oh, ov, bh, bv = h0, v0, h0, v0
		tags = append(tags, "same-zooms")
	} else if shape < 11 {
		oh, ov, bh, bv = 31, v0, g.Pick(34, 35), clamp(v0-g.Int63n(3), 0, 35)
		tags = append(tags, "back-zoom-34-35")
	} else {
		oh, ov = outZooms(g, h0, v0, 64)
		for {
			bh = clamp(oh+g.Int63n(5)-2, 0, 35)
			bv = clamp(ov+g.Int63n(5)-2, 0, 35)
			if g.Chance(0.3) {
				bh, bv = h0, v0
			}
			if expansion(h0-2, v0-2, oh, ov)*expansion(oh, ov, bh, bv) <= 512 {
				break
			}
		}
	}
	ids = guard(ids, false, oh, ov, bh, bv, 1500)
	tags = append(tags, Tag("len=%d", len(ids)), Tag("oh=%d", oh))
	e.run("RoundTrip", tags, len(ids) == 0, w.Strs(ids), w.I(oh), w.I(ov), w.F(hv), w.F(hv), w.I(bh), w.I(bv))
	e.last = func() {
		e.run("RoundTrip", []string{"related", "permuted"}, len(ids) == 0, w.Strs(shuffled(g, ids)), w.I(oh), w.I(ov), w.F(hv), w.F(hv), w.I(bh), w.I(bv))
	}
}

func paramFloat(g *Gen) float64 {
	return []float64{0, 0, 1, -1, 256, -256, 7.5, 1e300, -1e300, math.Inf(1), math.Inf(-1), math.NaN(), math.Copysign(0, -1), 5e-324, g.R.NormFloat64() * 1000}[g.Intn(15)]
}
func paramInt(g *Gen) int64 {
	switch g.Intn(6) {
	case 0:
		return g.Pick(0, 1, -1, 31, 32, 35, 36, math.MaxInt64, math.MinInt64)
	case 1:
		return g.Int63n(1<<62) - (1 << 61)
	}
	return g.Int63n(41) - 3
}

func (e *emitter) paramsCase() {
	g := e.g
	ns := g.Intn(4)
	slices := w.List{}
	lens := make([]int, ns)
	for i := 0; i < ns; i++ {
		lens[i] = g.Intn(5)
		sl := w.List{}
		for j := 0; j < lens[i]; j++ {
			sl = append(sl, w.L(w.I(g.Int63n(1000)), w.I(g.Int63n(200)-100)))
		}
		slices = append(slices, sl)
	}
	ref := func() w.Val {
		if ns == 0 || g.Chance(0.2) {
			return w.I(-1)
		}
		return w.I(int64(g.Intn(ns)))
	}
	kinds := [2]int{-1, -1}
	n := 3 + g.Intn(10)
	steps := w.List{}
	tags := []string{Tag("steps=%d", n)}
	for i := 0; i < n; i++ {
		t := g.Intn(2)
		if i == 0 {
			t = 0
		}
		k := kinds[t]
		c := g.Intn(10)
		if k < 0 || c == 0 {
			k = g.Intn(3)
			kinds[t] = k
			switch k {
			case 0:
				steps = append(steps, w.L(w.I(int64(t)), w.S("NewV"), w.I(paramInt(g)), ref(), w.I(paramInt(g)), w.F(paramFloat(g)), w.F(paramFloat(g))))
			case 1:
				steps = append(steps, w.L(w.I(int64(t)), w.S("NewA"), w.I(paramInt(g)), ref(), w.I(paramInt(g)), w.I(paramInt(g)), w.I(paramInt(g))))
			default:
				steps = append(steps, w.L(w.I(int64(t)), w.S("NewQ"), w.I(paramInt(g)), w.I(paramInt(g)), w.I(paramInt(g)), w.I(paramInt(g)), w.F(paramFloat(g)), w.F(paramFloat(g))))
			}
			continue
		}
		zset := [][]string{{"SetQuadkeyZoom", "SetVerticalZoom"}, {"SetQuadkeyZoom", "SetAltitudekeyZoom", "SetZBaseExponent", "SetZBaseOffset"}, {"SetQuadkeyZoom", "SetQuadkey", "SetVZoom", "SetVIndex"}}[k]
		switch {
		case c <= 3:
			steps = append(steps, w.L(w.I(int64(t)), w.S("SetZ"), w.S(zset[g.Intn(len(zset))]), w.I(paramInt(g))))
		case c <= 5 && k != 1: // heights: often below / above the other one, where a clamp would show
			steps = append(steps, w.L(w.I(int64(t)), w.S("SetF"), w.S([]string{"SetMaxHeight", "SetMinHeight"}[g.Intn(2)]), w.F(paramFloat(g))))
		case c <= 6 && k != 2:
			steps = append(steps, w.L(w.I(int64(t)), w.S("SetInner"), ref()))
		case c <= 8 && ns > 0:
			sid := g.Intn(ns)
			if lens[sid] == 0 {
				steps = append(steps, w.L(w.I(int64(t)), w.S("SetZ"), w.S(zset[0]), w.I(paramInt(g))))
			} else {
				steps = append(steps, w.L(w.I(int64(t)), w.S("CallerWrite"), w.I(int64(sid)), w.I(int64(g.Intn(lens[sid]))), w.I(g.Int63n(1000)+1000), w.I(g.Int63n(100))))
			}
		case k != 2:
			steps = append(steps, w.L(w.I(int64(t)), w.S("GetterWrite"), w.I(int64(g.Intn(4))), w.I(g.Int63n(1000)+2000), w.I(-g.Int63n(100))))
		default:
			steps = append(steps, w.L(w.I(int64(t)), w.S("SetZ"), w.S(zset[g.Intn(len(zset))]), w.I(paramInt(g))))
		}
	}
	e.run("Params", tags, false, slices, steps)
}

func init() {
	Scale["C11"] = 12000
	Registry["C11"] = func(r *run.Runner, g *Gen, n int) {
		r.Register(fnEncode(), fnDecode(), fnRoundTripKey(), fnDedup(), fnQCheck(), fnE2Q(), fnS2Q(), fnE2QA(), fnQ2E(), fnQ2S(), fnRoundTrip(), fnParams())
		if n == 0 {
			return
		}
		e := &emitter{r: r, g: g}
		// exhaustive small scope: every tile of every zoom <= 4 (quick) / <= 5 (thorough) through both directions
		maxz := int64(4)
		if g.Tier == "thorough" {
			maxz = 5
		}
		if n < 1000 {
			maxz = 2
		}
		for h := int64(1); h <= maxz; h++ {
			for x := int64(0); x < 1<<uint(h); x++ {
				for y := int64(0); y < 1<<uint(h); y++ {
					e.run("QuadkeyRoundTrip", []string{"exhaustive", Tag("hz=%d", h)}, false, w.I(h), w.I(x), w.I(y))
				}
			}
		}
		for i := r.Sum.Evaluations; i < n; i = r.Sum.Evaluations {
			e.last = nil
			switch k := g.Intn(21); {
			case k == 20:
				e.paramsCase()
			case k < 6:
				e.keyCase()
			case k < 10:
				e.e2qCase("E2Q")
			case k < 12:
				e.e2qCase("S2Q")
			case k < 14:
				e.e2qaCase()
			case k < 16:
				e.q2eCase("Q2E")
			case k < 17:
				e.q2eCase("Q2S")
			default:
				e.roundTripCase()
			}
			// related consecutive calls (same list / tile / key with one argument changed, permuted, identical): ~10 % of all cases
			if e.last != nil && g.Chance(0.05) {
				e.last()
			}
			if r.Stopped() {
				break
			}
		}
	}
}
