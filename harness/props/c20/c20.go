// Package c20: property C20 — the exported helper algebra (common/util.go, common/spatial) obeys its mathematical laws.
package c20

import (
	"math"

	"github.com/trajectoryjp/spatial_id_go/v4/common"
	"github.com/trajectoryjp/spatial_id_go/v4/common/spatial"

	. "verif/harness/gen"
	"verif/harness/run"
	w "verif/harness/wire"
)

// ---------- wire helpers ----------
func vecVal(v spatial.Vector3) w.Val { return w.L(w.F(v.X), w.F(v.Y), w.F(v.Z)) }
func ptVal(p spatial.Point3) w.Val   { return w.L(w.F(p.X), w.F(p.Y), w.F(p.Z)) }
func asVec(v w.Val) spatial.Vector3 {
	l := w.AsList(v)
	return spatial.Vector3{X: w.AsFlt(l[0]), Y: w.AsFlt(l[1]), Z: w.AsFlt(l[2])}
}
func asPt(v w.Val) spatial.Point3 { return spatial.Point3(asVec(v)) }
func matVal(m spatial.Matrix3) w.Val {
	l := make(w.List, 0, 9)
	for i := 0; i < 3; i++ {
		for j := 0; j < 3; j++ {
			l = append(l, w.F(m[i][j]))
		}
	}
	return l
}
func asMat(v w.Val) spatial.Matrix3 {
	l := w.AsList(v)
	var m spatial.Matrix3
	for i := 0; i < 3; i++ {
		for j := 0; j < 3; j++ {
			m[i][j] = w.AsFlt(l[3*i+j])
		}
	}
	return m
}
func quatVal(q spatial.Quat) w.Val { return w.L(w.F(q.W), w.F(q.X), w.F(q.Y), w.F(q.Z)) }
func asFlts(v w.Val) []float64 {
	l := w.AsList(v)
	r := make([]float64, len(l))
	for i, x := range l {
		r[i] = w.AsFlt(x)
	}
	return r
}
func fltsVal(l []float64) w.Val {
	r := make(w.List, len(l))
	for i, x := range l {
		r[i] = w.F(x)
	}
	return r
}
func intsVal(l []int64) w.Val {
	r := make(w.List, len(l))
	for i, s := range l {
		r[i] = w.I(s)
	}
	return r
}
func strsVal(l []string) w.Val {
	r := make(w.List, len(l))
	for i, s := range l {
		r[i] = w.S(s)
	}
	return r
}

// ---------- invokers ----------
func fns() []*run.Fn {
	return []*run.Fn{
		{Name: "Union/int64", Invoke: func(a []w.Val) w.Val { return intsVal(common.Union(w.AsInts(a[0]), w.AsInts(a[1]))) }},
		{Name: "Union/string", Invoke: func(a []w.Val) w.Val { return strsVal(common.Union(w.AsStrs(a[0]), w.AsStrs(a[1]))) }},
		{Name: "Unique/int64", Invoke: func(a []w.Val) w.Val { return intsVal(common.Unique(w.AsInts(a[0]))) }},
		{Name: "Unique/string", Invoke: func(a []w.Val) w.Val { return strsVal(common.Unique(w.AsStrs(a[0]))) }},
		{Name: "Difference/int64", Invoke: func(a []w.Val) w.Val { return intsVal(common.Difference(w.AsInts(a[0]), w.AsInts(a[1]))) }},
		{Name: "Difference/string", Invoke: func(a []w.Val) w.Val { return strsVal(common.Difference(w.AsStrs(a[0]), w.AsStrs(a[1]))) }},
		{Name: "Intersect/int64", Invoke: func(a []w.Val) w.Val { return intsVal(common.Intersect(w.AsInts(a[0]), w.AsInts(a[1]))) }},
		{Name: "Intersect/string", Invoke: func(a []w.Val) w.Val { return strsVal(common.Intersect(w.AsStrs(a[0]), w.AsStrs(a[1]))) }},
		{Name: "Include/int64", Invoke: func(a []w.Val) w.Val { return w.B(common.Include(w.AsInts(a[0]), w.AsInt(a[1]))) }},
		{Name: "Include/string", Invoke: func(a []w.Val) w.Val { return w.B(common.Include(w.AsStrs(a[0]), w.AsStr(a[1]))) }},
		{Name: "Max/int64", Invoke: func(a []w.Val) w.Val {
			v, err := common.Max(w.AsInts(a[0]))
			return w.WithErr(w.I(v), err)
		}},
		{Name: "Min/int64", Invoke: func(a []w.Val) w.Val {
			v, err := common.Min(w.AsInts(a[0]))
			return w.WithErr(w.I(v), err)
		}},
		{Name: "Max/float64", Invoke: func(a []w.Val) w.Val {
			v, err := common.Max(asFlts(a[0]))
			return w.WithErr(w.F(v), err)
		}},
		{Name: "Min/float64", Invoke: func(a []w.Val) w.Val {
			v, err := common.Min(asFlts(a[0]))
			return w.WithErr(w.F(v), err)
		}},
		{Name: "NewMatrix3", Invoke: func(a []w.Val) w.Val {
			f := make([]float64, 9)
			for i := range f {
				f[i] = w.AsFlt(a[i])
			}
			m := spatial.NewMatrix3(f[0], f[1], f[2], f[3], f[4], f[5], f[6], f[7], f[8])
			return w.L(matVal(m), vecVal(m.MulVec(spatial.Vector3{X: 1})), vecVal(m.MulVec(spatial.Vector3{Y: 1})), vecVal(m.MulVec(spatial.Vector3{Z: 1})))
		}},
		{Name: "CalculateArithmeticShift", Invoke: func(a []w.Val) w.Val {
			return w.I(common.CalculateArithmeticShift(w.AsInt(a[0]), w.AsInt(a[1])))
		}},
		{Name: "Combinations", Invoke: func(a []w.Val) w.Val {
			out := w.List{}
			common.Combinations(w.AsInt(a[0]), w.AsInt(a[1]), func(p []int64) {
				if len(out) > 5000 {
					panic("combination enumerator does not stop")
				}
				out = append(out, intsVal(append([]int64{}, p...)))
			})
			return out
		}},
		{Name: "VecOps", Invoke: func(a []w.Val) w.Val {
			x, y, f := asVec(a[0]), asVec(a[1]), w.AsFlt(a[2])
			c := x.Cross(y)
			return w.L(vecVal(x.Add(y)), vecVal(x.Sub(y)), vecVal(x.Scale(f)), w.F(x.Dot(y)), vecVal(c), w.F(x.L1Norm()),
				w.F(x.Norm()), w.F(y.Norm()), vecVal(x.Unit()), w.F(x.Cos(y)), ptVal(spatial.Point3(x).Translate(y)),
				w.F(spatial.Point3(x).DistancePoint(spatial.Point3(y))), vecVal(spatial.NewVectorFromPoints(spatial.Point3(x), spatial.Point3(y))),
				w.F(x.Dot(c)), w.F(y.Dot(c)), w.F(x.Dot(x)), w.F(y.Dot(y)))
		}},
		{Name: "LineOps", Invoke: func(a []w.Val) w.Val {
			p, q, t := asPt(a[0]), asPt(a[1]), w.AsFlt(a[2])
			l := spatial.NewLineFromPoints(p, q)
			return w.L(ptVal(l.ToPoint(0)), ptVal(l.ToPoint(1)), ptVal(l.ToPoint(t)), ptVal(l.Start()), ptVal(l.End()), vecVal(l.Direction))
		}},
		{Name: "MatOps", Invoke: func(a []w.Val) w.Val {
			A, B, C, v := asMat(a[0]), asMat(a[1]), asMat(a[2]), asVec(a[3])
			I := spatial.NewUnitMatrix3()
			return w.L(matVal(A.Mul(B)), matVal(A.Mul(B).Mul(C)), matVal(A.Mul(B.Mul(C))), vecVal(A.Mul(B).MulVec(v)), vecVal(A.MulVec(B.MulVec(v))),
				matVal(I.Mul(A)), matVal(A.Mul(I)), vecVal(I.MulVec(v)))
		}},
		{Name: "RotateBetweenVector", Invoke: func(a []w.Val) w.Val { return quatVal(spatial.RotateBetweenVector(asVec(a[0]), asVec(a[1]))) }},
		{Name: "QuatFromAxisAngle", Invoke: func(a []w.Val) w.Val { return quatVal(spatial.QuatFromAxisAngle(asVec(a[0]), w.AsFlt(a[1]))) }},
		{Name: "PointOps", Invoke: func(a []w.Val) w.Val {
			var pts []*spatial.Point3
			for _, e := range w.AsList(a[0]) {
				p := asPt(e)
				pts = append(pts, &p)
			}
			v, p, q, eps := asVec(a[1]), asPt(a[2]), asPt(a[3]), w.AsFlt(a[4])
			mx, e1 := spatial.MaxPoint(pts, v)
			mn, e2 := spatial.MinPoint(pts, v)
			ua := spatial.UniqueAppend(pts, &p, eps)
			ual := make(w.List, len(ua))
			for i, x := range ua {
				ual[i] = ptVal(*x)
			}
			return w.L(w.WithErr(ptVal(*mx), e1), w.WithErr(ptVal(*mn), e2), w.B(p.IsClose(q, eps)), ual,
				w.B(common.AlmostEqual(p.X, q.X, eps)), w.F(common.DegreeToRadian(eps)), w.F(common.RadianToDegree(eps)))
		}},
	}
}

// ---------- generators ----------
var words = []string{"", "a", "b", "ab", "A", "1/2/3/4/5", "1/2/3/4/-5", "25/0/0/25/0", "é", " ", "0", "-0", "x/y", "a\tb", "zz", "日本"}

func genInts(g *Gen, n int, span int64) []int64 {
	l := make([]int64, n)
	for i := range l {
		switch g.Intn(12) {
		case 0:
			l[i] = g.Pick(math.MinInt64, math.MaxInt64, -1, 0, 1, math.MinInt64+1, math.MaxInt64-1, 1<<53, 1<<53+1, -(1 << 53), -(1<<53)-1)
		default:
			l[i] = g.Int63n(2*span+1) - span
		}
	}
	return l
}
func genStrs(g *Gen, n int, span int) []string {
	l := make([]string, n)
	for i := range l {
		l[i] = words[g.Intn(span)]
	}
	return l
}
func listLen(g *Gen) int {
	switch g.Intn(6) {
	case 0:
		return 0
	case 1:
		return 1
	case 2:
		return 2 + g.Intn(3)
	}
	return g.Intn(14)
}

// pairs of lists: kind 0 independent (overlapping by small span), 1 disjoint, 2 equal, 3 permuted copy, 4 sub-list, 5 one empty
func intPair(g *Gen) ([]int64, []int64, string) {
	span := int64(1 + g.Intn(8))
	a := genInts(g, listLen(g), span)
	switch g.Intn(7) {
	case 0:
		b := genInts(g, listLen(g), span)
		for i := range b {
			if b[i] > -100 && b[i] < 100 {
				b[i] += 1000
			} else {
				b[i] = 1000
			}
		}
		for i := range a {
			if a[i] <= -100 || a[i] >= 100 {
				a[i] = 7
			}
		}
		return a, b, "disjoint"
	case 1:
		return a, append([]int64{}, a...), "equal"
	case 2:
		b := append([]int64{}, a...)
		g.R.Shuffle(len(b), func(i, j int) { b[i], b[j] = b[j], b[i] })
		return a, b, "permuted"
	case 3:
		if len(a) > 0 {
			return a, append([]int64{}, a[:g.Intn(len(a))]...), "prefix"
		}
		return a, []int64{}, "prefix"
	case 4:
		if g.Chance(0.5) {
			return a, []int64{}, "second-empty"
		}
		return []int64{}, a, "first-empty"
	}
	return a, genInts(g, listLen(g), span), "overlapping"
}
func strPair(g *Gen) ([]string, []string, string) {
	span := 2 + g.Intn(len(words)-1)
	a := genStrs(g, listLen(g), span)
	switch g.Intn(6) {
	case 0:
		b := genStrs(g, listLen(g), span)
		for i := range b {
			b[i] = "#" + b[i]
		}
		return a, b, "disjoint"
	case 1:
		return a, append([]string{}, a...), "equal"
	case 2:
		b := append([]string{}, a...)
		g.R.Shuffle(len(b), func(i, j int) { b[i], b[j] = b[j], b[i] })
		return a, b, "permuted"
	case 3:
		if g.Chance(0.5) {
			return a, []string{}, "second-empty"
		}
		return []string{}, a, "first-empty"
	}
	return a, genStrs(g, listLen(g), span), "overlapping"
}
func hasDup[T comparable](l []T) bool {
	m := map[T]struct{}{}
	for _, x := range l {
		if _, ok := m[x]; ok {
			return true
		}
		m[x] = struct{}{}
	}
	return false
}

// index/shift pairs with |shift| < 63 whose result fits int64
func shiftPair(g *Gen) (int64, int64, []string) {
	var s int64
	switch g.Intn(5) {
	case 0:
		s = g.Pick(0, 1, -1, 62, -62, 2, -2, 61, -61, 32, -32, 35, -35)
	case 1:
		s = -g.Int63n(63)
	default:
		s = g.Int63n(125) - 62
	}
	var i int64
	if s >= 0 {
		// -2^(63-s) <= i < 2^(63-s): the product fits int64
		lo, hi := int64(math.MinInt64), int64(math.MaxInt64)
		if s > 0 {
			lim := int64(1) << uint(63-s)
			lo, hi = -lim, lim-1
		}
		switch g.Intn(6) {
		case 0:
			i = g.Pick(-1, 0, 1, -2, 3, -3)
			if i < lo {
				i = lo
			}
			if i > hi {
				i = hi
			}
		case 1:
			i = lo
		case 2:
			i = hi
		default:
			if s == 0 {
				i = g.R.Int63()
			} else {
				i = g.Int63n(hi + 1)
			}
			if g.Chance(0.5) {
				i = -i - 1
			}
		}
	} else {
		switch g.Intn(12) {
		case 8, 9, 10, 11: // magnitude 2^53 .. 2^63-1, either sign, non-zero low bits: not representable in float64
			e := uint(53 + g.Intn(10))
			i = int64(1)<<e + g.Int63n(int64(1)<<e)
			if e == 62 && g.Intn(4) == 0 {
				i = math.MaxInt64 - g.Int63n(1024)
			}
			i |= 1 + g.Int63n(255) // low bits set
			if g.Chance(0.5) {
				i = -i
			}
		case 0:
			i = g.Pick(-1, 0, 1, -2, -3, 3, math.MinInt64, math.MaxInt64, math.MinInt64+1)
		case 1: // exact multiple of 2^-s, and its neighbours (floor vs truncation differ on the negative side)
			k := g.Int63n(1<<20) - (1 << 19)
			sh := uint(-s)
			if sh > 42 {
				k = g.Int63n(9) - 4
			}
			i = k<<sh + g.Pick(-1, 0, 1)
		case 2, 3:
			i = -g.Int63n(math.MaxInt64) - 1
		case 4:
			i = -(g.Int63n(1<<16) + 1)
		default:
			i = g.R.Int63()
			if g.Chance(0.5) {
				i = -i - 1
			}
		}
	}
	tags := []string{"shift"}
	switch {
	case s > 0:
		tags = append(tags, "shift>0")
	case s < 0:
		tags = append(tags, "shift<0")
	default:
		tags = append(tags, "shift=0")
	}
	if i < 0 {
		tags = append(tags, "index<0")
	}
	if (i >= 1<<53 || i <= -(1<<53)) && s < 0 {
		tags = append(tags, "|index|>=2^53,shift<0")
	}
	if i < 0 && s < 0 {
		tags = append(tags, "neg-index-neg-shift")
		if sh := uint(-s); sh < 63 && i&(int64(1)<<sh-1) != 0 {
			tags = append(tags, "floor!=trunc")
		}
	}
	return i, s, tags
}

// float vectors
func smallInt(g *Gen) float64 {
	switch g.Intn(6) {
	case 0:
		return 0
	case 1:
		return float64(g.Int63n(2049) - 1024)
	}
	return float64(g.Int63n(41) - 20)
}
func moderate(g *Gen) float64 {
	switch g.Intn(8) {
	case 0:
		return (g.R.Float64()*2 - 1) * 1e6
	case 1:
		return (g.R.Float64()*2 - 1) * 1e-3
	case 2:
		return float64(g.Int63n(2001)-1000) / 8 // dyadic
	case 3:
		return (g.R.Float64()*2 - 1) * 180
	}
	return (g.R.Float64()*2 - 1) * 100
}
func vecOf(g *Gen, f func(*Gen) float64) spatial.Vector3 {
	return spatial.Vector3{X: f(g), Y: f(g), Z: f(g)}
}
func genVec(g *Gen) (spatial.Vector3, string) {
	switch g.Intn(10) {
	case 0, 1, 2, 3:
		return vecOf(g, smallInt), "small-int"
	case 4:
		e := [3]float64{}
		e[g.Intn(3)] = float64(g.Pick(1, -1, 2, -5))
		return spatial.Vector3{X: e[0], Y: e[1], Z: e[2]}, "axis"
	}
	return vecOf(g, moderate), "moderate"
}
func isZero(v spatial.Vector3) bool { return v.X == 0 && v.Y == 0 && v.Z == 0 }
func genMat(g *Gen, small bool) spatial.Matrix3 {
	var m spatial.Matrix3
	for i := 0; i < 3; i++ {
		for j := 0; j < 3; j++ {
			if small {
				m[i][j] = smallInt(g)
			} else {
				m[i][j] = moderate(g)
			}
		}
	}
	return m
}

// pairs of vectors for the rotation: generic, parallel, opposite (exactly), opposite along z (second fallback axis), nearly opposite, zero
func rotPair(g *Gen) (spatial.Vector3, spatial.Vector3, string) {
	a, _ := genVec(g)
	for isZero(a) {
		a, _ = genVec(g)
	}
	switch g.Intn(12) {
	case 0:
		k := float64(g.Pick(1, 2, 4, 8)) / float64(g.Pick(1, 2, 16))
		return a, a.Scale(k), "parallel"
	case 1, 2:
		k := float64(g.Pick(1, 2, 4, 8)) / float64(g.Pick(1, 2, 16))
		return a, a.Scale(-k), "opposite"
	case 3: // along z: unit(a) x e_z = 0, the code must take its second fallback axis
		z := math.Abs(moderate(g)) + 0.5
		s := float64(g.Pick(1, -1))
		return spatial.Vector3{Z: s * z}, spatial.Vector3{Z: -s * z * float64(g.Pick(1, 2, 4))}, "opposite-along-z"
	case 4: // within 1e-10 of the z axis but not on it
		z := math.Abs(moderate(g)) + 0.5
		a = spatial.Vector3{X: z * 1e-12 * float64(g.Pick(1, -1, 3)), Y: z * 1e-12 * float64(g.Pick(0, 1, -2)), Z: z}
		return a, a.Scale(-2), "opposite-near-z"
	case 5: // along x / y: first fallback axis
		e := float64(g.Pick(1, -1, 3))
		if g.Chance(0.5) {
			return spatial.Vector3{X: e}, spatial.Vector3{X: -2 * e}, "opposite-along-xy"
		}
		return spatial.Vector3{Y: e}, spatial.Vector3{Y: -2 * e}, "opposite-along-xy"
	case 6: // nearly opposite: -a plus a relative perturbation between 1e-9 and 1e-3
		d, _ := genVec(g)
		eps := math.Pow(10, -3-6*g.R.Float64())
		n := a.Norm()
		dn := d.Norm()
		if dn == 0 {
			d, dn = spatial.Vector3{X: 1, Y: 1}, math.Sqrt2
		}
		return a, a.Scale(-1).Add(d.Scale(eps * n / dn)), "near-opposite"
	case 7:
		if g.Chance(0.5) {
			return spatial.Vector3{}, a, "zero"
		}
		return a, spatial.Vector3{}, "zero"
	case 8:
		return a, a.Cross(spatial.Vector3{X: 1, Y: 2, Z: 3}), "perpendicular"
	}
	b, _ := genVec(g)
	return a, b, "generic"
}

func init() {
	Scale["C20"] = 15000
	Registry["C20"] = func(r *run.Runner, g *Gen, n int) {
		r.Register(fns()...)
		MathOracles(r)
		r.Oracles["sin"] = func(a []w.Val) w.Val { return w.F(math.Sin(w.AsFlt(a[0]))) }
		r.Oracles["hypot"] = func(a []w.Val) w.Val { return w.F(math.Hypot(w.AsFlt(a[0]), w.AsFlt(a[1]))) }
		if n == 0 {
			return
		}
		run1 := func(fn string, triv bool, tags []string, args ...w.Val) {
			r.Run(run.Case{Prop: "C20", Fn: fn, Tags: append(tags, fn), Trivial: triv, Args: args})
		}
		// the combination enumerator: all 91 pairs 0 <= k <= n <= 12, every run
		for nn := int64(0); nn <= 12; nn++ {
			for k := int64(0); k <= nn; k++ {
				run1("Combinations", nn == 0, []string{Tag("n=%d", nn)}, w.I(nn), w.I(k))
			}
		}
		// fixed edge cases of the shift
		for _, p := range [][2]int64{{-1, -1}, {-1, -62}, {-1, 0}, {-1, 62}, {-3, -1}, {-5, -2}, {math.MinInt64, -62}, {math.MinInt64, 0}, {math.MaxInt64, -62},
			{1, 62}, {-2, 62}, {-1, 1}, {0, 62}, {0, -62}, {-7, -3}, {-8, -3}, {-9, -3}, {7, -3}, {math.MinInt64 + 1, -1},
			{1<<60 + 127, -6}, {-(1<<60 + 127), -6}, {math.MaxInt64, -62}, {math.MaxInt64, -1}, {math.MaxInt64, -10}, {1<<53 + 1, -1}, {-(1<<53 + 1), -1},
			{1<<62 + 1, -61}, {-(1<<62 + 1), -61}, {math.MinInt64 + 1, -62}, {1<<54 + 3, -2}, {-(1<<54 + 3), -2}, {math.MaxInt64 - 1, -5}} {
			run1("CalculateArithmeticShift", false, []string{"shift", "fixed"}, w.I(p[0]), w.I(p[1]))
		}
		// exactly opposite pairs along each of +-X, +-Y, +-Z, both orders, several magnitudes (each fallback axis of the code), every run
		for ax := 0; ax < 3; ax++ {
			for _, sg := range []float64{1, -1} {
				for _, mag := range [][2]float64{{2, 3}, {1, 1}, {0.5, 7}, {1000, 0.015625}, {3, 1e-3}, {123.456, 9.75}} {
					var a, b [3]float64
					a[ax] = sg * mag[0]
					b[ax] = -sg * mag[1]
					va, vb := spatial.Vector3{X: a[0], Y: a[1], Z: a[2]}, spatial.Vector3{X: b[0], Y: b[1], Z: b[2]}
					tag := []string{"rot:fixed-opposite-axis", Tag("rot:axis%d,sign%+.0f", ax, sg)}
					run1("RotateBetweenVector", false, tag, vecVal(va), vecVal(vb))
					run1("RotateBetweenVector", false, tag, vecVal(vb), vecVal(va))
				}
			}
		}
		// opposite pairs within 1e-10 of an axis but not on it, and generic opposite pairs
		for _, a := range []spatial.Vector3{{X: 1e-12, Y: 0, Z: -2}, {X: 0, Y: -3e-12, Z: 5}, {X: 1e-11, Y: 1e-11, Z: -1}, {X: -4, Y: 1e-12, Z: 0}, {X: 0, Y: 2, Z: -1e-12},
			{X: 1, Y: 2, Z: 3}, {X: -1, Y: 2, Z: -3}, {X: 0, Y: 1, Z: -1}, {X: 1, Y: 0, Z: 1}, {X: -5, Y: -5, Z: 0}} {
			for _, k := range []float64{-1, -2, -0.25} {
				run1("RotateBetweenVector", false, []string{"rot:fixed-opposite"}, vecVal(a), vecVal(a.Scale(k)))
				run1("RotateBetweenVector", false, []string{"rot:fixed-opposite"}, vecVal(a.Scale(k)), vecVal(a))
			}
		}
		// NewMatrix3: nine distinct small integers (fixed), so that any permutation of the argument order is visible
		run1("NewMatrix3", false, []string{"newmatrix:fixed"}, w.F(1), w.F(2), w.F(3), w.F(4), w.F(5), w.F(6), w.F(7), w.F(8), w.F(9))
		run1("NewMatrix3", false, []string{"newmatrix:fixed"}, w.F(-11), w.F(12), w.F(-13), w.F(21), w.F(-22), w.F(23), w.F(-31), w.F(32), w.F(-33))
		run1("Max/float64", false, []string{"maxmin-float:fixed"}, fltsVal([]float64{math.Copysign(0, -1), 0}))
		run1("Max/float64", false, []string{"maxmin-float:fixed"}, fltsVal([]float64{0, math.Copysign(0, -1)}))
		run1("Min/float64", false, []string{"maxmin-float:fixed"}, fltsVal([]float64{0, math.Copysign(0, -1)}))
		run1("Min/float64", false, []string{"maxmin-float:fixed"}, fltsVal([]float64{math.Copysign(0, -1), 0}))
		run1("Max/float64", false, []string{"maxmin-float:fixed"}, fltsVal([]float64{}))
		run1("Min/float64", false, []string{"maxmin-float:fixed"}, fltsVal([]float64{-1.5, -1.5, 2.5, 2.5}))
		for i := 0; i < n; i++ {
			switch k := g.Intn(20); {
			case k < 6: // set helpers
				useStr := g.Chance(0.4)
				op := []string{"Union", "Difference", "Intersect", "Unique", "Include"}[g.Intn(5)]
				if useStr {
					a, b, kind := strPair(g)
					tags := []string{"set:" + kind}
					if hasDup(a) || hasDup(b) {
						tags = append(tags, "duplicates")
					}
					triv := len(a) == 0 && len(b) == 0
					switch op {
					case "Unique":
						run1(op+"/string", len(a) == 0, tags, strsVal(a))
					case "Include":
						t := words[g.Intn(len(words))]
						if len(a) > 0 && g.Chance(0.5) {
							t = a[g.Intn(len(a))]
						}
						run1(op+"/string", len(a) == 0, tags, strsVal(a), w.S(t))
					default:
						run1(op+"/string", triv, tags, strsVal(a), strsVal(b))
					}
				} else {
					a, b, kind := intPair(g)
					tags := []string{"set:" + kind}
					if hasDup(a) || hasDup(b) {
						tags = append(tags, "duplicates")
					}
					triv := len(a) == 0 && len(b) == 0
					switch op {
					case "Unique":
						run1(op+"/int64", len(a) == 0, tags, intsVal(a))
					case "Include":
						t := g.Int63n(17) - 8
						if len(a) > 0 && g.Chance(0.5) {
							t = a[g.Intn(len(a))]
						}
						run1(op+"/int64", len(a) == 0, tags, intsVal(a), w.I(t))
					default:
						run1(op+"/int64", triv, tags, intsVal(a), intsVal(b))
					}
				}
			case k < 8: // max / min
				l := genInts(g, listLen(g), int64(1+g.Intn(50)))
				tags := []string{Tag("maxmin:len=%d", min(len(l), 5))}
				if len(l) > 0 {
					// extreme element first / last / repeated
					switch g.Intn(6) {
					case 0:
						l[0] = g.Pick(math.MaxInt64, math.MinInt64, 1000, -1000)
					case 1:
						l[len(l)-1] = g.Pick(math.MaxInt64, math.MinInt64, 1000, -1000)
					case 2:
						for j := range l {
							l[j] = l[0]
						}
					case 3: // neighbours that a float64 comparison cannot tell apart
						base := g.Pick(math.MaxInt64-3, math.MinInt64+1, 1<<53, -(1<<53)-2, 1<<60)
						for j := range l {
							l[j] = base + g.Int63n(3) - 1
						}
					}
				}
				if g.Intn(3) == 0 { // float64 instance: negative zero, equal elements, denormals, mixed magnitudes
					fl := make([]float64, len(l))
					for j := range fl {
						switch g.Intn(8) {
						case 0:
							fl[j] = g.PickF(0, math.Copysign(0, -1), 5e-324, -5e-324, 1, -1, math.MaxFloat64, -math.MaxFloat64, 0.1, -0.1)
						case 1:
							if j > 0 {
								fl[j] = fl[g.Intn(j)]
							}
						case 2:
							fl[j] = math.Copysign(0, float64(g.Pick(1, -1)))
						default:
							fl[j] = moderate(g)
							if g.Chance(0.3) {
								fl[j] = smallInt(g)
							}
						}
					}
					ft := []string{Tag("maxmin-float:len=%d", min(len(fl), 5))}
					if g.Chance(0.5) {
						run1("Max/float64", false, ft, fltsVal(fl))
					} else {
						run1("Min/float64", false, ft, fltsVal(fl))
					}
				} else if g.Chance(0.5) {
					run1("Max/int64", false, tags, intsVal(l))
				} else {
					run1("Min/int64", false, tags, intsVal(l))
				}
			case k < 11: // arithmetic shift
				i, s, tags := shiftPair(g)
				run1("CalculateArithmeticShift", s == 0, tags, w.I(i), w.I(s))
			case k < 14: // vectors
				a, ka := genVec(g)
				b, kb := genVec(g)
				f := smallInt(g)
				if ka != "small-int" && ka != "axis" {
					f = moderate(g)
				}
				if g.Intn(10) == 0 {
					b = a.Scale(float64(g.Pick(1, -1, 2)))
					kb = "parallel"
				}
				run1("VecOps", false, []string{"vec:" + ka + "," + kb}, vecVal(a), vecVal(b), w.F(f))
			case k < 15: // lines
				p, kp := genVec(g)
				q, kq := genVec(g)
				t := smallInt(g)
				if kp != "small-int" || kq != "small-int" || g.Chance(0.3) {
					t = g.PickF(0, 1, 0.5, 0.25, -1, 2, g.R.Float64(), moderate(g))
				}
				run1("LineOps", false, []string{"line:" + kp + "," + kq}, vecVal(p), vecVal(q), w.F(t))
			case k < 17: // matrices
				small := g.Chance(0.6)
				A, B, C := genMat(g, small), genMat(g, small), genMat(g, small)
				var v spatial.Vector3
				if small {
					v = vecOf(g, smallInt)
				} else {
					v = vecOf(g, moderate)
				}
				kind := "moderate"
				if small {
					kind = "small-int"
				}
				if g.Intn(8) == 0 {
					B = spatial.NewUnitMatrix3()
					kind += ",unit"
				}
				run1("MatOps", false, []string{"mat:" + kind}, matVal(A), matVal(B), matVal(C), vecVal(v))
				if g.Intn(4) == 0 { // constructor: nine distinct values in random order
					perm := g.R.Perm(9)
					args := make([]w.Val, 9)
					for j := range args {
						x := float64(perm[j] + 1)
						if !small {
							x = x*1.25 - 7
						}
						args[j] = w.F(x)
					}
					run1("NewMatrix3", false, []string{"newmatrix:distinct"}, args...)
				}
			case k < 19: // rotation
				if g.Intn(6) == 0 {
					ax, ka := genVec(g)
					ang := g.PickF(math.Pi, 0, math.Pi/2, -math.Pi, 1, moderate(g))
					run1("QuatFromAxisAngle", isZero(ax), []string{"axis-angle:" + ka}, vecVal(ax), w.F(ang))
				} else {
					a, b, kind := rotPair(g)
					run1("RotateBetweenVector", kind == "zero", []string{"rot:" + kind}, vecVal(a), vecVal(b))
				}
			default: // points
				np := listLen(g)
				if np > 8 {
					np = 8
				}
				small := g.Chance(0.5)
				f := moderate
				if small {
					f = smallInt
				}
				pts := make(w.List, np)
				var plist []spatial.Vector3
				for j := range pts {
					p := vecOf(g, f)
					if j > 0 && g.Intn(4) == 0 {
						p = plist[g.Intn(j)] // repeated point: ties
					}
					plist = append(plist, p)
					pts[j] = vecVal(p)
				}
				v := vecOf(g, f)
				p := vecOf(g, f)
				q := vecOf(g, f)
				eps := g.PickF(0, 1e-9, 0.5, 1, 2, 1e-3, -1, 10)
				switch g.Intn(4) {
				case 0:
					q = p
				case 1:
					q = p.Add(spatial.Vector3{X: eps, Y: -eps, Z: eps / 2})
				case 2:
					if np > 0 {
						p = plist[g.Intn(np)]
					}
				}
				run1("PointOps", false, []string{Tag("points:n=%d", np)}, pts, vecVal(v), vecVal(p), vecVal(q), w.F(eps))
			}
		}
	}
}
