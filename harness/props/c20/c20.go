// Package c20: property C20 — the exported helper algebra (common/util.go, common/spatial) obeys its mathematical laws.
package c20

import (
	"math"

	"github.com/trajectoryjp/spatial_id_go/v4/common"
	"github.com/trajectoryjp/spatial_id_go/v4/common/spatial"

	. "verif/harness/gen"
	"verif/harness/run"
	w "verif/harness/wire"
)

// ---------- wire helpers ----------
func vecVal(v spatial.Vector3) w.Val { return w.L(w.F(v.X), w.F(v.Y), w.F(v.Z)) }
func ptVal(p spatial.Point3) w.Val   { return w.L(w.F(p.X), w.F(p.Y), w.F(p.Z)) }
func asVec(v w.Val) spatial.Vector3 {
	l := w.AsList(v)
	return spatial.Vector3{X: w.AsFlt(l[0]), Y: w.AsFlt(l[1]), Z: w.AsFlt(l[2])}
}
func asPt(v w.Val) spatial.Point3 { return spatial.Point3(asVec(v)) }
func matVal(m spatial.Matrix3) w.Val {
	l := make(w.List, 0, 9)
	for i := 0; i < 3; i++ {
		for j := 0; j < 3; j++ {
			l = append(l, w.F(m[i][j]))
		}
	}
	return l
}
func asMat(v w.Val) spatial.Matrix3 {
	l := w.AsList(v)
	var m spatial.Matrix3
	for i := 0; i < 3; i++ {
		for j := 0; j < 3; j++ {
			m[i][j] = w.AsFlt(l[3*i+j])
		}
	}
	return m
}
func quatVal(q spatial.Quat) w.Val { return w.L(w.F(q.W), w.F(q.X), w.F(q.Y), w.F(q.Z)) }
func asI32s(v w.Val) []int32 {
	l := w.AsInts(v)
	r := make([]int32, len(l))
	for i, x := range l {
		r[i] = int32(x)
	}
	return r
}
func i32sVal(l []int32) w.Val {
	r := make(w.List, len(l))
	for i, x := range l {
		r[i] = w.I(int64(x))
	}
	return r
}
func asF32s(v w.Val) []float32 {
	l := w.AsList(v)
	r := make([]float32, len(l))
	for i, x := range l {
		r[i] = float32(w.AsFlt(x))
	}
	return r
}
func asFlts(v w.Val) []float64 {
	l := w.AsList(v)
	r := make([]float64, len(l))
	for i, x := range l {
		r[i] = w.AsFlt(x)
	}
	return r
}
func fltsVal(l []float64) w.Val {
	r := make(w.List, len(l))
	for i, x := range l {
		r[i] = w.F(x)
	}
	return r
}
func intsVal(l []int64) w.Val {
	r := make(w.List, len(l))
	for i, s := range l {
		r[i] = w.I(s)
	}
	return r
}
func strsVal(l []string) w.Val {
	r := make(w.List, len(l))
	for i, s := range l {
		r[i] = w.S(s)
	}
	return r
}

// ---------- invokers ----------
func fns() []*run.Fn {
	return []*run.Fn{
		{Name: "Union/int64", Invoke: func(a []w.Val) w.Val { return intsVal(common.Union(w.AsInts(a[0]), w.AsInts(a[1]))) }},
		{Name: "Union/string", Invoke: func(a []w.Val) w.Val { return strsVal(common.Union(w.AsStrs(a[0]), w.AsStrs(a[1]))) }},
		{Name: "Unique/int64", Invoke: func(a []w.Val) w.Val { return intsVal(common.Unique(w.AsInts(a[0]))) }},
		{Name: "Unique/string", Invoke: func(a []w.Val) w.Val { return strsVal(common.Unique(w.AsStrs(a[0]))) }},
		{Name: "Difference/int64", Invoke: func(a []w.Val) w.Val { return intsVal(common.Difference(w.AsInts(a[0]), w.AsInts(a[1]))) }},
		{Name: "Difference/string", Invoke: func(a []w.Val) w.Val { return strsVal(common.Difference(w.AsStrs(a[0]), w.AsStrs(a[1]))) }},
		{Name: "Intersect/int64", Invoke: func(a []w.Val) w.Val { return intsVal(common.Intersect(w.AsInts(a[0]), w.AsInts(a[1]))) }},
		{Name: "Intersect/string", Invoke: func(a []w.Val) w.Val { return strsVal(common.Intersect(w.AsStrs(a[0]), w.AsStrs(a[1]))) }},
		{Name: "Include/int64", Invoke: func(a []w.Val) w.Val { return w.B(common.Include(w.AsInts(a[0]), w.AsInt(a[1]))) }},
		{Name: "Include/string", Invoke: func(a []w.Val) w.Val { return w.B(common.Include(w.AsStrs(a[0]), w.AsStr(a[1]))) }},
		{Name: "Union/int32", Invoke: func(a []w.Val) w.Val { return i32sVal(common.Union(asI32s(a[0]), asI32s(a[1]))) }},
		{Name: "Unique/int32", Invoke: func(a []w.Val) w.Val { return i32sVal(common.Unique(asI32s(a[0]))) }},
		{Name: "Difference/int32", Invoke: func(a []w.Val) w.Val { return i32sVal(common.Difference(asI32s(a[0]), asI32s(a[1]))) }},
		{Name: "Intersect/int32", Invoke: func(a []w.Val) w.Val { return i32sVal(common.Intersect(asI32s(a[0]), asI32s(a[1]))) }},
		{Name: "Include/int32", Invoke: func(a []w.Val) w.Val { return w.B(common.Include(asI32s(a[0]), int32(w.AsInt(a[1])))) }},
		{Name: "Union/float64", Invoke: func(a []w.Val) w.Val { return fltsVal(common.Union(asFlts(a[0]), asFlts(a[1]))) }},
		{Name: "Unique/float64", Invoke: func(a []w.Val) w.Val { return fltsVal(common.Unique(asFlts(a[0]))) }},
		{Name: "Difference/float64", Invoke: func(a []w.Val) w.Val { return fltsVal(common.Difference(asFlts(a[0]), asFlts(a[1]))) }},
		{Name: "Intersect/float64", Invoke: func(a []w.Val) w.Val { return fltsVal(common.Intersect(asFlts(a[0]), asFlts(a[1]))) }},
		{Name: "Include/float64", Invoke: func(a []w.Val) w.Val { return w.B(common.Include(asFlts(a[0]), w.AsFlt(a[1]))) }},
		{Name: "Max/int", Invoke: func(a []w.Val) w.Val {
			l := w.AsInts(a[0])
			r := make([]int, len(l))
			for i, x := range l {
				r[i] = int(x)
			}
			v, err := common.Max(r)
			return w.WithErr(w.I(int64(v)), err)
		}},
		{Name: "Min/int", Invoke: func(a []w.Val) w.Val {
			l := w.AsInts(a[0])
			r := make([]int, len(l))
			for i, x := range l {
				r[i] = int(x)
			}
			v, err := common.Min(r)
			return w.WithErr(w.I(int64(v)), err)
		}},
		{Name: "Max/int32", Invoke: func(a []w.Val) w.Val {
			v, err := common.Max(asI32s(a[0]))
			return w.WithErr(w.I(int64(v)), err)
		}},
		{Name: "Min/int32", Invoke: func(a []w.Val) w.Val {
			v, err := common.Min(asI32s(a[0]))
			return w.WithErr(w.I(int64(v)), err)
		}},
		{Name: "Max/float32", Invoke: func(a []w.Val) w.Val {
			v, err := common.Max(asF32s(a[0]))
			return w.WithErr(w.F(float64(v)), err)
		}},
		{Name: "Min/float32", Invoke: func(a []w.Val) w.Val {
			v, err := common.Min(asF32s(a[0]))
			return w.WithErr(w.F(float64(v)), err)
		}},
		{Name: "ScalarOps", Invoke: func(a []w.Val) w.Val {
			x, y, tol, ang := w.AsFlt(a[0]), w.AsFlt(a[1]), w.AsFlt(a[2]), w.AsFlt(a[3])
			return w.L(w.B(common.AlmostEqual(x, y, tol)), w.B(common.AlmostEqual(y, x, tol)), w.F(common.DegreeToRadian(ang)),
				w.F(common.RadianToDegree(ang)), w.F(common.RadianToDegree(common.DegreeToRadian(ang))))
		}},
		{Name: "Max/int64", Invoke: func(a []w.Val) w.Val {
			v, err := common.Max(w.AsInts(a[0]))
			return w.WithErr(w.I(v), err)
		}},
		{Name: "Min/int64", Invoke: func(a []w.Val) w.Val {
			v, err := common.Min(w.AsInts(a[0]))
			return w.WithErr(w.I(v), err)
		}},
		{Name: "Max/float64", Invoke: func(a []w.Val) w.Val {
			v, err := common.Max(asFlts(a[0]))
			return w.WithErr(w.F(v), err)
		}},
		{Name: "Min/float64", Invoke: func(a []w.Val) w.Val {
			v, err := common.Min(asFlts(a[0]))
			return w.WithErr(w.F(v), err)
		}},
		{Name: "NewMatrix3", Invoke: func(a []w.Val) w.Val {
			f := make([]float64, 9)
			for i := range f {
				f[i] = w.AsFlt(a[i])
			}
			m := spatial.NewMatrix3(f[0], f[1], f[2], f[3], f[4], f[5], f[6], f[7], f[8])
			return w.L(matVal(m), vecVal(m.MulVec(spatial.Vector3{X: 1})), vecVal(m.MulVec(spatial.Vector3{Y: 1})), vecVal(m.MulVec(spatial.Vector3{Z: 1})))
		}},
		{Name: "CalculateArithmeticShift", Invoke: func(a []w.Val) w.Val {
			return w.I(common.CalculateArithmeticShift(w.AsInt(a[0]), w.AsInt(a[1])))
		}},
		{Name: "Combinations", Invoke: func(a []w.Val) w.Val {
			out := w.List{}
			common.Combinations(w.AsInt(a[0]), w.AsInt(a[1]), func(p []int64) {
				if len(out) > 5000 {
					panic("combination enumerator does not stop")
				}
				out = append(out, intsVal(append([]int64{}, p...)))
			})
			return out
		}},
		{Name: "VecOps", Invoke: func(a []w.Val) w.Val {
			x, y, f := asVec(a[0]), asVec(a[1]), w.AsFlt(a[2])
			c := x.Cross(y)
			return w.L(vecVal(x.Add(y)), vecVal(x.Sub(y)), vecVal(x.Scale(f)), w.F(x.Dot(y)), vecVal(c), w.F(x.L1Norm()),
				w.F(x.Norm()), w.F(y.Norm()), vecVal(x.Unit()), w.F(x.Cos(y)), ptVal(spatial.Point3(x).Translate(y)),
				w.F(spatial.Point3(x).DistancePoint(spatial.Point3(y))), vecVal(spatial.NewVectorFromPoints(spatial.Point3(x), spatial.Point3(y))),
				w.F(x.Dot(c)), w.F(y.Dot(c)), w.F(x.Dot(x)), w.F(y.Dot(y)))
		}},
		{Name: "LineOps", Invoke: func(a []w.Val) w.Val {
			p, q, t := asPt(a[0]), asPt(a[1]), w.AsFlt(a[2])
			l := spatial.NewLineFromPoints(p, q)
			return w.L(ptVal(l.ToPoint(0)), ptVal(l.ToPoint(1)), ptVal(l.ToPoint(t)), ptVal(l.Start()), ptVal(l.End()), vecVal(l.Direction))
		}},
		{Name: "MatOps", Invoke: func(a []w.Val) w.Val {
			A, B, C, v := asMat(a[0]), asMat(a[1]), asMat(a[2]), asVec(a[3])
			I := spatial.NewUnitMatrix3()
			return w.L(matVal(A.Mul(B)), matVal(A.Mul(B).Mul(C)), matVal(A.Mul(B.Mul(C))), vecVal(A.Mul(B).MulVec(v)), vecVal(A.MulVec(B.MulVec(v))),
				matVal(I.Mul(A)), matVal(A.Mul(I)), vecVal(I.MulVec(v)))
		}},
		{Name: "RotateBetweenVector", Invoke: func(a []w.Val) w.Val { return quatVal(spatial.RotateBetweenVector(asVec(a[0]), asVec(a[1]))) }},
		{Name: "QuatFromAxisAngle", Invoke: func(a []w.Val) w.Val { return quatVal(spatial.QuatFromAxisAngle(asVec(a[0]), w.AsFlt(a[1]))) }},
		{Name: "PointOps", Invoke: func(a []w.Val) w.Val {
			var pts []*spatial.Point3
			for _, e := range w.AsList(a[0]) {
				p := asPt(e)
				pts = append(pts, &p)
			}
			v, p, q, eps := asVec(a[1]), asPt(a[2]), asPt(a[3]), w.AsFlt(a[4])
			mx, e1 := spatial.MaxPoint(pts, v)
			mn, e2 := spatial.MinPoint(pts, v)
			ua := spatial.UniqueAppend(pts, &p, eps)
			ual := make(w.List, len(ua))
			for i, x := range ua {
				ual[i] = ptVal(*x)
			}
			return w.L(w.WithErr(ptVal(*mx), e1), w.WithErr(ptVal(*mn), e2), w.B(p.IsClose(q, eps)), ual,
				w.B(common.AlmostEqual(p.X, q.X, eps)), w.F(common.DegreeToRadian(eps)), w.F(common.RadianToDegree(eps)))
		}},
	}
}

// ---------- generators ----------
var words = []string{"", "a", "b", "ab", "A", "1/2/3/4/5", "1/2/3/4/-5", "25/0/0/25/0", "é", " ", "0", "-0", "x/y", "a\tb", "zz", "日本"}

func genInts(g *Gen, n int, span int64) []int64 {
	l := make([]int64, n)
	for i := range l {
		switch g.Intn(12) {
		case 0:
			l[i] = g.Pick(math.MinInt64, math.MaxInt64, -1, 0, 1, math.MinInt64+1, math.MaxInt64-1, 1<<53, 1<<53+1, -(1 << 53), -(1<<53)-1)
		default:
			l[i] = g.Int63n(2*span+1) - span
		}
	}
	return l
}
func genStrs(g *Gen, n int, span int) []string {
	l := make([]string, n)
	many := n > 12 && g.Chance(0.7)
	for i := range l {
		l[i] = words[g.Intn(span)]
		if many {
			l[i] = Tag("%d/%d/%d/%d", 10+g.Intn(4), g.Intn(3), g.Intn(40), g.Intn(3))
		}
	}
	return l
}
func listLen(g *Gen) int {
	switch g.Intn(6) {
	case 0:
		return 0
	case 1:
		return 1
	case 2:
		return 2 + g.Intn(3)
	case 3:
		if g.Intn(4) == 0 {
			return 20 + g.Intn(200) // many keys: several map buckets / growth
		}
		return 9 + g.Intn(30)
	}
	return g.Intn(14)
}

// pairs of lists: kind 0 independent (overlapping by small span), 1 disjoint, 2 equal, 3 permuted copy, 4 sub-list, 5 one empty
func intPair(g *Gen) ([]int64, []int64, string) {
	span := int64(1 + g.Intn(8))
	if g.Intn(3) == 0 {
		span = int64(10 + g.Intn(300))
	}
	a := genInts(g, listLen(g), span)
	switch g.Intn(7) {
	case 0:
		b := genInts(g, listLen(g), span)
		for i := range b {
			if b[i] > -100 && b[i] < 100 {
				b[i] += 1000
			} else {
				b[i] = 1000
			}
		}
		for i := range a {
			if a[i] <= -100 || a[i] >= 100 {
				a[i] = 7
			}
		}
		return a, b, "disjoint"
	case 1:
		return a, append([]int64{}, a...), "equal"
	case 2:
		b := append([]int64{}, a...)
		g.R.Shuffle(len(b), func(i, j int) { b[i], b[j] = b[j], b[i] })
		return a, b, "permuted"
	case 3:
		if len(a) > 0 {
			return a, append([]int64{}, a[:g.Intn(len(a))]...), "prefix"
		}
		return a, []int64{}, "prefix"
	case 4:
		if g.Chance(0.5) {
			return a, []int64{}, "second-empty"
		}
		return []int64{}, a, "first-empty"
	}
	return a, genInts(g, listLen(g), span), "overlapping"
}
func strPair(g *Gen) ([]string, []string, string) {
	span := 2 + g.Intn(len(words)-1)
	a := genStrs(g, listLen(g), span)
	switch g.Intn(6) {
	case 0:
		b := genStrs(g, listLen(g), span)
		for i := range b {
			b[i] = "#" + b[i]
		}
		return a, b, "disjoint"
	case 1:
		return a, append([]string{}, a...), "equal"
	case 2:
		b := append([]string{}, a...)
		g.R.Shuffle(len(b), func(i, j int) { b[i], b[j] = b[j], b[i] })
		return a, b, "permuted"
	case 3:
		if g.Chance(0.5) {
			return a, []string{}, "second-empty"
		}
		return []string{}, a, "first-empty"
	case 4:
		if len(a) > 0 {
			return a, append([]string{}, a[:g.Intn(len(a))]...), "prefix"
		}
		return a, []string{}, "prefix"
	}
	return a, genStrs(g, listLen(g), span), "overlapping"
}
func hasDup[T comparable](l []T) bool {
	m := map[T]struct{}{}
	for _, x := range l {
		if _, ok := m[x]; ok {
			return true
		}
		m[x] = struct{}{}
	}
	return false
}

// index/shift pairs with |shift| < 63 whose result fits int64
func shiftPair(g *Gen) (int64, int64, []string) {
	var s int64
	switch g.Intn(5) {
	case 0:
		s = g.Pick(0, 1, -1, 62, -62, 2, -2, 61, -61, 32, -32, 35, -35)
	case 1:
		s = -g.Int63n(63)
	default:
		s = g.Int63n(125) - 62
	}
	var i int64
	if s >= 0 {
		// -2^(63-s) <= i < 2^(63-s): the product fits int64
		lo, hi := int64(math.MinInt64), int64(math.MaxInt64)
		if s > 0 {
			lim := int64(1) << uint(63-s)
			lo, hi = -lim, lim-1
		}
		switch g.Intn(6) {
		case 0:
			i = g.Pick(-1, 0, 1, -2, 3, -3)
			if i < lo {
				i = lo
			}
			if i > hi {
				i = hi
			}
		case 1:
			i = lo
		case 2:
			i = hi
		default:
			if s == 0 {
				i = g.R.Int63()
			} else {
				i = g.Int63n(hi + 1)
			}
			if g.Chance(0.5) {
				i = -i - 1
			}
		}
	} else {
		switch g.Intn(12) {
		case 8, 9, 10, 11: // magnitude 2^53 .. 2^63-1, either sign, non-zero low bits: not representable in float64
			e := uint(53 + g.Intn(10))
			i = int64(1)<<e + g.Int63n(int64(1)<<e)
			if e == 62 && g.Intn(4) == 0 {
				i = math.MaxInt64 - g.Int63n(1024)
			}
			i |= 1 + g.Int63n(255) // low bits set
			if g.Chance(0.5) {
				i = -i
			}
		case 0:
			i = g.Pick(-1, 0, 1, -2, -3, 3, math.MinInt64, math.MaxInt64, math.MinInt64+1)
		case 1: // exact multiple of 2^-s, and its neighbours (floor vs truncation differ on the negative side)
			k := g.Int63n(1<<20) - (1 << 19)
			sh := uint(-s)
			if sh > 42 {
				k = g.Int63n(9) - 4
			}
			i = k<<sh + g.Pick(-1, 0, 1)
		case 2, 3:
			i = -g.Int63n(math.MaxInt64) - 1
		case 4:
			i = -(g.Int63n(1<<16) + 1)
		default:
			i = g.R.Int63()
			if g.Chance(0.5) {
				i = -i - 1
			}
		}
	}
	tags := []string{"shift"}
	switch {
	case s > 0:
		tags = append(tags, "shift>0")
	case s < 0:
		tags = append(tags, "shift<0")
	default:
		tags = append(tags, "shift=0")
	}
	if i < 0 {
		tags = append(tags, "index<0")
	}
	if (i >= 1<<53 || i <= -(1<<53)) && s < 0 {
		tags = append(tags, "|index|>=2^53,shift<0")
	}
	if i < 0 && s < 0 {
		tags = append(tags, "neg-index-neg-shift")
		if sh := uint(-s); sh < 63 && i&(int64(1)<<sh-1) != 0 {
			tags = append(tags, "floor!=trunc")
		}
	}
	return i, s, tags
}

// float vectors
func smallInt(g *Gen) float64 {
	switch g.Intn(6) {
	case 0:
		return 0
	case 1:
		return float64(g.Int63n(2049) - 1024)
	}
	return float64(g.Int63n(41) - 20)
}
func moderate(g *Gen) float64 {
	switch g.Intn(8) {
	case 0:
		return (g.R.Float64()*2 - 1) * 1e6
	case 1:
		return (g.R.Float64()*2 - 1) * 1e-3
	case 2:
		return float64(g.Int63n(2001)-1000) / 8 // dyadic
	case 3:
		return (g.R.Float64()*2 - 1) * 180
	}
	return (g.R.Float64()*2 - 1) * 100
}
func vecOf(g *Gen, f func(*Gen) float64) spatial.Vector3 {
	return spatial.Vector3{X: f(g), Y: f(g), Z: f(g)}
}
func genVec(g *Gen) (spatial.Vector3, string) {
	switch g.Intn(10) {
	case 0, 1, 2, 3:
		return vecOf(g, smallInt), "small-int"
	case 4:
		e := [3]float64{}
		e[g.Intn(3)] = float64(g.Pick(1, -1, 2, -5))
		return spatial.Vector3{X: e[0], Y: e[1], Z: e[2]}, "axis"
	}
	return vecOf(g, moderate), "moderate"
}
func isZero(v spatial.Vector3) bool { return v.X == 0 && v.Y == 0 && v.Z == 0 }
func genMat(g *Gen, small bool) spatial.Matrix3 {
	var m spatial.Matrix3
	for i := 0; i < 3; i++ {
		for j := 0; j < 3; j++ {
			if small {
				m[i][j] = smallInt(g)
			} else {
				m[i][j] = moderate(g)
			}
		}
	}
	return m
}

// fit keeps a generated component inside the checker's "moderate" range (zero, or 2^-98 <= |x| <= 2^98)
func fit(x float64) float64 {
	const lo, hi = 0x1p-98, 0x1p98
	if x == 0 || math.IsNaN(x) {
		return 0
	}
	if math.Abs(x) < lo {
		return math.Copysign(lo, x)
	}
	if math.Abs(x) > hi {
		return math.Copysign(hi, x)
	}
	return x
}
func fitV(v spatial.Vector3) spatial.Vector3 { return spatial.Vector3{X: fit(v.X), Y: fit(v.Y), Z: fit(v.Z)} }

// pow2 draws a power of two: mostly 1, otherwise 2^k with |k| <= 70 (the magnitudes the "moderate" assumption speaks about)
func pow2(g *Gen) (float64, string) {
	if g.Intn(10) < 6 {
		return 1, ""
	}
	k := g.Intn(141) - 70
	if g.Intn(4) == 0 {
		k = int(g.Pick(70, -70, 69, -69, 52, -52))
	}
	return math.Ldexp(1, k), ",scaled"
}

// mixed gives every component its own power of two (axis-dominated vectors)
func mixed(g *Gen, v spatial.Vector3) spatial.Vector3 {
	return fitV(spatial.Vector3{X: math.Ldexp(v.X, g.Intn(81)-40), Y: math.Ldexp(v.Y, g.Intn(81)-40), Z: math.Ldexp(v.Z, g.Intn(81)-40)})
}

// turned returns sgn*(a cos(theta)) + d sin(theta) with d perpendicular to a and |d| = |a|: a vector at angle theta from sgn*a
func turned(g *Gen, a spatial.Vector3, sgn, theta float64) spatial.Vector3 {
	r, _ := genVec(g)
	d := a.Cross(r)
	if d.Norm() < 1e-6*a.Norm()*(r.Norm()+1e-300) || isZero(d) {
		d = a.Cross(spatial.Vector3{X: 0.3, Y: -1.1, Z: 0.7})
		if isZero(d) {
			d = a.Cross(spatial.Vector3{X: 1})
		}
	}
	d = d.Scale(a.Norm() / d.Norm())
	return a.Scale(sgn * math.Cos(theta)).Add(d.Scale(math.Sin(theta)))
}

// angle whose 1+cos (for nearly opposite) or 1-cos (nearly parallel) is theta^2/2: log-uniform 1e-12..1e-1, or aimed at a threshold
func smallAngle(g *Gen) (float64, string) {
	if g.Intn(3) > 0 {
		return math.Pow(10, -1-11*g.R.Float64()), "log-uniform"
	}
	// thresholds in 1+cos: Minima = 1e-10 (branch), 2^-32, 2^-19 (class bounds), 1e-6, 2^-16
	t := g.PickF(1e-10, 1e-10, 1e-10, 0x1p-32, 0x1p-19, 0x1p-19, 1e-6, 0x1p-16, 1e-8, 1e-7)
	d := g.PickF(1e-2, 1e-4, 1e-6, 1e-9, 0) * (2*g.R.Float64() - 1)
	return math.Sqrt(2*t) * (1 + d), Tag("at-1+cos=%.0e", t)
}

// pairs of vectors for the rotation: generic, parallel, nearly parallel, opposite (exactly; each fallback axis), nearly opposite, perpendicular
func rotPair(g *Gen) (spatial.Vector3, spatial.Vector3, string) {
	a, _ := genVec(g)
	for isZero(a) {
		a, _ = genVec(g)
	}
	sc, st := pow2(g)
	sc2, _ := pow2(g)
	switch g.Intn(14) {
	case 0:
		k := float64(g.Pick(1, 2, 4, 8)) / float64(g.Pick(1, 2, 16))
		return fitV(a.Scale(sc)), fitV(a.Scale(k * sc2)), "parallel" + st
	case 1, 2:
		k := float64(g.Pick(1, 2, 4, 8)) / float64(g.Pick(1, 2, 16))
		return fitV(a.Scale(sc)), fitV(a.Scale(-k * sc2)), "opposite" + st
	case 3: // along z: unit(a) x e_z = 0, the code must take its second fallback axis
		z := math.Abs(moderate(g)) + 0.5
		s := float64(g.Pick(1, -1))
		return fitV(spatial.Vector3{Z: s * z * sc}), fitV(spatial.Vector3{Z: -s * z * float64(g.Pick(1, 2, 4)) * sc2}), "opposite-along-z" + st
	case 4: // within 1e-10 of the z axis but not on it
		z := math.Abs(moderate(g)) + 0.5
		a = spatial.Vector3{X: z * 1e-12 * float64(g.Pick(1, -1, 3)), Y: z * 1e-12 * float64(g.Pick(0, 1, -2)), Z: z}
		return fitV(a.Scale(sc)), fitV(a.Scale(-2 * sc)), "opposite-near-z" + st
	case 5: // along x / y: first fallback axis
		e := float64(g.Pick(1, -1, 3))
		if g.Chance(0.5) {
			return fitV(spatial.Vector3{X: e * sc}), fitV(spatial.Vector3{X: -2 * e * sc2}), "opposite-along-xy" + st
		}
		return fitV(spatial.Vector3{Y: e * sc}), fitV(spatial.Vector3{Y: -2 * e * sc2}), "opposite-along-xy" + st
	case 6, 7, 8: // nearly opposite: angle pi - theta
		th, kind := smallAngle(g)
		return fitV(a.Scale(sc)), fitV(turned(g, a, -1, th).Scale(sc2)), "near-opposite:" + kind
	case 9: // nearly parallel: angle theta
		th, kind := smallAngle(g)
		return fitV(a.Scale(sc)), fitV(turned(g, a, 1, th).Scale(sc2)), "near-parallel:" + kind
	case 10:
		return fitV(a.Scale(sc)), fitV(a.Cross(spatial.Vector3{X: 1, Y: 2, Z: 3}).Scale(sc2)), "perpendicular" + st
	case 11: // components of very different magnitudes
		b, _ := genVec(g)
		a, b = mixed(g, a), mixed(g, b)
		if isZero(a) || isZero(b) {
			return spatial.Vector3{X: 1}, spatial.Vector3{Y: 1}, "generic"
		}
		return a, b, "mixed-magnitude"
	}
	b, _ := genVec(g)
	for isZero(b) {
		b, _ = genVec(g)
	}
	return fitV(a.Scale(sc)), fitV(b.Scale(sc2)), "generic" + st
}

func init() {
	Scale["C20"] = 13000
	Registry["C20"] = func(r *run.Runner, g *Gen, n int) {
		r.Register(fns()...)
		MathOracles(r)
		r.Oracles["sin"] = func(a []w.Val) w.Val { return w.F(math.Sin(w.AsFlt(a[0]))) }
		r.Oracles["hypot"] = func(a []w.Val) w.Val { return w.F(math.Hypot(w.AsFlt(a[0]), w.AsFlt(a[1]))) }
		if n == 0 {
			return
		}
		run1 := func(fn string, triv bool, tags []string, args ...w.Val) {
			r.Run(run.Case{Prop: "C20", Fn: fn, Tags: append(tags, fn), Trivial: triv, Args: args})
		}
		// the combination enumerator: all 91 pairs 0 <= k <= n <= 12, every run
		for nn := int64(0); nn <= 12; nn++ {
			for k := int64(0); k <= nn; k++ {
				run1("Combinations", nn == 0, []string{Tag("n=%d", nn)}, w.I(nn), w.I(k))
			}
		}
		// fixed edge cases of the shift
		for _, p := range [][2]int64{{-1, -1}, {-1, -62}, {-1, 0}, {-1, 62}, {-3, -1}, {-5, -2}, {math.MinInt64, -62}, {math.MinInt64, 0}, {math.MaxInt64, -62},
			{1, 62}, {-2, 62}, {-1, 1}, {0, 62}, {0, -62}, {-7, -3}, {-8, -3}, {-9, -3}, {7, -3}, {math.MinInt64 + 1, -1},
			{1<<60 + 127, -6}, {-(1<<60 + 127), -6}, {math.MaxInt64, -62}, {math.MaxInt64, -1}, {math.MaxInt64, -10}, {1<<53 + 1, -1}, {-(1<<53 + 1), -1},
			{1<<62 + 1, -61}, {-(1<<62 + 1), -61}, {math.MinInt64 + 1, -62}, {1<<54 + 3, -2}, {-(1<<54 + 3), -2}, {math.MaxInt64 - 1, -5}} {
			run1("CalculateArithmeticShift", false, []string{"shift", "fixed"}, w.I(p[0]), w.I(p[1]))
		}
		// exactly opposite pairs along each of +-X, +-Y, +-Z, both orders, several magnitudes (each fallback axis of the code), every run
		for ax := 0; ax < 3; ax++ {
			for _, sg := range []float64{1, -1} {
				for _, mag := range [][2]float64{{2, 3}, {1, 1}, {0.5, 7}, {1000, 0.015625}, {3, 1e-3}, {123.456, 9.75}} {
					var a, b [3]float64
					a[ax] = sg * mag[0]
					b[ax] = -sg * mag[1]
					va, vb := spatial.Vector3{X: a[0], Y: a[1], Z: a[2]}, spatial.Vector3{X: b[0], Y: b[1], Z: b[2]}
					tag := []string{"rot:fixed-opposite-axis", Tag("rot:axis%d,sign%+.0f", ax, sg)}
					run1("RotateBetweenVector", false, tag, vecVal(va), vecVal(vb))
					run1("RotateBetweenVector", false, tag, vecVal(vb), vecVal(va))
				}
			}
		}
		// opposite pairs within 1e-10 of an axis but not on it, and generic opposite pairs
		for _, a := range []spatial.Vector3{{X: 1e-12, Y: 0, Z: -2}, {X: 0, Y: -3e-12, Z: 5}, {X: 1e-11, Y: 1e-11, Z: -1}, {X: -4, Y: 1e-12, Z: 0}, {X: 0, Y: 2, Z: -1e-12},
			{X: 1, Y: 2, Z: 3}, {X: -1, Y: 2, Z: -3}, {X: 0, Y: 1, Z: -1}, {X: 1, Y: 0, Z: 1}, {X: -5, Y: -5, Z: 0}} {
			for _, k := range []float64{-1, -2, -0.25} {
				run1("RotateBetweenVector", false, []string{"rot:fixed-opposite"}, vecVal(a), vecVal(a.Scale(k)))
				run1("RotateBetweenVector", false, []string{"rot:fixed-opposite"}, vecVal(a.Scale(k)), vecVal(a))
			}
		}
		// NewMatrix3: nine distinct small integers (fixed), so that any permutation of the argument order is visible
		run1("NewMatrix3", false, []string{"newmatrix:fixed"}, w.F(1), w.F(2), w.F(3), w.F(4), w.F(5), w.F(6), w.F(7), w.F(8), w.F(9))
		run1("NewMatrix3", false, []string{"newmatrix:fixed"}, w.F(-11), w.F(12), w.F(-13), w.F(21), w.F(-22), w.F(23), w.F(-31), w.F(32), w.F(-33))
		run1("Max/float64", false, []string{"maxmin-float:fixed"}, fltsVal([]float64{math.Copysign(0, -1), 0}))
		run1("Max/float64", false, []string{"maxmin-float:fixed"}, fltsVal([]float64{0, math.Copysign(0, -1)}))
		run1("Min/float64", false, []string{"maxmin-float:fixed"}, fltsVal([]float64{0, math.Copysign(0, -1)}))
		run1("Min/float64", false, []string{"maxmin-float:fixed"}, fltsVal([]float64{math.Copysign(0, -1), 0}))
		run1("Max/float64", false, []string{"maxmin-float:fixed"}, fltsVal([]float64{}))
		run1("Min/float64", false, []string{"maxmin-float:fixed"}, fltsVal([]float64{-1.5, -1.5, 2.5, 2.5}))
		for i := 0; i < n; i++ {
			switch k := g.Intn(22); {
			case k < 6: // set helpers
				useStr := g.Chance(0.4)
				op := []string{"Union", "Difference", "Intersect", "Unique", "Include"}[g.Intn(5)]
				if useStr {
					a, b, kind := strPair(g)
					tags := []string{"set:" + kind}
					if hasDup(a) || hasDup(b) {
						tags = append(tags, "duplicates")
					}
					triv := len(a) == 0 && len(b) == 0
					switch op {
					case "Unique":
						run1(op+"/string", len(a) == 0, tags, strsVal(a))
					case "Include":
						t := words[g.Intn(len(words))]
						if len(a) > 0 && g.Chance(0.5) {
							t = a[g.Intn(len(a))]
						}
						run1(op+"/string", len(a) == 0, tags, strsVal(a), w.S(t))
					default:
						run1(op+"/string", triv, tags, strsVal(a), strsVal(b))
					}
				} else {
					a, b, kind := intPair(g)
					tags := []string{"set:" + kind}
					if hasDup(a) || hasDup(b) {
						tags = append(tags, "duplicates")
					}
					if len(a) > 8 || len(b) > 8 {
						tags = append(tags, "set:len>8")
					}
					triv := len(a) == 0 && len(b) == 0
					t := g.Int63n(17) - 8
					if len(a) > 0 && g.Chance(0.5) {
						t = a[g.Intn(len(a))]
					}
					ty := "/int64"
					var va, vb, vt w.Val = intsVal(a), intsVal(b), w.I(t)
					switch g.Intn(5) {
					case 0: // int32 instance: clamp the 64-bit extremes to the 32-bit ones
						ty = "/int32"
						c32 := func(l []int64) []int64 {
							r := make([]int64, len(l))
							for i, x := range l {
								switch {
								case x > math.MaxInt32:
									x = math.MaxInt32 - x&1
								case x < math.MinInt32:
									x = math.MinInt32 + x&1
								}
								r[i] = x
							}
							return r
						}
						va, vb, vt = intsVal(c32(a)), intsVal(c32(b)), w.I(c32([]int64{t})[0])
					case 1: // float64 instance without NaN: halves, +0 and -0 (one key, two bit patterns)
						ty = "/float64"
						cf := func(l []int64) []float64 {
							r := make([]float64, len(l))
							for i, x := range l {
								r[i] = float64(x) / 2
								if x == 0 && g.Chance(0.5) {
									r[i] = math.Copysign(0, -1)
								}
							}
							return r
						}
						va, vb, vt = fltsVal(cf(a)), fltsVal(cf(b)), w.F(cf([]int64{t})[0])
					}
					switch op {
					case "Unique":
						run1(op+ty, len(a) == 0, tags, va)
					case "Include":
						run1(op+ty, len(a) == 0, tags, va, vt)
					default:
						run1(op+ty, triv, tags, va, vb)
					}
				}
			case k < 8: // max / min
				l := genInts(g, listLen(g), int64(1+g.Intn(50)))
				tags := []string{Tag("maxmin:len=%d", min(len(l), 5))}
				if len(l) > 0 {
					// extreme element first / last / repeated
					switch g.Intn(6) {
					case 0:
						l[0] = g.Pick(math.MaxInt64, math.MinInt64, 1000, -1000)
					case 1:
						l[len(l)-1] = g.Pick(math.MaxInt64, math.MinInt64, 1000, -1000)
					case 2:
						for j := range l {
							l[j] = l[0]
						}
					case 3: // neighbours that a float64 comparison cannot tell apart
						base := g.Pick(math.MaxInt64-3, math.MinInt64+1, 1<<53, -(1<<53)-2, 1<<60)
						for j := range l {
							l[j] = base + g.Int63n(3) - 1
						}
					}
				}
				if g.Intn(3) == 0 { // float64 instance: negative zero, equal elements, denormals, mixed magnitudes
					fl := make([]float64, len(l))
					for j := range fl {
						switch g.Intn(8) {
						case 0:
							fl[j] = g.PickF(0, math.Copysign(0, -1), 5e-324, -5e-324, 1, -1, math.MaxFloat64, -math.MaxFloat64, 0.1, -0.1)
						case 1:
							if j > 0 {
								fl[j] = fl[g.Intn(j)]
							}
						case 2:
							fl[j] = math.Copysign(0, float64(g.Pick(1, -1)))
						default:
							fl[j] = moderate(g)
							if g.Chance(0.3) {
								fl[j] = smallInt(g)
							}
						}
					}
					ft := []string{Tag("maxmin-float:len=%d", min(len(fl), 5))}
					fty := "/float64"
					if g.Intn(4) == 0 {
						fty = "/float32"
						for j := range fl {
							fl[j] = float64(float32(fl[j])) // exactly representable (5e-324 becomes 0, MaxFloat64 becomes +Inf: replaced)
							if math.IsInf(fl[j], 0) {
								fl[j] = math.Copysign(math.MaxFloat32, fl[j])
							}
						}
					}
					if g.Chance(0.5) {
						run1("Max"+fty, false, ft, fltsVal(fl))
					} else {
						run1("Min"+fty, false, ft, fltsVal(fl))
					}
				} else {
					ty := "/int64"
					switch g.Intn(6) {
					case 0:
						ty = "/int"
					case 1:
						ty = "/int32"
						for j, x := range l {
							if x > math.MaxInt32 {
								l[j] = math.MaxInt32 - x&1
							} else if x < math.MinInt32 {
								l[j] = math.MinInt32 + x&1
							}
						}
					}
					if g.Chance(0.5) {
						run1("Max"+ty, false, tags, intsVal(l))
					} else {
						run1("Min"+ty, false, tags, intsVal(l))
					}
				}
			case k < 11: // arithmetic shift
				i, s, tags := shiftPair(g)
				run1("CalculateArithmeticShift", s == 0, tags, w.I(i), w.I(s))
			case k < 14: // vectors
				a, ka := genVec(g)
				b, kb := genVec(g)
				f := smallInt(g)
				if ka != "small-int" && ka != "axis" {
					f = moderate(g)
				}
				switch g.Intn(12) {
				case 0:
					b = a.Scale(float64(g.Pick(1, -1, 2)))
					kb = "parallel"
				case 1:
					if !isZero(a) {
						th, _ := smallAngle(g)
						b = turned(g, a, float64(g.Pick(1, -1)), th)
						kb = "near-parallel"
					}
				case 2:
					a, b = mixed(g, a), mixed(g, b)
					ka, kb = "mixed-magnitude", "mixed-magnitude"
				}
				sa, st := pow2(g)
				sb, _ := pow2(g)
				sf, _ := pow2(g)
				run1("VecOps", false, []string{"vec:" + ka + "," + kb + st}, vecVal(fitV(a.Scale(sa))), vecVal(fitV(b.Scale(sb))), w.F(fit(f*sf)))
			case k < 15: // lines
				p, kp := genVec(g)
				q, kq := genVec(g)
				t := smallInt(g)
				if kp != "small-int" || kq != "small-int" || g.Chance(0.3) {
					t = g.PickF(0, 1, 0.5, 0.25, -1, 2, g.R.Float64(), g.R.Float64(), moderate(g), moderate(g))
				}
				sp, st := pow2(g)
				sq := sp
				if g.Intn(3) == 0 {
					sq, _ = pow2(g)
				}
				run1("LineOps", false, []string{"line:" + kp + "," + kq + st}, vecVal(fitV(p.Scale(sp))), vecVal(fitV(q.Scale(sq))), w.F(fit(t)))
			case k < 17: // matrices
				small := g.Chance(0.6)
				A, B, C := genMat(g, small), genMat(g, small), genMat(g, small)
				var v spatial.Vector3
				if small {
					v = vecOf(g, smallInt)
				} else {
					v = vecOf(g, moderate)
				}
				kind := "moderate"
				if small {
					kind = "small-int"
				}
				if g.Intn(8) == 0 {
					B = spatial.NewUnitMatrix3()
					kind += ",unit"
				}
				if !small && g.Intn(3) == 0 { // entries across the moderate range
					kind += ",scaled"
					for _, mm := range []*spatial.Matrix3{&A, &B, &C} {
						sc, _ := pow2(g)
						for i := 0; i < 3; i++ {
							for j := 0; j < 3; j++ {
								e := 0
								if g.Intn(4) == 0 {
									e = g.Intn(41) - 20
								}
								mm[i][j] = fit(math.Ldexp(mm[i][j]*sc, e))
							}
						}
					}
					sc, _ := pow2(g)
					v = fitV(v.Scale(sc))
				}
				run1("MatOps", false, []string{"mat:" + kind}, matVal(A), matVal(B), matVal(C), vecVal(v))
				if g.Intn(4) == 0 { // constructor: nine distinct values in random order
					perm := g.R.Perm(9)
					args := make([]w.Val, 9)
					for j := range args {
						x := float64(perm[j] + 1)
						if !small {
							x = x*1.25 - 7
						}
						args[j] = w.F(x)
					}
					run1("NewMatrix3", false, []string{"newmatrix:distinct"}, args...)
				}
			case k < 19: // rotation
				if g.Intn(6) == 0 {
					ax, ka := genVec(g)
					for isZero(ax) {
						ax, ka = genVec(g)
					}
					sc, st := pow2(g)
					if g.Intn(6) == 0 {
						ax = mixed(g, ax)
						ka = "mixed-magnitude"
					}
					ang := g.PickF(math.Pi, 0, math.Pi/2, -math.Pi, 1, 2*math.Pi, -math.Pi/2, 1e-9, 100, moderate(g), moderate(g), g.R.Float64()*2*math.Pi)
					run1("QuatFromAxisAngle", false, []string{"axis-angle:" + ka + st}, vecVal(fitV(ax.Scale(sc))), w.F(fit(ang)))
				} else {
					a, b, kind := rotPair(g)
					run1("RotateBetweenVector", false, []string{"rot:" + kind}, vecVal(a), vecVal(b))
				}
			case k >= 20: // AlmostEqual and the degree/radian conversions, with their own arguments
				wideF := func() float64 {
					switch g.Intn(6) {
					case 0:
						return g.PickF(0, math.Copysign(0, -1), 1, -1, 1e-300, -1e-300, 1e300, -1e300, 0.1, 1e-9)
					case 1:
						return math.Ldexp(g.R.Float64()*2-1, g.Intn(1801)-900)
					case 2:
						return float64(g.Int63n(2001) - 1000)
					}
					return moderate(g)
				}
				x := wideF()
				y := wideF()
				tol := g.PickF(0, 1e-9, 0.5, 1, 1e-3, -1, 10, math.Abs(wideF()))
				switch g.Intn(6) {
				case 0:
					y = x
				case 1, 2: // the tolerance is exactly, or one ulp off, the rounded difference
					y = x + moderate(g)*g.PickF(1, 1e-6, 1e-12)
					tol = Ulp(math.Abs(x-y), g.Intn(5)-2)
				case 3:
					y = x + tol*g.PickF(1, -1, 0.5, 2, 0.999999, 1.000001)
				}
				ang := g.PickF(0, 90, -90, 180, -180, 360, 45, 1e-300, 1e300, -1e300, 57.29577951308232, math.Pi, wideF(), wideF(), moderate(g), g.R.Float64()*720-360)
				wf := func(x float64) float64 { // zero or 2^-999 <= |x| <= 2^999, no NaN/Inf
					if x == 0 || math.IsNaN(x) {
						return 0
					}
					if math.Abs(x) < 0x1p-999 {
						return math.Copysign(0x1p-999, x)
					}
					if math.Abs(x) > 0x1p999 {
						return math.Copysign(0x1p999, x)
					}
					return x
				}
				run1("ScalarOps", false, []string{"scalar"}, w.F(wf(x)), w.F(wf(y)), w.F(wf(tol)), w.F(wf(ang)))
			default: // points
				np := listLen(g)
				if np > 8 {
					np = 8
				}
				small := g.Chance(0.5)
				f := moderate
				if small {
					f = smallInt
				}
				pts := make(w.List, np)
				var plist []spatial.Vector3
				for j := range pts {
					p := vecOf(g, f)
					if j > 0 && g.Intn(4) == 0 {
						p = plist[g.Intn(j)] // repeated point: ties
					}
					plist = append(plist, p)
					pts[j] = vecVal(p)
				}
				v := vecOf(g, f)
				p := vecOf(g, f)
				q := vecOf(g, f)
				eps := g.PickF(0, 1e-9, 0.5, 1, 2, 1e-3, -1, 10, math.Abs(moderate(g)), math.Abs(moderate(g))*1e-6)
				switch g.Intn(4) {
				case 0:
					q = p
				case 1:
					q = p.Add(spatial.Vector3{X: eps, Y: -eps, Z: eps / 2})
				case 2:
					if np > 0 {
						p = plist[g.Intn(np)]
					}
				}
				run1("PointOps", false, []string{Tag("points:n=%d", np)}, pts, vecVal(v), vecVal(p), vecVal(q), w.F(eps))
			}
		}
	}
}
