#!/usr/bin/env python3
"""latcert — per-latitude, kernel-checked certificates for the latitude axis of property C01 (DESIGN.md 4.3).

For a seeded sample of stored latitudes phi (exact dyadic rationals) the rows y_0 .. y_35 returned by the code under analysis
($VERIF_REPO) at ALL 36 zooms are compared with the real-number row  2^h * (1 - ln(tan a + 1/cos a)/PI)/2,  a = phi*PI/180:
  1. CoqInterval (interval_intro, 120 bits) encloses the real row at zoom 35 once per latitude; the real rows of the other zooms are
     that number divided by 2^(35-h) (exact), so one enclosure decides all 36 zooms (PointProofs.y_f_all_zooms_from_35 is the same
     fact on the model: a certified zoom-35 row gives every zoom);
  2. a Coq file with one lemma per latitude is compiled by coqc (Qed = kernel-checked):
       sharp   IZR y35 <= row35 < IZR y35 + 1                        then every y_h must equal y35 >> (35-h), checked exactly here
       banded  IZR y35 - d <= row35 < IZR y35 + 1 + d, d = 2^-10     (y35 = k-1 or k+1 and the real row within d of the common boundary)
     and, for a row that is wrong at some zoom h, the lemma  IZR k <= row_h < IZR k + 1  with k <> y_h: REPLAY + exit 1.
Outcomes per (latitude, zoom) pair, all reported as STAT lines:
  certified_sharp   y_h is the real-number row;
  y_rounding        y_h is a neighbour row and the real position is within 2^(h-45) rows of the common boundary (the tolerance band of
                    the property's own observation point; PointProofs.y_f_close shows it is what |m/2 - w| <= 2^-45 allows). Counted,
                    not a violation; never observed so far. If it ever exceeds 1 % of the pairs the step answers BROKEN;
  undecided         the 120-bit enclosure straddles an integer n (real row within 2^-100 of a boundary): y_h must still be n-1 or n,
                    else violation; more than max(1, 1 %) undecided latitudes = BROKEN (the certificates no longer decide);
  outside_band      violation.
Protocol (AGENT-GUIDE, extra steps): exit 0 ok; exit 1 + "REPLAY <path>"; other exit + "BROKEN <text>"; "STAT k=v" lines.
Only the python standard library is used."""
import os, sys, subprocess, json, re, shutil, time
from fractions import Fraction
from concurrent.futures import ThreadPoolExecutor

VERIF = os.path.dirname(os.path.dirname(os.path.dirname(os.path.dirname(os.path.abspath(__file__)))))
REPO = os.path.realpath(os.environ.get("VERIF_REPO", "/repo"))
BUILD = os.environ.get("VERIF_BUILD", "/tmp/vdev/C01")
TIER = os.environ.get("VERIF_TIER", "quick")
SEED = os.environ.get("VERIF_SEED", "1") or "1"
N = int(os.environ.get("C01_LATCERT_N", "0") or 0) or (120 if TIER == "quick" else 2000)      # latitudes; each at all 36 zooms
WORK = os.path.join(BUILD, "latcert")
ENV = dict(os.environ, GOFLAGS="-mod=mod", GOPROXY="off", GOSUMDB="off", GOTOOLCHAIN="local", CGO_ENABLED="1")
HEADER = "From Coq Require Import Reals.\nFrom Interval Require Import Tactic.\nOpen Scope R_scope.\nSet Printing Width 1000000.\n"


def broken(msg):
    print("BROKEN " + msg.replace("\n", " ")[:600])
    sys.exit(2)


def sh(cmd, **kw):
    return subprocess.run(cmd, shell=isinstance(cmd, str), stdout=subprocess.PIPE, stderr=subprocess.STDOUT, text=True, env=ENV, **kw)


def build_sampler():
    out = os.path.join(WORK, "latsample")
    if REPO == "/repo":
        cmd = f"cd {VERIF}/harness && go build -tags verif -o {out} ./props/c01/latsample"
    else:
        mod = open(os.path.join(VERIF, "harness", "go.mod")).read().replace("=> /repo", "=> " + REPO)
        open(os.path.join(WORK, "alt.mod"), "w").write(mod)
        shutil.copy(os.path.join(REPO, "go.sum"), os.path.join(WORK, "alt.sum"))
        cmd = f"cd {VERIF}/harness && go build -modfile={WORK}/alt.mod -tags verif -o {out} ./props/c01/latsample"
    r = sh(cmd, timeout=900)
    if r.returncode != 0:
        broken("the latitude sampler does not build against the tree: " + r.stdout[-400:])
    return out


def lat_fraction(bits):
    s = bits >> 63
    e = (bits >> 52) & 0x7FF
    m = bits & ((1 << 52) - 1)
    if e == 0x7FF:
        raise ValueError("non-finite latitude")
    if e == 0:
        v = Fraction(m, 1 << 1074)
    else:
        v = Fraction(m | (1 << 52), 1) * Fraction(2) ** (e - 1075)
    return -v if s else v


def row_expr(q, h):
    a = f"(({q.numerator}) / {q.denominator} * (PI / 180))"
    return f"(2^{h} * ((1 - ln (tan {a} + 1 / cos {a}) / PI) / 2))"


def parse_bound(t):
    t = t.replace("(", "").replace(")", "").replace(" ", "").replace("%R", "")
    neg = t.count("-") % 2 == 1
    t = t.replace("-", "")
    if not re.fullmatch(r"\d+(/\d+)?", t):
        raise ValueError("unparsable bound: " + t)
    v = Fraction(t)
    return -v if neg else v


def floor(fr):
    return fr.numerator // fr.denominator


def run_shards(files, tool):
    """tool = 'coqtop' (stdin, keeps going) or 'coqc'; returns list of (returncode, output)"""
    def one(f):
        if tool == "coqtop":
            return subprocess.run(["bash", "-c", f"timeout 3000 coqtop -q < {f}"], stdout=subprocess.PIPE, stderr=subprocess.STDOUT, text=True)
        return subprocess.run(["bash", "-c", f"cd {os.path.dirname(f)} && timeout 3000 coqc -q {os.path.basename(f)}"], stdout=subprocess.PIPE, stderr=subprocess.STDOUT, text=True)
    with ThreadPoolExecutor(max_workers=len(files)) as ex:
        return [(r.returncode, r.stdout) for r in ex.map(one, files)]


def main():
    t0 = time.time()
    shutil.rmtree(WORK, ignore_errors=True)
    os.makedirs(WORK, exist_ok=True)
    sampler = build_sampler()
    r = subprocess.run([sampler, "-seed", SEED, "-n", str(N)], stdout=subprocess.PIPE, stderr=subprocess.PIPE, text=True, timeout=600)
    if r.returncode != 0:
        broken("the latitude sampler failed (a valid latitude is refused or an ID is malformed): " + (r.stderr or r.stdout)[-400:])
    pts = []
    seen = set()
    for line in r.stdout.split("\n"):
        f = line.split()
        if len(f) != 37:
            continue
        bits = int(f[0], 16)
        if bits in seen:
            continue
        seen.add(bits)
        pts.append({"bits": bits, "ys": [int(x) for x in f[1:]], "q": lat_fraction(bits)})
    if not pts:
        broken("the latitude sampler produced no points")
    nshard = max(1, min(8, (os.cpu_count() or 2) // 2, (len(pts) + 39) // 40))
    # --- 1. one enclosure of the real zoom-35 row per latitude
    todo = []
    for i, p in enumerate(pts):
        p["i"] = i
        if p["q"] != 0:
            todo.append(p)
    files = []
    for s in range(nshard):
        fn = os.path.join(WORK, f"discover{s}.v")
        with open(fn, "w") as fh:
            fh.write(HEADER)
            for p in todo[s::nshard]:
                fh.write(f"Goal True. interval_intro {row_expr(p['q'], 35)} with (i_prec 120) as H. "
                         f"match type of H with (?a <= _ <= ?b) => idtac \"ENC\" \"{p['i']}\" \"LO\" a \"HI\" b end. exact I. Qed.\n")
        files.append(fn)
    outs = run_shards(files, "coqtop")
    enc = {}
    for code, out in outs:
        for m in re.finditer(r"ENC (\d+) LO (.*?) HI (.*?)$", out, flags=re.M):
            try:
                enc[int(m.group(1))] = (parse_bound(m.group(2)), parse_bound(m.group(3)))
            except ValueError as e:
                broken("cannot read an interval enclosure printed by Coq: " + str(e))
    missing = [p for p in todo if p["i"] not in enc]
    if missing:
        broken(f"CoqInterval produced no enclosure for {len(missing)} of {len(todo)} sample latitudes (first: bits {missing[0]['bits']:016x}); "
               + outs[0][1][-300:])
    # --- 2. every zoom of every latitude, from the one enclosure
    n_sharp = n_round = n_undec = n_equ = 0
    undec_lats = 0
    viol = []          # (p, h, y, k, near_lo, near_hi)
    lemmas = []
    for p in pts:
        ys = p["ys"]
        if p["q"] == 0:
            # the equator: the fraction is exactly 1/2 (PtMerc.wfrac_0, Y_exact_equator): row 2^(h-1), or 0 at zoom 0
            for h in range(36):
                k = (1 << (h - 1)) if h >= 1 else 0
                n_equ += 1
                if ys[h] != k:
                    viol.append((p, h, ys[h], k, False, False, Fraction(1 << h, 2), Fraction(1 << h, 2)))
            continue
        lo35, hi35 = enc[p["i"]]
        row35 = row_expr(p["q"], 35)
        # the kernel-checked lemma of this latitude (zoom 35)
        k35lo, k35hi = floor(lo35), floor(hi35)
        d35 = Fraction(1, 1 << 10)
        y35 = ys[35]
        if k35lo == k35hi and y35 == k35lo:
            lemmas.append((p, 35, f"Lemma sharp35_{p['i']} : {y35} <= {row35} < {y35} + 1. Proof. split; interval with (i_prec 120). Qed."))
        elif k35lo == k35hi and ((y35 == k35lo - 1 and hi35 < k35lo + d35) or (y35 == k35lo + 1 and lo35 >= k35lo + 1 - d35)):
            lemmas.append((p, 35, f"Lemma band35_{p['i']} : {y35} - / 2^10 <= {row35} < {y35} + 1 + / 2^10. Proof. split; interval with (i_prec 120). Qed."))
            lemmas.append((p, 35, f"Lemma true_row35_{p['i']} : {k35lo} <= {row35} < {k35lo} + 1. Proof. split; interval with (i_prec 120). Qed."))
        elif k35lo != k35hi:
            undec_lats += 1
        lat_bad = False
        for h in range(36):
            sc = 1 << (35 - h)
            lo, hi = lo35 / sc, hi35 / sc
            d = Fraction(1, 1 << (45 - h))
            y = ys[h]
            if floor(lo) != floor(hi):
                n = floor(hi)
                if y == n or y == n - 1:
                    n_undec += 1
                else:
                    viol.append((p, h, y, n, True, False, lo, hi)); lat_bad = True
                continue
            k = floor(lo)
            if y == k:
                n_sharp += 1
            elif (y == k - 1 and hi < k + d) or (y == k + 1 and lo >= k + 1 - d):
                n_round += 1
            elif (y == k - 1 and lo < k + d) or (y == k + 1 and hi >= k + 1 - d):
                n_undec += 1
            else:
                viol.append((p, h, y, k, lo < k + d, hi >= k + 1 - d, lo, hi)); lat_bad = True
                if len(viol) <= 12:
                    rowh = row_expr(p["q"], h)
                    lemmas.append((p, h, f"Lemma true_row_{p['i']}_{h} : {k} <= {rowh} < {k} + 1. Proof. split; interval with (i_prec 120). Qed."))
    files = []
    for s in range(nshard):
        fn = os.path.join(WORK, f"LatCert{s}.v")
        with open(fn, "w") as fh:
            fh.write("(* generated by harness/props/c01/latcert.py: interval certificates for the latitude rows returned by the code *)\n" + HEADER)
            for p, h, l in lemmas[s::nshard]:
                fh.write(f"(* latitude bits {p['bits']:016x}, zoom {h}, the code returned row {p['ys'][h]} *)\n{l}\n")
        files.append(fn)
    outs = run_shards(files, "coqc")
    for (code, out), fn in zip(outs, files):
        if code != 0:
            broken(f"a generated interval certificate does not check ({os.path.basename(fn)}): " + out[-400:])
    pairs = 36 * len(pts)
    print(f"STAT latitudes={len(pts)}")
    print(f"STAT pairs_lat_zoom={pairs}")
    print(f"STAT certified_sharp={n_sharp}")
    print(f"STAT y_rounding={n_round}")
    print(f"STAT undecided_within_2^-100={n_undec}")
    print(f"STAT undecided_latitudes={undec_lats}")
    print(f"STAT equator_pairs_by_lemma={n_equ}")
    print(f"STAT kernel_checked_lemmas={len(lemmas)}")
    print(f"STAT outside_band={len(viol)}")
    print(f"STAT wall_s={time.time() - t0:.1f}")
    if viol:
        rd = os.path.join(BUILD, "replays") if os.environ.get("VERIF_DEV") == "1" else os.path.join(VERIF, "replays")
        os.makedirs(rd, exist_ok=True)
        b = lambda x: "b1" if x else "b0"
        for j, (p, h, y, k, nlo, nhi, lo, hi) in enumerate(viol[:3]):
            rp = os.path.join(rd, f"C01-latcert-{j}.json")
            json.dump({"property": "C01", "function": "LatRow", "kind": "property", "class": "-",
                       "args": f"( f{p['bits']:016x} i{h} i{k} {b(nlo)} {b(nhi)} )",
                       "observed": f"i{y}", "model": "", "shrunk": False,
                       "note": f"interval certificate (kernel-checked, {WORK}): the real Mercator row of latitude {float(p['q'])!r} at zoom {h} is {k} "
                               f"(enclosure [{float(lo)!r}, {float(hi)!r}]); the code returned {y}, outside the band of 2^({h}-45) rows"},
                      open(rp, "w"), indent=1)
            print("REPLAY " + rp)
        p, h, y, k = viol[0][:4]
        print(f"BROKEN {len(viol)} of {pairs} (latitude, zoom) pairs: the returned row is not the certified real-number row (first: lat {float(p['q'])!r} zoom {h} returned {y} certified {k})")
        return 1
    if undec_lats > max(1, len(pts) // 100):
        broken(f"{undec_lats} of {len(pts)} sampled latitudes are undecided at 120 bits: the interval certificates no longer decide the row")
    if n_round > pairs // 100:
        broken(f"{n_round} of {pairs} (latitude, zoom) pairs are only inside the tolerance band (class y_rounding): the latitude computation lost accuracy")
    return 0


if __name__ == "__main__":
    sys.exit(main())
