#!/usr/bin/env python3
"""latcert — per-sample, kernel-checked certificates for the latitude axis of property C01 (DESIGN.md 4.3).

For a seeded sample of stored latitudes phi (exact dyadic rationals) and zooms h, the row y returned by the code under analysis
($VERIF_REPO) is compared with the real-number row  2^h * (1 - ln(tan a + 1/cos a)/PI)/2,  a = phi*PI/180:
  1. CoqInterval (interval_intro, 120 bits) encloses the real row; the enclosure names the true row k;
  2. a Coq file with one lemma per point is compiled by coqc (Qed = kernel-checked):
       sharp   IZR y <= row < IZR y + 1                              (y = k)
       banded  IZR y - d <= row < IZR y + 1 + d, d = 2^(h-45) rows   (y = k-1 or k+1, real row within d of the common boundary:
                                                                       class y_rounding, counted, not a violation)
       otherwise the lemma  IZR k <= row < IZR k + 1  with k <> y certifies that the code's row is wrong: REPLAY + exit 1.
Protocol (AGENT-GUIDE, extra steps): exit 0 ok; exit 1 + "REPLAY <path>"; other exit + "BROKEN <text>"; "STAT k=v" lines.
Only the python standard library is used."""
import os, sys, subprocess, json, re, shutil, time
from fractions import Fraction
from concurrent.futures import ThreadPoolExecutor

VERIF = os.path.dirname(os.path.dirname(os.path.dirname(os.path.dirname(os.path.abspath(__file__)))))
REPO = os.path.realpath(os.environ.get("VERIF_REPO", "/repo"))
BUILD = os.environ.get("VERIF_BUILD", "/tmp/vdev/C01")
TIER = os.environ.get("VERIF_TIER", "quick")
SEED = os.environ.get("VERIF_SEED", "1") or "1"
N = int(os.environ.get("C01_LATCERT_N", "0") or 0) or (100 if TIER == "quick" else 2000)
WORK = os.path.join(BUILD, "latcert")
ENV = dict(os.environ, GOFLAGS="-mod=mod", GOPROXY="off", GOSUMDB="off", GOTOOLCHAIN="local", CGO_ENABLED="1")
HEADER = "From Coq Require Import Reals.\nFrom Interval Require Import Tactic.\nOpen Scope R_scope.\nSet Printing Width 1000000.\n"


def broken(msg):
    print("BROKEN " + msg.replace("\n", " ")[:600])
    sys.exit(2)


def sh(cmd, **kw):
    return subprocess.run(cmd, shell=isinstance(cmd, str), stdout=subprocess.PIPE, stderr=subprocess.STDOUT, text=True, env=ENV, **kw)


def build_sampler():
    out = os.path.join(WORK, "latsample")
    if REPO == "/repo":
        cmd = f"cd {VERIF}/harness && go build -tags verif -o {out} ./props/c01/latsample"
    else:
        mod = open(os.path.join(VERIF, "harness", "go.mod")).read().replace("=> /repo", "=> " + REPO)
        open(os.path.join(WORK, "alt.mod"), "w").write(mod)
        shutil.copy(os.path.join(REPO, "go.sum"), os.path.join(WORK, "alt.sum"))
        cmd = f"cd {VERIF}/harness && go build -modfile={WORK}/alt.mod -tags verif -o {out} ./props/c01/latsample"
    r = sh(cmd, timeout=900)
    if r.returncode != 0:
        broken("the latitude sampler does not build against the tree: " + r.stdout[-400:])
    return out


def lat_fraction(bits):
    s = bits >> 63
    e = (bits >> 52) & 0x7FF
    m = bits & ((1 << 52) - 1)
    if e == 0x7FF:
        raise ValueError("non-finite latitude")
    if e == 0:
        v = Fraction(m, 1 << 1074)
    else:
        v = Fraction(m | (1 << 52), 1) * Fraction(2) ** (e - 1075)
    return -v if s else v


def row_expr(q, h):
    a = f"(({q.numerator}) / {q.denominator} * (PI / 180))"
    return f"(2^{h} * ((1 - ln (tan {a} + 1 / cos {a}) / PI) / 2))"


def parse_bound(t):
    t = t.replace("(", "").replace(")", "").replace(" ", "").replace("%R", "")
    neg = t.count("-") % 2 == 1
    t = t.replace("-", "")
    if not re.fullmatch(r"\d+(/\d+)?", t):
        raise ValueError("unparsable bound: " + t)
    v = Fraction(t)
    return -v if neg else v


def floor(fr):
    return fr.numerator // fr.denominator


def run_shards(files, tool):
    """tool = 'coqtop' (stdin, keeps going) or 'coqc'; returns list of (returncode, output)"""
    def one(f):
        if tool == "coqtop":
            return subprocess.run(["bash", "-c", f"timeout 3000 coqtop -q < {f}"], stdout=subprocess.PIPE, stderr=subprocess.STDOUT, text=True)
        return subprocess.run(["bash", "-c", f"cd {os.path.dirname(f)} && timeout 3000 coqc -q {os.path.basename(f)}"], stdout=subprocess.PIPE, stderr=subprocess.STDOUT, text=True)
    with ThreadPoolExecutor(max_workers=len(files)) as ex:
        return [(r.returncode, r.stdout) for r in ex.map(one, files)]


def main():
    t0 = time.time()
    shutil.rmtree(WORK, ignore_errors=True)
    os.makedirs(WORK, exist_ok=True)
    sampler = build_sampler()
    r = subprocess.run([sampler, "-seed", SEED, "-n", str(N)], stdout=subprocess.PIPE, stderr=subprocess.PIPE, text=True, timeout=600)
    if r.returncode != 0:
        broken("the latitude sampler failed: " + (r.stderr or r.stdout)[-400:])
    pts = []
    seen = set()
    for line in r.stdout.split("\n"):
        f = line.split()
        if len(f) != 3:
            continue
        bits, h, y = int(f[0], 16), int(f[1]), int(f[2])
        if (bits, h) in seen:
            continue
        seen.add((bits, h))
        pts.append({"bits": bits, "h": h, "y": y, "q": lat_fraction(bits)})
    if not pts:
        broken("the latitude sampler produced no points")
    nshard = max(1, min(8, (os.cpu_count() or 2) // 2, (len(pts) + 39) // 40))
    # --- 1. enclosures of the real row
    by_lemma = 0
    todo = []
    for i, p in enumerate(pts):
        p["i"] = i
        if p["q"] == 0:
            # the equator: the fraction is exactly 1/2 (PtMerc.wfrac_0, Y_exact_equator): row 2^(h-1), or 0 at zoom 0
            p["k"] = (1 << (p["h"] - 1)) if p["h"] >= 1 else 0
            p["lo"] = p["hi"] = Fraction(1 << p["h"], 2)
            p["lemma"] = True
            by_lemma += 1
        else:
            todo.append(p)
    files = []
    for s in range(nshard):
        fn = os.path.join(WORK, f"discover{s}.v")
        with open(fn, "w") as fh:
            fh.write(HEADER)
            for p in todo[s::nshard]:
                fh.write(f"Goal True. interval_intro {row_expr(p['q'], p['h'])} with (i_prec 120) as H. "
                         f"match type of H with (?a <= _ <= ?b) => idtac \"ENC\" \"{p['i']}\" \"LO\" a \"HI\" b end. exact I. Qed.\n")
        files.append(fn)
    outs = run_shards(files, "coqtop")
    enc = {}
    for code, out in outs:
        for m in re.finditer(r"ENC (\d+) LO (.*?) HI (.*?)$", out, flags=re.M):
            try:
                enc[int(m.group(1))] = (parse_bound(m.group(2)), parse_bound(m.group(3)))
            except ValueError as e:
                broken("cannot read an interval enclosure printed by Coq: " + str(e))
    missing = [p for p in todo if p["i"] not in enc]
    if missing:
        broken(f"CoqInterval produced no enclosure for {len(missing)} of {len(todo)} sample latitudes (first: bits {missing[0]['bits']:016x} h {missing[0]['h']}); "
               + outs[0][1][-300:])
    # --- 2. classification from the enclosures, and the lemmas to be kernel-checked
    sharp, rounding, undecided, viol = [], [], [], []
    lemmas = []
    for p in pts:
        h, y = p["h"], p["y"]
        d = Fraction(1, 1 << (45 - h))
        if p.get("lemma"):
            (sharp if y == p["k"] else viol).append(p)
            p["near_lo"] = p["near_hi"] = False
            continue
        lo, hi = enc[p["i"]]
        p["lo"], p["hi"] = lo, hi
        if floor(lo) != floor(hi):
            undecided.append(p)          # the real row is within 2^-100 of an integer: not decidable at this precision
            continue
        k = floor(lo)
        p["k"] = k
        p["near_lo"] = lo < k + d
        p["near_hi"] = hi >= k + 1 - d
        row = row_expr(p["q"], h)
        if y == k:
            sharp.append(p)
            lemmas.append((p, f"Lemma sharp_{p['i']} : {y} <= {row} < {y} + 1. Proof. split; interval with (i_prec 120). Qed."))
        elif (y == k - 1 and hi < k + d) or (y == k + 1 and lo >= k + 1 - d):
            rounding.append(p)
            lemmas.append((p, f"Lemma band_{p['i']} : {y} - / 2^{45 - h} <= {row} < {y} + 1 + / 2^{45 - h}. Proof. split; interval with (i_prec 120). Qed."))
            lemmas.append((p, f"Lemma true_row_{p['i']} : {k} <= {row} < {k} + 1. Proof. split; interval with (i_prec 120). Qed."))
        elif (y == k - 1 and p["near_lo"]) or (y == k + 1 and p["near_hi"]):
            undecided.append(p)
        else:
            viol.append(p)
            lemmas.append((p, f"Lemma true_row_{p['i']} : {k} <= {row} < {k} + 1. Proof. split; interval with (i_prec 120). Qed."))
    files = []
    for s in range(nshard):
        fn = os.path.join(WORK, f"LatCert{s}.v")
        with open(fn, "w") as fh:
            fh.write("(* generated by harness/props/c01/latcert.py: interval certificates for the latitude rows returned by the code *)\n" + HEADER)
            for p, l in lemmas[s::nshard]:
                fh.write(f"(* latitude bits {p['bits']:016x}, zoom {p['h']}, the code returned row {p['y']} *)\n{l}\n")
        files.append(fn)
    outs = run_shards(files, "coqc")
    for (code, out), fn in zip(outs, files):
        if code != 0:
            broken(f"a generated interval certificate does not check ({os.path.basename(fn)}): " + out[-400:])
    print(f"STAT points={len(pts)}")
    print(f"STAT certified_sharp={len(sharp)}")
    print(f"STAT y_rounding={len(rounding)}")
    print(f"STAT undecided_within_2^-100={len(undecided)}")
    print(f"STAT equator_by_lemma={by_lemma}")
    print(f"STAT kernel_checked_lemmas={len(lemmas)}")
    print(f"STAT outside_band={len(viol)}")
    print(f"STAT zooms={len(set(p['h'] for p in pts))}")
    print(f"STAT wall_s={time.time() - t0:.1f}")
    if not viol:
        return 0
    rd = os.path.join(BUILD, "replays") if os.environ.get("VERIF_DEV") == "1" else os.path.join(VERIF, "replays")
    os.makedirs(rd, exist_ok=True)
    for j, p in enumerate(viol[:3]):
        b = lambda x: "b1" if x else "b0"
        rp = os.path.join(rd, f"C01-latcert-{j}.json")
        json.dump({"property": "C01", "function": "LatRow", "kind": "property", "class": "-",
                   "args": f"( f{p['bits']:016x} i{p['h']} i{p['k']} {b(p['near_lo'])} {b(p['near_hi'])} )",
                   "observed": f"i{p['y']}", "model": "", "shrunk": False,
                   "note": f"interval certificate (kernel-checked, {WORK}): the real Mercator row of latitude {float(p['q'])!r} at zoom {p['h']} is {p['k']} "
                           f"(enclosure [{float(p['lo'])!r}, {float(p['hi'])!r}]); the code returned {p['y']}, outside the band of 2^({p['h']}-45) rows"},
                  open(rp, "w"), indent=1)
        print("REPLAY " + rp)
    print(f"BROKEN {len(viol)} of {len(pts)} sampled latitudes: the returned row is not the certified real-number row (first: lat {float(viol[0]['q'])!r} zoom {viol[0]['h']} returned {viol[0]['y']} certified {viol[0]['k']})")
    return 1


if __name__ == "__main__":
    sys.exit(main())
