// latsample — sample of (stored latitude, zoom, row returned by the code) for the interval certificates of property C01
// (meta step "latcert", harness/props/c01/latcert.py).  Built against the tree under analysis; prints one line per point:
//
//	<latitude bits, 16 hex digits> <y at zoom 0> <y at zoom 1> ... <y at zoom 35>      (y of shape.GetExtendedSpatialIdsOnPoints)
package main

import (
	"flag"
	"fmt"
	"math"
	"math/rand"
	"os"
	"strconv"
	"strings"

	"github.com/trajectoryjp/spatial_id_go/v4/common/object"
	"github.com/trajectoryjp/spatial_id_go/v4/shape"

	"verif/harness/gen"
)

func main() {
	seed := flag.Int64("seed", 1, "PRNG seed")
	n := flag.Int("n", 100, "number of points")
	flag.Parse()
	g := &gen.Gen{R: rand.New(rand.NewSource(*seed*7919 + 17)), Tier: "quick"}
	emit := func(lat float64) bool {
		p, _, ok := gen.StoredPoint(g.Lon(), lat, g.Alt())
		if !ok {
			return false
		}
		line := fmt.Sprintf("%016x", math.Float64bits(p.Lat()))
		for h := int64(0); h <= 35; h++ {
			ids, err := shape.GetExtendedSpatialIdsOnPoints([]*object.Point{p}, h, 0)
			if err != nil || len(ids) != 1 {
				fmt.Fprintln(os.Stderr, "latsample: unexpected error for", lat, h)
				os.Exit(2)
			}
			fs := strings.Split(ids[0], "/")
			if len(fs) != 5 {
				fmt.Fprintln(os.Stderr, "latsample: malformed id", ids[0])
				os.Exit(2)
			}
			y, err := strconv.ParseInt(fs[2], 10, 64)
			if err != nil {
				fmt.Fprintln(os.Stderr, "latsample: malformed id", ids[0])
				os.Exit(2)
			}
			line += fmt.Sprintf(" %d", y)
		}
		fmt.Println(line)
		return true
	}
	// forced: the limit latitudes, the equator's neighbours, and the edge values of the main generator (gen.Lat, c01.latFor)
	cnt := 0
	for _, lat := range []float64{gen.LatMax, -gen.LatMax, 85.0511287798 + 9e-11, 85.05112877979, -85.05112877979, 85.05112877, -85.05112877,
		0, math.Copysign(0, -1), 1e-10, -1e-10, 2e-10, 1e-11, -1e-11, 5e-324, 1e-20, 66.51326044311186, -66.51326044311186, 45, -45} {
		if cnt < *n && emit(lat) {
			cnt++
		}
	}
	for cnt < *n {
		lat := g.Lat()
		if g.Chance(0.4) {
			// the stored values nearest to a row boundary of some zoom (stored latitudes are multiples of 1e-10)
			h := g.Zoom()
			k := g.Int63n(int64(1)<<uint(h) + 1)
			lat = math.Atan(math.Sinh(math.Pi*(1-2*float64(k)/math.Pow(2, float64(h))))) * 180 / math.Pi
			lat = math.Round(lat*1e10)/1e10 + float64(g.Intn(3)-1)*1e-10
		}
		if math.Abs(lat) > gen.LatMax {
			lat = math.Copysign(gen.LatMax, lat)
		}
		if emit(lat) {
			cnt++
		}
	}
}
