// latsample — sample of (stored latitude, zoom, row returned by the code) for the interval certificates of property C01
// (meta step "latcert", harness/props/c01/latcert.py).  Built against the tree under analysis; prints one line per point:
//   <latitude bits, 16 hex digits> <hZoom> <y of shape.GetExtendedSpatialIdsOnPoints>
package main

import (
	"flag"
	"fmt"
	"math"
	"math/rand"
	"os"
	"strconv"
	"strings"

	"github.com/trajectoryjp/spatial_id_go/v4/common/object"
	"github.com/trajectoryjp/spatial_id_go/v4/shape"

	"verif/harness/gen"
)

func main() {
	seed := flag.Int64("seed", 1, "PRNG seed")
	n := flag.Int("n", 100, "number of points")
	flag.Parse()
	g := &gen.Gen{R: rand.New(rand.NewSource(*seed*7919 + 17)), Tier: "quick"}
	emit := func(lat float64, h int64) bool {
		p, _, ok := gen.StoredPoint(g.Lon(), lat, g.Alt())
		if !ok {
			return false
		}
		ids, err := shape.GetExtendedSpatialIdsOnPoints([]*object.Point{p}, h, 0)
		if err != nil || len(ids) != 1 {
			fmt.Fprintln(os.Stderr, "latsample: unexpected error for", lat, h)
			os.Exit(2)
		}
		fs := strings.Split(ids[0], "/")
		if len(fs) != 5 {
			fmt.Fprintln(os.Stderr, "latsample: malformed id", ids[0])
			os.Exit(2)
		}
		y, err := strconv.ParseInt(fs[2], 10, 64)
		if err != nil {
			fmt.Fprintln(os.Stderr, "latsample: malformed id", ids[0])
			os.Exit(2)
		}
		fmt.Printf("%016x %d %d\n", math.Float64bits(p.Lat()), h, y)
		return true
	}
	// forced: the two limit latitudes and the equator's neighbours at the extreme zooms
	cnt := 0
	for _, lat := range []float64{gen.LatMax, -gen.LatMax, 1e-10, -1e-10, 66.51326044311186, -66.51326044311186, 45, -45} {
		for _, h := range []int64{0, 1, 35} {
			if cnt < *n && emit(lat, h) {
				cnt++
			}
		}
	}
	for cnt < *n {
		lat := g.Lat()
		h := g.Zoom()
		if g.Chance(0.3) {
			// the stored value nearest to a row boundary of zoom h (stored latitudes are multiples of 1e-10)
			k := g.Int63n(int64(1)<<uint(h) + 1)
			lat = math.Atan(math.Sinh(math.Pi*(1-2*float64(k)/math.Pow(2, float64(h))))) * 180 / math.Pi
			lat = math.Round(lat*1e10)/1e10 + float64(g.Intn(3)-1)*1e-10
		}
		if math.Abs(lat) > gen.LatMax {
			lat = math.Copysign(gen.LatMax, lat)
		}
		if emit(lat, h) {
			cnt++
		}
	}
}
