package c01

import (
	"github.com/trajectoryjp/spatial_id_go/v4/common/object"
	"github.com/trajectoryjp/spatial_id_go/v4/shape"

	. "verif/harness/gen"
	"verif/harness/run"
	w "verif/harness/wire"
)

func fnPoints() *run.Fn {
	return &run.Fn{Name: "GetExtendedSpatialIdsOnPoints", Invoke: func(a []w.Val) w.Val {
		ids, err := shape.GetExtendedSpatialIdsOnPoints(PointsFromVal(a[0]), w.AsInt(a[1]), w.AsInt(a[2]))
		return w.WithErr(w.Strs(ids), err)
	}}
}
func fnPointsSid() *run.Fn {
	return &run.Fn{Name: "GetSpatialIdsOnPoints", Invoke: func(a []w.Val) w.Val {
		ids, err := shape.GetSpatialIdsOnPoints(PointsFromVal(a[0]), w.AsInt(a[1]))
		return w.WithErr(w.Strs(ids), err)
	}}
}
func fnNewPoint() *run.Fn {
	return &run.Fn{Name: "NewPoint", Invoke: func(a []w.Val) w.Val {
		p, err := object.NewPoint(w.AsFlt(a[0]), w.AsFlt(a[1]), w.AsFlt(a[2]))
		return w.WithErr(PointVal(p), err)
	}}
}

func storedPointVal(g *Gen) w.Val {
	for {
		_, v, ok := StoredPoint(g.Lon(), g.Lat(), g.Alt())
		if ok {
			return v
		}
	}
}

func init() {
	Scale["C01"] = 6000
	Registry["C01"] = func(r *run.Runner, g *Gen, n int) {
		MathOracles(r)
		r.Register(fnPoints(), fnPointsSid(), fnNewPoint())
		for i := 0; i < n; i++ {
			k := 1
			if g.Chance(0.3) {
				k = g.Intn(5)
			}
			pts := make(w.List, k)
			for j := range pts {
				pts[j] = storedPointVal(g)
			}
			h, v := g.Zoom(), g.Zoom()
			tags := []string{Tag("hzoom=%d", h), Tag("vzoom=%d", v), Tag("npoints=%d", k)}
			switch {
			case i%40 == 7: // recorded finding class: denormal altitudes
				_, pv, ok := StoredPoint(g.Lon(), g.Lat(), g.AltDenormal())
				if !ok {
					continue
				}
				r.Run(run.Case{Prop: "C01", Fn: "GetExtendedSpatialIdsOnPoints", Tags: append(tags, "denormal-alt"),
					Args: []w.Val{w.L(pv), w.I(h), w.I(v)}})
			case i%7 == 3:
				r.Run(run.Case{Prop: "C01", Fn: "GetSpatialIdsOnPoints", Tags: append(tags, "sid"), Trivial: k == 0,
					Args: []w.Val{pts, w.I(h), w.I(h)}})
			default:
				r.Run(run.Case{Prop: "C01", Fn: "GetExtendedSpatialIdsOnPoints", Tags: tags, Trivial: k == 0,
					Args: []w.Val{pts, w.I(h), w.I(v)}})
			}
		}
	}
}
