// Package c01: property C01 — a point is mapped to the one grid voxel that contains it.
// Invokers of shape.GetExtendedSpatialIdsOnPoints / GetSpatialIdsOnPoints / object.NewPoint and the latitude-row hook,
// and the seeded generator: domain edges, tile boundaries of the case's own zooms +- ulps, negative altitudes that are exact
// multiples of the cell height, lists of 0..5 points, nil points, zooms outside 0..35, related consecutive calls.
package c01

import (
	"math"
	"strconv"
	"strings"

	"github.com/trajectoryjp/spatial_id_go/v4/common/object"
	"github.com/trajectoryjp/spatial_id_go/v4/shape"

	. "verif/harness/gen"
	"verif/harness/run"
	w "verif/harness/wire"
)

// pointsOf rebuilds the []*object.Point of a case: nil entries stay nil pointers, identical stored triples share ONE pointer (the same
// object listed twice), and the empty list is a nil slice or an empty non-nil slice depending on the zoom's parity.
func pointsOf(v w.Val, h int64) []*object.Point {
	l := w.AsList(v)
	if len(l) == 0 {
		if h%2 == 0 {
			return nil
		}
		return []*object.Point{}
	}
	out := make([]*object.Point, 0, len(l))
	seen := map[[3]uint64]*object.Point{}
	for _, e := range l {
		if _, ok := e.(w.Nil); ok {
			out = append(out, nil)
			continue
		}
		t := w.AsList(e)
		lon, lat, alt := w.AsFlt(t[0]), w.AsFlt(t[1]), w.AsFlt(t[2])
		k := [3]uint64{math.Float64bits(lon), math.Float64bits(lat), math.Float64bits(alt)}
		if q, ok := seen[k]; ok {
			out = append(out, q)
			continue
		}
		q := RawPoint(lon, lat, alt)
		seen[k] = q
		out = append(out, q)
	}
	return out
}

func fnPoints() *run.Fn {
	return &run.Fn{Name: "GetExtendedSpatialIdsOnPoints", Invoke: func(a []w.Val) w.Val {
		ids, err := shape.GetExtendedSpatialIdsOnPoints(pointsOf(a[0], w.AsInt(a[1])), w.AsInt(a[1]), w.AsInt(a[2]))
		return w.WithErr(w.Strs(ids), err)
	}}
}
func fnPointsSid() *run.Fn {
	return &run.Fn{Name: "GetSpatialIdsOnPoints", Invoke: func(a []w.Val) w.Val {
		ids, err := shape.GetSpatialIdsOnPoints(pointsOf(a[0], w.AsInt(a[1])), w.AsInt(a[1]))
		return w.WithErr(w.Strs(ids), err)
	}}
}
func fnNewPoint() *run.Fn {
	return &run.Fn{Name: "NewPoint", Invoke: func(a []w.Val) w.Val {
		p, err := object.NewPoint(w.AsFlt(a[0]), w.AsFlt(a[1]), w.AsFlt(a[2]))
		return w.WithErr(PointVal(p), err)
	}}
}

// LatRow: the row that the code computes for a stored latitude at zoom h (replays of the interval certificates, meta step latcert).
// Arguments: lat, h, certified real row k, and two flags saying that the real row is within the band of the boundary below / above.
func fnLatRow() *run.Fn {
	return &run.Fn{Name: "LatRow", Invoke: func(a []w.Val) w.Val {
		id := shape.VerifGetHorizontalTileIdOnPoint(0, w.AsFlt(a[0]), w.AsInt(a[1]))
		fs := strings.Split(id, "/")
		if len(fs) != 3 {
			return w.Err{V: w.S(id)}
		}
		y, err := strconv.ParseInt(fs[2], 10, 64)
		if err != nil {
			return w.Err{V: w.S(id)}
		}
		return w.I(y)
	}}
}

// PointMoveSequence: the SAME *object.Point objects are converted, moved with SetLon/SetLat/SetAlt and converted again through the same
// pointers (a result cached per pointer would return the old tiles). Arguments: stored triples 1, requested triples 2 (same length),
// h, v, spatial-ID form?  Result: [ids of the first call, ids of the second call, the triples stored after the move (SetLat truncates: read back)].
func fnMove() *run.Fn {
	return &run.Fn{Name: "PointMoveSequence", Invoke: func(a []w.Val) w.Val {
		l1, l2 := w.AsList(a[0]), w.AsList(a[1])
		h, v, sid := w.AsInt(a[2]), w.AsInt(a[3]), w.AsBool(a[4])
		ps := make([]*object.Point, len(l1))
		for i, e := range l1 {
			t := w.AsList(e)
			ps[i] = RawPoint(w.AsFlt(t[0]), w.AsFlt(t[1]), w.AsFlt(t[2]))
		}
		conv := func() ([]string, error) {
			if sid {
				return shape.GetSpatialIdsOnPoints(ps, h)
			}
			return shape.GetExtendedSpatialIdsOnPoints(ps, h, v)
		}
		ids1, e1 := conv()
		errs := []error{e1}
		stored := make(w.List, len(ps))
		for i, p := range ps {
			t := w.AsList(l2[i])
			errs = append(errs, p.SetLon(w.AsFlt(t[0])), p.SetLat(w.AsFlt(t[1])))
			p.SetAlt(w.AsFlt(t[2]))
			stored[i] = PointVal(p)
		}
		ids2, e4 := conv()
		errs = append(errs, e4)
		res := w.L(w.Strs(ids1), w.Strs(ids2), stored)
		for _, e := range errs {
			if e != nil {
				return w.Err{V: res}
			}
		}
		return res
	}}
}

// PointSetterSequence: NewPoint, then SetLon / SetLat / SetAlt in the given order on the SAME object (kind 0 / 1 / 2), the error flag of every
// call, the triple read back with Lon() / Lat() / Alt(), and the IDs of that object.
func fnSetters() *run.Fn {
	return &run.Fn{Name: "PointSetterSequence", Invoke: func(a []w.Val) w.Val {
		t := w.AsList(a[0])
		p, err := object.NewPoint(w.AsFlt(t[0]), w.AsFlt(t[1]), w.AsFlt(t[2]))
		if err != nil {
			return w.Err{V: PointVal(p)}
		}
		ops := w.AsList(a[1])
		flags := make(w.List, len(ops))
		for i, o := range ops {
			kv := w.AsList(o)
			x := w.AsFlt(kv[1])
			var e error
			switch w.AsInt(kv[0]) {
			case 0:
				e = p.SetLon(x)
			case 1:
				e = p.SetLat(x)
			default:
				p.SetAlt(x)
			}
			flags[i] = w.B(e != nil)
		}
		stored := w.L(w.F(p.Lon()), w.F(p.Lat()), w.F(p.Alt()))
		ids, err := shape.GetExtendedSpatialIdsOnPoints([]*object.Point{p}, w.AsInt(a[2]), w.AsInt(a[3]))
		return w.L(flags, stored, w.WithErr(w.Strs(ids), err))
	}}
}

// VerticalTileIdOnAltitude: the unexported getVerticalTileIdOnAltitude through its verif hook ("vZoom/f").
func fnVTile() *run.Fn {
	return &run.Fn{Name: "VerticalTileIdOnAltitude", Invoke: func(a []w.Val) w.Val {
		return w.S(shape.VerifGetVerticalTileIdOnAltitude(w.AsFlt(a[0]), w.AsInt(a[1])))
	}}
}

// ---- generators aware of the case's zooms ----

// lonFor: a longitude aimed at the column boundaries of zoom h.
func lonFor(g *Gen, h int64) (float64, string) {
	switch g.Intn(10) {
	case 0: // domain edges, the fixed D11 input, the antimeridian neighbourhood
		return g.PickF(180, -180, math.Nextafter(180, 0), 179.99999999999997, 179.99999999999994, math.Nextafter(-180, 0), 0, math.Copysign(0, -1)), "lon-edge"
	case 1, 2: // a column boundary of this zoom, +- 0..2 ulps (k = 2^h is +180 itself)
		n := int64(1) << uint(h)
		k := g.Int63n(n + 1)
		switch g.Intn(4) {
		case 0:
			k = 0
		case 1:
			k = n
		case 2:
			k = n - 1
		}
		return Ulp(float64(k)*360/math.Pow(2, float64(h))-180, g.Intn(5)-2), "lon-boundary"
	case 3: // just below a boundary: inside the last nanometres of a column (finding class x_rounding lives here)
		n := int64(1) << uint(h)
		k := g.Int63n(n) + 1
		if g.Chance(0.4) { // just above the boundary, inside the band as well
			return float64(k-1)*360/math.Pow(2, float64(h)) - 180 + g.R.Float64()*1e-13, "lon-near-boundary"
		}
		return float64(k)*360/math.Pow(2, float64(h)) - 180 - g.R.Float64()*1e-13, "lon-near-boundary"
	}
	return g.Lon(), "lon-any"
}

// altFor: an altitude aimed at the layer boundaries of zoom v; negative exact multiples of the cell height are forced.
func altFor(g *Gen, v int64) (float64, string) {
	cell := math.Pow(2, 25-float64(v))
	switch g.Intn(10) {
	case 0:
		return g.PickF(0, math.Copysign(0, -1), 33554432, -33554432, math.Nextafter(33554432, 0), math.Nextafter(-33554432, 0), -1, 1, -0.5, 0.5), "alt-edge"
	case 1, 2: // negative exact multiple of the cell height: -k * 2^(25-v), k = 1, 2, ..., 2^v
		n := int64(1) << uint(v)
		k := g.Int63n(n) + 1
		switch g.Intn(4) {
		case 0:
			k = 1
		case 1:
			k = n
		case 2:
			k = 2
		}
		return -float64(k) * cell, "alt-neg-multiple"
	case 3: // any layer boundary +- 0..2 ulps, both signs
		k := g.VIndex(v)
		return Ulp(float64(k)*cell, g.Intn(5)-2), "alt-boundary"
	case 5:
		if g.Chance(0.15) { // above the documented 2^25 m, inside the domain of the theorems and of the model (2^40)
			return math.Copysign(33554432*math.Pow(2, g.R.Float64()*15), g.R.Float64()-0.5), "alt-above-documented"
		}
		return g.Alt(), "alt-any"
	case 4: // below ground, not on a boundary
		return -g.R.Float64() * math.Min(33554432, cell*float64(1+g.Intn(5))), "alt-below-ground"
	}
	return g.Alt(), "alt-any"
}

func latFor(g *Gen) (float64, string) {
	if g.Chance(0.15) {
		return g.PickF(LatMax, -LatMax, 0, math.Copysign(0, -1), 85.05112877979, -85.05112877979, 85.0511287798+9e-11), "lat-edge"
	}
	return g.Lat(), "lat-any"
}

// pointFor: one stored point (built through NewPoint, so the latitude is a truncated one) as a wire value, with its tags.
func pointFor(g *Gen, h, v int64) (w.Val, []string) {
	for {
		lon, t1 := lonFor(g, h)
		lat, t2 := latFor(g)
		alt, t3 := altFor(g, v)
		_, pv, ok := StoredPoint(lon, lat, alt)
		if ok {
			return pv, []string{t1, t2, t3}
		}
	}
}

func pointsFor(g *Gen, h, v int64) (w.List, []string) {
	k := 1
	ltag := "npoints=1"
	switch u := g.Intn(1000); {
	case u < 300:
		k = g.Intn(6)
		ltag = Tag("npoints=%d", k)
	case u < 340:
		k = 6 + g.Intn(45)
		ltag = "npoints=6..50"
	case u < 343:
		k = 51 + g.Intn(950)
		ltag = "npoints=51..1000"
	}
	pts := make(w.List, k)
	var tags []string
	for j := range pts {
		var t []string
		if j > 0 && g.Chance(0.15) { // the same stored point again (listed twice: one pointer)
			pts[j] = pts[g.Intn(j)]
			continue
		}
		pts[j], t = pointFor(g, h, v)
		if j == 0 {
			tags = t
		}
	}
	return pts, append(tags, ltag)
}

func zoomTags(h, v int64) []string { return []string{Tag("hzoom=%d", h), Tag("vzoom=%d", v)} }

func init() {
	Scale["C01"] = 10000
	Registry["C01"] = func(r *run.Runner, g *Gen, n int) {
		MathOracles(r)
		r.Register(fnPoints(), fnPointsSid(), fnNewPoint(), fnLatRow(), fnMove(), fnSetters(), fnVTile())
		ext := func(pts w.Val, h, v int64, triv bool, tags ...string) {
			r.Run(run.Case{Prop: "C01", Fn: "GetExtendedSpatialIdsOnPoints", Tags: append(zoomTags(h, v), tags...), Trivial: triv,
				Args: []w.Val{pts, w.I(h), w.I(v)}})
		}
		sid := func(pts w.Val, z int64, triv bool, tags ...string) {
			r.Run(run.Case{Prop: "C01", Fn: "GetSpatialIdsOnPoints", Tags: append(zoomTags(z, z), append(tags, "sid")...), Trivial: triv,
				Args: []w.Val{pts, w.I(z), w.I(z)}})
		}
		for i := 0; i < n; {
			h, v := g.Zoom(), g.Zoom()
			kind := g.Intn(1000)
			switch {
			case kind < 25: // recorded finding class: denormal altitudes (kept out of the main stream)
				lon, _ := lonFor(g, h)
				alt := g.AltDenormal()
				if g.Chance(0.5) && v <= 35 { // the class boundary 2^(-997-v) itself, +- 0..2 ulps, both signs
					alt = math.Copysign(Ulp(math.Ldexp(1, int(-997-v)), g.Intn(5)-2), g.R.Float64()-0.5)
				}
				_, pv, ok := StoredPoint(lon, g.Lat(), alt)
				if !ok {
					continue
				}
				ext(w.L(pv), h, v, false, "denormal-alt")
				i++
			case kind < 65: // malformed: zoom outside 0..35 or a nil point in the list => error
				pts, tags := pointsFor(g, h, v)
				switch g.Intn(4) {
				case 0:
					bad := g.Pick(-1, 36, 37, 100, -36, math.MinInt64, math.MaxInt64)
					if g.Chance(0.5) {
						ext(pts, bad, v, false, append(tags, "bad-hzoom")...)
					} else {
						ext(pts, h, bad, false, append(tags, "bad-vzoom")...)
					}
				case 1:
					sid(pts, g.Pick(-1, 36, 64, -35), false, append(tags, "bad-zoom")...)
				case 2: // both zooms bad; a nil point AND a bad zoom; nothing but nil points
					bad := g.Pick(-1, 36, 37, 100)
					switch g.Intn(3) {
					case 0:
						ext(pts, bad, g.Pick(-1, 36, 64), false, append(tags, "bad-both-zooms")...)
					case 1:
						ext(append(append(w.List{}, pts...), w.Nil{}), bad, v, false, append(tags, "nil-point", "bad-hzoom")...)
					default:
						ext(w.List{w.Nil{}, w.Nil{}}, h, v, false, "nil-point", "all-nil")
					}
				default:
					at := g.Intn(len(pts) + 1)
					withNil := append(append(append(w.List{}, pts[:at]...), w.Nil{}), pts[at:]...)
					if g.Chance(0.3) && len(withNil) > 1 { // more than one nil
						withNil = append(withNil, w.Nil{})
					}
					if g.Chance(0.3) {
						sid(withNil, h, false, append(tags, "nil-point")...)
					} else {
						ext(withNil, h, v, false, append(tags, "nil-point")...)
					}
				}
				i++
			case kind < 115: // NewPoint itself: truncation of the latitude, refusal outside the limits
				lon, lat, alt := g.Lon(), g.Lat(), g.Alt()
				tag := "newpoint"
				switch g.Intn(8) {
				case 0:
					lat = g.PickF(12.9086804579, -62.502467986899994, 85.05112877989, -85.05112877989, 85.0511287799, -85.0511287799, 90, -90)
					tag = "newpoint-lat-edge"
				case 1:
					lon = g.PickF(180.00000000000003, -180.00000000000003, 181, -360, 180, -180)
					tag = "newpoint-lon-edge"
				case 2:
					lat = math.Round(lat*1e10) / 1e10 // a ten-decimal latitude, as users type them
					tag = "newpoint-lat-10dec"
				}
				r.Run(run.Case{Prop: "C01", Fn: "NewPoint", Tags: []string{tag}, Args: []w.Val{w.F(lon), w.F(lat), w.F(alt)}})
				i++
			case kind < 130 && i+7 <= n: // related consecutive calls (7 cases each, about 10 % of all cases): the same points at other zooms, the identical call twice, both notations
				pts, tags := pointsFor(g, h, v)
				tags = append(tags, "sequence")
				triv := len(pts) == 0
				ext(pts, h, v, triv, tags...)
				ext(pts, h, v, triv, tags...) // identical call again
				h2, v2 := g.Zoom(), g.Zoom()
				ext(pts, h2, v, triv, tags...)  // only the horizontal zoom changed
				ext(pts, h2, v2, triv, tags...) // then only the vertical zoom
				sid(pts, h, triv, tags...)
				sid(pts, v2, triv, tags...)
				ext(pts, h, v, triv, tags...) // and back to the first call
				i += 7
			case kind < 165: // the same *object.Point converted, moved, converted again (both notations)
				if h > 35 || v > 35 {
					continue
				}
				nmove := 1 + g.Intn(3)
				var l1, l2 w.List
				var tags []string
				for j := 0; j < nmove; j++ {
					p1, t := pointFor(g, h, v)
					if j == 0 {
						tags = t
					}
					var lon2, lat2, alt2 float64
					for {
						switch g.Intn(4) {
						case 0: // moved only vertically / only horizontally
							tt := w.AsList(p1)
							lon2, lat2, alt2 = w.AsFlt(tt[0]), w.AsFlt(tt[1]), g.Alt()
						case 1:
							tt := w.AsList(p1)
							lon2, lat2, alt2 = g.Lon(), g.Lat(), w.AsFlt(tt[2])
						default:
							lon2, _ = lonFor(g, h)
							lat2, _ = latFor(g)
							alt2, _ = altFor(g, v)
						}
						if _, _, ok := StoredPoint(lon2, lat2, alt2); ok {
							break
						}
					}
					l1 = append(l1, p1)
					l2 = append(l2, w.L(w.F(lon2), w.F(lat2), w.F(alt2)))
				}
				sidForm := g.Chance(0.3)
				if sidForm {
					v = h
				}
				r.Run(run.Case{Prop: "C01", Fn: "PointMoveSequence", Tags: append(append(zoomTags(h, v), tags...), "move-sequence", Tag("nmove=%d", nmove)),
					Args: []w.Val{l1, l2, w.I(h), w.I(v), w.B(sidForm)}})
				i++
			case kind < 200: // setter sequences on one object, in random order, some refused; then the object is converted
				if h > 35 || v > 35 {
					continue
				}
				var lon0, lat0, alt0 float64
				for {
					lon0, _ = lonFor(g, h)
					lat0, _ = latFor(g)
					alt0, _ = altFor(g, v)
					if _, _, ok := StoredPoint(lon0, lat0, alt0); ok {
						break
					}
				}
				nops := 1 + g.Intn(6)
				ops := make(w.List, nops)
				for j := range ops {
					k := g.Intn(3)
					var x float64
					switch k {
					case 0:
						x, _ = lonFor(g, h)
						if g.Chance(0.15) {
							x = g.PickF(181, -181, 180.00000000000003, -180.00000000000003, 360, -540)
						}
					case 1:
						x, _ = latFor(g)
						if g.Chance(0.2) {
							x = g.PickF(12.9086804579, -62.502467986899994, 85.05112877989, -85.05112877989, 85.0511287799, -85.0511287799, 90, -90, 85.06)
						}
					default:
						x, _ = altFor(g, v)
					}
					ops[j] = w.L(w.I(int64(k)), w.F(x))
				}
				r.Run(run.Case{Prop: "C01", Fn: "PointSetterSequence", Tags: append(zoomTags(h, v), "setter-sequence", Tag("nops=%d", nops)),
					Args: []w.Val{w.L(w.F(lon0), w.F(lat0), w.F(alt0)), ops, w.I(h), w.I(v)}})
				i++
			case kind < 260: // the vertical hook alone: every zoom, altitudes of both signs, sub-metre, boundaries, +-2^25, and the denormal class region
				if v < 0 || v > 35 {
					continue
				}
				alt, tag := altFor(g, v)
				switch g.Intn(10) {
				case 0:
					alt, tag = g.AltDenormal(), "denormal-alt"
				case 1:
					alt, tag = math.Copysign(Ulp(math.Ldexp(1, int(-997-v)), g.Intn(5)-2), g.R.Float64()-0.5), "denormal-alt"
				case 2:
					alt, tag = (g.R.Float64()-0.5)*2, "alt-sub-metre"
				case 3:
					alt, tag = Ulp(g.PickF(33554432, -33554432), g.Intn(5)-2), "alt-edge"
				}
				r.Run(run.Case{Prop: "C01", Fn: "VerticalTileIdOnAltitude", Tags: []string{Tag("vzoom=%d", v), tag, "vertical-hook"},
					Args: []w.Val{w.F(alt), w.I(v)}})
				i++
			case kind < 340:
				pts, tags := pointsFor(g, h, h)
				sid(pts, h, len(pts) == 0, tags...)
				i++
			default:
				pts, tags := pointsFor(g, h, v)
				ext(pts, h, v, len(pts) == 0, tags...)
				i++
			}
		}
	}
}
