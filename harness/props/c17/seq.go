package c17

// Histories. A "Sequence" case is a list of steps [function name; arguments; scribble?] that one invocation executes back to back, after a
// fixed priming call of every anchored function (so that a replay in a fresh process starts from the same library state). The caller
//   - passes its ID lists through ONE reused backing array and its reverse-conversion elements through reused objects (so a library
//     that keeps the caller's slice / pointer instead of a copy sees it change),
//   - after a step marked `scribble` overwrites its own argument slice / objects and the slices and objects it got back,
//   - keeps every other result and, at the end, reads it again: `stable` says that no kept result changed under the later calls.
// The model is pure: the dispatcher judges every step exactly like a standalone call (DC17.seq_judge_independent) and demands stable.

import (
	"github.com/trajectoryjp/spatial_id_go/v4/common/object"
	"github.com/trajectoryjp/spatial_id_go/v4/transform"

	"verif/harness/run"
	w "verif/harness/wire"
)

type kept struct {
	snap string
	read func() w.Val
}

type seqState struct {
	idbuf []string                       // the caller's one and only ID array
	objs  []*object.QuadkeyAndVerticalID // the caller's reused element objects
	inbuf []*object.QuadkeyAndVerticalID // ... and the array holding them
	kept  []kept
}

func newSeqState() *seqState {
	return &seqState{idbuf: make([]string, 0, 16), inbuf: make([]*object.QuadkeyAndVerticalID, 0, 16)}
}

func (st *seqState) ids(l []string) []string {
	if len(l) > cap(st.idbuf) {
		return append([]string{}, l...)
	}
	b := st.idbuf[:len(l)]
	copy(b, l)
	return b
}

func (st *seqState) elements(l []w.Val) []*object.QuadkeyAndVerticalID {
	in := st.inbuf[:0]
	for j, e := range l {
		f := w.AsList(e)
		qz, qk, vz, k, mx, mn := w.AsInt(f[0]), w.AsInt(f[1]), w.AsInt(f[2]), w.AsInt(f[3]), w.AsFlt(f[4]), w.AsFlt(f[5])
		if j < len(st.objs) { // the caller re-uses its own object: set every field again
			o := st.objs[j]
			o.SetQuadkeyZoom(qz)
			o.SetQuadkey(qk)
			o.SetVZoom(vz)
			o.SetVIndex(k)
			o.SetMaxHeight(mx)
			o.SetMinHeight(mn)
		} else {
			st.objs = append(st.objs, object.NewQuadkeyAndVerticalID(qz, qk, vz, k, mx, mn))
		}
		in = append(in, st.objs[j])
	}
	return in
}

func scribbleElements(in []*object.QuadkeyAndVerticalID) {
	for _, o := range in {
		o.SetQuadkeyZoom(3)
		o.SetQuadkey(7)
		o.SetVZoom(2)
		o.SetVIndex(-3)
		o.SetMaxHeight(-5)
		o.SetMinHeight(-9)
	}
}

func scribbleGroups(gs []*object.FromExtendedSpatialIDToQuadkeyAndVerticalID) {
	for i, g := range gs {
		if g == nil {
			continue
		}
		l := g.InnerIDList()
		for j := range l {
			l[j] = [2]int64{-7, -7}
		}
		g.SetMaxHeight(-1)
		g.SetMinHeight(-2)
		g.SetVerticalZoom(99)
		gs[i] = nil
	}
}

// tooLargeElements: the refusal guard of the reverse invokers
func tooLargeElements(l []w.Val, outH, outV int64) bool {
	for _, e := range l {
		f := w.AsList(e)
		qz, vz, k, mx, mn := w.AsInt(f[0]), w.AsInt(f[2]), w.AsInt(f[3]), w.AsFlt(f[4]), w.AsFlt(f[5])
		if qz >= 1 && qz <= 31 && vz >= 0 && vz <= 35 && outH >= 0 && outH <= 35 && outV >= 0 && outV <= 35 {
			if outH-qz > 3 || (mx == mn && outV-vz > 10) || (mx > mn && revRunTooLong(vz, k, outV, mx, mn)) {
				return true
			}
		}
	}
	return false
}

// step executes one call; ok=false: the call was refused by the size guard (the whole case is then refused).
func (st *seqState) step(fn string, a []w.Val, scribble bool) (obs w.Val, ok bool) {
	keep := func(read func() w.Val) {
		if !scribble {
			st.kept = append(st.kept, kept{w.Show(read()), read})
		}
	}
	switch fn {
	case "calcBitIndex":
		if w.AsInt(a[1]) > 62 {
			return nil, false
		}
		return w.I(transform.VerifCalcBitIndex(w.AsFlt(a[0]), w.AsInt(a[1]), w.AsFlt(a[2]), w.AsFlt(a[3]))), true
	case "convertVerticallIDToBit":
		v, f, oz, mx, mn := w.AsInt(a[0]), w.AsInt(a[1]), w.AsInt(a[2]), w.AsFlt(a[3]), w.AsFlt(a[4])
		if fwdRunTooLong(v, oz, mx, mn) {
			return nil, false
		}
		if lo, hi, big := implRun(v, f, oz, mx, mn); big {
			return w.Ints([]int64{hi, lo}), true
		}
		r := transform.VerifConvertVerticallIDToBit(v, f, oz, mx, mn)
		obs = w.Ints(r)
		keep(func() w.Val { return w.Ints(r) })
		if scribble {
			for i := range r {
				r[i] = -77
			}
		}
		return obs, true
	case "convertBitToVerticalID":
		vz, k, oz, mx, mn := w.AsInt(a[0]), w.AsInt(a[1]), w.AsInt(a[2]), w.AsFlt(a[3]), w.AsFlt(a[4])
		if revRunTooLong(vz, k, oz, mx, mn) {
			return nil, false
		}
		r := transform.VerifConvertBitToVerticalID(vz, k, oz, mx, mn)
		obs = w.Strs(r)
		keep(func() w.Val { return w.Strs(r) })
		if scribble {
			for i := range r {
				r[i] = "scribbled"
			}
		}
		return obs, true
	case "ConvertExtendedSpatialIDsToQuadkeysAndVerticalIDs", "ConvertSpatialIDsToQuadkeysAndVerticalIDs":
		sid := fn == "ConvertSpatialIDsToQuadkeysAndVerticalIDs"
		outH, outV, mx, mn := w.AsInt(a[1]), w.AsInt(a[2]), w.AsFlt(a[3]), w.AsFlt(a[4])
		if idsTooLarge(w.AsStrs(a[0]), sid, outH, outV, mx, mn) {
			return nil, false
		}
		ids := st.ids(w.AsStrs(a[0]))
		var gs []*object.FromExtendedSpatialIDToQuadkeyAndVerticalID
		var err error
		if sid {
			gs, err = transform.ConvertSpatialIDsToQuadkeysAndVerticalIDs(ids, outH, outV, mx, mn)
		} else {
			gs, err = transform.ConvertExtendedSpatialIDsToQuadkeysAndVerticalIDs(ids, outH, outV, mx, mn)
		}
		obs = w.WithErr(groupsVal(gs), err)
		keep(func() w.Val { return groupsVal(gs) })
		if scribble {
			for i := range ids {
				ids[i] = "7/1/1/7/" + "1"
			}
			scribbleGroups(gs)
		}
		return obs, true
	case "ConvertQuadkeysAndVerticalIDsToExtendedSpatialIDs", "ConvertQuadkeysAndVerticalIDsToSpatialIDs":
		sid := fn == "ConvertQuadkeysAndVerticalIDsToSpatialIDs"
		outH := w.AsInt(a[1])
		outV := outH
		if !sid {
			outV = w.AsInt(a[2])
		}
		if tooLargeElements(w.AsList(a[0]), outH, outV) {
			return nil, false
		}
		in := st.elements(w.AsList(a[0]))
		var r []string
		var err error
		if sid {
			r, err = transform.ConvertQuadkeysAndVerticalIDsToSpatialIDs(in, outH)
		} else {
			r, err = transform.ConvertQuadkeysAndVerticalIDsToExtendedSpatialIDs(in, outH, outV)
		}
		obs = w.WithErr(w.Strs(r), err)
		keep(func() w.Val { return w.Strs(r) })
		if scribble {
			scribbleElements(in)
			for i := range r {
				r[i] = "scribbled"
			}
		}
		return obs, true
	}
	panic("harness: unknown function in a sequence: " + fn)
}

// prime: one fixed, unrelated call of every anchored function, so that whatever the library remembers is the same at the start of every case
func prime() {
	transform.VerifCalcBitIndex(3, 3, 10, 0)
	transform.VerifConvertVerticallIDToBit(22, 3, 2, 100, 0)
	transform.VerifConvertBitToVerticalID(2, 1, 20, 100, 0)
	transform.ConvertExtendedSpatialIDsToQuadkeysAndVerticalIDs([]string{"3/1/1/22/3"}, 3, 2, 100, 0)
	transform.ConvertSpatialIDsToQuadkeysAndVerticalIDs([]string{"3/1/1/1"}, 3, 2, 100, 0)
	q := []*object.QuadkeyAndVerticalID{object.NewQuadkeyAndVerticalID(3, 5, 2, 1, 100, 0)}
	transform.ConvertQuadkeysAndVerticalIDsToExtendedSpatialIDs(q, 3, 20)
	transform.ConvertQuadkeysAndVerticalIDsToSpatialIDs(q, 3)
}

func fnSequence() *run.Fn {
	return &run.Fn{Name: "Sequence", Invoke: func(a []w.Val) w.Val {
		prime()
		st := newSeqState()
		res := w.List{}
		for _, s := range w.AsList(a[0]) {
			fn, args, scribble, shaped := stepShape(s)
			if !shaped { // a shrinker candidate that is no longer a step: not a case
				return refused
			}
			obs, ok := st.step(fn, args, scribble)
			if !ok {
				return refused
			}
			res = append(res, obs)
		}
		stable := true
		for _, k := range st.kept {
			if w.Show(k.read()) != k.snap {
				stable = false
			}
		}
		return w.L(res, w.B(stable))
	}}
}

// stepShape: [function; arguments; scribble?] with the arity and value kinds the function takes
func stepShape(s w.Val) (string, []w.Val, bool, bool) {
	f, ok := s.(w.List)
	if !ok || len(f) != 3 {
		return "", nil, false, false
	}
	fn, ok1 := f[0].(w.Str)
	args, ok2 := f[1].(w.List)
	sc, ok3 := f[2].(w.Bool)
	if !ok1 || !ok2 || !ok3 {
		return "", nil, false, false
	}
	kinds := map[string]string{"calcBitIndex": "fiff", "convertVerticallIDToBit": "iiiff", "convertBitToVerticalID": "iiiff",
		"ConvertExtendedSpatialIDsToQuadkeysAndVerticalIDs": "Siiff", "ConvertSpatialIDsToQuadkeysAndVerticalIDs": "Siiff",
		"ConvertQuadkeysAndVerticalIDsToExtendedSpatialIDs": "Eii", "ConvertQuadkeysAndVerticalIDsToSpatialIDs": "Ei"}[string(fn)]
	if kinds == "" || len(kinds) != len(args) {
		return "", nil, false, false
	}
	for i, k := range kinds {
		switch k {
		case 'f':
			_, ok = args[i].(w.Flt)
		case 'i':
			var n w.Int
			n, ok = args[i].(w.Int)
			ok = ok && n.V.IsInt64()
		case 'S':
			var l w.List
			if l, ok = args[i].(w.List); ok {
				for _, e := range l {
					if _, isS := e.(w.Str); !isS {
						ok = false
					}
				}
			}
		case 'E':
			var l w.List
			if l, ok = args[i].(w.List); ok {
				for _, e := range l {
					el, isL := e.(w.List)
					if !isL || len(el) != 6 {
						ok = false
						continue
					}
					for j, x := range el {
						if j < 4 {
							n, isI := x.(w.Int)
							ok = ok && isI && n.V.IsInt64()
						} else if _, isF := x.(w.Flt); !isF {
							ok = false
						}
					}
				}
			}
		}
		if !ok {
			return "", nil, false, false
		}
	}
	return string(fn), []w.Val(args), bool(sc), true
}

// seqBuilder collects the steps of one history
type seqBuilder struct{ steps w.List }

func (b *seqBuilder) add(g interface{ Chance(float64) bool }, fn string, args ...w.Val) {
	b.steps = append(b.steps, w.L(w.S(fn), w.List(args), w.B(g.Chance(0.3))))
}
