// Package c17: binary-subdivision altitude IDs (height-range mode of the quadkey / vertical-ID conversions).
package c17

import (
	"math"
	"os"
	"strconv"
	"strings"

	"github.com/trajectoryjp/spatial_id_go/v4/common/object"
	"github.com/trajectoryjp/spatial_id_go/v4/integrate"
	"github.com/trajectoryjp/spatial_id_go/v4/transform"

	. "verif/harness/gen"
	"verif/harness/run"
	w "verif/harness/wire"
)

// ---------------------------------------------------------------- invokers

// The conversions allocate one slice element per emitted index, so an input outside the generators' bounds (the shrinker lowers zooms and
// indices blindly) could ask for 2^35 elements. Such inputs are refused before the call; the dispatcher answers bad-case for the refusal
// value, which the shrinker treats as "not a failing candidate". The estimates use only the arguments, never the code under test.
const maxRun = 20000

var refused = w.S("refused: the expected output is longer than the harness allows")

func fwdRunTooLong(v, oz int64, mx, mn float64) bool {
	if oz < 0 || oz > 35 || v < -10 || v > 60 {
		return oz > 35
	}
	if !(mx > mn) { // reversed / equal / NaN: no estimate, keep the whole index space small
		return oz > 14
	}
	n := p2(25-v) / ((mx - mn) / p2(oz))
	return math.Min(n, p2(oz)) > maxRun
}
func revRunTooLong(vz, k, oz int64, mx, mn float64) bool {
	if oz < 0 || oz > 35 {
		return false // rejected by the zoom check of the point conversion (the helper then panics: reported)
	}
	if vz < -40 || vz > 80 {
		return true
	}
	h := (mx - mn) / p2(vz)
	if math.IsNaN(h) || math.IsInf(h, 0) {
		return true
	}
	if math.Abs(h)/p2(25-oz) > maxRun {
		return true
	}
	a := (math.Abs(float64(k))+1)*math.Abs(h) + math.Abs(mn)
	return !(a*p2(oz-25) < p2(62)) // int64(math.Floor(x)) is undefined beyond 64 bits
}

// implRun: the two ends the implementation's own calcBitIndex gives for the voxel. When they are absurdly far apart (a changed
// implementation), the list is not materialised (it would exhaust memory); the two ends alone are reported as the observed output,
// which the checker rejects.
func implRun(v, f, oz int64, mx, mn float64) (int64, int64, bool) {
	if v < 0 || v > 62 || oz > 62 {
		return 0, 0, false
	}
	hiAlt := float64(f+1) * p2(25) / p2(v)
	loAlt := float64(f) * p2(25) / p2(v)
	hi := transform.VerifCalcBitIndex(hiAlt, oz, mx, mn)
	lo := transform.VerifCalcBitIndex(loAlt, oz, mx, mn)
	return lo, hi, float64(hi)-float64(lo) > 10*maxRun // (in floating point: the difference of two wild int64 values must not wrap)
}

func fnCalc() *run.Fn {
	return &run.Fn{Name: "calcBitIndex", Invoke: func(a []w.Val) w.Val {
		if w.AsInt(a[1]) > 62 {
			return refused
		}
		return w.I(transform.VerifCalcBitIndex(w.AsFlt(a[0]), w.AsInt(a[1]), w.AsFlt(a[2]), w.AsFlt(a[3])))
	}}
}
func fnVidToBit() *run.Fn {
	return &run.Fn{Name: "convertVerticallIDToBit", Invoke: func(a []w.Val) w.Val {
		if fwdRunTooLong(w.AsInt(a[0]), w.AsInt(a[2]), w.AsFlt(a[3]), w.AsFlt(a[4])) {
			return refused
		}
		if lo, hi, big := implRun(w.AsInt(a[0]), w.AsInt(a[1]), w.AsInt(a[2]), w.AsFlt(a[3]), w.AsFlt(a[4])); big {
			return w.Ints([]int64{hi, lo}) // reported as it is: not the run the property demands
		}
		return w.Ints(transform.VerifConvertVerticallIDToBit(w.AsInt(a[0]), w.AsInt(a[1]), w.AsInt(a[2]), w.AsFlt(a[3]), w.AsFlt(a[4])))
	}}
}
func fnBitToVid() *run.Fn {
	return &run.Fn{Name: "convertBitToVerticalID", Invoke: func(a []w.Val) w.Val {
		if revRunTooLong(w.AsInt(a[0]), w.AsInt(a[1]), w.AsInt(a[2]), w.AsFlt(a[3]), w.AsFlt(a[4])) {
			return refused
		}
		return w.Strs(transform.VerifConvertBitToVerticalID(w.AsInt(a[0]), w.AsInt(a[1]), w.AsInt(a[2]), w.AsFlt(a[3]), w.AsFlt(a[4])))
	}}
}

func groupsVal(gs []*object.FromExtendedSpatialIDToQuadkeyAndVerticalID) w.Val {
	out := make(w.List, 0, len(gs))
	for _, g := range gs {
		if g == nil { // only possible when the library hands back a slice the caller has scribbled over
			out = append(out, w.Nil{})
			continue
		}
		ps := make(w.List, 0, len(g.InnerIDList()))
		for _, p := range g.InnerIDList() {
			ps = append(ps, w.L(w.I(p[0]), w.I(p[1])))
		}
		out = append(out, w.L(w.I(g.QuadkeyZoom()), w.I(g.VerticalZoom()), w.F(g.MaxHeight()), w.F(g.MinHeight()), ps))
	}
	return out
}

// idsTooLarge: some well-formed ID of the list would expand into too many (quadkey, index) pairs
func idsTooLarge(ids []string, sid bool, outH, outV int64, mx, mn float64) bool {
	if outH < 1 || outH > 31 || outV < 0 || outV > 35 {
		return false // rejected by the zoom check before anything is computed
	}
	for _, id := range ids {
		fs := strings.Split(id, "/")
		var n []int64
		ok := true
		for _, f := range fs {
			x, err := strconv.ParseInt(f, 10, 64)
			if err != nil {
				ok = false
				break
			}
			n = append(n, x)
		}
		if !ok {
			continue
		}
		var h, v int64
		if sid && len(n) == 4 {
			h, v = n[0], n[0]
		} else if !sid && len(n) == 5 {
			h, v = n[0], n[3]
		} else {
			continue
		}
		if h < 0 || h > 35 || v < 0 || v > 35 {
			continue // rejected by the zoom check
		}
		if outH-h > 3 {
			return true
		}
		if mx == mn {
			if outV-v > 10 {
				return true
			}
		} else if mx > mn && fwdRunTooLong(v, outV, mx, mn) { // (reversed heights: an error, nothing is expanded vertically)
			return true
		}
		if fi := len(n) - 1; mx > mn && outV >= 0 && outV <= 35 {
			f := n[fi]
			if sid {
				f = n[1]
			}
			if _, _, big := implRun(v, f, outV, mx, mn); big {
				return true
			}
		}
	}
	return false
}
func fnExtToQV() *run.Fn {
	return &run.Fn{Name: "ConvertExtendedSpatialIDsToQuadkeysAndVerticalIDs", Invoke: func(a []w.Val) w.Val {
		if idsTooLarge(w.AsStrs(a[0]), false, w.AsInt(a[1]), w.AsInt(a[2]), w.AsFlt(a[3]), w.AsFlt(a[4])) {
			return refused
		}
		gs, err := transform.ConvertExtendedSpatialIDsToQuadkeysAndVerticalIDs(w.AsStrs(a[0]), w.AsInt(a[1]), w.AsInt(a[2]), w.AsFlt(a[3]), w.AsFlt(a[4]))
		return w.WithErr(groupsVal(gs), err)
	}}
}
func fnSidToQV() *run.Fn {
	return &run.Fn{Name: "ConvertSpatialIDsToQuadkeysAndVerticalIDs", Invoke: func(a []w.Val) w.Val {
		if idsTooLarge(w.AsStrs(a[0]), true, w.AsInt(a[1]), w.AsInt(a[2]), w.AsFlt(a[3]), w.AsFlt(a[4])) {
			return refused
		}
		gs, err := transform.ConvertSpatialIDsToQuadkeysAndVerticalIDs(w.AsStrs(a[0]), w.AsInt(a[1]), w.AsInt(a[2]), w.AsFlt(a[3]), w.AsFlt(a[4]))
		return w.WithErr(groupsVal(gs), err)
	}}
}
func fnQVToExt() *run.Fn {
	return &run.Fn{Name: "ConvertQuadkeysAndVerticalIDsToExtendedSpatialIDs", Invoke: func(a []w.Val) w.Val {
		var in []*object.QuadkeyAndVerticalID
		outH, outV := w.AsInt(a[1]), w.AsInt(a[2])
		for _, e := range w.AsList(a[0]) {
			l := w.AsList(e)
			qz, vz, k, mx, mn := w.AsInt(l[0]), w.AsInt(l[2]), w.AsInt(l[3]), w.AsFlt(l[4]), w.AsFlt(l[5])
			if qz >= 1 && qz <= 31 && vz >= 0 && vz <= 35 && outH >= 0 && outH <= 35 && outV >= 0 && outV <= 35 {
				if outH-qz > 3 || (mx == mn && outV-vz > 10) || (mx > mn && revRunTooLong(vz, k, outV, mx, mn)) {
					return refused
				}
			}
			in = append(in, object.NewQuadkeyAndVerticalID(qz, w.AsInt(l[1]), vz, k, mx, mn))
		}
		ids, err := transform.ConvertQuadkeysAndVerticalIDsToExtendedSpatialIDs(in, outH, outV)
		return w.WithErr(w.Strs(ids), err)
	}}
}

func fnQVToSid() *run.Fn {
	return &run.Fn{Name: "ConvertQuadkeysAndVerticalIDsToSpatialIDs", Invoke: func(a []w.Val) w.Val {
		var in []*object.QuadkeyAndVerticalID
		z := w.AsInt(a[1])
		for _, e := range w.AsList(a[0]) {
			l := w.AsList(e)
			qz, vz, k, mx, mn := w.AsInt(l[0]), w.AsInt(l[2]), w.AsInt(l[3]), w.AsFlt(l[4]), w.AsFlt(l[5])
			if qz >= 1 && qz <= 31 && vz >= 0 && vz <= 35 && z >= 0 && z <= 35 {
				if z-qz > 3 || (mx == mn && z-vz > 10) || (mx > mn && revRunTooLong(vz, k, z, mx, mn)) {
					return refused
				}
			}
			in = append(in, object.NewQuadkeyAndVerticalID(qz, w.AsInt(l[1]), vz, k, mx, mn))
		}
		ids, err := transform.ConvertQuadkeysAndVerticalIDsToSpatialIDs(in, z)
		return w.WithErr(w.Strs(ids), err)
	}}
}

// oracles: the horizontal half of the conversions is the code's own answer (subject of C11, not of this property)
func oracles(r *run.Runner) {
	r.Oracles["hkeys"] = func(a []w.Val) w.Val {
		h, x, y, outH := w.AsInt(a[0]), w.AsInt(a[1]), w.AsInt(a[2]), w.AsInt(a[3])
		if outH-h > 6 || h < 0 || outH < 0 || h > 35 || outH > 35 {
			return w.Panic{}
		}
		var out []int64
		for _, s := range integrate.HorizontalZoom(h, x, y, outH) {
			out = append(out, transform.VerifConvertHorizontalIDToQuadkey(s))
		}
		if out == nil {
			out = []int64{}
		}
		return w.Ints(out)
	}
	r.Oracles["hids"] = func(a []w.Val) w.Val {
		qz, qk, outH := w.AsInt(a[0]), w.AsInt(a[1]), w.AsInt(a[2])
		if outH-qz > 6 || qz < 0 || outH < 0 || qz > 35 || outH > 35 {
			return w.Panic{}
		}
		x, y := transform.VerifConvertQuadkeyToHorizontalID(qk, qz)
		out := integrate.HorizontalZoom(qz, x, y, outH)
		if out == nil {
			out = []string{}
		}
		return w.Strs(out)
	}
}

// ---------------------------------------------------------------- generators

type rng struct {
	mn, mx float64
	kind   string
}

func p2(k int64) float64 { return math.Pow(2, float64(k)) }

// heightRange: symmetric / asymmetric dyadic / non-dyadic / tiny / huge; always mn < mx, finite.
func heightRange(g *Gen) rng {
	switch g.Intn(12) {
	case 0, 1: // symmetric +-2^k
		k := g.Int63n(36) - 8
		return rng{-p2(k), p2(k), "sym-pow2"}
	case 2: // the documentation's range and close relatives
		k := g.Pick(8, 9, 10, 25, 24, 0, 1)
		return rng{-p2(k), p2(k), "sym-pow2"}
	case 3, 4: // asymmetric dyadic: a*2^e .. b*2^e
		e := g.Int63n(30) - 12
		a := g.Int63n(4001) - 2000
		b := a + 1 + g.Int63n(4000)
		return rng{float64(a) * p2(e), float64(b) * p2(e), "asym-dyadic"}
	case 5: // [0, 2^k) and [-2^k, 0)
		k := g.Int63n(34) - 6
		if g.Chance(0.5) {
			return rng{0, p2(k), "zero-based"}
		}
		return rng{-p2(k), 0, "zero-based"}
	case 6: // literal non-dyadic ranges
		c := [][2]float64{{-123.456, 789.01}, {-0.1, 0.1}, {0.1, 0.3}, {-1000.7, 33554432.9}, {-33554431.3, -33554000.1}, {1e-3, 1e5}, {-1e7, 1e7 + 0.3}, {-1.0000000000000002, 1}, {-1, 1.0000000000000002}}
		p := c[g.Intn(len(c))]
		return rng{p[0], p[1], "non-dyadic"}
	case 7: // tiny
		c := g.R.Float64()*2000 - 1000
		d := p2(-g.Int63n(30)) * (1 + g.R.Float64())
		if c+d > c {
			return rng{c, c + d, "tiny"}
		}
		return rng{c, c + 1, "tiny"}
	case 8: // huge
		k := 26 + g.Int63n(20)
		if g.Chance(0.5) {
			return rng{-p2(k) * (1 + g.R.Float64()), p2(k) * (1 + g.R.Float64()), "huge"}
		}
		return rng{-p2(k), p2(k), "huge"}
	}
	// random non-dyadic at a random scale
	s := p2(g.Int63n(34) - 8)
	a := (g.R.Float64()*2 - 1) * s
	b := a + g.R.Float64()*s + s*1e-6
	if !(b > a) {
		b = a + s
	}
	return rng{a, b, "non-dyadic"}
}

func clampF(v int64, f int64) int64 {
	ww := int64(1) << uint(v)
	if f < -ww {
		return -ww
	}
	if f >= ww {
		return ww - 1
	}
	return f
}

// voxelFor: a vertical zoom and index placed relative to the range: inside, straddling min / max, enclosing the whole range, below, above.
// Half of the voxels are sized relative to the range (height = range * 2^j, j in -7..3) so that straddling and enclosing voxels span
// several cells of the subdivision instead of disappearing inside one.
func voxelFor(g *Gen, r rng) (int64, int64, string) {
	v := g.Zoom()
	if g.Chance(0.6) {
		j := int64(g.Intn(11)) - 7
		v = 25 - int64(math.Round(math.Log2(r.mx-r.mn))) - j
		if v < 0 {
			v = 0
		}
		if v > 35 {
			v = 35
		}
	}
	res := p2(25 - v)
	var t float64
	pos := ""
	if g.Chance(0.3) { // a voxel face exactly on minHeight or on maxHeight (possible when the bound is a multiple of some 2^(25-v))
		b, which := r.mx, "max"
		if g.Chance(0.5) {
			b, which = r.mn, "min"
		}
		if vmax := faceZoom(b); vmax >= 0 && math.Abs(b) <= p2(25) {
			lo := vmax - 12
			if lo < 0 {
				lo = 0
			}
			if b != 0 { // the index must exist at that zoom: |b| <= 2^25 holds, any zoom works
				v = lo + g.Int63n(vmax-lo+1)
			} else {
				v = g.Zoom()
			}
			f := int64(b / p2(25-v))
			side := "bottom"
			if g.Chance(0.5) {
				f--
				side = "top"
			}
			if f >= -(int64(1)<<uint(v)) && f < int64(1)<<uint(v) {
				return v, f, "face-" + side + "-on-" + which
			}
		}
		v = g.Zoom()
		res = p2(25 - v)
	}
	switch g.Intn(20) {
	case 0, 1, 2, 3:
		t, pos = r.mn, "straddle-min"
	case 4, 5, 6, 7:
		t, pos = r.mx, "straddle-max"
	case 8:
		t, pos = r.mn-(r.mx-r.mn)*(0.1+g.R.Float64())-res, "below"
	case 9:
		t, pos = r.mx+(r.mx-r.mn)*(0.1+g.R.Float64())+res, "above"
	case 10, 11, 12: // a voxel at least as high as the range, holding its bottom: encloses the range unless a voxel face cuts it
		for v > 0 && p2(25-v) < (r.mx-r.mn)*2 {
			v--
		}
		res = p2(25 - v)
		t, pos = r.mn, "enclosing"
	case 13, 14: // exactly on a border of some depth (dyadic ranges) or near it
		d := g.Int63n(12)
		k := g.Int63n(int64(1)<<uint(d) + 1)
		t, pos = r.mn+(r.mx-r.mn)*float64(k)/p2(d), "on-border"
	default:
		t, pos = r.mn+(r.mx-r.mn)*g.R.Float64(), "inside"
	}
	q := math.Floor(t / res)
	if q > 1e18 {
		q = 1e18
	}
	if q < -1e18 {
		q = -1e18
	}
	f := int64(q)
	if pos == "on-border" && g.Chance(0.5) {
		f-- // the voxel whose TOP face is the border
	}
	f = clampF(v, f)
	if g.Chance(0.05) {
		f = g.VIndex(v)
		pos = "random"
	}
	lo, hi := float64(f)*res, float64(f+1)*res
	switch {
	case pos == "random":
	case lo <= r.mn && hi >= r.mx:
		pos = "enclosing"
	case lo < r.mn && hi > r.mn:
		pos = "straddle-min"
	case lo < r.mx && hi > r.mx:
		pos = "straddle-max"
	case hi <= r.mn:
		pos = "below"
	case lo >= r.mx:
		pos = "above"
	case pos != "on-border":
		pos = "inside"
	}
	return v, f, pos
}

// widen: a range with the same top and a lower bottom, and one with the same bottom and a higher top
func widen(g *Gen, mn, mx float64) (float64, float64) {
	d := (mx - mn) * (0.01 + g.R.Float64())
	mn2, mx2 := mn-d, mx+d
	if !(mn2 < mn) {
		mn2 = Ulp(mn, -1)
	}
	if !(mx2 > mx) {
		mx2 = Ulp(mx, 1)
	}
	return mn2, mx2
}

// nearFace: a voxel face A = f*2^(25-v) and a non-dyadic range whose border j/2^d (j odd) is A up to the rounding of the two bounds:
// mn = A - j*w, mx = mn + w*2^d. The cell width at the output zoom is a few tenths to a few voxel heights, so the run stays short.
func nearFace(g *Gen) (rng, int64, int64, int64, bool) {
	v := g.Zoom()
	f := g.VIndex(v)
	if f == 0 {
		f = 1
	}
	f = clampF(v, f)
	res := p2(25 - v)
	A := float64(f) * res
	if g.Chance(0.5) && f+1 < int64(1)<<uint(v) {
		A = float64(f+1) * res // the top face
	}
	oz := 1 + g.Int63n(20)
	d := 1 + g.Int63n(oz)
	j := 2*g.Int63n(int64(1)<<uint(d-1)) + 1
	c := res * (0.05 + g.R.Float64()*4) // cell width at the output zoom
	w := c * p2(oz-d)
	mn := A - float64(j)*w
	mx := mn + w*p2(d)
	if g.Chance(0.5) {
		mn = Ulp(mn, g.Intn(3)-1)
		mx = Ulp(mx, g.Intn(3)-1)
	}
	if !(mx > mn) || math.Abs(mn) > p2(45) || math.Abs(mx) > p2(45) || fwdRunTooLong(v, oz, mx, mn) {
		return rng{}, 0, 0, 0, false
	}
	return rng{mn, mx, "near-face"}, v, f, oz, true
}

type emitFn func(fn string, tags []string, triv bool, args ...w.Val) run.Verdict

// nonFinite: NaN, infinities, the largest floats and equal heights through calcBitIndex, convertVerticallIDToBit (small zooms) and the exported
// forward conversion (NaN heights are refused there; equal heights are the plain zoom change). The checker can only demand the index range and
// contiguity for these; the model is compared bit for bit.
func nonFinite(g *Gen, emit emitFn) {
	// heights: NaN, equal, and the largest finite floats (max-min overflows). Infinite heights are left out on purpose: a rewrite that is
	// equivalent in exact arithmetic (early exit for altitudes outside the range) legitimately differs there, and they are not height ranges.
	hs := []float64{math.NaN(), math.MaxFloat64, -math.MaxFloat64, 0, 1, -1, 1e300, -1e300}
	mx, mn := hs[g.Intn(len(hs))], hs[g.Intn(len(hs))]
	apiMx, apiMn := mx, mn
	if mx < mn { // the helpers are never reached with reversed heights: only the exported conversion gets those
		mx, mn = mn, mx
	}
	zoom := g.Int63n(15)
	tags := []string{"dir=calc", "non-finite"}
	if math.IsNaN(mx) || math.IsNaN(mn) { // NaN heights are refused by the exported conversion and never reach the helpers
		h, v := 1+g.Int63n(20), g.Zoom()
		emit("ConvertExtendedSpatialIDsToQuadkeysAndVerticalIDs", []string{"dir=forward-api", "non-finite"}, false,
			w.Strs([]string{g.ValidEIDAt(h, v)}), w.I(h), w.I(zoom), w.F(apiMx), w.F(apiMn))
		return
	}
	if mx > mn && math.Abs(mx) < 1e299 && math.Abs(mn) < 1e299 { // a finite range: any altitude, NaN and infinities included
		alts := []float64{math.NaN(), math.Inf(1), math.Inf(-1), math.MaxFloat64, -math.MaxFloat64, 5e-324}
		emit("calcBitIndex", tags, zoom == 0, w.F(alts[g.Intn(len(alts))]), w.I(zoom), w.F(mx), w.F(mn))
	} else {
		alts := []float64{0, 1, -1, 5e-324, 12345.678, -1e10}
		emit("calcBitIndex", tags, zoom == 0, w.F(alts[g.Intn(len(alts))]), w.I(zoom), w.F(mx), w.F(mn))
	}
	v := g.Zoom()
	emit("convertVerticallIDToBit", []string{"dir=forward", "non-finite"}, zoom == 0, w.I(v), w.I(g.VIndex(v)), w.I(zoom), w.F(mx), w.F(mn))
	if math.IsNaN(apiMx) || math.IsNaN(apiMn) || apiMx < apiMn {
		h := 1 + g.Int63n(20)
		emit("ConvertExtendedSpatialIDsToQuadkeysAndVerticalIDs", []string{"dir=forward-api", "non-finite"}, false,
			w.Strs([]string{g.ValidEIDAt(h, v)}), w.I(h), w.I(zoom), w.F(apiMx), w.F(apiMn))
	}
}

// emptyInputs: nothing to convert. The code raises no error then, even for reversed heights (no voxel is interpreted: not a violation).
func emptyInputs(g *Gen, hr rng, emit emitFn) {
	outH, outV := 1+g.Int63n(31), g.Zoom()
	mx, mn := hr.mx, hr.mn
	tags := []string{"empty-list"}
	if g.Chance(0.5) {
		mx, mn = mn, mx
		tags = append(tags, "reversed")
	}
	switch g.Intn(4) {
	case 0:
		emit("ConvertExtendedSpatialIDsToQuadkeysAndVerticalIDs", append(tags, "dir=forward-api"), true, w.Strs([]string{}), w.I(outH), w.I(outV), w.F(mx), w.F(mn))
	case 1:
		emit("ConvertSpatialIDsToQuadkeysAndVerticalIDs", append(tags, "dir=forward-api", "sid"), true, w.Strs([]string{}), w.I(outH), w.I(outV), w.F(mx), w.F(mn))
	case 2:
		emit("ConvertQuadkeysAndVerticalIDsToExtendedSpatialIDs", []string{"empty-list", "dir=reverse-api"}, true, w.List{}, w.I(outH), w.I(outV))
	default:
		emit("ConvertQuadkeysAndVerticalIDsToSpatialIDs", []string{"empty-list", "dir=reverse-api", "sid"}, true, w.List{}, w.I(outV))
	}
}

// faceZoom: the finest zoom v <= 35 at which b is a multiple of the voxel height 2^(25-v); -1 if none
func faceZoom(b float64) int64 {
	for v := int64(35); v >= 0; v-- {
		q := b / p2(25-v)
		if q == math.Floor(q) && math.Abs(q) < p2(53) {
			return v
		}
	}
	return -1
}

// outZoomFwd: an output zoom 0..35 lowered until the run (voxel height / cell width, at most 2^oz) stays below `limit` indices.
func outZoomFwd(g *Gen, r rng, v int64, limit float64) int64 {
	oz := g.Zoom()
	for oz > 0 {
		n := p2(25-v) / ((r.mx - r.mn) / p2(oz))
		if n > p2(oz) {
			n = p2(oz)
		}
		if n <= limit {
			break
		}
		oz--
	}
	return oz
}

func lenTag(n int) string {
	switch {
	case n <= 1:
		return "len=1"
	case n <= 2:
		return "len=2"
	case n <= 10:
		return "len=3-10"
	case n <= 100:
		return "len=11-100"
	}
	return "len>100"
}

// float border of a random cell at a random depth, computed the way the code does, for altitudes exactly on / one ulp off a border
func floatBorder(g *Gen, r rng, depth int64) float64 {
	mn, mx := r.mn, r.mx
	b := mn
	for i := int64(0); i < depth; i++ {
		b = (mx-mn)/2 + mn
		if g.Chance(0.5) {
			mn = b
		} else {
			mx = b
		}
	}
	return b
}

// subVoxelZooms: the output zooms at which cell [lo, hi) is lower than one output voxel and yet has a grid line k*2^(25-oz) inside it
// (lo < line <= hi), so that the cell needs two vertical indices although it is smaller than a voxel.
func subVoxelZooms(lo, hi float64) []int64 {
	var out []int64
	for oz := int64(0); oz <= 35; oz++ {
		res := p2(25 - oz)
		if hi-lo < res && math.Floor(lo/res) != math.Floor(hi/res) && math.Abs(hi)/res < p2(60) {
			out = append(out, oz)
		}
	}
	return out
}

// reverseCase: a cell (vz, k) of a height range and an output zoom. keep = the output zoom was chosen for the cell and must not be changed.
// Streams: "subvoxel" = a cell lower than one output voxel with an output grid line in its interior (two indices from a tiny cell);
// "near-line" = a range constructed so that a cell bound falls within rounding distance of an output grid line; otherwise random.
func reverseCase(g *Gen) (vz, k, oz int64, r rng, tags []string, keep bool) {
	stream := "random"
	switch x := g.Intn(100); {
	case x < 35:
		stream = "subvoxel"
	case x < 47:
		stream = "near-line"
	}
	if stream == "near-line" {
		oz = g.Zoom()
		res := p2(25 - oz)
		j := g.Int63n(2001) - 1000
		if g.Chance(0.3) {
			j = g.Int63n(1<<20) - (1 << 19)
		}
		G := float64(j) * res
		vz = g.Int63n(21)
		k = g.Int63n(int64(1) << uint(vz))
		h0 := res * (0.3 + g.R.Float64()*7.7)
		if g.Chance(0.3) { // a cell lower than a voxel whose top (or bottom) is about on the line
			h0 = res * (0.05 + g.R.Float64()*0.9)
		}
		b := float64(g.Intn(2)) // which bound of the cell is put on the line
		mn := G - (float64(k)+b)*h0
		mx := mn + h0*p2(vz)
		if g.Chance(0.5) { // and one ulp off
			mn = Ulp(mn, g.Intn(3)-1)
			mx = Ulp(mx, g.Intn(3)-1)
		}
		if mx > mn && math.Abs(mn) < p2(46) && math.Abs(mx) < p2(46) {
			r = rng{mn, mx, "near-line"}
			tags = []string{"dir=reverse", "range=near-line", "stream=near-line", Tag("vz=%d", vz), Tag("oz=%d", oz)}
			return vz, k, oz, r, tags, true
		}
		stream = "random"
	}
	for {
		r = heightRange(g)
		if math.Abs(r.mn) < p2(46) && math.Abs(r.mx) < p2(46) {
			break
		}
	}
	if stream == "subvoxel" && g.Chance(0.5) && !(r.mn < 0 && r.mx > 0) { // move the range over altitude 0: a grid line at every zoom
		d := r.mx - r.mn
		mn := -d * (0.05 + 0.9*g.R.Float64())
		if g.Chance(0.3) {
			mn = -math.Floor(d*g.R.Float64()) - 1 // integer bounds, as in [-100, 400)
			d = math.Ceil(d) + 1
		}
		if mn+d > 0 && mn < 0 {
			r = rng{mn, mn + d, r.kind + "-over0"}
		}
	}
	vz = g.Zoom()
	for vz < 35 && (r.mx-r.mn)/p2(vz)/p2(25) > 1000 { // even at output zoom 0 the cell must stay a short run
		vz++
	}
	n := int64(1) << uint(vz)
	switch g.Intn(10) {
	case 0:
		k = 0
	case 1:
		k = n - 1
	case 2:
		k = g.Pick(-1, n, n+1, 2*n, -n)
	default:
		k = g.Int63n(n)
	}
	h := (r.mx - r.mn) / p2(vz)
	if stream == "subvoxel" {
		if r.mn < 0 && r.mx > 0 && g.Chance(0.7) { // the cell holding altitude 0
			k = int64(math.Floor(-r.mn / h))
			if k >= n {
				k = n - 1
			}
		}
		lo := float64(k)*h + r.mn
		if zs := subVoxelZooms(lo, lo+h); len(zs) > 0 {
			oz = zs[g.Intn(len(zs))]
			tags = []string{"dir=reverse", "range=" + r.kind, "stream=subvoxel", Tag("vz=%d", vz), Tag("oz=%d", oz)}
			return vz, k, oz, r, tags, true
		}
	}
	// cell height in output cells: (mx-mn)/2^vz / 2^(25-oz) <= 1500, and |altitude| * 2^(oz-25) < 2^60
	oz = g.Zoom()
	big := math.Max(math.Abs(r.mn), math.Abs(r.mx)) * 4
	for oz > 0 && (h/p2(25-oz) > 1500 || big*p2(oz-25) > p2(60)) {
		oz--
	}
	tags = []string{"dir=reverse", "range=" + r.kind, "stream=random", Tag("vz=%d", vz), Tag("oz=%d", oz)}
	return vz, k, oz, r, tags, false
}

func quadkeyOf(x, y, h int64) int64 {
	return transform.VerifConvertHorizontalIDToQuadkey(strconv.FormatInt(h, 10) + "/" + strconv.FormatInt(x, 10) + "/" + strconv.FormatInt(y, 10))
}

func init() {
	Scale["C17"] = 8000
	Registry["C17"] = func(r *run.Runner, g *Gen, n int) {
		oracles(r)
		r.Register(fnCalc(), fnVidToBit(), fnBitToVid(), fnExtToQV(), fnSidToQV(), fnQVToExt(), fnQVToSid(), fnSequence())
		var sq *seqBuilder // non-nil while the steps of one history are being collected
		emit := func(fn string, tags []string, triv bool, args ...w.Val) run.Verdict {
			if sq != nil {
				sq.add(g, fn, args...)
				return run.Verdict{}
			}
			vd := r.Run(run.Case{Prop: "C17", Fn: fn, Tags: tags, Trivial: triv, Args: args})
			if vd.Class != "" && vd.Class != "-" { // where the finding class occurs, visible in the distribution
				r.Sum.Tags[vd.Class+"@"+fn]++
				if os.Getenv("C17_SHOW_CLASS") != "" {
					println(vd.Class, fn, w.Show(w.List(args)))
				}
			}
			return vd
		}
		// flush: the collected steps become ONE case "Sequence" (executed back to back in one invocation, judged step by step)
		flush := func(tags []string) {
			b := sq
			sq = nil
			if b != nil && len(b.steps) > 0 {
				r.Sum.Tags[Tag("steps=%d", len(b.steps))]++
				emit("Sequence", tags, false, b.steps)
			}
		}
		only := -1
		if s := os.Getenv("C17_ONLY"); s != "" {
			if x, err := strconv.Atoi(s); err == nil {
				only = x
			}
		}
		for i := 0; i < n; i++ {
			hr := heightRange(g)
			mx, mn := hr.mx, hr.mn
			reversed := false
			k := i % 10
			if only >= 0 { // development aid: C17_ONLY=<0..9> restricts the stream to one kind of case
				k = only
			}
			if k >= 8 && g.Chance(0.17) { // maxHeight < minHeight: an error in the exported conversions (about 1 case in 30 overall)
				mx, mn = mn, mx
				reversed = true
				if g.Chance(0.25) { // reversed by a single ulp
					mx = Ulp(mn, -1)
				}
			}
			if i%37 == 11 { // non-finite and extreme heights / altitudes: the "all floats" theorems and the NaN -> error branch
				nonFinite(g, emit)
			}
			if i%41 == 13 { // empty inputs, in both directions, with proper and with reversed heights
				emptyInputs(g, hr, emit)
			}
			switch {
			case k == 0 || k == 1: // calcBitIndex on arbitrary altitudes (the helpers are only ever called with max > min)
				mx, mn := hr.mx, hr.mn
				zoom := g.Zoom()
				var alt float64
				kind := ""
				switch g.Intn(8) {
				case 0, 1, 2:
					d := g.Int63n(zoom + 1)
					alt, kind = Ulp(floatBorder(g, hr, d), g.Intn(3)-1), "alt=border+-ulp"
				case 3, 7:
					alt, kind = g.PickF(hr.mn, hr.mx, hr.mx, hr.mn, Ulp(hr.mn, -1), Ulp(hr.mn, 1), Ulp(hr.mx, -1), Ulp(hr.mx, 1), 0, math.Copysign(0, -1)), "alt=range-end"
				case 4:
					alt, kind = hr.mn-(hr.mx-hr.mn)*g.R.Float64()*3, "alt=below"
				case 5:
					alt, kind = hr.mx+(hr.mx-hr.mn)*g.R.Float64()*3, "alt=above"
				default:
					alt, kind = hr.mn+(hr.mx-hr.mn)*g.R.Float64(), "alt=inside"
				}
				tags := []string{"dir=calc", "range=" + hr.kind, kind, Tag("oz=%d", zoom)}
				emit("calcBitIndex", tags, zoom == 0, w.F(alt), w.I(zoom), w.F(mx), w.F(mn))
				if g.Chance(0.2) { // related consecutive calls: exactly one argument changed each time, then the first call again
					st := append(tags, "seq")
					sq = &seqBuilder{}
					mn2, mx2 := widen(g, mn, mx)
					emit("calcBitIndex", st, zoom == 0, w.F(alt), w.I(zoom), w.F(mx), w.F(mn))
					emit("calcBitIndex", st, zoom == 0, w.F(alt), w.I(zoom), w.F(mx), w.F(mn2))
					emit("calcBitIndex", st, zoom == 0, w.F(alt), w.I(zoom), w.F(mx), w.F(mn))
					emit("calcBitIndex", st, zoom == 0, w.F(alt), w.I(zoom), w.F(mx2), w.F(mn))
					emit("calcBitIndex", st, false, w.F(alt), w.I(g.Zoom()), w.F(mx), w.F(mn))
					emit("calcBitIndex", st, zoom == 0, w.F(Ulp(alt, g.Intn(3)-1)), w.I(zoom), w.F(mx), w.F(mn))
					emit("calcBitIndex", st, zoom == 0, w.F(alt), w.I(zoom), w.F(mx), w.F(mn))
					flush(st)
				}
			case k <= 5: // convertVerticallIDToBit
				mx, mn := hr.mx, hr.mn
				v, f, pos := voxelFor(g, hr)
				oz := outZoomFwd(g, hr, v, g.PickF(4, 30, 300, 1500))
				if g.Chance(0.12) { // a non-dyadic range built so that one of its borders falls within rounding distance of a voxel face
					if nr, nv, nf, noz, ok := nearFace(g); ok {
						hr, mx, mn, v, f, oz, pos = nr, nr.mx, nr.mn, nv, nf, noz, "near-face"
					}
				} else if g.Chance(0.03) { // indices far beyond the valid ones (the theorems speak of |f| < 2^52): clamped to one end
					f = (int64(1) << uint(35+g.Intn(17))) + g.Int63n(1000)
					if g.Chance(0.5) {
						f = -f
					}
					pos = "huge-index"
				}
				tags := []string{"dir=forward", "range=" + hr.kind, "pos=" + pos, Tag("v=%d", v), Tag("oz=%d", oz), Tag("fsign=%d", sign(f))}
				vd := emit("convertVerticallIDToBit", tags, oz == 0, w.I(v), w.I(f), w.I(oz), w.F(mx), w.F(mn))
				if l, ok := vd.Model.(w.List); ok {
					r.Sum.Tags[lenTag(len(l))]++
				}
				if g.Chance(0.2) { // related consecutive calls: one argument changed each time (a wider range keeps the run short)
					st := append(tags, "seq")
					mn2, mx2 := widen(g, mn, mx)
					fwd := func(v, f, oz int64, mx, mn float64) {
						emit("convertVerticallIDToBit", st, oz == 0, w.I(v), w.I(f), w.I(oz), w.F(mx), w.F(mn))
					}
					sq = &seqBuilder{}
					fwd(v, f, oz, mx, mn)
					fwd(v, f, oz, mx, mn2)
					fwd(v, clampF(v, f-1), oz, mx, mn) // its top face is the previous call's bottom face
					fwd(v, f, oz, mx2, mn)
					fwd(v, clampF(v, f+1), oz, mx, mn)
					fwd(v, f, oz, mx, mn)
					if oz > 0 {
						fwd(v, f, oz-1, mx, mn)
					}
					if v > 0 && !fwdRunTooLong(v-1, oz, mx, mn) {
						fwd(v-1, clampF(v-1, f), oz, mx, mn)
					}
					fwd(v, f, oz, mx, mn)
					fwd(v, f, oz, mx, mn) // the identical call twice in a row (the caller may have scribbled over the first result)
					flush(st)
				}
			case k == 6 || k == 7: // convertBitToVerticalID
				vz, kk, oz, rr, tags, _ := reverseCase(g)
				a, b := rr.mx, rr.mn
				vd := emit("convertBitToVerticalID", tags, false, w.I(vz), w.I(kk), w.I(oz), w.F(a), w.F(b))
				if l, ok := vd.Model.(w.List); ok {
					r.Sum.Tags[lenTag(len(l)-1)]++
				}
				if g.Chance(0.2) {
					st := append(tags, "seq")
					rev := func(vz, kk, oz int64, a, b float64) {
						if !revRunTooLong(vz, kk, oz, a, b) && (a-b)/p2(vz)/p2(25-oz) <= 3000 {
							emit("convertBitToVerticalID", st, false, w.I(vz), w.I(kk), w.I(oz), w.F(a), w.F(b))
						}
					}
					b2 := b + (a-b)*g.R.Float64()*0.5 // a narrower range keeps the cell, hence the run, short
					a2 := a - (a-b)*g.R.Float64()*0.5
					sq = &seqBuilder{}
					rev(vz, kk, oz, a, b)
					rev(vz, kk, oz, a, b2)
					rev(vz, kk+1, oz, a, b)
					rev(vz, kk, oz, a2, b)
					rev(vz, kk, oz, a, b)
					if oz > 0 {
						rev(vz, kk, oz-1, a, b)
					}
					if vz < 35 {
						rev(vz+1, kk, oz, a, b)
					}
					rev(vz, kk, oz, a, b)
					rev(vz, kk, oz, a, b)
					flush(st)
				}
			case k == 8: // exported forward conversions (extended and spatial IDs)
				nids := 1 + g.Intn(3)
				sid := g.Chance(0.3)
				type vx struct{ h, x, y, v, f int64 }
				var vs []vx
				tags := []string{"dir=forward-api", "range=" + hr.kind}
				minh := int64(35)
				for j := 0; j < nids; j++ {
					v, f, pos := voxelFor(g, hr)
					if j > 0 && g.Chance(0.4) { // same or neighbouring voxel: cross-ID de-duplication
						v, f = vs[0].v, clampF(vs[0].v, vs[0].f+int64(g.Intn(3))-1)
					}
					h := g.Zoom()
					if sid {
						h = v
					}
					x, y := g.HIndex(h), g.HIndex(h)
					if j > 0 && g.Chance(0.5) && !sid { // same horizontal cell as the first ID
						h, x, y = vs[0].h, vs[0].x, vs[0].y
					}
					if h < minh {
						minh = h
					}
					vs = append(vs, vx{h, x, y, v, f})
					if j == 0 {
						tags = append(tags, "pos="+pos, Tag("v=%d", v))
					}
				}
				outH := minh + 2 - int64(g.Intn(5))
				if outH > 31 {
					outH = 31
				}
				if outH < 1 {
					outH = 1
				}
				// the output zoom must keep every ID's run short
				oz := g.Zoom()
				var ids []string
				for _, e := range vs {
					for oz > 0 && math.Min(p2(oz), p2(25-e.v)/((hr.mx-hr.mn)/p2(oz))) > 200 {
						oz--
					}
					if sid {
						ids = append(ids, SID(e.v, e.f, e.x, e.y))
					} else {
						ids = append(ids, EID(e.h, e.x, e.y, e.v, e.f))
					}
				}
				tags = append(tags, Tag("oz=%d", oz), Tag("nids=%d", nids))
				if i%80 == 8 { // malformed input among the IDs / zoom out of range
					if g.Chance(0.5) {
						m := g.Malformed()
						if sid && WellFormed(m, 4) { // a dropped field can leave a well-formed spatial ID at an unrelated zoom
							m += "/x"
						}
						ids[g.Intn(len(ids))] = m
						tags = append(tags, "malformed")
					} else {
						outH = g.Pick(0, 32, -1, 36)
						tags = append(tags, "bad-zoom")
					}
				}
				if reversed {
					tags = append(tags, "reversed")
				}
				fn := "ConvertExtendedSpatialIDsToQuadkeysAndVerticalIDs"
				if sid {
					fn = "ConvertSpatialIDsToQuadkeysAndVerticalIDs"
					tags = append(tags, "sid")
				}
				emit(fn, tags, false, w.Strs(ids), w.I(outH), w.I(oz), w.F(mx), w.F(mn))
				if g.Chance(0.25) { // the same IDs again with one argument changed (a wider range keeps the runs short) / the identical call
					st := append(tags, "seq")
					sq = &seqBuilder{}
					h2 := heightRange(g)
					emit(fn, st, false, w.Strs(ids), w.I(outH), w.I(oz), w.F(mx), w.F(mn))
					emit(fn, st, false, w.Strs(ids), w.I(outH), w.I(0), w.F(h2.mx), w.F(h2.mn))
					emit(fn, st, false, w.Strs(ids), w.I(outH), w.I(oz), w.F(mx), w.F(mn))
					emit(fn, st, false, w.Strs(ids), w.I(outH), w.I(oz), w.F(mx), w.F(mn)) // identical, twice in a row
					// valid / invalid neighbours of the same call: reversed heights (twice), a zoom out of range, a malformed ID, then valid again
					vmx, vmn := mx, mn
					if reversed {
						vmx, vmn = hr.mx, hr.mn
					}
					bad := append([]string{}, ids...)
					bad[g.Intn(len(bad))] = "1/2"
					emit(fn, st, false, w.Strs(ids), w.I(outH), w.I(oz), w.F(vmn), w.F(vmx))
					emit(fn, st, false, w.Strs(ids), w.I(outH), w.I(oz), w.F(vmn), w.F(vmx))
					emit(fn, st, false, w.Strs(ids), w.I(outH), w.I(oz), w.F(vmx), w.F(vmn))
					emit(fn, st, false, w.Strs(ids), w.I(g.Pick(0, 32)), w.I(oz), w.F(vmx), w.F(vmn))
					emit(fn, st, false, w.Strs(ids), w.I(outH), w.I(oz), w.F(vmx), w.F(vmn))
					emit(fn, st, false, w.Strs(bad), w.I(outH), w.I(oz), w.F(vmx), w.F(vmn))
					emit(fn, st, false, w.Strs(ids), w.I(outH), w.I(oz), w.F(vmx), w.F(vmn))
					if len(ids) > 1 { // the same backing array with fewer / other IDs
						emit(fn, st, false, w.Strs(ids[1:]), w.I(outH), w.I(oz), w.F(vmx), w.F(vmn))
						emit(fn, st, false, w.Strs(ids), w.I(outH), w.I(oz), w.F(vmx), w.F(vmn))
					}
					if !reversed {
						mn2, mx2 := widen(g, mn, mx)
						emit(fn, st, false, w.Strs(ids), w.I(outH), w.I(oz), w.F(mx), w.F(mn2))
						emit(fn, st, false, w.Strs(ids), w.I(outH), w.I(oz), w.F(mx2), w.F(mn))
						if oz > 0 {
							emit(fn, st, false, w.Strs(ids), w.I(outH), w.I(oz-1), w.F(mx), w.F(mn))
						}
						if outH > 1 && outH <= 31 {
							emit(fn, st, false, w.Strs(ids), w.I(outH-1), w.I(oz), w.F(mx), w.F(mn))
						}
						emit(fn, st, false, w.Strs(ids), w.I(outH), w.I(oz), w.F(mx), w.F(mn))
					}
					flush(st)
				}
			default: // exported reverse conversions (extended and spatial IDs)
				nit := 1 + g.Intn(3)
				items := w.List{}
				tags := []string{"dir=reverse-api", Tag("nitems=%d", nit)}
				outV := int64(35)
				type it struct {
					qz, qk, vz, k int64
					mx, mn        float64
				}
				var its []it
				keep := false
				for j := 0; j < nit; j++ {
					var vz, kk, oz int64
					var rr rng
					if j > 0 && (keep || g.Chance(0.5)) { // same range and zoom, neighbouring cell
						p := its[0]
						vz, kk, rr, oz = p.vz, p.k+int64(g.Intn(3))-1, rng{p.mn, p.mx, ""}, outV
					} else {
						var tg []string
						var kp bool
						vz, kk, oz, rr, tg, kp = reverseCase(g)
						if j == 0 {
							keep = kp
							tags = append(tags, tg[1], tg[2], Tag("vz=%d", vz))
						}
					}
					if oz < outV {
						outV = oz
					}
					its = append(its, it{0, 0, vz, kk, rr.mx, rr.mn})
				}
				for _, e := range its {
					big := math.Max(math.Abs(e.mn), math.Abs(e.mx)) * 4
					for outV > 0 && ((e.mx-e.mn)/p2(e.vz)/p2(25-outV) > 120 || big*p2(outV-25) > p2(60)) {
						outV--
					}
				}
				sid := g.Chance(0.35) && outV <= 33 // ConvertQuadkeysAndVerticalIDsToSpatialIDs: one zoom for both axes
				outH := g.Int63n(34)
				if sid {
					outH = outV
				}
				for j := range its {
					qz := outH - int64(g.Intn(3)) + int64(g.Intn(6))
					if qz < 1 {
						qz = 1
					}
					if qz > 31 {
						qz = 31
					}
					its[j].qz = qz
					its[j].qk = quadkeyOf(g.HIndex(qz), g.HIndex(qz), qz)
				}
				if reversed {
					j := g.Intn(len(its))
					if g.Chance(0.3) {
						j = len(its) - 1 // the last element: everything before it is converted first
					}
					its[j].mx, its[j].mn = its[j].mn, its[j].mx
					if g.Chance(0.25) {
						its[j].mx = Ulp(its[j].mn, -1)
					}
					tags = append(tags, "reversed")
				}
				if i%70 == 19 { // the quadkey checks of the reverse conversion: above the limit (an error), negative (accepted)
					if g.Chance(0.5) {
						its[0].qk = 4611686018427388064 + 1 + g.Int63n(1000)
						tags = append(tags, "quadkey-too-large")
					} else {
						its[0].qk = -1 - g.Int63n(1000)
						tags = append(tags, "quadkey-negative")
					}
				}
				if i%90 == 9 {
					switch g.Intn(3) {
					case 0:
						its[0].qz = g.Pick(0, 32, -1)
						tags = append(tags, "bad-zoom")
					case 1:
						its[0].k = (int64(2) << uint(its[0].vz)) + 1 + g.Int63n(5)
						tags = append(tags, "index-too-large")
					case 2:
						outH = g.Pick(-1, 36)
						if sid {
							outV = outH
						}
						tags = append(tags, "bad-zoom")
					}
				}
				for _, e := range its {
					items = append(items, w.L(w.I(e.qz), w.I(e.qk), w.I(e.vz), w.I(e.k), w.F(e.mx), w.F(e.mn)))
				}
				tags = append(tags, Tag("oz=%d", outV))
				fn := "ConvertQuadkeysAndVerticalIDsToExtendedSpatialIDs"
				call := func(tg []string, l w.List, h, v int64) {
					if sid {
						if h >= 0 && h <= 35 && v != h {
							return // the spatial variant has a single zoom
						}
						emit("ConvertQuadkeysAndVerticalIDsToSpatialIDs", tg, false, l, w.I(h))
						return
					}
					emit(fn, tg, false, l, w.I(h), w.I(v))
				}
				if sid {
					tags = append(tags, "sid")
				}
				call(tags, items, outH, outV)
				if g.Chance(0.25) {
					st := append(tags, "seq")
					sq = &seqBuilder{}
					call(st, items, outH, outV)
					call(st, items, outH, 0)
					call(st, items, outH, outV)
					call(st, items, outH, outV) // identical, twice in a row
					{                           // invalid neighbours built from the same elements: reversed heights, an index beyond 2^(vz+1), then the valid call again
						e := its[0]
						if e.mx > e.mn {
							revd := append(w.List{w.L(w.I(e.qz), w.I(e.qk), w.I(e.vz), w.I(e.k), w.F(e.mn), w.F(e.mx))}, items[1:]...)
							big := append(w.List{w.L(w.I(e.qz), w.I(e.qk), w.I(e.vz), w.I((int64(2)<<uint(e.vz))+3), w.F(e.mx), w.F(e.mn))}, items[1:]...)
							call(st, revd, outH, outV)
							call(st, revd, outH, outV)
							call(st, items, outH, outV)
							call(st, big, outH, outV)
							call(st, items, outH, outV)
							if len(items) > 1 {
								call(st, items[:1], outH, outV)
								call(st, items, outH, outV)
							}
						}
					}
					// the first element with a narrower range (one bound changed), then the original call again
					e := its[0]
					if e.mx > e.mn {
						alt := w.List{}
						alt = append(alt, w.L(w.I(e.qz), w.I(e.qk), w.I(e.vz), w.I(e.k), w.F(e.mx), w.F(e.mn+(e.mx-e.mn)*g.R.Float64()*0.5)))
						alt = append(alt, items[1:]...)
						call(st, alt, outH, outV)
						alt2 := w.List{}
						alt2 = append(alt2, w.L(w.I(e.qz), w.I(e.qk), w.I(e.vz), w.I(e.k), w.F(e.mx-(e.mx-e.mn)*g.R.Float64()*0.5), w.F(e.mn)))
						alt2 = append(alt2, items[1:]...)
						call(st, alt2, outH, outV)
						if outV > 0 && !sid {
							call(st, items, outH, outV-1)
						}
						call(st, items, outH, outV)
					}
					flush(st)
				}
			}
		}
	}
}

func sign(f int64) int {
	if f < 0 {
		return -1
	}
	if f > 0 {
		return 1
	}
	return 0
}
