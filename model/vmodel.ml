(* vmodel — line-protocol driver around the extracted Coq model (Model.dispatch).
   Trusted glue: parsing/printing of the wire syntax and conversion Z <-> zarith, string <-> char list, float <-> bits. *)
let rec pos_of_z n =
  if Z.equal n Z.one then Model.XH
  else if Z.is_even n then Model.XO (pos_of_z (Z.shift_right n 1))
  else Model.XI (pos_of_z (Z.shift_right n 1))
let coq_of_z n =
  if Z.sign n = 0 then Model.Z0
  else if Z.sign n > 0 then Model.Zpos (pos_of_z n) else Model.Zneg (pos_of_z (Z.neg n))
let rec z_of_pos = function
  | Model.XH -> Z.one
  | Model.XO p -> Z.shift_left (z_of_pos p) 1
  | Model.XI p -> Z.succ (Z.shift_left (z_of_pos p) 1)
let z_of_coq = function Model.Z0 -> Z.zero | Model.Zpos p -> z_of_pos p | Model.Zneg p -> Z.neg (z_of_pos p)
let explode s = List.init (String.length s) (String.get s)
let implode l = let b = Buffer.create 16 in List.iter (Buffer.add_char b) l; Buffer.contents b
let unesc s =
  let b = Buffer.create (String.length s) in
  let i = ref 0 in
  while !i < String.length s do
    if s.[!i] = '%' then (Buffer.add_char b (Char.chr (int_of_string ("0x" ^ String.sub s (!i + 1) 2))); i := !i + 3)
    else (Buffer.add_char b s.[!i]; incr i)
  done;
  Buffer.contents b
let esc s =
  let b = Buffer.create (String.length s) in
  String.iter (fun c ->
      if c = '%' || c = ' ' || c = '(' || c = ')' || Char.code c >= 0x7f || Char.code c <= 0x20
      then Buffer.add_string b (Printf.sprintf "%%%02X" (Char.code c))
      else Buffer.add_char b c) s;
  Buffer.contents b
let float_of_hex s = Float64.of_float (Int64.float_of_bits (Int64.of_string ("0x" ^ s)))
let hex_of_float f = Printf.sprintf "%016Lx" (Int64.bits_of_float (Float64.to_float f))

exception Bad of string
(* parse one value from a token list *)
let rec pval toks =
  match toks with
  | [] -> raise (Bad "eof")
  | t :: r ->
    if t = "(" then plist r []
    else if t = "E" then let v, r' = pval r in (Model.VE v, r')
    else if t = "N" then (Model.VNil, r)
    else if t = "P" then (Model.VPanic, r)
    else if t = "T" then (Model.VTimeout, r)
    else if t = "" then raise (Bad "empty token")
    else
      let body = String.sub t 1 (String.length t - 1) in
      (match t.[0] with
       | 'i' -> (Model.VZ (coq_of_z (Z.of_string body)), r)
       | 's' -> (Model.VS (explode (unesc body)), r)
       | 'f' -> (Model.VF (float_of_hex body), r)
       | 'b' -> (Model.VB (body = "1"), r)
       | _ -> raise (Bad ("token " ^ t)))
and plist toks acc =
  match toks with
  | ")" :: r -> (Model.VL (List.rev acc), r)
  | _ -> let v, r = pval toks in plist r (v :: acc)

let rec sval b v =
  match v with
  | Model.VZ z -> Buffer.add_char b 'i'; Buffer.add_string b (Z.to_string (z_of_coq z))
  | Model.VS s -> Buffer.add_char b 's'; Buffer.add_string b (esc (implode s))
  | Model.VF f -> Buffer.add_char b 'f'; Buffer.add_string b (hex_of_float f)
  | Model.VB x -> Buffer.add_string b (if x then "b1" else "b0")
  | Model.VL l -> Buffer.add_char b '('; List.iter (fun x -> Buffer.add_char b ' '; sval b x) l; Buffer.add_string b " )"
  | Model.VE x -> Buffer.add_string b "E "; sval b x
  | Model.VNil -> Buffer.add_char b 'N'
  | Model.VPanic -> Buffer.add_char b 'P'
  | Model.VTimeout -> Buffer.add_char b 'T'
let show v = let b = Buffer.create 64 in sval b v; Buffer.contents b

let queries = ref 0
let oracle name args =
  incr queries;
  print_string ("? " ^ esc (implode name) ^ " " ^ show (Model.VL args) ^ "\n");
  flush stdout;
  let l = input_line stdin in
  match String.split_on_char ' ' l with
  | "=" :: toks -> fst (pval toks)
  | _ -> Model.VPanic

let () =
  try
    while true do
      let l = input_line stdin in
      match String.split_on_char ' ' l with
      | [ "END" ] -> exit 0
      | "C" :: id :: prop :: fn :: rest ->
        (try
           let args, r = pval rest in
           let obs, _ = pval r in
           let args = (match args with Model.VL a -> a | _ -> raise (Bad "args")) in
           queries := 0;
           let v = Model.dispatch oracle (explode prop) (explode (unesc fn)) args obs in
           Printf.printf "R %s %d %d %s %d %s\n" id
             (if v.Model.v_corr then 1 else 0) (if v.Model.v_prop then 1 else 0)
             (esc (implode v.Model.v_class)) !queries (show v.Model.v_model)
         with
         | Bad m -> Printf.printf "X %s bad-input %s\n" id (esc m)
         | Stack_overflow -> Printf.printf "X %s stack-overflow\n" id
         | Out_of_memory -> Printf.printf "X %s out-of-memory\n" id);
        flush stdout
      | _ -> Printf.printf "X - bad-line\n"; flush stdout
    done
  with End_of_file -> ()
