From Coq Require Import Extraction ExtrOcamlBasic ExtrOcamlString ExtrOCamlFloats ExtrOCamlInt63.
From SID Require Import Dispatch.
Extraction Language OCaml.
Extraction "Model.ml" Dispatch.dispatch.
