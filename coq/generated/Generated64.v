(* Generated64.v — written by vtrans (harness/cmd/vtrans, int64.go) from the Go source tree. DO NOT EDIT: bin/check regenerates this file.
   The integer kernels of Generated.v once more, with Go's int64 semantics explicit (vocabulary: coq/theories/I64.v): + - * / % << >> and unary - are
   add64 sub64 mul64 quot64 rem64 shl64 shr64 neg64, int64(math.Pow(2, float64(e))) = pow2_64 e (pow2abs_64 with math.Abs); a definition is a
   computation M (result) = option (result * bool): None = run-time panic, the flag = no operation left the int64 range.
   Source files (relative to the repository root) and their SHA-256:
     251643af2e415f433ead1874a34bff4ba5dd8103db138a6e17043df9098d6d4a  common/consts/consts.go
     ab248a0436d3ccd9c4ec7788de5265112ddbcb2db8a3d58fa9ae15f05c8799de  common/object/spatial_id.go
     8952ce9a88602c3577a2c7359550e7fdc2539a557b95c43c0851b3fac5101fc3  common/util.go
     989c360a64663db9ffa6ca74ba973c95de3fef8d312e50766d26f0f2e8b2e05f  integrate/change_zoom.go
     fa85860ba1153c7b845f9be7470795f14647447237fae8b03ea1f23e47ae8ead  integrate/merge_zoom.go
     a7b52779d0e746dc0273ec11ba62cf1dc67176bcb8c1cbb57475aa9f12d7e308  shape/point.go
     97a8d24c37ca0c2a52f8db27c86a4726cb022e2313bdb9af41f2881bc6c919a8  transform/convert_quadkey_and_Vertical_id.go
*)
From Coq Require Import ZArith Bool.
From SID Require Import I64.
Open Scope Z_scope.

(* ---- constants referred to by the functions below ---- *)
Definition ZOriginValue : Z := 25. (* common/consts.ZOriginValue *)

(* ---- functions (callees first) ---- *)
(* common.CalculateArithmeticShift  [common/util.go] *)
Definition CalculateArithmeticShift (v_index : Z) (v_shift : Z) : (M Z) :=
if (Z.geb v_shift 0)
then (t1 <- (shl64 v_index v_shift) ;;
(ret t1))
else (t3 <- (t2 <- (neg64 v_shift) ;; shr64 v_index t2) ;;
(ret t3)).

(* shape.CheckZoom  [shape/point.go] *)
Definition CheckZoom (v_zoom : Z) : (M bool) :=
(ret (andb (Z.leb 0 v_zoom) (Z.leb v_zoom 35))).

(* transform.quadkeyCheckZoom  [transform/convert_quadkey_and_Vertical_id.go] *)
Definition quadkeyCheckZoom (v_hZoom : Z) (v_vZoom : Z) : (M bool) :=
(ret (andb (andb (Z.leb 1 v_hZoom) (Z.leb v_hZoom 31)) (andb (Z.leb 0 v_vZoom) (Z.leb v_vZoom 35)))).

(* transform.extendedSpatialIDCheckZoom  [transform/convert_quadkey_and_Vertical_id.go] *)
Definition extendedSpatialIDCheckZoom (v_hZoom : Z) (v_vZoom : Z) : (M bool) :=
(ret (andb (andb (Z.leb 0 v_hZoom) (Z.leb v_hZoom 35)) (andb (Z.leb 0 v_vZoom) (Z.leb v_vZoom 35)))).

(* transform.validateIndexExists  [transform/convert_quadkey_and_Vertical_id.go] *)
Definition validateIndexExists (v_inputIndex : Z) (v_inputZoom : Z) (v_minValueIsNegative : bool) : (M (bool * bool)%type) :=
v_inputResolution <- (CalculateArithmeticShift 1 v_inputZoom) ;;
v_maxInputIndex <- (sub64 v_inputResolution 1) ;;
let v_minInputIndex := 0 in
if v_minValueIsNegative
then (v_minInputIndex <- (neg64 v_inputResolution) ;;
if (orb (Z.gtb v_inputIndex v_maxInputIndex) (Z.ltb v_inputIndex v_minInputIndex))
then ((ret (true, false)))
else ((ret (false, true))))
else (let v_minInputIndex := 0 in
if (orb (Z.gtb v_inputIndex v_maxInputIndex) (Z.ltb v_inputIndex v_minInputIndex))
then ((ret (true, false)))
else ((ret (false, true)))).

(* transform.convertZToMinAltitudekey  [transform/convert_quadkey_and_Vertical_id.go] *)
Definition convertZToMinAltitudekey (v_inputIndex : Z) (v_inputZoom : Z) (v_outputZoom : Z) (v_zBaseExponent : Z) (v_zBaseOffset : Z) : (M (Z * bool)%type) :=
'(v_err, v_ok) <- (validateIndexExists v_inputIndex v_inputZoom true) ;;
if (negb v_ok)
then ((ret (0, v_err)))
else (v_outputIndex <- (t2 <- (t1 <- (sub64 v_inputZoom ZOriginValue) ;; neg64 t1) ;; (CalculateArithmeticShift v_inputIndex t2)) ;;
v_outputIndex <- (add64 v_outputIndex v_zBaseOffset) ;;
v_outputIndex <- (t3 <- (sub64 v_outputZoom v_zBaseExponent) ;; (CalculateArithmeticShift v_outputIndex t3)) ;;
'(_, v_ok) <- (validateIndexExists v_outputIndex v_outputZoom false) ;;
if (negb v_ok)
then ((ret (0, true)))
else ((ret (v_outputIndex, false)))).

(* transform.ConvertZToMinMaxAltitudekey  [transform/convert_quadkey_and_Vertical_id.go] *)
Definition ConvertZToMinMaxAltitudekey (v_inputIndex : Z) (v_inputZoom : Z) (v_outputZoom : Z) (v_zBaseExponent : Z) (v_zBaseOffset : Z) : (M (Z * Z * bool)%type) :=
let v_minAltitudeKey := 0 in
let v_maxAltitudeKey := 0 in
let v_err := false in
t20 <- (t3 <- (t1 <- (CheckZoom v_inputZoom) ;; ret (negb t1)) ;; or64 t3 (t2 <- (CheckZoom v_outputZoom) ;; ret (negb t2))) ;;
if t20
then ((ret (0, 0, true)))
else ('(v_err, v_ok) <- (validateIndexExists v_inputIndex v_inputZoom true) ;;
if (negb v_ok)
then ((ret (0, 0, v_err)))
else (v_fraction <- (sub64 v_inputZoom ZOriginValue) ;;
if (Z.ltb v_fraction 0)
then (let v_fraction := 0 in
v_toUnit <- (t4 <- (sub64 ZOriginValue v_inputZoom) ;; add64 t4 v_fraction) ;;
v_lower <- (CalculateArithmeticShift v_inputIndex v_toUnit) ;;
v_upper <- (t5 <- (add64 v_inputIndex 1) ;; (CalculateArithmeticShift t5 v_toUnit)) ;;
v_offset <- (CalculateArithmeticShift v_zBaseOffset v_fraction) ;;
v_toKey <- (t6 <- (sub64 v_outputZoom v_zBaseExponent) ;; sub64 t6 v_fraction) ;;
v_minAltitudeKey <- (t7 <- (add64 v_lower v_offset) ;; (CalculateArithmeticShift t7 v_toKey)) ;;
v_maxAltitudeKey <- (t11 <- (t10 <- (t9 <- (t8 <- (add64 v_upper v_offset) ;; neg64 t8) ;; (CalculateArithmeticShift t9 v_toKey)) ;; neg64 t10) ;; sub64 t11 1) ;;
'(_, v_ok) <- (validateIndexExists v_minAltitudeKey v_outputZoom false) ;;
if v_ok
then ('(_, v_ok) <- (validateIndexExists v_maxAltitudeKey v_outputZoom false) ;;
if (negb v_ok)
then ((ret (0, 0, true)))
else ((ret (v_minAltitudeKey, v_maxAltitudeKey, false))))
else (if (negb v_ok)
then ((ret (0, 0, true)))
else ((ret (v_minAltitudeKey, v_maxAltitudeKey, false)))))
else (v_toUnit <- (t12 <- (sub64 ZOriginValue v_inputZoom) ;; add64 t12 v_fraction) ;;
v_lower <- (CalculateArithmeticShift v_inputIndex v_toUnit) ;;
v_upper <- (t13 <- (add64 v_inputIndex 1) ;; (CalculateArithmeticShift t13 v_toUnit)) ;;
v_offset <- (CalculateArithmeticShift v_zBaseOffset v_fraction) ;;
v_toKey <- (t14 <- (sub64 v_outputZoom v_zBaseExponent) ;; sub64 t14 v_fraction) ;;
v_minAltitudeKey <- (t15 <- (add64 v_lower v_offset) ;; (CalculateArithmeticShift t15 v_toKey)) ;;
v_maxAltitudeKey <- (t19 <- (t18 <- (t17 <- (t16 <- (add64 v_upper v_offset) ;; neg64 t16) ;; (CalculateArithmeticShift t17 v_toKey)) ;; neg64 t18) ;; sub64 t19 1) ;;
'(_, v_ok) <- (validateIndexExists v_minAltitudeKey v_outputZoom false) ;;
if v_ok
then ('(_, v_ok) <- (validateIndexExists v_maxAltitudeKey v_outputZoom false) ;;
if (negb v_ok)
then ((ret (0, 0, true)))
else ((ret (v_minAltitudeKey, v_maxAltitudeKey, false))))
else (if (negb v_ok)
then ((ret (0, 0, true)))
else ((ret (v_minAltitudeKey, v_maxAltitudeKey, false))))))).

(* transform.ConvertAltitudekeyToMinMaxZ  [transform/convert_quadkey_and_Vertical_id.go] *)
Definition ConvertAltitudekeyToMinMaxZ (v_altitudekey : Z) (v_altitudekeyZoomLevel : Z) (v_outputZoom : Z) (v_zBaseExponent : Z) (v_zBaseOffset : Z) : (M (Z * Z * bool)%type) :=
t16 <- (t3 <- (t1 <- (CheckZoom v_altitudekeyZoomLevel) ;; ret (negb t1)) ;; or64 t3 (t2 <- (CheckZoom v_outputZoom) ;; ret (negb t2))) ;;
if t16
then ((ret (0, 0, true)))
else (v_inputResolution <- (CalculateArithmeticShift 1 v_altitudekeyZoomLevel) ;;
v_maxInputIndex <- (sub64 v_inputResolution 1) ;;
let v_minInputIndex := 0 in
if (orb (Z.gtb v_altitudekey v_maxInputIndex) (Z.ltb v_altitudekey v_minInputIndex))
then ((ret (0, 0, true)))
else (v_zoomDifference <- (sub64 v_zBaseExponent v_altitudekeyZoomLevel) ;;
v_internalMinIndex <- (CalculateArithmeticShift v_altitudekey v_zoomDifference) ;;
let v_internalMaxIndex := v_internalMinIndex in
if (Z.gtb v_zoomDifference 0)
then (v_internalMaxIndex <- (t5 <- (t4 <- (add64 v_altitudekey 1) ;; (CalculateArithmeticShift t4 v_zoomDifference)) ;; sub64 t5 1) ;;
v_outputZoomDifference <- (sub64 v_outputZoom ZOriginValue) ;;
v_outputMinIndex <- (t6 <- (sub64 v_internalMinIndex v_zBaseOffset) ;; (CalculateArithmeticShift t6 v_outputZoomDifference)) ;;
v_outputMaxIndex <- (t7 <- (sub64 v_internalMaxIndex v_zBaseOffset) ;; (CalculateArithmeticShift t7 v_outputZoomDifference)) ;;
if (Z.gtb v_outputZoomDifference 0)
then (v_outputMaxIndex <- (t10 <- (t9 <- (t8 <- (sub64 v_internalMaxIndex v_zBaseOffset) ;; add64 t8 1) ;; (CalculateArithmeticShift t9 v_outputZoomDifference)) ;; sub64 t10 1) ;;
v_outputResolution <- (CalculateArithmeticShift 1 v_outputZoom) ;;
v_maxOutputIndex <- (sub64 v_outputResolution 1) ;;
v_minOutputIndex <- (neg64 v_outputResolution) ;;
if (orb (Z.gtb v_outputMaxIndex v_maxOutputIndex) (Z.ltb v_outputMinIndex v_minOutputIndex))
then ((ret (0, 0, true)))
else ((ret (v_outputMinIndex, v_outputMaxIndex, false))))
else (v_outputResolution <- (CalculateArithmeticShift 1 v_outputZoom) ;;
v_maxOutputIndex <- (sub64 v_outputResolution 1) ;;
v_minOutputIndex <- (neg64 v_outputResolution) ;;
if (orb (Z.gtb v_outputMaxIndex v_maxOutputIndex) (Z.ltb v_outputMinIndex v_minOutputIndex))
then ((ret (0, 0, true)))
else ((ret (v_outputMinIndex, v_outputMaxIndex, false)))))
else (v_outputZoomDifference <- (sub64 v_outputZoom ZOriginValue) ;;
v_outputMinIndex <- (t11 <- (sub64 v_internalMinIndex v_zBaseOffset) ;; (CalculateArithmeticShift t11 v_outputZoomDifference)) ;;
v_outputMaxIndex <- (t12 <- (sub64 v_internalMaxIndex v_zBaseOffset) ;; (CalculateArithmeticShift t12 v_outputZoomDifference)) ;;
if (Z.gtb v_outputZoomDifference 0)
then (v_outputMaxIndex <- (t15 <- (t14 <- (t13 <- (sub64 v_internalMaxIndex v_zBaseOffset) ;; add64 t13 1) ;; (CalculateArithmeticShift t14 v_outputZoomDifference)) ;; sub64 t15 1) ;;
v_outputResolution <- (CalculateArithmeticShift 1 v_outputZoom) ;;
v_maxOutputIndex <- (sub64 v_outputResolution 1) ;;
v_minOutputIndex <- (neg64 v_outputResolution) ;;
if (orb (Z.gtb v_outputMaxIndex v_maxOutputIndex) (Z.ltb v_outputMinIndex v_minOutputIndex))
then ((ret (0, 0, true)))
else ((ret (v_outputMinIndex, v_outputMaxIndex, false))))
else (v_outputResolution <- (CalculateArithmeticShift 1 v_outputZoom) ;;
v_maxOutputIndex <- (sub64 v_outputResolution 1) ;;
v_minOutputIndex <- (neg64 v_outputResolution) ;;
if (orb (Z.gtb v_outputMaxIndex v_maxOutputIndex) (Z.ltb v_outputMinIndex v_minOutputIndex))
then ((ret (0, 0, true)))
else ((ret (v_outputMinIndex, v_outputMaxIndex, false))))))).

(* integrate.HorizontalZoomMinMax  [integrate/change_zoom.go] *)
Definition HorizontalZoomMinMax (v_inputZoom : Z) (v_xIndex : Z) (v_yIndex : Z) (v_outputZoom : Z) : (M (Z * Z * Z * Z)%type) :=
v_hZoomDiff <- (sub64 v_outputZoom v_inputZoom) ;;
let v_minXparam := v_xIndex in
let v_minYparam := v_yIndex in
let v_maxXparam := v_xIndex in
let v_maxYparam := v_yIndex in
v_hVoxelNum <- (pow2abs_64 v_hZoomDiff) ;;
if (Z.gtb v_hZoomDiff 0)
then (v_minXparam <- (mul64 v_xIndex v_hVoxelNum) ;;
v_minYparam <- (mul64 v_yIndex v_hVoxelNum) ;;
v_maxXparam <- (t1 <- (add64 v_minXparam v_hVoxelNum) ;; sub64 t1 1) ;;
v_maxYparam <- (t2 <- (add64 v_minYparam v_hVoxelNum) ;; sub64 t2 1) ;;
(ret (v_minXparam, v_minYparam, v_maxXparam, v_maxYparam)))
else (if (Z.ltb v_hZoomDiff 0)
then (v_minXparam <- (quot64 v_xIndex v_hVoxelNum) ;;
v_minYparam <- (quot64 v_yIndex v_hVoxelNum) ;;
let v_maxXparam := v_minXparam in
let v_maxYparam := v_minYparam in
(ret (v_minXparam, v_minYparam, v_maxXparam, v_maxYparam)))
else ((ret (v_minXparam, v_minYparam, v_maxXparam, v_maxYparam)))).

(* integrate.VerticalZoom  [integrate/change_zoom.go] — the statements before the result loop; value = (first, last) of `for v := first; v <= last; v++` *)
Definition VerticalZoom_minmax (v_inputZoom : Z) (v_vIndex : Z) (v_outputZoom : Z) : (M (Z * Z)%type) :=
v_vZoomDiff <- (sub64 v_outputZoom v_inputZoom) ;;
let v_minVparam := v_vIndex in
let v_maxVparam := v_vIndex in
v_vVoxelNum <- (pow2abs_64 v_vZoomDiff) ;;
if (Z.gtb v_vZoomDiff 0)
then (v_minVparam <- (mul64 v_vIndex v_vVoxelNum) ;;
v_maxVparam <- (t1 <- (add64 v_minVparam v_vVoxelNum) ;; sub64 t1 1) ;;
(ret (v_minVparam, v_maxVparam)))
else (if (Z.ltb v_vZoomDiff 0)
then (v_minVparam <- (CalculateArithmeticShift v_vIndex v_vZoomDiff) ;;
let v_maxVparam := v_minVparam in
(ret (v_minVparam, v_maxVparam)))
else ((ret (v_minVparam, v_maxVparam)))).

(* common/object.ExtendedSpatialID.Higher  [common/object/spatial_id.go] *)
Definition ExtendedSpatialID_Higher (v_s_hZoom : Z) (v_s_x : Z) (v_s_y : Z) (v_s_vZoom : Z) (v_s_z : Z) (v_hDiff : Z) (v_vDiff : Z) : (M (Z * Z * Z * Z * Z)%type) :=
v_hZoom <- (sub64 v_s_hZoom v_hDiff) ;;
v_vZoom <- (sub64 v_s_vZoom v_vDiff) ;;
v_hDiv <- (pow2_64 v_hDiff) ;;
v_x <- (quot64 v_s_x v_hDiv) ;;
v_y <- (quot64 v_s_y v_hDiv) ;;
v_z <- (shr64u v_s_z v_vDiff) ;;
(ret (v_hZoom, v_x, v_y, v_vZoom, v_z)).

(* ---- values found by their role in the function ---- *)
(* integrate.NewHighSpatialID (value threshold)  [integrate/merge_zoom.go] — the value of the field threshold of the returned composite literal (`threshold`) just before that statement *)
Definition NewHighSpatialID_threshold (v_u_hDiff : Z) (v_u_vDiff : Z) (v_hDiff : Z) (v_vDiff : Z) : (M Z) :=
v_hDiffIndex <- (t1 <- (add64 v_hDiff v_u_hDiff) ;; pow2_64 t1) ;;
v_vDiffIndex <- (t2 <- (add64 v_vDiff v_u_vDiff) ;; pow2_64 t2) ;;
v_threshold <- (t3 <- (mul64 v_hDiffIndex v_hDiffIndex) ;; mul64 t3 v_vDiffIndex) ;;
(ret v_threshold).

(* transform.convertHorizontalIDToQuadkey  [transform/convert_quadkey_and_Vertical_id.go] — the condition of the function's 1. top-level for loop *)
Definition convertHorizontalIDToQuadkey_condX (v_quadkey : Z) (v_i : Z) (v_xIndexTmp : Z) (v_hZoom : Z) : (M bool) :=
(ret (andb (Z.gtb v_xIndexTmp 0) (Z.ltb v_i v_hZoom))).

(* transform.convertHorizontalIDToQuadkey  [transform/convert_quadkey_and_Vertical_id.go] — one pass through the body of the function's 1. top-level for loop and its post statement: the new values of (quadkey, i, xIndexTmp) *)
Definition convertHorizontalIDToQuadkey_stepX (v_quadkey : Z) (v_i : Z) (v_xIndexTmp : Z) (v_hZoom : Z) : (M (Z * Z * Z)%type) :=
v_mx <- (rem64 v_xIndexTmp 2) ;;
let v_x := v_mx in
v_xIndexTmp <- (quot64 v_xIndexTmp 2) ;;
v_quadkey <- (t2 <- (t1 <- (mul64 v_i 2) ;; shl64 v_x t1) ;; add64 v_quadkey t2) ;;
v_i <- (add64 v_i 1) ;;
(ret (v_quadkey, v_i, v_xIndexTmp)).

(* transform.convertHorizontalIDToQuadkey  [transform/convert_quadkey_and_Vertical_id.go] — the condition of the function's 2. top-level for loop *)
Definition convertHorizontalIDToQuadkey_condY (v_quadkey : Z) (v_i : Z) (v_yIndexTmp : Z) (v_hZoom : Z) : (M bool) :=
(ret (andb (Z.gtb v_yIndexTmp 0) (Z.ltb v_i v_hZoom))).

(* transform.convertHorizontalIDToQuadkey  [transform/convert_quadkey_and_Vertical_id.go] — one pass through the body of the function's 2. top-level for loop and its post statement: the new values of (quadkey, i, yIndexTmp) *)
Definition convertHorizontalIDToQuadkey_stepY (v_quadkey : Z) (v_i : Z) (v_yIndexTmp : Z) (v_hZoom : Z) : (M (Z * Z * Z)%type) :=
v_my <- (rem64 v_yIndexTmp 2) ;;
v_y <- (mul64 v_my 2) ;;
v_yIndexTmp <- (quot64 v_yIndexTmp 2) ;;
v_quadkey <- (t2 <- (t1 <- (mul64 v_i 2) ;; shl64 v_y t1) ;; add64 v_quadkey t2) ;;
v_i <- (add64 v_i 1) ;;
(ret (v_quadkey, v_i, v_yIndexTmp)).

(* every definition of this file, for `autounfold with sidgen64` *)
Create HintDb sidgen64.
#[global] Hint Unfold CalculateArithmeticShift : sidgen64.
#[global] Hint Unfold CheckZoom : sidgen64.
#[global] Hint Unfold quadkeyCheckZoom : sidgen64.
#[global] Hint Unfold extendedSpatialIDCheckZoom : sidgen64.
#[global] Hint Unfold validateIndexExists : sidgen64.
#[global] Hint Unfold ZOriginValue : sidgen64.
#[global] Hint Unfold convertZToMinAltitudekey : sidgen64.
#[global] Hint Unfold ConvertZToMinMaxAltitudekey : sidgen64.
#[global] Hint Unfold ConvertAltitudekeyToMinMaxZ : sidgen64.
#[global] Hint Unfold HorizontalZoomMinMax : sidgen64.
#[global] Hint Unfold VerticalZoom_minmax : sidgen64.
#[global] Hint Unfold ExtendedSpatialID_Higher : sidgen64.
#[global] Hint Unfold NewHighSpatialID_threshold : sidgen64.
#[global] Hint Unfold convertHorizontalIDToQuadkey_condX : sidgen64.
#[global] Hint Unfold convertHorizontalIDToQuadkey_stepX : sidgen64.
#[global] Hint Unfold convertHorizontalIDToQuadkey_condY : sidgen64.
#[global] Hint Unfold convertHorizontalIDToQuadkey_stepY : sidgen64.
