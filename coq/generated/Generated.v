(* Generated.v — written by vtrans (harness/cmd/vtrans) from the Go source tree. DO NOT EDIT: bin/check regenerates this file.
   Go int64 = Z; `/` = Z.quot, `%` = Z.rem, `<<` = Z.shiftl, `>>` = Z.shiftr; an `error` result is a bool (true = non-nil);
   int64(math.Pow(B, float64(e))) = B ^ e; math.Abs(float64(e)) = Z.abs e; a floating-point constant is the exact decimal (m, e) = m * 10^e.
   Source files (relative to the repository root) and their SHA-256:
     251643af2e415f433ead1874a34bff4ba5dd8103db138a6e17043df9098d6d4a  common/consts/consts.go
     5a05c876f247a3c94d3b0dc18bd3945f9bb3355a69aaa75c88d20f3a4c658202  common/object/coordinate.go
     ab248a0436d3ccd9c4ec7788de5265112ddbcb2db8a3d58fa9ae15f05c8799de  common/object/spatial_id.go
     8952ce9a88602c3577a2c7359550e7fdc2539a557b95c43c0851b3fac5101fc3  common/util.go
     989c360a64663db9ffa6ca74ba973c95de3fef8d312e50766d26f0f2e8b2e05f  integrate/change_zoom.go
     fa85860ba1153c7b845f9be7470795f14647447237fae8b03ea1f23e47ae8ead  integrate/merge_zoom.go
     8dac45b8dd30d5efb41249df0231397e85ae7ade5c7cbccf111382311450ffc4  shape/line.go
     a7b52779d0e746dc0273ec11ba62cf1dc67176bcb8c1cbb57475aa9f12d7e308  shape/point.go
     97a8d24c37ca0c2a52f8db27c86a4726cb022e2313bdb9af41f2881bc6c919a8  transform/convert_quadkey_and_Vertical_id.go
*)
From Coq Require Import ZArith Bool.
Open Scope Z_scope.

(* ---- constants ---- *)
Definition GeoCrs : Z := 4326. (* common/consts.GeoCrs *)
Definition OrthCrs : Z := 3857. (* common/consts.OrthCrs *)
Definition SpatialIDDelimiter : list Z := (cons 47 nil). (* the bytes of the string constant common/consts.SpatialIDDelimiter *)
Definition ZOriginValue : Z := 25. (* common/consts.ZOriginValue *)
Definition Minima : (Z * Z)%type := (1, (-10)). (* decimal: (m, e) stands for m * 10^e; common/consts.Minima *)
Definition MaxTileXYZZoom : Z := 35. (* common/consts.MaxTileXYZZoom *)
Definition InnerIDQuadkeyIndex : Z := 0. (* common/consts.InnerIDQuadkeyIndex *)
Definition InnerIDAltitudekeyIndex : Z := 1. (* common/consts.InnerIDAltitudekeyIndex *)
Definition ZBaseOffsetForNegativeFIndex : Z := (Z.shiftl 1 (Z.sub ZOriginValue 1)). (* common/consts.ZBaseOffsetForNegativeFIndex *)
Definition LonMinima : (Z * Z)%type := (2, (-8)). (* decimal: (m, e) stands for m * 10^e; shape.LonMinima *)
Definition LatMinima : (Z * Z)%type := (2, (-8)). (* decimal: (m, e) stands for m * 10^e; shape.LatMinima *)
Definition AltMinima : (Z * Z)%type := (3, (-3)). (* decimal: (m, e) stands for m * 10^e; shape.AltMinima *)
Definition HightZoomLonMinima : (Z * Z)%type := (5, (-9)). (* decimal: (m, e) stands for m * 10^e; shape.HightZoomLonMinima *)
Definition HightZoomLatMinima : (Z * Z)%type := (5, (-10)). (* decimal: (m, e) stands for m * 10^e; shape.HightZoomLatMinima *)
Definition HightZoomAltMinima : (Z * Z)%type := (5, (-4)). (* decimal: (m, e) stands for m * 10^e; shape.HightZoomAltMinima *)
Definition LineSwitch_hZoom : Z := 31. (* shape.GetExtendedSpatialIdsOnLine: the high-zoom thresholds are used when hZoom >= this value *)
Definition LineSwitch_vZoom : Z := 34. (* shape.GetExtendedSpatialIdsOnLine: the high-zoom thresholds are used when vZoom >= this value *)
Definition SetLat_limit : (Z * Z)%type := (850511287798, (-10)). (* decimal: (m, e) stands for m * 10^e; common/object.Point.SetLat: error when math.Abs(lat) > this literal *)
Definition SetLat_scale : Z := (Z.pow 10 10). (* common/object.Point.SetLat: the 4 occurrences of math.Pow(..) used to cut the latitude *)
Definition QuadkeyZoom_hZoom_min : Z := 1. (* transform.quadkeyCheckZoom: smallest accepted hZoom *)
Definition QuadkeyZoom_hZoom_max : Z := 31. (* transform.quadkeyCheckZoom: largest accepted hZoom *)
Definition QuadkeyZoom_vZoom_min : Z := 0. (* transform.quadkeyCheckZoom: smallest accepted vZoom *)
Definition QuadkeyZoom_vZoom_max : Z := 35. (* transform.quadkeyCheckZoom: largest accepted vZoom *)

(* ---- functions (callees first) ---- *)
(* common.CalculateArithmeticShift  [common/util.go] *)
Definition CalculateArithmeticShift (v_index : Z) (v_shift : Z) : Z :=
if (Z.geb v_shift 0)
then ((Z.shiftl v_index v_shift))
else ((Z.shiftr v_index (Z.opp v_shift))).

(* shape.CheckZoom  [shape/point.go] *)
Definition CheckZoom (v_zoom : Z) : bool :=
(andb (Z.leb 0 v_zoom) (Z.leb v_zoom 35)).

(* transform.quadkeyCheckZoom  [transform/convert_quadkey_and_Vertical_id.go] *)
Definition quadkeyCheckZoom (v_hZoom : Z) (v_vZoom : Z) : bool :=
(andb (andb (Z.leb 1 v_hZoom) (Z.leb v_hZoom 31)) (andb (Z.leb 0 v_vZoom) (Z.leb v_vZoom 35))).

(* transform.extendedSpatialIDCheckZoom  [transform/convert_quadkey_and_Vertical_id.go] *)
Definition extendedSpatialIDCheckZoom (v_hZoom : Z) (v_vZoom : Z) : bool :=
(andb (andb (Z.leb 0 v_hZoom) (Z.leb v_hZoom 35)) (andb (Z.leb 0 v_vZoom) (Z.leb v_vZoom 35))).

(* transform.validateIndexExists  [transform/convert_quadkey_and_Vertical_id.go] *)
Definition validateIndexExists (v_inputIndex : Z) (v_inputZoom : Z) (v_minValueIsNegative : bool) : (bool * bool)%type :=
let v_inputResolution := (CalculateArithmeticShift 1 v_inputZoom) in
let v_maxInputIndex := (Z.sub v_inputResolution 1) in
let v_minInputIndex := 0 in
if v_minValueIsNegative
then (let v_minInputIndex := (Z.opp v_inputResolution) in
if (orb (Z.gtb v_inputIndex v_maxInputIndex) (Z.ltb v_inputIndex v_minInputIndex))
then ((true, false))
else ((false, true)))
else (let v_minInputIndex := 0 in
if (orb (Z.gtb v_inputIndex v_maxInputIndex) (Z.ltb v_inputIndex v_minInputIndex))
then ((true, false))
else ((false, true))).

(* transform.convertZToMinAltitudekey  [transform/convert_quadkey_and_Vertical_id.go] *)
Definition convertZToMinAltitudekey (v_inputIndex : Z) (v_inputZoom : Z) (v_outputZoom : Z) (v_zBaseExponent : Z) (v_zBaseOffset : Z) : (Z * bool)%type :=
let '(v_err, v_ok) := (validateIndexExists v_inputIndex v_inputZoom true) in
if (negb v_ok)
then ((0, v_err))
else (let v_outputIndex := (CalculateArithmeticShift v_inputIndex (Z.opp (Z.sub v_inputZoom ZOriginValue))) in
let v_outputIndex := (Z.add v_outputIndex v_zBaseOffset) in
let v_outputIndex := (CalculateArithmeticShift v_outputIndex (Z.sub v_outputZoom v_zBaseExponent)) in
let '(_, v_ok) := (validateIndexExists v_outputIndex v_outputZoom false) in
if (negb v_ok)
then ((0, true))
else ((v_outputIndex, false))).

(* transform.ConvertZToMinMaxAltitudekey  [transform/convert_quadkey_and_Vertical_id.go] *)
Definition ConvertZToMinMaxAltitudekey (v_inputIndex : Z) (v_inputZoom : Z) (v_outputZoom : Z) (v_zBaseExponent : Z) (v_zBaseOffset : Z) : (Z * Z * bool)%type :=
let v_minAltitudeKey := 0 in
let v_maxAltitudeKey := 0 in
let v_err := false in
if (orb (negb (CheckZoom v_inputZoom)) (negb (CheckZoom v_outputZoom)))
then ((0, 0, true))
else (let '(v_err, v_ok) := (validateIndexExists v_inputIndex v_inputZoom true) in
if (negb v_ok)
then ((0, 0, v_err))
else (let v_fraction := (Z.sub v_inputZoom ZOriginValue) in
if (Z.ltb v_fraction 0)
then (let v_fraction := 0 in
let v_toUnit := (Z.add (Z.sub ZOriginValue v_inputZoom) v_fraction) in
let v_lower := (CalculateArithmeticShift v_inputIndex v_toUnit) in
let v_upper := (CalculateArithmeticShift (Z.add v_inputIndex 1) v_toUnit) in
let v_offset := (CalculateArithmeticShift v_zBaseOffset v_fraction) in
let v_toKey := (Z.sub (Z.sub v_outputZoom v_zBaseExponent) v_fraction) in
let v_minAltitudeKey := (CalculateArithmeticShift (Z.add v_lower v_offset) v_toKey) in
let v_maxAltitudeKey := (Z.sub (Z.opp (CalculateArithmeticShift (Z.opp (Z.add v_upper v_offset)) v_toKey)) 1) in
let '(_, v_ok) := (validateIndexExists v_minAltitudeKey v_outputZoom false) in
if v_ok
then (let '(_, v_ok) := (validateIndexExists v_maxAltitudeKey v_outputZoom false) in
if (negb v_ok)
then ((0, 0, true))
else ((v_minAltitudeKey, v_maxAltitudeKey, false)))
else (if (negb v_ok)
then ((0, 0, true))
else ((v_minAltitudeKey, v_maxAltitudeKey, false))))
else (let v_toUnit := (Z.add (Z.sub ZOriginValue v_inputZoom) v_fraction) in
let v_lower := (CalculateArithmeticShift v_inputIndex v_toUnit) in
let v_upper := (CalculateArithmeticShift (Z.add v_inputIndex 1) v_toUnit) in
let v_offset := (CalculateArithmeticShift v_zBaseOffset v_fraction) in
let v_toKey := (Z.sub (Z.sub v_outputZoom v_zBaseExponent) v_fraction) in
let v_minAltitudeKey := (CalculateArithmeticShift (Z.add v_lower v_offset) v_toKey) in
let v_maxAltitudeKey := (Z.sub (Z.opp (CalculateArithmeticShift (Z.opp (Z.add v_upper v_offset)) v_toKey)) 1) in
let '(_, v_ok) := (validateIndexExists v_minAltitudeKey v_outputZoom false) in
if v_ok
then (let '(_, v_ok) := (validateIndexExists v_maxAltitudeKey v_outputZoom false) in
if (negb v_ok)
then ((0, 0, true))
else ((v_minAltitudeKey, v_maxAltitudeKey, false)))
else (if (negb v_ok)
then ((0, 0, true))
else ((v_minAltitudeKey, v_maxAltitudeKey, false)))))).

(* transform.ConvertAltitudekeyToMinMaxZ  [transform/convert_quadkey_and_Vertical_id.go] *)
Definition ConvertAltitudekeyToMinMaxZ (v_altitudekey : Z) (v_altitudekeyZoomLevel : Z) (v_outputZoom : Z) (v_zBaseExponent : Z) (v_zBaseOffset : Z) : (Z * Z * bool)%type :=
if (orb (negb (CheckZoom v_altitudekeyZoomLevel)) (negb (CheckZoom v_outputZoom)))
then ((0, 0, true))
else (let v_inputResolution := (CalculateArithmeticShift 1 v_altitudekeyZoomLevel) in
let v_maxInputIndex := (Z.sub v_inputResolution 1) in
let v_minInputIndex := 0 in
if (orb (Z.gtb v_altitudekey v_maxInputIndex) (Z.ltb v_altitudekey v_minInputIndex))
then ((0, 0, true))
else (let v_zoomDifference := (Z.sub v_zBaseExponent v_altitudekeyZoomLevel) in
let v_internalMinIndex := (CalculateArithmeticShift v_altitudekey v_zoomDifference) in
let v_internalMaxIndex := v_internalMinIndex in
if (Z.gtb v_zoomDifference 0)
then (let v_internalMaxIndex := (Z.sub (CalculateArithmeticShift (Z.add v_altitudekey 1) v_zoomDifference) 1) in
let v_outputZoomDifference := (Z.sub v_outputZoom ZOriginValue) in
let v_outputMinIndex := (CalculateArithmeticShift (Z.sub v_internalMinIndex v_zBaseOffset) v_outputZoomDifference) in
let v_outputMaxIndex := (CalculateArithmeticShift (Z.sub v_internalMaxIndex v_zBaseOffset) v_outputZoomDifference) in
if (Z.gtb v_outputZoomDifference 0)
then (let v_outputMaxIndex := (Z.sub (CalculateArithmeticShift (Z.add (Z.sub v_internalMaxIndex v_zBaseOffset) 1) v_outputZoomDifference) 1) in
let v_outputResolution := (CalculateArithmeticShift 1 v_outputZoom) in
let v_maxOutputIndex := (Z.sub v_outputResolution 1) in
let v_minOutputIndex := (Z.opp v_outputResolution) in
if (orb (Z.gtb v_outputMaxIndex v_maxOutputIndex) (Z.ltb v_outputMinIndex v_minOutputIndex))
then ((0, 0, true))
else ((v_outputMinIndex, v_outputMaxIndex, false)))
else (let v_outputResolution := (CalculateArithmeticShift 1 v_outputZoom) in
let v_maxOutputIndex := (Z.sub v_outputResolution 1) in
let v_minOutputIndex := (Z.opp v_outputResolution) in
if (orb (Z.gtb v_outputMaxIndex v_maxOutputIndex) (Z.ltb v_outputMinIndex v_minOutputIndex))
then ((0, 0, true))
else ((v_outputMinIndex, v_outputMaxIndex, false))))
else (let v_outputZoomDifference := (Z.sub v_outputZoom ZOriginValue) in
let v_outputMinIndex := (CalculateArithmeticShift (Z.sub v_internalMinIndex v_zBaseOffset) v_outputZoomDifference) in
let v_outputMaxIndex := (CalculateArithmeticShift (Z.sub v_internalMaxIndex v_zBaseOffset) v_outputZoomDifference) in
if (Z.gtb v_outputZoomDifference 0)
then (let v_outputMaxIndex := (Z.sub (CalculateArithmeticShift (Z.add (Z.sub v_internalMaxIndex v_zBaseOffset) 1) v_outputZoomDifference) 1) in
let v_outputResolution := (CalculateArithmeticShift 1 v_outputZoom) in
let v_maxOutputIndex := (Z.sub v_outputResolution 1) in
let v_minOutputIndex := (Z.opp v_outputResolution) in
if (orb (Z.gtb v_outputMaxIndex v_maxOutputIndex) (Z.ltb v_outputMinIndex v_minOutputIndex))
then ((0, 0, true))
else ((v_outputMinIndex, v_outputMaxIndex, false)))
else (let v_outputResolution := (CalculateArithmeticShift 1 v_outputZoom) in
let v_maxOutputIndex := (Z.sub v_outputResolution 1) in
let v_minOutputIndex := (Z.opp v_outputResolution) in
if (orb (Z.gtb v_outputMaxIndex v_maxOutputIndex) (Z.ltb v_outputMinIndex v_minOutputIndex))
then ((0, 0, true))
else ((v_outputMinIndex, v_outputMaxIndex, false)))))).

(* integrate.HorizontalZoomMinMax  [integrate/change_zoom.go] *)
Definition HorizontalZoomMinMax (v_inputZoom : Z) (v_xIndex : Z) (v_yIndex : Z) (v_outputZoom : Z) : (Z * Z * Z * Z)%type :=
let v_hZoomDiff := (Z.sub v_outputZoom v_inputZoom) in
let v_minXparam := v_xIndex in
let v_minYparam := v_yIndex in
let v_maxXparam := v_xIndex in
let v_maxYparam := v_yIndex in
let v_hVoxelNum := (Z.pow 2 (Z.abs v_hZoomDiff)) in
if (Z.gtb v_hZoomDiff 0)
then (let v_minXparam := (Z.mul v_xIndex v_hVoxelNum) in
let v_minYparam := (Z.mul v_yIndex v_hVoxelNum) in
let v_maxXparam := (Z.sub (Z.add v_minXparam v_hVoxelNum) 1) in
let v_maxYparam := (Z.sub (Z.add v_minYparam v_hVoxelNum) 1) in
(v_minXparam, v_minYparam, v_maxXparam, v_maxYparam))
else (if (Z.ltb v_hZoomDiff 0)
then (let v_minXparam := (Z.quot v_xIndex v_hVoxelNum) in
let v_minYparam := (Z.quot v_yIndex v_hVoxelNum) in
let v_maxXparam := v_minXparam in
let v_maxYparam := v_minYparam in
(v_minXparam, v_minYparam, v_maxXparam, v_maxYparam))
else ((v_minXparam, v_minYparam, v_maxXparam, v_maxYparam))).

(* integrate.VerticalZoom  [integrate/change_zoom.go] — the statements before the result loop; value = (first, last) of `for v := first; v <= last; v++` *)
Definition VerticalZoom_minmax (v_inputZoom : Z) (v_vIndex : Z) (v_outputZoom : Z) : (Z * Z)%type :=
let v_vZoomDiff := (Z.sub v_outputZoom v_inputZoom) in
let v_minVparam := v_vIndex in
let v_maxVparam := v_vIndex in
let v_vVoxelNum := (Z.pow 2 (Z.abs v_vZoomDiff)) in
if (Z.gtb v_vZoomDiff 0)
then (let v_minVparam := (Z.mul v_vIndex v_vVoxelNum) in
let v_maxVparam := (Z.sub (Z.add v_minVparam v_vVoxelNum) 1) in
(v_minVparam, v_maxVparam))
else (if (Z.ltb v_vZoomDiff 0)
then (let v_minVparam := (CalculateArithmeticShift v_vIndex v_vZoomDiff) in
let v_maxVparam := v_minVparam in
(v_minVparam, v_maxVparam))
else ((v_minVparam, v_maxVparam))).

(* common/object.ExtendedSpatialID.Higher  [common/object/spatial_id.go] *)
Definition ExtendedSpatialID_Higher (v_s_hZoom : Z) (v_s_x : Z) (v_s_y : Z) (v_s_vZoom : Z) (v_s_z : Z) (v_hDiff : Z) (v_vDiff : Z) : (Z * Z * Z * Z * Z)%type :=
let v_hZoom := (Z.sub v_s_hZoom v_hDiff) in
let v_vZoom := (Z.sub v_s_vZoom v_vDiff) in
let v_hDiv := (Z.pow 2 v_hDiff) in
let v_x := (Z.quot v_s_x v_hDiv) in
let v_y := (Z.quot v_s_y v_hDiv) in
let v_z := (Z.shiftr v_s_z v_vDiff) in
(v_hZoom, v_x, v_y, v_vZoom, v_z).

(* ---- values found by their role in the function (see TRANSLATOR-NOTES.md) ---- *)
(* integrate.NewHighSpatialID (value threshold)  [integrate/merge_zoom.go] — the value of the field threshold of the returned composite literal (`threshold`) just before that statement *)
Definition NewHighSpatialID_threshold (v_u_hDiff : Z) (v_u_vDiff : Z) (v_hDiff : Z) (v_vDiff : Z) : Z :=
let v_hDiffIndex := (Z.pow 2 (Z.add v_hDiff v_u_hDiff)) in
let v_vDiffIndex := (Z.pow 2 (Z.add v_vDiff v_u_vDiff)) in
let v_threshold := (Z.mul (Z.mul v_hDiffIndex v_hDiffIndex) v_vDiffIndex) in
v_threshold.

(* transform.convertHorizontalIDToQuadkey  [transform/convert_quadkey_and_Vertical_id.go] — the condition of the function's 1. top-level for loop *)
Definition convertHorizontalIDToQuadkey_condX (v_quadkey : Z) (v_i : Z) (v_xIndexTmp : Z) (v_hZoom : Z) : bool :=
(andb (Z.gtb v_xIndexTmp 0) (Z.ltb v_i v_hZoom)).

(* transform.convertHorizontalIDToQuadkey  [transform/convert_quadkey_and_Vertical_id.go] — one pass through the body of the function's 1. top-level for loop and its post statement: the new values of (quadkey, i, xIndexTmp) *)
Definition convertHorizontalIDToQuadkey_stepX (v_quadkey : Z) (v_i : Z) (v_xIndexTmp : Z) (v_hZoom : Z) : (Z * Z * Z)%type :=
let v_mx := (Z.rem v_xIndexTmp 2) in
let v_x := v_mx in
let v_xIndexTmp := (Z.quot v_xIndexTmp 2) in
let v_quadkey := (Z.add v_quadkey (Z.shiftl v_x (Z.mul v_i 2))) in
let v_i := (Z.add v_i 1) in
(v_quadkey, v_i, v_xIndexTmp).

(* transform.convertHorizontalIDToQuadkey  [transform/convert_quadkey_and_Vertical_id.go] — the condition of the function's 2. top-level for loop *)
Definition convertHorizontalIDToQuadkey_condY (v_quadkey : Z) (v_i : Z) (v_yIndexTmp : Z) (v_hZoom : Z) : bool :=
(andb (Z.gtb v_yIndexTmp 0) (Z.ltb v_i v_hZoom)).

(* transform.convertHorizontalIDToQuadkey  [transform/convert_quadkey_and_Vertical_id.go] — one pass through the body of the function's 2. top-level for loop and its post statement: the new values of (quadkey, i, yIndexTmp) *)
Definition convertHorizontalIDToQuadkey_stepY (v_quadkey : Z) (v_i : Z) (v_yIndexTmp : Z) (v_hZoom : Z) : (Z * Z * Z)%type :=
let v_my := (Z.rem v_yIndexTmp 2) in
let v_y := (Z.mul v_my 2) in
let v_yIndexTmp := (Z.quot v_yIndexTmp 2) in
let v_quadkey := (Z.add v_quadkey (Z.shiftl v_y (Z.mul v_i 2))) in
let v_i := (Z.add v_i 1) in
(v_quadkey, v_i, v_yIndexTmp).

(* every definition of this file, for `autounfold with sidgen` *)
Create HintDb sidgen.
#[global] Hint Unfold GeoCrs : sidgen.
#[global] Hint Unfold OrthCrs : sidgen.
#[global] Hint Unfold SpatialIDDelimiter : sidgen.
#[global] Hint Unfold ZOriginValue : sidgen.
#[global] Hint Unfold Minima : sidgen.
#[global] Hint Unfold MaxTileXYZZoom : sidgen.
#[global] Hint Unfold InnerIDQuadkeyIndex : sidgen.
#[global] Hint Unfold InnerIDAltitudekeyIndex : sidgen.
#[global] Hint Unfold ZBaseOffsetForNegativeFIndex : sidgen.
#[global] Hint Unfold LonMinima : sidgen.
#[global] Hint Unfold LatMinima : sidgen.
#[global] Hint Unfold AltMinima : sidgen.
#[global] Hint Unfold HightZoomLonMinima : sidgen.
#[global] Hint Unfold HightZoomLatMinima : sidgen.
#[global] Hint Unfold HightZoomAltMinima : sidgen.
#[global] Hint Unfold LineSwitch_hZoom : sidgen.
#[global] Hint Unfold LineSwitch_vZoom : sidgen.
#[global] Hint Unfold SetLat_limit : sidgen.
#[global] Hint Unfold SetLat_scale : sidgen.
#[global] Hint Unfold QuadkeyZoom_hZoom_min : sidgen.
#[global] Hint Unfold QuadkeyZoom_hZoom_max : sidgen.
#[global] Hint Unfold QuadkeyZoom_vZoom_min : sidgen.
#[global] Hint Unfold QuadkeyZoom_vZoom_max : sidgen.
#[global] Hint Unfold CalculateArithmeticShift : sidgen.
#[global] Hint Unfold CheckZoom : sidgen.
#[global] Hint Unfold quadkeyCheckZoom : sidgen.
#[global] Hint Unfold extendedSpatialIDCheckZoom : sidgen.
#[global] Hint Unfold validateIndexExists : sidgen.
#[global] Hint Unfold convertZToMinAltitudekey : sidgen.
#[global] Hint Unfold ConvertZToMinMaxAltitudekey : sidgen.
#[global] Hint Unfold ConvertAltitudekeyToMinMaxZ : sidgen.
#[global] Hint Unfold HorizontalZoomMinMax : sidgen.
#[global] Hint Unfold VerticalZoom_minmax : sidgen.
#[global] Hint Unfold ExtendedSpatialID_Higher : sidgen.
#[global] Hint Unfold NewHighSpatialID_threshold : sidgen.
#[global] Hint Unfold convertHorizontalIDToQuadkey_condX : sidgen.
#[global] Hint Unfold convertHorizontalIDToQuadkey_stepX : sidgen.
#[global] Hint Unfold convertHorizontalIDToQuadkey_condY : sidgen.
#[global] Hint Unfold convertHorizontalIDToQuadkey_stepY : sidgen.
