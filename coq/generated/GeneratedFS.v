(* GeneratedFS.v — written by vtrans (harness/cmd/vtrans, spatial.go) from the Go source tree. DO NOT EDIT: bin/check regenerates this file.
   The float64 helpers of common/spatial (and what they call in common and in gonum's spatial/r3, read from the module cache) as whole functions,
   in the vocabulary of GeneratedF.v. A struct, a defined struct type, an array type is ONE value: the tuple of its fields / elements in declaration order;
   math.Sqrt = PrimFloat.sqrt, math.NaN() = nan, math.Hypot Sin Cos .. = fields of the record GeneratedF.libm.
   Source files (relative to the repository root, or <module>@<version>/.. in the module cache) and their SHA-256:
     251643af2e415f433ead1874a34bff4ba5dd8103db138a6e17043df9098d6d4a  common/consts/consts.go
     0e36516f2ab5c9343ae13fa6dc0756af2b4927333211d2bbf36b87352e494932  common/spatial/line3.go
     fff1f1d456a4ea4c19a62bcf6470cf13a68d3f22f17445b97bb1df7396f8330b  common/spatial/matrix3.go
     17bfa223698d46179f50269dc3517e8f25bd418911e4ed6b6d9873acd8535568  common/spatial/point3.go
     edbc126fb9cc97978c986fcd8b7e9bd10504b9db0d22ad3997e99abb409a5263  common/spatial/quat.go
     9928dec370a174452dcdc203171935d2d92fae32b1a77e766d47f0148815d349  common/spatial/vector3.go
     8952ce9a88602c3577a2c7359550e7fdc2539a557b95c43c0851b3fac5101fc3  common/util.go
     fe2fbd19df6ad771604eb492418a3b78433b6bdc7dbeacbfae5a4812b7b966cc  gonum.org/v1/gonum@v0.15.1/spatial/r3/vector.go
*)
From Coq Require Import ZArith Bool Floats.
From SID Require Import F64.
From SIDGen Require Import GeneratedF.
Open Scope Z_scope.

(* ---- definitions (callees first) ---- *)
(* common.AlmostEqual  [common/util.go] *)
Definition AlmostEqual (v_x : float) (v_y : float) (v_absTol : float) : bool :=
(orb (PrimFloat.eqb v_x v_y) (PrimFloat.leb (PrimFloat.abs (PrimFloat.sub v_x v_y)) v_absTol)).

(* gonum.org/v1/gonum/spatial/r3.Sub  [gonum.org/v1/gonum@v0.15.1/spatial/r3/vector.go] *)
Definition r3_Sub (v_p : (float * float * float)%type) (v_q : (float * float * float)%type) : (float * float * float)%type :=
((PrimFloat.sub (let '(s0, s1, s2) := v_p in s0) (let '(s0, s1, s2) := v_q in s0)), (PrimFloat.sub (let '(s0, s1, s2) := v_p in s1) (let '(s0, s1, s2) := v_q in s1)), (PrimFloat.sub (let '(s0, s1, s2) := v_p in s2) (let '(s0, s1, s2) := v_q in s2))).

(* common/spatial.NewVectorFromPoints  [common/spatial/vector3.go] *)
Definition NewVectorFromPoints (v_p : (float * float * float)%type) (v_q : (float * float * float)%type) : (float * float * float)%type :=
(r3_Sub v_q v_p).

(* gonum.org/v1/gonum/spatial/r3.Add  [gonum.org/v1/gonum@v0.15.1/spatial/r3/vector.go] *)
Definition r3_Add (v_p : (float * float * float)%type) (v_q : (float * float * float)%type) : (float * float * float)%type :=
((PrimFloat.add (let '(s0, s1, s2) := v_p in s0) (let '(s0, s1, s2) := v_q in s0)), (PrimFloat.add (let '(s0, s1, s2) := v_p in s1) (let '(s0, s1, s2) := v_q in s1)), (PrimFloat.add (let '(s0, s1, s2) := v_p in s2) (let '(s0, s1, s2) := v_q in s2))).

(* common/spatial.Vector3.Add  [common/spatial/vector3.go] *)
Definition Vector3_Add (v_a : (float * float * float)%type) (v_b : (float * float * float)%type) : (float * float * float)%type :=
(r3_Add v_a v_b).

(* common/spatial.Vector3.Sub  [common/spatial/vector3.go] *)
Definition Vector3_Sub (v_a : (float * float * float)%type) (v_b : (float * float * float)%type) : (float * float * float)%type :=
(r3_Sub v_a v_b).

(* gonum.org/v1/gonum/spatial/r3.Scale  [gonum.org/v1/gonum@v0.15.1/spatial/r3/vector.go] *)
Definition r3_Scale (v_f : float) (v_p : (float * float * float)%type) : (float * float * float)%type :=
((PrimFloat.mul v_f (let '(s0, s1, s2) := v_p in s0)), (PrimFloat.mul v_f (let '(s0, s1, s2) := v_p in s1)), (PrimFloat.mul v_f (let '(s0, s1, s2) := v_p in s2))).

(* common/spatial.Vector3.Scale  [common/spatial/vector3.go] *)
Definition Vector3_Scale (v_a : (float * float * float)%type) (v_f : float) : (float * float * float)%type :=
(r3_Scale v_f v_a).

(* gonum.org/v1/gonum/spatial/r3.Dot  [gonum.org/v1/gonum@v0.15.1/spatial/r3/vector.go] *)
Definition r3_Dot (v_p : (float * float * float)%type) (v_q : (float * float * float)%type) : float :=
(PrimFloat.add (PrimFloat.add (PrimFloat.mul (let '(s0, s1, s2) := v_p in s0) (let '(s0, s1, s2) := v_q in s0)) (PrimFloat.mul (let '(s0, s1, s2) := v_p in s1) (let '(s0, s1, s2) := v_q in s1))) (PrimFloat.mul (let '(s0, s1, s2) := v_p in s2) (let '(s0, s1, s2) := v_q in s2))).

(* common/spatial.Vector3.Dot  [common/spatial/vector3.go] *)
Definition Vector3_Dot (v_a : (float * float * float)%type) (v_b : (float * float * float)%type) : float :=
(r3_Dot v_a v_b).

(* gonum.org/v1/gonum/spatial/r3.Cross  [gonum.org/v1/gonum@v0.15.1/spatial/r3/vector.go] *)
Definition r3_Cross (v_p : (float * float * float)%type) (v_q : (float * float * float)%type) : (float * float * float)%type :=
((PrimFloat.sub (PrimFloat.mul (let '(s0, s1, s2) := v_p in s1) (let '(s0, s1, s2) := v_q in s2)) (PrimFloat.mul (let '(s0, s1, s2) := v_p in s2) (let '(s0, s1, s2) := v_q in s1))), (PrimFloat.sub (PrimFloat.mul (let '(s0, s1, s2) := v_p in s2) (let '(s0, s1, s2) := v_q in s0)) (PrimFloat.mul (let '(s0, s1, s2) := v_p in s0) (let '(s0, s1, s2) := v_q in s2))), (PrimFloat.sub (PrimFloat.mul (let '(s0, s1, s2) := v_p in s0) (let '(s0, s1, s2) := v_q in s1)) (PrimFloat.mul (let '(s0, s1, s2) := v_p in s1) (let '(s0, s1, s2) := v_q in s0)))).

(* common/spatial.Vector3.Cross  [common/spatial/vector3.go] *)
Definition Vector3_Cross (v_a : (float * float * float)%type) (v_b : (float * float * float)%type) : (float * float * float)%type :=
(r3_Cross v_a v_b).

(* gonum.org/v1/gonum/spatial/r3.Norm  [gonum.org/v1/gonum@v0.15.1/spatial/r3/vector.go] *)
Definition r3_Norm (M : libm) (v_p : (float * float * float)%type) : float :=
(m_hypot M (let '(s0, s1, s2) := v_p in s0) (m_hypot M (let '(s0, s1, s2) := v_p in s1) (let '(s0, s1, s2) := v_p in s2))).

(* common/spatial.Vector3.Norm  [common/spatial/vector3.go] *)
Definition Vector3_Norm (M : libm) (v_a : (float * float * float)%type) : float :=
(r3_Norm M v_a).

(* common/spatial.Vector3.L1Norm  [common/spatial/vector3.go] *)
Definition Vector3_L1Norm (v_a : (float * float * float)%type) : float :=
(PrimFloat.add (PrimFloat.add (PrimFloat.abs (let '(s0, s1, s2) := v_a in s0)) (PrimFloat.abs (let '(s0, s1, s2) := v_a in s1))) (PrimFloat.abs (let '(s0, s1, s2) := v_a in s2))).

(* gonum.org/v1/gonum/spatial/r3.Unit  [gonum.org/v1/gonum@v0.15.1/spatial/r3/vector.go] *)
Definition r3_Unit (M : libm) (v_p : (float * float * float)%type) : (float * float * float)%type :=
if (andb (andb (PrimFloat.eqb (let '(s0, s1, s2) := v_p in s0) (0x0p+0)%float) (PrimFloat.eqb (let '(s0, s1, s2) := v_p in s1) (0x0p+0)%float)) (PrimFloat.eqb (let '(s0, s1, s2) := v_p in s2) (0x0p+0)%float))
then ((PrimFloat.nan, PrimFloat.nan, PrimFloat.nan))
else ((r3_Scale (PrimFloat.div (0x1p+0)%float (r3_Norm M v_p)) v_p)).

(* common/spatial.Vector3.Unit  [common/spatial/vector3.go] *)
Definition Vector3_Unit (M : libm) (v_a : (float * float * float)%type) : (float * float * float)%type :=
(r3_Unit M v_a).

(* gonum.org/v1/gonum/spatial/r3.Cos  [gonum.org/v1/gonum@v0.15.1/spatial/r3/vector.go] *)
Definition r3_Cos (M : libm) (v_p : (float * float * float)%type) (v_q : (float * float * float)%type) : float :=
(PrimFloat.div (r3_Dot v_p v_q) (PrimFloat.mul (r3_Norm M v_p) (r3_Norm M v_q))).

(* common/spatial.Vector3.Cos  [common/spatial/vector3.go] *)
Definition Vector3_Cos (M : libm) (v_a : (float * float * float)%type) (v_b : (float * float * float)%type) : float :=
(r3_Cos M v_a v_b).

(* common/spatial.NewMatrix3  [common/spatial/matrix3.go] *)
Definition NewMatrix3 (v_m00 : float) (v_m01 : float) (v_m02 : float) (v_m10 : float) (v_m11 : float) (v_m12 : float) (v_m20 : float) (v_m21 : float) (v_m22 : float) : ((float * float * float)%type * (float * float * float)%type * (float * float * float)%type)%type :=
((v_m00, v_m01, v_m02), (v_m10, v_m11, v_m12), (v_m20, v_m21, v_m22)).

(* common/spatial.NewUnitMatrix3  [common/spatial/matrix3.go] *)
Definition NewUnitMatrix3  : ((float * float * float)%type * (float * float * float)%type * (float * float * float)%type)%type :=
(NewMatrix3 (0x1p+0)%float (0x0p+0)%float (0x0p+0)%float (0x0p+0)%float (0x1p+0)%float (0x0p+0)%float (0x0p+0)%float (0x0p+0)%float (0x1p+0)%float).

(* common/spatial.Matrix3.Mul  [common/spatial/matrix3.go] *)
Definition Matrix3_Mul (v_a : ((float * float * float)%type * (float * float * float)%type * (float * float * float)%type)%type) (v_b : ((float * float * float)%type * (float * float * float)%type * (float * float * float)%type)%type) : ((float * float * float)%type * (float * float * float)%type * (float * float * float)%type)%type :=
let v_out := (((0x0p+0)%float, (0x0p+0)%float, (0x0p+0)%float), ((0x0p+0)%float, (0x0p+0)%float, (0x0p+0)%float), ((0x0p+0)%float, (0x0p+0)%float, (0x0p+0)%float)) in
let v_out := (let '(u0_0, u0_1, u0_2) := v_out in ((let '(u1_0, u1_1, u1_2) := u0_0 in ((PrimFloat.add (PrimFloat.add (PrimFloat.mul (let '(s0, s1, s2) := (let '(s0, s1, s2) := v_a in s0) in s0) (let '(s0, s1, s2) := (let '(s0, s1, s2) := v_b in s0) in s0)) (PrimFloat.mul (let '(s0, s1, s2) := (let '(s0, s1, s2) := v_a in s0) in s1) (let '(s0, s1, s2) := (let '(s0, s1, s2) := v_b in s1) in s0))) (PrimFloat.mul (let '(s0, s1, s2) := (let '(s0, s1, s2) := v_a in s0) in s2) (let '(s0, s1, s2) := (let '(s0, s1, s2) := v_b in s2) in s0))), u1_1, u1_2)), u0_1, u0_2)) in
let v_out := (let '(u0_0, u0_1, u0_2) := v_out in ((let '(u1_0, u1_1, u1_2) := u0_0 in (u1_0, (PrimFloat.add (PrimFloat.add (PrimFloat.mul (let '(s0, s1, s2) := (let '(s0, s1, s2) := v_a in s0) in s0) (let '(s0, s1, s2) := (let '(s0, s1, s2) := v_b in s0) in s1)) (PrimFloat.mul (let '(s0, s1, s2) := (let '(s0, s1, s2) := v_a in s0) in s1) (let '(s0, s1, s2) := (let '(s0, s1, s2) := v_b in s1) in s1))) (PrimFloat.mul (let '(s0, s1, s2) := (let '(s0, s1, s2) := v_a in s0) in s2) (let '(s0, s1, s2) := (let '(s0, s1, s2) := v_b in s2) in s1))), u1_2)), u0_1, u0_2)) in
let v_out := (let '(u0_0, u0_1, u0_2) := v_out in ((let '(u1_0, u1_1, u1_2) := u0_0 in (u1_0, u1_1, (PrimFloat.add (PrimFloat.add (PrimFloat.mul (let '(s0, s1, s2) := (let '(s0, s1, s2) := v_a in s0) in s0) (let '(s0, s1, s2) := (let '(s0, s1, s2) := v_b in s0) in s2)) (PrimFloat.mul (let '(s0, s1, s2) := (let '(s0, s1, s2) := v_a in s0) in s1) (let '(s0, s1, s2) := (let '(s0, s1, s2) := v_b in s1) in s2))) (PrimFloat.mul (let '(s0, s1, s2) := (let '(s0, s1, s2) := v_a in s0) in s2) (let '(s0, s1, s2) := (let '(s0, s1, s2) := v_b in s2) in s2))))), u0_1, u0_2)) in
let v_out := (let '(u0_0, u0_1, u0_2) := v_out in (u0_0, (let '(u1_0, u1_1, u1_2) := u0_1 in ((PrimFloat.add (PrimFloat.add (PrimFloat.mul (let '(s0, s1, s2) := (let '(s0, s1, s2) := v_a in s1) in s0) (let '(s0, s1, s2) := (let '(s0, s1, s2) := v_b in s0) in s0)) (PrimFloat.mul (let '(s0, s1, s2) := (let '(s0, s1, s2) := v_a in s1) in s1) (let '(s0, s1, s2) := (let '(s0, s1, s2) := v_b in s1) in s0))) (PrimFloat.mul (let '(s0, s1, s2) := (let '(s0, s1, s2) := v_a in s1) in s2) (let '(s0, s1, s2) := (let '(s0, s1, s2) := v_b in s2) in s0))), u1_1, u1_2)), u0_2)) in
let v_out := (let '(u0_0, u0_1, u0_2) := v_out in (u0_0, (let '(u1_0, u1_1, u1_2) := u0_1 in (u1_0, (PrimFloat.add (PrimFloat.add (PrimFloat.mul (let '(s0, s1, s2) := (let '(s0, s1, s2) := v_a in s1) in s0) (let '(s0, s1, s2) := (let '(s0, s1, s2) := v_b in s0) in s1)) (PrimFloat.mul (let '(s0, s1, s2) := (let '(s0, s1, s2) := v_a in s1) in s1) (let '(s0, s1, s2) := (let '(s0, s1, s2) := v_b in s1) in s1))) (PrimFloat.mul (let '(s0, s1, s2) := (let '(s0, s1, s2) := v_a in s1) in s2) (let '(s0, s1, s2) := (let '(s0, s1, s2) := v_b in s2) in s1))), u1_2)), u0_2)) in
let v_out := (let '(u0_0, u0_1, u0_2) := v_out in (u0_0, (let '(u1_0, u1_1, u1_2) := u0_1 in (u1_0, u1_1, (PrimFloat.add (PrimFloat.add (PrimFloat.mul (let '(s0, s1, s2) := (let '(s0, s1, s2) := v_a in s1) in s0) (let '(s0, s1, s2) := (let '(s0, s1, s2) := v_b in s0) in s2)) (PrimFloat.mul (let '(s0, s1, s2) := (let '(s0, s1, s2) := v_a in s1) in s1) (let '(s0, s1, s2) := (let '(s0, s1, s2) := v_b in s1) in s2))) (PrimFloat.mul (let '(s0, s1, s2) := (let '(s0, s1, s2) := v_a in s1) in s2) (let '(s0, s1, s2) := (let '(s0, s1, s2) := v_b in s2) in s2))))), u0_2)) in
let v_out := (let '(u0_0, u0_1, u0_2) := v_out in (u0_0, u0_1, (let '(u1_0, u1_1, u1_2) := u0_2 in ((PrimFloat.add (PrimFloat.add (PrimFloat.mul (let '(s0, s1, s2) := (let '(s0, s1, s2) := v_a in s2) in s0) (let '(s0, s1, s2) := (let '(s0, s1, s2) := v_b in s0) in s0)) (PrimFloat.mul (let '(s0, s1, s2) := (let '(s0, s1, s2) := v_a in s2) in s1) (let '(s0, s1, s2) := (let '(s0, s1, s2) := v_b in s1) in s0))) (PrimFloat.mul (let '(s0, s1, s2) := (let '(s0, s1, s2) := v_a in s2) in s2) (let '(s0, s1, s2) := (let '(s0, s1, s2) := v_b in s2) in s0))), u1_1, u1_2)))) in
let v_out := (let '(u0_0, u0_1, u0_2) := v_out in (u0_0, u0_1, (let '(u1_0, u1_1, u1_2) := u0_2 in (u1_0, (PrimFloat.add (PrimFloat.add (PrimFloat.mul (let '(s0, s1, s2) := (let '(s0, s1, s2) := v_a in s2) in s0) (let '(s0, s1, s2) := (let '(s0, s1, s2) := v_b in s0) in s1)) (PrimFloat.mul (let '(s0, s1, s2) := (let '(s0, s1, s2) := v_a in s2) in s1) (let '(s0, s1, s2) := (let '(s0, s1, s2) := v_b in s1) in s1))) (PrimFloat.mul (let '(s0, s1, s2) := (let '(s0, s1, s2) := v_a in s2) in s2) (let '(s0, s1, s2) := (let '(s0, s1, s2) := v_b in s2) in s1))), u1_2)))) in
let v_out := (let '(u0_0, u0_1, u0_2) := v_out in (u0_0, u0_1, (let '(u1_0, u1_1, u1_2) := u0_2 in (u1_0, u1_1, (PrimFloat.add (PrimFloat.add (PrimFloat.mul (let '(s0, s1, s2) := (let '(s0, s1, s2) := v_a in s2) in s0) (let '(s0, s1, s2) := (let '(s0, s1, s2) := v_b in s0) in s2)) (PrimFloat.mul (let '(s0, s1, s2) := (let '(s0, s1, s2) := v_a in s2) in s1) (let '(s0, s1, s2) := (let '(s0, s1, s2) := v_b in s1) in s2))) (PrimFloat.mul (let '(s0, s1, s2) := (let '(s0, s1, s2) := v_a in s2) in s2) (let '(s0, s1, s2) := (let '(s0, s1, s2) := v_b in s2) in s2))))))) in
v_out.

(* common/spatial.Matrix3.MulVec  [common/spatial/matrix3.go] *)
Definition Matrix3_MulVec (v_a : ((float * float * float)%type * (float * float * float)%type * (float * float * float)%type)%type) (v_v : (float * float * float)%type) : (float * float * float)%type :=
((PrimFloat.add (PrimFloat.add (PrimFloat.mul (let '(s0, s1, s2) := v_v in s0) (let '(s0, s1, s2) := (let '(s0, s1, s2) := v_a in s0) in s0)) (PrimFloat.mul (let '(s0, s1, s2) := v_v in s1) (let '(s0, s1, s2) := (let '(s0, s1, s2) := v_a in s0) in s1))) (PrimFloat.mul (let '(s0, s1, s2) := v_v in s2) (let '(s0, s1, s2) := (let '(s0, s1, s2) := v_a in s0) in s2))), (PrimFloat.add (PrimFloat.add (PrimFloat.mul (let '(s0, s1, s2) := v_v in s0) (let '(s0, s1, s2) := (let '(s0, s1, s2) := v_a in s1) in s0)) (PrimFloat.mul (let '(s0, s1, s2) := v_v in s1) (let '(s0, s1, s2) := (let '(s0, s1, s2) := v_a in s1) in s1))) (PrimFloat.mul (let '(s0, s1, s2) := v_v in s2) (let '(s0, s1, s2) := (let '(s0, s1, s2) := v_a in s1) in s2))), (PrimFloat.add (PrimFloat.add (PrimFloat.mul (let '(s0, s1, s2) := v_v in s0) (let '(s0, s1, s2) := (let '(s0, s1, s2) := v_a in s2) in s0)) (PrimFloat.mul (let '(s0, s1, s2) := v_v in s1) (let '(s0, s1, s2) := (let '(s0, s1, s2) := v_a in s2) in s1))) (PrimFloat.mul (let '(s0, s1, s2) := v_v in s2) (let '(s0, s1, s2) := (let '(s0, s1, s2) := v_a in s2) in s2)))).

(* common/spatial.Point3.IsClose  [common/spatial/point3.go] *)
Definition Point3_IsClose (v_p : (float * float * float)%type) (v_q : (float * float * float)%type) (v_epsilon : float) : bool :=
(andb (andb (AlmostEqual (let '(s0, s1, s2) := v_p in s0) (let '(s0, s1, s2) := v_q in s0) v_epsilon) (AlmostEqual (let '(s0, s1, s2) := v_p in s1) (let '(s0, s1, s2) := v_q in s1) v_epsilon)) (AlmostEqual (let '(s0, s1, s2) := v_p in s2) (let '(s0, s1, s2) := v_q in s2) v_epsilon)).

(* common/spatial.Point3.Translate  [common/spatial/point3.go] *)
Definition Point3_Translate (v_p : (float * float * float)%type) (v_a : (float * float * float)%type) : (float * float * float)%type :=
(Vector3_Add v_p v_a).

(* common/spatial.Point3.DistancePoint  [common/spatial/point3.go] *)
Definition Point3_DistancePoint (M : libm) (v_p : (float * float * float)%type) (v_q : (float * float * float)%type) : float :=
(Vector3_Norm M (NewVectorFromPoints v_p v_q)).

(* common/spatial.NewLineFromPoints  [common/spatial/line3.go] *)
Definition NewLineFromPoints (v_start : (float * float * float)%type) (v_end : (float * float * float)%type) : ((float * float * float)%type * (float * float * float)%type)%type :=
let v_vec := (NewVectorFromPoints v_start v_end) in
(v_start, v_vec).

(* common/spatial.Line3.ToPoint  [common/spatial/line3.go] *)
Definition Line3_ToPoint (v_l : ((float * float * float)%type * (float * float * float)%type)%type) (v_t : float) : (float * float * float)%type :=
let v_vec := (Vector3_Scale (let '(s0, s1) := v_l in s1) v_t) in
(Point3_Translate (let '(s0, s1) := v_l in s0) v_vec).

(* common/spatial.Line3.End  [common/spatial/line3.go] *)
Definition Line3_End (v_l : ((float * float * float)%type * (float * float * float)%type)%type) : (float * float * float)%type :=
(Point3_Translate (let '(s0, s1) := v_l in s0) (let '(s0, s1) := v_l in s1)).

(* common/spatial.Line3.Start  [common/spatial/line3.go] *)
Definition Line3_Start (v_l : ((float * float * float)%type * (float * float * float)%type)%type) : (float * float * float)%type :=
(let '(s0, s1) := v_l in s0).

(* common/spatial.QuatFromAxisAngle  [common/spatial/quat.go] *)
Definition QuatFromAxisAngle (M : libm) (v_axis : (float * float * float)%type) (v_angle : float) : (float * float * float * float)%type :=
let v_axis := (Vector3_Unit M v_axis) in
let v_sinHalfAngle := (m_sin M (PrimFloat.mul v_angle (0x1p-1)%float)) in
((m_cos M (PrimFloat.mul v_angle (0x1p-1)%float)), (PrimFloat.mul (let '(s0, s1, s2) := v_axis in s0) v_sinHalfAngle), (PrimFloat.mul (let '(s0, s1, s2) := v_axis in s1) v_sinHalfAngle), (PrimFloat.mul (let '(s0, s1, s2) := v_axis in s2) v_sinHalfAngle)).

(* common/spatial.RotateBetweenVector  [common/spatial/quat.go] *)
Definition RotateBetweenVector (M : libm) (v_start : (float * float * float)%type) (v_end : (float * float * float)%type) : (float * float * float * float)%type :=
let v_startUnit := (Vector3_Unit M v_start) in
let v_endUnit := (Vector3_Unit M v_end) in
let v_cos := (Vector3_Cos M v_startUnit v_endUnit) in
let v_axis := (Vector3_Cross v_startUnit v_endUnit) in
if (PrimFloat.ltb (PrimFloat.add v_cos (0x1p+0)%float) (0x1.b7cdfd9d7bdbbp-34)%float)
then (let v_axis := (Vector3_Cross v_startUnit ((0x0p+0)%float, (0x0p+0)%float, (0x1p+0)%float)) in
let v_axis := if (PrimFloat.ltb (Vector3_Norm M v_axis) (0x1.b7cdfd9d7bdbbp-34)%float)
then (let v_axis := (Vector3_Cross v_start ((0x1p+0)%float, (0x0p+0)%float, (0x0p+0)%float)) in
v_axis)
else (v_axis) in
(QuatFromAxisAngle M v_axis (0x1.921fb54442d18p+1)%float))
else (let v_s := (PrimFloat.sqrt (PrimFloat.mul (0x1p+1)%float (PrimFloat.add (0x1p+0)%float v_cos))) in
let v_inv := (PrimFloat.div (0x1p+0)%float v_s) in
((PrimFloat.mul v_s (0x1p-1)%float), (PrimFloat.mul (let '(s0, s1, s2) := v_axis in s0) v_inv), (PrimFloat.mul (let '(s0, s1, s2) := v_axis in s1) v_inv), (PrimFloat.mul (let '(s0, s1, s2) := v_axis in s2) v_inv))).

(* every definition of this file, for `autounfold with sidgenfs` *)
Create HintDb sidgenfs.
#[global] Hint Unfold AlmostEqual : sidgenfs.
#[global] Hint Unfold r3_Sub : sidgenfs.
#[global] Hint Unfold NewVectorFromPoints : sidgenfs.
#[global] Hint Unfold r3_Add : sidgenfs.
#[global] Hint Unfold Vector3_Add : sidgenfs.
#[global] Hint Unfold Vector3_Sub : sidgenfs.
#[global] Hint Unfold r3_Scale : sidgenfs.
#[global] Hint Unfold Vector3_Scale : sidgenfs.
#[global] Hint Unfold r3_Dot : sidgenfs.
#[global] Hint Unfold Vector3_Dot : sidgenfs.
#[global] Hint Unfold r3_Cross : sidgenfs.
#[global] Hint Unfold Vector3_Cross : sidgenfs.
#[global] Hint Unfold r3_Norm : sidgenfs.
#[global] Hint Unfold Vector3_Norm : sidgenfs.
#[global] Hint Unfold Vector3_L1Norm : sidgenfs.
#[global] Hint Unfold r3_Unit : sidgenfs.
#[global] Hint Unfold Vector3_Unit : sidgenfs.
#[global] Hint Unfold r3_Cos : sidgenfs.
#[global] Hint Unfold Vector3_Cos : sidgenfs.
#[global] Hint Unfold NewMatrix3 : sidgenfs.
#[global] Hint Unfold NewUnitMatrix3 : sidgenfs.
#[global] Hint Unfold Matrix3_Mul : sidgenfs.
#[global] Hint Unfold Matrix3_MulVec : sidgenfs.
#[global] Hint Unfold Point3_IsClose : sidgenfs.
#[global] Hint Unfold Point3_Translate : sidgenfs.
#[global] Hint Unfold Point3_DistancePoint : sidgenfs.
#[global] Hint Unfold NewLineFromPoints : sidgenfs.
#[global] Hint Unfold Line3_ToPoint : sidgenfs.
#[global] Hint Unfold Line3_End : sidgenfs.
#[global] Hint Unfold Line3_Start : sidgenfs.
#[global] Hint Unfold QuatFromAxisAngle : sidgenfs.
#[global] Hint Unfold RotateBetweenVector : sidgenfs.
