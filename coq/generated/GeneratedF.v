(* GeneratedF.v — written by vtrans (harness/cmd/vtrans) from the Go source tree. DO NOT EDIT: bin/check regenerates this file.
   Go float64 = Coq primitive float (binary64): + - * / = PrimFloat.add sub mul div, == < <= = PrimFloat.eqb ltb leb (a > b is ltb b a),
   unary - = PrimFloat.opp; math.Floor Ceil Abs = F64.ffloor F64.fceil PrimFloat.abs; math.Pow(2, float64(z)) = F64.pow2f z;
   float64(i) = F64.of_Z i; int64(f) = F64.Ztrunc_f f (option Z); constant expressions are evaluated exactly and rounded once, a float64
   constant is the hexadecimal literal Go prints for it; the other functions of package math are fields of the record libm.
   Source files (relative to the repository root) and their SHA-256:
     5a05c876f247a3c94d3b0dc18bd3945f9bb3355a69aaa75c88d20f3a4c658202  common/object/coordinate.go
     8952ce9a88602c3577a2c7359550e7fdc2539a557b95c43c0851b3fac5101fc3  common/util.go
     b7bd2eb1f441503e3121feb434fd06e251215fa52d17d828e7cca1d9d556cf98  operated/shifting_spatial_id.go
     a7b52779d0e746dc0273ec11ba62cf1dc67176bcb8c1cbb57475aa9f12d7e308  shape/point.go
     97a8d24c37ca0c2a52f8db27c86a4726cb022e2313bdb9af41f2881bc6c919a8  transform/convert_quadkey_and_Vertical_id.go
*)
From Coq Require Import ZArith Bool Floats.
From SID Require Import F64.
Open Scope Z_scope.

(* the functions of Go's package math that have no model in F64.v: every definition that calls one takes this record *)
Record libm : Type := mk_libm {
  m_acos : float -> float;
  m_asin : float -> float;
  m_atan : float -> float;
  m_cos : float -> float;
  m_cosh : float -> float;
  m_exp : float -> float;
  m_log : float -> float;
  m_log10 : float -> float;
  m_log2 : float -> float;
  m_round : float -> float;
  m_sin : float -> float;
  m_sinh : float -> float;
  m_sqrt : float -> float;
  m_tan : float -> float;
  m_tanh : float -> float;
  m_trunc : float -> float;
  m_atan2 : float -> float -> float;
  m_hypot : float -> float -> float;
  m_mod : float -> float -> float;
  m_pow : float -> float -> float
}.

(* ---- definitions (callees first) ---- *)
(* common.DegreeToRadian  [common/util.go] *)
Definition DegreeToRadian (v_degree : float) : float :=
(PrimFloat.mul v_degree (0x1.1df46a2529d39p-6)%float).

(* common.RadianToDegree  [common/util.go] *)
Definition RadianToDegree (v_radian : float) : float :=
(PrimFloat.mul v_radian (0x1.ca5dc1a63c1f8p+5)%float).

(* shape.getHorizontalTileIdOnPoint (value lonIndex)  [shape/point.go] — the value of X in the 2nd of the 3 calls strconv.FormatInt(int64(X), 10) (`lonIndex`) just before that statement *)
Definition getHorizontalTileIdOnPoint_lonIndex (v_lon : float) (v_lat : float) (v_hZoom : Z) : float :=
let v_lon := if (PrimFloat.eqb v_lon (0x1.68p+7)%float)
then (let v_lon := (PrimFloat.opp v_lon) in
v_lon)
else (v_lon) in
let v_lonIndex := (ffloor (PrimFloat.mul (pow2f v_hZoom) (PrimFloat.div (PrimFloat.add v_lon (0x1.68p+7)%float) (0x1.68p+8)%float))) in
let v_maxLonIndex := (PrimFloat.sub (pow2f v_hZoom) (0x1p+0)%float) in
let v_lonIndex := if (PrimFloat.ltb v_maxLonIndex v_lonIndex)
then (let v_lonIndex := v_maxLonIndex in
v_lonIndex)
else (v_lonIndex) in
v_lonIndex.

(* shape.getHorizontalTileIdOnPoint (value latIndex)  [shape/point.go] — the value of X in the 3rd of the 3 calls strconv.FormatInt(int64(X), 10) (`latIndex`) just before that statement *)
Definition getHorizontalTileIdOnPoint_latIndex (M : libm) (v_lon : float) (v_lat : float) (v_hZoom : Z) : float :=
let v_latRadian := (DegreeToRadian v_lat) in
let v_latIndex := (ffloor (PrimFloat.div (PrimFloat.mul (pow2f v_hZoom) (PrimFloat.sub (0x1p+0)%float (PrimFloat.div (m_log M (PrimFloat.add (m_tan M v_latRadian) (PrimFloat.div (0x1p+0)%float (m_cos M v_latRadian)))) (0x1.921fb54442d18p+1)%float))) (0x1p+1)%float)) in
v_latIndex.

(* shape.getVerticalTileIdOnAltitude (value vIndex)  [shape/point.go] — the value of X in the 2nd of the 2 calls strconv.FormatInt(int64(X), 10) (`vIndex`) just before that statement *)
Definition getVerticalTileIdOnAltitude_vIndex (v_alt : float) (v_vZoom : Z) : float :=
let v_altResolution := (PrimFloat.div (pow2f 25) (pow2f v_vZoom)) in
let v_vIndex := (ffloor (PrimFloat.div v_alt v_altResolution)) in
v_vIndex.

(* shape.getAltitudeOnVerticalIndexAndZoom  [shape/point.go] *)
Definition getAltitudeOnVerticalIndexAndZoom (v_altIndex : Z) (v_vZoom : Z) : (float * float)%type :=
let '(v_vPoint_Alt, v_vPoint_Resolution) := ((0x0p+0)%float, (0x0p+0)%float) in
let v_vPoint_Resolution := (PrimFloat.div (pow2f 25) (pow2f v_vZoom)) in
let v_vPoint_Alt := (PrimFloat.mul (of_Z v_altIndex) v_vPoint_Resolution) in
(v_vPoint_Alt, v_vPoint_Resolution).

(* shape.getVertexOnVoxelOffset (value latIndexFloat)  [shape/point.go] — the value of the local variable latIndexFloat when control reaches the end of the function *)
Definition getVertexOnVoxelOffset_latIndexFloat (v_lonIndex : Z) (v_latIndex : Z) (v_hZoom : Z) (v_vPoint_Alt : float) (v_vPoint_Resolution : float) : float :=
let v_hLimit := (pow2f v_hZoom) in
let v_latIndexFloat := (of_Z v_latIndex) in
let v_latIndexFloat := if (PrimFloat.leb (PrimFloat.sub v_hLimit (0x1p+0)%float) v_latIndexFloat)
then (let v_latIndexFloat := (PrimFloat.sub v_hLimit (0x1p+0)%float) in
v_latIndexFloat)
else (let v_latIndexFloat := if (PrimFloat.ltb v_latIndexFloat (0x0p+0)%float)
then (let v_latIndexFloat := (0x0p+0)%float in
v_latIndexFloat)
else (v_latIndexFloat) in
v_latIndexFloat) in
v_latIndexFloat.

(* shape.getVertexOnVoxelOffset (value northLat)  [shape/point.go] — the value of the latitude argument of the 1st of the 8 calls object.NewPoint (`northLat`) just before that statement *)
Definition getVertexOnVoxelOffset_northLat (M : libm) (v_lonIndex : Z) (v_latIndex : Z) (v_hZoom : Z) (v_vPoint_Alt : float) (v_vPoint_Resolution : float) : float :=
let v_hLimit := (pow2f v_hZoom) in
let v_latIndexFloat := (of_Z v_latIndex) in
let v_latIndexFloat := if (PrimFloat.leb (PrimFloat.sub v_hLimit (0x1p+0)%float) v_latIndexFloat)
then (let v_latIndexFloat := (PrimFloat.sub v_hLimit (0x1p+0)%float) in
v_latIndexFloat)
else (let v_latIndexFloat := if (PrimFloat.ltb v_latIndexFloat (0x0p+0)%float)
then (let v_latIndexFloat := (0x0p+0)%float in
v_latIndexFloat)
else (v_latIndexFloat) in
v_latIndexFloat) in
let v_northLat := (RadianToDegree (m_atan M (m_sinh M (PrimFloat.mul (0x1.921fb54442d18p+1)%float (PrimFloat.sub (0x1p+0)%float (PrimFloat.div (PrimFloat.mul (0x1p+1)%float v_latIndexFloat) v_hLimit)))))) in
v_northLat.

(* shape.getVertexOnVoxelOffset (value southLat)  [shape/point.go] — the value of the latitude argument of the 3rd of the 8 calls object.NewPoint (`southLat`) just before that statement *)
Definition getVertexOnVoxelOffset_southLat (M : libm) (v_lonIndex : Z) (v_latIndex : Z) (v_hZoom : Z) (v_vPoint_Alt : float) (v_vPoint_Resolution : float) : float :=
let v_hLimit := (pow2f v_hZoom) in
let v_latIndexFloat := (of_Z v_latIndex) in
let v_latIndexFloat := if (PrimFloat.leb (PrimFloat.sub v_hLimit (0x1p+0)%float) v_latIndexFloat)
then (let v_latIndexFloat := (PrimFloat.sub v_hLimit (0x1p+0)%float) in
v_latIndexFloat)
else (let v_latIndexFloat := if (PrimFloat.ltb v_latIndexFloat (0x0p+0)%float)
then (let v_latIndexFloat := (0x0p+0)%float in
v_latIndexFloat)
else (v_latIndexFloat) in
v_latIndexFloat) in
let v_southLat := (RadianToDegree (m_atan M (m_sinh M (PrimFloat.mul (0x1.921fb54442d18p+1)%float (PrimFloat.sub (0x1p+0)%float (PrimFloat.div (PrimFloat.mul (0x1p+1)%float (PrimFloat.add v_latIndexFloat (0x1p+0)%float)) v_hLimit)))))) in
v_southLat.

(* shape.getVertexOnVoxelOffset (value westLon)  [shape/point.go] — the value of the longitude argument of the 1st of the 8 calls object.NewPoint (`westLon`) just before that statement, as a function of the parameters and of the value of lonIndexFloat *)
Definition getVertexOnVoxelOffset_westLon (v_lonIndex : Z) (v_latIndex : Z) (v_hZoom : Z) (v_vPoint_Alt : float) (v_vPoint_Resolution : float) (v_lonIndexFloat : float) : float :=
let v_hLimit := (pow2f v_hZoom) in
let v_westLon := (PrimFloat.sub (PrimFloat.div (PrimFloat.mul v_lonIndexFloat (0x1.68p+8)%float) v_hLimit) (0x1.68p+7)%float) in
v_westLon.

(* shape.getVertexOnVoxelOffset (value eastLon)  [shape/point.go] — the value of the longitude argument of the 2nd of the 8 calls object.NewPoint (`eastLon`) just before that statement, as a function of the parameters and of the value of lonIndexFloat *)
Definition getVertexOnVoxelOffset_eastLon (v_lonIndex : Z) (v_latIndex : Z) (v_hZoom : Z) (v_vPoint_Alt : float) (v_vPoint_Resolution : float) (v_lonIndexFloat : float) : float :=
let v_hLimit := (pow2f v_hZoom) in
let v_eastLon := (PrimFloat.sub (PrimFloat.div (PrimFloat.mul (PrimFloat.add v_lonIndexFloat (0x1p+0)%float) (0x1.68p+8)%float) v_hLimit) (0x1.68p+7)%float) in
v_eastLon.

(* shape.getVertexOnVoxelOffset (value vTopAlt)  [shape/point.go] — the value of the altitude argument of the 5th of the 8 calls object.NewPoint (`vTopAlt`) just before that statement *)
Definition getVertexOnVoxelOffset_vTopAlt (v_lonIndex : Z) (v_latIndex : Z) (v_hZoom : Z) (v_vPoint_Alt : float) (v_vPoint_Resolution : float) : float :=
let v_vTopAlt := (PrimFloat.add v_vPoint_Alt v_vPoint_Resolution) in
v_vTopAlt.

(* shape.getCenterPointOnVoxelOffset (value centerLon)  [shape/point.go] — the value of the longitude argument of the last call object.NewPoint (`centerLon`) just before that statement, as a function of the parameters and of the value of lonMax, lonMin *)
Definition getCenterPointOnVoxelOffset_centerLon (v_lonIndex : Z) (v_latIndex : Z) (v_hZoom : Z) (v_vPoint_Alt : float) (v_vPoint_Resolution : float) (v_lonMax : float) (v_lonMin : float) : float :=
let v_centerLon := (PrimFloat.div (PrimFloat.add v_lonMax v_lonMin) (0x1p+1)%float) in
v_centerLon.

(* shape.getCenterPointOnVoxelOffset (value centerLat)  [shape/point.go] — the value of the latitude argument of the last call object.NewPoint (`centerLat`) just before that statement, as a function of the parameters and of the value of latMax, latMin *)
Definition getCenterPointOnVoxelOffset_centerLat (v_lonIndex : Z) (v_latIndex : Z) (v_hZoom : Z) (v_vPoint_Alt : float) (v_vPoint_Resolution : float) (v_latMax : float) (v_latMin : float) : float :=
let v_centerLat := (PrimFloat.div (PrimFloat.add v_latMax v_latMin) (0x1p+1)%float) in
v_centerLat.

(* shape.getCenterPointOnVoxelOffset (value centerAlt)  [shape/point.go] — the value of the altitude argument of the last call object.NewPoint (`centerAlt`) just before that statement, as a function of the parameters and of the value of altMax, altMin *)
Definition getCenterPointOnVoxelOffset_centerAlt (v_lonIndex : Z) (v_latIndex : Z) (v_hZoom : Z) (v_vPoint_Alt : float) (v_vPoint_Resolution : float) (v_altMax : float) (v_altMin : float) : float :=
let v_centerAlt := (PrimFloat.div (PrimFloat.add v_altMax v_altMin) (0x1p+1)%float) in
v_centerAlt.

(* common/object.Point.SetLon  [common/object/coordinate.go] — pointer receiver: the fields of the receiver after the call, then the results *)
Definition Point_SetLon (v_p_lon : float) (v_p_lat : float) (v_p_alt : float) (v_lon : float) : (float * float * float * bool)%type :=
if (PrimFloat.ltb (0x1.68p+7)%float (PrimFloat.abs v_lon))
then ((v_p_lon, v_p_lat, v_p_alt, true))
else (let v_p_lon := v_lon in
(v_p_lon, v_p_lat, v_p_alt, false)).

(* common/object.Point.SetLat  [common/object/coordinate.go] — pointer receiver: the fields of the receiver after the call, then the results *)
Definition Point_SetLat (v_p_lon : float) (v_p_lat : float) (v_p_alt : float) (v_lat : float) : (float * float * float * bool)%type :=
let v_lat := if (PrimFloat.ltb (0x0p+0)%float v_lat)
then (let v_lat := (PrimFloat.div (ffloor (PrimFloat.mul v_lat (0x1.2a05f2p+33)%float)) (0x1.2a05f2p+33)%float) in
v_lat)
else (let v_lat := (PrimFloat.div (fceil (PrimFloat.mul v_lat (0x1.2a05f2p+33)%float)) (0x1.2a05f2p+33)%float) in
v_lat) in
if (PrimFloat.ltb (0x1.54345b1a54806p+6)%float (PrimFloat.abs v_lat))
then ((v_p_lon, v_p_lat, v_p_alt, true))
else (let v_p_lat := v_lat in
(v_p_lon, v_p_lat, v_p_alt, false)).

(* transform.convertVerticallIDToBit (value spatialIDMaxHeight)  [transform/convert_quadkey_and_Vertical_id.go] — the value of the altitude argument of the 1st of the 2 calls calcBitIndex (`spatialIDMaxHeight`) just before that statement *)
Definition convertVerticallIDToBit_spatialIDMaxHeight (v_vZoom : Z) (v_vIndex : Z) (v_outputZoom : Z) (v_maxHeight : float) (v_minHeight : float) : float :=
let v_spatialIDMaxHeight := (PrimFloat.div (PrimFloat.mul (of_Z (Z.add v_vIndex 1)) (pow2f 25)) (pow2f v_vZoom)) in
v_spatialIDMaxHeight.

(* transform.convertVerticallIDToBit (value spatialIDMinHeight)  [transform/convert_quadkey_and_Vertical_id.go] — the value of the altitude argument of the 2nd of the 2 calls calcBitIndex (`spatialIDMinHeight`) just before that statement *)
Definition convertVerticallIDToBit_spatialIDMinHeight (v_vZoom : Z) (v_vIndex : Z) (v_outputZoom : Z) (v_maxHeight : float) (v_minHeight : float) : float :=
let v_spatialIDMinHeight := (PrimFloat.div (PrimFloat.mul (of_Z v_vIndex) (pow2f 25)) (pow2f v_vZoom)) in
v_spatialIDMinHeight.

(* transform.convertBitToVerticalID (value voxelHeight)  [transform/convert_quadkey_and_Vertical_id.go] — the value of the local variable voxelHeight when control reaches the end of the function *)
Definition convertBitToVerticalID_voxelHeight (v_vZoom : Z) (v_vIndex : Z) (v_outputZoom : Z) (v_maxHeight : float) (v_minHeight : float) : float :=
let v_voxelHeight := (PrimFloat.div (PrimFloat.sub v_maxHeight v_minHeight) (pow2f v_vZoom)) in
v_voxelHeight.

(* transform.convertBitToVerticalID (value maxAltitude)  [transform/convert_quadkey_and_Vertical_id.go] — the value of the altitude argument of the 1st of the 2 calls object.NewPoint (`maxAltitude`) just before that statement *)
Definition convertBitToVerticalID_maxAltitude (v_vZoom : Z) (v_vIndex : Z) (v_outputZoom : Z) (v_maxHeight : float) (v_minHeight : float) : float :=
let v_voxelHeight := (PrimFloat.div (PrimFloat.sub v_maxHeight v_minHeight) (pow2f v_vZoom)) in
let v_maxAltitude := (PrimFloat.add (PrimFloat.mul (of_Z (Z.add v_vIndex 1)) v_voxelHeight) v_minHeight) in
v_maxAltitude.

(* transform.convertBitToVerticalID (value minAltitude)  [transform/convert_quadkey_and_Vertical_id.go] — the value of the altitude argument of the 2nd of the 2 calls object.NewPoint (`minAltitude`) just before that statement *)
Definition convertBitToVerticalID_minAltitude (v_vZoom : Z) (v_vIndex : Z) (v_outputZoom : Z) (v_maxHeight : float) (v_minHeight : float) : float :=
let v_voxelHeight := (PrimFloat.div (PrimFloat.sub v_maxHeight v_minHeight) (pow2f v_vZoom)) in
let v_minAltitude := (PrimFloat.add (PrimFloat.mul (of_Z v_vIndex) v_voxelHeight) v_minHeight) in
v_minAltitude.

(* transform.calcBitIndex  [transform/convert_quadkey_and_Vertical_id.go] — one pass through the body of the function's for loop: the new values of (maxHeight, minHeight, bitIndex) *)
Definition calcBitIndex_step (v_altitude : float) (v_outputZoom : Z) (v_maxHeight : float) (v_minHeight : float) (v_bitIndex : Z) (v_i : Z) : (float * float * Z)%type :=
let v_bit := (Z.shiftl v_bitIndex 1) in
let v_borderHeight := (PrimFloat.add (PrimFloat.div (PrimFloat.sub v_maxHeight v_minHeight) (0x1p+1)%float) v_minHeight) in
let '(v_bit, v_minHeight, v_maxHeight) := if (PrimFloat.leb v_borderHeight v_altitude)
then (let v_bit := (Z.add v_bit 1) in
let v_minHeight := v_borderHeight in
(v_bit, v_minHeight, v_maxHeight))
else (let v_bit := (Z.add v_bit 0) in
let v_maxHeight := v_borderHeight in
(v_bit, v_minHeight, v_maxHeight)) in
let v_bitIndex := v_bit in
(v_maxHeight, v_minHeight, v_bitIndex).

(* operated.GetShiftingSpatialID (value maxIndex)  [operated/shifting_spatial_id.go] — the value of the right-hand operand of the first wrap test `s > M || s < 0` (`maxIndex`) just before that statement, as a function of the parameters and of the value of hZoom *)
Definition GetShiftingSpatialID_maxIndex (v_x : Z) (v_y : Z) (v_v : Z) (v_hZoom : Z) : (option Z) :=
let v_maxIndex := (Ztrunc_f (PrimFloat.sub (pow2f v_hZoom) (0x1p+0)%float)) in
v_maxIndex.

(* every definition of this file, for `autounfold with sidgenf` *)
Create HintDb sidgenf.
#[global] Hint Unfold DegreeToRadian : sidgenf.
#[global] Hint Unfold RadianToDegree : sidgenf.
#[global] Hint Unfold getHorizontalTileIdOnPoint_lonIndex : sidgenf.
#[global] Hint Unfold getHorizontalTileIdOnPoint_latIndex : sidgenf.
#[global] Hint Unfold getVerticalTileIdOnAltitude_vIndex : sidgenf.
#[global] Hint Unfold getAltitudeOnVerticalIndexAndZoom : sidgenf.
#[global] Hint Unfold getVertexOnVoxelOffset_latIndexFloat : sidgenf.
#[global] Hint Unfold getVertexOnVoxelOffset_northLat : sidgenf.
#[global] Hint Unfold getVertexOnVoxelOffset_southLat : sidgenf.
#[global] Hint Unfold getVertexOnVoxelOffset_westLon : sidgenf.
#[global] Hint Unfold getVertexOnVoxelOffset_eastLon : sidgenf.
#[global] Hint Unfold getVertexOnVoxelOffset_vTopAlt : sidgenf.
#[global] Hint Unfold getCenterPointOnVoxelOffset_centerLon : sidgenf.
#[global] Hint Unfold getCenterPointOnVoxelOffset_centerLat : sidgenf.
#[global] Hint Unfold getCenterPointOnVoxelOffset_centerAlt : sidgenf.
#[global] Hint Unfold Point_SetLon : sidgenf.
#[global] Hint Unfold Point_SetLat : sidgenf.
#[global] Hint Unfold convertVerticallIDToBit_spatialIDMaxHeight : sidgenf.
#[global] Hint Unfold convertVerticallIDToBit_spatialIDMinHeight : sidgenf.
#[global] Hint Unfold convertBitToVerticalID_voxelHeight : sidgenf.
#[global] Hint Unfold convertBitToVerticalID_maxAltitude : sidgenf.
#[global] Hint Unfold convertBitToVerticalID_minAltitude : sidgenf.
#[global] Hint Unfold calcBitIndex_step : sidgenf.
#[global] Hint Unfold GetShiftingSpatialID_maxIndex : sidgenf.
