(* DC18.v — dispatch entries of property C18 (projection to a planar CRS and back).
   corr = the wrapper model (Project.v), driven by the library's own point transform as oracle, reproduces the observed lists bit for bit;
   prop = the checkers of the property accept the observed output; class = the one open finding class alt_fed_to_datum (D17 of
   DESIGN 5.3; D18 and D19 are repaired in /repo: dbefda0, e07a6eb - their former witnesses are regression cases of the harness). *)
From Coq Require Import ZArith String List Bool Floats QArith.
From SID Require Import Base Wire F64 ExactRef Project.
Import ListNotations.
Open Scope string_scope.

  (* the third-party transform, asked from the harness: wgs84.SafeTransform(EPSG().Code(from), EPSG().Code(to))(a, b, c) *)
  Definition tr_of (oracle : oracle_t) (from to : Z) (a b c : float) : option (float * float * float) :=
    match oracle "transform" [VZ from; VZ to; VF a; VF b; VF c] with
    | VL [VF x; VF y; VF z] => Some (x, y, z)
    | _ => None
    end.
  Definition ofun18 (oracle : oracle_t) (name : string) (x : float) : float :=
    match oracle name [VF x] with VF r => r | _ => nan end.
  Definition yref_of (oracle : oracle_t) : float -> float :=
    north_ref (ofun18 oracle "tan") (ofun18 oracle "cos") (ofun18 oracle "log").

  Definition as_gpoint (v : val) : option point :=
    match v with VL [VF a; VF b; VF c] => Some {| plon := a; plat := b; palt := c |} | _ => None end.
  Definition as_ppoint (v : val) : option ppoint :=
    match v with VL [VF a; VF b; VF c] => Some {| px := a; py := b; pz := c |} | _ => None end.
  Definition of_gpoint (p : point) : val := VL [VF (plon p); VF (plat p); VF (palt p)].
  Definition of_ppoint (q : ppoint) : val := VL [VF (px q); VF (py q); VF (pz q)].
  Definition dec_list {A} (dec : val -> option A) (v : val) : option (list A) :=
    match as_L v with Some l => all_opt (map dec l) | None => None end.
  (* the code of a SpatialIdError as the harness reports it (the part of Error() before the first comma) *)
  Definition ekind_name (k : ekind) : string :=
    match k with EInputValue => "InputValueError" | EOptionFailed => "OptionFailedError" | EValueConvert => "ValueConvertError"
               | EOther => "OtherError" end.
  (* observed (list, error): no error = the list itself; an error = VE (VL [list; VS code]) *)
  Definition obs_list {A} (dec : val -> option A) (obs : val) : option (list A * option string) :=
    match obs with
    | VPanic | VTimeout => None
    | VE (VL [pl; VS code]) => match dec_list dec pl with Some l => Some (l, Some code) | None => None end
    | VE _ => None
    | _ => match dec_list dec obs with Some l => Some (l, None) | None => None end
    end.
  Definition res_val {A} (enc : A -> val) (r : list A * option ekind) : val :=
    let v := VL (map enc (fst r)) in match snd r with Some k => VE (VL [v; VS (ekind_name k)]) | None => v end.
  Definition kind_eqb (m : option ekind) (o : option string) : bool :=
    match m, o with
    | None, None => true
    | Some k, Some c => String.eqb (ekind_name k) c
    | _, _ => false
    end.
  Definition corr_res {A} (eqb : A -> A -> bool) (m : list A * option ekind) (o : list A * option string) : bool :=
    kind_eqb (snd m) (snd o) && forall2b eqb (fst m) (fst o).
  Definition is_some {A} (o : option A) : bool := match o with None => false | Some _ => true end.
  (* whatever goes wrong in these two functions is reported as a conversion error (errors.ValueConvertErrorCode) *)
  Definition conv_kind_ok (o : option string) : bool :=
    match o with None => true | Some c => String.eqb c "ValueConvertError" end.
  Definition is_none {A} (o : option A) : bool := match o with None => true | Some _ => false end.

  (* per-point status of a numeric claim *)
  Inductive pstat := POk | PAlt | PBad.
  Definition worst (l : list pstat) : pstat :=
    if existsb (fun s => match s with PBad => true | _ => false end) l then PBad
    else if existsb (fun s => match s with PAlt => true | _ => false end) l then PAlt else POk.
  Fixpoint map2 {A B C} (f : A -> B -> C) (l : list A) (m : list B) : list C :=
    match l, m with a :: l', b :: m' => f a b :: map2 f l' m' | _, _ => [] end.

  (* the property's domain, decided by the entry itself on the arguments. Every entry is TOTAL on well-formed wire values:
     - what the wrapper model decides for any floats whatsoever (unknown code => conversion error; the wrapper contract against the
       library's own answers: order, altitude bits, error flag and code) is judged on every input, valid or not;
     - the numeric claims and "no error on EPSG:3857" are made for valid points only (finite, |lon| <= 180, |lat| <= limit, |alt| <= 2^25 m);
     - a case with a FINITE altitude beyond +-2^25 m under a known code, and a round trip of a point that is not valid, are answered
       `skipped` (the entry itself confirmed why): neither an evaluation nor a pass. *)
  Definition zone_beyond (z : alt_zone) : bool := match z with ZBeyond => true | _ => false end.
  Definition beyond_points (ps : list point) : bool := existsb (fun p => zone_beyond (alt_zone_of (palt p))) ps.
  Definition beyond_ppoints (qs : list ppoint) : bool := existsb (fun q => zone_beyond (alt_zone_of (pz q))) qs.
  Definition valid_points (ps : list point) : bool :=
    forallb (fun p => lonlat_valid (plon p) (plat p) &&
                      match alt_zone_of (palt p) with ZIn | ZDeep => true | _ => false end) ps.
  Definition skipped_case : verdict := mkv true true "skipped" VNil.

  Section WithOracle.
    Variable oracle : oracle_t.
    Let tr := tr_of oracle.
    Let yref := yref_of oracle.

    (* the same point at height 0: is the forward claim met there? (decides that a deviation is caused by the height) *)
    Definition fwd_ok_at_0 (p : point) : bool :=
      match tr geo_crs orth_crs (plon p) (plat p) 0%float with
      | Some (x, y, _) => check_fwd_xy yref p {| px := x; py := y; pz := 0%float |}
      | None => false
      end.
    Definition rt_ok_at_0 (p : point) : bool :=
      match tr geo_crs orth_crs (plon p) (plat p) 0%float with
      | Some (x, y, _) =>
          check_fwd_xy yref p {| px := x; py := y; pz := 0%float |} &&
          match tr orth_crs geo_crs x y 0%float with
          | Some (a, b, _) => let '(g, e) := new_point a b 0%float in
                              negb e && check_back {| plon := plon p; plat := plat p; palt := 0%float |} g
          | None => false
          end
      | None => false
      end.
    (* alt_fed_to_datum, forward: the northing alone is off, by no more than the law of the finding (Project.fwd_excused), and the
       same point at height 0 meets the nominal tolerance *)
    Definition fwd_stat (p : point) (q : ppoint) : pstat :=
      if check_fwd_xy yref p q then POk
      else if fwd_excused yref p q then (if fwd_ok_at_0 p then PAlt else PBad) else PBad.

    (* EPSG:3857 is defined on every valid point, so a forward error there is a failure of the claim. The one explicable case: the
       first point the transform refuses lies in the singular zone of the geocentric detour (ZDeep: the exact centre of the earth
       gives NaN, which the library refuses) and is accepted at height 0 *)
    Definition fwd_refusal_stat (ps : list point) : pstat :=
      match find (fun p => is_none (tr geo_crs orth_crs (plon p) (plat p) (palt p))) ps with
      | Some p => match alt_zone_of (palt p) with
                  | ZDeep => if alt_nonzero (palt p) then (if fwd_ok_at_0 p then PAlt else PBad) else PBad
                  | _ => PBad
                  end
      | None => PBad
      end.

    (* the error flag agrees with the transform asked at the points' heights, or else at height 0 *)
    Definition err_agrees (oe : bool) (anyerr : (float -> float) -> bool) : bool :=
      if Bool.eqb oe (anyerr (fun a => a)) then true else Bool.eqb oe (anyerr (fun _ => 0%float)).
    Definition fwd_elem_ok (crs : Z) (p : point) (q : ppoint) : bool :=
      feqb_bits (pz q) (palt p) &&
      (if match tr geo_crs crs (plon p) (plat p) (palt p) with
          | Some (x, y, _) => feqb_bits x (px q) && feqb_bits y (py q) | None => false end then true
       else match tr geo_crs crs (plon p) (plat p) 0%float with
            | Some (x, y, _) => feqb_bits x (px q) && feqb_bits y (py q) | None => false end).
    (* element i is NewPoint(transform of projected point i) with NewPoint's own altitude handling *)
    Definition back_elem_ok (crs : Z) (q : ppoint) (g : point) : bool :=
      if match tr crs geo_crs (px q) (py q) (pz q) with
         | Some (x, y, _) => point_eqb (fst (new_point x y (pz q))) g | None => false end then true
      else match tr crs geo_crs (px q) (py q) 0%float with
           | Some (x, y, _) => point_eqb (fst (new_point x y (pz q))) g | None => false end.

    (* ---- ConvertPointListToProjectedPointList(points, crs) ---- *)
    Definition d_to_projected (args : list val) (obs : val) : verdict :=
      match args with
      | [pl; VZ crs] =>
          match dec_list as_gpoint pl, obs_list as_ppoint obs with
          | Some ps, Some o =>
              let m := to_projected epsg_known tr ps crs in
              let corr := corr_res ppoint_eqb m o in
              let '(ol, ok) := o in
              let oe := is_some ok in
              if negb (epsg_known crs) then
                (* an unknown EPSG code is reported as a conversion error - for every list (the empty one included) of any points
                   whatsoever: the coordinates do not matter *)
                mkv corr (oe && conv_kind_ok ok) "-" (res_val of_ppoint m)
              else if beyond_points ps then skipped_case
              else
                let valid := valid_points ps in
                (* error exactly when the transform refuses a point; without error, element i is the transform of point i (order) with
                   point i's altitude bit for bit. The transform may be asked at the point's height (as the code does today) or at height 0
                   (the repair of alt_fed_to_datum): the property does not say which. *)
                let structural :=
                  err_agrees oe (fun h => existsb (fun p => is_none (tr geo_crs crs (plon p) (plat p) (h (palt p)))) ps) &&
                  (if oe then true else forall2b (fwd_elem_ok crs) ps ol) in
                (* EPSG:3857 is defined on every valid point: no error expected there *)
                let total := negb (valid && (crs =? orth_crs)%Z && oe) in
                let st := if negb total then fwd_refusal_stat ps
                          else if valid && (crs =? orth_crs)%Z && negb oe && structural then worst (map2 fwd_stat ps ol) else POk in
                let numeric := match st with POk => true | _ => false end in
                let prop := structural && numeric && total && conv_kind_ok ok in
                let cls := if corr && structural && conv_kind_ok ok then match st with PAlt => "alt_fed_to_datum" | _ => "-" end else "-" in
                mkv corr prop cls (res_val of_ppoint m)
          | _, _ => bad_case
          end
      | _ => bad_case
      end.

    (* ---- ConvertProjectedPointListToPointList(projected points, crs) ---- *)
    (* a projected point is refused when the transform refuses it or NewPoint refuses the transformed coordinates *)
    Definition back_refusedb (crs : Z) (h : float -> float) (q : ppoint) : bool :=
      match tr crs geo_crs (px q) (py q) (h (pz q)) with
      | Some (x, y, _) => snd (new_point x y (pz q))
      | None => true
      end.
    Definition d_to_geographic (args : list val) (obs : val) : verdict :=
      match args with
      | [pl; VZ crs] =>
          match dec_list as_ppoint pl, obs_list as_gpoint obs with
          | Some qs, Some o =>
              let m := to_geographic epsg_known tr qs crs in
              let corr := corr_res point_eqb m o in
              let '(ol, ok) := o in
              let oe := is_some ok in
              if negb (epsg_known crs) then mkv corr (oe && conv_kind_ok ok) "-" (res_val of_gpoint m)
              else if beyond_ppoints qs then skipped_case
              else
                (* error exactly when some point is refused (by the transform or by NewPoint); without error: element i is
                   NewPoint(transform of point i) - order - and carries point i's altitude bit for bit *)
                let order :=
                  err_agrees oe (fun h => existsb (back_refusedb crs h) qs) &&
                  (if oe then true else forall2b (back_elem_ok crs) qs ol) in
                let alts := if oe then true else forall2b (fun q g => feqb_bits (palt g) (pz q)) qs ol in
                mkv corr (order && alts && conv_kind_ok ok) "-" (res_val of_gpoint m)
          | _, _ => bad_case
          end
      | _ => bad_case
      end.

    (* ---- ProjectRoundTrip(points): through consts.OrthCrs and back; observed [GeoCrs; OrthCrs; forward result; backward result] ---- *)
    (* alt_fed_to_datum, there and back: each half meets its nominal tolerance or deviates by no more than the law of the finding
       (latitude axis only), and the same point at height 0 meets the nominal tolerances all the way *)
    Definition rt_stat (p : point) (qg : ppoint * point) : pstat :=
      let '(q, g) := qg in
      if check_fwd_xy yref p q && check_back p g then POk
      else if (if check_fwd_xy yref p q then true else fwd_excused yref p q) && (if check_back p g then true else back_excused p g)
           then (if rt_ok_at_0 p then PAlt else PBad) else PBad.
    (* when the way back ended in an error: which points are to blame. A refused image is a failed round trip of its point - explicable
       by the finding only when the point's latitude is within the law of the limit; the points the code never reached are judged on
       what the transform would have returned for them. *)
    Definition rt_stat_refused (p : point) (q : ppoint) : pstat :=
      match back_point tr orth_crs q with
      | inl g => rt_stat p (q, g)
      | inr _ => if (if check_fwd_xy yref p q then true else fwd_excused yref p q) && refusal_excused p
                 then (if rt_ok_at_0 p then PAlt else PBad) else PBad
      end.
    Definition d_round_trip (args : list val) (obs : val) : verdict :=
      match args, obs with
      | [pl], VL [VZ cg; VZ co; fo; bo] =>
          match dec_list as_gpoint pl, obs_list as_ppoint fo, obs_list as_gpoint bo with
          | Some ps, Some f, Some b =>
              (* the round-trip claim is made for valid points only *)
              if negb (valid_points ps) then skipped_case else
              let m := round_trip epsg_known tr ps orth_crs in
              let consts_ok := (cg =? geo_crs)%Z && (co =? orth_crs)%Z in
              let corr := consts_ok && corr_res ppoint_eqb (fst m) f && corr_res point_eqb (snd m) b in
              let fwd_shape := consts_ok && negb (is_some (snd f)) && (length (fst f) =? length ps)%nat in
              let shape := fwd_shape && negb (is_some (snd b)) && (length (fst b) =? length ps)%nat in
              (* every valid point must come back: an error on the way back is a failed round trip *)
              let st := if shape then worst (map2 rt_stat ps (combine (fst f) (fst b)))
                        else if fwd_shape && is_some (snd b) then
                               match worst (map2 rt_stat_refused ps (fst f)) with POk => PBad | s => s end
                             else if consts_ok && is_some (snd f) then fwd_refusal_stat ps
                             else PBad in
              let prop := shape && match st with POk => true | _ => false end in
              let cls := if corr && consts_ok then match st with PAlt => "alt_fed_to_datum" | _ => "-" end else "-" in
              mkv corr prop cls (VL [VZ geo_crs; VZ orth_crs; res_val of_ppoint (fst m); res_val of_gpoint (snd m)])
          | _, _, _ => bad_case
          end
      | _, _ => bad_case
      end.

    (* ---- CallSequence(steps): consecutive calls made back to back in one process; step = [direction (0 forward, 1 backward); list; crs].
       The model is stateless (Project.run_history): every step is judged exactly as the same call on its own, so an answer that depends
       on what was called before - a cache keyed on the code, a stale CRS - shows as a failure of that step. ---- *)
    Definition d_step (st ob : val) : verdict :=
      match st with
      | VL [VZ dir; pl; VZ crs] =>
          if (dir =? 0)%Z then d_to_projected [pl; VZ crs] ob
          else if (dir =? 1)%Z then d_to_geographic [pl; VZ crs] ob else bad_case
      | _ => bad_case
      end.
    Definition d_sequence (args : list val) (obs : val) : verdict :=
      match args, obs with
      | [VL steps], VL obss =>
          if negb (length steps =? length obss)%nat then bad_case
          else
            let vs := map2 d_step steps obss in
            if existsb (fun v => String.eqb (v_class v) "bad-case") vs then bad_case
            else if existsb (fun v => String.eqb (v_class v) "skipped") vs then skipped_case
            else
              let unexcused := existsb (fun v => negb (v_prop v) && String.eqb (v_class v) "-") vs in
              let cls := if unexcused then "-"
                         else match find (fun v => negb (String.eqb (v_class v) "-")) vs with Some v => v_class v | None => "-" end in
              mkv (forallb v_corr vs) (forallb v_prop vs) cls (VL (map v_model vs))
      | _, _ => bad_case
      end.
  End WithOracle.

  (* ---- EpsgCodes(): the table the model calls "known" is the library's table (sorted) ---- *)
  Definition d_epsg_codes (args : list val) (obs : val) : verdict :=
    match as_LZ obs with
    | Some l => mkv (forall2b Z.eqb l epsg_table_sorted) true "-" (of_LZ epsg_table_sorted)
    | None => bad_case
    end.

Definition table_C18 : table :=
  [("ConvertPointListToProjectedPointList", d_to_projected); ("ConvertProjectedPointListToPointList", d_to_geographic);
   ("ProjectRoundTrip", d_round_trip); ("CallSequence", d_sequence); ("EpsgCodes", fun _ => d_epsg_codes)].
