(* MergeCheck.v — the run-time checker of property C04 (definitions only; soundness and completeness are proved in MergeCheckProof.v).
   It never uses the algorithm's counting: "completely filled" is decided by the dyadic-box reference (every unit cell of the
   target voxel lies under some eligible input), the region comparison runs over unit cells at the maximal zooms of the input. *)
From Coq Require Import ZArith Lia List Bool.
From SID Require Import Base Str Ids ZoomCore Merge.
Import ListNotations.
Open Scope Z_scope.

(* specification-level ancestor at the target zooms: floor on all three axes *)
Definition tgt (H V : Z) (i : eid) : eid :=
  {| eh := H; ex := anc (eh i - H) (ex i); ey := anc (eh i - H) (ey i); ev := V; ef := anc (ev i - V) (ef i) |}.

(* the voxel j contains the cell c (c at zooms not coarser than j, and the floor ancestor of c at j's zooms is j) *)
Definition coversb (j c : eid) : bool :=
  (eh j <=? eh c) && (ev j <=? ev c) &&
  (Z.shiftr (ex c) (eh c - eh j) =? ex j) && (Z.shiftr (ey c) (eh c - eh j) =? ey j) && (Z.shiftr (ef c) (ev c - ev j) =? ef j).

Definition subsetb (a b : list eid) : bool := forallb (fun x => memb eid_eqb x b) a.
Definition set_eqb (a b : list eid) : bool := subsetb a b && subsetb b a.
Definition nodup_eids (l : list eid) : bool := list_eqb eid_eqb (nodupb eid_eqb l) l.

Section Check.
  Variables H V : Z.
  Variable ids : list eid.
  Let MH := maxz eh ids.
  Let MV := maxz ev ids.

  (* number of unit cells of a voxel at the maximal zooms *)
  Definition vol (j : eid) : Z := 2 ^ (MH - eh j) * 2 ^ (MH - eh j) * 2 ^ (MV - ev j).
  Definition volsum (l : list eid) : Z := fold_right (fun j s => vol j + s) 0 l.
  (* the eligible inputs below the target voxel T *)
  Definition members (T : eid) : list eid := filter (fun j => eligible H V j && eid_eqb (tgt H V j) T) ids.
  (* the target voxel T is completely filled by eligible inputs. The cells of T are enumerated only when the members have at least
     the volume of T (a necessary condition), so the enumeration never exceeds the number of cells the function itself enumerates *)
  Definition fullb (T : eid) : bool :=
    (vol T <=? volsum (members T)) &&
    forallb (fun c => existsb (fun j => coversb j c) (members T)) (units MH MV T).

  (* the expected output set: ineligible inputs unchanged, filled targets, members of unfilled targets unchanged *)
  Definition ref : list eid :=
    flat_map (fun i => if eligible H V i then (if fullb (tgt H V i) then [tgt H V i] else [i]) else [i]) ids.

  Definition zooms_within (l : list eid) : bool :=
    forallb (fun o => (0 <=? eh o) && (eh o <=? MH) && (0 <=? ev o) && (ev o <=? MV)) l.
  Definition covered_by (a b : list eid) : bool :=
    forallb (fun i => forallb (fun c => existsb (fun o => coversb o c) b) (units MH MV i)) a.
  Definition inel (l : list eid) : list eid := filter (fun i => negb (eligible H V i)) l.
  Definition elg (l : list eid) : list eid := filter (eligible H V) l.
  (* the union of the voxels of obs equals the union of the voxels of ids: the voxels coarser than the target must be the same
     on both sides (they are never subdivided, by the function or here); the others are compared on unit cells at the maximal
     zooms of the input — exactly the cells the function itself enumerates *)
  Definition region_eqb (obs : list eid) : bool :=
    set_eqb (inel obs) (inel ids) && zooms_within (elg obs) && covered_by (elg ids) (elg obs) && covered_by (elg obs) (elg ids).

  Definition check_merge (obs : list eid) : bool :=
    nodup_eids obs && set_eqb obs ref && region_eqb obs.
End Check.
