(* ShiftF.v — the float layer of operated.GetShiftingSpatialID (C07): an executable twin `wrap_f` of the horizontal wrap that goes through
   the same binary64 operations as the Go code (math.Pow(2, float64(h)), float64(int64), math.Mod, int64(float64)) and the same
   repeated-addition loop, on Coq primitive floats (F64.v); proof that it equals (x + dx) mod 2^h whenever x + dx < 2^53 (and 0 <= h <= 52);
   witness that it does NOT beyond that bound (x + dx = 2^53 + 1: float64() rounds to even, the code returns 0 where the exact answer is 1).
   Shift.v (shared) is left untouched: its closed form `wrap` is what the other properties build on; this file ties it to the float code.
   The section "bridge" repeats, verbatim, the few Flocq bridging lemmas of PtBridge.v that are needed (kept private in a module so that
   this file depends on shared files only). *)
From Coq Require Import ZArith Reals Lia Lra Floats List Bool String.
From Flocq Require Import Core BinarySingleNaN Mult_error.
From Flocq Require PrimFloat.
From SID Require Import Base Str Ids F64 Shift.
Import ListNotations.
Open Scope Z_scope.

Module FB.
#[local] Instance Hprec : Prec_gt_0 FloatOps.prec := eq_refl _.
#[local] Instance Hmax : Prec_lt_emax FloatOps.prec FloatOps.emax := eq_refl _.

Notation pfloat := PrimFloat.float.
Notation b64 := (binary_float FloatOps.prec FloatOps.emax).
Notation fexp64 := (FLT_exp (-1074) 53).
Notation fmt := (generic_format radix2 fexp64).
Notation rnd := (round radix2 fexp64 ZnearestE).

(* the real value of a primitive float (0 for infinities and NaN) and its finiteness *)
Definition fval (x : pfloat) : R := B2R (PrimFloat.Prim2B x).
Definition ffin (x : pfloat) : bool := is_finite (PrimFloat.Prim2B x).

Lemma IZR_pow2 d : 0 <= d -> IZR (2 ^ d) = bpow radix2 d.
Proof. intros H. rewrite <- IZR_Zpower by exact H. reflexivity. Qed.


Lemma rnd_fmt x : fmt x -> rnd x = x.
Proof. intros H. apply round_generic; [apply valid_rnd_N | exact H]. Qed.

(* an integer multiple of a power of two with a 53-bit multiplier is representable *)
Lemma fmt_int (m e : Z) : Z.abs m < 2 ^ 53 -> -1074 <= e -> fmt (IZR m * bpow radix2 e).
Proof.
  intros Hm He. apply generic_format_FLT. exists (Float radix2 m e); [reflexivity | exact Hm | exact He].
Qed.
Lemma fmt_IZR (m : Z) : Z.abs m <= 2 ^ 53 -> fmt (IZR m).
Proof.
  intros Hm. destruct (Z.eq_dec (Z.abs m) (2 ^ 53)) as [E|N].
  - assert (M : m = 2 ^ 53 \/ m = - 2 ^ 53) by lia.
    destruct M as [-> | ->].
    + replace (IZR (2 ^ 53)) with (IZR 1 * bpow radix2 53)%R by (rewrite (IZR_pow2 53) by lia; simpl; ring).
      apply fmt_int; simpl; lia.
    + replace (IZR (- 2 ^ 53)) with (IZR (-1) * bpow radix2 53)%R by (rewrite opp_IZR, (IZR_pow2 53) by lia; simpl; ring).
      apply fmt_int; simpl; lia.
  - replace (IZR m) with (IZR m * bpow radix2 0)%R by (simpl; ring). apply fmt_int; lia.
Qed.


Lemma sub_val x y : ffin x = true -> ffin y = true -> (Rabs (rnd (fval x - fval y)) < bpow radix2 1024)%R ->
  fval (x - y) = rnd (fval x - fval y) /\ ffin (x - y) = true.
Proof.
  intros Fx Fy Hov. unfold fval, ffin in *.
  assert (E : PrimFloat.Prim2B (x - y)%float = @Bminus _ _ Hprec Hmax mode_NE (PrimFloat.Prim2B x) (PrimFloat.Prim2B y))
    by exact (PrimFloat.sub_equiv x y).
  pose proof (Bminus_correct _ _ Hprec Hmax mode_NE _ _ Fx Fy) as H.
  change (SpecFloat.fexp FloatOps.prec FloatOps.emax) with fexp64 in H. change (round_mode mode_NE) with ZnearestE in H.
  rewrite Rlt_bool_true in H by exact Hov.
  destruct H as (H1 & H2 & _). rewrite E. auto.
Qed.

Lemma opp_val x : fval (- x) = (- fval x)%R /\ ffin (- x) = ffin x.
Proof.
  unfold fval, ffin. rewrite PrimFloat.opp_equiv. split; [apply B2R_Bopp | apply is_finite_Bopp].
Qed.

Lemma ltb_val x y : ffin x = true -> ffin y = true -> (x <? y)%float = Rlt_bool (fval x) (fval y).
Proof. intros Fx Fy. rewrite PrimFloat.ltb_equiv. apply Bltb_correct; assumption. Qed.

(* ---- value of a float given by its decomposition ---- *)
Lemma fval_SF x : fval x = SF2R radix2 (Prim2SF x).
Proof. unfold fval. rewrite <- SF2R_B2SF, PrimFloat.B2SF_Prim2B. reflexivity. Qed.
Lemma ffin_SF x : ffin x = is_finite_SF (Prim2SF x).
Proof. unfold ffin. rewrite <- PrimFloat.B2SF_Prim2B. now destruct (PrimFloat.Prim2B x). Qed.

(* ---- the power-of-two constants math.Pow(2, k), by complete evaluation over the exponents in use ---- *)
Definition pow2_ok (k : Z) : bool :=
  match Prim2SF (pow2f k) with
  | S754_finite false m e => (e <=? k) && (Zpos m =? 2 ^ (k - e))
  | _ => false
  end.
Lemma pow2_ok_value k : pow2_ok k = true -> fval (pow2f k) = bpow radix2 k /\ ffin (pow2f k) = true.
Proof.
  unfold pow2_ok. intros H. rewrite fval_SF, ffin_SF.
  destruct (Prim2SF (pow2f k)) as [s|s| |s m e]; try discriminate. destruct s; [discriminate|].
  apply andb_true_iff in H. destruct H as [He Hm]. apply Z.leb_le in He. apply Z.eqb_eq in Hm.
  split; [|reflexivity]. cbn [SF2R cond_Zopp]. unfold F2R. cbn [Fnum Fexp]. rewrite Hm.
  rewrite IZR_pow2 by lia. rewrite <- bpow_plus. f_equal. lia.
Qed.

(* ---- the executable floor is the real floor of the float's value ---- *)
Lemma floor_F2R (v e : Z) :
  Zfloor (IZR v * bpow radix2 e) =
  match e with Z0 => v | Zpos p => v * Z.pow_pos 2 p | Zneg p => v / Z.pow_pos 2 p end.
Proof.
  destruct e as [|p|p].
  - cbn. rewrite Rmult_1_r. apply Zfloor_IZR.
  - rewrite <- IZR_pow2 by lia. rewrite <- mult_IZR, Zfloor_IZR. reflexivity.
  - change (Z.pow_pos 2 p) with (2 ^ Zpos p).
    assert (Hp : 0 < 2 ^ Zpos p) by (apply Z.pow_pos_nonneg; lia).
    apply Zfloor_imp.
    pose proof (Z.div_mod v (2 ^ Zpos p) ltac:(lia)) as Hdm.
    pose proof (Z.mod_pos_bound v (2 ^ Zpos p) Hp) as Hm.
    set (q := v / 2 ^ Zpos p) in *.
    assert (E : bpow radix2 (Zneg p) = (/ IZR (2 ^ Zpos p))%R).
    { rewrite IZR_pow2 by lia. rewrite <- bpow_opp. reflexivity. }
    rewrite E. assert (Hpr : (0 < IZR (2 ^ Zpos p))%R) by (apply IZR_lt; exact Hp).
    assert (H1 : (IZR q * IZR (2 ^ Zpos p) <= IZR v)%R) by (rewrite <- mult_IZR; apply IZR_le; lia).
    assert (H2 : (IZR v < IZR (q + 1) * IZR (2 ^ Zpos p))%R) by (rewrite <- mult_IZR; apply IZR_lt; lia).
    split.
    + apply Rmult_le_reg_r with (1 := Hpr). rewrite Rmult_assoc, Rinv_l by lra. lra.
    + apply Rmult_lt_reg_r with (1 := Hpr). rewrite Rmult_assoc, Rinv_l by lra. lra.
Qed.

Theorem Zfloor_f_spec (f : pfloat) : ffin f = true -> Zfloor_f f = Some (Zfloor (fval f)).
Proof.
  unfold ffin, fval. intros Hfin. unfold Zfloor_f. rewrite <- PrimFloat.B2SF_Prim2B.
  destruct (PrimFloat.Prim2B f) as [s|s| |s m e Hb]; try discriminate; cbn [B2SF B2R].
  - now rewrite Zfloor_IZR.
  - f_equal. unfold F2R. cbn [Fnum Fexp]. rewrite floor_F2R.
    destruct s; reflexivity.
Qed.

(* ---- float64(int64) ---- *)
Lemma of_uint63_val (z : Z) : 0 <= z <= 2 ^ 53 ->
  fval (of_uint63 (Uint63.of_Z z)) = IZR z /\ ffin (of_uint63 (Uint63.of_Z z)) = true.
Proof.
  intros Hz. unfold fval, ffin.
  assert (E : PrimFloat.Prim2B (of_uint63 (Uint63.of_Z z)) =
              @binary_normalize _ _ Hprec Hmax mode_NE (Uint63.to_Z (Uint63.of_Z z)) 0 false)
    by exact (PrimFloat.of_int63_equiv (Uint63.of_Z z)).
  assert (T : Uint63.to_Z (Uint63.of_Z z) = z).
  { rewrite Uint63.of_Z_spec. apply Z.mod_small. split; [lia|].
    apply Z.le_lt_trans with (2 ^ 53); [lia|]. reflexivity. }
  rewrite T in E.
  pose proof (binary_normalize_correct _ _ Hprec Hmax mode_NE z 0 false) as H.
  cbv zeta in H.
  change (SpecFloat.fexp FloatOps.prec FloatOps.emax) with fexp64 in H. change (round_mode mode_NE) with ZnearestE in H.
  assert (V : F2R (Float radix2 z 0) = IZR z) by (unfold F2R; simpl; ring).
  rewrite V in H.
  rewrite (rnd_fmt (IZR z)) in H by (apply fmt_IZR; lia).
  rewrite Rlt_bool_true in H.
  - destruct H as (H1 & H2 & _). rewrite E. auto.
  - rewrite <- abs_IZR. apply Rle_lt_trans with (IZR (2 ^ 53)); [apply IZR_le; lia|].
    rewrite (IZR_pow2 53) by lia. apply bpow_lt. reflexivity.
Qed.
Lemma of_Z_val (z : Z) : Z.abs z <= 2 ^ 53 -> fval (of_Z z) = IZR z /\ ffin (of_Z z) = true.
Proof.
  intros Hz. destruct z as [|p|p]; unfold of_Z.
  - split; vm_compute; reflexivity.
  - apply of_uint63_val. lia.
  - destruct (of_uint63_val (Zpos p) ltac:(lia)) as [V F].
    destruct (opp_val (of_uint63 (Uint63.of_Z (Zpos p)))) as [V' F'].
    rewrite V', F', V, F. split; [|reflexivity]. now rewrite <- opp_IZR.
Qed.


Lemma zero_val : fval 0%float = 0%R /\ ffin 0%float = true.
Proof. split; vm_compute; reflexivity. Qed.


(* ---- Go's int64(f) on an integral float ---- *)
Theorem Ztrunc_f_int (g : pfloat) (n : Z) : ffin g = true -> fval g = IZR n -> Ztrunc_f g = Some n.
Proof.
  intros Fg Vg. unfold Ztrunc_f. destruct zero_val as [Z0v Z0f].
  rewrite (ltb_val g 0 Fg Z0f), Z0v, Vg.
  destruct (Rlt_bool (IZR n) 0).
  - unfold Zceil_f. destruct (opp_val g) as [Vo Fo].
    rewrite Zfloor_f_spec by (rewrite Fo; exact Fg).
    rewrite Vo, Vg, <- opp_IZR, Zfloor_IZR. cbn. f_equal. lia.
  - rewrite Zfloor_f_spec by exact Fg. now rewrite Vg, Zfloor_IZR.
Qed.

Definition krange : list Z := map (fun n => Z.of_nat n) (seq 0 53).      (* 0 .. 52 *)
Lemma pow2_all : forallb pow2_ok krange = true.
Proof. vm_compute. reflexivity. Qed.
Lemma pow2f_value k : 0 <= k <= 52 -> fval (pow2f k) = bpow radix2 k /\ ffin (pow2f k) = true.
Proof.
  intros Hk. apply pow2_ok_value. apply (proj1 (forallb_forall _ _) pow2_all k).
  unfold krange. apply in_map_iff. exists (Z.to_nat k). split; [lia|]. apply in_seq. lia.
Qed.
End FB.

(* ---- the executable float twin ---- *)
(* maxIndex := int64(math.Pow(2, float64(hZoom)) - 1) *)
Definition max_index_f (h : Z) : option Z := Ztrunc_f (pow2f h - 1)%float.
(* int64(math.Pow(2, float64(hZoom))) : the increment of the loop *)
Definition tile_f (h : Z) : option Z := Ztrunc_f (pow2f h).
(* if s > maxIndex || s < 0 { for s < 0 { s += tile }; s = int64(math.Mod(float64(s), math.Pow(2, float64(hZoom)))) } *)
Definition wrap_f (fuel : nat) (i d h : Z) : option Z :=
  match max_index_f h, tile_f h with
  | Some mx, Some w =>
      let s := i + d in
      if (mx <? s) || (s <? 0)
      then match addloop fuel s w with
           | Some t => Ztrunc_f (fmod_int (of_Z t) (pow2f h))
           | None => None
           end
      else Some s
  | _, _ => None
  end.
(* fuel that suffices for the loop (Shift.addloop_fuel); refused (None) when it would exceed a small cap: the code then needs
   more than 4096 additions, which no case inside the property's quantifier (|dx| <= 4 * 2^h) does *)
Definition fuel_cap : Z := 4096.
Definition fuel_for (s w : Z) : option nat :=
  let n := Z.max 0 ((- s) / w + 1) + 1 in
  if n <=? fuel_cap then Some (Z.to_nat n) else None.
Definition wrap_fx (i d h : Z) : option Z :=
  match tile_f h with
  | Some w => match fuel_for (i + d) w with Some fuel => wrap_f fuel i d h | None => None end
  | None => None
  end.
Definition shift_eid_f (i : eid) (dx dy dv : Z) : option eid :=
  match wrap_fx (ex i) dx (eh i), wrap_fx (ey i) dy (eh i) with
  | Some x, Some y => Some {| eh := eh i; ex := x; ey := y; ev := ev i; ef := ef i + dv |}
  | _, _ => None
  end.
(* operated.GetShiftingSpatialID through the float layer; None = outside what this twin executes (fuel cap, non-finite float) *)
Definition shift_api_f (id : string) (dx dy dv : Z) : option string :=
  match parse_eid id with
  | None => Some EmptyString
  | Some i => option_map print_eid (shift_eid_f i dx dy dv)
  end.

(* ---- exactness ---- *)
Lemma one_val : FB.fval 1%float = 1%R /\ FB.ffin 1%float = true.
Proof. change 1%float with (pow2f 0). exact (FB.pow2f_value 0 ltac:(lia)). Qed.
Lemma pow2_le_53 h : 0 <= h <= 52 -> 2 ^ h < 2 ^ 53.
Proof. intros H. apply Z.pow_lt_mono_r; lia. Qed.
Lemma small_no_overflow z : Z.abs z <= 2 ^ 53 -> (Rabs (IZR z) < bpow radix2 1024)%R.
Proof.
  intros H. rewrite <- abs_IZR. apply Rle_lt_trans with (IZR (2 ^ 53)); [apply IZR_le; exact H|].
  rewrite (FB.IZR_pow2 53) by lia. apply bpow_lt. reflexivity.
Qed.

Lemma tile_f_exact h : 0 <= h <= 52 -> tile_f h = Some (2 ^ h).
Proof.
  intros Hh. destruct (FB.pow2f_value h Hh) as [V F]. unfold tile_f.
  apply FB.Ztrunc_f_int; [exact F|]. rewrite V. symmetry. apply FB.IZR_pow2. lia.
Qed.
Lemma max_index_f_exact h : 0 <= h <= 52 -> max_index_f h = Some (2 ^ h - 1).
Proof.
  intros Hh. destruct (FB.pow2f_value h Hh) as [V F]. destruct one_val as [V1 F1]. unfold max_index_f.
  pose proof (pow2_le_53 h Hh) as Hlt. pose proof (pow2_pos h ltac:(lia)) as Hpos.
  assert (E : (FB.fval (pow2f h) - FB.fval 1%float)%R = IZR (2 ^ h - 1)).
  { rewrite V, V1, minus_IZR, (FB.IZR_pow2 h) by lia. reflexivity. }
  assert (R : round radix2 (FLT_exp (-1074) 53) ZnearestE (FB.fval (pow2f h) - FB.fval 1%float) = IZR (2 ^ h - 1)).
  { rewrite E. apply FB.rnd_fmt. apply FB.fmt_IZR. lia. }
  destruct (FB.sub_val (pow2f h) 1%float F F1) as [V2 F2].
  { rewrite R. apply small_no_overflow. lia. }
  apply FB.Ztrunc_f_int; [exact F2|]. rewrite V2. exact R.
Qed.

(* what the loop returns: the argument itself when it is not negative, otherwise a value below the increment *)
Lemma addloop_shape fuel : forall s w t, 0 < w -> addloop fuel s w = Some t -> (0 <= s /\ t = s) \/ (s < 0 /\ 0 <= t < w).
Proof.
  induction fuel as [|n IH]; intros s w t Hw; cbn [addloop]; [discriminate|].
  destruct (Z.ltb_spec s 0) as [Hs|Hs].
  - intros H. right. split; [exact Hs|]. destruct (IH _ _ _ Hw H) as [[A ->]|[A B]]; lia.
  - intros [= <-]. left. lia.
Qed.

(* float64(t), math.Mod, int64(): exact on 0 <= t <= 2^53 *)
Lemma mod_f_exact t h : 0 <= h <= 52 -> 0 <= t <= 2 ^ 53 -> Ztrunc_f (fmod_int (of_Z t) (pow2f h)) = Some (t mod 2 ^ h).
Proof.
  intros Hh Ht. destruct (FB.pow2f_value h Hh) as [V F]. destruct (FB.of_Z_val t ltac:(lia)) as [Vt Ft].
  pose proof (pow2_pos h ltac:(lia)) as Hpos. pose proof (pow2_le_53 h Hh) as Hlt.
  unfold fmod_int. rewrite (FB.Zfloor_f_spec _ Ft), (FB.Zfloor_f_spec _ F), Vt, V.
  rewrite <- (FB.IZR_pow2 h) by lia. rewrite !Zfloor_IZR.
  rewrite Z.rem_mod_nonneg by lia.
  pose proof (Z.mod_pos_bound t (2 ^ h) Hpos) as Hm.
  destruct (FB.of_Z_val (t mod 2 ^ h) ltac:(lia)) as [Vm Fm].
  now apply FB.Ztrunc_f_int.
Qed.

(* MAIN: under x + dx < 2^53 the float twin computes the exact modular translation, whatever the (sufficient) fuel *)
Theorem wrap_f_exact fuel i d h : 0 <= h <= 52 -> i + d <= 2 ^ 53 ->
  addloop fuel (i + d) (2 ^ h) <> None -> wrap_f fuel i d h = Some ((i + d) mod 2 ^ h).
Proof.
  intros Hh Hs Hfuel. unfold wrap_f. rewrite max_index_f_exact, tile_f_exact by exact Hh. cbv zeta.
  pose proof (pow2_pos h ltac:(lia)) as Hpos. pose proof (pow2_le_53 h Hh) as Hlt.
  destruct ((2 ^ h - 1 <? i + d) || (i + d <? 0)) eqn:E.
  - destruct (addloop fuel (i + d) (2 ^ h)) as [t|] eqn:A; [|congruence].
    destruct (addloop_spec _ _ _ _ Hpos A) as [T0 Tm].
    assert (Tb : t <= 2 ^ 53) by (destruct (addloop_shape _ _ _ _ Hpos A) as [[_ ->]|[_ B]]; lia).
    rewrite mod_f_exact by (try exact Hh; lia). now rewrite Tm.
  - apply orb_false_iff in E. destruct E as [E1 E2]. apply Z.ltb_ge in E1, E2.
    f_equal. symmetry. apply Z.mod_small. lia.
Qed.
Lemma fuel_for_ok s w fuel : 0 < w -> fuel_for s w = Some fuel -> addloop fuel s w <> None.
Proof.
  intros Hw. unfold fuel_for. destruct (Z.leb_spec (Z.max 0 (- s / w + 1) + 1) fuel_cap); [|discriminate].
  intros [= <-]. apply addloop_fuel; [exact Hw|]. rewrite Z2Nat.id by lia. lia.
Qed.
(* with the computed fuel: exact, and never refused while the shift stays within 4094 world-widths below zero *)
Theorem wrap_fx_exact i d h : 0 <= h <= 52 -> - 4094 * 2 ^ h <= i + d <= 2 ^ 53 ->
  wrap_fx i d h = Some (wrap i d (2 ^ h)).
Proof.
  intros Hh Hs. unfold wrap_fx. rewrite tile_f_exact by exact Hh.
  pose proof (pow2_pos h ltac:(lia)) as Hpos. rewrite wrap_mod by exact Hpos.
  destruct (fuel_for (i + d) (2 ^ h)) as [fuel|] eqn:Fu.
  - apply wrap_f_exact; [exact Hh|lia|]. now apply fuel_for_ok.
  - exfalso. unfold fuel_for in Fu.
    destruct (Z.leb_spec (Z.max 0 (- (i + d) / 2 ^ h + 1) + 1) fuel_cap) as [|Hc]; [discriminate|].
    unfold fuel_cap in Hc.
    assert (- (i + d) / 2 ^ h <= 4094).
    { apply Z.div_le_upper_bound; [exact Hpos|]. lia. }
    lia.
Qed.

(* the API through the float layer agrees with the closed-form model of Shift.v (hence with the modular specification) on the property's
   quantifier: valid ID, |dx|, |dy| <= 4 * 2^h — and far beyond: any dx, dy with -4094 * 2^h <= x + dx <= 2^53 *)
Definition hshift_ok (i : eid) (x d : Z) : Prop := - 4094 * 2 ^ eh i <= x + d <= 2 ^ 53.
Theorem shift_api_f_exact i dx dy dv : valid i -> hshift_ok i (ex i) dx -> hshift_ok i (ey i) dy ->
  shift_api_f (print_eid i) dx dy dv = Some (print_eid (shift_spec i dx dy dv)).
Proof.
  intros Hv Hx Hy. unfold shift_api_f. rewrite parse_print_eid by now apply valid_fields_ok.
  destruct Hv as (Hh & _). unfold shift_eid_f.
  rewrite !wrap_fx_exact by (try lia; assumption). cbn [option_map]. f_equal.
  rewrite <- shift_eid_spec by lia. reflexivity.
Qed.
Lemma quantifier_hshift_ok i x d : valid i -> 0 <= x < 2 ^ eh i -> Z.abs d <= 4 * 2 ^ eh i -> hshift_ok i x d.
Proof.
  intros (Hh & _) Hx Hd. unfold hshift_ok.
  assert (2 ^ eh i <= 2 ^ 35) by (apply Z.pow_le_mono_r; lia).
  assert (5 * 2 ^ 35 <= 2 ^ 53) by (vm_compute; discriminate).
  pose proof (pow2_pos (eh i) ltac:(lia)). lia.
Qed.
Theorem shift_api_f_quantifier i dx dy dv : valid i -> Z.abs dx <= 4 * 2 ^ eh i -> Z.abs dy <= 4 * 2 ^ eh i ->
  shift_api_f (print_eid i) dx dy dv = Some (print_eid (shift_spec i dx dy dv)).
Proof.
  intros Hv Hx Hy. pose proof Hv as (_ & _ & X & Y & _).
  apply shift_api_f_exact; [exact Hv| |]; now apply quantifier_hshift_ok.
Qed.

(* REFUTED beyond the bound: at zoom 1, x = 0, dx = 2^53 + 1 the float twin — like the Go code (observed: "1/0/0/0/0") — returns
   x = 0, the exact modular translation is x = 1.  Not reachable inside the property's quantifier (|dx| <= 4 * 2^h <= 2^37). *)
Theorem wrap_f_refuted : exists fuel i d h, 0 <= h <= 35 /\ 0 <= i < 2 ^ h /\ 2 ^ 53 < i + d /\
  wrap_f fuel i d h = Some 0 /\ (i + d) mod 2 ^ h = 1.
Proof. exists 2%nat, 0, (2 ^ 53 + 1), 1. repeat split; try (vm_compute; congruence); vm_compute; reflexivity. Qed.
Example shift_api_f_refuted : shift_api_f "1/0/0/0/0" (2 ^ 53 + 1) 0 0 = Some "1/0/0/0/0"%string /\
                              shift_api "1/0/0/0/0" (2 ^ 53 + 1) 0 0 = "1/1/0/0/0"%string.
Proof. split; vm_compute; reflexivity. Qed.

(* ---- further statements used by properties/C07.v ---- *)
(* every accepted spelling of a valid ID ("+3/07/-0/+1/-01") behaves like its canonical form *)
Theorem shift_api_spelling s i dx dy dv : parse_eid s = Some i -> valid i ->
  shift_api s dx dy dv = print_eid (shift_spec i dx dy dv).
Proof.
  intros P Hv. unfold shift_api. rewrite P. rewrite shift_eid_spec by (destruct Hv; lia). reflexivity.
Qed.
(* the returned string is again an ID, inside the horizontal range, with the same zooms *)
Theorem shift_api_result i dx dy dv : valid i -> vshift_ok i dv ->
  exists j, parse_eid (shift_api (print_eid i) dx dy dv) = Some j /\ eh j = eh i /\ ev j = ev i /\
            0 <= ex j < 2 ^ eh i /\ 0 <= ey j < 2 ^ eh i /\ ef j = ef i + dv.
Proof.
  intros Hv Hd. exists (shift_spec i dx dy dv). rewrite shift_api_spec by exact Hv.
  rewrite parse_print_eid by now apply shift_spec_fields_ok.
  destruct (shift_in_range i dx dy dv ltac:(destruct Hv; lia)) as (X & Y & E1 & E2 & E3). tauto.
Qed.
