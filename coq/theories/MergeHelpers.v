(* MergeHelpers.v — the exported building blocks of integrate/merge_zoom.go as stand-alone API, as the code is written:
   NewUnitDividedSpatialID (enumerate unit cells into a map), NewHighSpatialID (ancestor by Higher, threshold, lowIDs, and a COPY of the
   unit map of its argument), HighSpatialID.Merge (append lowIDs, write the argument's unit IDs into the receiver's map),
   (HighSpatialID).IsDense (len(unitIDs) == threshold).
   Maps are heap cells (index into `heap`). Since /repo 06056a1 NewHighSpatialID COPIES the unit map of its argument into a fresh cell,
   so Merge (which writes into the receiver's cell) never touches the constructor's argument nor any other object. A map of ID strings is a duplicate-free list of cells
   (ID() prints injectively on int64 fields). *)
From Coq Require Import ZArith Lia List Bool Permutation String.
From SID Require Import Base Str Ids ZoomCore Wire Merge MergeCheck MergeProof.
Import ListNotations.
Open Scope Z_scope.

(* ---- NewUnitDividedSpatialID(s, hDiff, vDiff): the three loops with explicit differences; int64(math.Pow(2, d)) = 2^d, and 0 for
   d < 0 on both sides (int64(0.5) = 0, Z.pow with a negative exponent = 0) ---- *)
Definition units_d (i : eid) (hd vd : Z) : list eid :=
  let dh := 2 ^ hd in let dv := 2 ^ vd in
  flat_map (fun x => flat_map (fun y => map (fun z =>
    {| eh := hd + eh i; ex := x; ey := y; ev := vd + ev i; ef := z |})
    (zrange (ef i * dv) ((ef i + 1) * dv - 1)))
    (zrange (ey i * dh) ((ey i + 1) * dh - 1)))
    (zrange (ex i * dh) ((ex i + 1) * dh - 1)).

(* the unit set of NewUnitDividedSpatialID with the differences the merge passes is Merge.units *)
Theorem units_d_units MH MV i : units_d i (MH - eh i) (MV - ev i) = units MH MV i.
Proof. unfold units_d, units. cbv zeta. replace (MH - eh i + eh i) with MH by lia. replace (MV - ev i + ev i) with MV by lia. reflexivity. Qed.

(* union of two maps *)
Definition uunion (a b : list eid) : list eid := nodupb eid_eqb (a ++ b).
Lemma uunion_In a b c : In c (uunion a b) <-> In c a \/ In c b.
Proof. unfold uunion. rewrite (nodupb_In eid_eqb eid_eqb_spec), in_app_iff. tauto. Qed.
Lemma uunion_NoDup a b : NoDup (uunion a b).
Proof. apply (nodupb_NoDup eid_eqb eid_eqb_spec). Qed.
Lemma uunion_self_In a c : In c (uunion a a) <-> In c a.
Proof. rewrite uunion_In. tauto. Qed.

(* ---- objects and heap ---- *)
Record unitd := { u_id : eid; u_hd : Z; u_vd : Z; u_map : nat }.
Record high := { g_id : eid; g_thr : Z; g_low : list eid; g_map : nat }.
Definition high0 : high := {| g_id := mk 0 0 0 0 0; g_thr := 0; g_low := []; g_map := 0 |}.
Record st := { heap : list (list eid); highs : list high; n_units : nat }.

Fixpoint upd {A} (n : nat) (x : A) (l : list A) : list A :=
  match l, n with
  | [], _ => []
  | _ :: t, O => x :: t
  | a :: t, S k => a :: upd k x t
  end.
Lemma upd_length {A} n (x : A) l : List.length (upd n x l) = List.length l.
Proof. revert n. induction l as [|a t IH]; intros [|k]; cbn; auto. Qed.
Lemma nth_upd_same {A} n (x d : A) l : (n < List.length l)%nat -> nth n (upd n x l) d = x.
Proof. revert n. induction l as [|a t IH]; intros [|k] Hn; cbn in *; try lia; auto. apply IH. lia. Qed.
Lemma nth_upd_other {A} n m (x d : A) l : n <> m -> nth m (upd n x l) d = nth m l d.
Proof. revert n m. induction l as [|a t IH]; intros [|k] [|j] Hn; cbn; auto; try congruence. Qed.

(* NewHighSpatialID(u, hDiff, vDiff): Higher, threshold = (2^(hDiff+u.hDiff))^2 * 2^(vDiff+u.vDiff), lowIDs = [u.ID()],
   unitIDs = a copy of u.unitIDs in the fresh heap cell `cell` (the caller stores the copy there) *)
Definition new_high (u : unitd) (hd vd : Z) (cell : nat) : high :=
  let a := 2 ^ (hd + u_hd u) in let b := 2 ^ (vd + u_vd u) in
  {| g_id := higher (u_id u) hd vd; g_thr := a * a * b; g_low := [u_id u]; g_map := cell |}.

Definition hunits (s : st) (k : nat) : list eid := nth (g_map (nth k (highs s) high0)) (heap s) [].
(* r.Merge(s): r.lowIDs = append(r.lowIDs, s.lowIDs...); for k := range s.unitIDs { r.unitIDs[k] = struct{}{} } *)
Definition merge_op (s : st) (r a : nat) : st :=
  let hr := nth r (highs s) high0 in let ha := nth a (highs s) high0 in
  {| heap := upd (g_map hr) (uunion (nth (g_map hr) (heap s) []) (nth (g_map ha) (heap s) [])) (heap s);
     highs := upd r {| g_id := g_id hr; g_thr := g_thr hr; g_low := g_low hr ++ g_low ha; g_map := g_map hr |} (highs s);
     n_units := n_units s |}.
(* IsDense: int64(len(r.unitIDs)) == r.threshold *)
Definition is_dense (s : st) (k : nat) : bool := Z.of_nat (List.length (hunits s k)) =? g_thr (nth k (highs s) high0).

Lemma merge_op_map s r a k : g_map (nth k (highs (merge_op s r a)) high0) = g_map (nth k (highs s) high0).
Proof.
  unfold merge_op. cbn [highs]. destruct (Nat.eq_dec r k) as [<-|N].
  - destruct (Nat.lt_ge_cases r (List.length (highs s))) as [L|L].
    + rewrite nth_upd_same by exact L. reflexivity.
    + rewrite !nth_overflow; [reflexivity|exact L|rewrite upd_length; exact L].
  - now rewrite nth_upd_other.
Qed.

(* C04 helpers: after r.Merge(a) the receiver holds the union, the ARGUMENT's unit set is unchanged (as a set: it is literally
   untouched unless it is the receiver's own map, in which case the union with itself has the same members), every object that does
   not share the receiver's map is literally untouched, and the receiver's lowIDs are the concatenation *)
Theorem merge_op_spec s r a : (g_map (nth r (highs s) high0) < List.length (heap s))%nat ->
  hunits (merge_op s r a) r = uunion (hunits s r) (hunits s a) /\
  (forall c, In c (hunits (merge_op s r a) r) <-> In c (hunits s r) \/ In c (hunits s a)) /\
  (forall c, In c (hunits (merge_op s r a) a) <-> In c (hunits s a)) /\
  (forall k, g_map (nth k (highs s) high0) <> g_map (nth r (highs s) high0) -> hunits (merge_op s r a) k = hunits s k) /\
  (forall k, g_map (nth k (highs s) high0) = g_map (nth r (highs s) high0) -> hunits (merge_op s r a) k = uunion (hunits s r) (hunits s a)).
Proof.
  intros L.
  assert (Same : forall k, g_map (nth k (highs s) high0) = g_map (nth r (highs s) high0) -> hunits (merge_op s r a) k = uunion (hunits s r) (hunits s a)).
  { intros k E. unfold hunits at 1. rewrite merge_op_map, E. unfold merge_op. cbn [heap]. now rewrite nth_upd_same by exact L. }
  assert (Other : forall k, g_map (nth k (highs s) high0) <> g_map (nth r (highs s) high0) -> hunits (merge_op s r a) k = hunits s k).
  { intros k N. unfold hunits at 1. rewrite merge_op_map. unfold merge_op. cbn [heap]. rewrite nth_upd_other by congruence. reflexivity. }
  split; [apply Same; reflexivity|]. split; [intros c; rewrite (Same r eq_refl); apply uunion_In|]. split; [|split; assumption].
  intros c. destruct (Nat.eq_dec (g_map (nth a (highs s) high0)) (g_map (nth r (highs s) high0))) as [E|N].
  - rewrite (Same a E), uunion_In. unfold hunits. rewrite E. tauto.
  - now rewrite (Other a N).
Qed.
Theorem merge_op_low s r a : (r < List.length (highs s))%nat ->
  g_low (nth r (highs (merge_op s r a)) high0) = (g_low (nth r (highs s) high0) ++ g_low (nth a (highs s) high0))%list /\
  forall k, k <> r -> nth k (highs (merge_op s r a)) high0 = nth k (highs s) high0.
Proof.
  intros L. unfold merge_op. cbn [highs]. split.
  - now rewrite nth_upd_same by exact L.
  - intros k N. now rewrite nth_upd_other by congruence.
Qed.
Theorem is_dense_count s k : is_dense s k = true <-> Z.of_nat (List.length (hunits s k)) = g_thr (nth k (highs s) high0).
Proof. unfold is_dense. apply Z.eqb_eq. Qed.

(* ---- the helper-level composition is what `merge` does for one group ---- *)
(* one group processed the way MergeExtendedSpatialIds drives the helpers: every member becomes NewHighSpatialID(NewUnitDividedSpatialID(
   i, MH-h, MV-v), h-H, v-V) on a private map, and all are merged into the first *)
Section Compose.
  Variables H V MH MV : Z.
  Record hp := { p_id : eid; p_thr : Z; p_low : list eid; p_cells : list eid }.
  Definition mk_hp (i : eid) : hp :=
    let u := {| u_id := i; u_hd := MH - eh i; u_vd := MV - ev i; u_map := O |} in
    let h := new_high u (eh i - H) (ev i - V) O in
    {| p_id := g_id h; p_thr := g_thr h; p_low := g_low h; p_cells := nodupb eid_eqb (units_d i (MH - eh i) (MV - ev i)) |}.
  Definition hp_merge (r a : hp) : hp :=
    {| p_id := p_id r; p_thr := p_thr r; p_low := p_low r ++ p_low a; p_cells := uunion (p_cells r) (p_cells a) |}.
  Definition hp_dense (r : hp) : bool := Z.of_nat (List.length (p_cells r)) =? p_thr r.
  Definition compose (i0 : eid) (rest : list eid) : hp := fold_left (fun acc i => hp_merge acc (mk_hp i)) rest (mk_hp i0).

  Lemma compose_inv rest : forall acc,
    let r := fold_left (fun acc i => hp_merge acc (mk_hp i)) rest acc in
    p_id r = p_id acc /\ p_thr r = p_thr acc /\ p_low r = (p_low acc ++ rest)%list /\
    (forall c, In c (p_cells r) <-> In c (p_cells acc) \/ In c (flat_map (units MH MV) rest)) /\
    (NoDup (p_cells acc) -> NoDup (p_cells r)).
  Proof.
    induction rest as [|i t IH]; intros acc; cbn [fold_left].
    - cbn. rewrite app_nil_r. repeat split; auto; tauto.
    - destruct (IH (hp_merge acc (mk_hp i))) as (A & B & C & D & E). cbv zeta. rewrite A, B, C. cbn [hp_merge p_id p_thr p_low p_cells].
      split; [reflexivity|]. split; [reflexivity|]. split; [cbn; now rewrite <- app_assoc|]. split.
      + intros c. rewrite D. cbn [p_cells hp_merge]. rewrite uunion_In. cbn [flat_map mk_hp p_cells]. rewrite in_app_iff.
        rewrite (nodupb_In eid_eqb eid_eqb_spec), units_d_units. tauto.
      + intros _. apply E. apply uunion_NoDup.
  Qed.

  (* C04 helpers: ID, lowIDs, threshold and IsDense of the composed entry are those of the model's `merge` for that group *)
  Theorem compose_is_group el T i0 rest : group H V el T = i0 :: rest ->
    let r := compose i0 rest in
    p_id r = target H V i0 /\ p_low r = group H V el T /\ p_thr r = thr H V MH MV /\ hp_dense r = dense H V MH MV el T.
  Proof.
    intros G. cbv zeta. unfold compose.
    destruct (compose_inv rest (mk_hp i0)) as (A & B & C & D & E). cbv zeta in A, B, C, D, E.
    split; [rewrite A; reflexivity|]. split; [rewrite C, G; reflexivity|].
    assert (T' : p_thr (mk_hp i0) = thr H V MH MV).
    { unfold mk_hp, new_high. cbn [p_thr g_thr u_hd u_vd]. apply (thr_of_thr H V MH MV i0). }
    split; [now rewrite B|]. unfold hp_dense, dense. rewrite B, T', G. f_equal. f_equal.
    apply Permutation_length. apply NoDup_Permutation.
    - apply E. cbn. apply (nodupb_NoDup eid_eqb eid_eqb_spec).
    - apply (nodupb_NoDup eid_eqb eid_eqb_spec).
    - intros c. rewrite D, (nodupb_In eid_eqb eid_eqb_spec). cbn [flat_map mk_hp p_cells]. rewrite in_app_iff.
      rewrite (nodupb_In eid_eqb eid_eqb_spec), units_d_units. tauto.
  Qed.
End Compose.

(* ---- scripted sequences (dispatch entries HighSpatialIDOps / MergeHelperSequence) ----
   units : (id, hDiff, vDiff) — unit j owns heap cell j; highs : (unit index, hDiff, vDiff); ops : (receiver, argument) indices of highs.
   Observation = one snapshot before the first Merge and one after every Merge; a snapshot lists for every high
   [ID; threshold; lowIDs; sorted unit IDs; IsDense] and for every unit its sorted unit IDs. *)
Definition uspec := (eid * Z * Z)%type.
Definition hspec := (nat * Z * Z)%type.
(* ---- the embedded ID: since /repo 24349d1 NewUnitDividedSpatialID keeps its OWN COPY of the *ExtendedSpatialID argument, so the
   setters promoted to the unit object (SetX, SetZoom, ...) write the copy and never the caller's object.
   orig = the caller's objects, own = the copies held by the unit objects; a setter step (unit j, x, hZoom, vZoom) performs
   u.SetX(x); u.SetZoom(hZoom, vZoom) on unit j. ---- *)
Record ids_st := { orig : list eid; own : list eid }.
Definition sspec := (nat * Z * Z * Z)%type.
Definition init_ids (us : list uspec) : ids_st := let l := map (fun '(i, _, _) => i) us in {| orig := l; own := l |}.
Definition set_unit (s : ids_st) (sp : sspec) : ids_st :=
  let '(j, x, hz, vz) := sp in
  let i := nth j (own s) (mk 0 0 0 0 0) in
  {| orig := orig s; own := upd j {| eh := hz; ex := x; ey := ey i; ev := vz; ef := ef i |} (own s) |}.
Definition run_sets (us : list uspec) (sets : list sspec) : ids_st := fold_left set_unit sets (init_ids us).
(* C04 helpers: setters on a constructed unit object leave every argument object unchanged, and change only that unit's own copy *)
Theorem set_unit_orig s sp : orig (set_unit s sp) = orig s.
Proof. destruct sp as [[[j x] hz] vz]. reflexivity. Qed.
Theorem run_sets_orig us sets : orig (run_sets us sets) = map (fun '(i, _, _) => i) us.
Proof.
  unfold run_sets. assert (G : forall s, orig (fold_left set_unit sets s) = orig s).
  { induction sets as [|sp t IH]; intros s; cbn [fold_left]; [reflexivity|]. now rewrite IH, set_unit_orig. }
  now rewrite G.
Qed.
Theorem set_unit_own s j x hz vz : (j < List.length (own s))%nat ->
  nth j (own (set_unit s (j, x, hz, vz))) (mk 0 0 0 0 0) =
    (let i := nth j (own s) (mk 0 0 0 0 0) in {| eh := hz; ex := x; ey := ey i; ev := vz; ef := ef i |}) /\
  forall k, k <> j -> nth k (own (set_unit s (j, x, hz, vz))) (mk 0 0 0 0 0) = nth k (own s) (mk 0 0 0 0 0).
Proof.
  intros L. cbn [set_unit own]. split; [now rewrite nth_upd_same|]. intros k N. now rewrite nth_upd_other by congruence.
Qed.
Definition final_val (us : list uspec) (sets : list sspec) : val :=
  let s := run_sets us sets in VL [of_LS (map print_eid (orig s)); of_LS (map print_eid (own s))].

Definition init_st (us : list uspec) (hs : list hspec) : st :=
  let heap0 := map (fun '(i, hd, vd) => nodupb eid_eqb (units_d i hd vd)) us in
  let uobj := map (fun '(k, (i, hd, vd)) => {| u_id := i; u_hd := hd; u_vd := vd; u_map := k |}) (combine (seq 0 (List.length us)) us) in
  let nu := List.length us in
  {| heap := heap0 ++ map (fun '(k, _, _) => nth k heap0 []) hs;     (* one fresh cell per high, holding a copy *)
     highs := map (fun '(j, (k, hd, vd)) => new_high (nth k uobj {| u_id := mk 0 0 0 0 0; u_hd := 0; u_vd := 0; u_map := O |}) hd vd (nu + j))
                  (combine (seq 0 (List.length hs)) hs);
     n_units := nu |}.
(* every object owns its map: unit j owns cell j, high k owns the fresh cell n_units + k *)
Definition fresh_maps (s : st) : Prop :=
  List.length (heap s) = (n_units s + List.length (highs s))%nat /\
  forall k, (k < List.length (highs s))%nat -> g_map (nth k (highs s) high0) = (n_units s + k)%nat.
Lemma init_fresh us hs : fresh_maps (init_st us hs).
Proof.
  unfold fresh_maps, init_st. cbn [heap highs n_units]. split.
  - rewrite app_length, !map_length, combine_length, seq_length, Nat.min_id. reflexivity.
  - intros k Hk. rewrite map_length, combine_length, seq_length, Nat.min_id in Hk.
    set (f := fun '(j, (k0, hd, vd)) => new_high _ hd vd (List.length us + j)).
    rewrite (nth_indep (map f _) high0 (f (O, (O, 0, 0)))) by (rewrite map_length, combine_length, seq_length, Nat.min_id; exact Hk).
    rewrite map_nth, combine_nth by apply seq_length. rewrite seq_nth by exact Hk.
    assert (G : forall j sp, g_map (f (j, sp)) = (List.length us + j)%nat) by (intros j [[a b] c]; reflexivity).
    rewrite G. reflexivity.
Qed.
Lemma merge_op_fresh s r a : fresh_maps s -> fresh_maps (merge_op s r a).
Proof.
  intros [A B]. split.
  - unfold merge_op. cbn [heap highs n_units]. now rewrite !upd_length.
  - intros k Hk. rewrite merge_op_map. unfold merge_op in *. cbn [heap highs n_units] in *. rewrite upd_length in Hk. now apply B.
Qed.
(* C04 helpers (after /repo 06056a1): r.Merge(a) puts the union into the receiver and changes NO other object — not the argument,
   not any other HighSpatialID, not any UnitDividedSpatialID (in particular not the ones the objects were constructed from) *)
Theorem merge_op_isolated s r a : fresh_maps s -> (r < List.length (highs s))%nat ->
  hunits (merge_op s r a) r = uunion (hunits s r) (hunits s a) /\
  (forall k, k <> r -> (k < List.length (highs s))%nat -> hunits (merge_op s r a) k = hunits s k) /\
  (forall j, (j < n_units s)%nat -> nth j (heap (merge_op s r a)) [] = nth j (heap s) []).
Proof.
  intros [A B] Hr.
  assert (L : (g_map (nth r (highs s) high0) < List.length (heap s))%nat) by (rewrite (B r Hr), A; lia).
  destruct (merge_op_spec s r a L) as (E & _ & _ & O & _). split; [exact E|]. split.
  - intros k N Hk. apply O. rewrite (B k Hk), (B r Hr). lia.
  - intros j Hj. unfold merge_op. cbn [heap]. rewrite nth_upd_other; [reflexivity|]. rewrite (B r Hr). lia.
Qed.

Fixpoint run_ops (s : st) (ops : list (nat * nat)) : list st :=
  match ops with
  | [] => [s]
  | (r, a) :: t => s :: run_ops (merge_op s r a) t
  end.
Definition cells_val (l : list eid) : val := of_LS (sort_strings (map print_eid l)).
Definition snapshot (s : st) : val :=
  VL [VL (map (fun k => let h := nth k (highs s) high0 in
                 VL [VS (print_eid (g_id h)); VZ (g_thr h); of_LS (map print_eid (g_low h)); cells_val (hunits s k); VB (is_dense s k)])
              (seq 0 (List.length (highs s))));
      VL (map cells_val (firstn (n_units s) (heap s)))].
Definition script_model (us : list uspec) (hs : list hspec) (ops : list (nat * nat)) (sets : list sspec) : val :=
  VL (map snapshot (run_ops (init_st us hs) ops) ++ [final_val us sets]).

Fixpoint val_eqb (a b : val) : bool :=
  match a, b with
  | VZ x, VZ y => Z.eqb x y
  | VS x, VS y => String.eqb x y
  | VB x, VB y => Bool.eqb x y
  | VL l, VL m =>
      (fix go (l m : list val) : bool :=
         match l, m with
         | [], [] => true
         | x :: l', y :: m' => val_eqb x y && go l' m'
         | _, _ => false
         end) l m
  | VNil, VNil => true
  | _, _ => false
  end.

(* script well-formedness shared with the harness: indices in range, differences small, few cells *)
Definition script_ok (us : list uspec) (hs : list hspec) (ops : list (nat * nat)) (sets : list sspec) : bool :=
  (Nat.leb (List.length sets) 4) &&
  forallb (fun '(j, x, hz, vz) => Nat.ltb j (List.length us) && (Z.abs x <? 2 ^ 40) && (Z.abs hz <? 64) && (Z.abs vz <? 64)) sets &&
  (Nat.leb (List.length us) 6) && (Nat.leb (List.length hs) 6) && (Nat.leb (List.length ops) 10) &&
  forallb (fun '(i, hd, vd) => small_fields i && (-2 <=? hd) && (hd <=? 3) && (-2 <=? vd) && (vd <=? 4)) us &&
  forallb (fun '(k, hd, vd) => Nat.ltb k (List.length us) && (0 <=? hd) && (hd <=? 6) && (0 <=? vd) && (vd <=? 6)) hs &&
  forallb (fun '(r, a) => Nat.ltb r (List.length hs) && Nat.ltb a (List.length hs)) ops.

(* ---- property verdict computed from the observations alone (consecutive snapshots): construction is the dyadic reference,
   every Merge puts the union into the receiver and leaves EVERY other object literally unchanged — the argument, every other
   HighSpatialID, every UnitDividedSpatialID —, appends the lowIDs, keeps IDs and thresholds, and IsDense = (count == threshold) ---- *)
Definition hobs := (string * Z * list string * list string * bool)%type.
Definition dec_high (v : val) : option hobs :=
  match v with
  | VL [VS id; VZ t; low; us; VB d] =>
      match as_LS low, as_LS us with Some l, Some u => Some (id, t, l, u, d) | _, _ => None end
  | _ => None
  end.
Definition dec_snap (v : val) : option (list hobs * list (list string)) :=
  match v with
  | VL [hs; us] =>
      match as_L hs, as_L us with
      | Some h, Some u => match all_opt (map dec_high h), all_opt (map as_LS u) with Some a, Some b => Some (a, b) | _, _ => None end
      | _, _ => None
      end
  | _ => None
  end.
Definition h_units (h : hobs) : list string := let '(_, _, _, u, _) := h in u.
Definition h_low (h : hobs) : list string := let '(_, _, l, _, _) := h in l.
Definition h_thr (h : hobs) : Z := let '(_, t, _, _, _) := h in t.
Definition h_id (h : hobs) : string := let '(i, _, _, _, _) := h in i.
Definition h_dense (h : hobs) : bool := let '(_, _, _, _, d) := h in d.
Definition strs_eqb (a b : list string) : bool := list_eqb String.eqb a b.
Definition set_of (l : list string) : list string := canon l.
Definition dense_ok (h : hobs) : bool := Bool.eqb (h_dense h) (Z.of_nat (List.length (h_units h)) =? h_thr h) && nodup_strings (h_units h).
Definition hobs0 : hobs := (EmptyString, 0, [], [], false).

(* the unit IDs of a freshly constructed unit: all and only the cells at zooms (hd+h, vd+v) under the voxel, none twice *)
Definition unit_ok (sp : uspec) (u : list string) : bool :=
  let '(i, hd, vd) := sp in
  match parse_all u with
  | Some cs =>
      nodup_strings u &&
      (if (0 <=? hd) && (0 <=? vd)
       then (Z.of_nat (List.length cs) =? 2 ^ hd * 2 ^ hd * 2 ^ vd) &&
            forallb (fun c => (eh c =? hd + eh i) && (ev c =? vd + ev i) && coversb i c) cs
       else match cs with [] => true | _ => false end)
  | None => false
  end.
Definition init_ok (us : list uspec) (hs : list hspec) (sn : list hobs * list (list string)) : bool :=
  let '(ho, uo) := sn in
  Nat.eqb (List.length ho) (List.length hs) && Nat.eqb (List.length uo) (List.length us) &&
  forallb (fun '(sp, u) => unit_ok sp u) (combine us uo) &&
  forallb (fun '((k, hd, vd), h) =>
             let '(i, uhd, uvd) := nth k us (mk 0 0 0 0 0, 0, 0) in
             strs_eqb (h_units h) (nth k uo []) && strs_eqb (h_low h) [print_eid i] &&
             (h_thr h =? 2 ^ (hd + uhd) * 2 ^ (hd + uhd) * 2 ^ (vd + uvd)) &&
             (if validb i && (hd <=? eh i) && (vd <=? ev i)
              then String.eqb (h_id h) (print_eid {| eh := eh i - hd; ex := anc hd (ex i); ey := anc hd (ey i); ev := ev i - vd; ef := anc vd (ef i) |})
              else true) &&
             dense_ok h) (combine hs ho).
Definition step_ok (hs : list hspec) (op : nat * nat) (p n : list hobs * list (list string)) : bool :=
  let '(r, a) := op in
  let '(hp, up) := p in let '(hn, un) := n in
  let uni := set_of (h_units (nth r hp hobs0) ++ h_units (nth a hp hobs0)) in
  Nat.eqb (List.length hn) (List.length hp) && Nat.eqb (List.length un) (List.length up) &&
  forallb (fun k =>
             let hk := nth k hp hobs0 in let hk' := nth k hn hobs0 in
             String.eqb (h_id hk') (h_id hk) && (h_thr hk' =? h_thr hk) &&
             (if Nat.eqb k r then strs_eqb (h_low hk') (h_low hk ++ h_low (nth a hp hobs0)) else strs_eqb (h_low hk') (h_low hk)) &&
             (if Nat.eqb k r then strs_eqb (set_of (h_units hk')) uni && nodup_strings (h_units hk')
              else strs_eqb (h_units hk') (h_units hk)) &&
             dense_ok hk') (seq 0 (List.length hp)) &&
  forallb (fun j => strs_eqb (nth j un []) (nth j up [])) (seq 0 (List.length up)).
Fixpoint steps_ok (hs : list hspec) (ops : list (nat * nat)) (sn : list (list hobs * list (list string))) : bool :=
  match ops, sn with
  | [], [_] => true
  | op :: t, p :: ((n :: _) as rest) => step_ok hs op p n && steps_ok hs t rest
  | _, _ => false
  end.
(* after the setter steps: every argument object still prints as it was given; the unit objects print with the fields set *)
Definition final_ok (us : list uspec) (sets : list sspec) (v : val) : bool :=
  match v with
  | VL [o; w] =>
      match as_LS o, as_LS w with
      | Some o, Some w => strs_eqb o (map (fun '(i, _, _) => print_eid i) us) && strs_eqb w (map print_eid (own (run_sets us sets)))
      | _, _ => false
      end
  | _ => false
  end.
Definition script_prop (us : list uspec) (hs : list hspec) (ops : list (nat * nat)) (sets : list sspec) (obs : val) : bool :=
  match as_L obs with
  | Some l =>
      final_ok us sets (last l VNil) &&
      match all_opt (map dec_snap (removelast l)) with
      | Some (s0 :: rest) => init_ok us hs s0 && steps_ok hs ops (s0 :: rest)
      | _ => false
      end
  | None => false
  end.

(* non-vacuity and self-consistency on the scenario of the seeded change: an aggregate of 7 of the 8 children of 9/0/0/9/0 used as
   argument for two receivers that hold the 8th child: both receivers become dense, the argument keeps its 7 cells *)
Definition ex_units : list uspec :=
  map (fun c => (c, 0, 0)) [mk 10 0 0 10 0; mk 10 0 0 10 1; mk 10 0 1 10 0; mk 10 0 1 10 1; mk 10 1 0 10 0; mk 10 1 0 10 1; mk 10 1 1 10 0; mk 10 1 1 10 1; mk 10 1 1 10 1].
Definition ex_highs : list hspec := map (fun k => (k, 1, 1)) (seq 0 9).
Definition ex_ops : list (nat * nat) := [(0, 1); (0, 2); (0, 3); (0, 4); (0, 5); (0, 6); (7, 0); (8, 0)]%nat.
Example ex_sequence :
  let sts := run_ops (init_st ex_units ex_highs) ex_ops in
  let fin := last sts (init_st [] []) in
  is_dense fin 7 = true /\ is_dense fin 8 = true /\ is_dense fin 0 = false /\ List.length (hunits fin 0) = 7%nat /\
  script_prop ex_units ex_highs ex_ops [(O, 5, 3, 4)] (script_model ex_units ex_highs ex_ops [(O, 5, 3, 4)]) = true.
Proof. vm_compute. repeat split; reflexivity. Qed.
