(* GenEqFVertex.v — voxel -> corner coordinates on binary64 (shape/point.go: getAltitudeOnVerticalIndexAndZoom, getVertexOnVoxelOffset,
   getCenterPointOnVoxelOffset; common.RadianToDegree): the definitions regenerated from the Go source = the pieces of VertexF.v, and
   VertexF.vertices / VertexF.centre are these pieces put together. Not regenerated: the wrap of the column index into 0 .. 2^h-1 (a loop of
   additions followed by math.Mod; VertexF uses its closed form [wrap_col]), NewPoint, the sort of the eight coordinates. *)
From Coq Require Import ZArith Bool Floats List.
From SIDGen Require Import GeneratedF.
From SID Require Import F64 VertexF GenFTac.
Import ListNotations.
Open Scope float_scope.

(* common.RadianToDegree: the constant expression 180 / math.Pi is rounded once *)
Lemma gen_RadianToDegree_eq : forall r, GeneratedF.RadianToDegree r = r * c_rad2deg.
Proof. gen_feq ltac:(unfold c_rad2deg). Qed.

(* getAltitudeOnVerticalIndexAndZoom: the returned VerticalPoint as (Alt, Resolution) *)
Lemma gen_getAltitudeOnVerticalIndexAndZoom_eq : forall f v,
  GeneratedF.getAltitudeOnVerticalIndexAndZoom f v = (valt f v, vres v).
Proof. gen_feq ltac:(unfold valt, vres). Qed.

(* the row index as a float, clamped into 0 .. 2^h-1 *)
Definition clamp_row (y h : Z) : float :=
  let hl := pow2f h in let yf := of_Z y in
  if (hl - 1) <=? yf then hl - 1 else if yf <? 0 then 0 else yf.
(* the column index as a float, wrapped into 0 .. 2^h-1: VertexF's closed form of `for x < 0 { x += w }; x = math.Mod(x, w)` (hand-written) *)
Definition wrap_col (x h : Z) : float :=
  let hl := pow2f h in let xf := of_Z x in
  if ((hl - 1) <=? xf) || (xf <? 0)
  then (match Zfloor_f hl with Some w => of_Z (Z.modulo x w) | None => nan end)
  else xf.

(* getVertexOnVoxelOffset: the locals latIndexFloat (after the clamp), northLat, southLat, vTopAlt as functions of the parameters;
   westLon, eastLon as functions of the parameters and of the final value of the local lonIndexFloat *)
Lemma gen_getVertexOnVoxelOffset_latIndexFloat_eq : forall x y h alt res,
  GeneratedF.getVertexOnVoxelOffset_latIndexFloat x y h alt res = clamp_row y h.
Proof. gen_feq ltac:(unfold clamp_row). Qed.
Lemma gen_getVertexOnVoxelOffset_northLat_eq : forall M x y h alt res,
  GeneratedF.getVertexOnVoxelOffset_northLat M x y h alt res = edge_lat (m_sinh M) (m_atan M) (clamp_row y h) (pow2f h).
Proof. gen_feq ltac:(unfold edge_lat, clamp_row, c_rad2deg, c_pi). Qed.
Lemma gen_getVertexOnVoxelOffset_southLat_eq : forall M x y h alt res,
  GeneratedF.getVertexOnVoxelOffset_southLat M x y h alt res = edge_lat (m_sinh M) (m_atan M) (clamp_row y h + 1) (pow2f h).
Proof. gen_feq ltac:(unfold edge_lat, clamp_row, c_rad2deg, c_pi). Qed.
Lemma gen_getVertexOnVoxelOffset_westLon_eq : forall x y h alt res xf,
  GeneratedF.getVertexOnVoxelOffset_westLon x y h alt res xf = xf * 360 / pow2f h - 180.
Proof. gen_feq ltac:(idtac). Qed.
Lemma gen_getVertexOnVoxelOffset_eastLon_eq : forall x y h alt res xf,
  GeneratedF.getVertexOnVoxelOffset_eastLon x y h alt res xf = (xf + 1) * 360 / pow2f h - 180.
Proof. gen_feq ltac:(idtac). Qed.
Lemma gen_getVertexOnVoxelOffset_vTopAlt_eq : forall x y h alt res,
  GeneratedF.getVertexOnVoxelOffset_vTopAlt x y h alt res = alt + res.
Proof. gen_feq ltac:(idtac). Qed.

(* VertexF.vertices = the generated pieces around the hand-written wrap of the column *)
Lemma vertices_over_generated : forall M h x y alt res,
  vertices (m_sinh M) (m_atan M) h x y alt res =
  let north := GeneratedF.getVertexOnVoxelOffset_northLat M x y h alt res in
  let south := GeneratedF.getVertexOnVoxelOffset_southLat M x y h alt res in
  let west := GeneratedF.getVertexOnVoxelOffset_westLon x y h alt res (wrap_col x h) in
  let east := GeneratedF.getVertexOnVoxelOffset_eastLon x y h alt res (wrap_col x h) in
  let top := GeneratedF.getVertexOnVoxelOffset_vTopAlt x y h alt res in
  [pt_of west north alt; pt_of east north alt; pt_of east south alt; pt_of west south alt;
   pt_of west north top; pt_of east north top; pt_of east south top; pt_of west south top].
Proof. gen_feq ltac:(unfold vertices, wrap_col, edge_lat, c_rad2deg, c_pi). Qed.

(* getCenterPointOnVoxelOffset: centerLon / centerLat / centerAlt as functions of the extreme coordinates (the locals lonMax, lonMin, ...) *)
Lemma gen_getCenterPointOnVoxelOffset_centerLon_eq : forall x y h alt res mx mn,
  GeneratedF.getCenterPointOnVoxelOffset_centerLon x y h alt res mx mn = (mx + mn) / 2.
Proof. gen_feq ltac:(idtac). Qed.
Lemma gen_getCenterPointOnVoxelOffset_centerLat_eq : forall x y h alt res mx mn,
  GeneratedF.getCenterPointOnVoxelOffset_centerLat x y h alt res mx mn = (mx + mn) / 2.
Proof. gen_feq ltac:(idtac). Qed.
Lemma gen_getCenterPointOnVoxelOffset_centerAlt_eq : forall x y h alt res mx mn,
  GeneratedF.getCenterPointOnVoxelOffset_centerAlt x y h alt res mx mn = (mx + mn) / 2.
Proof. gen_feq ltac:(idtac). Qed.

(* VertexF.centre = the generated midpoints of the extreme coordinates of the eight vertices *)
Lemma centre_over_generated : forall ms ma h x y alt res,
  centre ms ma h x y alt res =
  match vertices ms ma h x y alt res with
  | p0 :: _ =>
      let ps := vertices ms ma h x y alt res in
      let lons := map plon ps in let lats := map plat ps in let alts := map palt ps in
      pt_of (GeneratedF.getCenterPointOnVoxelOffset_centerLon x y h alt res (fmax_list lons (plon p0)) (fmin_list lons (plon p0)))
            (GeneratedF.getCenterPointOnVoxelOffset_centerLat x y h alt res (fmax_list lats (plat p0)) (fmin_list lats (plat p0)))
            (GeneratedF.getCenterPointOnVoxelOffset_centerAlt x y h alt res (fmax_list alts (palt p0)) (fmin_list alts (palt p0)))
  | [] => zero_point
  end.
Proof. intros. reflexivity. Qed.
