(* MergeHistory.v — histories of calls. The functions C04 is anchored in are modelled as PURE functions of their arguments
   (Merge.merge_ext_api, merge_sid_api, ZoomCore.higher): the model has no state, so whatever was called before — with whatever
   arguments, valid or not, however often, and whatever the caller did to its own slices and objects between the calls — the model's
   answer to a step is the answer to that step as a standalone call. This is what justifies judging every step of a call sequence
   (dispatch entry MergeHistory) exactly like a single fresh call; an implementation that keeps state between calls (a memo keyed on a
   subset of the arguments, a result that aliases library-held state or the caller's input, a scratch buffer that is not reset)
   disagrees with it at some step of some history. *)
From Coq Require Import ZArith String List Bool Lia.
From SID Require Import Base Str Ids ZoomCore Merge.
Import ListNotations.
Open Scope Z_scope.

Inductive step :=
| SExt (ids : list string) (H V : Z)        (* integrate.MergeExtendedSpatialIds(ids, H, V) *)
| SSid (ids : list string) (z : Z)          (* integrate.MergeSpatialIds(ids, z) *)
| SHigher (id : string) (hd vd : Z).        (* object.NewExtendedSpatialID(id).Higher(hd, vd).ID() *)
Inductive answer :=
| AList (r : result (list string))
| AStr (s : option string).                 (* None: the ID does not parse *)

Definition step_model (s : step) : answer :=
  match s with
  | SExt ids H V => AList (merge_ext_api ids H V)
  | SSid ids z => AList (merge_sid_api ids z)
  | SHigher id hd vd => AStr (option_map (fun i => print_eid (higher i hd vd)) (parse_eid id))
  end.
(* the model of a history: every call answered on its own *)
Definition run_history (l : list step) : list answer := map step_model l.

(* C04, histories: the answer to a step does not depend on what was called before or after it *)
Theorem history_independent pre s post :
  nth_error (run_history (pre ++ s :: post)) (List.length pre) = Some (step_model s).
Proof.
  unfold run_history. rewrite map_app. cbn [map].
  rewrite nth_error_app2 by (rewrite map_length; lia). rewrite map_length, Nat.sub_diag. reflexivity.
Qed.
(* two histories that contain the same step give it the same answer; a repeated call gets the same answer again *)
Corollary history_same_step pre1 post1 pre2 post2 s :
  nth_error (run_history (pre1 ++ s :: post1)) (List.length pre1) = nth_error (run_history (pre2 ++ s :: post2)) (List.length pre2).
Proof. now rewrite !history_independent. Qed.
Theorem history_length l : List.length (run_history l) = List.length l.
Proof. apply map_length. Qed.
Theorem history_app l1 l2 : run_history (l1 ++ l2) = (run_history l1 ++ run_history l2)%list.
Proof. apply map_app. Qed.

(* non-vacuity: an invalid call, the same list at another target zoom, a repeat — each answered as if alone *)
Example history_example :
  run_history [SExt ["1/0/0/1/-1"; "1/0/0/1/-2"] 1 36; SExt ["1/0/0/1/-1"; "1/0/0/1/-2"] 1 0; SExt ["1/0/0/1/-1"; "1/0/0/1/-2"] 1 1;
               SExt ["bad"] 1 0; SExt ["1/0/0/1/-1"; "1/0/0/1/-2"] 1 0; SHigher "3/5/5/3/-2" 1 1; SSid ["1/0/0/0"] 0]%string
  = [AList Err; AList (Ok ["1/0/0/0/-1"]); AList (Ok ["1/0/0/1/-1"; "1/0/0/1/-2"]); AList Err; AList (Ok ["1/0/0/0/-1"]);
     AStr (Some "2/2/2/2/-1"); AList (Ok ["1/0/0/0"])]%string.
Proof. vm_compute. reflexivity. Qed.
