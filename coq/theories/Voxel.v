(* Voxel.v — region semantics of voxels over the reals and the bridge: ancestor relation on indices <-> the regions meet *)
From Coq Require Import ZArith Reals Lia Lra List.
From Flocq Require Import Core.
From SID Require Import Base Ids.
Import ListNotations.
Open Scope Z_scope.

Lemma IZR_pow2 d : 0 <= d -> IZR (2 ^ d) = bpow radix2 d.
Proof. intros H. rewrite <- IZR_Zpower by exact H. reflexivity. Qed.

(* nested floor over the reals *)
Lemma nested_floor (r : R) (a b : Z) : 0 <= a <= b ->
  Zfloor (bpow radix2 a * r) = anc (b - a) (Zfloor (bpow radix2 b * r)).
Proof.
  intros [Ha Hab]. unfold anc.
  set (n := Zfloor (bpow radix2 b * r)).
  set (d := b - a).
  assert (Hd : 0 <= d) by (unfold d; lia).
  pose proof (pow2_pos d Hd) as Hp.
  pose proof (Zfloor_lb (bpow radix2 b * r)) as Hlb. fold n in Hlb.
  pose proof (Zfloor_ub (bpow radix2 b * r)) as Hub. fold n in Hub.
  assert (Eb : bpow radix2 b = (bpow radix2 a * IZR (2 ^ d))%R).
  { rewrite IZR_pow2 by exact Hd. rewrite <- bpow_plus. f_equal. unfold d; lia. }
  apply Zfloor_imp.
  pose proof (Z.div_mod n (2 ^ d) ltac:(lia)) as Hdm.
  pose proof (Z.mod_pos_bound n (2 ^ d) Hp) as Hm.
  set (q := n / 2 ^ d) in *.
  assert (Hpr : (0 < IZR (2 ^ d))%R) by (apply IZR_lt; exact Hp).
  (* q * 2^d <= n and n + 1 <= (q+1) * 2^d *)
  assert (H1 : (IZR q * IZR (2 ^ d) <= IZR n)%R).
  { rewrite <- mult_IZR. apply IZR_le. lia. }
  assert (H2 : (IZR n + 1 <= (IZR q + 1) * IZR (2 ^ d))%R).
  { rewrite <- (plus_IZR q 1), <- mult_IZR, <- (plus_IZR n 1). apply IZR_le. lia. }
  rewrite Eb in Hlb, Hub.
  set (t := (bpow radix2 a * r)%R) in *.
  replace (bpow radix2 a * IZR (2 ^ d) * r)%R with (t * IZR (2 ^ d))%R in Hlb, Hub by (unfold t; ring).
  rewrite plus_IZR. split.
  - apply Rmult_le_reg_r with (1 := Hpr). lra.
  - apply Rmult_lt_reg_r with (1 := Hpr). lra.
Qed.

(* ---- voxels and regions ---- *)
Definition pt := (R * R * R)%type.
Definition inR (i : eid) (p : pt) : Prop :=
  let '(u, w, a) := p in
  Zfloor (bpow radix2 (eh i) * u) = ex i /\
  Zfloor (bpow radix2 (eh i) * w) = ey i /\
  Zfloor (bpow radix2 (ev i) * a) = ef i.

Lemma rel1_of_point z1 z2 r : 0 <= z1 -> 0 <= z2 ->
  rel1 z1 (Zfloor (bpow radix2 z1 * r)) z2 (Zfloor (bpow radix2 z2 * r)).
Proof.
  intros H1 H2. unfold rel1. destruct (Z.leb_spec z1 z2).
  - symmetry. apply nested_floor. lia.
  - symmetry. apply nested_floor. lia.
Qed.

Lemma meet_overlaps i j p : 0 <= eh i -> 0 <= ev i -> 0 <= eh j -> 0 <= ev j ->
  inR i p -> inR j p -> overlaps i j.
Proof.
  intros Hi Hvi Hj Hvj. destruct p as [[u w] a]. cbn.
  intros (X1 & Y1 & F1) (X2 & Y2 & F2). unfold overlaps.
  rewrite <- X1, <- Y1, <- F1, <- X2, <- Y2, <- F2.
  repeat split; apply rel1_of_point; assumption.
Qed.

(* a point of the finer index on one axis lies in the coarser one *)
Lemma axis_point z1 i1 z2 i2 : 0 <= z1 -> 0 <= z2 -> rel1 z1 i1 z2 i2 ->
  exists r : R, Zfloor (bpow radix2 z1 * r) = i1 /\ Zfloor (bpow radix2 z2 * r) = i2.
Proof.
  intros H1 H2. unfold rel1. destruct (Z.leb_spec z1 z2) as [L|L]; intros E.
  - exists (IZR i2 * bpow radix2 (- z2))%R.
    assert (E2 : Zfloor (bpow radix2 z2 * (IZR i2 * bpow radix2 (- z2))) = i2).
    { replace (bpow radix2 z2 * (IZR i2 * bpow radix2 (- z2)))%R with (IZR i2 * (bpow radix2 z2 * bpow radix2 (- z2)))%R by ring.
      rewrite <- bpow_plus. replace (z2 + - z2) with 0 by lia. cbn. rewrite Rmult_1_r. apply Zfloor_IZR. }
    split; [|exact E2]. rewrite (nested_floor _ z1 z2) by lia. rewrite E2. exact E.
  - exists (IZR i1 * bpow radix2 (- z1))%R.
    assert (E1 : Zfloor (bpow radix2 z1 * (IZR i1 * bpow radix2 (- z1))) = i1).
    { replace (bpow radix2 z1 * (IZR i1 * bpow radix2 (- z1)))%R with (IZR i1 * (bpow radix2 z1 * bpow radix2 (- z1)))%R by ring.
      rewrite <- bpow_plus. replace (z1 + - z1) with 0 by lia. cbn. rewrite Rmult_1_r. apply Zfloor_IZR. }
    split; [exact E1|]. rewrite (nested_floor _ z2 z1) by lia. rewrite E1. exact E.
Qed.

Theorem overlaps_iff_meet i j : 0 <= eh i -> 0 <= ev i -> 0 <= eh j -> 0 <= ev j ->
  overlaps i j <-> exists p, inR i p /\ inR j p.
Proof.
  intros Hi Hvi Hj Hvj. split.
  - intros (Rx & Ry & Rf).
    destruct (axis_point _ _ _ _ Hi Hj Rx) as (u & U1 & U2).
    destruct (axis_point _ _ _ _ Hi Hj Ry) as (w & W1 & W2).
    destruct (axis_point _ _ _ _ Hvi Hvj Rf) as (a & A1 & A2).
    exists (u, w, a). cbn. tauto.
  - intros (p & P1 & P2). eapply meet_overlaps; eassumption.
Qed.
