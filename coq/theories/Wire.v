(* Wire.v — the universal value type exchanged with the Go harness, and decoding helpers *)
From Coq Require Import ZArith String List Bool Floats.
From SID Require Import Base Str.
Import ListNotations.

Inductive val :=
| VZ (z : Z)
| VS (s : string)
| VF (f : float)
| VB (b : bool)
| VL (l : list val)
| VE (v : val)        (* the call returned a non-nil error, together with this result value *)
| VNil                (* Go nil (nil slice / nil pointer) *)
| VPanic              (* the call panicked (recovered by the harness) *)
| VTimeout.           (* the call did not return within the harness's limit *)

Definition as_Z (v : val) : option Z := match v with VZ z => Some z | _ => None end.
Definition as_S (v : val) : option string := match v with VS s => Some s | _ => None end.
Definition as_F (v : val) : option float := match v with VF f => Some f | _ => None end.
Definition as_B (v : val) : option bool := match v with VB b => Some b | _ => None end.
Definition as_L (v : val) : option (list val) := match v with VL l => Some l | VNil => Some [] | _ => None end.
Fixpoint all_opt {A} (l : list (option A)) : option (list A) :=
  match l with
  | [] => Some []
  | Some a :: r => match all_opt r with Some t => Some (a :: t) | None => None end
  | None :: _ => None
  end.
Definition as_LS (v : val) : option (list string) :=
  match as_L v with Some l => all_opt (map as_S l) | None => None end.
Definition as_LZ (v : val) : option (list Z) :=
  match as_L v with Some l => all_opt (map as_Z l) | None => None end.
Definition of_LS (l : list string) : val := VL (map VS l).
Definition of_LZ (l : list Z) : val := VL (map VZ l).

(* error? flag of an observed result *)
Definition is_err (v : val) : bool := match v with VE _ => true | _ => false end.
Definition err_payload (v : val) : val := match v with VE p => p | _ => v end.

(* verdict for one case *)
Record verdict := { v_corr : bool; v_prop : bool; v_class : string; v_model : val }.
Definition mkv c p cl m := {| v_corr := c; v_prop := p; v_class := cl; v_model := m |}.
Definition bad_case : verdict := mkv false false "bad-case"%string VNil.

(* the model asks the harness (i.e. the real Go code) through this oracle: name, arguments ↦ answer *)
Definition oracle_t := string -> list val -> val.
(* dispatch table of one property: function name ↦ (oracle, arguments, observed output) ↦ verdict *)
Definition entry := (string * (oracle_t -> list val -> val -> verdict))%type.
Definition table := list entry.
Definition run_table (t : table) (oracle : oracle_t) (fn : string) (args : list val) (obs : val) : verdict :=
  match find (fun e => String.eqb (fst e) fn) t with
  | Some (_, f) => f oracle args obs
  | None => bad_case
  end.
