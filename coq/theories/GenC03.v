(* GenC03.v — C03 over the kernels REGENERATED from the Go source with Go's int64 semantics explicit (generated/Generated64.v:
   wrap-around of + - *, truncating /, arithmetic shifts, the saturating int64(math.Pow(2,e)), panics = None, flag = "no intermediate
   left the int64 range"). ChangeZoom.v states C03 on models over unbounded Z; here the assumption "int64 = Z on the property's domain"
   is replaced by theorems for the three integer kernels of integrate/change_zoom.go and shape.CheckZoom:
     Generated64.HorizontalZoomMinMax, Generated64.VerticalZoom_minmax (the bounds of VerticalZoom's result loop), Generated64.CheckZoom.
   On zooms 0..35 and |index| <= 2^zoom they do not panic, no intermediate leaves the int64 range, and their value is the model's
   (gen64_*_fits composed with GenEqZoom / GenEqCheck); the list-level function built over them (`change_g64`) is then the model
   `change_eids`, so the main theorems of C03 hold of it.  Still hand-written (not regenerated, tied by differential execution only):
   the two result loops (`zrange`), the cross product, common.Unique, the parsing/printing of IDs and the spatial-ID wrapper.
   Must not be imported by DC03.v (bin/lint-deps). *)
From Coq Require Import ZArith Lia List Bool.
From SIDGen Require Generated Generated64.
From SID Require Import Base I64 Ids ZoomCore ChangeZoom GenEqZoom GenEqCheck GenEq64Tac GenEq64Zoom.
Notation ex := Ids.ex (only parsing).   (* I64.ex (the int64 injection) is not used here *)
Import ListNotations.
Open Scope Z_scope.

(* ---- the kernels: value = model, exact, on the documented domain ---- *)
Theorem int64_HorizontalZoomMinMax_is_model zin x y zout :
  0 <= zin <= 35 -> 0 <= zout <= 35 -> Z.abs x <= 2 ^ zin -> Z.abs y <= 2 ^ zin ->
  Generated64.HorizontalZoomMinMax zin x y zout = Some (hzoom_minmax zin x y zout, true).
Proof. intros Hi Ho Hx Hy. rewrite gen64_HorizontalZoomMinMax_fits by assumption. now rewrite gen_HorizontalZoomMinMax_eq. Qed.

Theorem int64_VerticalZoom_minmax_is_model zin f zout :
  0 <= zin <= 35 -> 0 <= zout <= 35 -> Z.abs f <= 2 ^ zin ->
  Generated64.VerticalZoom_minmax zin f zout = Some (vzoom_minmax zin f zout, true).
Proof. intros Hi Ho Hf. rewrite gen64_VerticalZoom_minmax_fits by assumption. now rewrite gen_VerticalZoom_minmax_eq. Qed.

Theorem int64_CheckZoom_is_model z : Generated64.CheckZoom z = Some (check_zoom z, true).
Proof. rewrite gen64_CheckZoom_eq, gen_CheckZoom_eq. reflexivity. Qed.

(* whatever an int64 kernel returns with the flag set is the unbounded kernel's value — no domain needed (bridge lemmas) *)
Theorem int64_HorizontalZoomMinMax_exact_is_model zin x y zout r :
  Generated64.HorizontalZoomMinMax zin x y zout = Some (r, true) -> r = hzoom_minmax zin x y zout.
Proof. intros E. apply gen64_HorizontalZoomMinMax_exact in E. now rewrite gen_HorizontalZoomMinMax_eq in E. Qed.
Theorem int64_VerticalZoom_minmax_exact_is_model zin f zout r :
  Generated64.VerticalZoom_minmax zin f zout = Some (r, true) -> r = vzoom_minmax zin f zout.
Proof. intros E. apply gen64_VerticalZoom_minmax_exact in E. now rewrite gen_VerticalZoom_minmax_eq in E. Qed.

(* ---- the specification, stated of the int64 kernels ---- *)
Theorem int64_HorizontalZoomMinMax_spec zin x y zout :
  0 <= zin <= 35 -> 0 <= zout <= 35 -> 0 <= x < 2 ^ zin -> 0 <= y < 2 ^ zin ->
  exists a b c d, Generated64.HorizontalZoomMinMax zin x y zout = Some ((a, b, c, d), true) /\
    (forall ox, a <= ox <= c <-> rel1 zin x zout ox) /\ (forall oy, b <= oy <= d <-> rel1 zin y zout oy).
Proof.
  intros Hi Ho Hx Hy. rewrite int64_HorizontalZoomMinMax_is_model by lia.
  pose proof (fun ox => hzoom_minmax_x zin x y zout ox ltac:(lia) ltac:(lia) ltac:(lia)) as A.
  pose proof (fun oy => hzoom_minmax_y zin x y zout oy ltac:(lia) ltac:(lia) ltac:(lia)) as B.
  destruct (hzoom_minmax zin x y zout) as [[[a b] c] d]. exists a, b, c, d. split; [reflexivity|]. split; assumption.
Qed.
(* floor below ground included: f may be negative *)
Theorem int64_VerticalZoom_minmax_spec zin f zout :
  0 <= zin <= 35 -> 0 <= zout <= 35 -> - 2 ^ zin <= f < 2 ^ zin ->
  exists lo hi, Generated64.VerticalZoom_minmax zin f zout = Some ((lo, hi), true) /\ forall o, lo <= o <= hi <-> rel1 zin f zout o.
Proof.
  intros Hi Ho Hf. rewrite int64_VerticalZoom_minmax_is_model by lia.
  pose proof (fun o => vzoom_exact zin f zout o ltac:(lia) ltac:(lia)) as A. unfold vzoom in A.
  destruct (vzoom_minmax zin f zout) as [lo hi]. exists lo, hi. split; [reflexivity|]. intros o. rewrite <- A. symmetry. apply in_zrange.
Qed.
Corollary int64_ancestor_of_minus_one zin zout : 0 <= zout <= zin -> zin <= 35 ->
  Generated64.VerticalZoom_minmax zin (-1) zout = Some ((-1, -1), true).
Proof.
  intros Ho Hi. pose proof (pow2_pos zin ltac:(lia)). rewrite int64_VerticalZoom_minmax_is_model by lia.
  pose proof (vzoom_neg1 zin zout ltac:(lia)) as E. unfold vzoom in E.
  destruct (vzoom_minmax zin (-1) zout) as [lo hi] eqn:Em.
  assert (In (-1) (zrange lo hi)) by (rewrite E; now left). apply in_zrange in H0.
  destruct (Z.eq_dec lo hi) as [->|N]; [repeat f_equal; lia|].
  assert (In lo (zrange lo hi)) by (apply in_zrange; lia). assert (In hi (zrange lo hi)) by (apply in_zrange; lia).
  rewrite E in *. cbn in *. repeat f_equal; lia.
Qed.

(* ---- the list-level function over the int64 kernels ---- *)
(* None = a kernel panicked or an intermediate left the int64 range (never on the property's domain, see below) *)
Definition exact64 {A} (m : M A) : option A := match m with Some (a, true) => Some a | _ => None end.
Definition hzoom_g64 (zin x y zout : Z) : option (list (Z * Z)) :=
  match exact64 (Generated64.HorizontalZoomMinMax zin x y zout) with
  | Some (x0, y0, x1, y1) => Some (flat_map (fun yy => map (fun xx => (xx, yy)) (zrange x0 x1)) (zrange y0 y1))
  | None => None
  end.
Definition vzoom_g64 (zin f zout : Z) : option (list Z) :=
  match exact64 (Generated64.VerticalZoom_minmax zin f zout) with
  | Some (lo, hi) => Some (zrange lo hi)
  | None => None
  end.
Definition one_g64 (H V : Z) (i : eid) : option (list eid) :=
  match hzoom_g64 (eh i) (ex i) (ey i) H, vzoom_g64 (ev i) (ef i) V with
  | Some hs, Some vs => Some (flat_map (fun xy => map (fun f => mk H (fst xy) (snd xy) V f) vs) hs)
  | _, _ => None
  end.
Fixpoint all_g64 (H V : Z) (ids : list eid) : option (list eid) :=
  match ids with
  | [] => Some []
  | i :: r => match one_g64 H V i, all_g64 H V r with Some a, Some b => Some (a ++ b) | _, _ => None end
  end.
(* zoom check by the int64 CheckZoom, expansion by the int64 kernels, then Unique *)
Definition change_g64 (ids : list eid) (H V : Z) : option (result (list eid)) :=
  match exact64 (Generated64.CheckZoom H), exact64 (Generated64.CheckZoom V) with
  | Some bh, Some bv =>
      if bh && bv then option_map (fun l => Ok (nodupb eid_eqb l)) (all_g64 H V ids) else Some Err
  | _, _ => None
  end.

Lemma hzoom_g64_eq zin x y zout : 0 <= zin <= 35 -> 0 <= zout <= 35 -> Z.abs x <= 2 ^ zin -> Z.abs y <= 2 ^ zin ->
  hzoom_g64 zin x y zout = Some (hzoom zin x y zout).
Proof.
  intros. unfold hzoom_g64, hzoom. rewrite int64_HorizontalZoomMinMax_is_model by assumption. cbn [exact64].
  destruct (hzoom_minmax zin x y zout) as [[[a b] c] d]. reflexivity.
Qed.
Lemma vzoom_g64_eq zin f zout : 0 <= zin <= 35 -> 0 <= zout <= 35 -> Z.abs f <= 2 ^ zin ->
  vzoom_g64 zin f zout = Some (vzoom zin f zout).
Proof.
  intros. unfold vzoom_g64, vzoom. rewrite int64_VerticalZoom_minmax_is_model by assumption. cbn [exact64].
  destruct (vzoom_minmax zin f zout) as [lo hi]. reflexivity.
Qed.
Theorem one_g64_eq H V i : valid i -> 0 <= H <= 35 -> 0 <= V <= 35 -> one_g64 H V i = Some (one H V i).
Proof.
  intros (Hh & Hv & Hx & Hy & Hf) HH HV. unfold one_g64, one.
  rewrite hzoom_g64_eq, vzoom_g64_eq by lia. reflexivity.
Qed.
Lemma all_g64_eq H V ids : (forall i, In i ids -> valid i) -> 0 <= H <= 35 -> 0 <= V <= 35 ->
  all_g64 H V ids = Some (flat_map (one H V) ids).
Proof.
  intros Hval HH HV. induction ids as [|i r IH]; [reflexivity|]. cbn [all_g64 flat_map].
  rewrite one_g64_eq by (auto; apply Hval; now left). rewrite IH by (intros; apply Hval; now right). reflexivity.
Qed.
(* on the property's domain the function over the int64 kernels IS the model: no panic, no wrap, same list *)
Theorem change_g64_is_model ids H V : (forall i, In i ids -> valid i) -> 0 <= H <= 35 -> 0 <= V <= 35 ->
  change_g64 ids H V = Some (Ok (change_eids ids H V)).
Proof.
  intros Hval HH HV. unfold change_g64. rewrite !int64_CheckZoom_is_model. cbn [exact64].
  assert (E1 : check_zoom H = true) by (apply check_zoom_spec; lia).
  assert (E2 : check_zoom V = true) by (apply check_zoom_spec; lia).
  rewrite E1, E2. cbn [andb]. rewrite all_g64_eq by assumption. reflexivity.
Qed.
Theorem change_g64_bad_zoom ids H V : ~ (0 <= H <= 35 /\ 0 <= V <= 35) -> change_g64 ids H V = Some Err.
Proof.
  intros Hn. unfold change_g64. rewrite !int64_CheckZoom_is_model. cbn [exact64].
  destruct (check_zoom H) eqn:E1; [|reflexivity]. destruct (check_zoom V) eqn:E2; [|reflexivity].
  apply check_zoom_spec in E1, E2. tauto.
Qed.
(* the main statement of C03, of the function over the int64 kernels *)
Theorem change_g64_exact ids H V : (forall i, In i ids -> valid i) -> 0 <= H <= 35 -> 0 <= V <= 35 ->
  exists l, change_g64 ids H V = Some (Ok l) /\ NoDup l /\
    forall o, In o l <-> eh o = H /\ ev o = V /\ exists i, In i ids /\ overlaps i o.
Proof.
  intros Hval HH HV. exists (change_eids ids H V). split; [now apply change_g64_is_model|]. split; [apply change_NoDup|].
  intros o. now apply change_exact_valid.
Qed.
(* one ID: count and region partition / containing ancestor hold of the int64 expansion, through one_g64_eq *)
Theorem one_g64_count H V i : valid i -> 0 <= H <= 35 -> 0 <= V <= 35 ->
  exists l, one_g64 H V i = Some l /\ NoDup l /\ length l = Z.to_nat (4 ^ Z.max 0 (H - eh i) * 2 ^ Z.max 0 (V - ev i)).
Proof. intros Hv HH HV. exists (one H V i). split; [now apply one_g64_eq|]. split; [apply one_NoDup|apply one_length]. Qed.
