(* GenEqConst.v — generated constants = the literals the models and the property statements use. Umbrella kept for backward compatibility: the
   lemmas live in one file per group (GenEqConstCrs, GenEqConstDelim, GenEqConstQuadkey, GenEqConstMinima, GenEqConstLine, GenEqConstSetLat), so that a
   constant the translator cannot read, or an edited one, breaks only the properties that cite that group. Import the narrow file, not this one. *)
From SID Require Export GenEqConstCrs GenEqConstDelim GenEqConstQuadkey GenEqConstMinima GenEqConstLine GenEqConstSetLat.
