(* GenEqConst.v — generated constants = the literals the models and the property statements use *)
From Coq Require Import ZArith Bool Lia.
From SIDGen Require Import Generated.
From SID Require Import Base Ids ZoomCore AltKeyCore GenTac.
Open Scope Z_scope.
Opaque Generated.CalculateArithmeticShift.

Lemma gen_GeoCrs_eq : Generated.GeoCrs = 4326. Proof. reflexivity. Qed.
Lemma gen_OrthCrs_eq : Generated.OrthCrs = 3857. Proof. reflexivity. Qed.
Lemma gen_SpatialIDDelimiter_eq : Generated.SpatialIDDelimiter = cons 47 nil. Proof. reflexivity. Qed.
(* "/" *)
Lemma gen_InnerID_eq : (Generated.InnerIDQuadkeyIndex, Generated.InnerIDAltitudekeyIndex) = (0, 1). Proof. reflexivity. Qed.
(* floating-point constants are exact decimals (m, e) = m * 10^e *)
Lemma gen_Minima_eq : Generated.Minima = (1, -10). Proof. reflexivity. Qed.
Lemma gen_line_thresholds_eq :
  (Generated.LonMinima, Generated.LatMinima, Generated.AltMinima) = ((2, -8), (2, -8), (3, -3)) /\
  (Generated.HightZoomLonMinima, Generated.HightZoomLatMinima, Generated.HightZoomAltMinima) = ((5, -9), (5, -10), (5, -4)).
Proof. split; reflexivity. Qed.
Lemma gen_line_switches_eq : (Generated.LineSwitch_hZoom, Generated.LineSwitch_vZoom) = (31, 34). Proof. reflexivity. Qed.
Lemma gen_SetLat_eq : Generated.SetLat_limit = (850511287798, -10) /\ Generated.SetLat_scale = 10 ^ 10. Proof. split; reflexivity. Qed.
Transparent Generated.CalculateArithmeticShift.
