(* SetLatProofs.v — object.Point.SetLat (F64.setlat_trunc, bit-exact model): the stored latitude.
   Documented: "cut toward zero by less than 1e-10 degrees", i.e. 0 <= |lat| - |stored| < 1e-10.  That is false of the code
   (finding class setlat_inexact, D20: two roundings around the floor).  Proved here: the cut is always inside
   [-2^-46, 1e-10 + 2^-46]; the refutation witness; and that the run-time reference ExactRef.exact_cut_ok decides the documented
   statement exactly. *)
From Coq Require Import ZArith Reals Lia Lra Floats List Bool.
From Flocq Require Import Core BinarySingleNaN.
From Flocq Require PrimFloat.
From SID Require Import Base F64 ExactRef PtBridge FF XF.
Import ListNotations.
Open Scope Z_scope.

Definition E10 : R := (10 ^ 10)%R.

Lemma c_e10_val : fval c_e10 = E10 /\ ffin c_e10 = true.
Proof. split; [unfold fval, E10; vm_compute; lra | vm_compute; reflexivity]. Qed.

Lemma ulp_9e11 : ulp radix2 fexp64 (9 * 10 ^ 11) = bpow radix2 (-13).
Proof.
  rewrite ulp_neq_0 by lra. unfold cexp. rewrite (mag_unique radix2 (9 * 10 ^ 11) 40).
  - reflexivity.
  - rewrite Rabs_pos_eq by lra. simpl. lra.
Qed.
Lemma ulp_127 : ulp radix2 fexp64 127 = bpow radix2 (-46).
Proof.
  rewrite ulp_neq_0 by lra. unfold cexp. rewrite (mag_unique radix2 127 7).
  - reflexivity.
  - rewrite Rabs_pos_eq by lra. simpl. lra.
Qed.

(* the real-number core: L = |lat|, n = floor (RN (L * 1e10)), stored magnitude = RN (n / 1e10) *)
Lemma cut_core L : (0 <= L <= 90)%R ->
  let n := Zfloor (rnd (L * E10)) in
  (- bpow radix2 (-46) <= L - rnd (IZR n / E10) <= 1 / 10 ^ 10 + bpow radix2 (-46))%R /\ (0 <= rnd (IZR n / E10))%R /\ 0 <= n <= 2 ^ 40.
Proof.
  intros HL n. unfold E10 in *.
  set (a := (L * 10 ^ 10)%R) in *.
  assert (Ha : (0 <= a <= 9 * 10 ^ 11)%R) by (unfold a; lra).
  assert (E1 : (Rabs (rnd a - a) <= bpow radix2 (-14))%R).
  { apply Rle_trans with (/ 2 * ulp radix2 fexp64 (9 * 10 ^ 11))%R.
    - apply rnd_err_le. rewrite !Rabs_pos_eq by lra. lra.
    - rewrite ulp_9e11. replace (-13) with (1 + -14) by lia. rewrite bpow_plus. simpl (bpow radix2 1). lra. }
  apply Rabs_le_inv in E1.
  assert (P0 : (0 <= rnd a)%R) by (apply rnd_nonneg; lra).
  pose proof (Zfloor_lb (rnd a)) as N1. pose proof (Zfloor_ub (rnd a)) as N2. fold n in N1, N2.
  assert (Nn : 0 <= n) by (apply Zfloor_lub; exact P0).
  assert (N0 : (0 <= IZR n)%R) by (apply IZR_le; exact Nn).
  assert (B14 : (0 < bpow radix2 (-14) <= / 16384)%R) by (split; [apply bpow_gt_0 | simpl; lra]).
  assert (Q : (0 <= IZR n / 10 ^ 10 <= 127)%R).
  { split; [apply Rmult_le_pos; lra|]. apply Rmult_le_reg_r with (10 ^ 10)%R; [lra|].
    unfold Rdiv. rewrite Rmult_assoc, Rinv_l by lra. lra. }
  assert (E2 : (Rabs (rnd (IZR n / 10 ^ 10) - IZR n / 10 ^ 10) <= bpow radix2 (-47))%R).
  { apply Rle_trans with (/ 2 * ulp radix2 fexp64 127)%R.
    - apply rnd_err_le. rewrite !Rabs_pos_eq by lra. lra.
    - rewrite ulp_127. replace (-46) with (1 + -47) by lia. rewrite bpow_plus. simpl (bpow radix2 1). lra. }
  apply Rabs_le_inv in E2.
  assert (B47 : (bpow radix2 (-46) = 2 * bpow radix2 (-47))%R).
  { replace (-46) with (1 + -47) by lia. rewrite bpow_plus. reflexivity. }
  assert (S : (/ 16384 / 10 ^ 10 <= bpow radix2 (-47))%R).
  { replace (bpow radix2 (-47)) with (/ 140737488355328)%R by (simpl; lra). lra. }
  assert (D1 : (L - 1 / 10 ^ 10 - / 16384 / 10 ^ 10 <= IZR n / 10 ^ 10 <= L + / 16384 / 10 ^ 10)%R).
  { assert (Ea : (L = a / 10 ^ 10)%R) by (unfold a; field). rewrite Ea. split.
    - apply Rmult_le_reg_r with (10 ^ 10)%R; [lra|]. unfold Rdiv, Rminus. rewrite !Rmult_plus_distr_r.
      rewrite !Ropp_mult_distr_l, !Rmult_assoc, !Rinv_l by lra. lra.
    - apply Rmult_le_reg_r with (10 ^ 10)%R; [lra|]. unfold Rdiv. rewrite !Rmult_plus_distr_r.
      rewrite !Rmult_assoc, !Rinv_l by lra. lra. }
  split; [|split; [apply rnd_nonneg; lra|]].
  - rewrite B47. pose proof (bpow_gt_0 radix2 (-47)). lra.
  - split; [exact Nn|]. apply le_IZR. rewrite (IZR_pow2 40) by lia.
    apply Rle_trans with (rnd a); [exact N1|]. apply Rle_trans with (a + / 16384)%R; [lra|]. simpl. lra.
Qed.

(* the model, in the two branches *)
Lemma setlat_val lat : ffin lat = true -> (Rabs (fval lat) <= 90)%R ->
  let n := Zfloor (rnd (Rabs (fval lat) * E10)) in
  Rabs (fval (setlat_trunc lat)) = rnd (IZR n / E10) /\ ffin (setlat_trunc lat) = true.
Proof.
  intros Fl Hl n. destruct c_e10_val as [Ve Fe]. destruct zero_val as [Z0v Z0f].
  pose proof (cut_core (Rabs (fval lat)) (conj (Rabs_pos _) Hl)) as (_ & Spos & Nr). fold n in Spos, Nr.
  assert (E10pos : (0 < E10)%R) by (unfold E10; lra).
  assert (Bp : (Rabs (Rabs (fval lat) * E10) <= bpow radix2 40)%R).
  { rewrite Rabs_pos_eq by (apply Rmult_le_pos; [apply Rabs_pos | lra]). unfold E10. simpl (bpow radix2 40).
    apply Rle_trans with (90 * 10 ^ 10)%R; [apply Rmult_le_compat_r; lra | lra]. }
  assert (Bq : (Rabs (IZR n / E10) <= bpow radix2 40)%R).
  { rewrite Rabs_pos_eq by (apply Rmult_le_pos; [apply IZR_le; lia | apply Rlt_le, Rinv_0_lt_compat; lra]).
    apply Rle_trans with (IZR n).
    - apply Rmult_le_reg_r with E10; [lra|]. unfold Rdiv. rewrite Rmult_assoc, Rinv_l by lra.
      assert (0 <= IZR n)%R by (apply IZR_le; lia). unfold E10. nra.
    - rewrite <- (IZR_pow2 40) by lia. apply IZR_le. lia. }
  assert (Lt1024 : forall x, (Rabs x <= bpow radix2 40)%R -> (Rabs (rnd x) < bpow radix2 1024)%R).
  { intros x Hx. apply Rle_lt_trans with (bpow radix2 40); [apply rnd_abs_le; [lia | exact Hx] | apply bpow_lt; lia]. }
  assert (Lt52 : forall x, (Rabs x <= bpow radix2 40)%R -> (Rabs (rnd x) < bpow radix2 52)%R).
  { intros x Hx. apply Rle_lt_trans with (bpow radix2 40); [apply rnd_abs_le; [lia | exact Hx] | apply bpow_lt; lia]. }
  unfold setlat_trunc. rewrite (ltb_val 0 lat Z0f Fl), Z0v.
  destruct (Rlt_bool_spec 0 (fval lat)) as [Pos|Neg].
  - (* lat > 0: Floor(lat * 1e10) / 1e10 *)
    assert (A : Rabs (fval lat) = fval lat) by (apply Rabs_pos_eq; lra). subst n. rewrite A in *.
    set (n := Zfloor (rnd (fval lat * E10))) in *.
    destruct (mul_val lat c_e10 Fl Fe) as [Vp Fp]; [rewrite Ve; apply Lt1024, Bp|]. rewrite Ve in Vp.
    destruct (ffloor_val (lat * c_e10) Fp) as [Vf Ff]; [rewrite Vp; apply Lt52, Bp|]. rewrite Vp in Vf. fold n in Vf.
    destruct (div_val (ffloor (lat * c_e10)) c_e10 Ff) as [Vs Fs].
    { rewrite Ve. lra. } { rewrite Vf, Ve. apply Lt1024, Bq. }
    rewrite Vf, Ve in Vs. rewrite Vs. split; [apply Rabs_pos_eq, Spos | exact Fs].
  - (* lat <= 0: Ceil(lat * 1e10) / 1e10 with Ceil x = - Floor (- x) *)
    assert (A : Rabs (fval lat) = (- fval lat)%R) by (apply Rabs_left1; lra). subst n. rewrite A in *.
    set (n := Zfloor (rnd (- fval lat * E10))) in *.
    assert (Ea : (fval lat * E10 = - (- fval lat * E10))%R) by ring.
    destruct (mul_val lat c_e10 Fl Fe) as [Vp Fp].
    { rewrite Ve, Ea, rnd_opp, Rabs_Ropp. apply Lt1024, Bp. }
    rewrite Ve, Ea, rnd_opp in Vp.
    destruct (opp_val (lat * c_e10)) as [Vo Fo]. rewrite Vp, Ropp_involutive in Vo. rewrite Fp in Fo.
    destruct (ffloor_val (- (lat * c_e10)) Fo) as [Vf Ff]; [rewrite Vo; apply Lt52, Bp|]. rewrite Vo in Vf. fold n in Vf.
    unfold fceil. destruct (opp_val (ffloor (- (lat * c_e10)))) as [Vc Fc]. rewrite Vf in Vc. rewrite Ff in Fc.
    destruct (div_val (- ffloor (- (lat * c_e10))) c_e10 Fc) as [Vs Fs].
    { rewrite Ve. lra. }
    { rewrite Vc, Ve. replace (- IZR n / E10)%R with (- (IZR n / E10))%R by (unfold Rdiv; ring). rewrite rnd_opp, Rabs_Ropp. apply Lt1024, Bq. }
    rewrite Vc, Ve in Vs. replace (- IZR n / E10)%R with (- (IZR n / E10))%R in Vs by (unfold Rdiv; ring). rewrite rnd_opp in Vs.
    rewrite Vs, Rabs_Ropp. split; [apply Rabs_pos_eq, Spos | exact Fs].
Qed.

(* partial theorem: the cut |lat| - |stored| never leaves [-2^-46, 1e-10 + 2^-46] (2^-46 = 1.4e-14 degrees) *)
Theorem setlat_cut_bounds lat : ffin lat = true -> (Rabs (fval lat) <= 90)%R ->
  (- bpow radix2 (-46) <= Rabs (fval lat) - Rabs (fval (setlat_trunc lat)) <= 1 / 10 ^ 10 + bpow radix2 (-46))%R.
Proof.
  intros Fl Hl. destruct (setlat_val lat Fl Hl) as [V _]. rewrite V.
  apply (cut_core (Rabs (fval lat)) (conj (Rabs_pos _) Hl)).
Qed.

(* ---- the run-time reference decides the documented statement ---- *)
Lemma abs_dyadic m e : Rabs (IZR m * bpow radix2 e) = (IZR (Z.abs m) * bpow radix2 e)%R.
Proof. rewrite Rabs_mult, <- abs_IZR, (Rabs_pos_eq (bpow radix2 e)) by apply bpow_ge_0. reflexivity. Qed.
Lemma dyadic_diff a ea b eb : let e := Z.min ea eb in
  (IZR a * bpow radix2 ea - IZR b * bpow radix2 eb = IZR (a * 2 ^ (ea - e) - b * 2 ^ (eb - e)) * bpow radix2 e)%R.
Proof.
  intros e. rewrite minus_IZR, !mult_IZR, !IZR_pow2 by lia. rewrite Rmult_minus_distr_r, !Rmult_assoc, <- !bpow_plus.
  replace (ea - e + e) with ea by lia. replace (eb - e + e) with eb by lia. reflexivity.
Qed.
Theorem exact_cut_ok_spec lat s : ffin lat = true -> ffin s = true ->
  exact_cut_ok lat s = true <-> (0 <= Rabs (fval lat) - Rabs (fval s) < 1 / 10 ^ 10)%R.
Proof.
  intros Fl Fs. destruct (dyadic_val lat Fl) as (a & ea & Da & Va). destruct (dyadic_val s Fs) as (b & eb & Db & Vb).
  unfold exact_cut_ok. rewrite Da, Db, Va, Vb, !abs_dyadic, dyadic_diff. cbv zeta.
  set (e := Z.min ea eb). set (d := Z.abs a * 2 ^ (ea - e) - Z.abs b * 2 ^ (eb - e)).
  assert (Pe : (0 < bpow radix2 e)%R) by apply bpow_gt_0.
  rewrite andb_true_iff, Z.leb_le.
  assert (S0 : 0 <= d <-> (0 <= IZR d * bpow radix2 e)%R).
  { split.
    - intros H. apply Rmult_le_pos; [apply IZR_le, H | lra].
    - intros H. apply le_IZR. apply Rmult_le_reg_r with (1 := Pe). lra. }
  assert (S1 : (if 0 <=? e then d * 2 ^ e * 10 ^ 10 <? 1 else d * 10 ^ 10 <? 2 ^ (- e)) = true <->
               (IZR d * bpow radix2 e < 1 / 10 ^ 10)%R).
  { assert (T : (IZR d * bpow radix2 e < 1 / 10 ^ 10 <-> IZR d * bpow radix2 e * 10 ^ 10 < 1)%R).
    { split; intros H.
      - apply Rmult_lt_reg_r with (/ 10 ^ 10)%R; [apply Rinv_0_lt_compat; lra|]. rewrite Rmult_assoc, Rinv_r by lra. lra.
      - apply Rmult_lt_reg_r with (10 ^ 10)%R; [lra|]. unfold Rdiv. rewrite (Rmult_assoc 1), Rinv_l by lra. lra. }
    assert (T10 : (10 ^ 10)%R = IZR (10 ^ 10)) by (simpl; lra).
    rewrite T, T10. destruct (Z.leb_spec 0 e) as [He|He]; rewrite Z.ltb_lt.
    - rewrite <- IZR_pow2 by lia. rewrite <- !mult_IZR. split; [apply IZR_lt | apply lt_IZR].
    - assert (Pm : (0 < bpow radix2 (- e))%R) by apply bpow_gt_0.
      assert (Eb : bpow radix2 e = (/ bpow radix2 (- e))%R) by (rewrite <- bpow_opp; f_equal; lia).
      assert (Ed : (IZR d * bpow radix2 e * IZR (10 ^ 10) * bpow radix2 (- e) = IZR d * IZR (10 ^ 10))%R) by (rewrite Eb; field; lra).
      split.
      + intros H. apply IZR_lt in H. rewrite mult_IZR, IZR_pow2 in H by lia.
        apply Rmult_lt_reg_r with (1 := Pm). rewrite Ed. lra.
      + intros H. apply lt_IZR. rewrite mult_IZR, IZR_pow2 by lia.
        apply Rmult_lt_compat_r with (1 := Pm) in H. rewrite Ed in H. lra. }
  rewrite S0, S1. tauto.
Qed.

(* the class is not empty: the ten-decimal latitude 12.9086804579 is stored as 12.9086804578 — a cut of a whole 1e-10 (D20) *)
Definition lat_witness : pfloat := 0x1.9d13e90a263bdp+3%float.      (* float64(12.9086804579) *)
Theorem setlat_inexact_refuted :
  exists lat, ffin lat = true /\ (Rabs (fval lat) <= 85)%R /\
              ~ (0 <= Rabs (fval lat) - Rabs (fval (setlat_trunc lat)) < 1 / 10 ^ 10)%R.
Proof.
  exists lat_witness.
  assert (F : ffin lat_witness = true) by (vm_compute; reflexivity).
  assert (Fs : ffin (setlat_trunc lat_witness) = true) by (vm_compute; reflexivity).
  split; [exact F|]. split.
  - destruct (abs_val lat_witness) as [Va Fa]. rewrite F in Fa.
    assert (F85 : ffin 85%float = true) by (vm_compute; reflexivity).
    assert (V85 : fval 85%float = 85%R) by (unfold fval; vm_compute; lra).
    assert (B : (abs lat_witness <=? 85)%float = true) by (vm_compute; reflexivity).
    rewrite (leb_val _ _ Fa F85), Va, V85 in B.
    destruct (Rle_bool_spec (Rabs (fval lat_witness)) 85); [assumption | discriminate].
  - rewrite <- (exact_cut_ok_spec _ _ F Fs). vm_compute. discriminate.
Qed.

