(* GenEqFSVector.v — common/spatial/vector3.go regenerated = VecF.v. *)
From Coq Require Import ZArith Bool Floats.
From SIDGen Require Import GeneratedF GeneratedFS.
From SID Require Import F64 VecF GenFTac GenEqFSTac.
Open Scope float_scope.

(* vector3.go *)
Lemma gen_NewVectorFromPoints_eq : forall p q, GeneratedFS.NewVectorFromPoints (tv p) (tv q) = tv (fvec_from_points p q).
Proof. gen_fs ltac:(unfold fvec_from_points, fsub). Qed.
Lemma gen_Vector3_Add_eq : forall a b, GeneratedFS.Vector3_Add (tv a) (tv b) = tv (fadd a b).
Proof. gen_fs ltac:(unfold fadd). Qed.
Lemma gen_Vector3_Sub_eq : forall a b, GeneratedFS.Vector3_Sub (tv a) (tv b) = tv (fsub a b).
Proof. gen_fs ltac:(unfold fsub). Qed.
Lemma gen_Vector3_Scale_eq : forall a f, GeneratedFS.Vector3_Scale (tv a) f = tv (fscale f a).
Proof. gen_fs ltac:(unfold fscale). Qed.
Lemma gen_Vector3_Dot_eq : forall a b, GeneratedFS.Vector3_Dot (tv a) (tv b) = fdot a b.
Proof. gen_fs ltac:(unfold fdot). Qed.
Lemma gen_Vector3_Cross_eq : forall a b, GeneratedFS.Vector3_Cross (tv a) (tv b) = tv (fcross a b).
Proof. gen_fs ltac:(unfold fcross). Qed.
Lemma gen_Vector3_Norm_eq : forall M a, GeneratedFS.Vector3_Norm M (tv a) = fnorm (m_hypot M) a.
Proof. gen_fs ltac:(unfold fnorm). Qed.
Lemma gen_Vector3_L1Norm_eq : forall a, GeneratedFS.Vector3_L1Norm (tv a) = fl1norm a.
Proof. gen_fs ltac:(unfold fl1norm). Qed.
Lemma gen_Vector3_Unit_eq : forall M a, GeneratedFS.Vector3_Unit M (tv a) = tv (funit (m_hypot M) a).
Proof. gen_fs ltac:(unfold funit, fnanv, fscale, fnorm). Qed.
Lemma gen_Vector3_Cos_eq : forall M a b, GeneratedFS.Vector3_Cos M (tv a) (tv b) = fcosv (m_hypot M) a b.
Proof. gen_fs ltac:(unfold fcosv, fdot, fnorm). Qed.

