(* DC06.v — dispatch entries of property C06 (line voxelisation).
   args:  GetExtendedSpatialIdsOnLine [p1; p2; h; v],  GetSpatialIdsOnLine [p1; p2; zoom];  a point is a stored float triple
          [lon; lat; alt] (exactly the fields of the object.Point handed to the function) or VNil for a nil pointer.
   obs:   the returned ID list, wrapped in VE when an error was returned.
   corr = same error flag and, on success, the same ID set as the executable model Line.line_api run with Go's own
          math.Tan/Cos/Log answers;
   prop = Line's boolean checker on the observed set (LineCheck.check_line);
   class = retruncation_unstable_endpoint when the only failing part is connectivity and an end point changes its voxel when it
          is stored again (SetLat is not idempotent: D14). *)
From Coq Require Import ZArith String List Bool Floats QArith.
From SID Require Import Base Str Ids Wire F64 ExactRef PointF Line LineCheck.
Import ListNotations.
Close Scope Q_scope.
Open Scope string_scope.

  Definition l_ofun (oracle : oracle_t) (name : string) (x : float) : float :=
    match oracle name [VF x] with VF r => r | _ => nan end.
  (* Some None = nil pointer *)
  Definition l_as_point (v : val) : option (option point) :=
    match v with
    | VL [VF a; VF b; VF c] => Some (Some {| plon := a; plat := b; palt := c |})
    | VNil => Some None
    | _ => None
    end.
  Definition l_res (r : result (list string)) : val :=
    match r with Ok l => of_LS l | Err => VE VNil end.
  Definition l_corr (m : result (list string)) (obs : val) : bool :=
    match m, obs with
    | Err, VE _ => true
    | Ok l, _ => match (if is_err obs then None else as_LS obs) with
                 | Some o => same_set l o
                 | None => false end
    | _, _ => false
    end.
  (* the documented domain of an end point (finite altitude within the grid's vertical extent) *)
  Definition l_in_domain (p : point) : bool :=
    (abs (plon p) <=? 180)%float && (abs (plat p) <=? c_latmax)%float && (abs (palt p) <=? pow2f 25)%float.

  (* D14: storing the (already stored) end point again moves it into another voxel *)
  Definition unstable_endpoint (tanf cosf logf : float -> float) (h v : Z) (p : point) : bool :=
    negb (eid_eqb (vox_in_pt tanf cosf logf h v p) (vox_top_pt tanf cosf logf h v p)).

  (* observed strings -> extended IDs (spatial-ID form: z/f/x/y -> z/x/y/z/f first) *)
  Definition l_obs_eids (sid : bool) (o : list string) : option (list eid) :=
    match (if sid then sids_to_eids o else Ok o) with
    | Ok e => parse_all e
    | Err => None
    end.

  (* cost guard: the property's quantifier bounds segments to a few hundred voxels; a case whose end voxels are further apart
     (only the harness's shrinker produces such cases, by moving a coordinate to 0) is not judged *)
  Definition max_span : Z := 400.
  Definition span_ok (a b : eid) : bool :=
    (Z.min (Z.abs (ex b - ex a)) (2 ^ eh a - Z.abs (ex b - ex a)) <=? max_span)%Z && (Z.abs (ey b - ey a) <=? max_span)%Z && (Z.abs (ef b - ef a) <=? max_span)%Z.

  Definition d_line (oracle : oracle_t) (sid : bool) (args : list val) (obs : val) : verdict :=
    let zooms := match args with
                 | [_; _; VZ z] => if sid then Some (z, z) else None
                 | [_; _; VZ h; VZ v] => if sid then None else Some (h, v)
                 | _ => None end in
    match args, zooms with
    | p1 :: p2 :: _, Some (h, v) =>
        match l_as_point p1, l_as_point p2 with
        | Some o1, Some o2 =>
            let has_nil := match o1, o2 with Some _, Some _ => false | _, _ => true end in
            let s := match o1 with Some p => p | None => zero_point end in
            let e := match o2 with Some p => p | None => zero_point end in
            let tanf := l_ofun oracle "tan" in let cosf := l_ofun oracle "cos" in let logf := l_ofun oracle "log" in
            if negb has_nil && check_zoom h && check_zoom v &&
               negb (span_ok (vox_top_pt tanf cosf logf h v s) (vox_top_pt tanf cosf logf h v e)) then bad_case else
            let '(m0, hwm) := line_api_run tanf cosf logf has_nil s e h v in
            let m := if sid then match m0 with Ok ids => eids_to_sids ids | Err => Err end else m0 in
            let corr := l_corr m obs in
            let expect_err := has_nil || negb (check_zoom h && check_zoom v) in
            let '(prop, cls) :=
              if expect_err then (is_err obs, "-")
              else if negb (l_in_domain s && l_in_domain e) then (true, "-")   (* outside the documented domain nothing is claimed *)
              else match (if is_err obs then None else as_LS obs), seg_of s e with
                   | Some o, Some g =>
                       match l_obs_eids sid o with
                       | Some ids =>
                           let vs := vox_top_pt tanf cosf logf h v s in
                           let ve := vox_top_pt tanf cosf logf h v e in
                           let st := nodup_strings o && check_struct vs ve h v ids &&
                                     forallb (slab_voxel (fun x => y_f tanf cosf logf x h) g h v) ids in
                           let folds := ((if (plon s =? 180)%float then [vs] else []) ++ (if (plon e =? 180)%float then [ve] else []))%list in
                           let cn := connected_from (adjFb folds) vs ids in
                           if st && cn then (true, "-")
                           else if st && (unstable_endpoint tanf cosf logf h v s || unstable_endpoint tanf cosf logf h v e)
                                then (false, "retruncation_unstable_endpoint")
                                else (false, "-")
                       | None => (false, "-")
                       end
                   | _, _ => (false, "-")
                   end in
            mkv corr prop (if corr then cls else "-") (VL [l_res m; VZ hwm])
        | _, _ => bad_case
        end
    | _, _ => bad_case
    end.

Definition table_C06 : table :=
  [("GetExtendedSpatialIdsOnLine", fun o => d_line o false); ("GetSpatialIdsOnLine", fun o => d_line o true)].
