(* DC06.v — dispatch entries of property C06 (line voxelisation).
   args:  GetExtendedSpatialIdsOnLine [p1; p2; h; v],  GetSpatialIdsOnLine [p1; p2; zoom],  LineSidVsExt [p1; p2; zoom];
          a point is a stored float triple [lon; lat; alt] (exactly the fields of the object.Point handed to the function) or VNil
          for a nil pointer.
   obs:   the returned ID list, wrapped in VE when an error was returned (LineSidVsExt: the pair of both functions' results).
   corr = same error flag and, on success, the same ID set as the executable model Line.line_api run with Go's own
          math.Tan/Cos/Log answers;
   prop = LineCheck.check_line on the observed set with the STRICT latitude band (lemma judge_prop below); longitude is cyclic:
          a voxel of column 0 that the segment meets on the meridian 180 within the rounding band tol_lon (LineCheck.meridian_folds:
          an end point at 180, or float midpoints that round to 180 and are folded onto column 0 by the code) touches the last column;
   classes (only when the model reproduces the output and only for the failing conjunct named):
     retruncation_unstable_endpoint — an end point changes its row when it is stored again (SetLat is not idempotent: D14) and the
          only failures are (i) connectivity, repaired by adding the re-stored end voxels, the end voxel being exactly one row
          off, and/or (ii) voxels in the re-stored row of such an end point that only the SetLat band of the slab test accepts;
     setlat_cut_row_shift — voxels (anywhere on the segment) that the slab test accepts only within the SetLat band 2^-33 degrees:
          the recursion cuts every midpoint's latitude by up to 1e-10 degrees before taking its row;
     skipped — the end voxels are more than max_span cells apart (cost guard; the entry itself recomputes the span).
   Outside the judged domain (non-finite coordinates, |alt| > 2^25, |lon| > 180, |lat| > 85.0511287798): bad_case. *)
From Coq Require Import ZArith String List Bool Floats QArith Arith.
From SID Require Import Base Str Ids Wire F64 ExactRef PointF Line LineCheck.
Import ListNotations.
Close Scope Q_scope.
Open Scope string_scope.

  Definition l_ofun (oracle : oracle_t) (name : string) (x : float) : float :=
    match oracle name [VF x] with VF r => r | _ => nan end.
  (* Some None = nil pointer *)
  Definition l_as_point (v : val) : option (option point) :=
    match v with
    | VL [VF a; VF b; VF c] => Some (Some {| plon := a; plat := b; palt := c |})
    | VNil => Some None
    | _ => None
    end.
  Definition l_res (r : result (list string)) : val :=
    match r with Ok l => of_LS l | Err => VE VNil end.
  Definition l_corr (m : result (list string)) (obs : val) : bool :=
    match m, obs with
    | Err, VE _ => true
    | Ok l, _ => match (if is_err obs then None else as_LS obs) with
                 | Some o => same_set l o
                 | None => false end
    | _, _ => false
    end.
  (* the domain judged at run time: a narrowing of "all valid points" (NewPoint accepts every altitude; beyond 2^43 the code
     does not terminate, see meta/C06.json). NaN fails every comparison. *)
  Definition l_in_domain (p : point) : bool :=
    (abs (plon p) <=? 180)%float && (abs (plat p) <=? c_latmax)%float && (abs (palt p) <=? pow2f 25)%float.

  (* observed strings -> extended IDs (spatial-ID form: z/f/x/y -> z/x/y/z/f first) *)
  Definition l_obs_eids (sid : bool) (o : list string) : option (list eid) :=
    match (if sid then sids_to_eids o else Ok o) with
    | Ok e => parse_all e
    | Err => None
    end.

  (* cost guard: the property's quantifier bounds segments to a few hundred voxels. The column of an end point at longitude 180
     (folded onto 0) counts as 2^h; the segment never wraps, so the distance is not taken modulo 2^h. *)
  Definition max_span : Z := 400.
  Definition span_ok (xs xe : Z) (a b : eid) : bool :=
    (Z.abs (xe - xs) <=? max_span)%Z && (Z.abs (ey b - ey a) <=? max_span)%Z && (Z.abs (ef b - ef a) <=? max_span)%Z.

  (* the re-stored voxel is the stored voxel moved by exactly one row *)
  Definition one_row_off (top inn : eid) : bool :=
    (ex top =? ex inn)%Z && (ef top =? ef inn)%Z && (Z.abs (ey top - ey inn) =? 1)%Z.

  (* verdict on a successful observed ID set. vs/ve: voxels of the stored end points; vis/vie: of the end points stored again *)
  Definition classify (rowf : float -> option Z) (vs ve vis vie : eid) (folds : list eid) (g : segq) (h v : Z)
             (o : list string) (ids : list eid) : string :=
    let st := nodup_strings o && check_struct vs ve h v ids in
    let tolerant := forallb (slab_voxel rowf tol_lat g h v) ids in
    if negb (st && tolerant) then "-" else
    let us := negb (eid_eqb vis vs) in
    let ue := negb (eid_eqb vie ve) in
    let cn := connected_from (adjFb folds) vs ids in
    let ends_ok := (negb us || one_row_off vs vis) && (negb ue || one_row_off ve vie) in
    let cn_excused := (us || ue) && ends_ok &&
                      connected_from (adjFb folds) vis (nodupb eid_eqb (vis :: vie :: ids)) in
    if negb (cn || cn_excused) then "-" else
    let off := filter (fun i => negb (slab_voxel rowf tol_lat0 g h v i)) ids in
    let in_restored_row i := (us && (ey i =? ey vis)%Z) || (ue && (ey i =? ey vie)%Z) in
    if forallb in_restored_row off then
      (if negb cn || negb (match off with [] => true | _ => false end) then "retruncation_unstable_endpoint" else "-")
    else "setlat_cut_row_shift".
  Definition judge (rowf : float -> option Z) (vs ve vis vie : eid) (folds : list eid) (g : segq) (h v : Z)
             (o : list string) (ids : list eid) : bool * string :=
    if nodup_strings o && check_line vs ve folds (slab_voxel rowf tol_lat0 g h v) h v ids then (true, "-")
    else (false, classify rowf vs ve vis vie folds g h v o ids).
  (* the dispatcher's prop IS the proved checker (plus: no two equal ID strings) *)
  Lemma judge_prop rowf vs ve vis vie folds g h v o ids :
    fst (judge rowf vs ve vis vie folds g h v o ids) =
    nodup_strings o && check_line vs ve folds (slab_voxel rowf tol_lat0 g h v) h v ids.
  Proof. unfold judge. destruct (nodup_strings o && check_line vs ve folds (slab_voxel rowf tol_lat0 g h v) h v ids); reflexivity. Qed.

  Inductive pre := PErr | PBad | PSkip | PRun (s e : point).
  (* common front end: arguments, expected errors, domain, span *)
  Definition l_pre (tanf cosf logf : float -> float) (p1 p2 : val) (h v : Z) : pre :=
    match l_as_point p1, l_as_point p2 with
    | Some o1, Some o2 =>
        if negb (check_zoom h && check_zoom v) then PErr else
        match o1, o2 with
        | Some s, Some e =>
            if negb (l_in_domain s && l_in_domain e) then PBad else
            let vs := vox_top_pt tanf cosf logf h v s in
            let ve := vox_top_pt tanf cosf logf h v e in
            let xs := if (plon s =? 180)%float then (2 ^ h)%Z else ex vs in
            let xe := if (plon e =? 180)%float then (2 ^ h)%Z else ex ve in
            if span_ok xs xe vs ve then PRun s e else PSkip
        | _, _ => PErr
        end
    | _, _ => PBad
    end.
  Definition is_marker (obs : val) : bool := match obs with VNil => true | _ => false end.

  Definition d_line (oracle : oracle_t) (sid : bool) (args : list val) (obs : val) : verdict :=
    let zooms := match args with
                 | [_; _; VZ z] => if sid then Some (z, z) else None
                 | [_; _; VZ h; VZ v] => if sid then None else Some (h, v)
                 | _ => None end in
    match args, zooms with
    | p1 :: p2 :: _, Some (h, v) =>
        let tanf := l_ofun oracle "tan" in let cosf := l_ofun oracle "cos" in let logf := l_ofun oracle "log" in
        match l_pre tanf cosf logf p1 p2 h v with
        | PBad => bad_case
        | PSkip => mkv true true "skipped" VNil
        | PErr => mkv (is_err obs) (is_err obs) "-" (VL [l_res Err; VZ 0; VB true])
        | PRun s e =>
            if is_marker obs then bad_case else
            let '(m0, hwm, flag) := line_api_run tanf cosf logf false s e h v in
            let m := if sid then match m0 with Ok ids => eids_to_sids ids | Err => Err end else m0 in
            let corr := l_corr m obs in
            let '(prop, cls) :=
              match (if is_err obs then None else as_LS obs), seg_of s e with
              | Some o, Some g =>
                  match l_obs_eids sid o with
                  | Some ids =>
                      let vs := vox_top_pt tanf cosf logf h v s in
                      let ve := vox_top_pt tanf cosf logf h v e in
                      let rowf := fun x => y_f tanf cosf logf x h in
                      judge rowf vs ve
                            (vox_in_pt tanf cosf logf h v s) (vox_in_pt tanf cosf logf h v e)
                            (meridian_folds rowf tol_lat0 g h v ids) g h v o ids
                  | None => (false, "-")
                  end
              | _, _ => (false, "-")
              end in
            mkv corr prop (if corr then cls else "-") (VL [l_res m; VZ hwm; VB flag])
        end
    | _, _ => bad_case
    end.

  (* the two exported functions on the same input: obs = [GetSpatialIdsOnLine(p1,p2,z); GetExtendedSpatialIdsOnLine(p1,p2,z,z)].
     prop: same error flag, and the spatial-ID list is the extended list converted (as sets). *)
  Definition d_sid_vs_ext (oracle : oracle_t) (args : list val) (obs : val) : verdict :=
    match args, obs with
    | [p1; p2; VZ z], VL [o1; o2] =>
        let tanf := l_ofun oracle "tan" in let cosf := l_ofun oracle "cos" in let logf := l_ofun oracle "log" in
        match l_pre tanf cosf logf p1 p2 z z with
        | PBad => bad_case
        | PSkip => mkv true true "skipped" VNil
        | PErr => mkv (is_err o1 && is_err o2) (is_err o1 && is_err o2) "-" VNil
        | PRun s e =>
            if is_marker o1 || is_marker o2 then bad_case else
            let me := line_api tanf cosf logf false s e z z in
            let ms := match me with Ok ids => eids_to_sids ids | Err => Err end in
            let prop := match (if is_err o1 then None else as_LS o1), (if is_err o2 then None else as_LS o2) with
                        | Some a, Some b => match sids_to_eids a with Ok a' => same_set a' b | Err => false end
                        | _, _ => false
                        end in
            mkv (l_corr ms o1 && l_corr me o2) prop "-" (VL [l_res ms; l_res me])
        end
    | _, _ => bad_case
    end.

  (* ---- histories: several calls of the exported functions in one case (args: [reuse the caller's point objects; mutate the
     returned slices between calls; steps], a step is [false; p1; p2; h; v] or [true; p1; p2; zoom]; obs: one result per step).
     The model is a pure function of a step's own arguments (Line.history_answers_independent), so every step is judged exactly
     like a standalone call; the case passes iff every step passes. ---- *)
  Definition step_call (st : val) : option (bool * list val) :=
    match st with
    | VL [VB false; p1; p2; VZ h; VZ v] => Some (false, [p1; p2; VZ h; VZ v])
    | VL [VB true; p1; p2; VZ z] => Some (true, [p1; p2; VZ z])
    | _ => None
    end.
  Definition step_verdict (oracle : oracle_t) (st obs : val) : verdict :=
    match step_call st with Some (sid, a) => d_line oracle sid a obs | None => bad_case end.
  Definition step_verdicts (oracle : oracle_t) (steps obs : list val) : list verdict :=
    map (fun so => step_verdict oracle (fst so) (snd so)) (combine steps obs).
  Definition is_class (c : string) (v : verdict) : bool := String.eqb (v_class v) c.
  Definition merge_verdicts (vs : list verdict) : verdict :=
    if existsb (is_class "bad-case") vs then bad_case
    else if existsb (is_class "skipped") vs then mkv true true "skipped" VNil
    else let corr := forallb v_corr vs in
         let prop := forallb v_prop vs in
         let unexcused := existsb (fun v => negb (v_prop v) && is_class "-" v) vs in
         let cls := if prop || unexcused || negb corr then "-"
                    else match find (fun v => negb (v_prop v)) vs with Some v => v_class v | None => "-" end in
         mkv corr prop cls (VL (map v_model vs)).
  Definition d_history (oracle : oracle_t) (args : list val) (obs : val) : verdict :=
    match args, obs with
    | [VB _; VB _; VL steps], VL os =>
        if Nat.eqb (List.length steps) (List.length os) then merge_verdicts (step_verdicts oracle steps os) else bad_case
    | _, _ => bad_case
    end.

  Lemma combine_snoc {A B} (l : list A) (k : list B) a b : List.length l = List.length k ->
    combine (l ++ [a]) (k ++ [b]) = (combine l k ++ [(a, b)])%list.
  Proof.
    revert k. induction l as [|x l IH]; intros [|y k]; cbn; try discriminate; [reflexivity|].
    intros [= E]. now rewrite IH.
  Qed.
  (* the verdict of a step does not depend on the steps before it: after ANY history it is the standalone verdict *)
  Theorem step_verdict_independent oracle pre opre st o : List.length pre = List.length opre ->
    nth_error (step_verdicts oracle (pre ++ [st]) (opre ++ [o])) (List.length pre) = Some (step_verdict oracle st o).
  Proof.
    intros E. unfold step_verdicts. rewrite combine_snoc by exact E. rewrite map_app.
    rewrite nth_error_app2; rewrite map_length, combine_length, <- E, Nat.min_id; [|apply Nat.le_refl].
    rewrite Nat.sub_diag. reflexivity.
  Qed.
  (* a one-step history gets exactly the standalone verdict and class of its step (nothing is lost in the merge); d_line gives a
     class only together with prop = false and corr = true *)
  Lemma merge_single v : is_class "bad-case" v = false -> is_class "skipped" v = false ->
    (v_prop v = true -> v_class v = "-") -> (v_corr v = false -> v_class v = "-") ->
    v_corr (merge_verdicts [v]) = v_corr v /\ v_prop (merge_verdicts [v]) = v_prop v /\ v_class (merge_verdicts [v]) = v_class v.
  Proof.
    intros B S P C. unfold merge_verdicts. cbn [existsb forallb find map]. rewrite B, S. cbn [orb].
    rewrite !andb_true_r, orb_false_r. cbn [v_corr v_prop v_class mkv].
    split; [reflexivity|]. split; [reflexivity|].
    destruct (v_prop v) eqn:Ep; cbn [negb andb orb].
    - symmetry. now apply P.
    - destruct (v_corr v) eqn:Ec; cbn [negb orb].
      + destruct (is_class "-" v) eqn:E; [|reflexivity]. unfold is_class in E. apply String.eqb_eq in E. now rewrite E.
      + rewrite orb_true_r. symmetry. now apply C.
  Qed.
  (* a history case passes (prop) exactly when every step passes, provided no step is outside the judged domain or over-size *)
  Lemma merge_prop vs : existsb (is_class "bad-case") vs = false -> existsb (is_class "skipped") vs = false ->
    v_prop (merge_verdicts vs) = forallb v_prop vs.
  Proof. intros H1 H2. unfold merge_verdicts. rewrite H1, H2. reflexivity. Qed.

Definition table_C06 : table :=
  [("GetExtendedSpatialIdsOnLine", fun o => d_line o false); ("GetSpatialIdsOnLine", fun o => d_line o true);
   ("LineSidVsExt", d_sid_vs_ext); ("LineHistory", d_history)].
