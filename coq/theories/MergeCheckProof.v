(* MergeCheckProof.v — the run-time checker MergeCheck.check_merge decides exactly the specification of C04:
   `check_merge H V ids obs = true <-> NoDup obs /\ forall o, In o obs <-> S H V (In ids) o` (sound: a rejected output violates
   the property; complete: no false alarm), and an accepted output has the region, and the idempotence, the property promises. *)
From Coq Require Import ZArith Reals Lia Lra List Bool Permutation.
From Flocq Require Import Core.
From SID Require Import Base Str Ids Voxel ZoomCore Merge MergeCheck MergeProof MergeRegion MergeIdem.
Import ListNotations.
Open Scope Z_scope.

Lemma id_perm (l : list eid) : Permutation ((fun l => l) l) l.
Proof. apply Permutation_refl. Qed.

(* ---- boolean set operations ---- *)
Lemma subsetb_spec a b : subsetb a b = true <-> incl a b.
Proof.
  unfold subsetb, incl. rewrite forallb_forall. split; intros F x Hx.
  - apply (memb_In eid_eqb eid_eqb_spec). now apply F.
  - apply (memb_In eid_eqb eid_eqb_spec). now apply F.
Qed.
Lemma set_eqb_spec a b : set_eqb a b = true <-> (forall x, In x a <-> In x b).
Proof.
  unfold set_eqb. rewrite andb_true_iff, !subsetb_spec. unfold incl. split.
  - intros [A B] x. split; auto.
  - intros E. split; intros x; apply E.
Qed.
Lemma nodup_eids_spec l : nodup_eids l = true <-> NoDup l.
Proof.
  unfold nodup_eids. destruct (list_eqb_spec eid_eqb eid_eqb_spec (nodupb eid_eqb l) l) as [E|N]; split; try congruence.
  - intros _. rewrite <- E. apply (nodupb_NoDup eid_eqb eid_eqb_spec).
  - intros ND. exfalso. apply N. now apply (nodupb_id eid_eqb eid_eqb_spec).
Qed.

(* ---- the dyadic-box test ---- *)
Lemma coversb_in_units MH MV j c : eh c = MH -> ev c = MV -> eh j <= MH -> ev j <= MV ->
  (coversb j c = true <-> In c (units MH MV j)).
Proof.
  intros E1 E2 Hh Hv. rewrite in_units by assumption. unfold coversb. rewrite E1, E2.
  rewrite !andb_true_iff, !Z.leb_le, !Z.eqb_eq, !Z.shiftr_div_pow2 by lia. unfold anc. tauto.
Qed.
Lemma coversb_zooms j c : coversb j c = true -> eh j <= eh c /\ ev j <= ev c.
Proof. unfold coversb. rewrite !andb_true_iff, !Z.leb_le. tauto. Qed.

Section CheckProof.
  Variables H V : Z.
  Hypothesis H0 : 0 <= H.
  Hypothesis V0 : 0 <= V.
  Variable ids : list eid.
  Hypothesis ids_wf : forall i, In i ids -> wfz i.
  Let MH := maxz eh ids.
  Let MV := maxz ev ids.
  Notation inI := (fun i => In i ids).

  Lemma ids_zooms j : In j ids -> 0 <= eh j <= MH /\ 0 <= ev j <= MV.
  Proof.
    intros Hj. destruct (ids_wf j Hj) as (A & B & _). pose proof (maxz_ge eh ids j Hj). pose proof (maxz_ge ev ids j Hj).
    unfold MH, MV. lia.
  Qed.

  (* the reference "completely filled" test decides the region-level statement *)
  Lemma members_In T j : In j (members H V ids T) <-> In j ids /\ elig H V j /\ tgt H V j = T.
  Proof.
    unfold members. rewrite filter_In, andb_true_iff, eligible_elig.
    destruct (eid_eqb_spec (tgt H V j) T); intuition congruence.
  Qed.
  Lemma volsum_length l : (forall j, In j l -> eh j <= MH /\ ev j <= MV) ->
    Z.of_nat (length (flat_map (units MH MV) l)) = volsum ids l.
  Proof.
    induction l as [|a r IH]; intros Z; [reflexivity|]. cbn [flat_map volsum fold_right].
    rewrite app_length, Nat2Z.inj_add, IH by (intros j Hj; apply Z; now right).
    destruct (Z a (or_introl eq_refl)). rewrite units_length by assumption. reflexivity.
  Qed.

  (* the reference "completely filled" test decides the region-level statement *)
  Lemma fullb_spec i : In i ids -> elig H V i -> (fullb H V ids (tgt H V i) = true <-> fullS H V inI (tgt H V i)).
  Proof.
    intros Hi [Eh Ev]. destruct (ids_zooms i Hi) as [Zh Zv]. set (T := tgt H V i).
    assert (TH : 0 <= eh T <= MH) by (unfold T; cbn; lia).
    assert (TV : 0 <= ev T <= MV) by (unfold T; cbn; lia).
    assert (MZ : forall j, In j (members H V ids T) -> 0 <= eh j <= MH /\ 0 <= ev j <= MV).
    { intros j Hj. apply members_In in Hj. now apply ids_zooms. }
    pose proof (cover_cells_points MH MV (fun j => In j (members H V ids T)) T TH TV MZ) as CP.
    assert (CB : forall c, In c (units MH MV T) ->
              (existsb (fun j => coversb j c) (members H V ids T) = true <-> exists j, In j (members H V ids T) /\ In c (units MH MV j))).
    { intros c Hc. apply in_units in Hc; [|lia|lia]. destruct Hc as (E1 & E2 & _). rewrite existsb_exists.
      split; intros (j & Hj & Cj); exists j; (split; [exact Hj|]); destruct (MZ j Hj);
        apply (coversb_in_units MH MV j c E1 E2); try lia; exact Cj. }
    unfold fullb. fold MH MV. rewrite andb_true_iff, forallb_forall. split.
    - intros [_ F] p Hp.
      destruct (proj1 CP (fun c Hc => proj1 (CB c Hc) (F c Hc)) p Hp) as (j & Hj & Hjp).
      apply members_In in Hj. exists j. tauto.
    - intros F.
      assert (F' : forall p, inR T p -> exists j, In j (members H V ids T) /\ inR j p).
      { intros p Hp. destruct (F p Hp) as (j & Hj & Ej & Hjp). exists j. split; [|exact Hjp].
        apply members_In. split; [exact Hj|]. split; [exact Ej|].
        apply (tgt_of_point H V H0 V0 T j p); auto. }
      pose proof (proj2 CP F') as Cov. split.
      + (* volume: the cells of T are among the cells of its members, and no cell of T is listed twice *)
        apply Z.leb_le. unfold vol. fold MH MV.
        rewrite <- (cells_length MH MV T) by lia.
        rewrite <- (volsum_length (members H V ids T)) by (intros j Hj; destruct (MZ j Hj); lia).
        apply inj_le. apply NoDup_incl_length; [apply cells_NoDup|].
        intros c Hc. apply cells_units in Hc. apply in_flat_map. now apply Cov.
      + intros c Hc. apply (CB c Hc). now apply Cov.
  Qed.

  (* the reference list has exactly the members of the specification set *)
  Theorem ref_spec o : In o (ref H V ids) <-> S H V inI o.
  Proof.
    unfold ref. rewrite in_flat_map. split.
    - intros (i & Hi & Ho). destruct (eligible H V i) eqn:E.
      + apply eligible_elig in E. destruct (fullb H V ids (tgt H V i)) eqn:FB.
        * destruct Ho as [<-|[]]. right; left. exists i. repeat split; auto; try apply E. now apply (fullb_spec i Hi E).
        * destruct Ho as [<-|[]]. right; right. repeat split; auto; try apply E.
          intros F. apply (fullb_spec i Hi E) in F. congruence.
      + apply eligible_false in E. destruct Ho as [<-|[]]. left. auto.
    - intros [[Ho N]|[(i & Hi & Ei & <- & F)|(Ho & Eo & NF)]].
      + exists o. split; [exact Ho|]. apply eligible_false in N. rewrite N. now left.
      + exists i. split; [exact Hi|]. rewrite (proj2 (eligible_elig H V i) Ei).
        rewrite (proj2 (fullb_spec i Hi Ei) F). now left.
      + exists o. split; [exact Ho|]. rewrite (proj2 (eligible_elig H V o) Eo).
        destruct (fullb H V ids (tgt H V o)) eqn:FB; [|now left].
        exfalso. apply NF. now apply (fullb_spec o Ho Eo).
  Qed.

  (* region comparison on unit cells = comparison of the covered regions *)
  Lemma covered_by_spec a b :
    (forall j, In j a -> 0 <= eh j <= MH /\ 0 <= ev j <= MV) -> (forall j, In j b -> 0 <= eh j <= MH /\ 0 <= ev j <= MV) ->
    (covered_by ids a b = true <-> forall p, (exists i, In i a /\ inR i p) -> (exists o, In o b /\ inR o p)).
  Proof.
    intros Za Zb. unfold covered_by. fold MH MV. rewrite forallb_forall. split.
    - intros F p (i & Hi & Hp). destruct (Za i Hi) as [Zh Zv].
      pose proof (cover_cells_points MH MV (fun o => In o b) i Zh Zv Zb) as CP.
      apply (proj1 CP); [|exact Hp]. intros c Hc. pose proof (F i Hi) as Fi. rewrite forallb_forall in Fi.
      pose proof (Fi c Hc) as Fc. apply existsb_exists in Fc. destruct Fc as (o & Ho & Co). exists o. split; [exact Ho|].
      apply in_units in Hc; [|lia|lia]. destruct Hc as (E1 & E2 & _). destruct (Zb o Ho).
      apply (coversb_in_units MH MV o c E1 E2); [lia|lia|exact Co].
    - intros F i Hi. rewrite forallb_forall. intros c Hc. destruct (Za i Hi) as [Zh Zv].
      pose proof (cover_cells_points MH MV (fun o => In o b) i Zh Zv Zb) as CP.
      assert (F' : forall p, inR i p -> exists o, In o b /\ inR o p) by (intros p Hp; apply F; exists i; auto).
      destruct (proj2 CP F' c Hc) as (o & Ho & Hco). apply existsb_exists. exists o. split; [exact Ho|].
      apply in_units in Hc; [|lia|lia]. destruct Hc as (E1 & E2 & _). destruct (Zb o Ho).
      apply (coversb_in_units MH MV o c E1 E2); [lia|lia|exact Hco].
  Qed.

  Lemma zooms_within_spec l : zooms_within ids l = true <-> (forall j, In j l -> 0 <= eh j <= MH /\ 0 <= ev j <= MV).
  Proof.
    unfold zooms_within. fold MH MV. rewrite forallb_forall. split; intros F j Hj; specialize (F j Hj).
    - rewrite !andb_true_iff, !Z.leb_le in F. lia.
    - rewrite !andb_true_iff, !Z.leb_le. lia.
  Qed.

  Lemma inel_In l o : In o (inel H V l) <-> In o l /\ ~ elig H V o.
  Proof. unfold inel. rewrite filter_In, negb_true_iff, eligible_false. tauto. Qed.
  Lemma elg_In l o : In o (elg H V l) <-> In o l /\ elig H V o.
  Proof. unfold elg. rewrite filter_In, eligible_elig. tauto. Qed.

  Theorem region_eqb_spec obs : region_eqb H V ids obs = true <->
    (forall o, (In o obs /\ ~ elig H V o) <-> (In o ids /\ ~ elig H V o)) /\
    (forall j, In j obs -> elig H V j -> 0 <= eh j <= MH /\ 0 <= ev j <= MV) /\
    (forall p, (exists o, In o obs /\ elig H V o /\ inR o p) <-> (exists i, In i ids /\ elig H V i /\ inR i p)).
  Proof.
    assert (Zi : forall j, In j (elg H V ids) -> 0 <= eh j <= MH /\ 0 <= ev j <= MV) by (intros j Hj; apply elg_In in Hj; now apply ids_zooms).
    assert (X : forall l p, (exists o, In o (elg H V l) /\ inR o p) <-> (exists o, In o l /\ elig H V o /\ inR o p)).
    { intros l p. split; intros (o & A & B); exists o; [apply elg_In in A; tauto|split; [apply elg_In; tauto|tauto]]. }
    unfold region_eqb. rewrite !andb_true_iff, zooms_within_spec, set_eqb_spec. split.
    - intros [[[I Z] A] B].
      assert (Zo : forall j, In j (elg H V obs) -> 0 <= eh j <= MH /\ 0 <= ev j <= MV) by exact Z.
      split; [|split].
      + intros o. rewrite <- !inel_In. apply I.
      + intros j Hj Ej. apply Z. apply elg_In. auto.
      + intros p. rewrite <- !X. split.
        * apply (covered_by_spec _ _ Zo Zi). exact B.
        * apply (covered_by_spec _ _ Zi Zo). exact A.
    - intros (I & Z & E).
      assert (Zo : forall j, In j (elg H V obs) -> 0 <= eh j <= MH /\ 0 <= ev j <= MV) by (intros j Hj; apply elg_In in Hj; now apply Z).
      split; [split; [split|]|].
      + intros o. rewrite !inel_In. apply I.
      + exact Zo.
      + apply (covered_by_spec _ _ Zi Zo). intros p. rewrite !X. apply E.
      + apply (covered_by_spec _ _ Zo Zi). intros p. rewrite !X. apply E.
  Qed.

  (* hence the whole covered region is the same *)
  Lemma region_eqb_region obs : region_eqb H V ids obs = true ->
    forall p, (exists o, In o obs /\ inR o p) <-> (exists i, In i ids /\ inR i p).
  Proof.
    intros R. apply region_eqb_spec in R. destruct R as (I & _ & E). intros p. split.
    - intros (o & Ho & Hp). destruct (eligible H V o) eqn:Eo.
      + apply eligible_elig in Eo. destruct (proj1 (E p)) as (i & A & _ & B); [exists o; auto|]. exists i. auto.
      + apply eligible_false in Eo. exists o. split; [apply (I o); auto|exact Hp].
    - intros (i & Hi & Hp). destruct (eligible H V i) eqn:Ei.
      + apply eligible_elig in Ei. destruct (proj2 (E p)) as (o & A & _ & B); [exists i; auto|]. exists o. auto.
      + apply eligible_false in Ei. exists i. split; [apply (I i); auto|exact Hp].
  Qed.

  (* members of the specification set have zooms dominated by the input's maxima *)
  Lemma S_zooms o : S H V inI o -> wfz o /\ 0 <= eh o <= MH /\ 0 <= ev o <= MV.
  Proof.
    intros [[Ho _]|[(i & Hi & Ei & <- & _)|(Ho & _)]].
    - split; [now apply ids_wf|now apply ids_zooms].
    - split; [apply tgt_wfz; auto|]. destruct (ids_zooms i Hi). destruct Ei. cbn. lia.
    - split; [now apply ids_wf|now apply ids_zooms].
  Qed.

  (* C04, the checker: accepted <-> duplicate-free and exactly the specification set *)
  Theorem check_merge_correct obs :
    check_merge H V ids obs = true <-> NoDup obs /\ (forall o, In o obs <-> S H V inI o).
  Proof.
    unfold check_merge. rewrite !andb_true_iff, nodup_eids_spec, !set_eqb_spec. split.
    - intros [[ND E] _]. split; [exact ND|]. intros o. rewrite (E o). apply ref_spec.
    - intros [ND E].
      assert (EM : forall o, In o obs <-> In o (merge_x H V ids)).
      { intros o. rewrite (E o). symmetry. apply (merge_is_S _ id_perm H V H0 V0 ids ids_wf). }
      split; [split|].
      + exact ND.
      + intros o. rewrite (E o). symmetry. apply ref_spec.
      + apply region_eqb_spec. split; [|split].
        * intros o. rewrite (E o). unfold S. split.
          -- intros [[[A _]|[(i & _ & _ & <- & _)|(_ & B & _)]] N]; [auto| |contradiction]. exfalso. apply N, tgt_elig.
          -- intros [A N]. split; [left; auto|exact N].
        * intros o Ho _. apply E in Ho. now apply S_zooms.
        * intros p. split.
          -- intros (o & Ho & Eo & Hp). apply E in Ho. destruct Ho as [[_ N]|[(i & Hi & Ei & <- & F)|(Ho & _ & _)]]; [contradiction| |].
             ++ destruct (F p Hp) as (j & A & B & C). exists j. auto.
             ++ exists o. auto.
          -- intros (i & Hi & Ei & Hp). destruct (fullS_dec H V H0 V0 ids ids_wf i Hi Ei) as [F|NF].
             ++ exists (tgt H V i). split; [apply E; right; left; exists i; auto|]. split; [apply tgt_elig|now apply inR_tgt].
             ++ exists i. split; [apply E; right; right; auto|]. auto.
  Qed.

  (* what an accepted output satisfies, spelled out (the last clause is a consequence by C04_idempotent, not a run-time test) *)
  Corollary check_merge_sound obs : check_merge H V ids obs = true ->
    NoDup obs /\
    (forall o, In o obs <-> S H V inI o) /\
    (forall p, (exists o, In o obs /\ inR o p) <-> (exists i, In i ids /\ inR i p)) /\
    (forall o, In o (merge_x H V obs) <-> In o obs).
  Proof.
    intros C. pose proof C as C'. apply check_merge_correct in C'. destruct C' as [ND E].
    unfold check_merge in C. rewrite !andb_true_iff in C. destruct C as [[_ _] R].
    assert (EM : forall o, In o obs <-> In o (merge_x H V ids)).
    { intros o. rewrite (E o). symmetry. apply (merge_is_S _ id_perm H V H0 V0 ids ids_wf). }
    assert (Wobs : forall o, In o obs -> wfz o) by (intros o Ho; apply E in Ho; now apply S_zooms).
    split; [exact ND|]. split; [exact E|]. split.
    - now apply region_eqb_region.
    - intros o. unfold merge_x.
      rewrite (merge_set_ext _ _ id_perm id_perm H V obs (merge_x H V ids) H0 V0 Wobs EM o).
      unfold merge_x. rewrite (merge_idem _ _ id_perm id_perm H V ids H0 V0 ids_wf o). symmetry. apply EM.
  Qed.
End CheckProof.
