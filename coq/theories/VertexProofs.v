(* VertexProofs.v — C02: theorems about the faithful model of shape.GetPointOnExtendedSpatialId / GetPointOnSpatialId (VertexF.v).
   For every oracle (math.Sinh / math.Atan enter as arbitrary functions):
   the corner list of a valid ID is a function of the six grid planes x, x+1, y, y+1, f, f+1 in the documented order;
   longitudes and altitudes are the exact real-number planes; faces shared with a neighbour are bit-identical; the centre is the
   midpoint and converting it back returns the original column and vertical index; error paths; soundness of the run-time checkers. *)
From Coq Require Import ZArith Reals Lia Lra Floats List Bool Psatz String.
From Flocq Require Import Core BinarySingleNaN.
From Flocq Require PrimFloat.
From SID Require Import Base Str Ids F64 ExactRef PointF VertexF VxBridge West VertexCheck.
Import ListNotations.
Open Scope Z_scope.

(* ---- generic facts on float comparison (any floats, NaN included) ---- *)
Lemma ltb_irrefl (a : pfloat) : (a <? a)%float = false.
Proof.
  rewrite PrimFloat.ltb_equiv. unfold Bltb, SFltb.
  pose proof (Bcompare_swap _ _ (P2B a) (P2B a)) as H. unfold Bcompare in H.
  destruct (SFcompare (B2SF (P2B a)) (B2SF (P2B a))) as [[| |]|]; try reflexivity. discriminate H.
Qed.
Lemma ltb_asym (a b : pfloat) : (a <? b)%float = true -> (b <? a)%float = false.
Proof.
  rewrite !PrimFloat.ltb_equiv. unfold Bltb, SFltb.
  pose proof (Bcompare_swap _ _ (P2B a) (P2B b)) as H. unfold Bcompare in H. rewrite H.
  destruct (SFcompare (B2SF (P2B a)) (B2SF (P2B b))) as [[| |]|]; try discriminate; reflexivity.
Qed.

Lemma feqb_bits_eq (a b : pfloat) : feqb_bits a b = true -> a = b.
Proof.
  intros H. apply float_eq_of_sf. unfold feqb_bits in H. unfold sf_eqb.
  destruct (Prim2SF a), (Prim2SF b); try discriminate; exact H.
Qed.
Lemma feqb_bits_refl (a : pfloat) : feqb_bits a a = true.
Proof.
  unfold feqb_bits. destruct (Prim2SF a); try reflexivity; try apply Bool.eqb_reflx.
  now rewrite Bool.eqb_reflx, Pos.eqb_refl, Z.eqb_refl.
Qed.

(* ---- structure of getVertexOnVoxelOffset (all inputs, all oracles) ---- *)
Section Model.
  Variable m_sinh m_atan : pfloat -> pfloat.
  Notation edge := (edge_lat m_sinh m_atan).
  Notation vertices := (vertices m_sinh m_atan).
  Notation centre := (centre m_sinh m_atan).

  (* NW, NE, SE, SW at the bottom, then the same at the top *)
  Definition box_corners (W E N S A T : pfloat) : list point :=
    [pt_of W N A; pt_of E N A; pt_of E S A; pt_of W S A; pt_of W N T; pt_of E N T; pt_of E S T; pt_of W S T].

  Definition yclamp (h y : Z) : pfloat :=
    let hl := pow2f h in let yf := of_Z y in
    (if (hl - 1) <=? yf then hl - 1 else if yf <? 0 then 0 else yf)%float.
  Definition xwrap (h x : Z) : pfloat :=
    let hl := pow2f h in let xf := of_Z x in
    if ((hl - 1) <=? xf)%float || (xf <? 0)%float
    then (match Zfloor_f hl with Some w => of_Z (Z.modulo x w) | None => nan end)
    else xf.

  Theorem vertices_structure h x y alt res :
    vertices h x y alt res =
    box_corners (west_of (xwrap h x) (pow2f h)) (east_of (xwrap h x) (pow2f h))
                (edge (yclamp h y) (pow2f h)) (edge (yclamp h y + 1)%float (pow2f h)) alt (alt + res)%float.
  Proof. reflexivity. Qed.

  (* the latitude of the row boundary k of zoom h (k = 0 .. 2^h), as the code computes it *)
  Definition rowlat (h k : Z) : pfloat := edge (of_Z k) (pow2f h).

  Lemma pow2_small h : 0 <= h <= 35 -> 0 < 2 ^ h <= 34359738368.
  Proof. exact (pow_le35' h). Qed.

  Lemma hl_minus1 h : 0 <= h <= 35 -> isR (pow2f h - 1)%float (IZR (2 ^ h - 1)).
  Proof.
    intros Hh. pose proof (pow2_small h Hh). pose proof (pow2f_isR h ltac:(lia)) as Hhl.
    rewrite minus_IZR, IZR_pow2 by lia. apply (sub_exact _ _ _ _ Hhl isR_1 (2 ^ h - 1) 0); [|lia|lia].
    unfold dyR. rewrite minus_IZR, IZR_pow2 by lia. change (bpow radix2 0) with 1%R. ring.
  Qed.
  Lemma ofZ h k : 0 <= h <= 35 -> - 2 ^ h <= k <= 2 ^ h -> isR (of_Z k) (IZR k).
  Proof. intros Hh Hk. pose proof (pow2_small h Hh). apply of_Z_small. change (2 ^ 36) with 68719476736. lia. Qed.

  Lemma xwrap_valid h x : 0 <= h <= 35 -> 0 <= x < 2 ^ h -> xwrap h x = of_Z x.
  Proof.
    intros Hh Hx. unfold xwrap. destruct (_ || _)%bool; [|reflexivity].
    pose proof (pow2f_isR h ltac:(lia)) as Hhl. rewrite (Zfloor_f_isR _ _ Hhl).
    rewrite <- IZR_pow2 by lia. rewrite Zfloor_IZR. now rewrite Z.mod_small.
  Qed.

  Lemma yclamp_valid h y : 0 <= h <= 35 -> 0 <= y < 2 ^ h -> yclamp h y = of_Z y.
  Proof.
    intros Hh Hy. pose proof (pow2_small h Hh) as Hp. unfold yclamp.
    pose proof (hl_minus1 h Hh) as Hm. pose proof (ofZ h y Hh ltac:(lia)) as Hoy.
    destruct (Z.eq_dec y (2 ^ h - 1)) as [E|N].
    - rewrite (leb_true _ _ _ _ Hm Hoy) by (apply IZR_le; lia).
      destruct (Z.eq_dec y 0) as [Y0|Yn].
      + assert (h = 0). { destruct (Z.eq_dec h 0); [assumption|]. assert (2 ^ 1 <= 2 ^ h) by (apply Z.pow_le_mono_r; lia). change (2 ^ 1) with 2 in *. lia. }
        subst h y. vm_compute. reflexivity.
      + apply isR_inj with (IZR y); [rewrite E; exact Hm | exact Hoy | apply not_0_IZR; exact Yn].
    - rewrite (leb_false _ _ _ _ Hm Hoy) by (apply IZR_lt; lia).
      rewrite (ltb_false _ _ _ _ Hoy isR_0) by (apply IZR_le; lia). reflexivity.
  Qed.

  Lemma succ_float h k : 0 <= h <= 35 -> 0 <= k <= 2 ^ h -> (of_Z k + 1)%float = of_Z (k + 1).
  Proof.
    intros Hh Hk. pose proof (pow2_small h Hh).
    apply isR_inj with (IZR (k + 1)).
    - apply succ_isR; [change (2 ^ 52) with 4503599627370496; lia|]. apply (ofZ h); lia.
    - apply of_Z_small. change (2 ^ 36) with 68719476736. lia.
    - apply not_0_IZR. lia.
  Qed.

  Lemma east_next h x : 0 <= h <= 35 -> 0 <= x <= 2 ^ h -> eastf h x = westf h (x + 1).
  Proof.
    intros Hh Hx. unfold eastf, westf. change (east_of (of_Z x) (pow2f h)) with (west_of (of_Z x + 1)%float (pow2f h)).
    now rewrite (succ_float h x Hh Hx).
  Qed.

  (* the grid planes: longitude of column boundary k, latitude of row boundary k, altitude of level k *)
  Definition lonplane (h k : Z) : pfloat := westf h k.
  Definition altplane (v k : Z) : pfloat := bottomf v k.

  (* ---- (1) eight corners in the documented order, as a function of the six planes ---- *)
  Theorem vertices_planes (i : eid) : valid i ->
    vertices (eh i) (ex i) (ey i) (valt (ef i) (ev i)) (vres (ev i)) =
    box_corners (lonplane (eh i) (ex i)) (lonplane (eh i) (ex i + 1))
                (rowlat (eh i) (ey i)) (rowlat (eh i) (ey i + 1))
                (altplane (ev i) (ef i)) (altplane (ev i) (ef i + 1)).
  Proof.
    intros (Hh & Hv & Hx & Hy & Hf). rewrite vertices_structure.
    rewrite (xwrap_valid _ _ Hh Hx), (yclamp_valid _ _ Hh Hy).
    rewrite (succ_float (eh i) (ey i) Hh ltac:(lia)).
    change (east_of (of_Z (ex i)) (pow2f (eh i))) with (eastf (eh i) (ex i)).
    rewrite (east_next (eh i) (ex i) Hh ltac:(lia)).
    change (valt (ef i) (ev i) + vres (ev i))%float with (topf (ev i) (ef i)).
    rewrite (top_is_next_bottom _ _ Hv Hf). reflexivity.
  Qed.

  (* ---- (2) the longitude and altitude planes are the exact real-number planes ---- *)
  Definition lonR (h k : Z) : R := (IZR k * 360 / IZR (2 ^ h) - 180)%R.          (* k * 360 / 2^h - 180 *)
  Definition altR (v k : Z) : R := (IZR k * IZR (2 ^ 25) / IZR (2 ^ v))%R.       (* k * 2^(25-v)       *)

  Theorem lonplane_exact h k : 0 <= h <= 35 -> 0 <= k <= 2 ^ h -> isR (lonplane h k) (lonR h k).
  Proof. intros Hh Hk. unfold lonR. rewrite <- west_value by lia. now apply westf_isR. Qed.
  Theorem altplane_exact v k : 0 <= v <= 35 -> - 2 ^ v <= k <= 2 ^ v -> isR (altplane v k) (altR v k).
  Proof. intros Hv Hk. unfold altR. rewrite <- mult_IZR. now apply bottomf_isR. Qed.

  Lemma lonR_lt h k k' : 0 <= h -> k < k' -> (lonR h k < lonR h k')%R.
  Proof.
    intros Hh Hk. unfold lonR. pose proof (pow2R_pos h Hh) as Hp. apply IZR_lt in Hk.
    apply Rplus_lt_compat_r. unfold Rdiv. apply Rmult_lt_compat_r; [apply Rinv_0_lt_compat; exact Hp | lra].
  Qed.
  Lemma altR_lt v k k' : 0 <= v -> k < k' -> (altR v k < altR v k')%R.
  Proof.
    intros Hv Hk. unfold altR. pose proof (pow2R_pos v Hv) as Hp. pose proof (pow2R_pos 25 ltac:(lia)) as H25. apply IZR_lt in Hk.
    unfold Rdiv. apply Rmult_lt_compat_r; [apply Rinv_0_lt_compat; exact Hp | nra].
  Qed.
  Lemma lonR_first h : 0 <= h -> lonR h 0 = (-180)%R.
  Proof. intros Hh. unfold lonR. pose proof (pow2R_pos h Hh). field. lra. Qed.
  Lemma lonR_last h : 0 <= h -> lonR h (2 ^ h) = 180%R.
  Proof. intros Hh. unfold lonR. pose proof (pow2R_pos h Hh). field. lra. Qed.
  Lemma lonR_range h k : 0 <= h -> 0 <= k <= 2 ^ h -> (Rabs (lonR h k) <= 180)%R.
  Proof.
    intros Hh Hk. apply Rabs_le. rewrite <- (lonR_first h Hh) at 1. rewrite <- (lonR_last h Hh).
    destruct (Z.eq_dec k 0) as [->|]; [|destruct (Z.eq_dec k (2 ^ h)) as [->|]].
    - pose proof (lonR_lt h 0 (2 ^ h) Hh ltac:(lia)). lra.
    - pose proof (lonR_lt h 0 (2 ^ h) Hh ltac:(lia)). lra.
    - pose proof (lonR_lt h 0 k Hh ltac:(lia)). pose proof (lonR_lt h k (2 ^ h) Hh ltac:(lia)). lra.
  Qed.

  (* ---- NewPoint applied to such coordinates stores them (latitude after the documented truncation) ---- *)
  Definition mkp (lon lat alt : pfloat) : point := {| plon := lon; plat := lat; palt := alt |}.
  Definition lat_acc (lat : pfloat) : bool := negb (c_latmax <? abs (setlat_trunc lat))%float.
  Lemma pt_of_ok lon lat alt r : isR lon r -> (Rabs r <= 180)%R -> lat_acc lat = true ->
    pt_of lon lat alt = mkp lon (setlat_trunc lat) alt.
  Proof.
    intros Hl Hr Ha. unfold pt_of, new_point.
    rewrite (ltb_false _ _ _ _ isR_180 (abs_isR _ _ Hl) Hr).
    unfold lat_acc in Ha. apply negb_true_iff in Ha. rewrite Ha. reflexivity.
  Qed.

  Definition box_points (W E N S A T : pfloat) : list point :=
    [mkp W N A; mkp E N A; mkp E S A; mkp W S A; mkp W N T; mkp E N T; mkp E S T; mkp W S T].

  (* the stored latitude of row boundary k *)
  Definition rowlat_stored (h k : Z) : pfloat := setlat_trunc (rowlat h k).

  Theorem vertices_explicit (i : eid) : valid i ->
    lat_acc (rowlat (eh i) (ey i)) = true -> lat_acc (rowlat (eh i) (ey i + 1)) = true ->
    vertices (eh i) (ex i) (ey i) (valt (ef i) (ev i)) (vres (ev i)) =
    box_points (lonplane (eh i) (ex i)) (lonplane (eh i) (ex i + 1))
               (rowlat_stored (eh i) (ey i)) (rowlat_stored (eh i) (ey i + 1))
               (altplane (ev i) (ef i)) (altplane (ev i) (ef i + 1)).
  Proof.
    intros V HN HS. rewrite (vertices_planes i V). destruct V as (Hh & Hv & Hx & Hy & Hf).
    pose proof (lonplane_exact _ _ Hh (conj (proj1 Hx) (Z.lt_le_incl _ _ (proj2 Hx)))) as HW.
    pose proof (lonplane_exact (eh i) (ex i + 1) Hh ltac:(lia)) as HE.
    pose proof (lonR_range (eh i) (ex i) ltac:(lia) ltac:(lia)) as RW.
    pose proof (lonR_range (eh i) (ex i + 1) ltac:(lia) ltac:(lia)) as RE.
    unfold box_corners, box_points, rowlat_stored.
    rewrite !(pt_of_ok _ _ _ _ HW RW HN), !(pt_of_ok _ _ _ _ HW RW HS), !(pt_of_ok _ _ _ _ HE RE HN), !(pt_of_ok _ _ _ _ HE RE HS).
    reflexivity.
  Qed.

  (* ---- the centre: midpoint of the extreme coordinates ---- *)
  Lemma fmax_cons b l a : fmax_list (b :: l) a = fmax_list l (if a <? b then b else a)%float.
  Proof. reflexivity. Qed.
  Lemma fmin_cons b l a : fmin_list (b :: l) a = fmin_list l (if b <? a then b else a)%float.
  Proof. reflexivity. Qed.

  Lemma extremes_two (lo hi : pfloat) : (lo <? hi)%float = true ->
    fmax_list [lo; hi; hi; lo; lo; hi; hi; lo] lo = hi /\ fmin_list [lo; hi; hi; lo; lo; hi; hi; lo] lo = lo /\
    fmax_list [hi; hi; lo; lo; hi; hi; lo; lo] hi = hi /\ fmin_list [hi; hi; lo; lo; hi; hi; lo; lo] hi = lo /\
    fmax_list [lo; lo; lo; lo; hi; hi; hi; hi] lo = hi /\ fmin_list [lo; lo; lo; lo; hi; hi; hi; hi] lo = lo.
  Proof.
    intros H. pose proof (ltb_asym _ _ H) as H'. pose proof (ltb_irrefl lo) as Hl. pose proof (ltb_irrefl hi) as Hh.
    repeat split; repeat (first [rewrite fmax_cons | rewrite fmin_cons]; rewrite ?H, ?H', ?Hl, ?Hh); reflexivity.
  Qed.

  Lemma centre_of_box W E N S A T : (W <? E)%float = true -> (S <? N)%float = true -> (A <? T)%float = true ->
    let ps := box_points W E N S A T in
    let lons := map plon ps in let lats := map plat ps in let alts := map palt ps in
    ((fmax_list lons W + fmin_list lons W) / 2 = mid E W /\
     (fmax_list lats N + fmin_list lats N) / 2 = mid N S /\
     (fmax_list alts A + fmin_list alts A) / 2 = mid T A)%float.
  Proof.
    intros HW HS HA. cbn [box_points map plon plat palt mkp].
    destruct (extremes_two W E HW) as (E1 & E2 & _). destruct (extremes_two S N HS) as (_ & _ & E3 & E4 & _).
    destruct (extremes_two A T HA) as (_ & _ & _ & _ & E5 & E6).
    rewrite E1, E2, E3, E4, E5, E6. repeat split; reflexivity.
  Qed.

  Theorem centre_is_midpoint (i : eid) : valid i ->
    lat_acc (rowlat (eh i) (ey i)) = true -> lat_acc (rowlat (eh i) (ey i + 1)) = true ->
    (rowlat_stored (eh i) (ey i + 1) <? rowlat_stored (eh i) (ey i))%float = true ->
    centre (eh i) (ex i) (ey i) (valt (ef i) (ev i)) (vres (ev i)) =
    pt_of (mid (lonplane (eh i) (ex i + 1)) (lonplane (eh i) (ex i)))
          (mid (rowlat_stored (eh i) (ey i)) (rowlat_stored (eh i) (ey i + 1)))
          (mid (altplane (ev i) (ef i + 1)) (altplane (ev i) (ef i))).
  Proof.
    intros V HN HS Hlt. unfold VertexF.centre. rewrite (vertices_explicit i V HN HS).
    destruct V as (Hh & Hv & Hx & Hy & Hf).
    assert (HWE : (lonplane (eh i) (ex i) <? lonplane (eh i) (ex i + 1))%float = true).
    { apply (ltb_true _ _ _ _ (lonplane_exact (eh i) (ex i) Hh ltac:(lia)) (lonplane_exact (eh i) (ex i + 1) Hh ltac:(lia))). apply lonR_lt; lia. }
    assert (HAT : (altplane (ev i) (ef i) <? altplane (ev i) (ef i + 1))%float = true).
    { apply (ltb_true _ _ _ _ (altplane_exact (ev i) (ef i) Hv ltac:(lia)) (altplane_exact (ev i) (ef i + 1) Hv ltac:(lia))). apply altR_lt; lia. }
    destruct (centre_of_box _ _ _ _ _ _ HWE Hlt HAT) as (C1 & C2 & C3).
    cbv zeta in C1, C2, C3. cbn [box_points] in *. cbn [plon plat palt mkp]. rewrite C1, C2, C3. reflexivity.
  Qed.
End Model.

(* ---- soundness of the exact references used at run time ---- *)
Lemma isR_of_zero (x : pfloat) s : Prim2SF x = S754_zero s -> isR x 0%R.
Proof. intros H. unfold isR, FR, Ffin. rewrite B2R_Prim2B, fin_Prim2B, H. split; reflexivity. Qed.

Lemma dyadic_isR f m e : dyadic f = Some (m, e) -> isR f (dyR m e).
Proof.
  unfold dyadic. destruct (Prim2SF f) as [s|s| |s p q] eqn:E; try discriminate.
  - intros [= <- <-]. unfold dyR. rewrite Rmult_0_l. exact (isR_of_zero f s E).
  - intros [= <- <-]. exact (isR_of_SF f s p q E).
Qed.
Lemma isR_dyadic f r : isR f r -> exists m e, dyadic f = Some (m, e) /\ r = dyR m e.
Proof.
  intros [V F]. unfold Ffin in F. rewrite fin_Prim2B in F. unfold dyadic.
  destruct (Prim2SF f) as [s|s| |s p q] eqn:E; try discriminate.
  - exists 0, 0. split; [reflexivity|]. rewrite <- V. destruct (isR_of_zero f s E) as [V0 _]. rewrite V0. unfold dyR. ring.
  - eexists _, _. split; [reflexivity|]. rewrite <- V. now destruct (isR_of_SF f s p q E).
Qed.

Lemma dy_frac_eq m e n k : 0 <= k ->
  (dyR m e = IZR n / IZR (2 ^ k))%R <-> (if 0 <=? e then m * 2 ^ e * 2 ^ k = n else m * 2 ^ k = n * 2 ^ (- e)).
Proof.
  intros Hk. pose proof (pow2R_pos k Hk) as Pk. unfold dyR.
  destruct (Z.leb_spec 0 e) as [He|He].
  - rewrite <- IZR_pow2 by lia. split.
    + intros E. apply eq_IZR. rewrite !mult_IZR. rewrite E. field. lra.
    + intros <-. rewrite !mult_IZR. field. lra.
  - pose proof (pow2R_pos (- e) ltac:(lia)) as Pe.
    replace (bpow radix2 e) with (/ IZR (2 ^ (- e)))%R by (rewrite IZR_pow2 by lia; rewrite <- bpow_opp; f_equal; lia).
    split.
    + intros E. apply eq_IZR. rewrite !mult_IZR.
      apply Rmult_eq_reg_r with (/ IZR (2 ^ (- e)))%R; [|apply Rinv_neq_0_compat; lra].
      apply Rmult_eq_reg_r with (/ IZR (2 ^ k))%R; [|apply Rinv_neq_0_compat; lra].
      transitivity (IZR m * / IZR (2 ^ - e))%R; [field; lra|]. rewrite E. field. lra.
    + intros E. apply (f_equal IZR) in E. rewrite !mult_IZR in E.
      apply Rmult_eq_reg_r with (IZR (2 ^ (- e)) * IZR (2 ^ k))%R; [|apply Rmult_integral_contrapositive_currified; lra].
      transitivity (IZR m * IZR (2 ^ k))%R; [field; lra|]. rewrite E. field. lra.
Qed.

Theorem dy_eq_spec f n k : 0 <= k -> dy_eq f n k = true <-> isR f (IZR n / IZR (2 ^ k)).
Proof.
  intros Hk. unfold dy_eq. split.
  - destruct (dyadic f) as [[m e]|] eqn:D; [|discriminate]. intros H.
    pose proof (dyadic_isR f m e D) as [V F]. split; [|exact F]. rewrite V.
    apply (dy_frac_eq m e n k Hk). destruct (0 <=? e); now apply Z.eqb_eq.
  - intros H. destruct (isR_dyadic f _ H) as (m & e & D & E). rewrite D.
    symmetry in E. apply (dy_frac_eq m e n k Hk) in E. destruct (0 <=? e); now apply Z.eqb_eq.
Qed.

(* the checkers' numerators are the planes *)
Lemma west_num_R h k : 0 <= h -> (IZR (west_num h k) / IZR (2 ^ h))%R = lonR h k.
Proof. intros Hh. unfold west_num, lonR. now apply west_value. Qed.
Lemma alt_num_R v k : (IZR (alt_num k) / IZR (2 ^ v))%R = altR v k.
Proof. unfold alt_num, altR. now rewrite mult_IZR. Qed.

(* midpoints of the planes *)
Definition clonR (h x : Z) : R := ((lonR h x + lonR h (x + 1)) / 2)%R.
Definition caltR (v f : Z) : R := ((altR v f + altR v (f + 1)) / 2)%R.
Lemma clon_num_R h x : 0 <= h -> (IZR (clon_num h x) / IZR (2 ^ h))%R = clonR h x.
Proof.
  intros Hh. unfold clon_num, clonR, lonR. pose proof (pow2R_pos h Hh).
  rewrite minus_IZR, !mult_IZR, !plus_IZR, mult_IZR. field. lra.
Qed.
Lemma calt_num_R v f : 0 <= v -> (IZR (alt_num (2 * f + 1)) / IZR (2 ^ (v + 1)))%R = caltR v f.
Proof.
  intros Hv. unfold alt_num, caltR, altR. pose proof (pow2R_pos v Hv). rewrite Z.pow_add_r by lia.
  rewrite !mult_IZR, !plus_IZR, mult_IZR. change (IZR (2 ^ 1)) with 2%R. field. lra.
Qed.

(* specification of an observed corner list / centre, in terms of real numbers *)
Definition corner_ok (lonr altr : R) (lat : pfloat) (p : point) : Prop :=
  isR (plon p) lonr /\ isR (palt p) altr /\ plat p = lat.
Definition vertices_spec (i : eid) (ps : list point) : Prop :=
  exists p0 p1 p2 p3 p4 p5 p6 p7 n s, ps = [p0; p1; p2; p3; p4; p5; p6; p7] /\
    let W := lonR (eh i) (ex i) in let E := lonR (eh i) (ex i + 1) in
    let A := altR (ev i) (ef i) in let T := altR (ev i) (ef i + 1) in
    corner_ok W A n p0 /\ corner_ok E A n p1 /\ corner_ok E A s p2 /\ corner_ok W A s p3 /\
    corner_ok W T n p4 /\ corner_ok E T n p5 /\ corner_ok E T s p6 /\ corner_ok W T s p7 /\
    (s <? n)%float = true /\ lat_in_range n = true /\ lat_in_range s = true.
Definition centre_spec (i : eid) (ps : list point) : Prop :=
  exists c, ps = [c] /\ isR (plon c) (clonR (eh i) (ex i)) /\ isR (palt c) (caltR (ev i) (ef i)) /\ lat_in_range (plat c) = true.

Theorem check_vertices_sound i ps : 0 <= eh i -> 0 <= ev i -> check_vertices i ps = true <-> vertices_spec i ps.
Proof.
  intros Hh Hv. unfold check_vertices, vertices_spec. split.
  - destruct ps as [|p0 [|p1 [|p2 [|p3 [|p4 [|p5 [|p6 [|p7 [|p8 ps]]]]]]]]]; try discriminate.
    rewrite !andb_true_iff. unfold is_west, is_east, is_bottom, is_top.
    rewrite !dy_eq_spec by lia. rewrite !west_num_R, !alt_num_R by lia.
    intros H. decompose [and] H. clear H.
    repeat match goal with H : feqb_bits _ _ = true |- _ => apply feqb_bits_eq in H end.
    exists p0, p1, p2, p3, p4, p5, p6, p7, (plat p0), (plat p2). unfold corner_ok. cbv zeta. intuition congruence.
  - intros (p0 & p1 & p2 & p3 & p4 & p5 & p6 & p7 & n & s & -> & H). cbv zeta in H. unfold corner_ok in H.
    decompose [and] H. clear H.
    rewrite !andb_true_iff. unfold is_west, is_east, is_bottom, is_top.
    rewrite !dy_eq_spec by lia. rewrite !west_num_R, !alt_num_R by lia.
    repeat match goal with H : plat _ = _ |- _ => rewrite H; clear H end.
    rewrite !feqb_bits_refl. intuition.
Qed.

Theorem check_centre_sound i ps : 0 <= eh i -> 0 <= ev i -> check_centre i ps = true <-> centre_spec i ps.
Proof.
  intros Hh Hv. unfold check_centre, centre_spec. split.
  - destruct ps as [|c [|d ps]]; try discriminate. rewrite !andb_true_iff. unfold is_clon, is_calt.
    rewrite !dy_eq_spec by lia. rewrite clon_num_R, calt_num_R by lia. intros [[H1 H2] H3]. exists c. auto.
  - intros (c & -> & H1 & H2 & H3). rewrite !andb_true_iff. unfold is_clon, is_calt.
    rewrite !dy_eq_spec by lia. rewrite clon_num_R, calt_num_R by lia. auto.
Qed.

(* shared faces: the four corners of the common face are the same points; across the antimeridian (axis 3) they differ only in the
   name of the meridian: +180 on the east face of the last column, -180 on the west face of column 0 *)
Definition anti_spec (a b : point) : Prop :=
  plon a = 180%float /\ plon b = (-180)%float /\ plat a = plat b /\ palt a = palt b.
Definition shared_spec (axis : Z) (a b : list point) : Prop :=
  exists a0 a1 a2 a3 a4 a5 a6 a7 b0 b1 b2 b3 b4 b5 b6 b7,
    a = [a0; a1; a2; a3; a4; a5; a6; a7] /\ b = [b0; b1; b2; b3; b4; b5; b6; b7] /\
    ((axis = 0 /\ a1 = b0 /\ a2 = b3 /\ a5 = b4 /\ a6 = b7) \/
     (axis = 1 /\ a3 = b0 /\ a2 = b1 /\ a7 = b4 /\ a6 = b5) \/
     (axis = 2 /\ a4 = b0 /\ a5 = b1 /\ a6 = b2 /\ a7 = b3) \/
     (axis = 3 /\ anti_spec a1 b0 /\ anti_spec a2 b3 /\ anti_spec a5 b4 /\ anti_spec a6 b7)).
Lemma point_eqb_bits_eq p q : point_eqb_bits p q = true <-> p = q.
Proof.
  unfold point_eqb_bits. split.
  - rewrite !andb_true_iff. intros [[H1 H2] H3]. apply feqb_bits_eq in H1, H2, H3. destruct p, q; cbn in *; congruence.
  - intros ->. now rewrite !feqb_bits_refl.
Qed.
Lemma anti_pair_spec a b : anti_pair a b = true <-> anti_spec a b.
Proof.
  unfold anti_pair, anti_spec. rewrite !andb_true_iff. split.
  - intros [[[H1 H2] H3] H4]. apply feqb_bits_eq in H1, H2, H3, H4. auto.
  - intros (H1 & H2 & H3 & H4). rewrite H1, H2, H3, H4, !feqb_bits_refl. auto.
Qed.
Theorem check_shared_sound axis a b : check_shared axis a b = true <-> shared_spec axis a b.
Proof.
  unfold check_shared, shared_spec. split.
  - destruct a as [|a0 [|a1 [|a2 [|a3 [|a4 [|a5 [|a6 [|a7 [|a8 a]]]]]]]]]; try discriminate.
    destruct b as [|b0 [|b1 [|b2 [|b3 [|b4 [|b5 [|b6 [|b7 [|b8 b]]]]]]]]]; try discriminate.
    intros H. exists a0, a1, a2, a3, a4, a5, a6, a7, b0, b1, b2, b3, b4, b5, b6, b7. split; [reflexivity|]. split; [reflexivity|].
    destruct (Z.eqb_spec axis 0); [|destruct (Z.eqb_spec axis 1); [|destruct (Z.eqb_spec axis 2); [|destruct (Z.eqb_spec axis 3); [|discriminate]]]];
      rewrite !andb_true_iff, ?point_eqb_bits_eq, ?anti_pair_spec in H; intuition.
  - intros (a0 & a1 & a2 & a3 & a4 & a5 & a6 & a7 & b0 & b1 & b2 & b3 & b4 & b5 & b6 & b7 & -> & -> & H).
    destruct H as [(-> & -> & -> & -> & ->)|[(-> & -> & -> & -> & ->)|[(-> & -> & -> & -> & ->)|(-> & H1 & H2 & H3 & H4)]]]; cbn;
      rewrite !andb_true_iff, ?point_eqb_bits_eq, ?anti_pair_spec; auto.
Qed.

Lemma leb_ltb_false (a b : pfloat) : (a <=? b)%float = true -> (b <? a)%float = false.
Proof.
  rewrite PrimFloat.leb_equiv, PrimFloat.ltb_equiv. unfold Bleb, SFleb, Bltb, SFltb.
  pose proof (Bcompare_swap _ _ (P2B a) (P2B b)) as H. unfold Bcompare in H. rewrite H.
  destruct (SFcompare (B2SF (P2B a)) (B2SF (P2B b))) as [[| |]|]; try discriminate; reflexivity.
Qed.
Lemma in_range_acc lat : lat_in_range (setlat_trunc lat) = true -> lat_acc lat = true.
Proof. unfold lat_in_range, lat_acc. intros H. now rewrite (leb_ltb_false _ _ H). Qed.

Section Api.
  Variable m_sinh m_atan : pfloat -> pfloat.
  Notation vertices := (vertices m_sinh m_atan).
  Notation centre := (centre m_sinh m_atan).
  Notation rowlat := (rowlat m_sinh m_atan).
  Notation rowlat_stored := (rowlat_stored m_sinh m_atan).
  Notation eid_api := (point_on_eid_api m_sinh m_atan).
  Notation sid_api := (point_on_sid_api m_sinh m_atan).

  Definition vertices_of (i : eid) : list point := vertices (eh i) (ex i) (ey i) (valt (ef i) (ev i)) (vres (ev i)).
  Definition centre_of (i : eid) : point := centre (eh i) (ex i) (ey i) (valt (ef i) (ev i)) (vres (ev i)).

  (* what the oracle must satisfy on the two row boundaries of the voxel for the latitudes to be stored:
     both accepted by NewPoint (inside the limit after truncation), the southern one strictly smaller *)
  Definition lat_hyp (i : eid) : Prop :=
    lat_in_range (rowlat_stored (eh i) (ey i)) = true /\ lat_in_range (rowlat_stored (eh i) (ey i + 1)) = true /\
    (rowlat_stored (eh i) (ey i + 1) <? rowlat_stored (eh i) (ey i))%float = true.
  Lemma lat_hyp_acc i : lat_hyp i -> lat_acc (rowlat (eh i) (ey i)) = true /\ lat_acc (rowlat (eh i) (ey i + 1)) = true.
  Proof. intros (A & B & _). split; now apply in_range_acc. Qed.

  (* ---- API level: both options, both notations, error paths ---- *)
  Theorem api_vertex_option i : valid i -> eid_api (print_eid i) 0 = Ok (vertices_of i).
  Proof.
    intros V. unfold point_on_eid_api. rewrite (parse_print_eid i (valid_fields_ok i V)).
    destruct V as (Hh & Hv & _). rewrite (proj2 (check_zoom_spec _) Hh), (proj2 (check_zoom_spec _) Hv). reflexivity.
  Qed.
  Theorem api_centre_option i : valid i -> eid_api (print_eid i) 1 = Ok [centre_of i].
  Proof.
    intros V. unfold point_on_eid_api. rewrite (parse_print_eid i (valid_fields_ok i V)).
    destruct V as (Hh & Hv & _). rewrite (proj2 (check_zoom_spec _) Hh), (proj2 (check_zoom_spec _) Hv). reflexivity.
  Qed.
  Theorem api_malformed s o : parse_eid s = None -> eid_api s o = Err.
  Proof. intros H. unfold point_on_eid_api. now rewrite H. Qed.
  Theorem api_bad_zoom s i o : parse_eid s = Some i -> ~ (0 <= eh i <= 35 /\ 0 <= ev i <= 35) -> eid_api s o = Err.
  Proof.
    intros H Z. unfold point_on_eid_api. rewrite H.
    destruct (check_zoom (eh i)) eqn:A; [destruct (check_zoom (ev i)) eqn:B|]; try reflexivity.
    exfalso. apply Z. split; now apply check_zoom_spec.
  Qed.
  Theorem api_bad_option s o : o <> 0 -> o <> 1 -> eid_api s o = Err.
  Proof.
    intros H0 H1. unfold point_on_eid_api. destruct (parse_eid s); [|reflexivity].
    destruct (negb _); [reflexivity|]. destruct (Z.eqb_spec o 1); [contradiction|]. destruct (Z.eqb_spec o 0); [contradiction|]. reflexivity.
  Qed.
  (* the spatial-ID entry point is the same function behind the notation change z/f/x/y -> z/x/y/z/f *)
  Theorem api_sid_is_eid s o : sid_api s o = match sid_to_eid_str s with Some e => eid_api e o | None => Err end.
  Proof. reflexivity. Qed.
  Theorem api_sid_bad_arity s o : List.length (Str.split s) <> 4%nat -> sid_api s o = Err.
  Proof.
    intros H. unfold point_on_sid_api, sid_to_eid_str.
    destruct (Str.split s) as [|a [|b [|c [|d [|e l]]]]]; try reflexivity. now contradiction H.
  Qed.
  Definition print_sid (i : eid) : string := join [print (eh i); print (ef i); print (ex i); print (ey i)].
  Theorem api_sid_valid i o : valid i -> ev i = eh i -> sid_api (print_sid i) o = eid_api (print_eid i) o.
  Proof.
    intros V E. unfold point_on_sid_api, sid_to_eid_str, print_sid. rewrite split_join.
    - unfold print_eid. now rewrite E.
    - discriminate.
    - cbn. now rewrite !print_noslash.
  Qed.

  (* ---- (1)+(2): for a valid ID the model's corner list satisfies the specification (and passes the run-time checker) ---- *)
  Theorem vertices_meet_spec i : valid i -> lat_hyp i -> vertices_spec i (vertices_of i).
  Proof.
    intros V L. destruct (lat_hyp_acc i L) as [HN HS]. destruct L as (RN & RS & Hlt).
    unfold vertices_of. rewrite (vertices_explicit m_sinh m_atan i V HN HS).
    destruct V as (Hh & Hv & Hx & Hy & Hf).
    pose proof (lonplane_exact (eh i) (ex i) Hh ltac:(lia)) as HW. pose proof (lonplane_exact (eh i) (ex i + 1) Hh ltac:(lia)) as HE.
    pose proof (altplane_exact (ev i) (ef i) Hv ltac:(lia)) as HA. pose proof (altplane_exact (ev i) (ef i + 1) Hv ltac:(lia)) as HT.
    unfold vertices_spec, box_points. do 8 eexists. exists (rowlat_stored (eh i) (ey i)), (rowlat_stored (eh i) (ey i + 1)).
    split; [reflexivity|]. cbv zeta. unfold corner_ok, mkp. cbn [plon plat palt]. intuition.
  Qed.
  Corollary vertices_pass_check i : valid i -> lat_hyp i -> check_vertices i (vertices_of i) = true.
  Proof. intros V L. destruct V as (Hh & Hv & R). apply check_vertices_sound; try lia. apply vertices_meet_spec; [unfold valid; tauto | exact L]. Qed.

  (* ---- (3) faces shared with the neighbour are bit-identical points ---- *)
  Theorem shared_faces_identical i axis : valid i -> valid (neighbour axis i) -> 0 <= axis <= 2 ->
    shared_spec axis (vertices_of i) (vertices_of (neighbour axis i)).
  Proof.
    intros V V' Hax. unfold vertices_of. rewrite (vertices_planes m_sinh m_atan i V), (vertices_planes m_sinh m_atan _ V').
    unfold shared_spec, box_corners. do 16 eexists. split; [reflexivity|]. split; [reflexivity|].
    assert (C : axis = 0 \/ axis = 1 \/ axis = 2) by lia. destruct C as [-> | [-> | ->] ]; cbn [neighbour Z.eqb eh ex ey ev ef mk].
    - left. repeat split.
    - right. left. repeat split.
    - right. right. left. repeat split.
  Qed.
  Corollary shared_faces_pass_check i axis : valid i -> valid (neighbour axis i) -> 0 <= axis <= 2 ->
    check_shared axis (vertices_of i) (vertices_of (neighbour axis i)) = true.
  Proof. intros. apply check_shared_sound. now apply shared_faces_identical. Qed.

  (* ---- (4) the centre is the midpoint; its longitude and altitude are exact and map back to x and f ---- *)
  Definition centre_lat (i : eid) : pfloat := mid (rowlat_stored (eh i) (ey i)) (rowlat_stored (eh i) (ey i + 1)).

  Lemma clonR_range h x : 0 <= h -> 0 <= x < 2 ^ h -> (Rabs (clonR h x) <= 180)%R.
  Proof.
    intros Hh Hx. pose proof (lonR_range h x Hh ltac:(lia)) as A. pose proof (lonR_range h (x + 1) Hh ltac:(lia)) as B.
    apply Rabs_le_inv in A. apply Rabs_le_inv in B. apply Rabs_le. unfold clonR. lra.
  Qed.

  Definition centre_lat_hyp (i : eid) : Prop := lat_in_range (setlat_trunc (centre_lat i)) = true.

  Theorem centre_explicit i : valid i -> lat_hyp i -> centre_lat_hyp i ->
    centre_of i = mkp (clonf (eh i) (ex i)) (setlat_trunc (centre_lat i)) (caltf (ev i) (ef i)) /\
    isR (clonf (eh i) (ex i)) (clonR (eh i) (ex i)) /\ isR (caltf (ev i) (ef i)) (caltR (ev i) (ef i)).
  Proof.
    intros V L HC. destruct (lat_hyp_acc i L) as [HN HS]. destruct L as (_ & _ & Hlt).
    unfold centre_of. rewrite (centre_is_midpoint m_sinh m_atan i V HN HS Hlt).
    destruct V as (Hh & Hv & Hx & Hy & Hf).
    assert (E1 : mid (lonplane (eh i) (ex i + 1)) (lonplane (eh i) (ex i)) = clonf (eh i) (ex i)).
    { unfold clonf, lonplane. now rewrite (east_next (eh i) (ex i) Hh ltac:(lia)). }
    assert (E2 : mid (altplane (ev i) (ef i + 1)) (altplane (ev i) (ef i)) = caltf (ev i) (ef i)).
    { unfold caltf, altplane. now rewrite (top_is_next_bottom _ _ Hv Hf). }
    rewrite E1, E2.
    assert (R1 : isR (clonf (eh i) (ex i)) (clonR (eh i) (ex i))).
    { rewrite <- clon_num_R by lia. unfold clon_num. now apply clonf_isR. }
    assert (R2 : isR (caltf (ev i) (ef i)) (caltR (ev i) (ef i))).
    { rewrite <- calt_num_R by lia. unfold alt_num. now apply caltf_isR. }
    split; [|split; assumption].
    apply (pt_of_ok _ _ _ _ R1); [apply clonR_range; lia | now apply in_range_acc].
  Qed.

  Theorem centre_meets_spec i : valid i -> lat_hyp i -> centre_lat_hyp i -> centre_spec i [centre_of i].
  Proof.
    intros V H HC. destruct (centre_explicit i V H HC) as (E & R1 & R2). exists (centre_of i). split; [reflexivity|].
    rewrite E. cbn [plon plat palt mkp]. repeat split; try apply R1; try apply R2. exact HC.
  Qed.
  Corollary centre_passes_check i : valid i -> lat_hyp i -> centre_lat_hyp i -> check_centre i [centre_of i] = true.
  Proof. intros V L C. pose proof V as (Hh & Hv & R). apply check_centre_sound; try lia. now apply centre_meets_spec. Qed.

  (* round trip on two axes, every valid ID, every zoom: the ID of the centre has the original h, x, v, f; only the row comes from the oracle *)
  Section Back.
    Variable m_tan m_cos m_log : pfloat -> pfloat.
    Theorem centre_roundtrip_two_axes i : valid i -> lat_hyp i -> centre_lat_hyp i ->
      x_f (plon (centre_of i)) (eh i) = Some (ex i) /\ f_f (palt (centre_of i)) (ev i) = Some (ef i).
    Proof.
      intros V H HC. destruct (centre_explicit i V H HC) as (E & _). rewrite E. cbn [plon palt mkp].
      destruct V as (Hh & Hv & Hx & Hy & Hf). split; [now apply x_of_centre | now apply f_of_centre].
    Qed.
    Theorem centre_roundtrip_partial i Y : valid i -> lat_hyp i -> centre_lat_hyp i ->
      y_f m_tan m_cos m_log (plat (centre_of i)) (eh i) = Some Y ->
      points_api m_tan m_cos m_log false [centre_of i] (eh i) (ev i) = Ok [print_eid (mk (eh i) (ex i) Y (ev i) (ef i))].
    Proof.
      intros V H HC HY. destruct (centre_roundtrip_two_axes i V H HC) as [HX HF].
      destruct V as (Hh & Hv & _). unfold points_api.
      rewrite (proj2 (check_zoom_spec _) Hh), (proj2 (check_zoom_spec _) Hv). cbn [negb andb points_eids]. unfold point_eid.
      rewrite HX, HY, HF. reflexivity.
    Qed.
    (* hence the float round trip returns the original ID as soon as the oracle row of the centre latitude is y *)
    Corollary centre_roundtrip_when_row i : valid i -> lat_hyp i -> centre_lat_hyp i ->
      y_f m_tan m_cos m_log (plat (centre_of i)) (eh i) = Some (ey i) ->
      points_api m_tan m_cos m_log false [centre_of i] (eh i) (ev i) = Ok [print_eid i].
    Proof. intros V H HC HY. rewrite (centre_roundtrip_partial i (ey i) V H HC HY). destruct i; reflexivity. Qed.
  End Back.
End Api.

(* ---- tiling: on the longitude and altitude axes the (exactly computed) planes cut the documented range into
        half-open cells, each real coordinate lies in exactly one ---- *)
Lemma lonR_le h k k' : 0 <= h -> k <= k' -> (lonR h k <= lonR h k')%R.
Proof. intros Hh Hk. destruct (Z.eq_dec k k') as [->|]; [lra|]. left. apply lonR_lt; lia. Qed.
Lemma altR_le v k k' : 0 <= v -> k <= k' -> (altR v k <= altR v k')%R.
Proof. intros Hv Hk. destruct (Z.eq_dec k k') as [->|]; [lra|]. left. apply altR_lt; lia. Qed.

Theorem lon_tiling h lon : 0 <= h -> (-180 <= lon < 180)%R ->
  exists! k, 0 <= k < 2 ^ h /\ (lonR h k <= lon < lonR h (k + 1))%R.
Proof.
  intros Hh Hl. pose proof (pow2R_pos h Hh) as Hp.
  set (t := ((lon + 180) / 360 * IZR (2 ^ h))%R).
  assert (G : forall k, (lonR h k <= lon <-> IZR k <= t)%R).
  { intros k. unfold lonR, t. split; intros H.
    - apply Rmult_le_reg_r with (360 / IZR (2 ^ h))%R; [apply Rdiv_lt_0_compat; lra|].
      replace ((lon + 180) / 360 * IZR (2 ^ h) * (360 / IZR (2 ^ h)))%R with (lon + 180)%R by (field; lra).
      replace (IZR k * (360 / IZR (2 ^ h)))%R with (IZR k * 360 / IZR (2 ^ h))%R by (field; lra). lra.
    - apply Rmult_le_compat_r with (r := (360 / IZR (2 ^ h))%R) in H; [|left; apply Rdiv_lt_0_compat; lra].
      replace ((lon + 180) / 360 * IZR (2 ^ h) * (360 / IZR (2 ^ h)))%R with (lon + 180)%R in H by (field; lra).
      replace (IZR k * (360 / IZR (2 ^ h)))%R with (IZR k * 360 / IZR (2 ^ h))%R in H by (field; lra). lra. }
  exists (Zfloor t). split.
  - pose proof (Zfloor_lb t) as Lb. pose proof (Zfloor_ub t) as Ub. rewrite <- plus_IZR in Ub.
    assert (R1 : (lonR h (Zfloor t) <= lon)%R) by now apply G.
    assert (R2 : (lon < lonR h (Zfloor t + 1))%R) by (apply Rnot_le_lt; intros C; apply G in C; lra).
    split; [|split; assumption]. split.
    + destruct (Z_lt_le_dec (Zfloor t) 0) as [C|]; [|assumption]. exfalso.
      pose proof (lonR_le h (Zfloor t + 1) 0 Hh ltac:(lia)) as Q. rewrite lonR_first in Q by lia. lra.
    + destruct (Z_lt_le_dec (Zfloor t) (2 ^ h)) as [|C]; [assumption|]. exfalso.
      pose proof (lonR_le h (2 ^ h) (Zfloor t) Hh C) as Q. rewrite lonR_last in Q by lia. lra.
  - intros k' (_ & A & B). destruct (Z.lt_trichotomy (Zfloor t) k') as [C|[C|C]]; [exfalso|assumption|exfalso].
    + pose proof (lonR_le h (Zfloor t + 1) k' Hh ltac:(lia)). pose proof (Zfloor_ub t) as Ub. rewrite <- plus_IZR in Ub.
      assert (lon < lonR h (Zfloor t + 1))%R by (apply Rnot_le_lt; intros D; apply G in D; lra). lra.
    + pose proof (lonR_le h (k' + 1) (Zfloor t) Hh ltac:(lia)). assert (lonR h (Zfloor t) <= lon)%R by (apply G; apply Zfloor_lb). lra.
Qed.

Theorem alt_tiling v a : 0 <= v -> (- IZR (2 ^ 25) <= a < IZR (2 ^ 25))%R ->
  exists! f, - 2 ^ v <= f < 2 ^ v /\ (altR v f <= a < altR v (f + 1))%R.
Proof.
  intros Hv Ha. pose proof (pow2R_pos v Hv) as Hp. pose proof (pow2R_pos 25 ltac:(lia)) as H25.
  set (t := (a * IZR (2 ^ v) / IZR (2 ^ 25))%R).
  assert (G : forall k, (altR v k <= a <-> IZR k <= t)%R).
  { intros k. unfold altR, t. split; intros H.
    - apply Rmult_le_reg_r with (IZR (2 ^ 25) / IZR (2 ^ v))%R; [apply Rdiv_lt_0_compat; lra|].
      replace (a * IZR (2 ^ v) / IZR (2 ^ 25) * (IZR (2 ^ 25) / IZR (2 ^ v)))%R with a by (field; lra).
      replace (IZR k * (IZR (2 ^ 25) / IZR (2 ^ v)))%R with (IZR k * IZR (2 ^ 25) / IZR (2 ^ v))%R by (field; lra). lra.
    - apply Rmult_le_compat_r with (r := (IZR (2 ^ 25) / IZR (2 ^ v))%R) in H; [|left; apply Rdiv_lt_0_compat; lra].
      replace (a * IZR (2 ^ v) / IZR (2 ^ 25) * (IZR (2 ^ 25) / IZR (2 ^ v)))%R with a in H by (field; lra).
      replace (IZR k * (IZR (2 ^ 25) / IZR (2 ^ v)))%R with (IZR k * IZR (2 ^ 25) / IZR (2 ^ v))%R in H by (field; lra). lra. }
  assert (Lo : altR v (- 2 ^ v) = (- IZR (2 ^ 25))%R) by (unfold altR; rewrite opp_IZR; field; lra).
  assert (Hi : altR v (2 ^ v) = IZR (2 ^ 25)) by (unfold altR; field; lra).
  exists (Zfloor t). split.
  - pose proof (Zfloor_lb t) as Lb. pose proof (Zfloor_ub t) as Ub. rewrite <- plus_IZR in Ub.
    assert (R1 : (altR v (Zfloor t) <= a)%R) by now apply G.
    assert (R2 : (a < altR v (Zfloor t + 1))%R) by (apply Rnot_le_lt; intros C; apply G in C; lra).
    split; [|split; assumption]. split.
    + destruct (Z_lt_le_dec (Zfloor t) (- 2 ^ v)) as [C|]; [|assumption]. exfalso.
      pose proof (altR_le v (Zfloor t + 1) (- 2 ^ v) Hv ltac:(lia)) as Q. lra.
    + destruct (Z_lt_le_dec (Zfloor t) (2 ^ v)) as [|C]; [assumption|]. exfalso.
      pose proof (altR_le v (2 ^ v) (Zfloor t) Hv C) as Q. lra.
  - intros k' (_ & A & B). destruct (Z.lt_trichotomy (Zfloor t) k') as [C|[C|C]]; [exfalso|assumption|exfalso].
    + pose proof (altR_le v (Zfloor t + 1) k' Hv ltac:(lia)). pose proof (Zfloor_ub t) as Ub. rewrite <- plus_IZR in Ub.
      assert (a < altR v (Zfloor t + 1))%R by (apply Rnot_le_lt; intros D; apply G in D; lra). lra.
    + pose proof (altR_le v (k' + 1) (Zfloor t) Hv ltac:(lia)). assert (altR v (Zfloor t) <= a)%R by (apply G; apply Zfloor_lb). lra.
Qed.

Theorem check_roundtrip_sound i back : check_roundtrip i back = true <-> back = print_eid i.
Proof. unfold check_roundtrip. apply String.eqb_eq. Qed.

(* ---- review round: antimeridian, unconditional longitude half, minimal hypotheses for the altitude half, tiling on the float planes,
        the row and centre-latitude checkers ---- *)
Lemma isR_m180 : isR (-180)%float (-180)%R.
Proof. apply (lit_isR _ (-180)); [cbn; lia | vm_compute; reflexivity]. Qed.

(* the two names of the antimeridian: column boundary 0 is the float -180, column boundary 2^h is the float +180 *)
Theorem antimeridian_planes h : 0 <= h <= 35 -> lonplane h (2 ^ h) = 180%float /\ lonplane h 0 = (-180)%float.
Proof.
  intros Hh. pose proof (pow_le35' h Hh) as Hp. split.
  - apply isR_inj with 180%R; [|exact isR_180|lra].
    rewrite <- (lonR_last h) by lia. apply lonplane_exact; lia.
  - apply isR_inj with (-180)%R; [|exact isR_m180|lra].
    rewrite <- (lonR_first h) by lia. apply lonplane_exact; lia.
Qed.

Lemma pt_of_lon lon lat alt r : isR lon r -> (Rabs r <= 180)%R -> plon (pt_of lon lat alt) = lon.
Proof.
  intros Hl Hr. unfold pt_of, new_point. rewrite (ltb_false _ _ _ _ isR_180 (abs_isR _ _ Hl) Hr).
  destruct (c_latmax <? abs (setlat_trunc lat))%float; reflexivity.
Qed.
(* latitude and altitude stored by NewPoint do not depend on an (accepted) longitude *)
Lemma pt_of_lat_alt lon lon' lat alt r r' : isR lon r -> (Rabs r <= 180)%R -> isR lon' r' -> (Rabs r' <= 180)%R ->
  plat (pt_of lon lat alt) = plat (pt_of lon' lat alt) /\ palt (pt_of lon lat alt) = palt (pt_of lon' lat alt).
Proof.
  intros Hl Hr Hl' Hr'. unfold pt_of, new_point.
  rewrite (ltb_false _ _ _ _ isR_180 (abs_isR _ _ Hl) Hr), (ltb_false _ _ _ _ isR_180 (abs_isR _ _ Hl') Hr').
  destruct (c_latmax <? abs (setlat_trunc lat))%float; split; reflexivity.
Qed.

Section Review.
  Variable m_sinh m_atan : pfloat -> pfloat.
  Notation vertices_of := (vertices_of m_sinh m_atan).
  Notation centre_of := (centre_of m_sinh m_atan).
  Notation rowlat := (rowlat m_sinh m_atan).
  Notation rowlat_stored := (rowlat_stored m_sinh m_atan).

  (* the face between the last column and column 0 (same row, same level): +180 on one side, -180 on the other, same latitude and altitude;
     any oracle, no latitude hypothesis; at zoom 0 the voxel is its own cyclic neighbour *)
  Theorem antimeridian_face i : valid i -> ex i = 2 ^ eh i - 1 ->
    shared_spec 3 (vertices_of i) (vertices_of (neighbour 3 i)).
  Proof.
    intros V Hx. change (neighbour 3 i) with (mk (eh i) 0 (ey i) (ev i) (ef i)).
    assert (V' : valid (mk (eh i) 0 (ey i) (ev i) (ef i))).
    { destruct V as (Hh & Hv & Hxx & Hy & Hf). pose proof (pow_le35' _ Hh). unfold valid; cbn [eh ex ey ev ef mk]. repeat split; lia. }
    unfold VertexProofs.vertices_of. rewrite (vertices_planes m_sinh m_atan i V), (vertices_planes m_sinh m_atan _ V').
    destruct V as (Hh & Hv & Hxx & Hy & Hf). pose proof (pow_le35' _ Hh) as Hp.
    cbn [eh ex ey ev ef mk].
    replace (ex i + 1) with (2 ^ eh i) by lia. destruct (antimeridian_planes _ Hh) as [EL EF]. rewrite EL. change (0 + 1) with 1. rewrite EF.
    unfold shared_spec, box_corners. do 16 eexists. split; [reflexivity|]. split; [reflexivity|].
    right. right. right. split; [reflexivity|].
    assert (R1 : (Rabs 180 <= 180)%R) by (rewrite Rabs_pos_eq; lra).
    assert (R2 : (Rabs (-180) <= 180)%R) by (rewrite Rabs_left; lra).
    unfold anti_spec.
    repeat split; first [ apply (pt_of_lon _ _ _ _ isR_180 R1) | apply (pt_of_lon _ _ _ _ isR_m180 R2)
                        | apply (pt_of_lat_alt _ _ _ _ _ _ isR_180 R1 isR_m180 R2) ].
  Qed.
  Corollary antimeridian_face_passes_check i : valid i -> ex i = 2 ^ eh i - 1 ->
    check_shared 3 (vertices_of i) (vertices_of (neighbour 3 i)) = true.
  Proof. intros. apply check_shared_sound. now apply antimeridian_face. Qed.

  (* longitude half of the round trip: no hypothesis on the oracle at all (NewPoint stores the longitude before it looks at the latitude) *)
  Lemma corner_lons i : valid i ->
    map plon (vertices_of i) =
    let W := lonplane (eh i) (ex i) in let E := lonplane (eh i) (ex i + 1) in [W; E; E; W; W; E; E; W].
  Proof.
    intros V. unfold VertexProofs.vertices_of. rewrite (vertices_planes m_sinh m_atan i V). destruct V as (Hh & Hv & Hx & Hy & Hf).
    pose proof (lonplane_exact (eh i) (ex i) Hh ltac:(lia)) as HW. pose proof (lonplane_exact (eh i) (ex i + 1) Hh ltac:(lia)) as HE.
    pose proof (lonR_range (eh i) (ex i) ltac:(lia) ltac:(lia)) as RW. pose proof (lonR_range (eh i) (ex i + 1) ltac:(lia) ltac:(lia)) as RE.
    unfold box_corners. cbn [map]. cbv zeta.
    now rewrite !(pt_of_lon _ _ _ _ HW RW), !(pt_of_lon _ _ _ _ HE RE).
  Qed.

  Theorem centre_lon_any_oracle i : valid i -> plon (centre_of i) = clonf (eh i) (ex i).
  Proof.
    intros V. pose proof (corner_lons i V) as L. cbv zeta in L.
    unfold VertexProofs.centre_of, VertexF.centre. fold (vertices_of i).
    destruct (vertices_of i) as [|p0 ps] eqn:E; [discriminate L|].
    rewrite L. assert (P0 : plon p0 = lonplane (eh i) (ex i)) by (cbn [map] in L; congruence). rewrite P0.
    destruct V as (Hh & Hv & Hx & Hy & Hf).
    assert (HWE : (lonplane (eh i) (ex i) <? lonplane (eh i) (ex i + 1))%float = true).
    { apply (ltb_true _ _ _ _ (lonplane_exact (eh i) (ex i) Hh ltac:(lia)) (lonplane_exact (eh i) (ex i + 1) Hh ltac:(lia))). apply lonR_lt; lia. }
    destruct (extremes_two _ _ HWE) as (E1 & E2 & _). rewrite E1, E2.
    assert (C : ((lonplane (eh i) (ex i + 1) + lonplane (eh i) (ex i)) / 2)%float = clonf (eh i) (ex i)).
    { unfold clonf, mid, lonplane. now rewrite (east_next (eh i) (ex i) Hh ltac:(lia)). }
    rewrite C.
    assert (R1 : isR (clonf (eh i) (ex i)) (clonR (eh i) (ex i))).
    { rewrite <- clon_num_R by lia. unfold clon_num. now apply clonf_isR. }
    apply (pt_of_lon _ _ _ _ R1). apply clonR_range; lia.
  Qed.
  Theorem centre_roundtrip_longitude i : valid i -> x_f (plon (centre_of i)) (eh i) = Some (ex i).
  Proof. intros V. rewrite (centre_lon_any_oracle i V). destruct V as (Hh & Hv & Hx & _). now apply x_of_centre. Qed.

  (* altitude half: needs only that NewPoint accepts the three latitudes involved (an ignored latitude error stores altitude 0) *)
  Definition centre_lat_raw (i : eid) : pfloat :=
    let N := rowlat_stored (eh i) (ey i) in let S := rowlat_stored (eh i) (ey i + 1) in
    let l := [N; N; S; S; N; N; S; S] in ((fmax_list l N + fmin_list l N) / 2)%float.
  Theorem centre_alt_accepted i : valid i ->
    lat_acc (rowlat (eh i) (ey i)) = true -> lat_acc (rowlat (eh i) (ey i + 1)) = true -> lat_acc (centre_lat_raw i) = true ->
    palt (centre_of i) = caltf (ev i) (ef i).
  Proof.
    intros V HN HS HC. unfold VertexProofs.centre_of, VertexF.centre. rewrite (vertices_explicit m_sinh m_atan i V HN HS).
    destruct V as (Hh & Hv & Hx & Hy & Hf).
    assert (HAT : (altplane (ev i) (ef i) <? altplane (ev i) (ef i + 1))%float = true).
    { apply (ltb_true _ _ _ _ (altplane_exact (ev i) (ef i) Hv ltac:(lia)) (altplane_exact (ev i) (ef i + 1) Hv ltac:(lia))). apply altR_lt; lia. }
    assert (HWE : (lonplane (eh i) (ex i) <? lonplane (eh i) (ex i + 1))%float = true).
    { apply (ltb_true _ _ _ _ (lonplane_exact (eh i) (ex i) Hh ltac:(lia)) (lonplane_exact (eh i) (ex i + 1) Hh ltac:(lia))). apply lonR_lt; lia. }
    destruct (extremes_two _ _ HAT) as (_ & _ & _ & _ & A1 & A2). destruct (extremes_two _ _ HWE) as (L1 & L2 & _).
    cbn [box_points map plon plat palt mkp]. rewrite A1, A2, L1, L2.
    fold (centre_lat_raw i).
    assert (C : ((lonplane (eh i) (ex i + 1) + lonplane (eh i) (ex i)) / 2)%float = clonf (eh i) (ex i)).
    { unfold clonf, mid, lonplane. now rewrite (east_next (eh i) (ex i) Hh ltac:(lia)). }
    assert (D : ((altplane (ev i) (ef i + 1) + altplane (ev i) (ef i)) / 2)%float = caltf (ev i) (ef i)).
    { unfold caltf, mid, altplane. now rewrite (top_is_next_bottom _ _ Hv Hf). }
    rewrite C, D.
    assert (R1 : isR (clonf (eh i) (ex i)) (clonR (eh i) (ex i))).
    { rewrite <- clon_num_R by lia. unfold clon_num. now apply clonf_isR. }
    rewrite (pt_of_ok _ _ _ _ R1 (clonR_range (eh i) (ex i) (proj1 Hh) Hx) HC). reflexivity.
  Qed.
  Theorem centre_roundtrip_altitude i : valid i ->
    lat_acc (rowlat (eh i) (ey i)) = true -> lat_acc (rowlat (eh i) (ey i + 1)) = true -> lat_acc (centre_lat_raw i) = true ->
    f_f (palt (centre_of i)) (ev i) = Some (ef i).
  Proof. intros V HN HS HC. rewrite (centre_alt_accepted i V HN HS HC). destruct V as (Hh & Hv & Hx & Hy & Hf). now apply f_of_centre. Qed.
End Review.

(* tiling stated on the planes the code computes (composition of exactness and the real partition) *)
Theorem lon_tiling_float h lon : 0 <= h <= 35 -> (-180 <= lon < 180)%R ->
  exists! k, 0 <= k < 2 ^ h /\ (FR (lonplane h k) <= lon < FR (lonplane h (k + 1)))%R.
Proof.
  intros Hh Hl. destruct (lon_tiling h lon ltac:(lia) Hl) as (k & (Hk & B) & U). exists k. split.
  - split; [exact Hk|]. rewrite (proj1 (lonplane_exact h k Hh ltac:(lia))), (proj1 (lonplane_exact h (k + 1) Hh ltac:(lia))). exact B.
  - intros k' (Hk' & B'). apply U. split; [exact Hk'|].
    rewrite (proj1 (lonplane_exact h k' Hh ltac:(lia))), (proj1 (lonplane_exact h (k' + 1) Hh ltac:(lia))) in B'. exact B'.
Qed.
Theorem alt_tiling_float v a : 0 <= v <= 35 -> (- IZR (2 ^ 25) <= a < IZR (2 ^ 25))%R ->
  exists! f, - 2 ^ v <= f < 2 ^ v /\ (FR (altplane v f) <= a < FR (altplane v (f + 1)))%R.
Proof.
  intros Hv Ha. destruct (alt_tiling v a ltac:(lia) Ha) as (k & (Hk & B) & U). exists k. split.
  - split; [exact Hk|]. rewrite (proj1 (altplane_exact v k Hv ltac:(lia))), (proj1 (altplane_exact v (k + 1) Hv ltac:(lia))). exact B.
  - intros k' (Hk' & B'). apply U. split; [exact Hk'|].
    rewrite (proj1 (altplane_exact v k' Hv ltac:(lia))), (proj1 (altplane_exact v (k' + 1) Hv ltac:(lia))) in B'. exact B'.
Qed.

(* the latitude checkers decide these relations on the observed values *)
Definition rows_spec (rowf : pfloat -> option Z) (i : eid) (ps : list point) : Prop :=
  exists p0 p1 p2 r rn rs, ps = p0 :: p1 :: p2 :: r /\ rowf (plat p0) = Some rn /\ rowf (plat p2) = Some rs /\
    ey i - 1 <= rn <= ey i /\ ey i <= rs <= ey i + 1.
Theorem check_rows_sound rowf i ps : check_rows rowf i ps = true <-> rows_spec rowf i ps.
Proof.
  unfold check_rows, rows_spec, row_tie. split.
  - destruct ps as [|p0 [|p1 [|p2 r]]]; try discriminate.
    destruct (rowf (plat p0)) as [rn|] eqn:A; [|discriminate]. destruct (rowf (plat p2)) as [rs|] eqn:B; [|discriminate].
    rewrite !andb_true_iff, !Z.leb_le. intros H. exists p0, p1, p2, r, rn, rs. intuition.
  - intros (p0 & p1 & p2 & r & rn & rs & -> & A & B & H1 & H2). rewrite A, B, !andb_true_iff, !Z.leb_le. lia.
Qed.
Theorem check_centre_lat_sound n s c : check_centre_lat n s c = true <->
  (s <? c)%float = true /\ (c <? n)%float = true /\ c = setlat_trunc ((n + s) / 2)%float.
Proof.
  unfold check_centre_lat. rewrite !andb_true_iff. split.
  - intros [[A B] C]. apply feqb_bits_eq in C. auto.
  - intros (A & B & C). rewrite A, B. rewrite <- C. now rewrite feqb_bits_refl.
Qed.

(* ---- histories: the model has no state, so the answer to a call is the same after every history ---- *)
Inductive query :=
| QueryEid (id : string) (opt : Z)       (* GetPointOnExtendedSpatialId *)
| QuerySid (id : string) (opt : Z).      (* GetPointOnSpatialId *)
Section History.
  Variable m_sinh m_atan : pfloat -> pfloat.
  Definition answer (q : query) : result (list point) :=
    match q with
    | QueryEid id o => point_on_eid_api m_sinh m_atan id o
    | QuerySid id o => point_on_sid_api m_sinh m_atan id o
    end.
  (* a history of calls answered one after the other *)
  Definition run_history (h : list query) : list (result (list point)) := map answer h.

  Theorem history_step h n q : nth_error h n = Some q -> nth_error (run_history h) n = Some (answer q).
  Proof. intros H. unfold run_history. now apply map_nth_error. Qed.
  (* whatever was asked before (valid or refused, the same ID or another one) and whatever is asked afterwards, the answer to q is [answer q] *)
  Theorem history_independent pre pre' post post' q :
    nth_error (run_history (pre ++ q :: post)) (List.length pre) = Some (answer q) /\
    nth_error (run_history (pre' ++ q :: post')) (List.length pre') = Some (answer q).
  Proof.
    split; apply history_step; rewrite nth_error_app2 by apply Nat.le_refl; now rewrite Nat.sub_diag.
  Qed.
End History.
