(* Merge.v — executable model of integrate/merge_zoom.go (MergeExtendedSpatialIds, MergeSpatialIds and their helpers
   NewUnitDividedSpatialID, NewHighSpatialID, HighSpatialID.Merge, IsDense), as the Go algorithm is written.
   ExtendedSpatialID.Higher is ZoomCore.higher (x, y by Go `/` = truncation, z by `>>` after the repair 27792ec).
   Go map iteration orders (the dictionary of target voxels, common.Unique) enter through `ord`. *)
From Coq Require Import ZArith Lia List Bool Permutation String.
From SID Require Import Base Str Ids ZoomCore.
Import ListNotations.
Open Scope Z_scope.

(* max zoom loop: `if z > max { max = z }`, starting from 0, over ALL inputs *)
Definition maxz (f : eid -> Z) (l : list eid) : Z := fold_left (fun m i => if m <? f i then f i else m) l 0.

(* NewUnitDividedSpatialID: the three nested loops over x, y, z; every unit cell is at zoom (MH, MV) *)
Definition units (MH MV : Z) (i : eid) : list eid :=
  let dh := 2 ^ (MH - eh i) in let dv := 2 ^ (MV - ev i) in
  flat_map (fun x => flat_map (fun y => map (fun z =>
    {| eh := MH; ex := x; ey := y; ev := MV; ef := z |})
    (zrange (ef i * dv) ((ef i + 1) * dv - 1)))
    (zrange (ey i * dh) ((ey i + 1) * dh - 1)))
    (zrange (ex i * dh) ((ex i + 1) * dh - 1)).

Section Model.
  Variable ord : list eid -> list eid.            (* Go map iteration order: any permutation *)
  Variables H V : Z.                               (* target zooms *)

  (* `spatialID.HZoom() >= hZoom && spatialID.VZoom() >= vZoom` *)
  Definition eligible (i : eid) : bool := (H <=? eh i) && (V <=? ev i).

  (* NewHighSpatialID: u.Higher(u.HZoom()-hZoom, u.VZoom()-vZoom) *)
  Definition target (i : eid) : eid := higher i (eh i - H) (ev i - V).

  (* threshold = hDiffIndex*hDiffIndex*vDiffIndex with hDiffIndex = 2^((hz-H) + (MH-hz)), vDiffIndex = 2^((vz-V) + (MV-vz)):
     the same number 2^(MH-H) * 2^(MH-H) * 2^(MV-V) for every member of every group *)
  Definition thr_of (MH MV : Z) (i : eid) : Z :=
    let hd := 2 ^ ((eh i - H) + (MH - eh i)) in let vd := 2 ^ ((ev i - V) + (MV - ev i)) in hd * hd * vd.
  Definition thr (MH MV : Z) : Z := 2 ^ (MH - H) * 2 ^ (MH - H) * 2 ^ (MV - V).

  (* members of the dictionary entry of T, in input order (lowIDs), and its set of distinct unit cells *)
  Definition group (el : list eid) (T : eid) : list eid := filter (fun i => eid_eqb (target i) T) el.
  Definition dense (MH MV : Z) (el : list eid) (T : eid) : bool :=
    Z.of_nat (List.length (nodupb eid_eqb (flat_map (units MH MV) (group el T)))) =? thr MH MV.

  Definition merge (ids : list eid) : list eid :=
    let MH := maxz eh ids in let MV := maxz ev ids in
    let el := filter eligible ids in
    let rest := filter (fun i => negb (eligible i)) ids in
    let targets := ord (nodupb eid_eqb (map target el)) in
    let out := flat_map (fun T => if dense MH MV el T then [T] else group el T) targets in
    ord (nodupb eid_eqb (rest ++ out)).
End Model.

Lemma thr_of_thr H V MH MV i : thr_of H V MH MV i = thr H V MH MV.
Proof. unfold thr_of, thr. cbv zeta. replace (eh i - H + (MH - eh i)) with (MH - H) by lia. replace (ev i - V + (MV - ev i)) with (MV - V) by lia. reflexivity. Qed.

(* ---- the int64 threshold: `threshold := hDiffIndex * hDiffIndex * vDiffIndex` is computed in int64 and wraps when
   2*(MH-H) + (MV-V) >= 63 (e.g. one zoom-32 ID merged to target zoom 0). `merge` above compares with the mathematical product
   (all theorems about the specification are proved of it); `merge64` is the code as it runs: two wrapping multiplications.
   `merge64_merge` below: they are the same function whenever 2*max(0,MH-H) + max(0,MV-V) <= 62. ---- *)
Definition wrap64 (z : Z) : Z := (z + 2 ^ 63) mod 2 ^ 64 - 2 ^ 63.
Definition thr64 (H V MH MV : Z) : Z :=
  let a := 2 ^ (MH - H) in let b := 2 ^ (MV - V) in wrap64 (wrap64 (a * a) * b).
Definition dense64 (H V MH MV : Z) (el : list eid) (T : eid) : bool :=
  Z.of_nat (List.length (nodupb eid_eqb (flat_map (units MH MV) (group H V el T)))) =? thr64 H V MH MV.
Definition merge64 (ord : list eid -> list eid) (H V : Z) (ids : list eid) : list eid :=
  let MH := maxz eh ids in let MV := maxz ev ids in
  let el := filter (eligible H V) ids in
  let rest := filter (fun i => negb (eligible H V i)) ids in
  let targets := ord (nodupb eid_eqb (map (target H V) el)) in
  let out := flat_map (fun T => if dense64 H V MH MV el T then [T] else group H V el T) targets in
  ord (nodupb eid_eqb (rest ++ out)).
(* the threshold exponent stays below 63 *)
Definition fits64 (H V : Z) (ids : list eid) : Prop := 2 * Z.max 0 (maxz eh ids - H) + Z.max 0 (maxz ev ids - V) <= 62.

Lemma wrap64_small z : - 2 ^ 63 <= z < 2 ^ 63 -> wrap64 z = z.
Proof. intros Hz. unfold wrap64. rewrite Z.mod_small; lia. Qed.
(* a multiple of 2^63 wraps to 0 or to -2^63 *)
Lemma wrap64_mult63 m : wrap64 (2 ^ 63 * m) = 2 ^ 63 * ((m + 1) mod 2 - 1).
Proof.
  unfold wrap64. replace (2 ^ 63 * m + 2 ^ 63) with (2 ^ 63 * (m + 1)) by ring.
  change (2 ^ 64) with (2 ^ 63 * 2). rewrite Z.mul_mod_distr_l by lia. ring.
Qed.
Lemma thr64_thr H V MH MV : 2 * Z.max 0 (MH - H) + Z.max 0 (MV - V) <= 62 -> thr64 H V MH MV = thr H V MH MV.
Proof.
  intros F. unfold thr64, thr. cbv zeta.
  destruct (Z.ltb_spec (MH - H) 0) as [Nh|Ph].
  - rewrite (Z.pow_neg_r 2 (MH - H)) by exact Nh. cbn. reflexivity.
  - destruct (Z.ltb_spec (MV - V) 0) as [Nv|Pv].
    + rewrite (Z.pow_neg_r 2 (MV - V)) by exact Nv. rewrite !Z.mul_0_r. reflexivity.
    + assert (E1 : 2 ^ (MH - H) * 2 ^ (MH - H) = 2 ^ (2 * (MH - H))) by (rewrite <- Z.pow_add_r by lia; f_equal; lia).
      assert (E2 : 2 ^ (2 * (MH - H)) * 2 ^ (MV - V) = 2 ^ (2 * (MH - H) + (MV - V))) by (rewrite <- Z.pow_add_r by lia; reflexivity).
      assert (B : forall k, 0 <= k <= 62 -> - 2 ^ 63 <= 2 ^ k < 2 ^ 63).
      { intros k Hk. pose proof (Z.pow_pos_nonneg 2 k ltac:(lia) ltac:(lia)). assert (2 ^ k <= 2 ^ 62) by (apply Z.pow_le_mono_r; lia). lia. }
      rewrite E1, (wrap64_small (2 ^ (2 * (MH - H)))) by (apply B; lia). rewrite E2, wrap64_small by (apply B; lia). reflexivity.
Qed.
(* beyond the bound the wrapped threshold is 0 or -2^63: the count test then never succeeds for a non-empty group *)
Lemma thr64_big H V MH MV : 0 <= MH - H -> 0 <= MV - V -> 63 <= 2 * (MH - H) + (MV - V) -> thr64 H V MH MV <= 0.
Proof.
  intros Ph Pv F. unfold thr64. cbv zeta.
  assert (E1 : 2 ^ (MH - H) * 2 ^ (MH - H) = 2 ^ (2 * (MH - H))) by (rewrite <- Z.pow_add_r by lia; f_equal; lia).
  assert (M : forall m, wrap64 (2 ^ 63 * m) <= 0).
  { intros m. rewrite wrap64_mult63. pose proof (Z.mod_pos_bound (m + 1) 2 ltac:(lia)). nia. }
  rewrite E1. destruct (Z.leb_spec 63 (2 * (MH - H))) as [Big|Small].
  - replace (2 ^ (2 * (MH - H))) with (2 ^ 63 * 2 ^ (2 * (MH - H) - 63)) by (rewrite <- Z.pow_add_r by lia; f_equal; lia).
    rewrite wrap64_mult63. rewrite <- Z.mul_assoc. apply M.
  - rewrite (wrap64_small (2 ^ (2 * (MH - H)))).
    + rewrite <- Z.pow_add_r by lia.
      replace (2 ^ (2 * (MH - H) + (MV - V))) with (2 ^ 63 * 2 ^ (2 * (MH - H) + (MV - V) - 63)) by (rewrite <- Z.pow_add_r by lia; f_equal; lia).
      apply M.
    + pose proof (Z.pow_pos_nonneg 2 (2 * (MH - H)) ltac:(lia) ltac:(lia)).
      assert (2 ^ (2 * (MH - H)) <= 2 ^ 62) by (apply Z.pow_le_mono_r; lia). lia.
Qed.
Theorem merge64_merge ord H V ids : fits64 H V ids -> merge64 ord H V ids = merge ord H V ids.
Proof.
  intros F. unfold merge64, merge. cbv zeta. do 3 f_equal. apply flat_map_ext. intros T.
  unfold dense64, dense. now rewrite (thr64_thr H V _ _ F).
Qed.

(* the executable instances: first-occurrence order *)
Definition merge_x (H V : Z) (ids : list eid) : list eid := merge (fun l => l) H V ids.
Definition merge_x64 (H V : Z) (ids : list eid) : list eid := merge64 (fun l => l) H V ids.

(* ---- string-level API ---- *)
(* MergeExtendedSpatialIds: zoom checks, every ID parsed by object.NewExtendedSpatialID (error: stop), merge, IDs printed by ID() *)
Definition merge_ext_api (ids : list string) (H V : Z) : result (list string) :=
  if check_zoom H && check_zoom V then
    match parse_all ids with
    | Some l => Ok (map print_eid (merge_x64 H V l))
    | None => Err
    end
  else Err.

(* MergeSpatialIds: notation change, MergeExtendedSpatialIds(.., zoom, zoom), notation change back (its error is discarded) *)
Definition merge_sid_api (ids : list string) (z : Z) : result (list string) :=
  match sids_to_eids ids with
  | Err => Err
  | Ok e =>
      match merge_ext_api e z z with
      | Err => Err
      | Ok r => match eids_to_sids r with Ok s => Ok s | Err => Ok [] end
      end
  end.

(* ---- work bound shared with the harness: the function enumerates sum_i 4^(MH-h_i) * 2^(MV-v_i) unit cells (documented as
   exponential in the zoom spread); a case beyond the bound is executed on neither side and reported under class "skipped" ---- *)
Definition work (H V : Z) (l : list eid) : Z :=
  let MH := maxz eh l in let MV := maxz ev l in
  fold_left (fun s i => if eligible H V i then s + 4 ^ (MH - eh i) * 2 ^ (MV - ev i) else s) l 0.
Definition small_fields (i : eid) : bool :=
  (Z.abs (ex i) <? 2 ^ 40) && (Z.abs (ey i) <? 2 ^ 40) && (Z.abs (ef i) <? 2 ^ 40) && (Z.abs (eh i) <? 64) && (Z.abs (ev i) <? 64).
(* the bound is the function's own enumeration (`work`) and the exactness of int64(math.Pow(2, d)) (d <= 40 here; zooms 0..35 give
   d <= 35); the distance between the inputs and the target is otherwise free *)
Definition within_bound (H V : Z) (l : list eid) : bool :=
  forallb small_fields l && (maxz eh l - H <=? 40) && (maxz ev l - V <=? 40) && (work H V l <=? 2000).

Example merge_D2 : merge_x 1 0 [mk 1 0 0 1 (-1); mk 1 0 0 1 0] = [mk 1 0 0 1 (-1); mk 1 0 0 1 0].
Proof. vm_compute. reflexivity. Qed.
Example merge_below_ground : merge_x 1 0 [mk 1 0 0 1 (-1); mk 1 0 0 1 (-2)] = [mk 1 0 0 0 (-1)].
Proof. vm_compute. reflexivity. Qed.
Example merge_32 : merge_x 1 1 [mk 2 0 0 2 0; mk 2 0 1 2 0; mk 2 1 0 2 0; mk 2 1 1 2 0; mk 2 0 0 2 1; mk 2 0 1 2 1; mk 2 1 0 2 1; mk 2 1 1 2 1; mk 3 7 7 1 0]
  = [mk 1 0 0 1 0; mk 3 7 7 1 0].
Proof. vm_compute. reflexivity. Qed.
Example merge_wrap : merge_x64 0 0 [mk 32 0 0 0 0] = [mk 32 0 0 0 0] /\ thr64 0 0 32 0 = 0 /\ thr64 0 0 31 1 = - 2 ^ 63.
Proof. vm_compute. repeat split; reflexivity. Qed.
