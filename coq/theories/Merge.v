(* Merge.v — executable model of integrate/merge_zoom.go (MergeExtendedSpatialIds, MergeSpatialIds and their helpers
   NewUnitDividedSpatialID, NewHighSpatialID, HighSpatialID.Merge, IsDense), as the Go algorithm is written.
   ExtendedSpatialID.Higher is ZoomCore.higher (x, y by Go `/` = truncation, z by `>>` after the repair 27792ec).
   Go map iteration orders (the dictionary of target voxels, common.Unique) enter through `ord`. *)
From Coq Require Import ZArith Lia List Bool Permutation String.
From SID Require Import Base Str Ids ZoomCore.
Import ListNotations.
Open Scope Z_scope.

(* max zoom loop: `if z > max { max = z }`, starting from 0, over ALL inputs *)
Definition maxz (f : eid -> Z) (l : list eid) : Z := fold_left (fun m i => if m <? f i then f i else m) l 0.

(* NewUnitDividedSpatialID: the three nested loops over x, y, z; every unit cell is at zoom (MH, MV) *)
Definition units (MH MV : Z) (i : eid) : list eid :=
  let dh := 2 ^ (MH - eh i) in let dv := 2 ^ (MV - ev i) in
  flat_map (fun x => flat_map (fun y => map (fun z =>
    {| eh := MH; ex := x; ey := y; ev := MV; ef := z |})
    (zrange (ef i * dv) ((ef i + 1) * dv - 1)))
    (zrange (ey i * dh) ((ey i + 1) * dh - 1)))
    (zrange (ex i * dh) ((ex i + 1) * dh - 1)).

Section Model.
  Variable ord : list eid -> list eid.            (* Go map iteration order: any permutation *)
  Variables H V : Z.                               (* target zooms *)

  (* `spatialID.HZoom() >= hZoom && spatialID.VZoom() >= vZoom` *)
  Definition eligible (i : eid) : bool := (H <=? eh i) && (V <=? ev i).

  (* NewHighSpatialID: u.Higher(u.HZoom()-hZoom, u.VZoom()-vZoom) *)
  Definition target (i : eid) : eid := higher i (eh i - H) (ev i - V).

  (* threshold = hDiffIndex*hDiffIndex*vDiffIndex with hDiffIndex = 2^((hz-H) + (MH-hz)), vDiffIndex = 2^((vz-V) + (MV-vz)):
     the same number 2^(MH-H) * 2^(MH-H) * 2^(MV-V) for every member of every group *)
  Definition thr_of (MH MV : Z) (i : eid) : Z :=
    let hd := 2 ^ ((eh i - H) + (MH - eh i)) in let vd := 2 ^ ((ev i - V) + (MV - ev i)) in hd * hd * vd.
  Definition thr (MH MV : Z) : Z := 2 ^ (MH - H) * 2 ^ (MH - H) * 2 ^ (MV - V).

  (* members of the dictionary entry of T, in input order (lowIDs), and its set of distinct unit cells *)
  Definition group (el : list eid) (T : eid) : list eid := filter (fun i => eid_eqb (target i) T) el.
  Definition dense (MH MV : Z) (el : list eid) (T : eid) : bool :=
    Z.of_nat (List.length (nodupb eid_eqb (flat_map (units MH MV) (group el T)))) =? thr MH MV.

  Definition merge (ids : list eid) : list eid :=
    let MH := maxz eh ids in let MV := maxz ev ids in
    let el := filter eligible ids in
    let rest := filter (fun i => negb (eligible i)) ids in
    let targets := ord (nodupb eid_eqb (map target el)) in
    let out := flat_map (fun T => if dense MH MV el T then [T] else group el T) targets in
    ord (nodupb eid_eqb (rest ++ out)).
End Model.

Lemma thr_of_thr H V MH MV i : thr_of H V MH MV i = thr H V MH MV.
Proof. unfold thr_of, thr. cbv zeta. replace (eh i - H + (MH - eh i)) with (MH - H) by lia. replace (ev i - V + (MV - ev i)) with (MV - V) by lia. reflexivity. Qed.

(* the executable instance: first-occurrence order *)
Definition merge_x (H V : Z) (ids : list eid) : list eid := merge (fun l => l) H V ids.

(* ---- string-level API ---- *)
(* MergeExtendedSpatialIds: zoom checks, every ID parsed by object.NewExtendedSpatialID (error: stop), merge, IDs printed by ID() *)
Definition merge_ext_api (ids : list string) (H V : Z) : result (list string) :=
  if check_zoom H && check_zoom V then
    match parse_all ids with
    | Some l => Ok (map print_eid (merge_x H V l))
    | None => Err
    end
  else Err.

(* MergeSpatialIds: notation change, MergeExtendedSpatialIds(.., zoom, zoom), notation change back (its error is discarded) *)
Definition merge_sid_api (ids : list string) (z : Z) : result (list string) :=
  match sids_to_eids ids with
  | Err => Err
  | Ok e =>
      match merge_ext_api e z z with
      | Err => Err
      | Ok r => match eids_to_sids r with Ok s => Ok s | Err => Ok [] end
      end
  end.

(* ---- work bound shared with the harness: the function enumerates sum_i 4^(MH-h_i) * 2^(MV-v_i) unit cells (documented as
   exponential in the zoom spread); cases beyond the bound are not executed on either side ---- *)
Definition work (H V : Z) (l : list eid) : Z :=
  let MH := maxz eh l in let MV := maxz ev l in
  fold_left (fun s i => if eligible H V i then s + 4 ^ (MH - eh i) * 2 ^ (MV - ev i) else s) l 0.
Definition small_fields (i : eid) : bool :=
  (Z.abs (ex i) <? 2 ^ 40) && (Z.abs (ey i) <? 2 ^ 40) && (Z.abs (ef i) <? 2 ^ 40) && (Z.abs (eh i) <? 64) && (Z.abs (ev i) <? 64).
(* besides the cells the function enumerates, the checker enumerates the 4^(MH-H) * 2^(MV-V) unit cells of a target voxel *)
Definition within_bound (H V : Z) (l : list eid) : bool :=
  forallb small_fields l && (2 * Z.max 0 (maxz eh l - H) + Z.max 0 (maxz ev l - V) <=? 12) && (work H V l <=? 2000).

Example merge_D2 : merge_x 1 0 [mk 1 0 0 1 (-1); mk 1 0 0 1 0] = [mk 1 0 0 1 (-1); mk 1 0 0 1 0].
Proof. vm_compute. reflexivity. Qed.
Example merge_below_ground : merge_x 1 0 [mk 1 0 0 1 (-1); mk 1 0 0 1 (-2)] = [mk 1 0 0 0 (-1)].
Proof. vm_compute. reflexivity. Qed.
Example merge_32 : merge_x 1 1 [mk 2 0 0 2 0; mk 2 0 1 2 0; mk 2 1 0 2 0; mk 2 1 1 2 0; mk 2 0 0 2 1; mk 2 0 1 2 1; mk 2 1 0 2 1; mk 2 1 1 2 1; mk 3 7 7 1 0]
  = [mk 1 0 0 1 0; mk 3 7 7 1 0].
Proof. vm_compute. reflexivity. Qed.
