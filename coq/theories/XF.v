(* XF.v — C01, longitude axis: the column computed by getHorizontalTileIdOnPoint (PointF.x_f, bit-exact model, after fix 242c5f8)
   - is always inside 0 <= x < 2^h for |lon| <= 180, with longitude 180 treated as -180, and is monotone in the longitude;
   - equals the exact floor whenever the two roundings (lon + 180, then / 360) are exact (e.g. on every column boundary);
   - is never more than one column away from the exact floor, and equals it unless the exact position is within 2^(h-52)
     columns (360 * 2^-52 degrees) of a column boundary: finding class x_rounding (D13), with its refutation witness. *)
From Coq Require Import ZArith Reals Lia Lra Floats List Bool.
From Flocq Require Import Core BinarySingleNaN Mult_error.
From Flocq Require PrimFloat.
From SID Require Import Base F64 ExactRef PointF PtBridge FF.
Import ListNotations.
Open Scope Z_scope.

(* ---- specification over the reals ---- *)
Definition lon_fold (l : R) : R := if Req_bool l 180 then (-180)%R else l.
(* Mercator / plate-carree fraction of a longitude *)
Definition ufrac (l : R) : R := ((lon_fold l + 180) / 360)%R.
Definition X_exact (h : Z) (l : R) : Z := Zfloor (bpow radix2 h * ufrac l).
(* what the binary64 code computes before scaling: two roundings *)
Definition Qx (l : R) : R := rnd (rnd (lon_fold l + 180) / 360).

Lemma lon_fold_range l : (-180 <= l <= 180)%R -> (-180 <= lon_fold l < 180)%R.
Proof.
  intros H. unfold lon_fold. destruct (Req_bool_spec l 180) as [E|N]; lra.
Qed.
Lemma ufrac_range l : (-180 <= l <= 180)%R -> (0 <= ufrac l < 1)%R.
Proof. intros H. pose proof (lon_fold_range l H). unfold ufrac. lra. Qed.
Lemma X_exact_range h l : 0 <= h -> (-180 <= l <= 180)%R -> 0 <= X_exact h l < 2 ^ h.
Proof.
  intros Hh Hl. pose proof (ufrac_range l Hl) as [U0 U1]. unfold X_exact.
  assert (P : (0 < bpow radix2 h)%R) by apply bpow_gt_0.
  split.
  - apply Zfloor_lub. simpl. nra.
  - apply lt_IZR. apply Rle_lt_trans with (bpow radix2 h * ufrac l)%R; [apply Zfloor_lb|]. rewrite IZR_pow2 by exact Hh. nra.
Qed.

(* ---- constants ---- *)
Lemma c180_val : fval 180%float = 180%R /\ ffin 180%float = true.
Proof. split; [unfold fval; vm_compute; lra | vm_compute; reflexivity]. Qed.
Lemma c360_val : fval 360%float = 360%R /\ ffin 360%float = true.
Proof. split; [unfold fval; vm_compute; lra | vm_compute; reflexivity]. Qed.
Lemma c1_val : fval 1%float = 1%R /\ ffin 1%float = true.
Proof. split; [unfold fval; vm_compute; lra | vm_compute; reflexivity]. Qed.
Lemma rnd_IZR z : Z.abs z <= 2 ^ 53 -> rnd (IZR z) = IZR z.
Proof. intros H. apply rnd_fmt, fmt_IZR, H. Qed.

Lemma rnd_sum_range x : (-180 <= x <= 180)%R -> (0 <= rnd (x + 180) <= 360)%R.
Proof.
  intros H. split.
  - rewrite <- rnd_0. apply rnd_le. lra.
  - rewrite <- (rnd_IZR 360) by (simpl; lia). apply rnd_le. lra.
Qed.
Lemma rnd_quot_range s : (0 <= s <= 360)%R -> (0 <= rnd (s / 360) <= 1)%R.
Proof.
  intros H. split.
  - rewrite <- rnd_0. apply rnd_le. lra.
  - rewrite <- (rnd_IZR 1) by (simpl; lia). apply rnd_le. lra.
Qed.
Lemma Qx_range l : (-180 <= l <= 180)%R -> (0 <= Qx l <= 1)%R.
Proof.
  intros H. unfold Qx. apply rnd_quot_range. apply rnd_sum_range. pose proof (lon_fold_range l H). lra.
Qed.
Lemma Qx_mono a b : (lon_fold a <= lon_fold b)%R -> (Qx a <= Qx b)%R.
Proof.
  intros H. unfold Qx. apply rnd_le. apply Rmult_le_compat_r; [lra|]. apply rnd_le. lra.
Qed.

Lemma abs_le_lt r a k : (0 <= r <= a)%R -> (a < bpow radix2 k)%R -> (Rabs r < bpow radix2 k)%R.
Proof. intros [H0 H1] H2. rewrite Rabs_pos_eq by exact H0. lra. Qed.
Lemma bpow9 : bpow radix2 9 = 512%R.
Proof. simpl. lra. Qed.

(* ---- the model, step by step: x_f = min (floor (2^h * Qx lon)) (2^h - 1) ---- *)
Theorem x_f_spec (lon : pfloat) (h : Z) : 0 <= h <= 35 -> ffin lon = true -> (-180 <= fval lon <= 180)%R ->
  x_f lon h = Some (Z.min (Zfloor (bpow radix2 h * Qx (fval lon))) (2 ^ h - 1)).
Proof.
  intros Hh Fl Hl. unfold x_f.
  destruct c180_val as [V180 F180]. destruct c360_val as [V360 F360]. destruct c1_val as [V1 F1].
  destruct (pow2f_value h ltac:(lia)) as [Vp Fp].
  assert (B1024 : forall r a, (0 <= r <= a)%R -> (a <= 512)%R -> (Rabs r < bpow radix2 1024)%R).
  { intros r a Hr Ha. apply abs_le_lt with a; [exact Hr|]. apply Rle_lt_trans with (1 := Ha). rewrite <- bpow9. apply bpow_lt. lia. }
  (* the fold of +180 onto -180 *)
  set (lon' := if (lon =? 180)%float then (- lon)%float else lon).
  assert (L' : fval lon' = lon_fold (fval lon) /\ ffin lon' = true).
  { unfold lon', lon_fold. rewrite (eqb_val lon 180 Fl F180), V180.
    destruct (Req_bool_spec (fval lon) 180) as [E|N].
    - destruct (opp_val lon) as [Vo Fo]. rewrite Vo, Fo. split; [|exact Fl]. rewrite E. lra.
    - auto. }
  destruct L' as [Vl' Fl'].
  pose proof (lon_fold_range _ Hl) as Hr.
  (* lon + 180 *)
  pose proof (rnd_sum_range (lon_fold (fval lon)) ltac:(lra)) as Hs.
  destruct (add_val lon' 180 Fl' F180) as [Vs Fs].
  { rewrite Vl', V180. apply (B1024 _ 360%R Hs). lra. }
  rewrite Vl', V180 in Vs.
  (* / 360 *)
  pose proof (rnd_quot_range _ Hs) as Hq.
  destruct (div_val (lon' + 180) 360 Fs) as [Vq Fq].
  { rewrite V360. lra. }
  { rewrite Vs, V360. apply (B1024 _ 1%R Hq). lra. }
  rewrite Vs, V360 in Vq. fold (Qx (fval lon)) in Vq, Hq.
  set (q := ((lon' + 180) / 360)%float) in *.
  (* 2^h * q, exact *)
  assert (P35 : (bpow radix2 h <= bpow radix2 35)%R) by (apply bpow_le; lia).
  assert (Ph : (0 < bpow radix2 h)%R) by apply bpow_gt_0.
  assert (Ht : (0 <= bpow radix2 h * Qx (fval lon) <= bpow radix2 35)%R) by nra.
  assert (Gt : fmt (bpow radix2 h * Qx (fval lon))).
  { rewrite Rmult_comm, <- Vq. apply fmt_scale_pos; [apply fmt_fval | lia]. }
  destruct (mul_val (pow2f h) q Fp Fq) as [Vt Ft].
  { rewrite Vp, Vq, (rnd_fmt _ Gt). apply abs_le_lt with (bpow radix2 35); [exact Ht | apply bpow_lt; lia]. }
  rewrite Vp, Vq, (rnd_fmt _ Gt) in Vt.
  (* math.Floor *)
  destruct (ffloor_val (pow2f h * q) Ft) as [Vf Ff].
  { rewrite Vt. apply abs_le_lt with (bpow radix2 35); [exact Ht | apply bpow_lt; lia]. }
  rewrite Vt in Vf.
  set (fl := Zfloor (bpow radix2 h * Qx (fval lon))) in *.
  (* 2^h - 1 *)
  assert (Hp2 : 1 <= 2 ^ h <= 2 ^ 35).
  { split; [pose proof (pow2_pos h ltac:(lia)); lia | apply Z.pow_le_mono_r; lia]. }
  assert (Em : (bpow radix2 h - 1 = IZR (2 ^ h - 1))%R) by (rewrite minus_IZR, IZR_pow2 by lia; reflexivity).
  destruct (sub_val (pow2f h) 1 Fp F1) as [Vm Fm].
  { rewrite Vp, V1, Em, rnd_IZR by lia. rewrite <- abs_IZR. apply Rlt_le_trans with (IZR (2 ^ 35)).
    - apply IZR_lt. lia.
    - rewrite (IZR_pow2 35) by lia. apply bpow_le. lia. }
  rewrite Vp, V1, Em, rnd_IZR in Vm by lia.
  (* the clamp into the last column *)
  rewrite (ltb_val _ _ Fm Ff), Vm, Vf.
  destruct (Rlt_bool_spec (IZR (2 ^ h - 1)) (IZR fl)) as [C|C].
  - apply lt_IZR in C. rewrite (Ztrunc_f_int _ (2 ^ h - 1) Fm Vm). f_equal. lia.
  - apply le_IZR in C. rewrite (Ztrunc_f_int _ fl Ff Vf). f_equal. lia.
Qed.

(* (3a) the result is a valid column; +180 is the same meridian as -180 *)
Theorem x_f_range (lon : pfloat) (h : Z) : 0 <= h <= 35 -> ffin lon = true -> (-180 <= fval lon <= 180)%R ->
  exists x, x_f lon h = Some x /\ 0 <= x < 2 ^ h.
Proof.
  intros Hh Fl Hl. eexists. split; [apply x_f_spec; assumption|].
  pose proof (Qx_range _ Hl) as [Q0 Q1]. pose proof (pow2_pos h ltac:(lia)).
  assert (0 <= Zfloor (bpow radix2 h * Qx (fval lon))).
  { apply Zfloor_lub. simpl. pose proof (bpow_gt_0 radix2 h). nra. }
  lia.
Qed.
Theorem x_f_180_is_minus_180 (h : Z) : 0 <= h <= 35 -> x_f 180%float h = Some 0 /\ x_f (-180)%float h = Some 0.
Proof.
  intros Hh.
  assert (A : forall lon, ffin lon = true -> (fval lon = 180 \/ fval lon = -180)%R -> x_f lon h = Some 0).
  { intros lon Fl Vl. rewrite x_f_spec; [|exact Hh|exact Fl|destruct Vl; lra]. f_equal.
    assert (Q : Qx (fval lon) = 0%R).
    { unfold Qx. replace (lon_fold (fval lon)) with (-180)%R.
      - replace (-180 + 180)%R with 0%R by ring. rewrite rnd_0. unfold Rdiv. rewrite Rmult_0_l. apply rnd_0.
      - unfold lon_fold. destruct Vl as [-> | ->]; [rewrite Req_bool_true by reflexivity; reflexivity|].
        rewrite Req_bool_false by lra. reflexivity. }
    rewrite Q, Rmult_0_r, Zfloor_IZR. pose proof (pow2_pos h ltac:(lia)). lia. }
  destruct c180_val as [V F]. split.
  - apply A; auto.
  - apply A; [vm_compute; reflexivity | right; unfold fval; vm_compute; lra].
Qed.

(* (3b) monotone in the longitude (with 180 read as -180) *)
Theorem x_f_monotone (a b : pfloat) (h : Z) (xa xb : Z) : 0 <= h <= 35 ->
  ffin a = true -> ffin b = true -> (-180 <= fval a <= 180)%R -> (-180 <= fval b <= 180)%R ->
  (lon_fold (fval a) <= lon_fold (fval b))%R ->
  x_f a h = Some xa -> x_f b h = Some xb -> xa <= xb.
Proof.
  intros Hh Fa Fb Ha Hb Hab. rewrite !x_f_spec by assumption. intros [= <-] [= <-].
  apply Z.min_le_compat_r. apply Zfloor_le. apply Rmult_le_compat_l; [apply bpow_ge_0|]. now apply Qx_mono.
Qed.

(* (3c) exact whenever the two roundings are exact *)
Definition roundings_exact (l : R) : Prop :=
  rnd (lon_fold l + 180) = (lon_fold l + 180)%R /\ rnd ((lon_fold l + 180) / 360) = ((lon_fold l + 180) / 360)%R.
Theorem x_f_exact_if_roundings_exact (lon : pfloat) (h : Z) : 0 <= h <= 35 -> ffin lon = true ->
  (-180 <= fval lon <= 180)%R -> roundings_exact (fval lon) -> x_f lon h = Some (X_exact h (fval lon)).
Proof.
  intros Hh Fl Hl [R1 R2]. rewrite x_f_spec by assumption. f_equal.
  assert (Q : Qx (fval lon) = ufrac (fval lon)) by (unfold Qx, ufrac; rewrite R1, R2; reflexivity).
  rewrite Q. fold (X_exact h (fval lon)). pose proof (X_exact_range h (fval lon) ltac:(lia) Hl). lia.
Qed.
(* in particular on every column boundary k * 360 / 2^j - 180 (j <= 44): the point belongs to the column that starts there *)
Theorem x_f_on_boundary (lon : pfloat) (h j k : Z) : 0 <= h <= 35 -> 0 <= j <= 44 -> 0 <= k < 2 ^ j -> ffin lon = true ->
  fval lon = (IZR k * 360 / bpow radix2 j - 180)%R ->
  x_f lon h = Some (Zfloor (IZR k * bpow radix2 (h - j))).
Proof.
  intros Hh Hj Hk Fl Vl.
  assert (Pj : (0 < bpow radix2 j)%R) by apply bpow_gt_0.
  assert (Kj : (0 <= IZR k / bpow radix2 j < 1)%R).
  { assert (K0 : (0 <= IZR k)%R) by (apply IZR_le; lia).
    assert (K1 : (IZR k < bpow radix2 j)%R) by (rewrite <- IZR_pow2 by lia; apply IZR_lt; lia).
    split.
    - apply Rmult_le_pos; [exact K0 | apply Rlt_le, Rinv_0_lt_compat, Pj].
    - apply Rmult_lt_reg_r with (1 := Pj). unfold Rdiv. rewrite Rmult_assoc, Rinv_l by lra. lra. }
  assert (Dom : (-180 <= fval lon < 180)%R).
  { rewrite Vl. replace (IZR k * 360 / bpow radix2 j)%R with (360 * (IZR k / bpow radix2 j))%R by (unfold Rdiv; ring). lra. }
  assert (Fo : lon_fold (fval lon) = fval lon).
  { unfold lon_fold. rewrite Req_bool_false by lra. reflexivity. }
  assert (P44 : 2 ^ j <= 2 ^ 44) by (apply Z.pow_le_mono_r; lia).
  rewrite x_f_exact_if_roundings_exact; [| exact Hh | exact Fl | lra |].
  - f_equal. unfold X_exact, ufrac. rewrite Fo, Vl. f_equal.
    unfold Zminus. rewrite bpow_plus, bpow_opp. field. lra.
  - unfold roundings_exact. rewrite Fo, Vl. split.
    + apply rnd_fmt.
      replace (IZR k * 360 / bpow radix2 j - 180 + 180)%R with (IZR (k * 45) * bpow radix2 (3 - j))%R.
      * apply fmt_int; lia.
      * rewrite mult_IZR. unfold Zminus. rewrite bpow_plus, bpow_opp. replace (bpow radix2 3) with 8%R by (simpl; lra). field. lra.
    + apply rnd_fmt.
      replace ((IZR k * 360 / bpow radix2 j - 180 + 180) / 360)%R with (IZR k * bpow radix2 (- j))%R.
      * apply fmt_int; lia.
      * rewrite bpow_opp. field. lra.
Qed.

(* ---- (3d) distance to the exact value: |Qx - ufrac| < 2^-52 ---- *)
Lemma ulp_360 : ulp radix2 fexp64 360 = bpow radix2 (-44).
Proof.
  rewrite ulp_neq_0 by lra. unfold cexp. rewrite (mag_unique radix2 360 9).
  - reflexivity.
  - rewrite Rabs_pos_eq by lra. simpl. lra.
Qed.
Lemma ulp_1 : ulp radix2 fexp64 1 = bpow radix2 (-52).
Proof.
  rewrite ulp_neq_0 by lra. unfold cexp. rewrite (mag_unique radix2 1 1).
  - reflexivity.
  - rewrite Rabs_pos_eq by lra. simpl. lra.
Qed.
Lemma rnd_err_le x y : (Rabs x <= Rabs y)%R -> (Rabs (rnd x - x) <= / 2 * ulp radix2 fexp64 y)%R.
Proof.
  intros H. apply Rle_trans with (/ 2 * ulp radix2 fexp64 x)%R.
  - apply error_le_half_ulp. apply (fexp_correct 53 1024). exact Hprec.
  - apply Rmult_le_compat_l; [lra|]. apply ulp_le; [apply FLT_exp_valid; exact Hprec | apply FLT_exp_monotone | exact H].
Qed.
Lemma Qx_near l : (-180 <= l <= 180)%R -> (Rabs (Qx l - ufrac l) < bpow radix2 (-52))%R.
Proof.
  intros Hl. pose proof (lon_fold_range l Hl) as Hr. unfold Qx, ufrac.
  set (t := (lon_fold l + 180)%R) in *.
  assert (Ht : (0 <= t <= 360)%R) by (unfold t; lra).
  pose proof (rnd_sum_range (lon_fold l) ltac:(lra)) as Hs. fold t in Hs.
  assert (E1 : (Rabs (rnd t - t) <= bpow radix2 (-45))%R).
  { apply Rle_trans with (/ 2 * ulp radix2 fexp64 360)%R.
    - apply rnd_err_le. rewrite !Rabs_pos_eq by lra. lra.
    - rewrite ulp_360. replace (-44) with (1 + -45) by lia. rewrite bpow_plus. simpl (bpow radix2 1). lra. }
  assert (E2 : (Rabs (rnd (rnd t / 360) - rnd t / 360) <= bpow radix2 (-53))%R).
  { apply Rle_trans with (/ 2 * ulp radix2 fexp64 1)%R.
    - apply rnd_err_le. rewrite !Rabs_pos_eq by lra. lra.
    - rewrite ulp_1. replace (-52) with (1 + -53) by lia. rewrite bpow_plus. simpl (bpow radix2 1). lra. }
  replace (rnd (rnd t / 360) - t / 360)%R with ((rnd (rnd t / 360) - rnd t / 360) + (rnd t - t) / 360)%R by field.
  apply Rle_lt_trans with (1 := Rabs_triang _ _).
  assert (E3 : (Rabs ((rnd t - t) / 360) < bpow radix2 (-53))%R).
  { unfold Rdiv. rewrite Rabs_mult, (Rabs_pos_eq (/ 360)) by lra.
    apply Rle_lt_trans with (bpow radix2 (-45) * / 360)%R; [apply Rmult_le_compat_r; [lra | exact E1]|].
    replace (-45) with (-53 + 8) by lia. rewrite bpow_plus. simpl (bpow radix2 8).
    pose proof (bpow_gt_0 radix2 (-53)). lra. }
  replace (-52) with (1 + -53) by lia. rewrite bpow_plus. simpl (bpow radix2 1). lra.
Qed.

(* finding class x_rounding: the exact position 2^h * ufrac lon is within 2^(h-52) columns of a column boundary *)
Definition x_rounding (l : R) (h : Z) : Prop :=
  Zfloor (bpow radix2 h * ufrac l - bpow radix2 (h - 52)) <> Zfloor (bpow radix2 h * ufrac l + bpow radix2 (h - 52)).

Lemma Zfloor_shift t (n : Z) : Zfloor (t + IZR n) = Zfloor t + n.
Proof. apply Zfloor_imp. rewrite !plus_IZR. pose proof (Zfloor_lb t). pose proof (Zfloor_ub t). split; lra. Qed.
Lemma floor_squeeze a b c : (a <= b <= c)%R -> Zfloor a = Zfloor c -> Zfloor b = Zfloor a.
Proof.
  intros [H1 H2] E. apply Z.le_antisymm.
  - rewrite E. apply Zfloor_le, H2.
  - apply Zfloor_le, H1.
Qed.

(* partial theorem, guard = complement of the class *)
Theorem x_f_exact_outside_class (lon : pfloat) (h : Z) : 0 <= h <= 35 -> ffin lon = true -> (-180 <= fval lon <= 180)%R ->
  ~ x_rounding (fval lon) h -> x_f lon h = Some (X_exact h (fval lon)).
Proof.
  intros Hh Fl Hl Hc. rewrite x_f_spec by assumption. f_equal.
  unfold x_rounding in Hc. apply Decidable.not_not in Hc; [|apply Z.eq_decidable].
  pose proof (Qx_near _ Hl) as Hn. apply Rabs_def2 in Hn.
  assert (Ph : (0 < bpow radix2 h)%R) by apply bpow_gt_0.
  assert (Eb : bpow radix2 (h - 52) = (bpow radix2 h * bpow radix2 (-52))%R) by (rewrite <- bpow_plus; f_equal).
  rewrite Eb in Hc.
  assert (S : Zfloor (bpow radix2 h * Qx (fval lon)) = X_exact h (fval lon)).
  { unfold X_exact. pose proof (bpow_gt_0 radix2 (-52)) as P52.
    set (t := (bpow radix2 h * ufrac (fval lon))%R) in *. set (d := (bpow radix2 h * bpow radix2 (-52))%R) in *.
    assert (I1 : (t - d <= bpow radix2 h * Qx (fval lon) <= t + d)%R) by (unfold t, d; nra).
    assert (I2 : (t - d <= t <= t + d)%R) by (unfold d; nra).
    rewrite (floor_squeeze _ _ _ I1 Hc). symmetry. apply (floor_squeeze _ _ _ I2 Hc). }
  rewrite S. pose proof (X_exact_range h (fval lon) ltac:(lia) Hl). lia.
Qed.
(* and in every case the column is at most one away from the exact one *)
Theorem x_f_within_one (lon : pfloat) (h x : Z) : 0 <= h <= 35 -> ffin lon = true -> (-180 <= fval lon <= 180)%R ->
  x_f lon h = Some x -> X_exact h (fval lon) - 1 <= x <= X_exact h (fval lon) + 1.
Proof.
  intros Hh Fl Hl. rewrite x_f_spec by assumption. intros [= <-].
  pose proof (Qx_near _ Hl) as Hn. apply Rabs_def2 in Hn.
  assert (Ph : (0 < bpow radix2 h)%R) by apply bpow_gt_0.
  assert (D : (bpow radix2 h * bpow radix2 (-52) < 1)%R).
  { rewrite <- bpow_plus. change 1%R with (bpow radix2 0). apply bpow_lt. lia. }
  pose proof (X_exact_range h (fval lon) ltac:(lia) Hl) as Xr. unfold X_exact in *.
  set (t := (bpow radix2 h * ufrac (fval lon))%R) in *. set (t' := (bpow radix2 h * Qx (fval lon))%R).
  assert (T : (t - 1 < t' < t + 1)%R) by (unfold t, t'; nra).
  assert (A : Zfloor t - 1 <= Zfloor t').
  { replace (Zfloor t - 1) with (Zfloor (t + IZR (-1))) by (rewrite Zfloor_shift; lia). apply Zfloor_le. simpl. lra. }
  assert (B : Zfloor t' <= Zfloor t + 1).
  { rewrite <- Zfloor_shift. apply Zfloor_le. simpl. lra. }
  lia.
Qed.

(* ---- the independent rational reference of the run-time checker (ExactRef.exact_x) is X_exact ---- *)
Lemma dyadic_fold (m e : Z) :
  let l := (IZR m * bpow radix2 e)%R in
  let me' := if (m * 2 ^ e =? 180) && (0 <=? e) then (-180, 0)
             else if (e <? 0) && (m =? 180 * 2 ^ (- e)) then (-180, 0) else (m, e) in
  lon_fold l = (IZR (fst me') * bpow radix2 (snd me'))%R.
Proof.
  cbv zeta. unfold lon_fold.
  destruct (Z.leb_spec 0 e) as [He|He].
  - rewrite andb_true_r. assert (El : (IZR m * bpow radix2 e)%R = IZR (m * 2 ^ e)) by (rewrite mult_IZR, IZR_pow2 by lia; reflexivity).
    rewrite El. destruct (Z.eqb_spec (m * 2 ^ e) 180) as [E|N].
    + rewrite E, Req_bool_true by reflexivity. simpl. ring.
    + rewrite Req_bool_false by (intros C; apply eq_IZR in C; contradiction).
      replace (e <? 0) with false by (symmetry; apply Z.ltb_ge; lia). cbn [andb fst snd]. now rewrite El.
  - rewrite andb_false_r. replace (e <? 0) with true by (symmetry; apply Z.ltb_lt; lia). cbn [andb].
    assert (P : (0 < bpow radix2 (- e))%R) by apply bpow_gt_0.
    assert (Eb : bpow radix2 e = (/ bpow radix2 (- e))%R) by (rewrite <- bpow_opp; f_equal; lia).
    destruct (Z.eqb_spec m (180 * 2 ^ (- e))) as [E|N].
    + rewrite Req_bool_true.
      * simpl. ring.
      * rewrite E, mult_IZR, IZR_pow2, Eb by lia. field. lra.
    + rewrite Req_bool_false; [reflexivity|]. intros C. apply N. apply eq_IZR.
      rewrite mult_IZR, IZR_pow2 by lia. rewrite Eb in C.
      apply Rmult_eq_reg_r with (/ bpow radix2 (- e))%R; [|apply Rgt_not_eq, Rinv_0_lt_compat, P].
      rewrite C. field. lra.
Qed.
Theorem exact_x_spec (lon : pfloat) (h : Z) : 0 <= h -> ffin lon = true -> exact_x lon h = Some (X_exact h (fval lon)).
Proof.
  intros Hh Fl. destruct (dyadic_val lon Fl) as (m & e & D & V). unfold exact_x. rewrite D.
  pose proof (dyadic_fold m e) as Hf. cbv zeta in Hf. rewrite <- V in Hf.
  destruct (if (m * 2 ^ e =? 180) && (0 <=? e) then (-180, 0)
            else if (e <? 0) && (m =? 180 * 2 ^ (- e)) then (-180, 0) else (m, e)) as [m' e'].
  cbn [fst snd] in Hf. unfold X_exact, ufrac. rewrite Hf.
  destruct (Z.leb_spec 0 e') as [He|He]; f_equal.
  - rewrite <- Zfloor_div by lia. f_equal.
    rewrite mult_IZR, plus_IZR, mult_IZR, !IZR_pow2 by lia. field.
  - assert (P : (0 < bpow radix2 (- e'))%R) by apply bpow_gt_0.
    assert (Eb : bpow radix2 e' = (/ bpow radix2 (- e'))%R) by (rewrite <- bpow_opp; f_equal; lia).
    assert (Pz : 0 < 2 ^ (- e')) by (apply Z.pow_pos_nonneg; lia).
    rewrite <- Zfloor_div by lia. f_equal.
    rewrite !mult_IZR, plus_IZR, mult_IZR, !IZR_pow2 by lia. rewrite Eb. field. lra.
Qed.

(* the class is not empty and the column differs from the exact floor on it (D13): lon = -1e-20 at zoom 3 gives column 4,
   the point lies in column 3 *)
Definition lon_witness : pfloat := (-0x1.79ca10c924223p-67)%float.      (* float64(-1e-20) *)
Theorem x_f_rounding_refuted :
  exists lon h, 0 <= h <= 35 /\ ffin lon = true /\ (-180 <= fval lon <= 180)%R /\ x_rounding (fval lon) h /\
                x_f lon h = Some 4 /\ X_exact h (fval lon) = 3.
Proof.
  exists lon_witness, 3.
  assert (F : ffin lon_witness = true) by (vm_compute; reflexivity).
  assert (X : X_exact 3 (fval lon_witness) = 3).
  { pose proof (exact_x_spec lon_witness 3 ltac:(lia) F) as E.
    replace (exact_x lon_witness 3) with (Some 3) in E by (vm_compute; reflexivity). now injection E. }
  assert (M : x_f lon_witness 3 = Some 4) by (vm_compute; reflexivity).
  assert (Dom : (-180 <= fval lon_witness <= 180)%R).
  { rewrite fval_SF. replace (Prim2SF lon_witness) with (S754_finite true 6646139978924579 (-119)) by (vm_compute; reflexivity).
    cbn [SF2R cond_Zopp]. unfold F2R. cbn [Fnum Fexp].
    assert (B : (0 < bpow radix2 (-119) < bpow radix2 (-60))%R) by (split; [apply bpow_gt_0 | apply bpow_lt; lia]).
    assert (B2 : (IZR 6646139978924579 < bpow radix2 53)%R) by (rewrite <- (IZR_pow2 53) by lia; apply IZR_lt; reflexivity).
    assert (B3 : (bpow radix2 53 * bpow radix2 (-60) < 1)%R) by (rewrite <- bpow_plus; change 1%R with (bpow radix2 0); apply bpow_lt; lia).
    rewrite opp_IZR. pose proof (bpow_gt_0 radix2 53). nra. }
  repeat split; try lia; try exact F; try apply Dom; try exact M; try exact X.
  intros C. pose proof (x_f_exact_outside_class lon_witness 3 ltac:(lia) F Dom (fun H => H C)) as E.
  rewrite M, X in E. discriminate.
Qed.

(* ---- the class x_rounding decided on the input (exact integer arithmetic on the float's dyadic value) ---- *)
Definition x_rounding_b (lon : pfloat) (h : Z) : bool :=
  match dyadic lon with
  | Some (m, e) =>
      let '(m, e) := if (m * 2 ^ e =? 180) && (0 <=? e) then (-180, 0)
                     else if (e <? 0) && (m =? 180 * 2 ^ (- e)) then (-180, 0) else (m, e) in
      let s := Z.min e (-49) in
      let A := m * 2 ^ (e - s) + 180 * 2 ^ (- s) in          (* lon + 180      = A * 2^s *)
      let d := 45 * 2 ^ (-49 - s) in                          (* 360 * 2^-52    = d * 2^s *)
      let den := 360 * 2 ^ (- s) in
      negb (((A - d) * 2 ^ h) / den =? ((A + d) * 2 ^ h) / den)
  | None => false
  end.

Lemma band_edge (m e h sg : Z) : 0 <= h -> let s := Z.min e (-49) in
  (bpow radix2 h * ((IZR m * bpow radix2 e + 180) / 360) + IZR sg * bpow radix2 (h - 52) =
   IZR ((m * 2 ^ (e - s) + 180 * 2 ^ (- s) + sg * (45 * 2 ^ (-49 - s))) * 2 ^ h) / IZR (360 * 2 ^ (- s)))%R.
Proof.
  intros Hh s. assert (Hs : s <= e /\ s <= -49) by (unfold s; lia).
  rewrite !mult_IZR, !plus_IZR, !mult_IZR, !IZR_pow2 by lia.
  set (B := bpow radix2 s). assert (PB : (0 < B)%R) by apply bpow_gt_0.
  assert (E1 : bpow radix2 (e - s) = (bpow radix2 e / B)%R) by (unfold Zminus, B; rewrite bpow_plus, bpow_opp; reflexivity).
  assert (E2 : bpow radix2 (- s) = (/ B)%R) by (unfold B; apply bpow_opp).
  assert (E3 : bpow radix2 (-49 - s) = (bpow radix2 (-49) / B)%R) by (unfold Zminus, B; rewrite bpow_plus, bpow_opp; reflexivity).
  assert (E4 : bpow radix2 (h - 52) = (bpow radix2 h * bpow radix2 (-52))%R) by (rewrite <- bpow_plus; f_equal).
  assert (E5 : bpow radix2 (-49) = (8 * bpow radix2 (-52))%R).
  { replace (-49) with (3 + -52) by lia. rewrite bpow_plus. replace (bpow radix2 3) with 8%R by (simpl; lra). reflexivity. }
  rewrite E1, E2, E3, E4, E5. field. lra.
Qed.

Theorem x_rounding_b_spec (lon : pfloat) (h : Z) : 0 <= h -> ffin lon = true ->
  x_rounding_b lon h = true <-> x_rounding (fval lon) h.
Proof.
  intros Hh Fl. destruct (dyadic_val lon Fl) as (m & e & D & V). unfold x_rounding_b, x_rounding, ufrac. rewrite D.
  pose proof (dyadic_fold m e) as Hf. cbv zeta in Hf. rewrite <- V in Hf.
  destruct (if (m * 2 ^ e =? 180) && (0 <=? e) then (-180, 0)
            else if (e <? 0) && (m =? 180 * 2 ^ (- e)) then (-180, 0) else (m, e)) as [m' e'].
  cbn [fst snd] in Hf. rewrite Hf. cbv zeta.
  set (s := Z.min e' (-49)). assert (Hs : s <= -49) by (unfold s; lia).
  assert (Pd : 360 * 2 ^ (- s) <> 0) by (pose proof (pow2_pos (- s) ltac:(lia)); lia).
  pose proof (band_edge m' e' h 1 Hh) as Ep. pose proof (band_edge m' e' h (-1) Hh) as Em. cbv zeta in Ep, Em. fold s in Ep, Em.
  replace (IZR 1 * bpow radix2 (h - 52))%R with (bpow radix2 (h - 52)) in Ep by ring.
  replace (bpow radix2 h * ((IZR m' * bpow radix2 e' + 180) / 360) + IZR (-1) * bpow radix2 (h - 52))%R
    with (bpow radix2 h * ((IZR m' * bpow radix2 e' + 180) / 360) - bpow radix2 (h - 52))%R in Em by (simpl; ring).
  rewrite Ep, Em, !Zfloor_div by exact Pd.
  replace (m' * 2 ^ (e' - s) + 180 * 2 ^ (- s) + 1 * (45 * 2 ^ (-49 - s))) with (m' * 2 ^ (e' - s) + 180 * 2 ^ (- s) + 45 * 2 ^ (-49 - s)) by ring.
  replace (m' * 2 ^ (e' - s) + 180 * 2 ^ (- s) + -1 * (45 * 2 ^ (-49 - s))) with (m' * 2 ^ (e' - s) + 180 * 2 ^ (- s) - 45 * 2 ^ (-49 - s)) by ring.
  rewrite negb_true_iff, Z.eqb_neq. tauto.
Qed.
