(* GenEq64Alt.v — altitude-key kernels (transform/convert_quadkey_and_Vertical_id.go) in int64 mode:
   (b) bridge to the unbounded kernels of Generated.v; (a) equality with C12's hand-written int64 models of AltKey.v (shiftm, validatem,
   z2minkey64m, z2key64m, key2z64m), through the result encodings of GenTac.v; and what follows: C12's domain and no-panic theorems stated of the
   regenerated int64 code. *)
From Coq Require Import ZArith Bool Lia.
From SIDGen Require Import Generated Generated64.
From SID Require Import Base Ids ZoomCore AltKeyCore I64 GenTac GenEqAlt GenEq64Tac AltKey.
Open Scope Z_scope.

(* ---- (a) Generated64 = AltKey's int64 models (AltKey.M, bind, ret, ex are I64's, definition for definition) ---- *)
Ltac to_i64 := change (@AltKey.bind) with (@I64.bind); change (@AltKey.ret) with (@I64.ret); change AltKey.ex with I64.ex; open_ops.

Lemma gen64_CalculateArithmeticShift_shiftm : forall i s, Generated64.CalculateArithmeticShift i s = AltKey.shiftm i s.
Proof.
  intros. repeat autounfold with sidgen64. unfold shiftm, shl64, shr64, neg64. to_i64. unfold I64.ret.
  (* the count -s, 0 - s, ... : one int64 value *)
  repeat match goal with |- context [I64.w64 ?t] => lazymatch t with - s => fail | _ => replace t with (- s) by ring end end.
  repeat match goal with |- context [I64.i64 ?t] => lazymatch t with - s => fail | _ => replace t with (- s) by ring end end.
  zcases; rewrite ?bind_Some; cbv beta iota; zcases; rewrite ?bind_Some; cbv beta iota; try lia;
    rewrite ?andb_true_r, ?andb_true_l; try reflexivity; zcases; try lia; try reflexivity.
Qed.

Ltac alt_op m :=
  lazymatch m with
  | AltKey.shiftm _ _ => idtac
  | AltKey.validatem _ _ _ => idtac
  | _ => fail
  end.

(* validateIndexExists returns (err, ok) with err = not ok *)
Opaque Generated64.CalculateArithmeticShift.
Lemma gen64_validateIndexExists_validatem : forall i z neg,
  Generated64.validateIndexExists i z neg = I64.bind (AltKey.validatem i z neg) (fun ok => I64.ret (negb ok, ok)).
Proof.
  intros. repeat autounfold with sidgen64. unfold validatem, or64, and64. to_i64.
  mrun ltac:(rewrite ?gen64_CalculateArithmeticShift_shiftm) alt_op; mfin.
Qed.

Opaque AltKey.shiftm AltKey.validatem Generated64.validateIndexExists.
Ltac alt_rw := rewrite ?gen64_CalculateArithmeticShift_shiftm, ?gen64_validateIndexExists_validatem.

Lemma gen64_convertZToMinAltitudekey_z2minkey64m : forall f z out E O,
  Generated64.convertZToMinAltitudekey f z out E O = I64.bind (AltKey.z2minkey64m f z out E O) (fun r => I64.ret (enc_z r)).
Proof.
  intros. repeat autounfold with sidgen64. unfold z2minkey64m, zorigin, enc_z, or64, and64. to_i64.
  mrun alt_rw alt_op; mfin.
Qed.
Lemma gen64_ConvertZToMinMaxAltitudekey_z2key64m : forall f z out E O,
  Generated64.ConvertZToMinMaxAltitudekey f z out E O = I64.bind (AltKey.z2key64m f z out E O) (fun r => I64.ret (enc_zz r)).
Proof.
  intros. repeat autounfold with sidgen64. unfold z2key64m, zorigin, enc_zz, zoom_ok, or64, and64. to_i64.
  mrun alt_rw alt_op; mfin.
Qed.
Lemma gen64_ConvertAltitudekeyToMinMaxZ_key2z64m : forall k kz out E O,
  Generated64.ConvertAltitudekeyToMinMaxZ k kz out E O = I64.bind (AltKey.key2z64m k kz out E O) (fun r => I64.ret (enc_zz r)).
Proof.
  intros. repeat autounfold with sidgen64. unfold key2z64m, zorigin, enc_zz, zoom_ok, or64, and64. to_i64.
  mrun alt_rw alt_op; mfin.
Qed.
Transparent AltKey.shiftm AltKey.validatem Generated64.validateIndexExists Generated64.CalculateArithmeticShift.

(* ---- C12's theorems about the hand-written model, stated of the regenerated int64 code ---- *)
(* the documented domains: nothing wraps, the code returns what the unbounded model returns *)
Theorem gen64_ConvertZToMinMaxAltitudekey_fits : forall f z out E O,
  0 <= z <= 35 -> 0 <= out <= 35 -> 0 <= E <= 35 -> - 2 ^ 27 <= O <= 2 ^ 27 ->
  Generated64.ConvertZToMinMaxAltitudekey f z out E O = Some (Generated.ConvertZToMinMaxAltitudekey f z out E O, true).
Proof.
  intros. rewrite gen64_ConvertZToMinMaxAltitudekey_z2key64m, (z2key64m_domain f z out E O) by assumption.
  rewrite gen_ConvertZToMinMaxAltitudekey_eq. reflexivity.
Qed.
Theorem gen64_ConvertAltitudekeyToMinMaxZ_fits : forall k kz out E O,
  0 <= kz <= 35 -> 0 <= out <= 35 -> 0 <= E <= 35 -> - 2 ^ 50 <= O <= 2 ^ 50 ->
  Generated64.ConvertAltitudekeyToMinMaxZ k kz out E O = Some (Generated.ConvertAltitudekeyToMinMaxZ k kz out E O, true).
Proof.
  intros. rewrite gen64_ConvertAltitudekeyToMinMaxZ_key2z64m, (key2z64m_domain k kz out E O) by assumption.
  rewrite gen_ConvertAltitudekeyToMinMaxZ_eq. reflexivity.
Qed.
(* no run-time panic for any int64 arguments with a base exponent of at most 2^62 in absolute value *)
Theorem gen64_ConvertZToMinMaxAltitudekey_no_panic : forall f z out E O,
  - 2 ^ 62 <= E <= 2 ^ 62 -> Generated64.ConvertZToMinMaxAltitudekey f z out E O <> None.
Proof.
  intros f z out E O HE. rewrite gen64_ConvertZToMinMaxAltitudekey_z2key64m.
  pose proof (z2key64m_no_panic f z out E O HE) as Hn. destruct (z2key64m f z out E O) as [[r e]|]; [discriminate|contradiction].
Qed.
Theorem gen64_ConvertAltitudekeyToMinMaxZ_no_panic : forall k kz out E O,
  - 2 ^ 62 <= E <= 2 ^ 62 -> Generated64.ConvertAltitudekeyToMinMaxZ k kz out E O <> None.
Proof.
  intros k kz out E O HE. rewrite gen64_ConvertAltitudekeyToMinMaxZ_key2z64m.
  pose proof (key2z64m_no_panic k kz out E O HE) as Hn. destruct (key2z64m k kz out E O) as [[r e]|]; [discriminate|contradiction].
Qed.

(* ---- (b) bridge: with the flag set the int64 code is the unbounded kernel of Generated.v ---- *)
Opaque Generated.CalculateArithmeticShift Generated64.CalculateArithmeticShift Generated.CheckZoom Generated64.CheckZoom.

Lemma gen64_validateIndexExists_exact : forall i z neg r,
  Generated64.validateIndexExists i z neg = Some (r, true) -> r = Generated.validateIndexExists i z neg.
Proof. bridge base_callees. Qed.

Opaque Generated.validateIndexExists Generated64.validateIndexExists.
Ltac alt_callees H :=
  first [ base_callees H | apply gen64_validateIndexExists_exact in H; subst ].

Lemma gen64_convertZToMinAltitudekey_exact : forall f z out E O r,
  Generated64.convertZToMinAltitudekey f z out E O = Some (r, true) -> r = Generated.convertZToMinAltitudekey f z out E O.
Proof. bridge alt_callees. Qed.
Lemma gen64_ConvertZToMinMaxAltitudekey_exact : forall f z out E O r,
  Generated64.ConvertZToMinMaxAltitudekey f z out E O = Some (r, true) -> r = Generated.ConvertZToMinMaxAltitudekey f z out E O.
Proof. bridge alt_callees. Qed.
Lemma gen64_ConvertAltitudekeyToMinMaxZ_exact : forall k kz out E O r,
  Generated64.ConvertAltitudekeyToMinMaxZ k kz out E O = Some (r, true) -> r = Generated.ConvertAltitudekeyToMinMaxZ k kz out E O.
Proof. bridge alt_callees. Qed.
Transparent Generated.CalculateArithmeticShift Generated64.CalculateArithmeticShift Generated.CheckZoom Generated64.CheckZoom
  Generated.validateIndexExists Generated64.validateIndexExists.
