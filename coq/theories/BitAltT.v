(* BitAltT.v — C17: the statements that tie the pieces together.
   - coverage in the code's own terms, for ALL floats and ranges: every altitude between the two faces of the voxel is assigned (by calcBitIndex
     itself) to a cell of the emitted run;
   - a float's dyadic pair (ExactRef.dyadic) is its value; on dyadic height ranges the emitted run is exactly the run of the exact reference
     (the one the run-time checker computes), hence covers the voxel in real-number terms;
   - soundness of the run-time checkers. *)
From Coq Require Import ZArith Reals Lia Lra Psatz Floats List Bool String.
From Flocq Require Import Core BinarySingleNaN.
From Flocq Require PrimFloat.
From SID Require Import Base Str Ids F64 ExactRef PointF BitAlt BitAltRef BitAltR BitAltF BitAltV.
Import ListNotations.
Open Scope Z_scope.

(* every altitude of the voxel (between its faces, in Go's own comparison) gets a cell of the emitted run — any range, any floats *)
Theorem vid_to_bit_covers v f oz mx mn (a : pfloat) : 0 <= v <= 35 -> Z.abs f < 2 ^ 52 -> 0 <= oz ->
  geF a (vox_alt f v) = true -> geF (vox_alt (f + 1) v) a = true ->
  In (calc_bit_index a oz mx mn) (vid_to_bit v f oz mx mn).
Proof.
  intros Hv Hf Hz H1 H2. destruct (vid_to_bit_run v f oz mx mn Hv Hf Hz) as (_ & _ & _ & Hin).
  apply Hin. split; now apply calc_bit_index_mono.
Qed.

(* the dyadic pair of a finite float is its value *)
Lemma dyadic_val x d : dyadic x = Some d -> val x = dval d /\ fin x.
Proof.
  unfold dyadic, fin. rewrite val_Prim2SF, fin_Prim2SF. unfold dval.
  destruct (Prim2SF x) as [s|s| |s m e]; intros H; inversion H; subst; cbn [fst snd SF2R is_finite_SF].
  - split; [now rewrite Rmult_0_l|reflexivity].
  - split; [|reflexivity]. unfold F2R. cbn [Fnum Fexp]. destruct s; reflexivity.
Qed.
Lemma vox_dy_val f v : dval (vox_dy f v) = (IZR f * bpow radix2 (25 - v))%R.
Proof. reflexivity. Qed.

(* FLOAT = REFERENCE on dyadic ranges, list level: for a valid voxel and bounds a 2^e < b 2^e (|a| 2^oz, |b| 2^oz < 2^51) the emitted list is
   duplicate-free and is, as a set, exactly the run between the exact reference indices of the voxel's two faces *)
Theorem vid_to_bit_dyadic_exact v f oz (mx mn : pfloat) (a b e : Z) :
  0 <= v <= 35 -> Z.abs f < 2 ^ 52 -> 0 <= oz ->
  fin mx -> fin mn -> val mn = (IZR a * bpow radix2 e)%R -> val mx = (IZR b * bpow radix2 e)%R -> a < b ->
  Z.abs a * 2 ^ oz < 2 ^ 51 -> Z.abs b * 2 ^ oz < 2 ^ 51 -> -1074 <= e - oz -> e + 54 <= 1024 ->
  let '(lo, hi) := fwd_ref v f oz (a, e) (b, e) in
  NoDup (vid_to_bit v f oz mx mn) /\ forall x, In x (vid_to_bit v f oz mx mn) <-> lo <= x <= hi.
Proof.
  intros Hv Hf Hz Fx Fn Vn Vx Hab Ha Hb He1 He2. unfold fwd_ref.
  destruct (vid_to_bit_run v f oz mx mn Hv Hf Hz) as (_ & _ & Hnd & Hin).
  assert (Hlt : (dval (a, e) < dval (b, e))%R).
  { unfold dval. cbn [fst snd]. apply Rmult_lt_compat_r; [apply bpow_gt_0 | now apply IZR_lt]. }
  assert (E : forall g, Z.abs g < 2 ^ 53 -> calc_bit_index (vox_alt g v) oz mx mn = idx_ref (vox_dy g v) (a, e) (b, e) oz).
  { intros g Hg. destruct (vox_alt_exact g v Hv Hg) as [Vg Fg].
    rewrite (calc_bit_index_dyadic_exact (vox_alt g v) mx mn a b e oz) by assumption.
    rewrite idx_ref_real by assumption. rewrite Vg, Vn, Vx. reflexivity. }
  rewrite <- (E f) by lia. rewrite <- (E (f + 1)) by lia. split; [exact Hnd|exact Hin].
Qed.

(* ... and that run covers the voxel in real-number terms: an altitude of the voxel inside the range lies in a cell of the run *)
Theorem fwd_ref_covers v f oz (dmn dmx : dy) (r : R) : 0 <= oz -> (dval dmn < dval dmx)%R ->
  (dval (vox_dy f v) <= r <= dval (vox_dy (f + 1) v))%R -> (dval dmn <= r < dval dmx)%R ->
  let '(lo, hi) := fwd_ref v f oz dmn dmx in
  exists i, lo <= i <= hi /\ in_cell i oz (dval dmx) (dval dmn) r.
Proof.
  intros Hz Hlt Hr Hin. unfold fwd_ref. rewrite !idx_ref_is_calcR by assumption.
  destruct (run_covers _ _ r oz _ _ Hz Hlt Hr) as (Hb & _ & Hc & _).
  exists (calcR r oz (dval dmx) (dval dmn)). split; [exact Hb | now apply Hc].
Qed.

(* ---- soundness of the run-time checkers: acceptance means the observed list is, as a set, exactly the reference run ---- *)
Theorem check_fwd_sound v f oz dmn dmx obs : check_fwd v f oz dmn dmx obs = true ->
  let '(lo, hi) := fwd_ref v f oz dmn dmx in lo <= hi /\ forall y, In y obs <-> lo <= y <= hi.
Proof. unfold check_fwd. destruct (fwd_ref v f oz dmn dmx) as [lo hi]. apply check_run_sound. Qed.
Theorem check_fwd_complete v f oz dmn dmx obs :
  (let '(lo, hi) := fwd_ref v f oz dmn dmx in lo <= hi /\ forall y, In y obs <-> lo <= y <= hi) -> check_fwd v f oz dmn dmx obs = true.
Proof. unfold check_fwd. destruct (fwd_ref v f oz dmn dmx) as [lo hi]. intros [H1 H2]. now apply check_run_complete. Qed.
Theorem check_rev_sound vz k oz dmn dmx obs : check_rev vz k oz dmn dmx obs = true ->
  let '(lo, hi) := rev_ref vz k oz dmn dmx in lo <= hi /\ forall y, In y obs <-> lo <= y <= hi.
Proof. unfold check_rev. destruct (rev_ref vz k oz dmn dmx) as [lo hi]. apply check_run_sound. Qed.
(* the reverse reference is what it claims to be: the floors of the exact bounds of cell k *)
Theorem rev_ref_real vz k oz dmn dmx : 0 <= vz ->
  rev_ref vz k oz dmn dmx =
  (Zfloor ((dval dmn + IZR k * ((dval dmx - dval dmn) / IZR (2 ^ vz))) * bpow radix2 (oz - 25)),
   Zfloor ((dval dmn + IZR (k + 1) * ((dval dmx - dval dmn) / IZR (2 ^ vz))) * bpow radix2 (oz - 25))).
Proof. intros Hv. unfold rev_ref. rewrite !vidx_ref_real, !cell_dy_real by exact Hv. reflexivity. Qed.

(* the exact reference is monotone and inside the index range, so the reference run is never empty *)
Lemma fwd_ref_ordered v f oz dmn dmx : 0 <= oz -> (dval dmn < dval dmx)%R ->
  let '(lo, hi) := fwd_ref v f oz dmn dmx in 0 <= lo <= hi /\ hi < 2 ^ oz.
Proof.
  intros Hz Hlt. unfold fwd_ref. pose proof (idx_ref_range (vox_dy f v) dmn dmx oz Hz). pose proof (idx_ref_range (vox_dy (f + 1) v) dmn dmx oz Hz).
  rewrite !idx_ref_is_calcR in * by assumption. split; [split; [lia|]|lia].
  apply calcR_mono. rewrite !vox_dy_val. apply Rmult_le_compat_r; [apply bpow_ge_0|]. apply IZR_le. lia.
Qed.

(* ------------------------------------------------------------------------------------------------------------------ *)
(* The exported forward conversion in height-range mode: whatever the horizontal conversion returns, the (quadkey, index) pairs of all groups
   together are exactly  ⋃_IDs  quadkeys(ID) × (run of that ID's voxel);  the cross-ID de-duplication loses nothing. *)
Lemma zz_eq (p q : Z * Z) : PS.E.eq p q <-> p = q.
Proof.
  destruct p as [a b], q as [c d]. split.
  - intros H. destruct H as [H1 H2]. cbn in H1, H2. unfold RelationPairs.RelCompFun in *. cbn in *. congruence.
  - intros [= -> ->]. split; reflexivity.
Qed.

Lemma pair_eq_dec (p q : Z * Z) : {p = q} + {p <> q}.
Proof. decide equality; apply Z.eq_dec. Qed.

Lemma fresh_pairs_spec ps : forall seen o seen', fresh_pairs ps seen = (o, seen') ->
  (forall p, In p o <-> In p ps /\ ~ PS.In p seen) /\ (forall p, PS.In p seen' <-> PS.In p seen \/ In p ps).
Proof.
  induction ps as [|a r IH]; intros seen o seen' H; cbn [fresh_pairs] in H.
  - inversion H; subst. split; intros p; cbn; tauto.
  - destruct (PS.mem a seen) eqn:M.
    + apply PS.mem_spec in M. destruct (IH _ _ _ H) as [I1 I2]. split; intros p.
      * rewrite I1. cbn. split; [tauto|]. intros [[<-|Hr] Hn]; [contradiction|tauto].
      * rewrite I2. cbn. split; [tauto|]. intros [Hs|[<-|Hr]]; tauto.
    + assert (Hna : ~ PS.In a seen) by (rewrite <- PS.mem_spec; congruence).
      destruct (fresh_pairs r (PS.add a seen)) as [o1 s1] eqn:E. inversion H; subst.
      destruct (IH _ _ _ E) as [I1 I2]. split; intros p.
      * cbn [In]. rewrite I1, PS.add_spec, zz_eq. split.
        -- intros [<-|[Hr Hn]]; [tauto|]. split; [tauto|]. intros Hs. apply Hn. now right.
        -- intros [[<-|Hr] Hn]; [now left|]. destruct (pair_eq_dec p a) as [->|Hne]; [now left|]. right. split; [exact Hr|].
           intros [->|Hs]; contradiction.
      * rewrite I2, PS.add_spec, zz_eq. cbn [In]. split; [intros [[->|Hs]|Hr]; tauto | intros [Hs|[<-|Hr]]; tauto].
Qed.

Lemma ltb_eqb_false (x y : pfloat) : (y <? x)%float = true -> (x =? y)%float = false.
Proof.
  rewrite Flocq.IEEE754.PrimFloat.ltb_equiv, Flocq.IEEE754.PrimFloat.eqb_equiv.
  unfold Bltb, Beqb, SFltb, SFeqb. fold (Bcompare (P2B y) (P2B x)). fold (Bcompare (P2B x) (P2B y)).
  rewrite (Bcompare_swap _ _ (P2B y) (P2B x)).
  destruct (Bcompare (P2B y) (P2B x)) as [[]|]; cbn; intuition discriminate.
Qed.

Section ApiSpec.
  Variable hkeys : Z -> Z -> Z -> Z -> list Z.
  Variables (outH outV : Z) (mx mn : pfloat).
  Hypothesis Hrange : (mn <? mx)%float = true.

  (* the pairs one ID contributes *)
  Definition id_pairs (i : eid) : list (Z * Z) :=
    flat_map (fun q => map (fun v => (q, v)) (vid_to_bit (ev i) (ef i) outV mx mn)) (hkeys (eh i) (ex i) (ey i) outH).
  Lemma id_pairs_In i q v : In (q, v) (id_pairs i) <-> In q (hkeys (eh i) (ex i) (ey i) outH) /\ In v (vid_to_bit (ev i) (ef i) outV mx mn).
  Proof.
    unfold id_pairs. rewrite in_flat_map. split.
    - intros (q' & Hq & Hm). apply in_map_iff in Hm. destruct Hm as (v' & [= <- <-] & Hv). tauto.
    - intros [Hq Hv]. exists q. split; [exact Hq|]. apply in_map_iff. now exists v.
  Qed.

  Lemma to_qv_loop_spec ids : forall seen gs, to_qv_loop hkeys ids outH outV mx mn seen = Ok gs ->
    (forall s, In s ids -> exists i, parse_eid s = Some i /\ ext_check_zoom (eh i) (ev i) = true) /\
    (forall p, In p (List.concat gs) <-> ~ PS.In p seen /\ exists s i, In s ids /\ parse_eid s = Some i /\ In p (id_pairs i)).
  Proof.
    induction ids as [|s r IH]; intros seen gs H; cbn [to_qv_loop] in H.
    - inversion H; subst. split; [intros s []|]. intros p. cbn. split; [tauto|]. intros (_ & s & i & [] & _).
    - destruct (parse_eid s) as [i|] eqn:P; [|discriminate].
      destruct (ext_check_zoom (eh i) (ev i)) eqn:C; cbn [negb] in H; [|discriminate].
      unfold vertical_part in H. rewrite (ltb_eqb_false mx mn Hrange), Hrange in H.
      fold (id_pairs i) in H.
      destruct (fresh_pairs (id_pairs i) seen) as [o seen'] eqn:F.
      destruct (to_qv_loop hkeys r outH outV mx mn seen') as [t|] eqn:L; [|discriminate].
      destruct (fresh_pairs_spec _ _ _ _ F) as [F1 F2]. destruct (IH _ _ L) as [I0 I1].
      assert (Hc : forall p, In p (List.concat gs) <-> In p o \/ In p (List.concat t)).
      { intros p. inversion H; subst. destruct o as [|a o']; [cbn; tauto|]. cbn [List.concat]. rewrite in_app_iff. tauto. }
      split.
      + intros s' [<-|Hs']; [exists i; auto | now apply I0].
      + intros p. rewrite Hc, F1, I1, F2. split.
        * intros [[Hp Hn]|[Hn (s' & i' & Hs' & P' & Hp)]].
          -- split; [exact Hn|]. exists s, i. split; [now left|auto].
          -- split; [tauto|]. exists s', i'. split; [now right|auto].
        * intros (Hn & s' & i' & [<-|Hs'] & P' & Hp).
          -- left. rewrite P in P'. inversion P'; subst. tauto.
          -- destruct (in_dec pair_eq_dec p (id_pairs i)) as [Hi|Hi]; [left; tauto|].
             right. split; [tauto|]. exists s', i'. auto.
  Qed.

  (* EXPORTED FORWARD CONVERSION, height-range mode: on success every ID was well-formed with zooms in range, and the pairs of all groups
     together are exactly the quadkeys of each ID paired with every index of that ID's run (a contiguous run inside 0..2^outV-1 by
     vid_to_bit_run) *)
  Theorem ext_to_qv_pairs ids gs : ext_to_qv hkeys ids outH outV mx mn = Ok gs ->
    quadkey_check_zoom outH outV = true /\
    (forall s, In s ids -> exists i, parse_eid s = Some i /\ ext_check_zoom (eh i) (ev i) = true) /\
    (forall q v, In (q, v) (List.concat gs) <->
       exists s i, In s ids /\ parse_eid s = Some i /\ In q (hkeys (eh i) (ex i) (ey i) outH) /\ In v (vid_to_bit (ev i) (ef i) outV mx mn)).
  Proof.
    unfold ext_to_qv. destruct (quadkey_check_zoom outH outV); cbn [negb]; [|discriminate]. intros H.
    destruct (to_qv_loop_spec _ _ _ H) as [H0 H1]. split; [reflexivity|]. split; [exact H0|].
    intros q v. rewrite H1. split.
    - intros (_ & s & i & Hs & P & Hp). exists s, i. rewrite id_pairs_In in Hp. tauto.
    - intros (s & i & Hs & P & Hq & Hv). split; [intros Hin; now apply PS.empty_spec in Hin|]. exists s, i. rewrite id_pairs_In. tauto.
  Qed.
End ApiSpec.

(* EXPORTED REVERSE CONVERSION, one element in height-range mode: every horizontal ID of the element combined with every "zoom/index" of the
   cell's run (the run of bit_to_vid_run) *)
Theorem from_qv_one_spec hids q outH outV r : (q_min q <? q_max q)%float = true ->
  from_qv_one hids q outH outV = Some (Ok r) ->
  quadkey_check_zoom (q_hz q) (q_vz q) = true /\ q_key q <= qkey_limit /\ q_idx q <= 2 ^ (q_vz q + 1) /\
  exists vs, bit_to_vid (q_vz q) (q_idx q) outV (q_max q) (q_min q) = Some vs /\
             forall id, In id r <-> exists hs v, In hs (hids (q_hz q) (q_key q) outH) /\ In v vs /\ id = (hs ++ "/" ++ v)%string.
Proof.
  intros Hlt. unfold from_qv_one. destruct (quadkey_check_zoom (q_hz q) (q_vz q)); cbn [negb]; [|discriminate].
  destruct (Z.ltb_spec qkey_limit (q_key q)); [discriminate|].
  rewrite (ltb_eqb_false _ _ Hlt), Hlt.
  destruct (Z.ltb_spec (2 ^ (q_vz q + 1)) (q_idx q)); [discriminate|].
  destruct (bit_to_vid (q_vz q) (q_idx q) outV (q_max q) (q_min q)) as [vs|]; [|discriminate].
  intros [= <-]. split; [reflexivity|]. split; [lia|]. split; [lia|]. exists vs. split; [reflexivity|].
  intros id. rewrite in_flat_map. split.
  - intros (hs & Hh & Hm). apply in_map_iff in Hm. destruct Hm as (v & <- & Hv). now exists hs, v.
  - intros (hs & v & Hh & Hv & ->). exists hs. split; [exact Hh|]. apply in_map_iff. now exists v.
Qed.

Theorem reversed_heights_forward hkeys s r outH outV (mx mn : pfloat) :
  (mx <? mn)%float = true -> ext_to_qv hkeys (s :: r) outH outV mx mn = Err /\ sid_to_qv hkeys (s :: r) outH outV mx mn = Err.
Proof. intros. split; [now apply ext_to_qv_reversed_heights | now apply sid_to_qv_reversed_heights]. Qed.

(* ---- witnesses ---- *)
(* range [-1, 1+2^-52], voxel 20/0 (altitudes [0, 32)), zoom 1: max-min rounds to 2, the float border is 0 and the bottom altitude 0 goes to cell 1;
   the exact border is 2^-53 > 0 and the bottom altitude belongs to cell 0 *)
Lemma float_differs_witness :
  exists v f oz (mx mn : pfloat) dmn dmx,
    dyadic mn = Some dmn /\ dyadic mx = Some dmx /\ range_ok dmn dmx = true /\ (0 <= v <= 35 /\ - 2 ^ v <= f < 2 ^ v) /\
    vid_to_bit v f oz mx mn = [1] /\ fwd_ref v f oz dmn dmx = (0, 1) /\ band_fwd v f oz dmn dmx 1 1 = true.
Proof.
  exists 20, 0, 1, 0x1.0000000000001p+0%float, (-1)%float, (-4503599627370496, -52), (4503599627370497, -52).
  split; [vm_compute; reflexivity|]. split; [vm_compute; reflexivity|]. split; [vm_compute; reflexivity|].
  split; [lia|]. split; [vm_compute; reflexivity|]. split; vm_compute; reflexivity.
Qed.

Lemma scale_dy (m e k : Z) : 0 <= k -> (IZR (m * 2 ^ k) * bpow radix2 e = IZR m * bpow radix2 (e + k))%R.
Proof. intros Hk. rewrite mult_IZR, IZR_pow2' by exact Hk. rewrite (Z.add_comm e k), bpow_plus. ring. Qed.

Lemma dyadic_hyps_example : fin 256%float /\ fin (-256)%float /\ val (-256)%float = (IZR (-1) * bpow radix2 8)%R /\
  val 256%float = (IZR 1 * bpow radix2 8)%R /\ Z.abs (-1) * 2 ^ 35 < 2 ^ 51 /\ Z.abs 1 * 2 ^ 35 < 2 ^ 51 /\ -1074 <= 8 - 35 /\ 8 + 54 <= 1024.
Proof.
  assert (D1 : dyadic 256%float = Some (1 * 2 ^ 52, -44)) by (vm_compute; reflexivity).
  assert (D2 : dyadic (-256)%float = Some ((-1) * 2 ^ 52, -44)) by (vm_compute; reflexivity).
  destruct (dyadic_val _ _ D1) as [V1 F1]. destruct (dyadic_val _ _ D2) as [V2 F2].
  unfold dval in V1, V2. cbn [fst snd] in V1, V2. rewrite scale_dy in V1, V2 by lia.
  repeat split; try assumption; try lia.
Qed.

(* a float given by its dyadic pair is in the domain of the vertical-index theorem *)
Lemma alt_ok_dyadic (x : pfloat) (m e oz : Z) : dyadic x = Some (m, e) -> m <> 0 -> Z.abs m < 2 ^ 53 -> -900 <= e -> e + 53 + (oz - 25) <= 52 ->
  alt_ok x oz.
Proof.
  intros D Hm Hm53 He Hb. destruct (dyadic_val _ _ D) as [V F]. unfold dval in V. cbn [fst snd] in V. unfold alt_ok.
  split; [exact F|]. rewrite V. split.
  - right. rewrite Rabs_mult, (Rabs_pos_eq (bpow radix2 e)) by apply bpow_ge_0.
    apply Rle_trans with (1 * bpow radix2 e)%R.
    + rewrite Rmult_1_l. apply bpow_le. exact He.
    + apply Rmult_le_compat_r; [apply bpow_ge_0|]. rewrite <- abs_IZR. apply IZR_le. lia.
  - rewrite Rmult_assoc, <- bpow_plus. apply abs_int_lt; [exact Hm53 | lia].
Qed.
Lemma fin_dyadic (x : pfloat) d : dyadic x = Some d -> fin x.
Proof. intros D. now destruct (dyadic_val _ _ D). Qed.

Lemma reverse_hyps_example :
  let h := cell_height 8 1000 0 in
  fin 1000%float /\ fin 0%float /\ (val 0%float <= val 1000%float)%R /\ fin (1000 - 0)%float /\ fin h /\ fin (of_Z 85 * h)%float /\
  fin (of_Z 86 * h)%float /\ alt_ok (cell_alt 85 h 0) 26 /\ alt_ok (cell_alt 86 h 0) 26.
Proof.
  intros h.
  assert (D0 : dyadic 0%float = Some (0, 0)) by (vm_compute; reflexivity).
  assert (D1 : dyadic 1000%float = Some (125 * 2 ^ 46, -43)) by (vm_compute; reflexivity).
  destruct (dyadic_val _ _ D0) as [V0 F0]. destruct (dyadic_val _ _ D1) as [V1 F1].
  split; [exact F1|]. split; [exact F0|]. split.
  { rewrite V0, V1. unfold dval. cbn [fst snd]. rewrite Rmult_0_l. apply Rmult_le_pos; [apply IZR_le; lia | apply bpow_ge_0]. }
  split; [apply (fin_dyadic _ (8796093022208000, -43)); vm_compute; reflexivity|].
  split; [apply (fin_dyadic _ (8796093022208000, -51)); vm_compute; reflexivity|].
  split; [apply (fin_dyadic _ (5841155522560000, -44)); vm_compute; reflexivity|].
  split; [apply (fin_dyadic _ (5909874999296000, -44)); vm_compute; reflexivity|].
  split.
  - apply (alt_ok_dyadic _ 5841155522560000 (-44)); [vm_compute; reflexivity | lia | lia | lia | lia].
  - apply (alt_ok_dyadic _ 5909874999296000 (-44)); [vm_compute; reflexivity | lia | lia | lia | lia].
Qed.

(* ConvertQuadkeysAndVerticalIDsToSpatialIDs: reversed heights are an error there too; on success it is the extended conversion at
   (z, z) with every ID rewritten from z/x/y/z/f to z/f/x/y *)
Theorem qv_to_sid_reversed_heights hids l z :
  (exists q, In q l /\ (q_max q <? q_min q)%float = true) ->
  qv_to_sid hids l z = Some Err \/ qv_to_sid hids l z = None.
Proof.
  intros H. unfold qv_to_sid. destruct (qv_to_ext_reversed_heights hids l z z H) as [E|E]; rewrite E; auto.
Qed.
Theorem qv_to_sid_spec hids l z r : qv_to_sid hids l z = Some (Ok r) ->
  exists a, qv_to_ext hids l z z = Some (Ok a) /\ map_opt eid_to_sid_str a = Some r.
Proof.
  unfold qv_to_sid. destruct (qv_to_ext hids l z z) as [[a|]|]; try discriminate.
  destruct (map_opt eid_to_sid_str a) as [t|] eqn:E; [|discriminate]. intros [= <-]. now exists a.
Qed.

(* ------------------------------------------------------------------------------------------------------------------ *)
(* review round: list-level specification of the reverse conversion, the spatial forward corollary, the empty-list exception, the reverse witness *)

(* the reverse conversion of a list is the union of the conversions of its elements (before the final de-duplication, which keeps the set) *)
Theorem from_qv_loop_spec hids l outH outV r : from_qv_loop hids l outH outV = Some (Ok r) ->
  (forall q, In q l -> exists a, from_qv_one hids q outH outV = Some (Ok a)) /\
  (forall id, In id r <-> exists q a, In q l /\ from_qv_one hids q outH outV = Some (Ok a) /\ In id a).
Proof.
  revert r. induction l as [|q t IH]; intros r H; cbn [from_qv_loop] in H.
  - inversion H; subst. split; [intros q []|]. intros id. split; [intros []|intros (q & a & [] & _)].
  - destruct (from_qv_one hids q outH outV) as [[a|]|] eqn:E; try discriminate.
    destruct (from_qv_loop hids t outH outV) as [[r'|]|] eqn:L; try discriminate.
    inversion H; subst. destruct (IH r' eq_refl) as [I0 I1]. split.
    + intros q' [<-|Hq]; [now exists a | now apply I0].
    + intros id. rewrite in_app_iff, I1. split.
      * intros [Ha|(q' & a' & Hq & E' & Hi)]; [exists q, a; split; [now left|auto] | exists q', a'; split; [now right|auto]].
      * intros (q' & a' & [<-|Hq] & E' & Hi); [left; rewrite E in E'; inversion E'; subst; exact Hi | right; now exists q', a'].
Qed.
Theorem qv_to_ext_spec hids l outH outV r : qv_to_ext hids l outH outV = Some (Ok r) ->
  ext_check_zoom outH outV = true /\
  (forall id, In id r <-> exists q a, In q l /\ from_qv_one hids q outH outV = Some (Ok a) /\ In id a).
Proof.
  unfold qv_to_ext. destruct (ext_check_zoom outH outV); cbn [negb]; [|discriminate]. intros H. split; [reflexivity|].
  now apply from_qv_loop_spec.
Qed.

(* reversed heights in the reverse direction, sharp form: when every element is inside the model's domain (no non-finite index), the result IS Err *)
Theorem qv_to_ext_reversed_heights_err hids l outH outV :
  (forall q, In q l -> from_qv_one hids q outH outV <> None) ->
  (exists q, In q l /\ (q_max q <? q_min q)%float = true) ->
  qv_to_ext hids l outH outV = Some Err.
Proof.
  intros Hdom (q & Hin & Hlt). unfold qv_to_ext. destruct (negb (ext_check_zoom outH outV)); [reflexivity|].
  induction l as [|a r IH]; [destruct Hin|]. cbn [from_qv_loop].
  destruct Hin as [->|Hin].
  - now rewrite from_qv_one_reversed.
  - destruct (from_qv_one hids a outH outV) as [[x|]|] eqn:E; [|reflexivity|exfalso; apply (Hdom a); [now left|exact E]].
    rewrite IH; [reflexivity | intros q' Hq'; apply Hdom; now right | exact Hin].
Qed.

(* the spatial-ID forward conversion is the extended one after the notation change, so C17's pairs theorem applies to it as it stands *)
Theorem sid_to_qv_spec hkeys ids outH outV (mx mn : pfloat) gs : sid_to_qv hkeys ids outH outV mx mn = Ok gs ->
  exists e, map_opt sid_to_eid_str ids = Some e /\ ext_to_qv hkeys e outH outV mx mn = Ok gs.
Proof. unfold sid_to_qv. destruct (map_opt sid_to_eid_str ids) as [e|]; [|discriminate]. intros H. now exists e. Qed.

(* THE EMPTY LIST: nothing is interpreted, so no error is raised whatever the heights are — also when maxHeight < minHeight *)
Theorem ext_to_qv_empty hkeys outH outV (mx mn : pfloat) : quadkey_check_zoom outH outV = true ->
  ext_to_qv hkeys [] outH outV mx mn = Ok [] /\ sid_to_qv hkeys [] outH outV mx mn = Ok [].
Proof. intros H. unfold sid_to_qv, ext_to_qv. cbn [map_opt]. rewrite H. split; reflexivity. Qed.
Theorem qv_to_ext_empty hids outH outV : ext_check_zoom outH outV = true -> qv_to_ext hids [] outH outV = Some (Ok []).
Proof. intros H. unfold qv_to_ext. rewrite H. reflexivity. Qed.
(* a concrete instance: reversed heights, empty list, Ok [] (a model fact, not a violation: no voxel is interpreted) *)
Lemma reversed_heights_empty_list_witness :
  exists (mx mn : pfloat), (mx <? mn)%float = true /\ forall hkeys, ext_to_qv hkeys [] 20 1 mx mn = Ok [].
Proof. exists (-1)%float, 1%float. split; [vm_compute; reflexivity|]. intros hk. reflexivity. Qed.

(* REVERSE WITNESS: range [0.1, 0.3], cell 14 of 2^5, output zoom 35: the exact lower bound 0.1 + 14*0.2/32 = 0.1875 - 2^-56.4.. lies below
   the grid line 0.1875 = 192 * 2^-10, the computed one on it: the code emits 192..198, the exact run is 191..198 (the cell's lowest sliver is
   not covered); inside the reverse band *)
Lemma reverse_differs_witness :
  exists vz k oz (mx mn : pfloat) dmn dmx,
    dyadic mn = Some dmn /\ dyadic mx = Some dmx /\ range_ok_rev dmn dmx vz k = true /\
    bit_to_vid_idx vz k oz mx mn = Some (198, 192) /\ rev_ref vz k oz dmn dmx = (191, 198) /\ band_rev vz k oz dmn dmx 192 198 = true.
Proof.
  exists 5, 14, 35, 0x1.3333333333333p-2%float, 0x1.999999999999ap-4%float, (7205759403792794, -56), (5404319552844595, -54).
  repeat split; vm_compute; reflexivity.
Qed.

Theorem check_rev_complete vz k oz dmn dmx obs :
  (let '(lo, hi) := rev_ref vz k oz dmn dmx in lo <= hi /\ forall y, In y obs <-> lo <= y <= hi) -> check_rev vz k oz dmn dmx obs = true.
Proof. unfold check_rev. destruct (rev_ref vz k oz dmn dmx) as [lo hi]. intros [H1 H2]. now apply check_run_complete. Qed.
