(* GenEqFPoint.v — point -> voxel index on binary64 (shape/point.go, common/util.go) and object.Point's setters
   (common/object/coordinate.go): the definitions regenerated from the Go source = the models of F64.v / PointF.v. *)
From Coq Require Import ZArith Bool Floats.
From SIDGen Require Import GeneratedF.
From SID Require Import F64 PointF GenFTac.
Open Scope float_scope.

(* common.DegreeToRadian: the constant expression math.Pi / 180 is rounded once *)
Lemma gen_DegreeToRadian_eq : forall d, GeneratedF.DegreeToRadian d = d * c_deg2rad.
Proof. gen_feq ltac:(unfold c_deg2rad). Qed.

(* getHorizontalTileIdOnPoint: the local lonIndex just before it is formatted (int64(lonIndex)) = PointF.x_f;
   the latitude argument does not enter *)
Lemma gen_getHorizontalTileIdOnPoint_lonIndex_eq : forall lon lat h,
  Ztrunc_f (GeneratedF.getHorizontalTileIdOnPoint_lonIndex lon lat h) = x_f lon h.
Proof. gen_feq ltac:(unfold x_f). Qed.

(* the local latIndex = PointF.y_f on the record's Tan, Cos, Log; the longitude argument does not enter *)
Lemma gen_getHorizontalTileIdOnPoint_latIndex_eq : forall M lon lat h,
  Ztrunc_f (GeneratedF.getHorizontalTileIdOnPoint_latIndex M lon lat h) = y_f (m_tan M) (m_cos M) (m_log M) lat h.
Proof. gen_feq ltac:(unfold y_f, c_deg2rad, c_pi). Qed.

(* getVerticalTileIdOnAltitude: the local vIndex = PointF.f_f *)
Lemma gen_getVerticalTileIdOnAltitude_vIndex_eq : forall alt v,
  Ztrunc_f (GeneratedF.getVerticalTileIdOnAltitude_vIndex alt v) = f_f alt v.
Proof. gen_feq ltac:(unfold f_f). Qed.

(* Point.SetLon / Point.SetLat: receiver fields after the call, then the error flag *)
Lemma gen_Point_SetLon_eq : forall plon plat palt lon,
  GeneratedF.Point_SetLon plon plat palt lon =
  if 180 <? abs lon then (plon, plat, palt, true) else (lon, plat, palt, false).
Proof. gen_feq ltac:(idtac). Qed.

Lemma gen_Point_SetLat_eq : forall plon plat palt lat,
  GeneratedF.Point_SetLat plon plat palt lat =
  if c_latmax <? abs (setlat_trunc lat) then (plon, plat, palt, true) else (plon, setlat_trunc lat, palt, false).
Proof. gen_feq ltac:(unfold setlat_trunc, c_latmax, c_e10). Qed.

(* F64.new_point is NewPoint's sequence (SetLon, SetLat, SetAlt on a zero Point, stopping at the first error) over the generated setters.
   The sequence itself is written here by hand: NewPoint is not translated. *)
Lemma new_point_over_generated_setters : forall lon lat alt,
  new_point lon lat alt =
  let '(a, b, c, e1) := GeneratedF.Point_SetLon 0 0 0 lon in
  if e1 then ({| plon := a; plat := b; palt := c |}, true)
  else let '(a, b, c, e2) := GeneratedF.Point_SetLat a b c lat in
       if e2 then ({| plon := a; plat := b; palt := c |}, true)
       else ({| plon := a; plat := b; palt := alt |}, false).
Proof.
  intros. rewrite gen_Point_SetLon_eq. unfold new_point, zero_point.
  destruct (180 <? abs lon); [reflexivity|].
  rewrite gen_Point_SetLat_eq. destruct (c_latmax <? abs (setlat_trunc lat)); reflexivity.
Qed.
