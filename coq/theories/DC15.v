(* DC15.v — dispatch entries of property C15 (invalid input is rejected): (arguments, observed output) ↦ verdict.
   One entry per catalogued function (meta/C15.json). For every entry
     prop = if invalid_<fn> args then the observed value is an error (VE) carrying the documented payload
            (empty list where the documentation promises it for invalid zooms, false for the overlap checks; "" / empty IDs for the
            shift helpers, which have no error result), never a panic or a time-out; else true;
     corr = the observed error flag is the error flag of the OWNER's model, run on the arguments (points / line prefix / vertices / notation
            changes / change / merge / nN / overlap / altitude keys / fit skeleton), or of the closed form proved equal to it
            (Api.err_e2q, err_e2qa, err_q2e), or of the validation prefix of Api.v where no owner's model is compiled (tiles, EPSG,
            tile and point setters);
            and, when an error is observed, its KIND (the code of a spatialIdError: InputValueError / OptionFailedError /
            ValueConvertError / OtherError, or `plain` for any other error value) is the kind Api.kind_<fn> predicts from the order
            of the checks. The property only asks for a non-nil error, so a wrong kind is a correspondence failure, never a
            property failure;
     class = a finding class, only when prop fails in exactly the way the class describes (see the end of this header).
   Observed values: list results are observed as their length (VZ n), (int64, int64) results as VL [a; b], booleans as VB,
   objects as the list of their fields; an error is VE (VL [payload; VS kind]) (split_err below hands VE payload to the entries). A call whose output would be huge is not made by the harness
   (marker string): such a case is refused here (bad_case), so a shrink candidate of that kind is discarded.
   Finding classes (decidable, narrow; genuine defects of the current tree, each re-confirmed with a concrete Go call):
     setlat_inexact                      the stored latitude is outside [|lat| - 1e-10, |lat|] although the bit-exact model agrees (D20)
   Repaired meanwhile (the former witnesses are regression cases of the generator): GetVoxelIDfromSpatialID on fewer than five fields
   (now the empty list), the tile conversions with an empty request and a bad output zoom (now an error), an unknown EPSG code with
   an empty list (now an error), the altitude-key conversions with a zoom outside 0..35 (now an error, MinInt64 no longer panics). *)
From Coq Require Import ZArith String List Bool Floats.
From SID Require Import Base Str Ids Wire F64 ExactRef ZoomCore AltKeyCore ChangeZoom Merge Shift Neighbour Notation PointF VertexF Overlap QuadkeyConv
  Project Corridor Api.
Import ListNotations.
Open Scope string_scope.
Open Scope Z_scope.

(* ---------- generic judgement ---------- *)
Definition skip_marker : string := "skipped-too-large".
Definition is_skip (obs : val) : bool := match obs with VS s => String.eqb s skip_marker | _ => false end.
Definition obs_dead (obs : val) : bool := match obs with VPanic | VTimeout => true | _ => false end.
Definition empty_payload (v : val) : bool :=
  match v with VZ 0 => true | VL [] => true | VNil => true | _ => false end.
Definition payload_ok (p : payload) (obs : val) : bool :=
  match obs with
  | VE v => match p with
            | P_any => true
            | P_empty => empty_payload v
            | P_false => match v with VB false => true | _ => false end
            | P_estr => false
            end
  | _ => false
  end.
Definition mval (err : bool) : val := if err then VE VNil else VNil.
(* invalid: the documentation excludes the input; p: documented payload; err: the model's error flag *)
Definition judge (invalid : bool) (p : payload) (err : bool) (obs : val) : verdict :=
  if is_skip obs then bad_case
  else if obs_dead obs then mkv false false "-" (mval err)
  else mkv (Bool.eqb (is_err obs) err) (if invalid then payload_ok p obs else true) "-" (mval err).
(* the same with a finding class: the input is invalid, the model itself does not refuse it, and the code answers like the model *)
Definition judge_class (invalid : bool) (p : payload) (err : bool) (cls : string) (obs : val) : verdict :=
  let v := judge invalid p err obs in
  if invalid && negb err && v_corr v && negb (v_prop v) then mkv true false cls (v_model v) else v.
Definition zoom_payload (bad : bool) : payload := if bad then P_empty else P_any.

(* ---------- decoding ---------- *)
Definition as_point (v : val) : option point :=
  match v with
  | VL [VF a; VF b; VF c] => Some {| plon := a; plat := b; palt := c |}
  | _ => None
  end.
Definition of_point (p : point) : val := VL [VF (plon p); VF (plat p); VF (palt p)].
(* points of a list where VNil marks a nil pointer: (has_nil, the non-nil points); None: an element is neither nil nor a point *)
Fixpoint as_points (l : list val) : option (bool * list point) :=
  match l with
  | [] => Some (false, [])
  | VNil :: r => match as_points r with Some (_, t) => Some (true, t) | None => None end
  | v :: r => match as_point v, as_points r with Some p, Some (b, t) => Some (b, p :: t) | _, _ => None end
  end.
(* the point-lookup, line and corridor entries speak of points NewPoint accepts with an altitude the index arithmetic can hold
   (|alt| <= 2^40 m; beyond it, +-Inf included, int64(float) is unspecified in Go and the model has no answer): others are bad_case.
   NewPoint itself is judged on every float (entry NewPoint). *)
Definition point_in_domain (p : point) : bool :=
  (abs (plon p) <=? 180)%float && (abs (plat p) <=? c_latmax)%float && (abs (palt p) <=? pow2f 40)%float.
Definition ofun (oracle : oracle_t) (name : string) (x : float) : float :=
  match oracle name [VF x] with VF r => r | _ => nan end.
Definition as_tile (v : val) : option tile :=
  match v with VL [VZ h; VZ x; VZ y; VZ vz; VZ z] => Some (mkt h x y vz z) | _ => None end.
Definition of_tile (t : tile) : val := VL [VZ (th t); VZ (tx t); VZ (ty t); VZ (tv t); VZ (tz t)].
(* object.QuadkeyAndVerticalID as [quadkeyZoom; quadkey; vZoom; vIndex; maxHeight; minHeight]: the item, and whether it is in bit form
   (maxHeight > minHeight, property C17); None: a NaN height *)
Definition as_item (v : val) : option (qitem * bool) :=
  match v with
  | VL [VZ a; VZ k; VZ b; VZ i; VF mx; VF mn] =>
      if (mx =? mn)%float then Some (mkq a k b i true, false)
      else if (mx <? mn)%float then Some (mkq a k b i false, false)
      else if (mn <? mx)%float then Some (mkq a k b i true, true) else None
  | _ => None
  end.
(* Some true = index form, Some false = inverted heights; bit form is told apart by height_bits *)
Definition height_index (mx mn : float) : option bool :=
  if (mx =? mn)%float then Some true else if (mx <? mn)%float then Some false else if (mn <? mx)%float then Some true else None.
Definition height_bits (mx mn : float) : bool := (mn <? mx)%float.
Definition eid_fields (i : eid) : val := VL [VZ (eh i); VZ (ex i); VZ (ey i); VZ (ev i); VZ (ef i)].

(* ---------- common/object ---------- *)
(* NewPoint [lon; lat; alt] -> [lon; lat; alt] of the returned object (VE-wrapped on an error) *)
Definition lat_cut_ok (lat stored : float) : bool :=
  exact_cut_ok lat stored && ((0 <=? lat)%float && (0 <=? stored)%float || (lat <=? 0)%float && (stored <=? 0)%float).
Definition point_bits (p : point) (v : val) : bool :=
  match v with
  | VL [VF a; VF b; VF c] => feqb_bits a (plon p) && feqb_bits b (plat p) && feqb_bits c (palt p)
  | _ => false
  end.
Definition d_new_point (args : list val) (obs : val) : verdict :=
  match args with
  | [VF lon; VF lat; VF alt] =>
      if obs_dead obs then mkv false false "-" VNil else
      let '(p, e) := new_point lon lat alt in
      let m := if e then VE (of_point p) else of_point p in
      let corr := Bool.eqb (is_err obs) e && point_bits p (err_payload obs) in
      let prop :=
        if invalid_new_point lon lat then is_err obs
        else match obs with
             | VL [VF a; VF b; VF c] => feqb_bits a lon && feqb_bits c alt && lat_cut_ok lat b
             | _ => false
             end in
      mkv corr prop (if corr && negb prop then "setlat_inexact" else "-") m
  | _ => bad_case
  end.
(* Point.SetLon / Point.SetLat [stored point; value] -> the object's three fields after the call *)
Definition d_set_lon (args : list val) (obs : val) : verdict :=
  match args with
  | [pv; VF lon] =>
      match as_point pv with
      | Some p0 =>
          if obs_dead obs then mkv false false "-" VNil else
          let '(p, e) := set_lon p0 lon in
          let corr := Bool.eqb (is_err obs) e && point_bits p (err_payload obs) in
          let prop := if invalid_set_lon lon then is_err obs
                      else match obs with VL [VF a; VF b; VF c] => feqb_bits a lon && feqb_bits b (plat p0) && feqb_bits c (palt p0) | _ => false end in
          mkv corr prop "-" (if e then VE (of_point p) else of_point p)
      | None => bad_case
      end
  | _ => bad_case
  end.
Definition d_set_lat (args : list val) (obs : val) : verdict :=
  match args with
  | [pv; VF lat] =>
      match as_point pv with
      | Some p0 =>
          if obs_dead obs then mkv false false "-" VNil else
          let '(p, e) := set_lat p0 lat in
          let corr := Bool.eqb (is_err obs) e && point_bits p (err_payload obs) in
          let prop := if invalid_set_lat lat then is_err obs
                      else match obs with VL [VF a; VF b; VF c] => feqb_bits a (plon p0) && lat_cut_ok lat b && feqb_bits c (palt p0) | _ => false end in
          mkv corr prop (if corr && negb prop then "setlat_inexact" else "-") (if e then VE (of_point p) else of_point p)
      | None => bad_case
      end
  | _ => bad_case
  end.
(* NewExtendedSpatialID [s] -> FieldParams() of the object; ExtendedSpatialID.ResetExtendedSpatialID [old; s] on an object holding old *)
Definition fields_match (i : eid) (v : val) : bool :=
  match as_LZ v with Some l => list_eqb Z.eqb l [eh i; ex i; ey i; ev i; ef i] | None => false end.
Definition d_new_eid (args : list val) (obs : val) : verdict :=
  match args with
  | [VS s] =>
      let v := judge (invalid_new_eid s) P_any (negb (is_ok (new_eid s))) obs in
      let same := match new_eid s, obs with Ok i, VE _ => false | Ok i, o => fields_match i o | Err, _ => true end in
      mkv (v_corr v && same) (v_prop v) (v_class v) (match new_eid s with Ok i => eid_fields i | Err => VE VNil end)
  | _ => bad_case
  end.
Definition d_reset_eid (args : list val) (obs : val) : verdict :=
  match args with
  | [VS old; VS s] =>
      match parse_eid old with
      | Some o =>
          let '(i, e) := reset_eid o s in
          let v := judge (invalid_new_eid s) P_any e obs in
          mkv (v_corr v && fields_match i (err_payload obs)) (v_prop v) (v_class v) (if e then VE (eid_fields i) else eid_fields i)
      | None => bad_case
      end
  | _ => bad_case
  end.
(* NewTileXYZ [h; x; y; v; z] -> the five fields (VNil: nil pointer); TileXYZ.SetHZoom / SetVZoom [tile; zoom] -> fields after the call *)
Definition tile_match (t : tile) (v : val) : bool := match as_tile v with Some u =>
  (th t =? th u) && (tx t =? tx u) && (ty t =? ty u) && (tv t =? tv u) && (tz t =? tz u) | None => false end.
Definition d_new_tile (args : list val) (obs : val) : verdict :=
  match args with
  | [VZ h; VZ x; VZ y; VZ vz; VZ z] =>
      let m := new_tile h x y vz z in
      let v := judge (invalid_new_tile h vz) P_any (negb (is_ok m)) obs in
      let same := match m, obs with Ok t, VE _ => false | Ok t, o => tile_match t o | Err, _ => true end in
      mkv (v_corr v && same) (v_prop v) (v_class v) (match m with Ok t => of_tile t | Err => VE VNil end)
  | _ => bad_case
  end.
Definition d_tile_set (hz : bool) (args : list val) (obs : val) : verdict :=
  match args with
  | [tv0; VZ z] =>
      match as_tile tv0 with
      | Some t0 =>
          let '(t, e) := if hz then tile_set_hzoom t0 z else tile_set_vzoom t0 z in
          let v := judge (zoom_bad z) P_any e obs in
          mkv (v_corr v && tile_match t (err_payload obs)) (v_prop v) (v_class v) (if e then VE (of_tile t) else of_tile t)
      | None => bad_case
      end
  | _ => bad_case
  end.

(* ---------- shape ---------- *)
Definition points_model (oracle : oracle_t) (sid : bool) (n : bool) (ps : list point) (h v : Z) : result (list string) :=
  let tanf := ofun oracle "tan" in let cosf := ofun oracle "cos" in let logf := ofun oracle "log" in
  if sid then points_sid_api tanf cosf logf n ps h else points_api tanf cosf logf n ps h v.
Definition d_points (oracle : oracle_t) (sid : bool) (args : list val) (obs : val) : verdict :=
  match args with
  | [VL pl; VZ h; VZ v] =>
      let v := if sid then h else v in
      match as_points pl with
      | Some (n, ps) =>
          if negb (forallb point_in_domain ps) then bad_case
          else judge (invalid_points n h v) (zoom_payload (zoom_bad h || zoom_bad v)) (negb (is_ok (points_model oracle sid n ps h v))) obs
      | None => bad_case
      end
  | _ => bad_case
  end.
Definition d_points_sid (oracle : oracle_t) (args : list val) (obs : val) : verdict :=
  match args with [pl; VZ z] => d_points oracle true [pl; VZ z; VZ z] obs | _ => bad_case end.
(* the line (C06: Line.line_api) begins with the nil check and GetExtendedSpatialIdsOnPoints([start, end]); after that prefix it has
   no error path (Line.line_api_run), so its error flag is the flag of that point lookup *)
Definition d_line (oracle : oracle_t) (args : list val) (obs : val) : verdict :=
  match args with
  | [s; e; VZ h; VZ v] =>
      match as_points [s; e] with
      | Some (n, ps) =>
          if negb (forallb point_in_domain ps) then bad_case
          else judge (invalid_points n h v) (zoom_payload (zoom_bad h || zoom_bad v)) (negb (is_ok (points_model oracle false n ps h v))) obs
      | None => bad_case
      end
  | _ => bad_case
  end.
Definition d_line_sid (oracle : oracle_t) (args : list val) (obs : val) : verdict :=
  match args with [s; e; VZ z] => d_line oracle [s; e; VZ z; VZ z] obs | _ => bad_case end.
(* the error flag of the vertex functions does not depend on the transcendental oracles (Api.point_on_eid_flag holds for every
   oracle): the owner's model is run with the identity in their place *)
Definition d_point_on (sid : bool) (args : list val) (obs : val) : verdict :=
  match args with
  | [VS id; VZ opt] =>
      let idf := fun x : float => x in
      if sid then judge (invalid_point_on_sid id opt) P_any (negb (is_ok (point_on_sid_api idf idf id opt))) obs
      else judge (invalid_point_on_eid id opt) P_any (negb (is_ok (point_on_eid_api idf idf id opt))) obs
  | _ => bad_case
  end.
Definition d_s2e (args : list val) (obs : val) : verdict :=
  match args with
  | [l] => match as_LS l with Some sl => judge (invalid_s2e sl) P_any (negb (is_ok (sids_to_eids sl))) obs | None => bad_case end
  | _ => bad_case
  end.
Definition d_e2s (args : list val) (obs : val) : verdict :=
  match args with
  | [l] => match as_LS l with Some sl => judge (invalid_e2s sl) P_any (negb (is_ok (eids_to_sids sl))) obs | None => bad_case end
  | _ => bad_case
  end.
(* projections: only an EPSG code the library does not know is judged here (any list, the empty one included); everything else
   belongs to C18 *)
Definition d_project (args : list val) (obs : val) : verdict :=
  match args with
  | [VL pl; VZ crs] =>
      if invalid_project crs then judge true P_any true obs
      else if obs_dead obs then mkv false false "-" VNil else mkv true true "-" VNil
  | _ => bad_case
  end.

(* ---------- integrate ---------- *)
Definition d_change_ext (merge : bool) (args : list val) (obs : val) : verdict :=
  match args with
  | [l; VZ H; VZ V] =>
      match as_LS l with
      | Some ids =>
          let err := if merge then negb (is_ok (merge_ext_api ids H V)) else negb (is_ok (change_ext_api ids H V)) in
          judge (invalid_change_ext ids H V) (zoom_payload (zoom_bad H || zoom_bad V)) err obs
      | None => bad_case
      end
  | _ => bad_case
  end.
Definition d_change_sid (merge : bool) (args : list val) (obs : val) : verdict :=
  match args with
  | [l; VZ z] =>
      match as_LS l with
      | Some ids =>
          let err := if merge then negb (is_ok (merge_sid_api ids z)) else negb (is_ok (change_sid_api ids z)) in
          judge (invalid_change_sid ids z) (zoom_payload (zoom_bad z)) err obs
      | None => bad_case
      end
  | _ => bad_case
  end.

(* ---------- operated ---------- *)
Definition d_shift (args : list val) (obs : val) : verdict :=
  match args, obs with
  | [VS id; VZ dx; VZ dy; VZ dv], VS o =>
      let inv := invalid_shift id in
      let empty := String.eqb o "" in
      mkv (Bool.eqb empty inv) (if inv then empty else true) "-" (VS (if inv then "" else "non-empty"))
  | [VS _; VZ _; VZ _; VZ _], _ => if obs_dead obs then mkv false false "-" VNil else bad_case
  | _, _ => bad_case
  end.
Definition all_empty (l : list string) : bool := forallb (fun s => String.eqb s "") l.
Definition none_empty (l : list string) : bool := forallb (fun s => negb (String.eqb s "")) l.
Definition d_neigh (k : nat) (args : list val) (obs : val) : verdict :=
  match args with
  | [VS id] =>
      if obs_dead obs then mkv false false "-" VNil else
      match as_LS obs with
      | Some o =>
          let inv := invalid_shift id in
          let shape := Nat.eqb (List.length o) k in
          mkv (shape && (if inv then all_empty o else none_empty o)) (if inv then shape && all_empty o else true) "-"
              (of_LS (if inv then repeat "" k else []))
      | None => bad_case
      end
  | _ => bad_case
  end.
(* layer counts: negative ones are the property's subject; non-negative ones only within the capacity bound C08 states,
   (2H+1)^2 (2V+1) <= 2^16 (the Go function allocates that many slots before looking at anything and panics once the product
   wraps, e.g. ([], 1518500250, 0); the unbounded model has no such limit): beyond it bad_case *)
Definition capacity_ok (H V : Z) : bool := (2 * H + 1) * (2 * H + 1) * (2 * V + 1) <=? 2 ^ 16.
Definition d_nN (args : list val) (obs : val) : verdict :=
  match args with
  | [l; VZ H; VZ V] =>
      match as_LS l with
      | Some ids =>
          if (0 <=? H) && (0 <=? V) && negb (capacity_ok H V) then bad_case
          else judge (invalid_nN ids H V) P_any (negb (is_ok (nN_api ids H V))) obs
      | None => bad_case
      end
  | _ => bad_case
  end.

(* ---------- detector ----------
   the array forms stop at the first overlapping pair (and the extended form looks at nothing when a list is empty): an error is
   demanded only where the malformed member must have been interpreted (Api.invalid_ext_array / invalid_sp_array); elsewhere either
   outcome satisfies the property, and the faithful model is compared all the same *)
Definition same_bool (m : result bool) (obs : val) : bool :=
  match m, obs with Ok b, VB o => Bool.eqb b o | Ok _, _ => false | Err, _ => true end.
Definition d_overlap (m : result bool) (inv : bool) (cls : string) (obs : val) : verdict :=
  let v := judge_class inv P_false (negb (is_ok m)) cls obs in
  mkv (v_corr v && same_bool m obs) (v_prop v) (v_class v) (match m with Ok b => VB b | Err => VE (VB false) end).
Definition d_ext_overlap (args : list val) (obs : val) : verdict :=
  match args with
  | [VS a; VS b] => d_overlap (ext_overlap a b) (invalid_ext_overlap a b) "-" obs
  | _ => bad_case
  end.
Definition d_sp_overlap (args : list val) (obs : val) : verdict :=
  match args with
  | [VS a; VS b] => d_overlap (sp_overlap a b) (invalid_sp_overlap a b) "-" obs
  | _ => bad_case
  end.
Definition d_ext_array (args : list val) (obs : val) : verdict :=
  match args with
  | [x; y] => match as_LS x, as_LS y with
              | Some l1, Some l2 => d_overlap (ext_array l1 l2) (invalid_ext_array l1 l2) "-" obs
              | _, _ => bad_case
              end
  | _ => bad_case
  end.
Definition d_sp_array (args : list val) (obs : val) : verdict :=
  match args with
  | [x; y] => match as_LS x, as_LS y with
              | Some l1, Some l2 => d_overlap (sp_array l1 l2) (invalid_sp_array l1 l2) "-" obs
              | _, _ => bad_case
              end
  | _ => bad_case
  end.

(* ---------- transform ---------- *)
(* bit form (maxHeight > minHeight, C17's subject): judged here only when the call is invalid for a reason that does not depend on
   the heights (output zooms, a malformed member): then an error is due whatever the form; a valid bit-form call is bad_case *)
Definition d_e2q (sid : bool) (args : list val) (obs : val) : verdict :=
  match args with
  | [l; VZ oh; VZ ov; VF mx; VF mn] =>
      match as_LS l, height_index mx mn with
      | Some ids, Some idx =>
          let inv := if sid then invalid_s2q idx ids oh ov else invalid_e2q idx ids oh ov in
          if height_bits mx mn then (if inv then judge true (zoom_payload (negb (qcheck oh ov))) true obs else bad_case)
          else judge inv (zoom_payload (negb (qcheck oh ov))) (if sid then err_s2q idx ids oh ov else err_e2q idx ids oh ov) obs
      | _, _ => bad_case
      end
  | _ => bad_case
  end.
Definition d_e2qa (args : list val) (obs : val) : verdict :=
  match args with
  | [l; VZ oq; VZ oa; VZ E; VZ Ofs] =>
      match as_LS l with
      | Some ids => judge (invalid_e2qa ids oq oa) P_any (err_e2qa ids oq oa E Ofs) obs
      | None => bad_case
      end
  | _ => bad_case
  end.
Definition d_q2e (sid : bool) (args : list val) (obs : val) : verdict :=
  match args with
  | [VL l; VZ oh; VZ ov] =>
      let ov := if sid then oh else ov in
      match all_opt (map as_item l) with
      | Some its =>
          let items := map fst its in
          let inv := invalid_q2e items oh ov in
          let pl := zoom_payload (negb (echeck oh ov) || existsb item_zoom_bad items) in
          if existsb snd its then (if inv then judge true pl true obs else bad_case)
          else judge inv pl (err_q2e items oh ov) obs
      | None => bad_case
      end
  | _ => bad_case
  end.
Definition d_q2s (args : list val) (obs : val) : verdict :=
  match args with [l; VZ z] => d_q2e true [l; VZ z; VZ z] obs | _ => bad_case end.
Definition d_tiles (args : list val) (obs : val) : verdict :=
  match args with
  | [VL l; VZ E; VZ Ofs; VZ outV] =>
      match all_opt (map as_tile l) with
      | Some tiles =>
          if negb (forallb tile_ok tiles) then bad_case        (* such an object cannot exist *)
          else judge (invalid_tiles outV) P_any (err_tiles tiles E Ofs outV) obs
      | None => bad_case
      end
  | _ => bad_case
  end.
(* the altitude-key pair: fwd = ConvertZToMinMaxAltitudekey(f, z, out, E, O), else ConvertAltitudekeyToMinMaxZ(k, kz, out, E, O) *)
Definition d_altkey (fwd : bool) (args : list val) (obs : val) : verdict :=
  match args with
  | [VZ i; VZ z; VZ out; VZ E; VZ Ofs] =>
      (* Api.z2key_rejects / key2z_rejects: the model answers Err; it is not run on such zooms (the extracted key2z would first
         evaluate 1 << zoom on an unbounded integer) *)
      if invalid_altkey z out then judge true P_any true obs else
      let m := if fwd then z2key i z out E Ofs else key2z i z out E Ofs in
      let v := judge false P_any (negb (is_ok m)) obs in
      let same := match m, obs with Ok (a, b), VL [VZ c; VZ d] => (a =? c) && (b =? d) | Ok _, _ => false | Err, _ => true end in
      mkv (v_corr v && same) (v_prop v) (v_class v) (match m with Ok (a, b) => VL [VZ a; VZ b] | Err => VE VNil end)
  | _ => bad_case
  end.
(* the fit: Corridor.fit_struct is the part of the owner's model that does not depend on the measured distances
   (Some Err / Some (Ok (0,0)) / None = layer counts decided by the geometry, no error) *)
Definition d_fit (args : list val) (obs : val) : verdict :=
  match args with
  | [VS id; VF c] =>
      judge (invalid_fit id c) P_any (match fit_struct id c with Some Err => true | _ => false end) obs
  | _ => bad_case
  end.
(* the corridor: the line's prefix (above), then the fit on a voxel of the line (refused only for a negative radius: the line's voxels
   are printed valid IDs), then nN with the layer counts of the fit (never negative) *)
Definition d_corridor (oracle : oracle_t) (args : list val) (obs : val) : verdict :=
  match args with
  | [s; e; VF r; VZ h; VZ v; VB skip] =>
      match as_points [s; e] with
      | Some (n, ps) =>
          if negb (forallb point_in_domain ps) then bad_case
          else judge (invalid_corridor n h v r) P_any (negb (is_ok (points_model oracle false n ps h v)) || (r <? 0)%float) obs
      | None => bad_case
      end
  | _ => bad_case
  end.
(* GetVoxelIDfromSpatialID has no error result: fewer than five fields give the empty list, never a panic *)
Definition d_voxel (args : list val) (obs : val) : verdict :=
  match args with
  | [VS s] =>
      if obs_dead obs then mkv false false "-" (of_LZ (voxel_id s))
      else match as_LZ obs with
           | Some l => mkv (list_eqb Z.eqb (voxel_id s) l)
                           (if invalid_voxel s then match l with [] => true | _ => false end else true) "-" (of_LZ (voxel_id s))
           | None => bad_case
           end
  | _ => bad_case
  end.

Definition raw_table : table :=
  [("NewPoint", fun _ => d_new_point); ("Point.SetLon", fun _ => d_set_lon); ("Point.SetLat", fun _ => d_set_lat);
   ("NewExtendedSpatialID", fun _ => d_new_eid); ("ExtendedSpatialID.ResetExtendedSpatialID", fun _ => d_reset_eid);
   ("NewTileXYZ", fun _ => d_new_tile); ("TileXYZ.SetHZoom", fun _ => d_tile_set true); ("TileXYZ.SetVZoom", fun _ => d_tile_set false);
   ("GetExtendedSpatialIdsOnPoints", fun o => d_points o false); ("GetSpatialIdsOnPoints", d_points_sid);
   ("GetExtendedSpatialIdsOnLine", d_line); ("GetSpatialIdsOnLine", d_line_sid);
   ("GetPointOnExtendedSpatialId", fun _ => d_point_on false); ("GetPointOnSpatialId", fun _ => d_point_on true);
   ("ConvertSpatialIdsToExtendedSpatialIds", fun _ => d_s2e); ("ConvertExtendedSpatialIdsToSpatialIds", fun _ => d_e2s);
   ("ConvertPointListToProjectedPointList", fun _ => d_project); ("ConvertProjectedPointListToPointList", fun _ => d_project);
   ("ChangeExtendedSpatialIdsZoom", fun _ => d_change_ext false); ("ChangeSpatialIdsZoom", fun _ => d_change_sid false);
   ("MergeExtendedSpatialIds", fun _ => d_change_ext true); ("MergeSpatialIds", fun _ => d_change_sid true);
   ("GetShiftingSpatialID", fun _ => d_shift);
   ("Get6spatialIdsAdjacentToFaces", fun _ => d_neigh 6); ("Get8spatialIdsAroundHorizontal", fun _ => d_neigh 8);
   ("Get26spatialIdsAroundVoxel", fun _ => d_neigh 26); ("GetNspatialIdsAroundVoxcels", fun _ => d_nN);
   ("CheckExtendedSpatialIdsOverlap", fun _ => d_ext_overlap); ("CheckSpatialIdsOverlap", fun _ => d_sp_overlap);
   ("CheckExtendedSpatialIdsArrayOverlap", fun _ => d_ext_array); ("CheckSpatialIdsArrayOverlap", fun _ => d_sp_array);
   ("ConvertExtendedSpatialIDsToQuadkeysAndVerticalIDs", fun _ => d_e2q false);
   ("ConvertSpatialIDsToQuadkeysAndVerticalIDs", fun _ => d_e2q true);
   ("ConvertExtendedSpatialIDsToQuadkeysAndAltitudekeys", fun _ => d_e2qa);
   ("ConvertQuadkeysAndVerticalIDsToExtendedSpatialIDs", fun _ => d_q2e false);
   ("ConvertQuadkeysAndVerticalIDsToSpatialIDs", fun _ => d_q2s);
   ("ConvertTileXYZsToExtendedSpatialIDs", fun _ => d_tiles); ("ConvertTileXYZsToSpatialIDs", fun _ => d_tiles);
   ("ConvertZToMinMaxAltitudekey", fun _ => d_altkey true); ("ConvertAltitudekeyToMinMaxZ", fun _ => d_altkey false);
   ("FitClearanceAroundExtendedSpatialID", fun _ => d_fit); ("GetExtendedSpatialIdsWithinRadiusOfLine", d_corridor);
   ("GetVoxelIDfromSpatialID", fun _ => d_voxel)].

(* ---------- the kind of the error ---------- *)
Definition split_err (obs : val) : val * option string :=
  match obs with VE (VL [p; VS c]) => (VE p, Some c) | _ => (obs, None) end.
Definition nil2 (s e : val) : option bool := match as_points [s; e] with Some (n, _) => Some n | None => None end.
(* the kind the model predicts IF the call fails (None: the model predicts success or says nothing) *)
Definition kind_of (fn : string) (args : list val) : option ecode :=
  let is := String.eqb fn in
  match args with
  | [VF lon; VF lat; VF _] => if is "NewPoint" then kind_new_point lon lat else None
  | [_; VF x] => if is "Point.SetLon" then kind_set_lon x else if is "Point.SetLat" then kind_set_lat x else None
  | [VS s] => if is "NewExtendedSpatialID" then kind_new_eid s else None
  | [VS a; VS b] =>
      if is "ExtendedSpatialID.ResetExtendedSpatialID" then kind_new_eid b
      else if is "CheckExtendedSpatialIdsOverlap" then kind_ext_overlap a b
      else if is "CheckSpatialIdsOverlap" then kind_sp_overlap a b else None
  | [VZ h; VZ _; VZ _; VZ v; VZ z] =>
      if is "NewTileXYZ" then kind_new_tile h v
      else if is "ConvertZToMinMaxAltitudekey" || is "ConvertAltitudekeyToMinMaxZ" then Some KInputValue else None
  | [VL _; VZ z] =>
      if is "TileXYZ.SetHZoom" || is "TileXYZ.SetVZoom" then kind_tile_set z
      else if is "ConvertPointListToProjectedPointList" || is "ConvertProjectedPointListToPointList" then Some KValueConvert
      else if is "ConvertQuadkeysAndVerticalIDsToSpatialIDs" then Some KInputValue
      else match args with
           | [VL pl; _] =>
               if is "GetSpatialIdsOnPoints" then match as_points pl with Some (n, _) => kind_points n z z | None => None end
               else match as_LS (VL pl) with
                    | Some ids => if is "ChangeSpatialIdsZoom" || is "MergeSpatialIds" then kind_change_sid ids z else None
                    | None => None
                    end
           | _ => None
           end
  | [VL pl; VZ h; VZ v] =>
      if is "GetExtendedSpatialIdsOnPoints" then match as_points pl with Some (n, _) => kind_points n h v | None => None end
      else if is "ConvertQuadkeysAndVerticalIDsToExtendedSpatialIDs" then Some KInputValue
      else match as_LS (VL pl) with
           | Some ids =>
               if is "ChangeExtendedSpatialIdsZoom" || is "MergeExtendedSpatialIds" then kind_change_ext ids h v
               else if is "GetNspatialIdsAroundVoxcels" then kind_nN ids h v else None
           | None => None
           end
  | [VNil; VZ z] => if is "ChangeSpatialIdsZoom" || is "MergeSpatialIds" then kind_change_sid [] z
                    else if is "GetSpatialIdsOnPoints" then kind_points false z z else None
  | [VNil; VZ h; VZ v] => if is "ChangeExtendedSpatialIdsZoom" || is "MergeExtendedSpatialIds" then kind_change_ext [] h v
                          else if is "GetNspatialIdsAroundVoxcels" then kind_nN [] h v
                          else if is "GetExtendedSpatialIdsOnPoints" then kind_points false h v else None
  | [s; e; VZ h; VZ v] => if is "GetExtendedSpatialIdsOnLine" then match nil2 s e with Some n => kind_points n h v | None => None end
                          else if is "ConvertTileXYZsToExtendedSpatialIDs" || is "ConvertTileXYZsToSpatialIDs" then Some KInputValue else None
  | [s; e; VZ z] => if is "GetSpatialIdsOnLine" then match nil2 s e with Some n => kind_points n z z | None => None end else None
  | [VS id; VZ opt] => if is "GetPointOnExtendedSpatialId" then kind_point_on_eid id opt
                       else if is "GetPointOnSpatialId" then kind_point_on_sid id opt else None
  | [l] => match as_LS l with
           | Some sl => if is "ConvertSpatialIdsToExtendedSpatialIds" then kind_s2e sl
                        else if is "ConvertExtendedSpatialIdsToSpatialIds" then kind_e2s sl else None
           | None => None
           end
  | [x; y] => match as_LS x, as_LS y with
              | Some l1, Some l2 => if is "CheckExtendedSpatialIdsArrayOverlap" then kind_ext_array l1 l2
                                    else if is "CheckSpatialIdsArrayOverlap" then kind_sp_array l1 l2 else None
              | _, _ => None
              end
  | [_; VZ _; VZ _; VF _; VF _] => Some KInputValue     (* e2q / s2q *)
  | [_; VZ _; VZ _; VZ _; VZ _] => if is "ConvertExtendedSpatialIDsToQuadkeysAndAltitudekeys" then Some KInputValue else None
  | [s; e; VF r; VZ h; VZ v; VB _] => match nil2 s e with Some n => kind_corridor n h v r | None => None end
  | _ => None
  end.
Definition kind_of_fit (fn : string) (args : list val) : option ecode :=
  match args with
  | [VS id; VF c] => if String.eqb fn "FitClearanceAroundExtendedSpatialID" then kind_fit id c else None
  | _ => kind_of fn args
  end.

(* errors.NewSpatialIdError(code, detail).Error() against Api.error_text (not part of the property: prop = true) *)
Definition d_error_text (args : list val) (obs : val) : verdict :=
  match args, obs with
  | [VS code; VS detail], VS t => mkv (String.eqb t (error_text code detail)) true "-" (VS (error_text code detail))
  | _, _ => bad_case
  end.

(* a call the harness did not make (output bound exceeded, or a shrink candidate of the wrong shape) is never judged; the kind of an
   observed error is compared here, for every entry, and counts for corr only *)
Definition guarded (e : entry) : entry :=
  (fst e, fun o args obs =>
     if is_skip obs then bad_case else
     let '(obs', code) := split_err obs in
     let v := snd e o args obs' in
     let kind_ok := match code, kind_of_fit (fst e) args with
                    | Some c, Some k => String.eqb c (ecode_name k)
                    | _, _ => true
                    end in
     let shown := match kind_of_fit (fst e) args, v_model v with
                  | Some k, VE _ => VE (VS (ecode_name k))
                  | _, m => m
                  end in
     mkv (v_corr v && kind_ok) (v_prop v) (v_class v) shown).
Definition single_table : table := map guarded (raw_table ++ [("NewSpatialIdError", fun _ => d_error_text)])%list.

(* Sequence: calls made back to back by one invoker (a call must not be influenced by the calls before it: memoised validation, a
   "last validated" cache); args = [VL [VL [VS fn; VL args]; ...]], observed = VL [result; ...]; every call is judged as above *)
(* a finding class excuses only the call that carries it: the sequence passes iff every call passes or is classified, and keeps
   a class label only then; any unclassified failing call makes the whole sequence an unclassified failure *)
Definition classed (v : verdict) : bool := negb (String.eqb (v_class v) "-") && negb (String.eqb (v_class v) "bad-case").
Fixpoint seq_verdict (o : oracle_t) (calls obs : list val) : verdict :=
  match calls, obs with
  | [], [] => mkv true true "-" (VL [])
  | VL [VS fn; VL a] :: cr, ob :: obr =>
      let v := run_table single_table o fn a ob in
      let r := seq_verdict o cr obr in
      if String.eqb (v_class v) "bad-case" || String.eqb (v_class r) "bad-case" then bad_case else
      let c := (v_corr v || classed v) && v_corr r in
      let p := (v_prop v || classed v) && v_prop r in
      mkv c p (if c && p then (if classed v then v_class v else v_class r) else "-")
          (match v_model r with VL l => VL (v_model v :: l) | _ => VNil end)
  | _, _ => bad_case
  end.
Definition d_seq (o : oracle_t) (args : list val) (obs : val) : verdict :=
  match args, obs with
  | [VL calls], VL results => seq_verdict o calls results
  | [VL _], _ => if obs_dead obs then mkv false false "-" VNil else bad_case
  | _, _ => bad_case
  end.

Definition table_C15 : table := (single_table ++ [("Sequence", d_seq)])%list.
