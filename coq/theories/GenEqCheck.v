(* GenEqCheck.v — generated zoom-range checks and their constants = the models' *)
From Coq Require Import ZArith Bool Lia.
From SIDGen Require Import Generated.
From SID Require Import Base Ids ZoomCore AltKeyCore GenTac.
Open Scope Z_scope.
Opaque Generated.CalculateArithmeticShift.

(* shape.CheckZoom = Ids.check_zoom *)
Lemma gen_CheckZoom_eq : forall z, Generated.CheckZoom z = check_zoom z.
Proof. gen_eq models_base. Qed.

(* transform.quadkeyCheckZoom, extendedSpatialIDCheckZoom: the zoom windows 1..31 x 0..35 and 0..35 x 0..35 *)
Lemma gen_quadkeyCheckZoom_eq : forall h v,
  Generated.quadkeyCheckZoom h v = ((1 <=? h) && (h <=? 31)) && check_zoom v.
Proof. gen_eq models_base. Qed.
Lemma gen_extendedSpatialIDCheckZoom_eq : forall h v,
  Generated.extendedSpatialIDCheckZoom h v = check_zoom h && check_zoom v.
Proof. gen_eq models_base. Qed.

Lemma gen_MaxTileXYZZoom_eq : Generated.MaxTileXYZZoom = 35. Proof. reflexivity. Qed.
Lemma gen_MaxTileXYZZoom_check_zoom : forall z, check_zoom z = (0 <=? z) && (z <=? Generated.MaxTileXYZZoom). Proof. reflexivity. Qed.
Lemma gen_QuadkeyZoom_eq :
  (Generated.QuadkeyZoom_hZoom_min, Generated.QuadkeyZoom_hZoom_max, Generated.QuadkeyZoom_vZoom_min, Generated.QuadkeyZoom_vZoom_max) = (1, 31, 0, 35).
Proof. reflexivity. Qed.
Transparent Generated.CalculateArithmeticShift.
