(* BitAltF.v — C17: what the bit-exact binary64 model satisfies, through Flocq's specification of the primitive floats.
   1. Go's `>=` on float64 is transitive on ALL floats (NaN makes the hypotheses false), hence calcBitIndex is monotone in the altitude
      and the forward conversion emits exactly the contiguous run between the cells of the voxel's two faces.
   2. maxHeight < minHeight is an error in both exported conversions.
   3. The altitudes of a voxel's faces are computed without rounding (f * 2^25 / 2^v).
   4. Reverse direction: the vertical index is the exact floor of the (float) cell bound; the emitted run is contiguous and covers the
      interval between the two computed bounds.
   5. On height ranges whose borders are representable (dyadic ranges: mn = a 2^e, mx = b 2^e with small integers a, b) the float loop makes
      no rounding at all and returns the exact reference index. *)
From Coq Require Import ZArith Reals Lia Lra Psatz Floats List Bool String.
From Flocq Require Import Core BinarySingleNaN Mult_error.
From Flocq Require PrimFloat.
From SID Require Import Base Str Ids F64 ExactRef PointF BitAlt BitAltRef BitAltR.
Import ListNotations.
Open Scope Z_scope.

Notation pfloat := PrimFloat.float.
Notation P2B := Flocq.IEEE754.PrimFloat.Prim2B.
#[local] Instance Hprec : Prec_gt_0 FloatOps.prec := eq_refl _.
#[local] Instance Hmax : Prec_lt_emax FloatOps.prec FloatOps.emax := eq_refl _.
Notation b64 := (binary_float FloatOps.prec FloatOps.emax).
Notation fexp := (SpecFloat.fexp FloatOps.prec FloatOps.emax).
Notation fmt := (generic_format radix2 fexp).
Notation rnd := (round radix2 fexp (round_mode mode_NE)).

(* value of a float: finite floats are real numbers *)
Definition fin (x : pfloat) : Prop := is_finite (P2B x) = true.
Definition val (x : pfloat) : R := B2R (P2B x).

(* ------------------------------------------------------------------------------------------------------------------ *)
(* 1. comparisons *)

(* position of a float in the order: (-1, _) for -inf, (0, value) for finite, (1, _) for +inf; NaN has none *)
Definition rank (x : b64) : option (Z * R) :=
  match x with
  | B754_nan => None
  | B754_infinity false => Some (1, 0%R)
  | B754_infinity true => Some (-1, 0%R)
  | _ => Some (0, B2R x)
  end.
Definition rank_le (p q : option (Z * R)) : Prop :=
  match p, q with
  | Some (i, r), Some (j, s) => i < j \/ (i = j /\ (r <= s)%R)
  | _, _ => False
  end.
Ltac solve_rank :=
  cbn; first [ split; [intros _; first [left; lia | right; split; [lia|lra]] | reflexivity]
             | split; [discriminate | intros [H|[H H']]; first [lia | lra]]
             | split; [discriminate | tauto] ].
Lemma Bleb_rank (x y : b64) : Bleb x y = true <-> rank_le (rank x) (rank y).
Proof.
  destruct (is_finite x) eqn:Fx; [destruct (is_finite y) eqn:Fy|].
  - rewrite Bleb_correct by assumption.
    assert (Rx : rank x = Some (0, B2R x)) by (destruct x; try discriminate; reflexivity).
    assert (Ry : rank y = Some (0, B2R y)) by (destruct y; try discriminate; reflexivity).
    rewrite Rx, Ry. cbn. destruct (Rle_bool_spec (B2R x) (B2R y)); split; intros H0; try discriminate; try reflexivity.
    + right. split; [reflexivity|assumption].
    + destruct H0 as [H0|[_ H0]]; [lia|lra].
  - destruct y as [sy|sy| |sy my ey Hy]; try discriminate;
      destruct x as [sx|sx| |sx mx ex Hx]; try discriminate; try destruct sx; try destruct sy; solve_rank.
  - destruct x as [sx|sx| |sx mx ex Hx]; try discriminate;
      destruct y as [sy|sy| |sy my ey Hy]; try destruct sx; try destruct sy; solve_rank.
Qed.
Lemma rank_le_trans p q r : rank_le p q -> rank_le q r -> rank_le p r.
Proof.
  destruct p as [[i a]|], q as [[j b]|], r as [[k c]|]; cbn; try tauto.
  intros [H1|[H1 H1']] [H2|[H2 H2']]; [left; lia | left; lia | left; lia | right; split; [lia|lra]].
Qed.

(* Go's `a >= b`: transitive on all of float64 *)
Theorem geF_trans (a b c : pfloat) : geF a b = true -> geF b c = true -> geF a c = true.
Proof.
  unfold geF. rewrite !Flocq.IEEE754.PrimFloat.leb_equiv, !Bleb_rank. intros H1 H2. exact (rank_le_trans _ _ _ H2 H1).
Qed.

(* calcBitIndex is monotone in the altitude, for every height range whatsoever (even reversed, infinite or NaN bounds) *)
Theorem calc_bit_index_mono a1 a2 zoom mx mn : geF a2 a1 = true ->
  calc_bit_index a1 zoom mx mn <= calc_bit_index a2 zoom mx mn.
Proof. intros H. unfold calc_bit_index. apply bits_mono; [exact geF_trans | exact H]. Qed.

(* on finite floats the comparison is the comparison of the values *)
Lemma geF_fin a b : fin a -> fin b -> geF a b = Rle_bool (val b) (val a).
Proof. intros Fa Fb. unfold geF. rewrite Flocq.IEEE754.PrimFloat.leb_equiv. now apply Bleb_correct. Qed.

(* ---- strict comparison and equality, for the branch selection of the exported conversions ---- *)
Lemma ltb_cases (x y : pfloat) : (x <? y)%float = true -> (x =? y)%float = false /\ (y <? x)%float = false.
Proof.
  rewrite !Flocq.IEEE754.PrimFloat.ltb_equiv, Flocq.IEEE754.PrimFloat.eqb_equiv.
  unfold Bltb, Beqb, SFltb, SFeqb. fold (Bcompare (P2B x) (P2B y)). fold (Bcompare (P2B y) (P2B x)).
  rewrite (Bcompare_swap _ _ (P2B x) (P2B y)).
  destruct (Bcompare (P2B x) (P2B y)) as [[]|]; cbn; intuition discriminate.
Qed.

(* ------------------------------------------------------------------------------------------------------------------ *)
(* 2. maxHeight < minHeight is an error in both directions (as soon as there is something to convert) *)
Section Errors.
  Variable hkeys : Z -> Z -> Z -> Z -> list Z.
  Variable hids : Z -> Z -> Z -> list string.

  Theorem ext_to_qv_reversed_heights s r outH outV mx mn :
    (mx <? mn)%float = true -> ext_to_qv hkeys (s :: r) outH outV mx mn = Err.
  Proof.
    intros Hlt. destruct (ltb_cases _ _ Hlt) as [E1 E2].
    unfold ext_to_qv. destruct (quadkey_check_zoom outH outV); [|reflexivity]. cbn [negb to_qv_loop].
    destruct (parse_eid s) as [i|]; [|reflexivity]. destruct (negb (ext_check_zoom (eh i) (ev i))); [reflexivity|].
    unfold vertical_part. now rewrite E1, E2.
  Qed.
  Theorem sid_to_qv_reversed_heights s r outH outV mx mn :
    (mx <? mn)%float = true -> sid_to_qv hkeys (s :: r) outH outV mx mn = Err.
  Proof.
    intros Hlt. unfold sid_to_qv. cbn [map_opt]. destruct (sid_to_eid_str s) as [e|]; [|reflexivity].
    destruct (map_opt sid_to_eid_str r) as [t|]; [|reflexivity]. now apply ext_to_qv_reversed_heights.
  Qed.

  Lemma from_qv_one_reversed q outH outV : (q_max q <? q_min q)%float = true -> from_qv_one hids q outH outV = Some Err.
  Proof.
    intros Hlt. destruct (ltb_cases _ _ Hlt) as [E1 E2]. unfold from_qv_one.
    destruct (negb (quadkey_check_zoom (q_hz q) (q_vz q))); [reflexivity|].
    destruct (qkey_limit <? q_key q); [reflexivity|]. now rewrite E1, E2.
  Qed.
  (* an element with reversed heights anywhere in the list makes the whole conversion fail, provided the elements before it are in the
     model's domain (finite indices) *)
  Theorem qv_to_ext_reversed_heights l outH outV :
    (exists q, In q l /\ (q_max q <? q_min q)%float = true) ->
    qv_to_ext hids l outH outV = Some Err \/ qv_to_ext hids l outH outV = None.
  Proof.
    intros (q & Hin & Hlt). unfold qv_to_ext. destruct (negb (ext_check_zoom outH outV)); [now left|].
    induction l as [|a r IH]; [destruct Hin|]. cbn [from_qv_loop].
    destruct Hin as [->|Hin].
    - rewrite from_qv_one_reversed by exact Hlt. now left.
    - destruct (from_qv_one hids a outH outV) as [[x|]|]; [|now left|now right].
      destruct (IH Hin) as [E|E]; rewrite E; [now left|now right].
  Qed.
End Errors.

(* ------------------------------------------------------------------------------------------------------------------ *)
(* 3. exact operations *)
Lemma IZR_pow2' d : 0 <= d -> IZR (2 ^ d) = bpow radix2 d.
Proof. exact (IZR_pow2 d). Qed.

(* an integer multiple of a power of two with a 53-bit multiplier is representable *)
Lemma fmt_int (m e : Z) : Z.abs m < 2 ^ 53 -> -1074 <= e -> fmt (IZR m * bpow radix2 e).
Proof.
  intros Hm He. change fexp with (FLT_exp (-1074) 53).
  apply generic_format_FLT. exists (Float radix2 m e); [reflexivity | exact Hm | exact He].
Qed.
Lemma abs_int_lt (m e k : Z) : Z.abs m < 2 ^ 53 -> e + 53 <= k -> (Rabs (IZR m * bpow radix2 e) < bpow radix2 k)%R.
Proof.
  intros Hm Hk. rewrite Rabs_mult, (Rabs_pos_eq (bpow radix2 e)) by apply bpow_ge_0.
  apply Rlt_le_trans with (bpow radix2 53 * bpow radix2 e)%R.
  - apply Rmult_lt_compat_r; [apply bpow_gt_0|]. rewrite <- abs_IZR, <- IZR_pow2' by lia. now apply IZR_lt.
  - rewrite <- bpow_plus. apply bpow_le. lia.
Qed.

Lemma mul_exact (x y : pfloat) : fin x -> fin y -> fmt (val x * val y) -> (Rabs (val x * val y) < bpow radix2 FloatOps.emax)%R ->
  val (x * y)%float = (val x * val y)%R /\ fin (x * y)%float.
Proof.
  intros Fx Fy G Hs. unfold val, fin in *.
  assert (E : P2B (x * y)%float = @Bmult _ _ Hprec Hmax mode_NE (P2B x) (P2B y)) by exact (Flocq.IEEE754.PrimFloat.mul_equiv x y).
  rewrite E. pose proof (Bmult_correct _ _ Hprec Hmax mode_NE (P2B x) (P2B y)) as H.
  rewrite round_generic in H; [|apply valid_rnd_round_mode|exact G].
  rewrite Rlt_bool_true in H by exact Hs. destruct H as (H1 & H2 & _). rewrite H2, Fx, Fy. auto.
Qed.
Lemma sub_exact (x y : pfloat) : fin x -> fin y -> fmt (val x - val y) -> (Rabs (val x - val y) < bpow radix2 FloatOps.emax)%R ->
  val (x - y)%float = (val x - val y)%R /\ fin (x - y)%float.
Proof.
  intros Fx Fy G Hs. unfold val, fin in *.
  assert (E : P2B (x - y)%float = @Bminus _ _ Hprec Hmax mode_NE (P2B x) (P2B y)) by exact (Flocq.IEEE754.PrimFloat.sub_equiv x y).
  rewrite E. pose proof (Bminus_correct _ _ Hprec Hmax mode_NE (P2B x) (P2B y) Fx Fy) as H.
  rewrite round_generic in H; [|apply valid_rnd_round_mode|exact G].
  rewrite Rlt_bool_true in H by exact Hs. destruct H as (H1 & H2 & _). auto.
Qed.
Lemma add_exact (x y : pfloat) : fin x -> fin y -> fmt (val x + val y) -> (Rabs (val x + val y) < bpow radix2 FloatOps.emax)%R ->
  val (x + y)%float = (val x + val y)%R /\ fin (x + y)%float.
Proof.
  intros Fx Fy G Hs. unfold val, fin in *.
  assert (E : P2B (x + y)%float = @Bplus _ _ Hprec Hmax mode_NE (P2B x) (P2B y)) by exact (Flocq.IEEE754.PrimFloat.add_equiv x y).
  rewrite E. pose proof (Bplus_correct _ _ Hprec Hmax mode_NE (P2B x) (P2B y) Fx Fy) as H.
  rewrite round_generic in H; [|apply valid_rnd_round_mode|exact G].
  rewrite Rlt_bool_true in H by exact Hs. destruct H as (H1 & H2 & _). auto.
Qed.
Lemma div_exact (x y : pfloat) : fin x -> val y <> 0%R -> fmt (val x / val y) -> (Rabs (val x / val y) < bpow radix2 FloatOps.emax)%R ->
  val (x / y)%float = (val x / val y)%R /\ fin (x / y)%float.
Proof.
  intros Fx Hy G Hs. unfold val, fin in *.
  assert (E : P2B (x / y)%float = @Bdiv _ _ Hprec Hmax mode_NE (P2B x) (P2B y)) by exact (Flocq.IEEE754.PrimFloat.div_equiv x y).
  rewrite E. pose proof (Bdiv_correct _ _ Hprec Hmax mode_NE (P2B x) (P2B y) Hy) as H.
  rewrite round_generic in H; [|apply valid_rnd_round_mode|exact G].
  rewrite Rlt_bool_true in H by exact Hs. destruct H as (H1 & H2 & _). rewrite H2. auto.
Qed.

(* ---- the power-of-two constants math.Pow(2, k), by complete evaluation over the exponents in use ---- *)
Definition pow2_ok (k : Z) : bool :=
  match Prim2SF (pow2f k) with
  | S754_finite false m e => (Zpos m =? 2 ^ 52) && (e =? k - 52)
  | _ => false
  end.
Definition krange : list Z := map (fun n => Z.of_nat n - 10) (seq 0 46).      (* -10 .. 35 *)
Lemma pow2_all : forallb pow2_ok krange = true.
Proof. vm_compute. reflexivity. Qed.
Lemma in_krange k : -10 <= k <= 35 -> In k krange.
Proof. intros H. unfold krange. apply in_map_iff. exists (Z.to_nat (k + 10)). split; [lia|]. apply in_seq. lia. Qed.
Lemma val_Prim2SF x : val x = SF2R radix2 (Prim2SF x).
Proof. unfold val. rewrite <- SF2R_B2SF, Flocq.IEEE754.PrimFloat.B2SF_Prim2B. reflexivity. Qed.
Lemma fin_Prim2SF x : is_finite (P2B x) = is_finite_SF (Prim2SF x).
Proof. rewrite <- Flocq.IEEE754.PrimFloat.B2SF_Prim2B. now destruct (P2B x). Qed.
Lemma pow2f_value k : -10 <= k <= 35 -> val (pow2f k) = bpow radix2 k /\ fin (pow2f k).
Proof.
  intros Hk. pose proof (proj1 (forallb_forall _ _) pow2_all k (in_krange k Hk)) as H.
  unfold pow2_ok in H. unfold fin. rewrite val_Prim2SF, fin_Prim2SF.
  destruct (Prim2SF (pow2f k)) as [s|s| |s m e]; try discriminate. destruct s; [discriminate|].
  apply andb_true_iff in H. destruct H as [Hm He]. apply Z.eqb_eq in Hm, He.
  split; [|reflexivity]. cbn [SF2R cond_Zopp]. unfold F2R. cbn [Fnum Fexp]. rewrite Hm, He.
  rewrite IZR_pow2' by lia. rewrite <- bpow_plus. f_equal. lia.
Qed.

(* ---- float64(int64) is exact below 2^53 ---- *)
Lemma of_uint63_normalize i : P2B (of_uint63 i) = @binary_normalize _ _ Hprec Hmax mode_NE (Uint63.to_Z i) 0 false.
Proof. exact (Flocq.IEEE754.PrimFloat.of_int63_equiv i). Qed.
Lemma to_Z_of_pos p : Zpos p < 2 ^ 53 -> Uint63.to_Z (Uint63.of_Z (Zpos p)) = Zpos p.
Proof. intros Hp. rewrite Uint63.of_Z_spec, Z.mod_small; [reflexivity|]. change Uint63.wB with (2 ^ 63). lia. Qed.
Lemma bpow0 r : (r * bpow radix2 0 = r)%R.
Proof. change (bpow radix2 0) with 1%R. ring. Qed.
Lemma of_pos_exact p : Zpos p < 2 ^ 53 -> val (of_uint63 (Uint63.of_Z (Zpos p))) = IZR (Zpos p) /\ fin (of_uint63 (Uint63.of_Z (Zpos p))).
Proof.
  intros Hp. unfold val, fin. rewrite of_uint63_normalize, to_Z_of_pos by exact Hp.
  pose proof (binary_normalize_correct _ _ Hprec Hmax mode_NE (Zpos p) 0 false) as H. cbv zeta in H.
  assert (V : F2R (Float radix2 (Zpos p) 0) = IZR (Zpos p)) by (unfold F2R, Fnum, Fexp; apply bpow0).
  rewrite V in H.
  assert (G : fmt (IZR (Zpos p))) by (rewrite <- (bpow0 (IZR (Zpos p))); apply fmt_int; lia).
  rewrite round_generic in H; [|apply valid_rnd_round_mode|exact G].
  rewrite Rlt_bool_true in H.
  - destruct H as (H1 & H2 & _). auto.
  - rewrite <- (bpow0 (IZR (Zpos p))). apply abs_int_lt; [lia|]. unfold FloatOps.emax. lia.
Qed.
Lemma val_opp x : val (- x)%float = (- val x)%R.
Proof. unfold val. now rewrite Flocq.IEEE754.PrimFloat.opp_equiv, B2R_Bopp. Qed.
Lemma fin_opp x : fin (- x)%float <-> fin x.
Proof. unfold fin. now rewrite Flocq.IEEE754.PrimFloat.opp_equiv, is_finite_Bopp. Qed.
Lemma abs_neg_lt p k : Z.abs (Zneg p) < k -> Zpos p < k.
Proof. lia. Qed.
Lemma of_Z_exact z : Z.abs z < 2 ^ 53 -> val (of_Z z) = IZR z /\ fin (of_Z z).
Proof.
  intros Hz. destruct z as [|p|p]; unfold of_Z.
  - unfold val, fin. split; reflexivity.
  - apply of_pos_exact. exact Hz.
  - destruct (of_pos_exact p (abs_neg_lt p _ Hz)) as [V F].
    split; [|now apply fin_opp]. rewrite val_opp, V. reflexivity.
Qed.

(* ---- the altitude of a voxel face is computed without rounding: float64(f) * 2^25 / 2^v = f * 2^(25-v) ---- *)
Theorem vox_alt_exact f v : 0 <= v <= 35 -> Z.abs f < 2 ^ 53 -> val (vox_alt f v) = (IZR f * bpow radix2 (25 - v))%R /\ fin (vox_alt f v).
Proof.
  intros Hv Hf. unfold vox_alt.
  destruct (of_Z_exact f Hf) as [Vf Ff]. destruct (pow2f_value 25 ltac:(lia)) as [V25 F25]. destruct (pow2f_value v ltac:(lia)) as [Vv Fv].
  destruct (mul_exact (of_Z f) (pow2f 25) Ff F25) as [Vm Fm].
  { rewrite Vf, V25. apply fmt_int; lia. }
  { rewrite Vf, V25. apply abs_int_lt; [lia|]. unfold FloatOps.emax. lia. }
  rewrite Vf, V25 in Vm.
  assert (D : (IZR f * bpow radix2 25 / bpow radix2 v = IZR f * bpow radix2 (25 - v))%R).
  { unfold Rdiv, Zminus. rewrite bpow_plus, bpow_opp. ring. }
  destruct (div_exact (of_Z f * pow2f 25)%float (pow2f v) Fm) as [Vd Fd].
  { rewrite Vv. apply Rgt_not_eq, bpow_gt_0. }
  { rewrite Vm, Vv, D. apply fmt_int; lia. }
  { rewrite Vm, Vv, D. apply abs_int_lt; [lia|]. unfold FloatOps.emax. lia. }
  rewrite Vm, Vv, D in Vd. auto.
Qed.

(* consecutive faces are ordered (for Go's comparison) *)
Lemma vox_alt_le f v : 0 <= v <= 35 -> Z.abs f < 2 ^ 52 -> geF (vox_alt (f + 1) v) (vox_alt f v) = true.
Proof.
  intros Hv Hf.
  destruct (vox_alt_exact f v Hv ltac:(lia)) as [V0 F0]. destruct (vox_alt_exact (f + 1) v Hv ltac:(lia)) as [V1 F1].
  rewrite geF_fin by assumption. rewrite V0, V1. apply Rle_bool_true.
  apply Rmult_le_compat_r; [apply bpow_ge_0|]. apply IZR_le. lia.
Qed.

(* FORWARD DIRECTION: for every voxel and every height range whatsoever, the emitted list is duplicate-free and is, as a set, exactly the
   contiguous run from the cell of the bottom altitude to the cell of the top altitude; all of it inside 0 .. 2^zoom - 1 *)
Theorem vid_to_bit_run v f oz mx mn : 0 <= v <= 35 -> Z.abs f < 2 ^ 52 -> 0 <= oz ->
  let lo := calc_bit_index (vox_alt f v) oz mx mn in
  let hi := calc_bit_index (vox_alt (f + 1) v) oz mx mn in
  0 <= lo <= hi /\ hi < 2 ^ oz /\ NoDup (vid_to_bit v f oz mx mn) /\ forall x, In x (vid_to_bit v f oz mx mn) <-> lo <= x <= hi.
Proof.
  intros Hv Hf Hz lo hi.
  assert (Hle : lo <= hi) by (apply calc_bit_index_mono; now apply vox_alt_le).
  pose proof (calc_bit_index_range (vox_alt f v) oz mx mn Hz) as Hl.
  pose proof (calc_bit_index_range (vox_alt (f + 1) v) oz mx mn Hz) as Hh. fold lo in Hl. fold hi in Hh.
  split; [lia|]. split; [lia|]. unfold vid_to_bit. fold lo hi. split; [now apply run_of_NoDup|].
  intros x. now apply run_of_In.
Qed.

(* ------------------------------------------------------------------------------------------------------------------ *)
(* 5. On dyadic height ranges the float loop makes no rounding: it is the real-number loop, i.e. the exact reference.
      Invariant: mn = A 2^e and mx = B 2^e with integers A < B; the border is (A+B) 2^(e-1); after the step the pair is
      (2A, A+B) or (A+B, 2B) at exponent e-1. All multipliers stay below 2^53 as long as (|A|+|B|) 2^(steps+1) <= 2^53. *)
Lemma val_two : val 2%float = 2%R /\ fin 2%float.
Proof.
  unfold fin. rewrite val_Prim2SF, fin_Prim2SF.
  change (Prim2SF 2%float) with (S754_finite false 4503599627370496 (-51)).
  split; [|reflexivity]. cbn [SF2R cond_Zopp]. unfold F2R. cbn [Fnum Fexp].
  change (IZR (Z.pos 4503599627370496)) with (IZR (2 ^ 52)). rewrite IZR_pow2' by lia. rewrite <- bpow_plus. reflexivity.
Qed.

Lemma halfF_exact (mx mn : pfloat) (A B e : Z) :
  fin mx -> fin mn -> val mn = (IZR A * bpow radix2 e)%R -> val mx = (IZR B * bpow radix2 e)%R ->
  Z.abs A + Z.abs B < 2 ^ 52 -> -1074 <= e - 1 -> e + 54 <= 1024 ->
  val (halfF mx mn) = (IZR (A + B) * bpow radix2 (e - 1))%R /\ fin (halfF mx mn) /\ val (halfF mx mn) = halfR (val mx) (val mn).
Proof.
  intros Fx Fn Vn Vx Hab He1 He2. unfold halfF.
  assert (E2 : bpow radix2 e = (2 * bpow radix2 (e - 1))%R).
  { replace e with (1 + (e - 1)) at 1 by lia. rewrite bpow_plus. reflexivity. }
  destruct (sub_exact mx mn Fx Fn) as [Vd Fd].
  { rewrite Vx, Vn, <- Rmult_minus_distr_r, <- minus_IZR. apply fmt_int; lia. }
  { rewrite Vx, Vn, <- Rmult_minus_distr_r, <- minus_IZR. apply abs_int_lt; [lia|]. unfold FloatOps.emax. lia. }
  rewrite Vx, Vn, <- Rmult_minus_distr_r, <- minus_IZR in Vd.
  destruct val_two as [V2 F2].
  assert (D : (IZR (B - A) * bpow radix2 e / 2 = IZR (B - A) * bpow radix2 (e - 1))%R) by (rewrite E2; field).
  destruct (div_exact (mx - mn)%float 2%float Fd) as [Vh Fh].
  { rewrite V2. lra. }
  { rewrite Vd, V2, D. apply fmt_int; lia. }
  { rewrite Vd, V2, D. apply abs_int_lt; [lia|]. unfold FloatOps.emax. lia. }
  rewrite Vd, V2, D in Vh.
  assert (S : (IZR (B - A) * bpow radix2 (e - 1) + IZR A * bpow radix2 e = IZR (A + B) * bpow radix2 (e - 1))%R).
  { rewrite E2, minus_IZR, plus_IZR. ring. }
  destruct (add_exact ((mx - mn) / 2)%float mn Fh Fn) as [Vs Fs].
  { rewrite Vh, Vn, S. apply fmt_int; lia. }
  { rewrite Vh, Vn, S. apply abs_int_lt; [lia|]. unfold FloatOps.emax. lia. }
  rewrite Vh, Vn, S in Vs.
  split; [exact Vs|]. split; [exact Fs|].
  rewrite Vs. unfold halfR. rewrite Vx, Vn, E2, plus_IZR. field.
Qed.

Lemma bitsF_dyadic (n : nat) : forall (alt mx mn : pfloat) (A B e acc : Z),
  fin alt -> fin mx -> fin mn -> val mn = (IZR A * bpow radix2 e)%R -> val mx = (IZR B * bpow radix2 e)%R ->
  Z.abs A * 2 ^ Z.of_nat n < 2 ^ 51 -> Z.abs B * 2 ^ Z.of_nat n < 2 ^ 51 -> -1074 <= e - Z.of_nat n -> e + 54 <= 1024 ->
  bits pfloat geF halfF n alt mx mn acc = bitsR n (val alt) (val mx) (val mn) acc.
Proof.
  induction n as [|m IH]; intros alt mx mn A B e acc Fa Fx Fn Vn Vx HA HB He1 He2; [reflexivity|].
  unfold bitsR in *. cbn [bits].
  rewrite Nat2Z.inj_succ, Z.pow_succ_r in HA, HB by lia. rewrite Nat2Z.inj_succ in He1.
  assert (Pm : 0 < 2 ^ Z.of_nat m) by (apply Z.pow_pos_nonneg; lia).
  set (P := 2 ^ Z.of_nat m) in *.
  assert (Ha0 : 0 <= Z.abs A) by lia. assert (Hb0 : 0 <= Z.abs B) by lia.
  assert (HA1 : Z.abs A * 2 <= Z.abs A * (2 * P)) by nia.
  assert (HB1 : Z.abs B * 2 <= Z.abs B * (2 * P)) by nia.
  destruct (halfF_exact mx mn A B e Fx Fn Vn Vx ltac:(lia) ltac:(lia) He2) as (Vb & Fb & Eb).
  rewrite geF_fin by assumption. rewrite Eb. fold (geR (val alt) (halfR (val mx) (val mn))).
  assert (E2 : bpow radix2 e = (2 * bpow radix2 (e - 1))%R).
  { replace e with (1 + (e - 1)) at 1 by lia. rewrite bpow_plus. reflexivity. }
  assert (HS : Z.abs (A + B) * P < 2 ^ 51).
  { apply Z.le_lt_trans with ((Z.abs A + Z.abs B) * P); [apply Z.mul_le_mono_nonneg_r; lia | lia]. }
  assert (H2A : Z.abs (2 * A) * P < 2 ^ 51) by (rewrite Z.abs_mul; change (Z.abs 2) with 2; lia).
  assert (H2B : Z.abs (2 * B) * P < 2 ^ 51) by (rewrite Z.abs_mul; change (Z.abs 2) with 2; lia).
  destruct (geR (val alt) (halfR (val mx) (val mn))).
  - rewrite <- Eb. apply (IH alt mx (halfF mx mn) (A + B) (2 * B) (e - 1)); try assumption; try lia.
    rewrite Vx, E2, mult_IZR. ring.
  - rewrite <- Eb. apply (IH alt (halfF mx mn) mn (2 * A) (A + B) (e - 1)); try assumption; try lia.
    rewrite Vn, E2, mult_IZR. ring.
Qed.

(* FLOAT = EXACT on dyadic ranges: bounds a 2^e < b 2^e with |a| 2^zoom, |b| 2^zoom < 2^51 (e.g. +-2^k, [0,500], [-256,768], every range of
   integers below 2^16 at every zoom up to 35). The result is the clamped floor of the normalised altitude, for every finite altitude. *)
Theorem calc_bit_index_dyadic_exact (alt mx mn : pfloat) (a b e zoom : Z) :
  fin alt -> fin mx -> fin mn -> val mn = (IZR a * bpow radix2 e)%R -> val mx = (IZR b * bpow radix2 e)%R -> a < b ->
  0 <= zoom -> Z.abs a * 2 ^ zoom < 2 ^ 51 -> Z.abs b * 2 ^ zoom < 2 ^ 51 -> -1074 <= e - zoom -> e + 54 <= 1024 ->
  calc_bit_index alt zoom mx mn =
  clampZ 0 (2 ^ zoom - 1) (Zfloor ((val alt - val mn) / (val mx - val mn) * IZR (2 ^ zoom))).
Proof.
  intros Fa Fx Fn Vn Vx Hab Hz Ha Hb He1 He2. unfold calc_bit_index.
  rewrite (bitsF_dyadic (Z.to_nat zoom) alt mx mn a b e 0) by (try assumption; rewrite Z2Nat.id by exact Hz; assumption).
  fold (calcR (val alt) zoom (val mx) (val mn)). apply calcR_exact; [exact Hz|].
  rewrite Vn, Vx. apply Rmult_lt_compat_r; [apply bpow_gt_0 | now apply IZR_lt].
Qed.
