(* Corridor.v — transform.GetExtendedSpatialIdsWithinRadiusOfLine and the structure of
   transform.FitClearanceAroundExtendedSpatialID (property C14; partial by design).
   Geometry is NOT modelled: the IDs of the line (shape.GetExtendedSpatialIdsOnLine, C06), the layer counts of the clearance fit
   (closest_go / geodesy_go inside FitClearanceAroundExtendedSpatialID) and the distance filter enter as oracle answers.
   What IS modelled exactly: the control flow of the function (error paths, the choice of the voxel that is fitted after fix 70c64b2:
   sort.Strings(idsOnLine); idsOnLine[0]; the measuring loop as a fold, with the state of the one reused closest.Measure threaded through,
   over the candidates sorted as by fix 915e48e), the N-layer neighbourhood (Neighbour.nN_api, C08), common.Difference / Union / Unique (SetOps,
   C20, with their map-order oracles), and the loop skeleton of the fit (first iteration, error checks).
   Part 1: the order of sort.Strings and the picked voxel.     Part 2: skeleton of the fit.
   Part 3: the corridor model over oracles and its theorems.    Part 4: executable instances (balanced-tree sets; 4b with the stateful
   measuring loop and the replay of recorded distances) = model, as sets.
   Part 5: boolean checker on the implementation's observed output, proved sound; the model passes it. *)
From Coq Require Import ZArith Lia List Bool String Ascii Permutation Sorting.Sorted RelationClasses Floats.
From SID Require Import Base Str Ids Shift Neighbour SetOps.
Import ListNotations.
Open Scope Z_scope.
Open Scope list_scope.

(* ================= Part 1: sort.Strings(idsOnLine); idsOnLine[0] ================= *)
(* Str.str_leb is Go's string order (bytewise lexicographic, a proper prefix first). It is a total order: *)
Lemma str_leb_refl a : str_leb a a = true.
Proof. induction a as [|c a IH]; cbn [str_leb]; [reflexivity|]. cbv zeta. now rewrite Nat.ltb_irrefl. Qed.
Lemma str_leb_trans a : forall b c, str_leb a b = true -> str_leb b c = true -> str_leb a c = true.
Proof.
  induction a as [|x a IH]; intros [|y b] [|z c]; cbn [str_leb]; try congruence; try reflexivity.
  destruct (Nat.ltb_spec (nat_of_ascii x) (nat_of_ascii y)) as [H1|H1];
  destruct (Nat.ltb_spec (nat_of_ascii y) (nat_of_ascii x)) as [H1'|H1']; try lia;
  destruct (Nat.ltb_spec (nat_of_ascii y) (nat_of_ascii z)) as [H2|H2];
  destruct (Nat.ltb_spec (nat_of_ascii z) (nat_of_ascii y)) as [H2'|H2']; try lia; try congruence;
  destruct (Nat.ltb_spec (nat_of_ascii x) (nat_of_ascii z)) as [H3|H3];
  destruct (Nat.ltb_spec (nat_of_ascii z) (nat_of_ascii x)) as [H3'|H3']; try lia; try congruence; try reflexivity.
  apply IH.
Qed.
Lemma nat_of_ascii_inj x y : nat_of_ascii x = nat_of_ascii y -> x = y.
Proof. intros H. rewrite <- (ascii_nat_embedding x), <- (ascii_nat_embedding y), H. reflexivity. Qed.
Lemma str_leb_antisym a : forall b, str_leb a b = true -> str_leb b a = true -> a = b.
Proof.
  induction a as [|x a IH]; intros [|y b]; cbn [str_leb]; try congruence.
  destruct (Nat.ltb_spec (nat_of_ascii x) (nat_of_ascii y)) as [H1|H1];
  destruct (Nat.ltb_spec (nat_of_ascii y) (nat_of_ascii x)) as [H2|H2]; try lia; try congruence.
  intros A B. assert (E : x = y) by (apply nat_of_ascii_inj; lia). subst. f_equal. now apply IH.
Qed.

(* the element the Go code hands to the fit: the first element after sort.Strings (None: the slice is empty, Go would panic) *)
Definition pick (L : list string) : option string := hd_error (sort_strings L).

Lemma strsort_strongly l : StronglySorted (fun a b => is_true (str_leb a b)) (sort_strings l).
Proof.
  apply StrSort.StronglySorted_sort. intros a b c H1 H2. unfold is_true in *. eapply str_leb_trans; eassumption.
Qed.
Lemma pick_spec L p : pick L = Some p -> In p L /\ forall x, In x L -> str_leb p x = true.
Proof.
  unfold pick. pose proof (strsort_strongly L) as S. pose proof (sort_strings_perm L) as P.
  destruct (sort_strings L) as [|a r] eqn:E; cbn; [discriminate|]. intros [= <-]. split.
  - eapply Permutation_in; [exact P|now left].
  - intros x Hx. apply Permutation_sym in P. apply (Permutation_in _ P) in Hx. destruct Hx as [<-|Hx]; [apply str_leb_refl|].
    inversion S as [|? ? _ F]; subst. rewrite Forall_forall in F. now apply F.
Qed.
Lemma pick_none L : pick L = None <-> L = [].
Proof.
  unfold pick. pose proof (sort_strings_perm L) as P. split.
  - destruct (sort_strings L) as [|a r]; [|discriminate]. intros _. apply Permutation_nil. exact P.
  - intros ->. reflexivity.
Qed.
Lemma pick_some L : L <> [] -> exists p, pick L = Some p.
Proof. intros H. destruct (pick L) as [p|] eqn:E; [eauto|]. apply pick_none in E. contradiction. Qed.
(* the picked voxel does not depend on the order in which the line's IDs arrive (the point of fix 70c64b2, D15) *)
Theorem pick_perm L L' : Permutation L L' -> pick L = pick L'.
Proof.
  intros P. destruct (pick L) as [p|] eqn:E1, (pick L') as [q|] eqn:E2.
  - destruct (pick_spec _ _ E1) as [I1 M1], (pick_spec _ _ E2) as [I2 M2]. f_equal. apply str_leb_antisym.
    + apply M1. eapply Permutation_in; [apply Permutation_sym, P|exact I2].
    + apply M2. eapply Permutation_in; [exact P|exact I1].
  - apply pick_none in E2. subst. apply Permutation_sym, Permutation_nil in P. subst. discriminate.
  - apply pick_none in E1. subst. apply Permutation_nil in P. subst. discriminate.
  - reflexivity.
Qed.

(* ================= Part 2: skeleton of FitClearanceAroundExtendedSpatialID ================= *)
(* shape.GetPointOnExtendedSpatialId(id, Vertex) succeeds: five integer fields, both zooms within 0..35 *)
Definition vertex_ok (id : string) : bool :=
  match parse_eid id with Some i => check_zoom (eh i) && check_zoom (ev i) | None => false end.

(* one fitting loop:  for { shifted := shift(id, n); vertices(id) err?; vertices(shifted) err?; d := distance;
                            if clearance > d { n++; continue }; layer = n - 1; break }
   ok n = both vertex calls of iteration n succeed;  d n = the measured distance of iteration n (oracle: closest_go);
   Go's `clearance > d` is `d < clearance` on float64 (false when either is NaN).  fuel: the loop has no bound in Go (D16). *)
Fixpoint fit_loop (fuel : nat) (c : float) (ok : Z -> bool) (d : Z -> float) (n : Z) : option (result Z) :=
  match fuel with
  | O => None
  | S k => if negb (ok n) then Some Err
           else if (d n <? c)%float then fit_loop k c ok d (n + 1)
           else Some (Ok (n - 1))
  end.

(* the whole function; dx id n / dy id n: distance between the voxel and its shift by n columns / n rows *)
Definition fit_model (fuel : nat) (dx dy : string -> Z -> float) (id : string) (c : float) : option (result (Z * Z)) :=
  if (c <? 0)%float then Some Err                                      (* clearance < 0 *)
  else if negb (Nat.eqb (List.length (split id)) 5) then Some Err      (* len(strings.Split(id, "/")) != 5 *)
  else match fit_loop fuel c (fun n => vertex_ok id && vertex_ok (shift_api id n 0 0)) (dx id) 1 with
       | None => None
       | Some Err => Some Err
       | Some (Ok H) =>
           match fit_loop fuel c (fun n => vertex_ok id && vertex_ok (shift_api id 0 n 0)) (dy id) 1 with
           | None => None
           | Some Err => Some Err
           | Some (Ok V) => Some (Ok (H, V))
           end
       end.

Theorem fit_negative fuel dx dy id c : (c <? 0)%float = true -> fit_model fuel dx dy id c = Some Err.
Proof. intros H. unfold fit_model. now rewrite H. Qed.

(* an ID the vertex call refuses (wrong arity, non-integer field, zoom outside 0..35) is an error for EVERY clearance, 0 included:
   the first iteration asks for the vertices of the ID before anything is compared *)
Theorem fit_malformed fuel dx dy id c : vertex_ok id = false -> fit_model (S fuel) dx dy id c = Some Err.
Proof.
  intros H. unfold fit_model. destruct (c <? 0)%float; [reflexivity|].
  destruct (negb (Nat.eqb (List.length (split id)) 5)); [reflexivity|].
  cbn [fit_loop]. rewrite H. reflexivity.
Qed.

(* first iteration: when no measured distance is below the clearance the loop stops at once with layer 0.
   In particular clearance 0 with non-negative distances (closest.MeasureNonnegativeDistance): 0 > d is false. *)
Lemma fit_loop_first fuel c ok d : ok 1 = true -> (d 1%Z <? c)%float = false -> fit_loop (S fuel) c ok d 1 = Some (Ok 0).
Proof. intros H1 H2. cbn [fit_loop]. now rewrite H1, H2. Qed.
Theorem fit_first_iteration fuel dx dy id c :
  (c <? 0)%float = false -> vertex_ok id = true ->
  vertex_ok (shift_api id 1 0 0) = true -> vertex_ok (shift_api id 0 1 0) = true ->
  (dx id 1%Z <? c)%float = false -> (dy id 1%Z <? c)%float = false ->
  fit_model (S fuel) dx dy id c = Some (Ok (0, 0)).
Proof.
  intros Hc Hv Hx Hy Dx Dy. unfold fit_model. rewrite Hc.
  assert (A : Nat.eqb (List.length (split id)) 5 = true).
  { unfold vertex_ok, parse_eid in Hv. destruct (split id) as [|a [|b [|c0 [|d [|e [|f r]]]]]]; try discriminate. reflexivity. }
  rewrite A. cbn [negb].
  rewrite fit_loop_first by (try assumption; now rewrite Hv, Hx).
  rewrite fit_loop_first by (try assumption; now rewrite Hv, Hy). reflexivity.
Qed.
Corollary fit_zero_clearance fuel dx dy id :
  vertex_ok id = true -> vertex_ok (shift_api id 1 0 0) = true -> vertex_ok (shift_api id 0 1 0) = true ->
  (dx id 1%Z <? 0)%float = false -> (dy id 1%Z <? 0)%float = false ->    (* the measured distances are not negative *)
  fit_model (S fuel) dx dy id 0%float = Some (Ok (0, 0)).
Proof. intros. apply fit_first_iteration; auto. Qed.

(* a valid ID and its shifts are accepted by the vertex call, so the hypotheses above hold on the property's domain *)
Lemma vertex_ok_print i : okid i -> 0 <= ev i <= 35 -> vertex_ok (print_eid i) = true.
Proof.
  intros Hi Hv. unfold vertex_ok. rewrite parse_print_eid by now apply okid_fields.
  destruct Hi as (Hh & _). apply andb_true_iff. split; apply check_zoom_spec; lia.
Qed.
Lemma vertex_ok_shift i dx dy : valid i -> vertex_ok (shift_api (print_eid i) dx dy 0) = true.
Proof.
  intros Hv. change (shift_api (print_eid i) dx dy 0) with (shift_str (print_eid i) (mko dx dy 0)).
  rewrite shift_str_print by now apply valid_okid.
  apply vertex_ok_print.
  - apply valid_okid_shift; [exact Hv|]. unfold mko, odv; cbn [fst snd]. assert (0 < 2 ^ 62) by (apply pow2_pos; lia). lia.
  - unfold shift_o, shift_spec; cbn [ev]. destruct Hv as (_ & Hvv & _). exact Hvv.
Qed.
Theorem fit_zero_clearance_valid fuel dx dy i :
  valid i -> (dx (print_eid i) 1%Z <? 0)%float = false -> (dy (print_eid i) 1%Z <? 0)%float = false ->
  fit_model (S fuel) dx dy (print_eid i) 0%float = Some (Ok (0, 0)).
Proof.
  intros Hv Dx Dy. apply fit_zero_clearance; try assumption.
  - apply vertex_ok_print; [now apply valid_okid|]. destruct Hv as (_ & Hvv & _). exact Hvv.
  - now apply vertex_ok_shift.
  - now apply vertex_ok_shift.
Qed.

(* ---- specification of the growth loop, and the loop meets it for EVERY distance oracle (no monotonicity needed) ----
   A loop started at n = 1 returns layer count k exactly when k + 1 is the FIRST probed shift whose measured distance is not below the
   clearance (Go: `clearance > dist` is false), every earlier probe 1..k was below it, and fuel sufficed. *)
Lemma fit_loop_ok c ok d fuel : forall n k,
  fit_loop fuel c ok d n = Some (Ok k) <->
  (n - 1 <= k < n - 1 + Z.of_nat fuel) /\ (forall m, n <= m <= k -> ok m = true /\ (d m <? c)%float = true) /\ ok (k + 1) = true /\ (d (k + 1)%Z <? c)%float = false.
Proof.
  induction fuel as [|fuel IH]; intros n k.
  - cbn [fit_loop]. split; [discriminate|]. intros [H _]. cbn in H. lia.
  - cbn [fit_loop]. destruct (ok n) eqn:On; cbn [negb].
    + destruct (d n <? c)%float eqn:Dn.
      * rewrite IH. split.
        -- intros (R & A & B & C). split; [lia|]. split; [|tauto]. intros m Hm.
           destruct (Z.eq_dec m n) as [->|Ne]; [auto|]. apply A. lia.
        -- intros (R & A & B & C). assert (Hk : k <> n - 1).
           { intros ->. replace (n - 1 + 1) with n in C by lia. congruence. }
           split; [lia|]. split; [|tauto]. intros m Hm. apply A. lia.
      * split.
        -- intros [= <-]. split; [lia|]. split; [intros m Hm; lia|]. replace (n - 1 + 1) with n by lia. auto.
        -- intros (R & A & B & C). assert (Hk : k = n - 1).
           { destruct (Z_le_gt_dec n k) as [L|G]; [|lia]. destruct (A n ltac:(lia)) as [_ X]. congruence. }
           now subst.
    + split; [discriminate|]. intros (R & A & B & C).
      destruct (Z_le_gt_dec n k) as [L|G].
      * destruct (A n ltac:(lia)) as [X _]. congruence.
      * replace (k + 1) with n in B by lia. congruence.
Qed.
(* the boolean form of the specification: the least stop *)
Definition least_stop (c : float) (d : Z -> float) (k : Z) : bool :=
  (0 <=? k) && forallb (fun m => (d m <? c)%float) (zrange 1 k) && negb (d (k + 1)%Z <? c)%float.
Lemma least_stop_spec c d k : least_stop c d k = true <->
  0 <= k /\ (forall m, 1 <= m <= k -> (d m <? c)%float = true) /\ (d (k + 1)%Z <? c)%float = false.
Proof.
  unfold least_stop. rewrite !andb_true_iff, Z.leb_le, forallb_forall, negb_true_iff. split.
  - intros [[A B] C]. split; [exact A|]. split; [|exact C]. intros m Hm. apply B. now apply in_zrange.
  - intros (A & B & C). split; [split; [exact A|]|exact C]. intros m Hm. apply B. now apply in_zrange.
Qed.
Lemma least_stop_unique c d k k' : least_stop c d k = true -> least_stop c d k' = true -> k = k'.
Proof.
  rewrite !least_stop_spec. intros (A & B & C) (A' & B' & C').
  destruct (Z.lt_trichotomy k k') as [L|[E|G]]; [|exact E|].
  - rewrite (B' (k + 1)) in C by lia. discriminate.
  - rewrite (B (k' + 1)) in C' by lia. discriminate.
Qed.
(* minimality + termination under fuel, for every distance oracle *)
Theorem fit_loop_meets_spec c ok d fuel k : (forall m, ok m = true) ->
  (fit_loop fuel c ok d 1 = Some (Ok k) <-> k < Z.of_nat fuel /\ least_stop c d k = true).
Proof.
  intros Hok. rewrite fit_loop_ok, least_stop_spec. split.
  - intros (R & A & _ & C). split; [lia|]. split; [lia|]. split; [|exact C]. intros m Hm. now apply A.
  - intros (R & A & B & C). split; [lia|]. split; [|split; [apply Hok|exact C]]. intros m Hm. split; [apply Hok|now apply B].
Qed.
Corollary fit_loop_terminates c ok d fuel k : (forall m, ok m = true) -> k < Z.of_nat fuel -> least_stop c d k = true ->
  fit_loop fuel c ok d 1 = Some (Ok k).
Proof. intros Hok Hf Hs. apply fit_loop_meets_spec; auto. Qed.
(* the whole function on a valid ID: first the horizontal loop (x shifts), then the second loop (y shifts, see DC14); each count is the
   least stop of its own axis *)
Theorem fit_model_meets_spec fuel dx dy i c H V : valid i -> (c <? 0)%float = false ->
  (fit_model fuel dx dy (print_eid i) c = Some (Ok (H, V)) <->
   H < Z.of_nat fuel /\ V < Z.of_nat fuel /\ least_stop c (dx (print_eid i)) H = true /\ least_stop c (dy (print_eid i)) V = true).
Proof.
  intros Hv Hc. unfold fit_model. rewrite Hc.
  assert (Vo : vertex_ok (print_eid i) = true).
  { apply vertex_ok_print; [now apply valid_okid|]. destruct Hv as (_ & Hvv & _). exact Hvv. }
  assert (A : Nat.eqb (List.length (split (print_eid i))) 5 = true).
  { unfold vertex_ok, parse_eid in Vo. destruct (split (print_eid i)) as [|a [|b [|c0 [|d [|e [|f r]]]]]]; try discriminate. reflexivity. }
  rewrite A. cbn [negb].
  assert (Ox : forall m, vertex_ok (print_eid i) && vertex_ok (shift_api (print_eid i) m 0 0) = true)
    by (intros m; now rewrite Vo, vertex_ok_shift).
  assert (Oy : forall m, vertex_ok (print_eid i) && vertex_ok (shift_api (print_eid i) 0 m 0) = true)
    by (intros m; now rewrite Vo, vertex_ok_shift).
  pose proof (fun k => fit_loop_meets_spec c _ (dx (print_eid i)) fuel k Ox) as Sx.
  pose proof (fun k => fit_loop_meets_spec c _ (dy (print_eid i)) fuel k Oy) as Sy.
  destruct (fit_loop fuel c _ (dx (print_eid i)) 1) as [[h|]|] eqn:Ex.
  - destruct (fit_loop fuel c _ (dy (print_eid i)) 1) as [[v|]|] eqn:Ey.
    + split.
      * intros [= <- <-]. destruct (proj1 (Sx h) eq_refl), (proj1 (Sy v) eq_refl). tauto.
      * intros (A1 & A2 & A3 & A4). pose proof (proj2 (Sx H) (conj A1 A3)) as X. pose proof (proj2 (Sy V) (conj A2 A4)) as Y. congruence.
    + split; [discriminate|]. intros (A1 & A2 & A3 & A4). pose proof (proj2 (Sy V) (conj A2 A4)). discriminate.
    + split; [discriminate|]. intros (A1 & A2 & A3 & A4). pose proof (proj2 (Sy V) (conj A2 A4)). discriminate.
  - split; [discriminate|]. intros (A1 & A2 & A3 & A4). pose proof (proj2 (Sx H) (conj A1 A3)). discriminate.
  - split; [discriminate|]. intros (A1 & A2 & A3 & A4). pose proof (proj2 (Sx H) (conj A1 A3)). discriminate.
Qed.

(* the part of the answer that is fixed by the structure alone (what the dispatch entry compares and what the corridor model uses):
   Some Err / Some (Ok (0,0)) / None = depends on the geometry *)
Definition fit_struct (id : string) (c : float) : option (result (Z * Z)) :=
  if (c <? 0)%float then Some Err
  else if negb (vertex_ok id) then Some Err
  else if (c =? 0)%float then Some (Ok (0, 0))
  else None.

(* ================= Part 3: the corridor over oracles ================= *)
(* facts about Neighbour.nN_api that hold for arbitrary strings *)
Lemma nN_api_layers ids H V a : nN_api ids H V = Ok a -> 0 <= H /\ 0 <= V.
Proof.
  unfold nN_api. destruct (Z.ltb_spec H 0); [discriminate|]. destruct (Z.ltb_spec V 0); [discriminate|]. intros _. lia.
Qed.
Lemma nN_api_members ids H V a : nN_api ids H V = Ok a ->
  NoDup a /\ forall s, In s a <-> exists o id, In o (stencil H V) /\ In id ids /\ s = shift_str id o.
Proof.
  unfold nN_api. destruct ((H <? 0) || (V <? 0)); [discriminate|]. destruct (negb (forallb well_formed ids)); [discriminate|].
  intros [= <-]. split; [apply Neighbour.unique_NoDup|]. intros s. rewrite Neighbour.unique_In, loops_stencil, in_flat_map. split.
  - intros (o & Ho & Hs). apply in_map_iff in Hs. destruct Hs as (id & <- & Hid). eauto.
  - intros (o & id & Ho & Hid & ->). exists o. split; [exact Ho|]. apply in_map_iff. eauto.
Qed.
Lemma nN_api_zero ids a : nN_api ids 0 0 = Ok a -> a = [].
Proof.
  unfold nN_api. cbn [Z.ltb Z.compare orb]. destruct (negb (forallb well_formed ids)); [discriminate|].
  intros [= <-]. rewrite loops_stencil, stencil_0_0. reflexivity.
Qed.
Lemma forallb_perm {A} (f : A -> bool) l l' : Permutation l l' -> forallb f l = forallb f l'.
Proof.
  intros P. destruct (forallb f l) eqn:E1, (forallb f l') eqn:E2; try reflexivity.
  - rewrite forallb_forall in E1. assert (forallb f l' = true); [|congruence].
    apply forallb_forall. intros x Hx. apply E1. eapply Permutation_in; [apply Permutation_sym, P|exact Hx].
  - rewrite forallb_forall in E2. assert (forallb f l = true); [|congruence].
    apply forallb_forall. intros x Hx. apply E2. eapply Permutation_in; [exact P|exact Hx].
Qed.
Lemma nN_api_perm ids ids' H V : Permutation ids ids' ->
  match nN_api ids H V, nN_api ids' H V with
  | Ok a, Ok a' => forall s, In s a <-> In s a'
  | Err, Err => True
  | _, _ => False
  end.
Proof.
  intros P. destruct (nN_api ids H V) as [a|] eqn:E1, (nN_api ids' H V) as [a'|] eqn:E2.
  - destruct (nN_api_members _ _ _ _ E1) as [_ M1], (nN_api_members _ _ _ _ E2) as [_ M2]. intros s. rewrite M1, M2.
    split; intros (o & id & Ho & Hid & ->); exists o, id; (split; [exact Ho|split; [|reflexivity]]).
    + eapply Permutation_in; [exact P|exact Hid].
    + eapply Permutation_in; [apply Permutation_sym, P|exact Hid].
  - unfold nN_api in E1, E2. rewrite (forallb_perm well_formed _ _ P) in E1. destruct ((H <? 0) || (V <? 0)); [discriminate|].
    destruct (negb (forallb well_formed ids')); discriminate.
  - unfold nN_api in E1, E2. rewrite (forallb_perm well_formed _ _ P) in E1. destruct ((H <? 0) || (V <? 0)); [discriminate|].
    destruct (negb (forallb well_formed ids')); discriminate.
  - exact I.
Qed.


(* sort.Strings is canonical: two sorted lists with the same elements (as multisets) are equal *)
Lemma sorted_perm_eq l : forall l',
  StronglySorted (fun a b => is_true (str_leb a b)) l -> StronglySorted (fun a b => is_true (str_leb a b)) l' ->
  Permutation l l' -> l = l'.
Proof.
  induction l as [|a r IH]; intros l' S S' P.
  - symmetry. now apply Permutation_nil.
  - destruct l' as [|b r']; [apply Permutation_sym, Permutation_nil in P; discriminate|].
    inversion S as [|? ? Sr Fa]; subst. inversion S' as [|? ? Sr' Fb]; subst.
    rewrite Forall_forall in Fa, Fb.
    assert (E : a = b).
    { assert (Ha : In a (b :: r')) by (eapply Permutation_in; [exact P|now left]).
      assert (Hb : In b (a :: r)) by (eapply Permutation_in; [apply Permutation_sym, P|now left]).
      destruct Ha as [Ha|Ha]; [congruence|]. destruct Hb as [Hb|Hb]; [congruence|].
      apply str_leb_antisym; [now apply Fa|now apply Fb]. }
    subst b. f_equal. apply IH; try assumption. eapply Permutation_cons_inv. exact P.
Qed.
Lemma sort_strings_perm_eq l l' : Permutation l l' -> sort_strings l = sort_strings l'.
Proof.
  intros P. apply sorted_perm_eq; try apply strsort_strongly.
  rewrite (sort_strings_perm l), (sort_strings_perm l'). exact P.
Qed.
Lemma sort_strings_In s l : In s (sort_strings l) <-> In s l.
Proof. split; apply Permutation_in; [apply sort_strings_perm|apply Permutation_sym, sort_strings_perm]. Qed.

Section Model.
  (* Go map orders: of the Unique inside GetNspatialIdsAroundVoxcels, of Union, of the final Unique *)
  Variables ord_n ord_u ord_q : list string -> list string.
  Hypothesis ord_n_perm : forall l, Permutation (ord_n l) l.
  Hypothesis ord_u_perm : forall l, Permutation (ord_u l) l.
  Hypothesis ord_q_perm : forall l, Permutation (ord_q l) l.
  (* oracle: FitClearanceAroundExtendedSpatialID(id, radius) at the radius of this call *)
  Variable fit : string -> result (Z * Z).
  (* oracle: the body of the measuring loop for one candidate. ONE closest.Measure (measure1) is reused for all candidates and its search
     starts from what the previous candidate left behind, so the verdict `dist < radius` is a function of the candidate AND of the state:
     St = that state, st0 = the state after the segment has been stored in ConvexHulls[0]; Err = the vertex call fails *)
  Variable St : Type.
  Variable st0 : St.
  Variable measure : St -> string -> result (bool * St).

  (* the measuring loop over the candidates in the given order: returns at the first error, collects the candidates with dist < radius *)
  Fixpoint measure_all (st : St) (cand : list string) : result (list string) :=
    match cand with
    | [] => Ok []
    | id :: r =>
        match measure st id with
        | Err => Err
        | Ok (b, st') => match measure_all st' r with Err => Err | Ok t => Ok (if b then id :: t else t) end
        end
    end.

  (* transform.GetExtendedSpatialIdsWithinRadiusOfLine (after fix 915e48e: sort.Strings(idsAroundLine) before the measuring loop);
     line = the answer of shape.GetExtendedSpatialIdsOnLine(start, end, hZoom, vZoom) (an error for nil points and zooms outside 0..35:
     Line.line_api, C06_api_errors).  An empty ID list cannot come out of a successful line call (C06_end_voxels_present); Go would panic
     on idsOnLine[0], the model answers Err and the harness reports any panic. *)
  Definition corridor (line : result (list string)) (skip : bool) : result (list string) :=
    match line with
    | Err => Err
    | Ok L =>
        match pick L with
        | None => Err
        | Some p =>
            match fit p with
            | Err => Err
            | Ok (H, V) =>
                match nN_api L H V with
                | Err => Err
                | Ok a0 =>
                    let cand := SetOps.difference String.eqb (ord_n a0) L in
                    if skip then Ok (SetOps.unique String.eqb ord_q (SetOps.union String.eqb ord_u cand L))
                    else match measure_all st0 (sort_strings cand) with
                         | Err => Err
                         | Ok add => Ok (SetOps.unique String.eqb ord_q (SetOps.union String.eqb ord_u add L))
                         end
                end
            end
        end
    end.

  Lemma measure_all_incl cand : forall st kept, measure_all st cand = Ok kept -> forall s, In s kept -> In s cand.
  Proof.
    induction cand as [|a r IH]; cbn [measure_all]; intros st kept.
    - intros [= <-] s [].
    - destruct (measure st a) as [[b st']|]; [|discriminate]. destruct (measure_all st' r) as [t|] eqn:R; [|discriminate].
      intros [= <-] s Hs. destruct b; [destruct Hs as [<-|Hs]; [now left|]|]; right; eapply IH; eassumption.
  Qed.

  (* everything the theorems need, in one inversion lemma *)
  Lemma corridor_inv line skip r : corridor line skip = Ok r ->
    exists L p H V a kept, line = Ok L /\ pick L = Some p /\ fit p = Ok (H, V) /\ nN_api L H V = Ok a /\ NoDup r /\
      (skip = false -> measure_all st0 (sort_strings (SetOps.difference String.eqb (ord_n a) L)) = Ok kept) /\
      (forall s, In s kept -> In s a /\ ~ In s L) /\
      (forall s, In s r <-> In s L \/ (In s a /\ ~ In s L /\ (skip = true \/ In s kept))).
  Proof.
    unfold corridor. destruct line as [L|]; [|discriminate]. destruct (pick L) as [p|] eqn:Ep; [|discriminate].
    destruct (fit p) as [[H V]|] eqn:Ef; [|discriminate]. destruct (nN_api L H V) as [a|] eqn:Ea; [|discriminate].
    cbv zeta. intros E.
    assert (IC : forall s, In s (SetOps.difference String.eqb (ord_n a) L) <-> In s a /\ ~ In s L).
    { intros s. rewrite (SetOps.difference_spec String.eqb String.eqb_spec). split; intros [A B]; (split; [|exact B]).
      - eapply Permutation_in; [apply ord_n_perm|exact A].
      - eapply Permutation_in; [apply Permutation_sym, ord_n_perm|exact A]. }
    destruct skip.
    - exists L, p, H, V, a, []. split; [reflexivity|]. split; [exact Ep|]. split; [exact Ef|]. split; [exact Ea|].
      injection E as <-. split; [apply (SetOps.unique_NoDup String.eqb String.eqb_spec ord_q ord_q_perm)|]. split; [discriminate|].
      split; [intros s []|].
      intros s. rewrite (SetOps.unique_spec String.eqb String.eqb_spec ord_q ord_q_perm),
        (SetOps.union_spec String.eqb String.eqb_spec ord_u ord_u_perm), IC. tauto.
    - destruct (measure_all st0 (sort_strings (SetOps.difference String.eqb (ord_n a) L))) as [add|] eqn:Em; [|discriminate].
      exists L, p, H, V, a, add. split; [reflexivity|]. split; [exact Ep|]. split; [exact Ef|]. split; [exact Ea|].
      injection E as <-. split; [apply (SetOps.unique_NoDup String.eqb String.eqb_spec ord_q ord_q_perm)|]. split; [intros _; exact Em|].
      assert (IK : forall s, In s add -> In s a /\ ~ In s L).
      { intros s Hs. apply IC. apply sort_strings_In. eapply measure_all_incl; eassumption. }
      split; [exact IK|].
      intros s. rewrite (SetOps.unique_spec String.eqb String.eqb_spec ord_q ord_q_perm),
        (SetOps.union_spec String.eqb String.eqb_spec ord_u ord_u_perm). split.
      + intros [A|A]; [right; destruct (IK s A); tauto|now left].
      + intros [A|(_ & _ & [C|C])]; [now right|discriminate|now left].
  Qed.

  Theorem corridor_NoDup line skip r : corridor line skip = Ok r -> NoDup r.
  Proof. intros E. destruct (corridor_inv _ _ _ E) as (L & p & H & V & a & k & _ & _ & _ & _ & N & _). exact N. Qed.

  Theorem corridor_contains_line L skip r : corridor (Ok L) skip = Ok r -> forall s, In s L -> In s r.
  Proof.
    intros E s Hs. destruct (corridor_inv _ _ _ E) as (L' & p & H & V & a & k & [= <-] & _ & _ & _ & _ & _ & _ & M). apply M. now left.
  Qed.

  (* exact membership, in terms of the modular shift of the line's voxels (C07/C08). In measured mode the added IDs are the list `kept`
     that the measuring loop returns when it is folded, with its state, over the SORTED candidates (box minus line) *)
  Theorem corridor_members l skip r : okids l -> corridor (Ok (map print_eid l)) skip = Ok r ->
    exists p H V kept, pick (map print_eid l) = Some p /\ fit p = Ok (H, V) /\ 0 <= H /\ 0 <= V /\
      (skip = false -> exists cand,
         (forall s, In s cand <-> (exists i o, In i l /\ In o (stencil H V) /\ s = print_eid (shift_o i o)) /\ ~ In s (map print_eid l)) /\
         measure_all st0 (sort_strings cand) = Ok kept) /\
      forall s, In s r <->
        In s (map print_eid l) \/
        ((exists i o, In i l /\ In o (stencil H V) /\ s = print_eid (shift_o i o)) /\ ~ In s (map print_eid l) /\
         (skip = true \/ In s kept)).
  Proof.
    intros Hl E. destruct (corridor_inv _ _ _ E) as (L' & p & H & V & a & kept & [= <-] & Ep & Ef & Ea & _ & Mk & _ & M).
    destruct (nN_api_layers _ _ _ _ Ea) as [HH HV]. exists p, H, V, kept. repeat (split; [assumption|]).
    destruct (nN_exact l H V Hl HH HV) as (a' & Ea' & _ & Ia). rewrite Ea in Ea'. injection Ea' as <-. split.
    - intros Hs. eexists. split; [|exact (Mk Hs)]. intros s.
      rewrite (SetOps.difference_spec String.eqb String.eqb_spec), <- Ia. split; intros [A B]; (split; [|exact B]).
      + eapply Permutation_in; [apply ord_n_perm|exact A].
      + eapply Permutation_in; [apply Permutation_sym, ord_n_perm|exact A].
    - intros s. rewrite M, Ia. tauto.
  Qed.

  (* every added ID lies in the (H,V) box of some voxel of the line, (H,V) being the layer counts reported for the picked line voxel *)
  Theorem corridor_added_in_box l skip r : okids l -> corridor (Ok (map print_eid l)) skip = Ok r ->
    exists p H V, pick (map print_eid l) = Some p /\ In p (map print_eid l) /\ fit p = Ok (H, V) /\
      forall s, In s r -> In s (map print_eid l) \/
        exists i dx dy dv, In i l /\ - H <= dx <= H /\ - H <= dy <= H /\ - V <= dv <= V /\ s = print_eid (shift_spec i dx dy dv).
  Proof.
    intros Hl E. destruct (corridor_members l skip r Hl E) as (p & H & V & kept & Ep & Ef & HH & HV & _ & M).
    exists p, H, V. split; [exact Ep|]. split; [apply (pick_spec _ _ Ep)|]. split; [exact Ef|].
    intros s Hs. apply M in Hs. destruct Hs as [Hs|[(i & o & Hi & Ho & ->) _]]; [now left|right].
    apply in_stencil in Ho. destruct Ho as [(A & B & C) _]. exists i, (odx o), (ody o), (odv o). repeat split; tauto.
  Qed.

  (* all members are at the zooms of the line's voxels *)
  Theorem corridor_zooms l h v skip r : okids l -> (forall i, In i l -> eh i = h /\ ev i = v) ->
    corridor (Ok (map print_eid l)) skip = Ok r ->
    forall s, In s r -> exists j, s = print_eid j /\ eh j = h /\ ev j = v.
  Proof.
    intros Hl Hz E s Hs. destruct (corridor_members l skip r Hl E) as (p & H & V & kept & _ & _ & _ & _ & _ & M).
    apply M in Hs. destruct Hs as [Hs|[(i & o & Hi & Ho & ->) _]].
    - apply in_map_iff in Hs. destruct Hs as (i & <- & Hi). exists i. split; [reflexivity|now apply Hz].
    - exists (shift_o i o). split; [reflexivity|]. unfold shift_o, shift_spec; cbn [eh ev]. now apply Hz.
  Qed.

  (* layer counts (0,0) — what the fit reports for radius 0 — give exactly the line *)
  Theorem corridor_zero_layers L p skip r : pick L = Some p -> fit p = Ok (0, 0) -> corridor (Ok L) skip = Ok r ->
    NoDup r /\ forall s, In s r <-> In s L.
  Proof.
    intros Ep Ef E. destruct (corridor_inv _ _ _ E) as (L' & p' & H & V & a & k & [= <-] & Ep' & Ef' & Ea & N & _ & _ & M).
    rewrite Ep in Ep'. injection Ep' as <-. rewrite Ef in Ef'. injection Ef' as <- <-.
    apply nN_api_zero in Ea. subst a. split; [exact N|]. intros s. rewrite M. cbn [In]. tauto.
  Qed.

  (* measured mode returns a subset of skip mode (and skip mode succeeds whenever measured mode does); holds whatever the filter's state *)
  Theorem measured_subset_skipped line r : corridor line false = Ok r ->
    exists r', corridor line true = Ok r' /\ forall s, In s r -> In s r'.
  Proof.
    intros E. destruct (corridor_inv _ _ _ E) as (L & p & H & V & a & k & -> & Ep & Ef & Ea & _ & _ & _ & M).
    destruct (corridor (Ok L) true) as [r'|] eqn:E'.
    - exists r'. split; [reflexivity|]. intros s Hs.
      destruct (corridor_inv _ _ _ E') as (L' & p' & H' & V' & a' & k' & [= <-] & Ep' & Ef' & Ea' & _ & _ & _ & M').
      rewrite Ep in Ep'. injection Ep' as <-. rewrite Ef in Ef'. injection Ef' as <- <-. rewrite Ea in Ea'. injection Ea' as <-.
      apply M'. apply M in Hs. destruct Hs as [Hs|(A & B & _)]; [now left|right; tauto].
    - exfalso. unfold corridor in E'. rewrite Ep, Ef, Ea in E'. discriminate.
  Qed.

  (* error paths (unfoldings of the definition; "nil point / invalid zoom => the line call fails" is C06_api_errors) *)
  Theorem corridor_line_error skip : corridor Err skip = Err.
  Proof. reflexivity. Qed.
  Theorem corridor_fit_error L p skip : pick L = Some p -> fit p = Err -> corridor (Ok L) skip = Err.
  Proof. intros Ep Ef. unfold corridor. now rewrite Ep, Ef. Qed.

  (* success: a non-empty line of well-formed IDs, non-negative layer counts and a measuring loop that never fails give a result *)
  Lemma measure_all_total_ok cand : (forall st id, measure st id <> Err) -> forall st, exists kept, measure_all st cand = Ok kept.
  Proof.
    intros T. induction cand as [|a r IH]; intros st; cbn [measure_all]; [eauto|].
    destruct (measure st a) as [[b st']|] eqn:M; [|exfalso; eapply T; eassumption].
    destruct (IH st') as (t & ->). eauto.
  Qed.
  Theorem corridor_succeeds l p H V skip : okids l -> pick (map print_eid l) = Some p -> fit p = Ok (H, V) -> 0 <= H -> 0 <= V ->
    (forall st id, measure st id <> Err) -> exists r, corridor (Ok (map print_eid l)) skip = Ok r.
  Proof.
    intros Hl Ep Ef HH HV T. unfold corridor. rewrite Ep, Ef. destruct (nN_exact l H V Hl HH HV) as (a & -> & _). cbv zeta.
    destruct skip; [eauto|].
    destruct (measure_all_total_ok (sort_strings (SetOps.difference String.eqb (ord_n a) (map print_eid l))) T st0) as (k & ->). eauto.
  Qed.
End Model.

(* ---- the result does not depend on any of the map orders nor on the order in which the line's IDs arrive (C16; D15 after fixes 70c64b2
   and 915e48e). Skip mode: no condition. Measured mode: BECAUSE the candidates are sorted before the stateful measuring loop runs — the
   loop then sees the same list, whatever the map orders were; `measure` may depend on its state in any way. ---- *)
Section Blind.
  Variables ord_n ord_u ord_q ord_n' ord_u' ord_q' : list string -> list string.
  Hypothesis Pn : forall l, Permutation (ord_n l) l.
  Hypothesis Pu : forall l, Permutation (ord_u l) l.
  Hypothesis Pq : forall l, Permutation (ord_q l) l.
  Hypothesis Pn' : forall l, Permutation (ord_n' l) l.
  Hypothesis Pu' : forall l, Permutation (ord_u' l) l.
  Hypothesis Pq' : forall l, Permutation (ord_q' l) l.
  Variable fit : string -> result (Z * Z).
  Variable St : Type.
  Variable st0 : St.
  Variable measure : St -> string -> result (bool * St).

  Lemma corridor_transport L L' skip r : Permutation L L' ->
    corridor ord_n ord_u ord_q fit St st0 measure (Ok L) skip = Ok r ->
    exists r', corridor ord_n' ord_u' ord_q' fit St st0 measure (Ok L') skip = Ok r' /\ forall s, In s r <-> In s r'.
  Proof.
    intros P E. unfold corridor in E |- *. rewrite <- (pick_perm L L' P). destruct (pick L) as [p|]; [|discriminate].
    destruct (fit p) as [[H V]|]; [|discriminate]. pose proof (nN_api_perm L L' H V P) as NP.
    destruct (nN_api L H V) as [a|] eqn:Ea; [|discriminate]. destruct (nN_api L' H V) as [a'|] eqn:Ea'; [|contradiction].
    cbv zeta in E |- *.
    assert (IL : forall s, In s L <-> In s L').
    { intros s. split; apply Permutation_in; [exact P|apply Permutation_sym, P]. }
    assert (IC : forall s, In s (SetOps.difference String.eqb (ord_n a) L) <-> In s a /\ ~ In s L).
    { intros s. rewrite (SetOps.difference_spec String.eqb String.eqb_spec). split; intros [A B]; (split; [|exact B]).
      - eapply Permutation_in; [apply Pn|exact A].
      - eapply Permutation_in; [apply Permutation_sym, Pn|exact A]. }
    assert (IC' : forall s, In s (SetOps.difference String.eqb (ord_n' a') L') <-> In s a' /\ ~ In s L').
    { intros s. rewrite (SetOps.difference_spec String.eqb String.eqb_spec). split; intros [A B]; (split; [|exact B]).
      - eapply Permutation_in; [apply Pn'|exact A].
      - eapply Permutation_in; [apply Permutation_sym, Pn'|exact A]. }
    destruct skip.
    - injection E as <-. eexists. split; [reflexivity|]. intros s.
      rewrite !(SetOps.unique_spec String.eqb String.eqb_spec _ Pq), !(SetOps.unique_spec String.eqb String.eqb_spec _ Pq'),
        (SetOps.union_spec String.eqb String.eqb_spec _ Pu), (SetOps.union_spec String.eqb String.eqb_spec _ Pu'), IC, IC', NP, IL. tauto.
    - assert (PC : Permutation (SetOps.difference String.eqb (ord_n a) L) (SetOps.difference String.eqb (ord_n' a') L')).
      { destruct (nN_api_members _ _ _ _ Ea) as [Na _], (nN_api_members _ _ _ _ Ea') as [Na' _].
        apply NoDup_Permutation.
        - apply SetOps.difference_NoDup. eapply Permutation_NoDup; [apply Permutation_sym, Pn|exact Na].
        - apply SetOps.difference_NoDup. eapply Permutation_NoDup; [apply Permutation_sym, Pn'|exact Na'].
        - intros s. rewrite IC, IC', NP, IL. tauto. }
      rewrite <- (sort_strings_perm_eq _ _ PC).
      destruct (measure_all St measure st0 (sort_strings (SetOps.difference String.eqb (ord_n a) L))) as [kept|]; [|discriminate].
      injection E as <-. eexists. split; [reflexivity|]. intros s.
      rewrite !(SetOps.unique_spec String.eqb String.eqb_spec _ Pq), !(SetOps.unique_spec String.eqb String.eqb_spec _ Pq'),
        (SetOps.union_spec String.eqb String.eqb_spec _ Pu), (SetOps.union_spec String.eqb String.eqb_spec _ Pu'), IL. tauto.
  Qed.
End Blind.

Theorem corridor_order_blind ord_n ord_u ord_q ord_n' ord_u' ord_q' fit St st0 measure L L' skip :
  (forall l, Permutation (ord_n l) l) -> (forall l, Permutation (ord_u l) l) -> (forall l, Permutation (ord_q l) l) ->
  (forall l, Permutation (ord_n' l) l) -> (forall l, Permutation (ord_u' l) l) -> (forall l, Permutation (ord_q' l) l) ->
  Permutation L L' ->
  match corridor ord_n ord_u ord_q fit St st0 measure (Ok L) skip, corridor ord_n' ord_u' ord_q' fit St st0 measure (Ok L') skip with
  | Ok r, Ok r' => Permutation r r'
  | Err, Err => True
  | _, _ => False
  end.
Proof.
  intros Pn Pu Pq Pn' Pu' Pq' P.
  destruct (corridor ord_n ord_u ord_q fit St st0 measure (Ok L) skip) as [r|] eqn:E.
  - destruct (corridor_transport ord_n ord_u ord_q ord_n' ord_u' ord_q' Pn Pu Pq Pn' Pu' Pq' fit St st0 measure L L' skip r P E) as (r' & E' & I).
    rewrite E'. apply NoDup_Permutation; [|exact (corridor_NoDup ord_n' ord_u' ord_q' Pn' Pu' Pq' fit St st0 measure _ _ _ E')|exact I].
    exact (corridor_NoDup ord_n ord_u ord_q Pn Pu Pq fit St st0 measure _ _ _ E).
  - destruct (corridor ord_n' ord_u' ord_q' fit St st0 measure (Ok L') skip) as [r'|] eqn:E'; [|exact I].
    destruct (corridor_transport ord_n' ord_u' ord_q' ord_n ord_u ord_q Pn' Pu' Pq' Pn Pu Pq fit St st0 measure L' L skip r' (Permutation_sym P) E')
      as (r & E2 & _). congruence.
Qed.

(* ---- composition with the skeleton of the fit: negative radius is an error; radius 0 gives exactly the line ---- *)
Definition fit_of_model (fuel : nat) (dx dy : string -> Z -> float) (c : float) (id : string) : result (Z * Z) :=
  match fit_model fuel dx dy id c with Some r => r | None => Err end.

Theorem corridor_negative_radius ord_n ord_u ord_q fuel dx dy c St st0 measure line skip :
  (c <? 0)%float = true -> corridor ord_n ord_u ord_q (fit_of_model fuel dx dy c) St st0 measure line skip = Err.
Proof.
  intros Hc. unfold corridor. destruct line as [L|]; [|reflexivity]. destruct (pick L); [|reflexivity].
  unfold fit_of_model. now rewrite (fit_negative fuel dx dy _ c Hc).
Qed.

Theorem corridor_radius_zero ord_n ord_u ord_q fuel dx dy St st0 measure l skip r :
  (forall l, Permutation (ord_n l) l) -> (forall l, Permutation (ord_u l) l) -> (forall l, Permutation (ord_q l) l) ->
  valids l ->
  (forall id, (dx id 1%Z <? 0)%float = false) -> (forall id, (dy id 1%Z <? 0)%float = false) ->   (* measured distances are not negative *)
  corridor ord_n ord_u ord_q (fit_of_model (S fuel) dx dy 0%float) St st0 measure (Ok (map print_eid l)) skip = Ok r ->
  NoDup r /\ forall s, In s r <-> In s (map print_eid l).
Proof.
  intros Pn Pu Pq Hl Dx Dy E.
  destruct (corridor_inv _ _ _ Pn Pu Pq _ _ _ _ _ _ _ E) as (L & p & H & V & a & k & [= <-] & Ep & _).
  destruct (pick_spec _ _ Ep) as [Ip _]. apply in_map_iff in Ip. destruct Ip as (i & <- & Hi).
  apply (corridor_zero_layers ord_n ord_u ord_q Pn Pu Pq (fit_of_model (S fuel) dx dy 0%float) St st0 measure (map print_eid l) (print_eid i) skip r Ep);
    [|exact E].
  unfold fit_of_model. rewrite fit_zero_clearance_valid; [reflexivity|now apply Hl|apply Dx|apply Dy].
Qed.

(* ================= Part 4: executable instance ================= *)
(* the same composition on balanced-tree sets (a Go map is a set of keys); map orders := first occurrence; the filter is a function of
   the candidate alone (at run time: membership in the observed result), i.e. the stateful loop with a trivial state *)
Definition corridor_exec (fit : string -> result (Z * Z)) (nearb : string -> bool) (line : result (list string)) (skip : bool)
  : result (list string) :=
  match line with
  | Err => Err
  | Ok L =>
      match pick L with
      | None => Err
      | Some p =>
          match fit p with
          | Err => Err
          | Ok (H, V) =>
              match nN_api L H V with
              | Err => Err
              | Ok a =>
                  let sl := set_of L in
                  let cand := filter (fun x => negb (SS.mem x sl)) a in
                  Ok (Neighbour.unique ((if skip then cand else filter nearb cand) ++ L))
              end
          end
      end
  end.

Lemma mem_set_of x L : SS.mem x (set_of L) = true <-> In x L.
Proof. rewrite SS.mem_spec. apply set_of_In. Qed.
Lemma not_mem_set_of x L : negb (SS.mem x (set_of L)) = true <-> ~ In x L.
Proof. rewrite negb_true_iff, <- mem_set_of. destruct (SS.mem x (set_of L)); split; congruence. Qed.
Definition stateless (f : string -> bool) : unit -> string -> result (bool * unit) := fun _ id => Ok (f id, tt).
Lemma measure_all_total (f : string -> bool) cand : measure_all unit (stateless f) tt cand = Ok (filter f cand).
Proof.
  induction cand as [|a r IH]; [reflexivity|]. cbn [measure_all filter]. unfold stateless at 1. rewrite IH. destruct (f a); reflexivity.
Qed.

Theorem corridor_exec_equiv ord_n ord_u ord_q fit nearb line skip :
  (forall l, Permutation (ord_n l) l) -> (forall l, Permutation (ord_u l) l) -> (forall l, Permutation (ord_q l) l) ->
  match corridor_exec fit nearb line skip, corridor ord_n ord_u ord_q fit unit tt (stateless nearb) line skip with
  | Ok r, Ok r' => Permutation r r'
  | Err, Err => True
  | _, _ => False
  end.
Proof.
  intros Pn Pu Pq. unfold corridor_exec, corridor. destruct line as [L|]; [|exact I]. destruct (pick L) as [p|]; [|exact I].
  destruct (fit p) as [[H V]|]; [|exact I]. destruct (nN_api L H V) as [a|]; [|exact I]. cbv zeta.
  assert (IC : forall s, In s (SetOps.difference String.eqb (ord_n a) L) <-> In s a /\ ~ In s L).
  { intros s. rewrite (SetOps.difference_spec String.eqb String.eqb_spec). split; intros [A B]; (split; [|exact B]).
    - eapply Permutation_in; [apply Pn|exact A].
    - eapply Permutation_in; [apply Permutation_sym, Pn|exact A]. }
  destruct skip.
  - apply NoDup_Permutation; [apply Neighbour.unique_NoDup|apply (SetOps.unique_NoDup String.eqb String.eqb_spec ord_q Pq)|].
    intros s. rewrite Neighbour.unique_In, in_app_iff, filter_In, not_mem_set_of,
      (SetOps.unique_spec String.eqb String.eqb_spec ord_q Pq), (SetOps.union_spec String.eqb String.eqb_spec ord_u Pu), IC. tauto.
  - rewrite measure_all_total.
    apply NoDup_Permutation; [apply Neighbour.unique_NoDup|apply (SetOps.unique_NoDup String.eqb String.eqb_spec ord_q Pq)|].
    intros s. rewrite Neighbour.unique_In, in_app_iff, !filter_In, not_mem_set_of,
      (SetOps.unique_spec String.eqb String.eqb_spec ord_q Pq), (SetOps.union_spec String.eqb String.eqb_spec ord_u Pu), filter_In,
      sort_strings_In, IC. tauto.
Qed.

(* ---- Part 4b: executable instance WITH the stateful measuring loop (used to replay the real loop at run time) ----
   candidates = the list the measuring loop iterates over: box minus line, sorted (fix 915e48e); [] when the call fails before the loop *)
Definition candidates (fit : string -> result (Z * Z)) (line : result (list string)) : list string :=
  match line with
  | Err => []
  | Ok L =>
      match pick L with
      | None => []
      | Some p =>
          match fit p with
          | Err => []
          | Ok (H, V) =>
              match nN_api L H V with
              | Err => []
              | Ok a => let sl := set_of L in sort_strings (filter (fun x => negb (SS.mem x sl)) a)
              end
          end
      end
  end.
Definition corridor_run (fit : string -> result (Z * Z)) (St : Type) (st0 : St) (measure : St -> string -> result (bool * St))
  (line : result (list string)) (skip : bool) : result (list string) :=
  match line with
  | Err => Err
  | Ok L =>
      match pick L with
      | None => Err
      | Some p =>
          match fit p with
          | Err => Err
          | Ok (H, V) =>
              match nN_api L H V with
              | Err => Err
              | Ok a =>
                  let sl := set_of L in
                  let cand := filter (fun x => negb (SS.mem x sl)) a in
                  if skip then Ok (Neighbour.unique (cand ++ L))
                  else match measure_all St measure st0 (sort_strings cand) with
                       | Err => Err
                       | Ok kept => Ok (Neighbour.unique (kept ++ L))
                       end
              end
          end
      end
  end.

(* the kept list depends on the candidates only through their multiset: the loop sees them sorted *)
Theorem measure_all_sorted_perm St (measure : St -> string -> result (bool * St)) st0 c c' : Permutation c c' ->
  measure_all St measure st0 (sort_strings c) = measure_all St measure st0 (sort_strings c').
Proof. intros P. now rewrite (sort_strings_perm_eq c c' P). Qed.

(* the stateful executable instance has the error flag and, up to order, the result of the model, for every map order and EVERY
   state-dependent measure *)
Theorem corridor_run_equiv ord_n ord_u ord_q fit St st0 measure line skip :
  (forall l, Permutation (ord_n l) l) -> (forall l, Permutation (ord_u l) l) -> (forall l, Permutation (ord_q l) l) ->
  match corridor_run fit St st0 measure line skip, corridor ord_n ord_u ord_q fit St st0 measure line skip with
  | Ok r, Ok r' => Permutation r r'
  | Err, Err => True
  | _, _ => False
  end.
Proof.
  intros Pn Pu Pq. unfold corridor_run, corridor. destruct line as [L|]; [|exact I]. destruct (pick L) as [p|]; [|exact I].
  destruct (fit p) as [[H V]|]; [|exact I]. destruct (nN_api L H V) as [a|] eqn:Ea; [|exact I]. cbv zeta.
  assert (IC : forall s, In s (SetOps.difference String.eqb (ord_n a) L) <-> In s a /\ ~ In s L).
  { intros s. rewrite (SetOps.difference_spec String.eqb String.eqb_spec). split; intros [A B]; (split; [|exact B]).
    - eapply Permutation_in; [apply Pn|exact A].
    - eapply Permutation_in; [apply Permutation_sym, Pn|exact A]. }
  destruct skip.
  - apply NoDup_Permutation; [apply Neighbour.unique_NoDup|apply (SetOps.unique_NoDup String.eqb String.eqb_spec ord_q Pq)|].
    intros s. rewrite Neighbour.unique_In, in_app_iff, filter_In, not_mem_set_of,
      (SetOps.unique_spec String.eqb String.eqb_spec ord_q Pq), (SetOps.union_spec String.eqb String.eqb_spec ord_u Pu), IC. tauto.
  - assert (PC : Permutation (filter (fun x => negb (SS.mem x (set_of L))) a) (SetOps.difference String.eqb (ord_n a) L)).
    { destruct (nN_api_members _ _ _ _ Ea) as [Na _]. apply NoDup_Permutation.
      - now apply NoDup_filter.
      - apply SetOps.difference_NoDup. eapply Permutation_NoDup; [apply Permutation_sym, Pn|exact Na].
      - intros s. rewrite filter_In, not_mem_set_of, IC. tauto. }
    rewrite (sort_strings_perm_eq _ _ PC).
    destruct (measure_all St measure st0 (sort_strings (SetOps.difference String.eqb (ord_n a) L))) as [kept|]; [|exact I].
    apply NoDup_Permutation; [apply Neighbour.unique_NoDup|apply (SetOps.unique_NoDup String.eqb String.eqb_spec ord_q Pq)|].
    intros s. rewrite Neighbour.unique_In, in_app_iff,
      (SetOps.unique_spec String.eqb String.eqb_spec ord_q Pq), (SetOps.union_spec String.eqb String.eqb_spec ord_u Pu). tauto.
Qed.
(* what the measured run returns, in terms of the list handed to the measuring loop *)
Theorem corridor_run_measured fit St st0 measure L r : corridor_run fit St st0 measure (Ok L) false = Ok r ->
  exists kept, measure_all St measure st0 (candidates fit (Ok L)) = Ok kept /\
    NoDup r /\ (forall s, In s r <-> In s kept \/ In s L) /\ (forall s, In s kept -> In s (candidates fit (Ok L)) /\ ~ In s L).
Proof.
  unfold corridor_run, candidates. destruct (pick L) as [p|]; [|discriminate]. destruct (fit p) as [[H V]|]; [|discriminate].
  destruct (nN_api L H V) as [a|]; [|discriminate]. cbv zeta.
  destruct (measure_all St measure st0 (sort_strings (filter (fun x => negb (SS.mem x (set_of L))) a))) as [kept|] eqn:Em; [|discriminate].
  intros [= <-]. exists kept. split; [reflexivity|]. split; [apply Neighbour.unique_NoDup|]. split.
  - intros s. now rewrite Neighbour.unique_In, in_app_iff.
  - intros s Hs. pose proof (measure_all_incl St measure _ _ _ Em s Hs) as Hc. split; [exact Hc|].
    apply sort_strings_In, filter_In in Hc. now apply not_mem_set_of.
Qed.
(* skip mode does not depend on the measure at all, and contains the measured result *)
Theorem corridor_run_measured_subset fit St st0 measure line r : corridor_run fit St st0 measure line false = Ok r ->
  exists r', corridor_run fit St st0 measure line true = Ok r' /\ forall s, In s r -> In s r'.
Proof.
  unfold corridor_run. destruct line as [L|]; [|discriminate]. destruct (pick L) as [p|]; [|discriminate].
  destruct (fit p) as [[H V]|]; [|discriminate]. destruct (nN_api L H V) as [a|]; [|discriminate]. cbv zeta.
  destruct (measure_all St measure st0 (sort_strings (filter (fun x => negb (SS.mem x (set_of L))) a))) as [kept|] eqn:Em; [|discriminate].
  intros [= <-]. eexists. split; [reflexivity|]. intros s. rewrite !Neighbour.unique_In, !in_app_iff. intros [Hs|Hs]; [left|now right].
  apply (measure_all_incl St measure _ _ _ Em) in Hs. exact (proj1 (sort_strings_In _ _) Hs).
Qed.

(* the run-time instance of the measure: the state is the list of answers the REAL loop gave when it was asked, with its one reused
   closest.Measure, to measure exactly `candidates` in that order (oracle "mloop"); each answer is the distance of that candidate, or the
   failure of its vertex call; the verdict is Go's `dist < radius` *)
Definition replay (radius : float) (st : list (result float)) (_ : string) : result (bool * list (result float)) :=
  match st with
  | Ok d :: r => Ok ((d <? radius)%float, r)
  | _ => Err
  end.
Theorem replay_all radius cs : forall ds, List.length ds = List.length cs ->
  measure_all _ (replay radius) (map Ok ds) cs = Ok (map fst (filter (fun p => (snd p <? radius)%float) (combine cs ds))).
Proof.
  induction cs as [|c r IH]; intros [|d ds] Hl; try discriminate; [reflexivity|].
  cbn [map measure_all replay combine filter snd]. rewrite IH by (cbn in Hl; congruence).
  destruct (d <? radius)%float; reflexivity.
Qed.

(* ================= Part 5: the checker applied to the implementation's observed output ================= *)
Definition subset_s (a b : list string) : bool := let t := set_of b in forallb (fun x => SS.mem x t) a.
Lemma subset_s_spec a b : subset_s a b = true <-> forall s, In s a -> In s b.
Proof.
  unfold subset_s. rewrite forallb_forall. split; intros H s Hs.
  - apply mem_set_of. now apply H.
  - apply mem_set_of. now apply H.
Qed.
Definition at_zooms (h v : Z) (s : string) : bool :=
  match parse_eid s with Some i => (eh i =? h) && (ev i =? v) | None => false end.
Definition added_of (L o : list string) : list string := let t := set_of L in filter (fun x => negb (SS.mem x t)) o.

(* o: observed IDs; (h,v): requested zooms; zero: the radius is 0; L: the line's IDs (oracle); (H,V): the reported layer counts *)
Definition check_corridor (h v : Z) (zero : bool) (L : list string) (H V : Z) (o : list string) : bool :=
  nodup_chk o && forallb (at_zooms h v) o && subset_s L o && (if zero then subset_s o L else true) &&
  subset_s (added_of L o) (nN_list L H V).

Theorem check_corridor_sound l h v zero H V o : okids l -> 0 <= H -> 0 <= V ->
  check_corridor h v zero (map print_eid l) H V o = true ->
  NoDup o /\
  (forall s, In s o -> exists j, parse_eid s = Some j /\ eh j = h /\ ev j = v) /\
  (forall s, In s (map print_eid l) -> In s o) /\
  (zero = true -> forall s, In s o <-> In s (map print_eid l)) /\
  (forall s, In s o -> In s (map print_eid l) \/
     exists i dx dy dv, In i l /\ - H <= dx <= H /\ - H <= dy <= H /\ - V <= dv <= V /\ s = print_eid (shift_spec i dx dy dv)).
Proof.
  intros Hl HH HV. unfold check_corridor. rewrite !andb_true_iff. intros [[[[A B] C] D] E].
  apply nodup_chk_sound in A. rewrite forallb_forall in B. rewrite subset_s_spec in C. rewrite subset_s_spec in E.
  split; [exact A|]. split; [|split; [exact C|split]].
  - intros s Hs. specialize (B s Hs). unfold at_zooms in B. destruct (parse_eid s) as [j|]; [|discriminate].
    apply andb_true_iff in B. destruct B as [B1 B2]. exists j. split; [reflexivity|]. split; now apply Z.eqb_eq.
  - intros -> s. rewrite subset_s_spec in D. split; [apply D|apply C].
  - intros s Hs. destruct (in_dec string_dec s (map print_eid l)) as [I|N]; [now left|right].
    assert (Ha : In s (added_of (map print_eid l) o)).
    { unfold added_of. apply filter_In. split; [exact Hs|]. now apply not_mem_set_of. }
    apply E in Ha. destruct (nN_exact_explicit l H V Hl HH HV) as (r & Er & _ & Ir). unfold nN_list in Ha. rewrite Er in Ha.
    apply Ir in Ha. destruct Ha as (i & dx & dy & dv & Hi & X & Y & Z0 & _ & ->). exists i, dx, dy, dv. tauto.
Qed.

(* the verified model passes its own checker (the checker asks no more than the theorems give): skip mode, every map order *)
Lemma at_zooms_print j h v : okid j -> eh j = h -> ev j = v -> at_zooms h v (print_eid j) = true.
Proof.
  intros Hj <- <-. unfold at_zooms. rewrite parse_print_eid by now apply okid_fields. now rewrite !Z.eqb_refl.
Qed.
Lemma nodup_chk_complete o : NoDup o -> nodup_chk o = true.
Proof.
  intros H. unfold nodup_chk. rewrite Neighbour.unique_id by exact H.
  destruct (list_eqb_spec String.eqb String.eqb_spec o o); congruence.
Qed.
Theorem check_corridor_accepts_model ord_n ord_u ord_q fit St st0 measure l h v skip r p H V :
  (forall l, Permutation (ord_n l) l) -> (forall l, Permutation (ord_u l) l) -> (forall l, Permutation (ord_q l) l) ->
  valids l -> (forall i, In i l -> eh i = h /\ ev i = v) -> V <= 2 ^ 62 ->
  pick (map print_eid l) = Some p -> fit p = Ok (H, V) ->
  corridor ord_n ord_u ord_q fit St st0 measure (Ok (map print_eid l)) skip = Ok r ->
  check_corridor h v ((H =? 0) && (V =? 0)) (map print_eid l) H V r = true.
Proof.
  intros Pn Pu Pq Hl Hz HV62 Ep Ef E. pose proof (valids_okids l Hl) as Hok.
  destruct (corridor_members ord_n ord_u ord_q Pn Pu Pq fit St st0 measure l skip r Hok E) as (p' & H' & V' & kept & Ep' & Ef' & HH & HV & _ & M).
  rewrite Ep in Ep'. injection Ep' as <-. rewrite Ef in Ef'. injection Ef' as <- <-.
  unfold check_corridor. rewrite !andb_true_iff. repeat split.
  - apply nodup_chk_complete. exact (corridor_NoDup ord_n ord_u ord_q Pn Pu Pq fit St st0 measure _ _ _ E).
  - apply forallb_forall. intros s Hs. apply M in Hs. destruct Hs as [Hs|[(i & o & Hi & Ho & ->) _]].
    + apply in_map_iff in Hs. destruct Hs as (i & <- & Hi). apply at_zooms_print; [now apply Hok|now apply Hz|now apply Hz].
    + apply at_zooms_print.
      * apply valid_okid_shift; [now apply Hl|]. apply in_stencil in Ho. destruct Ho as [(_ & _ & C) _]. lia.
      * unfold shift_o, shift_spec; cbn [eh]. now apply Hz.
      * unfold shift_o, shift_spec; cbn [ev]. now apply Hz.
  - apply subset_s_spec. intros s Hs. apply M. now left.
  - destruct ((H =? 0) && (V =? 0)) eqn:Z0; [|reflexivity]. apply andb_true_iff in Z0. destruct Z0 as [Z1 Z2].
    apply Z.eqb_eq in Z1, Z2. subst H V. apply subset_s_spec. intros s Hs. apply M in Hs.
    destruct Hs as [Hs|[(i & o & _ & Ho & _) _]]; [exact Hs|]. rewrite stencil_0_0 in Ho. destruct Ho.
  - apply subset_s_spec. intros s Hs. unfold added_of in Hs. apply filter_In in Hs. destruct Hs as [Hs Hn].
    apply not_mem_set_of in Hn. apply M in Hs. destruct Hs as [Hs|[X _]]; [contradiction|].
    destruct (nN_exact l H V Hok HH HV) as (a & Ea & _ & Ia). unfold nN_list. rewrite Ea. now apply Ia.
Qed.
