(* SetMore.v — an independent judge for common.Include (membership decided by counting: removing the target shortens the list),
   and executable helpers for instantiating the set helpers at float64.
   Type restriction of every set theorem of SetOps.v / properties/C20.v: the element type's `==` must be Leibniz equality (`eqb_spec`).
   That holds for Go's integers, strings, booleans, pointers; it does NOT hold for float64 (NaN <> NaN; +0 == -0 with different bits) nor
   for interface values (== may panic). The float64 instantiation is therefore run without NaN and judged up to `==`. *)
From Coq Require Import List Bool Arith Lia Floats.
From SID Require Import Base.
Import ListNotations.

Section Inc.
  Context {A : Type} (eqb : A -> A -> bool).
  Definition check_include (l : list A) (t : A) (o : bool) : bool :=
    Bool.eqb o (Nat.ltb (length (filter (fun y => negb (eqb y t)) l)) (length l)).
  Lemma filter_length_le (f : A -> bool) l : length (filter f l) <= length l.
  Proof. induction l as [|a r IH]; cbn; [lia|]. destruct (f a); cbn; lia. Qed.
  Lemma filter_length_lt (f : A -> bool) l : length (filter f l) < length l <-> exists x, In x l /\ f x = false.
  Proof.
    induction l as [|a r IH]; cbn.
    - split; [lia|intros (x & [] & _)].
    - pose proof (filter_length_le f r). destruct (f a) eqn:E; cbn.
      + rewrite <- Nat.succ_lt_mono, IH. split; intros (x & Hx & Fx); [exists x; auto|].
        destruct Hx as [<-|Hx]; [congruence|exists x; auto].
      + split; [intros _; exists a; auto|lia].
  Qed.
  Hypothesis eqb_spec : forall a b, reflect (a = b) (eqb a b).
  Theorem check_include_spec l t o : check_include l t o = true <-> (o = true <-> In t l).
  Proof.
    unfold check_include.
    assert (E : Nat.ltb (length (filter (fun y => negb (eqb y t)) l)) (length l) = true <-> In t l).
    { rewrite Nat.ltb_lt, filter_length_lt. split.
      - intros (x & Hx & Fx). apply negb_false_iff in Fx. destruct (eqb_spec x t); [subst; exact Hx|discriminate].
      - intros H. exists t. split; [exact H|]. apply negb_false_iff. destruct (eqb_spec t t); congruence. }
    destruct (Nat.ltb _ _) eqn:L, o; cbn; split; intros H; try reflexivity; try discriminate; try tauto.
    all: try (exfalso; destruct H as [H1 H2]; (assert (T : true = true) by reflexivity);
              first [ apply H1 in T; apply E in T; discriminate | assert (I : In t l) by (apply E; reflexivity); apply H2 in I; discriminate ]).
  Qed.
End Inc.

(* float64 lists without NaN: insertion sort by <= (executable only) *)
Fixpoint finsert (x : float) (l : list float) : list float :=
  match l with [] => [x] | y :: r => if (x <=? y)%float then x :: l else y :: finsert x r end.
Definition fsortF (l : list float) : list float := fold_right finsert [] l.
Definition has_nanF (l : list float) : bool := existsb is_nan l.
