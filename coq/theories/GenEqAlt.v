(* GenEqAlt.v — generated altitude-key kernels (transform/convert_quadkey_and_Vertical_id.go) = AltKeyCore models *)
From Coq Require Import ZArith Bool Lia.
From SIDGen Require Import Generated.
From SID Require Import Base Ids ZoomCore AltKeyCore GenTac.
Open Scope Z_scope.
Opaque Generated.CalculateArithmeticShift.

(* transform.validateIndexExists returns (error, ok) *)
Lemma gen_validateIndexExists_eq : forall i z neg,
  Generated.validateIndexExists i z neg = (negb (index_exists i z neg), index_exists i z neg).
Proof. gen_eq models_base. Qed.

(* transform.convertZToMinAltitudekey = AltKeyCore.z2minkey *)
Lemma gen_convertZToMinAltitudekey_eq : forall f z out E O,
  Generated.convertZToMinAltitudekey f z out E O = enc_z (z2minkey f z out E O).
Proof. gen_eq models_base. Qed.

(* transform.ConvertZToMinMaxAltitudekey = AltKeyCore.z2key *)
Lemma gen_ConvertZToMinMaxAltitudekey_eq : forall f z out E O,
  Generated.ConvertZToMinMaxAltitudekey f z out E O = enc_zz (z2key f z out E O).
Proof. gen_eq models_base. Qed.

(* transform.ConvertAltitudekeyToMinMaxZ = AltKeyCore.key2z *)
Lemma gen_ConvertAltitudekeyToMinMaxZ_eq : forall k kz out E O,
  Generated.ConvertAltitudekeyToMinMaxZ k kz out E O = enc_zz (key2z k kz out E O).
Proof. gen_eq models_base. Qed.

Lemma gen_ZOriginValue_eq : Generated.ZOriginValue = zorigin. Proof. reflexivity. Qed.
Lemma gen_ZBaseOffsetForNegativeFIndex_eq : Generated.ZBaseOffsetForNegativeFIndex = zbase_offset_neg. Proof. reflexivity. Qed.
Lemma gen_ZBaseOffsetForNegativeFIndex_val : Generated.ZBaseOffsetForNegativeFIndex = 2 ^ 24. Proof. reflexivity. Qed.
Transparent Generated.CalculateArithmeticShift.
