(* Neighbour.v — operated.Get6spatialIdsAdjacentToFaces / Get8spatialIdsAroundHorizontal / Get26spatialIdsAroundVoxel /
   GetNspatialIdsAroundVoxcels (C08; imported by C14).
   Part 1: offsets, the box and the stencil (all offsets of the box except the centre), counting.
   Part 2: executable string-level models, enumerating offsets exactly as the Go code does.
   Part 3: specification (modular shift by every offset of the stencil) and the theorems model = specification,
           counts / injectivity when the stencil is narrower than the grid, symmetry, error cases.
   Part 4: boolean checkers applied to the implementation's observed output, proved sound. *)
From Coq Require Import ZArith Lia List Bool String DecimalString DecimalZ Decimal MSets OrderedTypeEx OrdersAlt.
From SID Require Import Base Str Ids Shift.
Import ListNotations.
Open Scope Z_scope.
Open Scope list_scope.
Ltac Zify.zify_post_hook ::= Z.div_mod_to_equations.

(* ================= Part 1: offsets ================= *)
Definition off := (Z * (Z * Z))%type.
Definition odx (o : off) : Z := fst o.
Definition ody (o : off) : Z := fst (snd o).
Definition odv (o : off) : Z := snd (snd o).
Definition mko (a b c : Z) : off := (a, (b, c)).
Definition o0 : off := mko 0 0 0.
Definition oneg (o : off) : off := mko (- odx o) (- ody o) (- odv o).
Definition oadd (a b : off) : off := mko (odx a + odx b) (ody a + ody b) (odv a + odv b).
Definition is0 (o : off) : bool := (odx o =? 0) && (ody o =? 0) && (odv o =? 0).
Definition off_eqb (a b : off) : bool := (odx a =? odx b) && (ody a =? ody b) && (odv a =? odv b).

Lemma off_eqb_spec a b : reflect (a = b) (off_eqb a b).
Proof.
  destruct a as [a1 [a2 a3]], b as [b1 [b2 b3]]. unfold off_eqb, odx, ody, odv; cbn [fst snd].
  destruct (Z.eqb_spec a1 b1), (Z.eqb_spec a2 b2), (Z.eqb_spec a3 b3); cbn; constructor; congruence.
Qed.
Lemma is0_spec o : is0 o = true <-> o = o0.
Proof.
  destruct o as [a [b c]]. unfold is0, o0, mko, odx, ody, odv; cbn [fst snd].
  rewrite !andb_true_iff, !Z.eqb_eq. split; [intros [[-> ->] ->]; reflexivity|intros [= -> -> ->]; auto].
Qed.
Lemma oneg_oneg o : oneg (oneg o) = o.
Proof. destruct o as [a [b c]]. unfold oneg, mko, odx, ody, odv; cbn [fst snd]. now rewrite !Z.opp_involutive. Qed.
Lemma oneg_0 o : oneg o = o0 -> o = o0.
Proof. intros H. rewrite <- (oneg_oneg o), H. reflexivity. Qed.

(* the box of GetNspatialIdsAroundVoxcels and its stencil: all (dx,dy,dv) of the box except (0,0,0) *)
Definition box (H V : Z) : list off := list_prod (zrange (- H) H) (list_prod (zrange (- H) H) (zrange (- V) V)).
Definition stencil (H V : Z) : list off := filter (fun o => negb (is0 o)) (box H V).
Definition in_box (H V : Z) (o : off) : Prop := - H <= odx o <= H /\ - H <= ody o <= H /\ - V <= odv o <= V.

Lemma in_box_iff H V o : In o (box H V) <-> in_box H V o.
Proof.
  destruct o as [a [b c]]. unfold box, in_box, odx, ody, odv, off; cbn [fst snd].
  rewrite !in_prod_iff, !in_zrange. tauto.
Qed.
Lemma in_stencil H V o : In o (stencil H V) <-> in_box H V o /\ o <> o0.
Proof.
  unfold stencil. rewrite filter_In, in_box_iff, negb_true_iff.
  split; intros [A B]; (split; [exact A|]).
  - intros E. apply is0_spec in E. congruence.
  - destruct (is0 o) eqn:E; [|reflexivity]. apply is0_spec in E. contradiction.
Qed.
Lemma in_box_neg H V o : in_box H V o -> in_box H V (oneg o).
Proof. destruct o as [a [b c]]. unfold in_box, oneg, mko, odx, ody, odv; cbn [fst snd]. lia. Qed.
Lemma in_stencil_neg H V o : In o (stencil H V) -> In (oneg o) (stencil H V).
Proof. rewrite !in_stencil. intros [A B]. split; [now apply in_box_neg|]. intros E. apply B. now apply oneg_0. Qed.
Lemma in_box_0 H V : 0 <= H -> 0 <= V -> in_box H V o0.
Proof. unfold in_box, o0, mko, odx, ody, odv; cbn [fst snd]. lia. Qed.

Lemma box_NoDup H V : NoDup (box H V).
Proof. unfold box. repeat apply NoDup_list_prod; apply zrange_NoDup. Qed.
Lemma box_length H V : 0 <= H -> 0 <= V -> Z.of_nat (List.length (box H V)) = (2 * H + 1) * (2 * H + 1) * (2 * V + 1).
Proof.
  intros HH HV. unfold box, off. rewrite !prod_length, !zrange_length, !Nat2Z.inj_mul, !Z2Nat.id by lia. ring.
Qed.
Lemma stencil_NoDup H V : NoDup (stencil H V).
Proof. apply NoDup_filter, box_NoDup. Qed.

Lemma filter_all {A} (p : A -> bool) (l : list A) : (forall x, In x l -> p x = true) -> filter p l = l.
Proof.
  induction l as [|c r IH]; cbn; intros H; [reflexivity|]. rewrite (H c) by now left.
  f_equal. apply IH. intros x Hx. apply H. now right.
Qed.
Lemma filter_remove_one {A} (p : A -> bool) (l : list A) (a : A) :
  NoDup l -> In a l -> p a = false -> (forall x, In x l -> x <> a -> p x = true) ->
  S (List.length (filter p l)) = List.length l.
Proof.
  induction 1 as [|b r Hb Hr IH]; cbn; intros Hin Hpa Hoth; [contradiction|].
  destruct Hin as [->|Hin].
  - rewrite Hpa. rewrite filter_all; [reflexivity|].
    intros x Hx. apply Hoth; [now right|]. intros ->. contradiction.
  - assert (Hba : b <> a) by (intros ->; contradiction).
    rewrite (Hoth b (or_introl eq_refl) Hba). cbn. f_equal. apply IH; auto.
Qed.

(* the N-layer stencil has exactly (2H+1)^2 (2V+1) - 1 offsets *)
Theorem stencil_length H V : 0 <= H -> 0 <= V ->
  Z.of_nat (List.length (stencil H V)) = (2 * H + 1) * (2 * H + 1) * (2 * V + 1) - 1.
Proof.
  intros HH HV. rewrite <- box_length by assumption.
  assert (E : S (List.length (stencil H V)) = List.length (box H V)).
  { unfold stencil. apply filter_remove_one with (a := o0).
    - apply box_NoDup.
    - apply in_box_iff, in_box_0; assumption.
    - reflexivity.
    - intros o _ Hn. destruct (is0 o) eqn:E; [|reflexivity]. apply is0_spec in E. contradiction. }
  lia.
Qed.
Lemma stencil_0_0 : stencil 0 0 = [].
Proof. reflexivity. Qed.

(* offsets of the three fixed-size queries, in the order in which the Go code produces them *)
Definition offs6 : list off := flat_map (fun s => [mko s 0 0; mko 0 s 0; mko 0 0 s]) [-1; 1].
Definition offs8 : list off := flat_map (fun s => [mko s 0 0; mko 0 s 0; mko s s 0; mko s (- s) 0]) [-1; 1].
Definition lift8 (s : Z) (o : off) : off := mko (odx o) (ody o) s.
Definition layer_offs (s : Z) : list off := (if s =? 0 then [] else [mko 0 0 s]) ++ map (lift8 s) offs8.
Definition offs26 : list off := flat_map layer_offs [-1; 0; 1].

(* boolean inclusion of concrete offset lists, to settle finite facts by computation *)
Definition inclb (a b : list off) : bool := forallb (fun o => memb off_eqb o b) a.
Lemma inclb_spec a b : inclb a b = true -> forall o, In o a -> In o b.
Proof.
  unfold inclb. rewrite forallb_forall. intros H o Ho. apply (memb_In off_eqb off_eqb_spec). now apply H.
Qed.
Definition nodup_offs (l : list off) : bool := list_eqb off_eqb (nodupb off_eqb l) l.
Lemma nodup_offs_spec l : nodup_offs l = true -> NoDup l.
Proof.
  unfold nodup_offs. intros H. destruct (list_eqb_spec off_eqb off_eqb_spec (nodupb off_eqb l) l) as [E|]; [|discriminate].
  rewrite <- E. apply (nodupb_NoDup off_eqb off_eqb_spec).
Qed.

Lemma offs6_NoDup : NoDup offs6.  Proof. apply nodup_offs_spec. vm_compute. reflexivity. Qed.
Lemma offs8_NoDup : NoDup offs8.  Proof. apply nodup_offs_spec. vm_compute. reflexivity. Qed.
Lemma offs26_NoDup : NoDup offs26. Proof. apply nodup_offs_spec. vm_compute. reflexivity. Qed.
Lemma offs6_stencil o : In o offs6 -> In o (stencil 1 1).
Proof. apply inclb_spec. vm_compute. reflexivity. Qed.
Lemma offs8_stencil o : In o offs8 -> In o (stencil 1 1).
Proof. apply inclb_spec. vm_compute. reflexivity. Qed.
(* the 26 offsets are exactly the 1-layer stencil *)
Lemma offs26_stencil o : In o offs26 <-> In o (stencil 1 1).
Proof. split; apply inclb_spec; vm_compute; reflexivity. Qed.
Lemma offs6_neg o : In o offs6 -> In (oneg o) offs6.
Proof.
  intros H. assert (E : In (oneg o) (map oneg offs6)) by now apply in_map.
  revert E. apply inclb_spec. vm_compute. reflexivity.
Qed.
Lemma offs8_neg o : In o offs8 -> In (oneg o) offs8.
Proof.
  intros H. assert (E : In (oneg o) (map oneg offs8)) by now apply in_map.
  revert E. apply inclb_spec. vm_compute. reflexivity.
Qed.
Lemma offs26_neg o : In o offs26 -> In (oneg o) offs26.
Proof. rewrite !offs26_stencil. apply in_stencil_neg. Qed.

(* readable characterisations: unit steps along one axis; the horizontal ring; the 3x3x3 shell *)
Lemma in_offs6 o : In o offs6 <-> Z.abs (odx o) + Z.abs (ody o) + Z.abs (odv o) = 1.
Proof.
  destruct o as [a [b c]]. unfold odx, ody, odv; cbn [fst snd]. split.
  - intros H. cbn in H. unfold mko in H.
    repeat (destruct H as [H|H]; [injection H as <- <- <-; reflexivity|]). contradiction.
  - intros H.
    assert (C : (a = -1 /\ b = 0 /\ c = 0) \/ (a = 0 /\ b = -1 /\ c = 0) \/ (a = 0 /\ b = 0 /\ c = -1) \/
                (a = 1 /\ b = 0 /\ c = 0) \/ (a = 0 /\ b = 1 /\ c = 0) \/ (a = 0 /\ b = 0 /\ c = 1)) by lia.
    cbn. unfold mko.
    destruct C as [(-> & -> & ->)|[(-> & -> & ->)|[(-> & -> & ->)|[(-> & -> & ->)|[(-> & -> & ->)|(-> & -> & ->)]]]]]; tauto.
Qed.
Lemma in_offs8 o : In o offs8 <-> odv o = 0 /\ Z.max (Z.abs (odx o)) (Z.abs (ody o)) = 1.
Proof.
  destruct o as [a [b c]]. unfold odx, ody, odv; cbn [fst snd]. split.
  - intros H. cbn in H. unfold mko in H.
    repeat (destruct H as [H|H]; [injection H as <- <- <-; split; reflexivity|]). contradiction.
  - intros [-> H].
    assert (C : (a = -1 /\ b = 0) \/ (a = 0 /\ b = -1) \/ (a = -1 /\ b = -1) \/ (a = -1 /\ b = 1) \/
                (a = 1 /\ b = 0) \/ (a = 0 /\ b = 1) \/ (a = 1 /\ b = 1) \/ (a = 1 /\ b = -1)) by lia.
    cbn. unfold mko.
    destruct C as [(-> & ->)|[(-> & ->)|[(-> & ->)|[(-> & ->)|[(-> & ->)|[(-> & ->)|[(-> & ->)|(-> & ->)]]]]]]]; tauto.
Qed.
Lemma in_offs26 o : In o offs26 <-> Z.max (Z.abs (odx o)) (Z.max (Z.abs (ody o)) (Z.abs (odv o))) = 1.
Proof.
  rewrite offs26_stencil, in_stencil. destruct o as [a [b c]]. unfold in_box, o0, mko, odx, ody, odv; cbn [fst snd]. split.
  - intros [A B]. assert (~ (a = 0 /\ b = 0 /\ c = 0)) by (intros (-> & -> & ->); congruence). lia.
  - intros H. split; [lia|]. intros [= -> -> ->]. cbn in H. lia.
Qed.

(* ---- generic list facts ---- *)
Lemma flat_map_filter {A B} (f : A -> list B) (p : A -> bool) l :
  flat_map f (filter p l) = flat_map (fun x => if p x then f x else []) l.
Proof. induction l as [|a r IH]; cbn; [reflexivity|]. destruct (p a); cbn; now rewrite IH. Qed.
Lemma flat_map_map' {A B C} (f : B -> list C) (g : A -> B) l : flat_map f (map g l) = flat_map (fun x => f (g x)) l.
Proof. induction l as [|a r IH]; cbn; [reflexivity|]. now rewrite IH. Qed.
Lemma flat_map_app' {A B} (f : A -> list B) l k : flat_map f (l ++ k) = flat_map f l ++ flat_map f k.
Proof. induction l as [|a r IH]; cbn; [reflexivity|]. now rewrite IH, app_assoc. Qed.
Lemma flat_map_prod {A B C} (g : A * B -> list C) a b :
  flat_map g (list_prod a b) = flat_map (fun x => flat_map (fun y => g (x, y)) b) a.
Proof.
  induction a as [|x r IH]; cbn; [reflexivity|]. rewrite flat_map_app', IH, flat_map_map'. reflexivity.
Qed.
Lemma flat_map_single {A B} (f : A -> B) l : flat_map (fun x => [f x]) l = map f l.
Proof. induction l as [|a r IH]; cbn; [reflexivity|]. now rewrite IH. Qed.
Lemma NoDup_map_in {A B} (f : A -> B) l :
  NoDup l -> (forall a b, In a l -> In b l -> f a = f b -> a = b) -> NoDup (map f l).
Proof.
  induction 1 as [|a r Ha Hr IH]; cbn; intros Hinj; [constructor|]. constructor.
  - rewrite in_map_iff. intros (b & E & Hb). assert (b = a) by (apply Hinj; auto). subst. contradiction.
  - apply IH. intros x y Hx Hy. apply Hinj; auto.
Qed.

(* ================= Part 2: executable models (string level) ================= *)
Definition shift_str (id : string) (o : off) : string := shift_api id (odx o) (ody o) (odv o).

(* Get6spatialIdsAdjacentToFaces: for s = -1, +1: x, y, v moved by s *)
Definition n6_api (id : string) : list string :=
  flat_map (fun s => [shift_api id s 0 0; shift_api id 0 s 0; shift_api id 0 0 s]) [-1; 1].
(* Get8spatialIdsAroundHorizontal: for s = -1, +1: x; y; (s,s); (s,-s) *)
Definition n8_api (id : string) : list string :=
  flat_map (fun s => [shift_api id s 0 0; shift_api id 0 s 0; shift_api id s s 0; shift_api id s (- s) 0]) [-1; 1].
(* Get26spatialIdsAroundVoxel: for s = -1, 0, +1: the vertically shifted ID (not for s = 0), then ITS horizontal ring
   (the ring is computed from the *string* returned by the vertical shift) *)
Definition layer26 (id : string) (s : Z) : list string :=
  let v := shift_api id 0 0 s in (if s =? 0 then [] else [v]) ++ n8_api v.
Definition n26_api (id : string) : list string := flat_map (layer26 id) [-1; 0; 1].

(* common.Unique: Go map order is unspecified; the executable model keeps the first occurrence of every member, looking members up in a
   balanced tree of strings (stdlib MSetAVL over the lexicographic order) so that large results stay cheap *)
Module StrOT := Update_OT String_as_OT.
Module SS := MSetAVL.Make StrOT.
Fixpoint dedup_from (seen : SS.t) (l : list string) : list string :=
  match l with
  | [] => []
  | a :: r => if SS.mem a seen then dedup_from seen r else a :: dedup_from (SS.add a seen) r
  end.
Definition unique (l : list string) : list string := dedup_from SS.empty l.
Definition set_of (l : list string) : SS.t := fold_left (fun s x => SS.add x s) l SS.empty.
(* set equality of two string lists *)
Definition set_eq (a b : list string) : bool := SS.equal (set_of a) (set_of b).

Lemma dedup_from_In seen l s : In s (dedup_from seen l) <-> In s l /\ ~ SS.In s seen.
Proof.
  revert seen. induction l as [|a r IH]; intros seen; cbn [dedup_from In]; [tauto|].
  destruct (SS.mem a seen) eqn:M.
  - apply SS.mem_spec in M. rewrite IH. split; [tauto|]. intros [[<-|H] N]; [contradiction|tauto].
  - assert (Na : ~ SS.In a seen) by (intros H; apply SS.mem_spec in H; congruence).
    cbn [In]. rewrite IH, SS.add_spec. split.
    + intros [<-|[H N]]; [tauto|]. split; [tauto|]. intros H2. apply N. now right.
    + intros [[<-|H] N]; [now left|]. destruct (string_dec a s) as [->|D]; [now left|right].
      split; [exact H|]. intros [E|E]; [|contradiction]. apply D. symmetry. exact E.
Qed.
Lemma dedup_from_NoDup seen l : NoDup (dedup_from seen l).
Proof.
  revert seen. induction l as [|a r IH]; intros seen; cbn [dedup_from]; [constructor|].
  destruct (SS.mem a seen); [apply IH|]. constructor; [|apply IH].
  rewrite dedup_from_In. intros [_ N]. apply N, SS.add_spec. now left.
Qed.
Lemma dedup_from_id seen l : NoDup l -> (forall s, In s l -> ~ SS.In s seen) -> dedup_from seen l = l.
Proof.
  intros ND. revert seen. induction ND as [|a r Ha Hr IH]; intros seen Hs; cbn [dedup_from]; [reflexivity|].
  destruct (SS.mem a seen) eqn:M; [apply SS.mem_spec in M; exfalso; apply (Hs a); [now left|exact M]|].
  apply (f_equal (cons a)). apply IH. intros s Hin. rewrite SS.add_spec. intros [E|E].
  - apply Ha. change (s = a) in E. now subst.
  - apply (Hs s); [now right|exact E].
Qed.
Lemma set_of_In l s : SS.In s (set_of l) <-> In s l.
Proof.
  unfold set_of. assert (G : forall acc, SS.In s (fold_left (fun t x => SS.add x t) l acc) <-> In s l \/ SS.In s acc).
  { induction l as [|a r IH]; intros acc; cbn [fold_left In]; [tauto|]. rewrite IH, SS.add_spec.
    split; [intros [H|[H|H]]|intros [[H|H]|H]]; try tauto.
    - left. left. symmetry. exact H.
    - right. left. symmetry. exact H. }
  rewrite G. split; [intros [H|H]; [exact H|]|tauto]. exfalso. revert H. apply SS.empty_spec.
Qed.
Lemma set_eq_spec a b : set_eq a b = true <-> forall s, In s a <-> In s b.
Proof.
  unfold set_eq. rewrite SS.equal_spec. unfold SS.Equal. split; intros H s.
  - rewrite <- !set_of_In. apply H.
  - rewrite !set_of_In. apply H.
Qed.
Definition well_formed (s : string) : bool := match parse_eid s with Some _ => true | None => false end.
(* the three nested loops x, y, v of GetNspatialIdsAroundVoxcels with `continue` at (0,0,0) *)
Definition loops {A} (H V : Z) (body : off -> list A) : list A :=
  flat_map (fun dx => flat_map (fun dy => flat_map (fun dv =>
    if is0 (mko dx dy dv) then [] else body (mko dx dy dv)) (zrange (- V) V)) (zrange (- H) H)) (zrange (- H) H).
(* GetNspatialIdsAroundVoxcels: negative layer count => error; a malformed ID => error (fix 54a37af); then the loops; Unique *)
Definition nN_api (ids : list string) (H V : Z) : result (list string) :=
  if (H <? 0) || (V <? 0) then Err
  else if negb (forallb well_formed ids) then Err
  else Ok (unique (loops H V (fun o => map (fun id => shift_str id o) ids))).
Definition nN_list (ids : list string) (H V : Z) : list string :=
  match nN_api ids H V with Ok r => r | Err => [] end.

Lemma loops_stencil {A} H V (body : off -> list A) : loops H V body = flat_map body (stencil H V).
Proof.
  unfold loops, stencil, box, off. rewrite flat_map_filter, flat_map_prod.
  apply flat_map_ext. intros dx. rewrite flat_map_prod. apply flat_map_ext. intros dy.
  apply flat_map_ext. intros dv. unfold mko. destruct (is0 (dx, (dy, dv))); reflexivity.
Qed.

Lemma n6_map id : n6_api id = map (shift_str id) offs6.
Proof. reflexivity. Qed.
Lemma n8_map id : n8_api id = map (shift_str id) offs8.
Proof. reflexivity. Qed.

(* ================= Part 3: specification and theorems ================= *)
Definition shift_o (i : eid) (o : off) : eid := shift_spec i (odx o) (ody o) (odv o).
(* horizontally inside the grid (the vertical index is unbounded: a neighbour of a valid voxel may lie above the top layer) *)
Definition wf (i : eid) : Prop := 0 <= eh i /\ 0 <= ex i < 2 ^ eh i /\ 0 <= ey i < 2 ^ eh i.
(* IDs on which the string functions are faithful: inside the grid, zoom <= 35, every field an int64 *)
Definition okid (i : eid) : Prop :=
  0 <= eh i <= 35 /\ 0 <= ex i < 2 ^ eh i /\ 0 <= ey i < 2 ^ eh i /\ int64_ok (ev i) = true /\ int64_ok (ef i) = true.

Lemma okid_wf i : okid i -> wf i.
Proof. unfold okid, wf. lia. Qed.
Lemma int64_ok_iff z : int64_ok z = true <-> - 2 ^ 63 <= z < 2 ^ 63.
Proof. unfold int64_ok. rewrite andb_true_iff, Z.leb_le, Z.ltb_lt. tauto. Qed.
Lemma okid_fields i : okid i -> fields_ok i = true.
Proof.
  intros (Hh & Hx & Hy & Hv & Hf). unfold fields_ok. rewrite Hv, Hf, !andb_true_r.
  assert (2 ^ eh i <= 2 ^ 35) by (apply Z.pow_le_mono_r; lia).
  assert (2 ^ 35 < 2 ^ 63) by (apply Z.pow_lt_mono_r; lia).
  assert (35 < 2 ^ 63) by (change 35 with (2 ^ 5 + 3); assert (2 ^ 5 < 2 ^ 35) by (apply Z.pow_lt_mono_r; lia); lia).
  rewrite !andb_true_iff, !int64_ok_iff. lia.
Qed.
Lemma valid_okid i : valid i -> okid i.
Proof.
  intros Hv. pose proof (valid_fields_ok i Hv) as F. destruct Hv as (Hh & Hvv & Hx & Hy & Hf).
  unfold fields_ok in F. rewrite !andb_true_iff in F. unfold okid. tauto.
Qed.
Lemma okid_shift i o : okid i -> int64_ok (ef i + odv o) = true -> okid (shift_o i o).
Proof.
  intros (Hh & Hx & Hy & Hv & Hf) Hn. unfold shift_o.
  destruct (shift_in_range i (odx o) (ody o) (odv o) ltac:(lia)) as (X & Y & E1 & E2 & E3).
  unfold okid. rewrite E1, E2, E3. tauto.
Qed.
Lemma valid_okid_shift i o : valid i -> - 2 ^ 62 <= odv o <= 2 ^ 62 -> okid (shift_o i o).
Proof.
  intros Hv Ho. apply okid_shift; [now apply valid_okid|]. destruct Hv as (Hh & Hvv & Hx & Hy & Hf).
  assert (2 ^ ev i <= 2 ^ 35) by (apply Z.pow_le_mono_r; lia).
  assert (2 ^ 35 < 2 ^ 62) by (apply Z.pow_lt_mono_r; lia).
  assert (2 ^ 63 = 2 * 2 ^ 62) by (change 63 with (1 + 62); rewrite Z.pow_add_r by lia; reflexivity).
  apply int64_ok_iff. lia.
Qed.

Lemma shift_o_0 i : wf i -> shift_o i o0 = i.
Proof.
  intros (Hh & Hx & Hy). unfold shift_o, shift_spec, o0, mko, odx, ody, odv; cbn [fst snd].
  pose proof (pow2_pos _ Hh) as Hw. rewrite !sh_zero, Z.add_0_r by assumption. destruct i; reflexivity.
Qed.
Lemma shift_o_add i a b : 0 <= eh i -> shift_o (shift_o i a) b = shift_o i (oadd a b).
Proof. intros Hh. unfold shift_o, oadd, mko, odx, ody, odv; cbn [fst snd]. now apply shift_compose. Qed.
Lemma shift_o_wf i o : 0 <= eh i -> wf (shift_o i o).
Proof.
  intros Hh. destruct (shift_in_range i (odx o) (ody o) (odv o) Hh) as (X & Y & E1 & _).
  unfold wf, shift_o. rewrite E1. lia.
Qed.
Lemma oadd_neg o : oadd o (oneg o) = o0.
Proof.
  destruct o as [a [b c]]. unfold oadd, oneg, o0, mko, odx, ody, odv; cbn [fst snd]. rewrite !Z.add_opp_diag_r. reflexivity.
Qed.
Lemma shift_o_back i o : wf i -> shift_o (shift_o i o) (oneg o) = i.
Proof. intros Hw. rewrite shift_o_add by (destruct Hw; lia). rewrite oadd_neg. now apply shift_o_0. Qed.

(* injectivity of the shifts on a box narrower than the grid *)
Lemma shift_o_inj i H V a b : 0 <= eh i -> 2 * H + 1 <= 2 ^ eh i -> in_box H V a -> in_box H V b ->
  shift_o i a = shift_o i b -> a = b.
Proof.
  intros Hh Hn Ha Hb E. pose proof (pow2_pos _ Hh) as Hw.
  destruct a as [a1 [a2 a3]], b as [b1 [b2 b3]].
  unfold in_box, shift_o, shift_spec, odx, ody, odv in *; cbn [fst snd] in *.
  injection E as E1 E2 E3.
  apply sh_inj in E1; [|exact Hw|lia]. apply sh_inj in E2; [|exact Hw|lia].
  assert (a3 = b3) by lia. congruence.
Qed.

(* printing is injective (for all integers), hence so is the ID notation *)
Lemma to_int_not_nil' z : Z.to_int z <> Pos Nil /\ Z.to_int z <> Neg Nil.
Proof.
  unfold Z.to_int. destruct z as [|p|p]; cbn; split; try discriminate; intros [= E];
    (apply (f_equal Pos.of_uint) in E; rewrite DecimalPos.Unsigned.of_to in E; cbn in E; discriminate).
Qed.
Lemma print_inj a b : print a = print b -> a = b.
Proof.
  unfold print. intros E. apply (f_equal NilZero.int_of_string) in E.
  destruct (to_int_not_nil' a) as [A1 A2]. destruct (to_int_not_nil' b) as [B1 B2].
  rewrite !NilZero.isi in E by assumption. injection E as E.
  apply (f_equal Z.of_int) in E. now rewrite !DecimalZ.of_to in E.
Qed.
Lemma print_eid_inj i j : print_eid i = print_eid j -> i = j.
Proof.
  unfold print_eid. intros E. apply (f_equal split) in E.
  rewrite !split_join in E by (try discriminate; cbn; rewrite !print_noslash; reflexivity).
  injection E as E1 E2 E3 E4 E5. apply print_inj in E1, E2, E3, E4, E5.
  destruct i, j; cbn in *; congruence.
Qed.

(* string level = record level on printed IDs *)
Lemma shift_str_print i o : okid i -> shift_str (print_eid i) o = print_eid (shift_o i o).
Proof.
  intros Hi. unfold shift_str, shift_api. rewrite parse_print_eid by now apply okid_fields.
  rewrite shift_eid_spec by (destruct Hi; lia). reflexivity.
Qed.
Lemma well_formed_print i : okid i -> well_formed (print_eid i) = true.
Proof. intros Hi. unfold well_formed. now rewrite parse_print_eid by now apply okid_fields. Qed.

Definition nb_ref (i : eid) (offs : list off) : list string := map (fun o => print_eid (shift_o i o)) offs.

Lemma n6_ref i : okid i -> n6_api (print_eid i) = nb_ref i offs6.
Proof. intros Hi. rewrite n6_map. apply map_ext. intros o. now apply shift_str_print. Qed.
Lemma n8_ref i : okid i -> n8_api (print_eid i) = nb_ref i offs8.
Proof. intros Hi. rewrite n8_map. apply map_ext. intros o. now apply shift_str_print. Qed.

Lemma lift8_shift i s o : 0 <= eh i -> In o offs8 -> shift_o (shift_o i (mko 0 0 s)) o = shift_o i (lift8 s o).
Proof.
  intros Hh Ho. rewrite shift_o_add by assumption. f_equal.
  apply in_offs8 in Ho. destruct Ho as [Hv _]. destruct o as [a [b c]].
  unfold oadd, lift8, mko, odx, ody, odv in *; cbn [fst snd] in *. subst c. now rewrite Z.add_0_r.
Qed.
Lemma layer26_ref i s : okid i -> int64_ok (ef i + s) = true -> layer26 (print_eid i) s = nb_ref i (layer_offs s).
Proof.
  intros Hi Hs. unfold layer26, layer_offs, nb_ref. cbv zeta.
  change (shift_api (print_eid i) 0 0 s) with (shift_str (print_eid i) (mko 0 0 s)).
  rewrite shift_str_print by assumption.
  assert (Hi' : okid (shift_o i (mko 0 0 s))) by (apply okid_shift; assumption).
  rewrite n8_ref by assumption. rewrite map_app. f_equal.
  - destruct (s =? 0); reflexivity.
  - unfold nb_ref. rewrite map_map. apply map_ext_in. intros o Ho. f_equal.
    apply lift8_shift; [destruct Hi; lia|exact Ho].
Qed.
(* room for one vertical step inside int64 *)
Definition vroom1 (i : eid) : Prop := int64_ok (ef i - 1) = true /\ int64_ok (ef i + 1) = true.
Lemma n26_ref i : okid i -> vroom1 i -> n26_api (print_eid i) = nb_ref i offs26.
Proof.
  intros Hi [Hm Hp]. unfold n26_api, offs26, nb_ref. cbn [flat_map].
  rewrite !layer26_ref; try assumption.
  - unfold nb_ref. rewrite !app_nil_r, !map_app. reflexivity.
  - rewrite Z.add_0_r. destruct Hi as (_ & _ & _ & _ & Hf). exact Hf.
Qed.
Lemma valid_vroom1 i : valid i -> vroom1 i.
Proof.
  intros (Hh & Hvv & Hx & Hy & Hf).
  assert (2 ^ ev i <= 2 ^ 35) by (apply Z.pow_le_mono_r; lia).
  assert (2 ^ 35 + 1 < 2 ^ 63) by (assert (2 ^ 35 < 2 ^ 62) by (apply Z.pow_lt_mono_r; lia);
    change 63 with (1 + 62); rewrite Z.pow_add_r by lia; lia).
  split; apply int64_ok_iff; lia.
Qed.

(* ---- the N-layer query ---- *)
Lemma unique_In s l : In s (unique l) <-> In s l.
Proof. unfold unique. rewrite dedup_from_In. split; [tauto|]. intros H. split; [exact H|apply SS.empty_spec]. Qed.
Lemma unique_NoDup l : NoDup (unique l).
Proof. apply dedup_from_NoDup. Qed.
Lemma unique_id l : NoDup l -> unique l = l.
Proof. intros H. apply dedup_from_id; [exact H|]. intros s _. apply SS.empty_spec. Qed.

Definition okids (l : list eid) : Prop := forall i, In i l -> okid i.
Lemma well_formed_all l : okids l -> forallb well_formed (map print_eid l) = true.
Proof.
  intros Hl. apply forallb_forall. intros s Hs. apply in_map_iff in Hs. destruct Hs as (i & <- & Hi).
  apply well_formed_print. now apply Hl.
Qed.
(* the reference list: every member shifted by every offset of the stencil *)
Definition nN_ref (l : list eid) (H V : Z) : list string := flat_map (fun i => nb_ref i (stencil H V)) l.
Lemma in_nN_ref l H V s : In s (nN_ref l H V) <-> exists i o, In i l /\ In o (stencil H V) /\ s = print_eid (shift_o i o).
Proof.
  unfold nN_ref, nb_ref. rewrite in_flat_map. split.
  - intros (i & Hi & Hs). apply in_map_iff in Hs. destruct Hs as (o & <- & Ho). eauto.
  - intros (i & o & Hi & Ho & ->). exists i. split; [exact Hi|]. apply in_map_iff. eauto.
Qed.

Lemma nN_ok l H V : okids l -> 0 <= H -> 0 <= V ->
  nN_api (map print_eid l) H V = Ok (unique (flat_map (fun o => map (fun i => print_eid (shift_o i o)) l) (stencil H V))).
Proof.
  intros Hl HH HV. unfold nN_api.
  replace ((H <? 0) || (V <? 0)) with false by (symmetry; apply orb_false_iff; split; apply Z.ltb_ge; assumption).
  rewrite well_formed_all by assumption. cbn [negb]. rewrite loops_stencil. do 2 f_equal.
  apply flat_map_ext. intros o. rewrite map_map. apply map_ext_in. intros i Hi. apply shift_str_print. now apply Hl.
Qed.

(* MAIN (lists): no duplicates, and exactly the shifts of every member by every offset of the stencil *)
Theorem nN_exact l H V : okids l -> 0 <= H -> 0 <= V ->
  exists r, nN_api (map print_eid l) H V = Ok r /\ NoDup r /\
    forall s, In s r <-> exists i o, In i l /\ In o (stencil H V) /\ s = print_eid (shift_o i o).
Proof.
  intros Hl HH HV. eexists. split; [now apply nN_ok|]. split; [apply unique_NoDup|].
  intros s. rewrite unique_In, in_flat_map. split.
  - intros (o & Ho & Hs). apply in_map_iff in Hs. destruct Hs as (i & <- & Hi). eauto.
  - intros (i & o & Hi & Ho & ->). exists o. split; [exact Ho|]. apply in_map_iff. eauto.
Qed.
(* the same with the offsets spelled out *)
Theorem nN_exact_explicit l H V : okids l -> 0 <= H -> 0 <= V ->
  exists r, nN_api (map print_eid l) H V = Ok r /\ NoDup r /\
    forall s, In s r <-> exists i dx dy dv, In i l /\ - H <= dx <= H /\ - H <= dy <= H /\ - V <= dv <= V /\
                                     ~ (dx = 0 /\ dy = 0 /\ dv = 0) /\ s = print_eid (shift_spec i dx dy dv).
Proof.
  intros Hl HH HV. destruct (nN_exact l H V Hl HH HV) as (r & E & N & I). exists r. split; [exact E|]. split; [exact N|].
  intros s. rewrite I. split.
  - intros (i & o & Hi & Ho & ->). apply in_stencil in Ho. destruct Ho as [(A & B & C) D].
    exists i, (odx o), (ody o), (odv o). repeat split; try tauto.
    intros (E1 & E2 & E3). apply D. destruct o as [a [b c]]. unfold odx, ody, odv in *; cbn [fst snd] in *. subst. reflexivity.
  - intros (i & dx & dy & dv & Hi & A & B & C & D & ->). exists i, (mko dx dy dv). split; [exact Hi|]. split; [|reflexivity].
    apply in_stencil. split; [unfold in_box, mko, odx, ody, odv; cbn [fst snd]; lia|].
    intros [= -> -> ->]. apply D. auto.
Qed.
(* list = union over its members *)
Theorem nN_union l H V s : okids l -> 0 <= H -> 0 <= V ->
  (In s (nN_list (map print_eid l) H V) <-> exists i, In i l /\ In s (nN_list [print_eid i] H V)).
Proof.
  intros Hl HH HV. unfold nN_list. rewrite nN_ok by assumption. rewrite unique_In, in_flat_map. split.
  - intros (o & Ho & Hs). apply in_map_iff in Hs. destruct Hs as (i & <- & Hi). exists i. split; [exact Hi|].
    change [print_eid i] with (map print_eid [i]). rewrite nN_ok; try assumption.
    + rewrite unique_In, in_flat_map. exists o. split; [exact Ho|]. now left.
    + intros j [<-|[]]. now apply Hl.
  - intros (i & Hi & Hs). change [print_eid i] with (map print_eid [i]) in Hs. rewrite nN_ok in Hs; try assumption.
    + rewrite unique_In, in_flat_map in Hs. destruct Hs as (o & Ho & [<-|[]]). exists o. split; [exact Ho|].
      apply in_map_iff. eauto.
    + intros j [<-|[]]. now apply Hl.
Qed.

Lemma nN_single i H V : okid i -> 0 <= H -> 0 <= V ->
  nN_api [print_eid i] H V = Ok (unique (nb_ref i (stencil H V))).
Proof.
  intros Hi HH HV. change [print_eid i] with (map print_eid [i]). rewrite nN_ok; try assumption.
  - unfold nb_ref. rewrite <- (flat_map_single (fun o => print_eid (shift_o i o))). reflexivity.
  - intros j [<-|[]]. exact Hi.
Qed.

(* distinctness on a stencil narrower than the grid *)
Lemma nb_distinct i offs H V : wf i -> 0 <= H -> 0 <= V -> 2 * H + 1 <= 2 ^ eh i ->
  NoDup offs -> (forall o, In o offs -> In o (stencil H V)) ->
  NoDup (nb_ref i offs) /\ ~ In (print_eid i) (nb_ref i offs).
Proof.
  intros Hw HH HV Hn Hnd Hsub. assert (Hh : 0 <= eh i) by (destruct Hw; lia). split.
  - unfold nb_ref. apply NoDup_map_in; [exact Hnd|]. intros a b Ha Hb E. apply print_eid_inj in E.
    apply Hsub, in_stencil in Ha. apply Hsub, in_stencil in Hb. apply (shift_o_inj i H V a b Hh Hn); tauto.
  - unfold nb_ref. rewrite in_map_iff. intros (o & E & Ho). apply print_eid_inj in E.
    apply Hsub, in_stencil in Ho. destruct Ho as [Hb Hne]. apply Hne.
    symmetry. apply (shift_o_inj i H V o0 o Hh Hn); [now apply in_box_0|exact Hb|rewrite (shift_o_0 i Hw); symmetry; exact E].
Qed.

(* COUNT (N layers): if 2H+1 <= 2^h the single-voxel query has exactly (2H+1)^2 (2V+1) - 1 distinct members, none the centre *)
Theorem nN_count i H V : okid i -> 0 <= H -> 0 <= V -> 2 * H + 1 <= 2 ^ eh i ->
  exists r, nN_api [print_eid i] H V = Ok r /\ NoDup r /\
    Z.of_nat (List.length r) = (2 * H + 1) * (2 * H + 1) * (2 * V + 1) - 1 /\ ~ In (print_eid i) r.
Proof.
  intros Hi HH HV Hn. eexists. split; [now apply nN_single|].
  destruct (nb_distinct i (stencil H V) H V (okid_wf i Hi) HH HV Hn (stencil_NoDup H V) (fun o h => h)) as [ND NC].
  rewrite unique_id by exact ND.
  split; [exact ND|]. split; [|exact NC]. unfold nb_ref. rewrite map_length. now apply stencil_length.
Qed.

(* EXACTNESS and COUNT for the three fixed-size queries *)
Theorem n6_exact i s : okid i ->
  (In s (n6_api (print_eid i)) <-> exists dx dy dv, Z.abs dx + Z.abs dy + Z.abs dv = 1 /\ s = print_eid (shift_spec i dx dy dv)).
Proof.
  intros Hi. rewrite n6_ref by assumption. unfold nb_ref. rewrite in_map_iff. split.
  - intros (o & <- & Ho). apply in_offs6 in Ho. exists (odx o), (ody o), (odv o). split; [exact Ho|reflexivity].
  - intros (dx & dy & dv & H & ->). exists (mko dx dy dv). split; [reflexivity|]. now apply in_offs6.
Qed.
Theorem n8_exact i s : okid i ->
  (In s (n8_api (print_eid i)) <-> exists dx dy, Z.max (Z.abs dx) (Z.abs dy) = 1 /\ s = print_eid (shift_spec i dx dy 0)).
Proof.
  intros Hi. rewrite n8_ref by assumption. unfold nb_ref. rewrite in_map_iff. split.
  - intros (o & <- & Ho). apply in_offs8 in Ho. destruct Ho as [Hv Hm]. exists (odx o), (ody o). split; [exact Hm|].
    unfold shift_o. now rewrite Hv.
  - intros (dx & dy & H & ->). exists (mko dx dy 0). split; [reflexivity|]. now apply in_offs8.
Qed.
Theorem n26_exact i s : okid i -> vroom1 i ->
  (In s (n26_api (print_eid i)) <->
   exists dx dy dv, Z.max (Z.abs dx) (Z.max (Z.abs dy) (Z.abs dv)) = 1 /\ s = print_eid (shift_spec i dx dy dv)).
Proof.
  intros Hi Hr. rewrite n26_ref by assumption. unfold nb_ref. rewrite in_map_iff. split.
  - intros (o & <- & Ho). apply in_offs26 in Ho. exists (odx o), (ody o), (odv o). split; [exact Ho|reflexivity].
  - intros (dx & dy & dv & H & ->). exists (mko dx dy dv). split; [reflexivity|]. now apply in_offs26.
Qed.
(* the 26-query is the 1-layer query *)
Theorem n26_is_1layer i s : okid i -> vroom1 i -> (In s (n26_api (print_eid i)) <-> In s (nN_list [print_eid i] 1 1)).
Proof.
  intros Hi Hr. rewrite n26_ref by assumption. unfold nN_list. rewrite nN_single by (assumption || lia).
  rewrite unique_In. unfold nb_ref. rewrite !in_map_iff. split; intros (o & E & Ho); exists o; (split; [exact E|]); now apply offs26_stencil.
Qed.

Lemma three_le i : 3 <= 2 ^ eh i -> 2 * 1 + 1 <= 2 ^ eh i.
Proof. lia. Qed.
Theorem n6_count i : okid i -> 3 <= 2 ^ eh i ->
  NoDup (n6_api (print_eid i)) /\ List.length (n6_api (print_eid i)) = 6%nat /\ ~ In (print_eid i) (n6_api (print_eid i)).
Proof.
  intros Hi Hn. rewrite n6_ref by assumption.
  destruct (nb_distinct i offs6 1 1 (okid_wf i Hi) ltac:(lia) ltac:(lia) (three_le i Hn) offs6_NoDup offs6_stencil) as [A B].
  repeat split; assumption || reflexivity.
Qed.
Theorem n8_count i : okid i -> 3 <= 2 ^ eh i ->
  NoDup (n8_api (print_eid i)) /\ List.length (n8_api (print_eid i)) = 8%nat /\ ~ In (print_eid i) (n8_api (print_eid i)).
Proof.
  intros Hi Hn. rewrite n8_ref by assumption.
  destruct (nb_distinct i offs8 1 1 (okid_wf i Hi) ltac:(lia) ltac:(lia) (three_le i Hn) offs8_NoDup offs8_stencil) as [A B].
  repeat split; assumption || reflexivity.
Qed.
Theorem n26_count i : okid i -> vroom1 i -> 3 <= 2 ^ eh i ->
  NoDup (n26_api (print_eid i)) /\ List.length (n26_api (print_eid i)) = 26%nat /\ ~ In (print_eid i) (n26_api (print_eid i)).
Proof.
  intros Hi Hr Hn. rewrite n26_ref by assumption.
  destruct (nb_distinct i offs26 1 1 (okid_wf i Hi) ltac:(lia) ltac:(lia) (three_le i Hn) offs26_NoDup
              (fun o h => proj1 (offs26_stencil o) h)) as [A B].
  repeat split; assumption || reflexivity.
Qed.

(* ---- symmetry ---- *)
(* record level: j is a shift of i by an offset of a negation-closed set iff i is a shift of j by one *)
Lemma nb_sym_spec (offs : list off) (Hneg : forall o, In o offs -> In (oneg o) offs) i j : wf i -> wf j ->
  ((exists o, In o offs /\ j = shift_o i o) <-> (exists o, In o offs /\ i = shift_o j o)).
Proof.
  intros Hi Hj. split; intros (o & Ho & ->); exists (oneg o); (split; [now apply Hneg|]); symmetry; now apply shift_o_back.
Qed.

Section Symmetry.
  Variable P : eid -> Prop.
  Variable nb : string -> list string.
  Variable offs : list off.
  Hypothesis P_ok : forall i, P i -> okid i.
  Hypothesis nb_ok : forall i, P i -> nb (print_eid i) = nb_ref i offs.
  Hypothesis offs_neg : forall o, In o offs -> In (oneg o) offs.

  Lemma in_nb_ref i j : In (print_eid j) (nb_ref i offs) <-> exists o, In o offs /\ j = shift_o i o.
  Proof.
    unfold nb_ref. rewrite in_map_iff. split.
    - intros (o & E & Ho). apply print_eid_inj in E. eauto.
    - intros (o & Ho & ->). eauto.
  Qed.
  Theorem nb_symmetric i j : P i -> P j -> (In (print_eid j) (nb (print_eid i)) <-> In (print_eid i) (nb (print_eid j))).
  Proof.
    intros Hi Hj. rewrite !nb_ok by assumption. rewrite !in_nb_ref.
    apply nb_sym_spec; [exact offs_neg| |]; apply okid_wf, P_ok; assumption.
  Qed.
  (* the members of nb(id) that do not have id among their own neighbours *)
  Definition asym (nb : string -> list string) (id : string) : list string :=
    filter (fun j => negb (memb String.eqb id (nb j))) (nb id).
  Theorem asym_nil i : P i -> (forall o, In o offs -> P (shift_o i o)) -> asym nb (print_eid i) = [].
  Proof.
    intros Hi Hcl. unfold asym.
    assert (F : forall s, In s (nb (print_eid i)) -> negb (memb String.eqb (print_eid i) (nb s)) = false).
    { intros s Hs. rewrite nb_ok in Hs by assumption. unfold nb_ref in Hs. apply in_map_iff in Hs.
      destruct Hs as (o & <- & Ho). apply negb_false_iff. apply (memb_In String.eqb String.eqb_spec).
      apply nb_symmetric; [now apply Hcl|exact Hi|]. rewrite nb_ok by assumption. apply in_nb_ref. eauto. }
    induction (nb (print_eid i)) as [|a r IH]; cbn [filter]; [reflexivity|].
    rewrite (F a) by now left. apply IH. intros s Hs. apply F. now right.
  Qed.
End Symmetry.

Theorem n6_symmetric i j : okid i -> okid j ->
  (In (print_eid j) (n6_api (print_eid i)) <-> In (print_eid i) (n6_api (print_eid j))).
Proof. apply (nb_symmetric okid n6_api offs6 (fun i h => h) n6_ref offs6_neg). Qed.
Theorem n8_symmetric i j : okid i -> okid j ->
  (In (print_eid j) (n8_api (print_eid i)) <-> In (print_eid i) (n8_api (print_eid j))).
Proof. apply (nb_symmetric okid n8_api offs8 (fun i h => h) n8_ref offs8_neg). Qed.
Definition okid1 (i : eid) : Prop := okid i /\ vroom1 i.
Theorem n26_symmetric i j : okid1 i -> okid1 j ->
  (In (print_eid j) (n26_api (print_eid i)) <-> In (print_eid i) (n26_api (print_eid j))).
Proof.
  apply (nb_symmetric okid1 n26_api offs26 (fun i h => proj1 h) (fun i h => n26_ref i (proj1 h) (proj2 h)) offs26_neg).
Qed.
Lemma nN_list_ref i H V : 0 <= H -> 0 <= V -> okid i -> nN_list [print_eid i] H V = unique (nb_ref i (stencil H V)).
Proof. intros HH HV Hi. unfold nN_list. now rewrite nN_single. Qed.
Theorem nN_symmetric H V i j : 0 <= H -> 0 <= V -> okid i -> okid j ->
  (In (print_eid j) (nN_list [print_eid i] H V) <-> In (print_eid i) (nN_list [print_eid j] H V)).
Proof.
  intros HH HV Hi Hj. rewrite !nN_list_ref by assumption. rewrite !unique_In.
  rewrite !in_nb_ref. apply nb_sym_spec; [apply in_stencil_neg| |]; now apply okid_wf.
Qed.

(* on every valid ID no member of a neighbourhood lacks the ID in its own neighbourhood *)
Lemma valid_shift_okid1 i o : valid i -> - 2 ^ 61 <= odv o <= 2 ^ 61 -> okid1 (shift_o i o).
Proof.
  intros Hv Ho. destruct Hv as (Hh & Hvv & Hx & Hy & Hf).
  assert (2 ^ ev i <= 2 ^ 35) by (apply Z.pow_le_mono_r; lia).
  assert (2 ^ 35 < 2 ^ 61) by (apply Z.pow_lt_mono_r; lia).
  assert (2 ^ 63 = 4 * 2 ^ 61) by (change 63 with (2 + 61); rewrite Z.pow_add_r by lia; reflexivity).
  assert (2 ^ 62 = 2 * 2 ^ 61) by (change 62 with (1 + 61); rewrite Z.pow_add_r by lia; reflexivity).
  split.
  - apply valid_okid_shift; [unfold valid; lia|lia].
  - unfold vroom1, shift_o, shift_spec; cbn [ef]. rewrite !int64_ok_iff. lia.
Qed.
Lemma stencil11_small o : In o (stencil 1 1) -> - 2 ^ 61 <= odv o <= 2 ^ 61.
Proof.
  rewrite in_stencil. intros [(_ & _ & A) _]. assert (2 ^ 1 <= 2 ^ 61) by (apply Z.pow_le_mono_r; lia).
  change (2 ^ 1) with 2 in *. lia.
Qed.
Theorem n6_asym_nil i : valid i -> asym n6_api (print_eid i) = [].
Proof.
  intros Hv. apply (asym_nil okid n6_api offs6 (fun i h => h) n6_ref offs6_neg); [now apply valid_okid|].
  intros o Ho. apply valid_shift_okid1; [exact Hv|]. now apply stencil11_small, offs6_stencil.
Qed.
Theorem n8_asym_nil i : valid i -> asym n8_api (print_eid i) = [].
Proof.
  intros Hv. apply (asym_nil okid n8_api offs8 (fun i h => h) n8_ref offs8_neg); [now apply valid_okid|].
  intros o Ho. apply valid_shift_okid1; [exact Hv|]. now apply stencil11_small, offs8_stencil.
Qed.
Theorem n26_asym_nil i : valid i -> asym n26_api (print_eid i) = [].
Proof.
  intros Hv.
  apply (asym_nil okid1 n26_api offs26 (fun i h => proj1 h) (fun i h => n26_ref i (proj1 h) (proj2 h)) offs26_neg).
  - split; [now apply valid_okid|now apply valid_vroom1].
  - intros o Ho. apply valid_shift_okid1; [exact Hv|]. now apply stencil11_small, offs26_stencil.
Qed.
Definition nN1 (H V : Z) (id : string) : list string := nN_list [id] H V.
Theorem nN_asym_nil i H V : valid i -> 0 <= H -> 0 <= V <= 2 ^ 61 -> asym (nN1 H V) (print_eid i) = [].
Proof.
  intros Hv HH HV. unfold asym, nN1.
  assert (F : forall s, In s (nN_list [print_eid i] H V) ->
                   negb (memb String.eqb (print_eid i) (nN_list [s] H V)) = false).
  { intros s Hs. rewrite nN_list_ref in Hs by (try lia; now apply valid_okid). rewrite unique_In in Hs.
    unfold nb_ref in Hs. apply in_map_iff in Hs. destruct Hs as (o & <- & Ho).
    apply negb_false_iff. apply (memb_In String.eqb String.eqb_spec).
    assert (Hj : okid (shift_o i o)).
    { apply valid_shift_okid1; [exact Hv|]. apply in_stencil in Ho. destruct Ho as [(_ & _ & A) _]. lia. }
    apply nN_symmetric; try lia; [exact Hj|now apply valid_okid|].
    rewrite nN_list_ref by (try lia; now apply valid_okid). rewrite unique_In. unfold nb_ref. apply in_map_iff. eauto. }
  induction (nN_list [print_eid i] H V) as [|a r IH]; cbn [filter]; [reflexivity|].
  rewrite (F a) by now left. apply IH. intros s Hs. apply F. now right.
Qed.

(* ---- error cases and degenerate layer counts ---- *)
Theorem nN_negative ids H V : H < 0 \/ V < 0 -> nN_api ids H V = Err.
Proof.
  intros Hn. unfold nN_api.
  replace ((H <? 0) || (V <? 0)) with true; [reflexivity|]. symmetry. apply orb_true_iff.
  destruct Hn; [left|right]; now apply Z.ltb_lt.
Qed.
Theorem nN_malformed ids H V s : In s ids -> parse_eid s = None -> nN_api ids H V = Err.
Proof.
  intros Hin Hs. unfold nN_api. destruct ((H <? 0) || (V <? 0)); [reflexivity|].
  replace (forallb well_formed ids) with false; [reflexivity|]. symmetry.
  apply not_true_is_false. intros F. rewrite forallb_forall in F. specialize (F s Hin). unfold well_formed in F.
  rewrite Hs in F. discriminate.
Qed.
(* zero layers: the empty list, no error (also for the empty input list) *)
Theorem nN_zero_layers l : okids l -> nN_api (map print_eid l) 0 0 = Ok [].
Proof. intros Hl. rewrite nN_ok by (assumption || lia). reflexivity. Qed.
Theorem nN_empty_input H V : 0 <= H -> 0 <= V -> nN_api [] H V = Ok [].
Proof.
  intros HH HV. change (@nil string) with (map print_eid []) at 1. rewrite nN_ok; try assumption.
  - f_equal. assert (E : forall st : list off, flat_map (fun o => map (fun i => print_eid (shift_o i o)) []) st = []).
    { induction st; cbn; auto. }
    now rewrite E.
  - intros i [].
Qed.
(* the fixed-size queries have no error result: on a malformed ID every member is the empty string *)
Theorem n6_malformed s : parse_eid s = None -> n6_api s = repeat EmptyString 6.
Proof. intros H. unfold n6_api. cbn [flat_map app]. now rewrite !shift_api_malformed by exact H. Qed.
Theorem n8_malformed s : parse_eid s = None -> n8_api s = repeat EmptyString 8.
Proof. intros H. unfold n8_api. cbn [flat_map app]. now rewrite !shift_api_malformed by exact H. Qed.
Theorem n26_malformed s : parse_eid s = None -> n26_api s = repeat EmptyString 26.
Proof.
  intros H. unfold n26_api, layer26. cbn [flat_map]. rewrite !shift_api_malformed by exact H.
  rewrite n8_malformed by reflexivity. reflexivity.
Qed.

(* ================= Part 4: boolean checkers on the implementation's observed output ================= *)
(* set equality of string lists: decided through the canonical form; soundness needs only that canon keeps the members *)
Lemma dedup_sorted_In s l : In s (dedup_sorted l) <-> In s l.
Proof.
  induction l as [|a r IH]; [tauto|]. destruct r as [|b r'].
  - cbn. tauto.
  - change (dedup_sorted (a :: b :: r')) with (if String.eqb a b then dedup_sorted (b :: r') else a :: dedup_sorted (b :: r')).
    destruct (String.eqb_spec a b) as [->|N].
    + rewrite IH. cbn. tauto.
    + cbn [In]. rewrite IH. cbn. tauto.
Qed.
Lemma canon_In s l : In s (canon l) <-> In s l.
Proof.
  unfold canon. rewrite dedup_sorted_In. split; apply Permutation.Permutation_in.
  - apply sort_strings_perm.
  - symmetry. apply sort_strings_perm.
Qed.
(* (Str.same_set, kept here with its soundness for users that compare through the canonical sorted form) *)
Lemma same_set_sound a b : same_set a b = true -> forall s, In s a <-> In s b.
Proof.
  unfold same_set. intros H s. destruct (list_eqb_spec String.eqb String.eqb_spec (canon a) (canon b)) as [E|]; [|discriminate].
  rewrite <- (canon_In s a), <- (canon_In s b), E. tauto.
Qed.
Definition nodup_chk (l : list string) : bool := list_eqb String.eqb (unique l) l.
Lemma nodup_chk_sound l : nodup_chk l = true -> NoDup l.
Proof.
  unfold nodup_chk. intros H. destruct (list_eqb_spec String.eqb String.eqb_spec (unique l) l) as [E|]; [|discriminate].
  rewrite <- E. apply unique_NoDup.
Qed.
Definition mem_str (s : string) (l : list string) : bool := memb String.eqb s l.
Lemma mem_str_In s l : mem_str s l = true <-> In s l.
Proof. apply (memb_In String.eqb String.eqb_spec). Qed.

(* fixed-size queries: the observed list has exactly the members of the reference; where 3 <= 2^h also: k members, distinct, not the centre *)
Definition check_fixed (offs : list off) (id : string) (obs : list string) : bool :=
  match parse_eid id with
  | None => true   (* a malformed ID is outside the property's quantifier *)
  | Some i =>
      set_eq obs (nb_ref i offs) &&
      (if 3 <=? 2 ^ eh i then Nat.eqb (List.length obs) (List.length offs) && nodup_chk obs && negb (mem_str (print_eid i) obs) else true)
  end.
Theorem check_fixed_sound offs i obs : okid i -> check_fixed offs (print_eid i) obs = true ->
  (forall s, In s obs <-> exists o, In o offs /\ s = print_eid (shift_o i o)) /\
  (3 <= 2 ^ eh i -> List.length obs = List.length offs /\ NoDup obs /\ ~ In (print_eid i) obs).
Proof.
  intros Hi. unfold check_fixed. rewrite parse_print_eid by now apply okid_fields.
  rewrite andb_true_iff. intros [A B]. split.
  - intros s. rewrite (proj1 (set_eq_spec _ _) A s). unfold nb_ref. rewrite in_map_iff. split.
    + intros (o & <- & Ho). eauto.
    + intros (o & Ho & ->). eauto.
  - intros Hn. apply Z.leb_le in Hn. rewrite Hn in B. rewrite !andb_true_iff in B. destruct B as [[B1 B2] B3].
    split; [now apply Nat.eqb_eq|]. split; [now apply nodup_chk_sound|].
    intros Hc. apply mem_str_In in Hc. rewrite Hc in B3. discriminate.
Qed.

(* N-layer query. negative layers / malformed IDs are outside the property's quantifier (the error flag is compared with the model);
   otherwise: no error, no duplicates, exactly the members of the reference, and the count law for a single voxel *)
Definition count_ok (l : list eid) (H V : Z) (r : list string) : bool :=
  match l with
  | [i] => if 2 * H + 1 <=? 2 ^ eh i
           then (Z.of_nat (List.length r) =? (2 * H + 1) * (2 * H + 1) * (2 * V + 1) - 1) && negb (mem_str (print_eid i) r)
           else true
  | _ => true
  end.
Definition check_N (ids : list string) (H V : Z) (obs : result (list string)) : bool :=
  if (H <? 0) || (V <? 0) then true
  else match parse_all ids with
       | None => true
       | Some l => match obs with
                   | Err => false
                   | Ok r => set_eq r (nN_ref l H V) && nodup_chk r && count_ok l H V r
                   end
       end.
Lemma parse_all_okids l : okids l -> parse_all (map print_eid l) = Some l.
Proof.
  intros Hl. apply parse_all_print. apply forallb_forall. intros i Hi. apply okid_fields. now apply Hl.
Qed.
Theorem check_N_sound l H V obs : okids l -> 0 <= H -> 0 <= V -> check_N (map print_eid l) H V obs = true ->
  exists r, obs = Ok r /\ NoDup r /\
    (forall s, In s r <-> exists i o, In i l /\ In o (stencil H V) /\ s = print_eid (shift_o i o)) /\
    (forall i, l = [i] -> 2 * H + 1 <= 2 ^ eh i ->
       Z.of_nat (List.length r) = (2 * H + 1) * (2 * H + 1) * (2 * V + 1) - 1 /\ ~ In (print_eid i) r).
Proof.
  intros Hl HH HV. unfold check_N.
  replace ((H <? 0) || (V <? 0)) with false by (symmetry; apply orb_false_iff; split; apply Z.ltb_ge; assumption).
  rewrite parse_all_okids by assumption. destruct obs as [r|]; [|discriminate].
  rewrite !andb_true_iff. intros [[A B] C]. exists r. split; [reflexivity|]. split; [now apply nodup_chk_sound|]. split.
  - intros s. rewrite (proj1 (set_eq_spec _ _) A s). apply in_nN_ref.
  - intros i -> Hn. unfold count_ok in C. apply Z.leb_le in Hn. rewrite Hn in C.
    rewrite andb_true_iff in C. destruct C as [C1 C2]. split; [now apply Z.eqb_eq|].
    intros Hc. apply mem_str_In in Hc. rewrite Hc in C2. discriminate.
Qed.
(* the verified model passes the count part of its own checker (sanity of the count law as the checker states it) *)
Theorem count_ok_model i H V r : okid i -> 0 <= H -> 0 <= V -> nN_api [print_eid i] H V = Ok r -> count_ok [i] H V r = true.
Proof.
  intros Hi HH HV E. unfold count_ok. destruct (Z.leb_spec (2 * H + 1) (2 ^ eh i)) as [Hn|]; [|reflexivity].
  destruct (nN_count i H V Hi HH HV Hn) as (r' & E' & _ & L & NC). rewrite E in E'. injection E' as <-.
  rewrite L, Z.eqb_refl. cbn [andb]. apply negb_true_iff. destruct (mem_str (print_eid i) r) eqn:M; [|reflexivity].
  apply mem_str_In in M. contradiction.
Qed.

(* ================= Part 5: the statements for valid IDs (the property's quantifier), as used by properties/C08.v ================= *)
Definition valids (l : list eid) : Prop := forall i, In i l -> valid i.
Lemma valids_okids l : valids l -> okids l.
Proof. intros H i Hi. now apply valid_okid, H. Qed.

Theorem v_n6_exact i s : valid i ->
  (In s (n6_api (print_eid i)) <-> exists dx dy dv, Z.abs dx + Z.abs dy + Z.abs dv = 1 /\ s = print_eid (shift_spec i dx dy dv)).
Proof. intros Hv. now apply n6_exact, valid_okid. Qed.
Theorem v_n8_exact i s : valid i ->
  (In s (n8_api (print_eid i)) <-> exists dx dy, Z.max (Z.abs dx) (Z.abs dy) = 1 /\ s = print_eid (shift_spec i dx dy 0)).
Proof. intros Hv. now apply n8_exact, valid_okid. Qed.
Theorem v_n26_exact i s : valid i ->
  (In s (n26_api (print_eid i)) <->
   exists dx dy dv, Z.max (Z.abs dx) (Z.max (Z.abs dy) (Z.abs dv)) = 1 /\ s = print_eid (shift_spec i dx dy dv)).
Proof. intros Hv. apply n26_exact; [now apply valid_okid|now apply valid_vroom1]. Qed.
Theorem v_n26_is_1layer i s : valid i -> (In s (n26_api (print_eid i)) <-> In s (nN_list [print_eid i] 1 1)).
Proof. intros Hv. apply n26_is_1layer; [now apply valid_okid|now apply valid_vroom1]. Qed.
Theorem v_nN_exact l H V : valids l -> 0 <= H -> 0 <= V ->
  exists r, nN_api (map print_eid l) H V = Ok r /\ NoDup r /\
    forall s, In s r <-> exists i dx dy dv, In i l /\ - H <= dx <= H /\ - H <= dy <= H /\ - V <= dv <= V /\
                                     ~ (dx = 0 /\ dy = 0 /\ dv = 0) /\ s = print_eid (shift_spec i dx dy dv).
Proof. intros Hl. apply nN_exact_explicit. now apply valids_okids. Qed.
Theorem v_nN_union l H V s : valids l -> 0 <= H -> 0 <= V ->
  (In s (nN_list (map print_eid l) H V) <-> exists i, In i l /\ In s (nN_list [print_eid i] H V)).
Proof. intros Hl. apply nN_union. now apply valids_okids. Qed.
Theorem v_nN_count i H V : valid i -> 0 <= H -> 0 <= V -> 2 * H + 1 <= 2 ^ eh i ->
  exists r, nN_api [print_eid i] H V = Ok r /\ NoDup r /\
    Z.of_nat (List.length r) = (2 * H + 1) * (2 * H + 1) * (2 * V + 1) - 1 /\ ~ In (print_eid i) r.
Proof. intros Hv. apply nN_count. now apply valid_okid. Qed.
Theorem v_n6_count i : valid i -> 3 <= 2 ^ eh i ->
  NoDup (n6_api (print_eid i)) /\ List.length (n6_api (print_eid i)) = 6%nat /\ ~ In (print_eid i) (n6_api (print_eid i)).
Proof. intros Hv. apply n6_count. now apply valid_okid. Qed.
Theorem v_n8_count i : valid i -> 3 <= 2 ^ eh i ->
  NoDup (n8_api (print_eid i)) /\ List.length (n8_api (print_eid i)) = 8%nat /\ ~ In (print_eid i) (n8_api (print_eid i)).
Proof. intros Hv. apply n8_count. now apply valid_okid. Qed.
Theorem v_n26_count i : valid i -> 3 <= 2 ^ eh i ->
  NoDup (n26_api (print_eid i)) /\ List.length (n26_api (print_eid i)) = 26%nat /\ ~ In (print_eid i) (n26_api (print_eid i)).
Proof. intros Hv. apply n26_count; [now apply valid_okid|now apply valid_vroom1]. Qed.
Theorem v_n6_symmetric i j : valid i -> valid j ->
  (In (print_eid j) (n6_api (print_eid i)) <-> In (print_eid i) (n6_api (print_eid j))).
Proof. intros Hi Hj. apply n6_symmetric; now apply valid_okid. Qed.
Theorem v_n8_symmetric i j : valid i -> valid j ->
  (In (print_eid j) (n8_api (print_eid i)) <-> In (print_eid i) (n8_api (print_eid j))).
Proof. intros Hi Hj. apply n8_symmetric; now apply valid_okid. Qed.
Theorem v_n26_symmetric i j : valid i -> valid j ->
  (In (print_eid j) (n26_api (print_eid i)) <-> In (print_eid i) (n26_api (print_eid j))).
Proof. intros Hi Hj. apply n26_symmetric; (split; [now apply valid_okid|now apply valid_vroom1]). Qed.
Theorem v_nN_symmetric H V i j : 0 <= H -> 0 <= V -> valid i -> valid j ->
  (In (print_eid j) (nN_list [print_eid i] H V) <-> In (print_eid i) (nN_list [print_eid j] H V)).
Proof. intros HH HV Hi Hj. apply nN_symmetric; try assumption; now apply valid_okid. Qed.
Theorem v_nN_zero_layers l : valids l -> nN_api (map print_eid l) 0 0 = Ok [].
Proof. intros Hl. now apply nN_zero_layers, valids_okids. Qed.
Theorem v_check_fixed_sound offs i obs : valid i -> check_fixed offs (print_eid i) obs = true ->
  (forall s, In s obs <-> exists o, In o offs /\ s = print_eid (shift_o i o)) /\
  (3 <= 2 ^ eh i -> List.length obs = List.length offs /\ NoDup obs /\ ~ In (print_eid i) obs).
Proof. intros Hv. now apply check_fixed_sound, valid_okid. Qed.
Theorem v_check_N_sound l H V obs : valids l -> 0 <= H -> 0 <= V -> check_N (map print_eid l) H V obs = true ->
  exists r, obs = Ok r /\ NoDup r /\
    (forall s, In s r <-> exists i o, In i l /\ In o (stencil H V) /\ s = print_eid (shift_o i o)) /\
    (forall i, l = [i] -> 2 * H + 1 <= 2 ^ eh i ->
       Z.of_nat (List.length r) = (2 * H + 1) * (2 * H + 1) * (2 * V + 1) - 1 /\ ~ In (print_eid i) r).
Proof. intros Hl. now apply check_N_sound, valids_okids. Qed.
