(* PointLaws.v — laws of the small helpers of common/util.go and common/spatial/point3.go, vector3.go that the property text does not name
   one by one: AlmostEqual, Point3.IsClose, UniqueAppend, MaxPoint / MinPoint, Vector3.L1Norm, DegreeToRadian / RadianToDegree.
   Three levels: (R) real numbers (Vec.v vocabulary); (L) lists over an arbitrary element type; (F) Coq's primitive binary64 floats
   through Flocq — the executable models compared bit for bit with the Go code are VecF.almost_equal, fis_close, fl1norm, deg2rad,
   rad2deg, fmax_point and DC20.unique_append. *)
From Coq Require Import ZArith Reals Lia Lra Psatz Floats List Bool.
From Flocq Require Import Core BinarySingleNaN.
From Flocq Require PrimFloat.
From Interval Require Import Tactic.
From SID Require Import Base F64 Vec VecF VecExact OrdMax.
Import ListNotations.
Open Scope R_scope.

(* ================= (R) L1Norm ================= *)
Theorem vl1norm_nonneg a : 0 <= vl1norm a.
Proof. unfold vl1norm. pose proof (Rabs_pos (vx a)). pose proof (Rabs_pos (vy a)). pose proof (Rabs_pos (vz a)). lra. Qed.
Theorem vl1norm_triangle a b : vl1norm (vadd a b) <= vl1norm a + vl1norm b.
Proof.
  unfold vl1norm; cbn. pose proof (Rabs_triang (vx a) (vx b)). pose proof (Rabs_triang (vy a) (vy b)).
  pose proof (Rabs_triang (vz a) (vz b)). lra.
Qed.
Theorem vl1norm_scale f a : vl1norm (vscale f a) = Rabs f * vl1norm a.
Proof. unfold vl1norm; cbn. rewrite !Rabs_mult. ring. Qed.
Theorem vl1norm_zero_iff a : vl1norm a = 0 <-> a = vzero.
Proof.
  split.
  - intros H. unfold vl1norm in H. pose proof (Rabs_pos (vx a)). pose proof (Rabs_pos (vy a)). pose proof (Rabs_pos (vz a)).
    destruct a as [x y z]; cbn in *. unfold vzero. f_equal.
    + destruct (Req_dec x 0) as [E|N]; [exact E|apply Rabs_pos_lt in N; lra].
    + destruct (Req_dec y 0) as [E|N]; [exact E|apply Rabs_pos_lt in N; lra].
    + destruct (Req_dec z 0) as [E|N]; [exact E|apply Rabs_pos_lt in N; lra].
  - intros ->. unfold vl1norm, vzero; cbn. rewrite Rabs_R0. ring.
Qed.
(* the Euclidean norm never exceeds the L1 norm *)
Theorem vnorm_le_vl1norm a : vnorm a <= vl1norm a.
Proof.
  pose proof (vl1norm_nonneg a) as P. pose proof (vnorm_nonneg a) as N. pose proof (vnorm_sq a) as S.
  assert (Q : vdot a a <= vl1norm a * vl1norm a).
  { unfold vdot, vl1norm. pose proof (Rabs_pos (vx a)). pose proof (Rabs_pos (vy a)). pose proof (Rabs_pos (vz a)).
    rewrite <- (Rabs_mult (vx a) (vx a)), <- (Rabs_mult (vy a) (vy a)), <- (Rabs_mult (vz a) (vz a)) || idtac.
    assert (forall t, t * t = Rabs t * Rabs t) as E by (intros t; unfold Rabs; destruct (Rcase_abs t); ring).
    rewrite (E (vx a)), (E (vy a)), (E (vz a)). nra. }
  nra.
Qed.

(* ================= (R) AlmostEqual, IsClose ================= *)
(* `x == y || math.Abs(x-y) <= absTol` *)
Definition almost_equalR (x y tol : R) : Prop := x = y \/ Rabs (x - y) <= tol.
Theorem almost_equalR_refl x tol : almost_equalR x x tol.
Proof. now left. Qed.
Theorem almost_equalR_sym x y tol : almost_equalR x y tol -> almost_equalR y x tol.
Proof. intros [H|H]; [left; auto|right; now rewrite Rabs_minus_sym]. Qed.
(* with a non-negative tolerance the equality test is redundant: the relation is |x - y| <= tol *)
Theorem almost_equalR_iff x y tol : 0 <= tol -> (almost_equalR x y tol <-> Rabs (x - y) <= tol).
Proof.
  intros Ht. split; [|now right]. intros [->|H]; [|exact H]. replace (y - y) with 0 by ring. now rewrite Rabs_R0.
Qed.
(* with a negative tolerance only equal numbers are "almost equal" *)
Theorem almost_equalR_neg_tol x y tol : tol < 0 -> (almost_equalR x y tol <-> x = y).
Proof. intros Ht. split; [|now left]. intros [H|H]; [exact H|]. pose proof (Rabs_pos (x - y)). lra. Qed.
Theorem almost_equalR_mono x y t1 t2 : t1 <= t2 -> almost_equalR x y t1 -> almost_equalR x y t2.
Proof. intros Ht [H|H]; [now left|right; lra]. Qed.
Theorem almost_equalR_triangle x y z t1 t2 : 0 <= t1 -> 0 <= t2 ->
  almost_equalR x y t1 -> almost_equalR y z t2 -> almost_equalR x z (t1 + t2).
Proof.
  intros H1 H2 A B. apply almost_equalR_iff in A; [|exact H1]. apply almost_equalR_iff in B; [|exact H2]. right.
  replace (x - z) with ((x - y) + (y - z)) by ring. pose proof (Rabs_triang (x - y) (y - z)). lra.
Qed.
Definition is_closeR (p q : vec) (eps : R) : Prop :=
  almost_equalR (vx p) (vx q) eps /\ almost_equalR (vy p) (vy q) eps /\ almost_equalR (vz p) (vz q) eps.
Theorem is_closeR_refl p eps : is_closeR p p eps.
Proof. repeat split; apply almost_equalR_refl. Qed.
Theorem is_closeR_sym p q eps : is_closeR p q eps -> is_closeR q p eps.
Proof. intros (A & B & C). repeat split; now apply almost_equalR_sym. Qed.
(* closeness is the max-norm ball: every coordinate differs by at most eps *)
Theorem is_closeR_iff p q eps : 0 <= eps ->
  (is_closeR p q eps <-> Rabs (vx p - vx q) <= eps /\ Rabs (vy p - vy q) <= eps /\ Rabs (vz p - vz q) <= eps).
Proof. intros H. unfold is_closeR. now rewrite !(almost_equalR_iff _ _ _ H). Qed.

(* ================= (F) AlmostEqual on binary64 ================= *)
#[local] Instance Hprec : Prec_gt_0 FloatOps.prec := eq_refl _.
#[local] Instance Hmax : Prec_lt_emax FloatOps.prec FloatOps.emax := eq_refl _.
Notation rnd := (round radix2 (SpecFloat.fexp FloatOps.prec FloatOps.emax) ZnearestE).
Notation fmtF := (generic_format radix2 (SpecFloat.fexp FloatOps.prec FloatOps.emax)).

Lemma eqb_real x y : fin x -> fin y -> (x =? y)%float = Req_bool (rv x) (rv y).
Proof.
  intros Fx Fy. assert (E : (x =? y)%float = @Beqb _ _ (P2B x) (P2B y)) by exact (PrimFloat.eqb_equiv x y).
  rewrite E. now apply Beqb_correct.
Qed.
Lemma leb_real x y : fin x -> fin y -> (x <=? y)%float = Rle_bool (rv x) (rv y).
Proof.
  intros Fx Fy. assert (E : (x <=? y)%float = @Bleb _ _ (P2B x) (P2B y)) by exact (PrimFloat.leb_equiv x y).
  rewrite E. now apply Bleb_correct.
Qed.
Lemma abs_real x : rv (abs x) = Rabs (rv x) /\ (fin x -> fin (abs x)).
Proof.
  assert (E : P2B (abs x) = Babs (P2B x)) by exact (PrimFloat.abs_equiv x).
  unfold rv, fin. rewrite E. split; [apply B2R_Babs|]. now rewrite is_finite_Babs.
Qed.
Lemma sub_real x y : fin x -> fin y -> Rabs (rnd (rv x - rv y)) < bpow radix2 FloatOps.emax ->
  rv (x - y)%float = rnd (rv x - rv y) /\ fin (x - y)%float.
Proof.
  intros Fx Fy Ho.
  assert (E : P2B (x - y)%float = @Bminus _ _ Hprec Hmax mode_NE (P2B x) (P2B y)) by exact (PrimFloat.sub_equiv x y).
  pose proof (Bminus_correct _ _ Hprec Hmax mode_NE (P2B x) (P2B y) Fx Fy) as H.
  cbn [round_mode] in H. fold (rv x) (rv y) in H. rewrite Rlt_bool_true in H by exact Ho.
  destruct H as (H1 & H2 & _). unfold rv, fin. now rewrite E.
Qed.

(* the value computed by the code, for finite arguments whose difference does not overflow *)
Theorem almost_equal_value x y tol : fin x -> fin y -> fin tol -> Rabs (rnd (rv x - rv y)) < bpow radix2 FloatOps.emax ->
  (almost_equal x y tol = true <-> rv x = rv y \/ Rabs (rnd (rv x - rv y)) <= rv tol).
Proof.
  intros Fx Fy Ft Ho. unfold almost_equal. destruct (sub_real x y Fx Fy Ho) as [Vs Fs].
  destruct (abs_real (x - y)%float) as [Va Fa]. specialize (Fa Fs).
  rewrite orb_true_iff, (eqb_real x y Fx Fy), (leb_real _ _ Fa Ft), Va, Vs.
  split; intros [H|H].
  - left. now apply Req_bool_true_iff || (destruct (Req_bool_spec (rv x) (rv y)); [assumption|discriminate]).
  - right. destruct (Rle_bool_spec (Rabs (rnd (rv x - rv y))) (rv tol)); [assumption|discriminate].
  - left. now apply Req_bool_true.
  - right. now apply Rle_bool_true.
Qed.
(* exact statement of the tolerance: whenever the real difference is within tol the code answers true (rounding is monotone and tol
   is a float); the converse can fail only when |x - y| exceeds tol by less than half an ulp of the rounded difference *)
Theorem almost_equal_complete x y tol : fin x -> fin y -> fin tol -> Rabs (rnd (rv x - rv y)) < bpow radix2 FloatOps.emax ->
  Rabs (rv x - rv y) <= rv tol -> almost_equal x y tol = true.
Proof.
  intros Fx Fy Ft Ho H. apply (almost_equal_value x y tol Fx Fy Ft Ho). right.
  rewrite <- round_NE_abs by typeclasses eauto.
  replace (rv tol) with (rnd (rv tol)).
  - apply round_le; [typeclasses eauto|typeclasses eauto|exact H].
  - apply round_generic; [typeclasses eauto|]. apply generic_format_B2R.
Qed.
Theorem almost_equal_refl x tol : fin x -> almost_equal x x tol = true.
Proof. intros Fx. unfold almost_equal. rewrite (eqb_real x x Fx Fx), Req_bool_true by reflexivity. reflexivity. Qed.
Theorem almost_equal_sym x y tol : fin x -> fin y -> fin tol -> Rabs (rnd (rv x - rv y)) < bpow radix2 FloatOps.emax ->
  almost_equal x y tol = almost_equal y x tol.
Proof.
  intros Fx Fy Ft Ho.
  assert (S : rnd (rv y - rv x) = - rnd (rv x - rv y)).
  { replace (rv y - rv x) with (- (rv x - rv y)) by ring. apply round_NE_opp. }
  assert (Ho' : Rabs (rnd (rv y - rv x)) < bpow radix2 FloatOps.emax) by (rewrite S, Rabs_Ropp; exact Ho).
  apply eq_true_iff_eq. rewrite (almost_equal_value x y tol Fx Fy Ft Ho), (almost_equal_value y x tol Fy Fx Ft Ho'), S, Rabs_Ropp.
  split; (intros [H|H]; [left; auto|right; exact H]).
Qed.
Theorem fis_close_refl p eps : fin (fx p) -> fin (fy p) -> fin (fz p) -> fis_close p p eps = true.
Proof. intros A B C. unfold fis_close. now rewrite !almost_equal_refl. Qed.

(* ================= (L) UniqueAppend ================= *)
Section UniqueAppend.
  Context {A : Type} (close : A -> A -> bool).        (* close x p = x.IsClose(p, eps) *)
  Definition uappend (l : list A) (p : A) : list A := if existsb (fun x => close x p) l then l else l ++ [p].

  Theorem uappend_cases l p : (uappend l p = l /\ exists x, In x l /\ close x p = true) \/
                              (uappend l p = l ++ [p] /\ forall x, In x l -> close x p = false).
  Proof.
    unfold uappend. destruct (existsb (fun x => close x p) l) eqn:E.
    - left. split; [reflexivity|]. apply existsb_exists in E. exact E.
    - right. split; [reflexivity|]. intros x Hx. destruct (close x p) eqn:C; [|reflexivity].
      assert (existsb (fun x => close x p) l = true) by (apply existsb_exists; eauto). congruence.
  Qed.
  (* appended iff no member is close *)
  Theorem uappend_appends_iff l p : uappend l p = l ++ [p] <-> forall x, In x l -> close x p = false.
  Proof.
    split.
    - intros H. destruct (uappend_cases l p) as [[E _]|[_ N]]; [|exact N]. rewrite E in H.
      apply (f_equal (@length A)) in H. rewrite app_length in H. cbn in H. lia.
    - intros N. unfold uappend. destruct (existsb (fun x => close x p) l) eqn:E; [|reflexivity].
      apply existsb_exists in E. destruct E as (x & Hx & C). rewrite (N x Hx) in C. discriminate.
  Qed.
  (* the old points stay, in their order, in front *)
  Theorem uappend_keeps_prefix l p : exists t, uappend l p = l ++ t /\ (t = [] \/ t = [p]).
  Proof.
    destruct (uappend_cases l p) as [[E _]|[E _]]; rewrite E; [exists []|exists [p]]; [rewrite app_nil_r|]; auto.
  Qed.
  Theorem uappend_members l p x : In x (uappend l p) -> In x l \/ x = p.
  Proof.
    destruct (uappend_keeps_prefix l p) as (t & E & [T|T]); rewrite E, T, in_app_iff; cbn; intuition congruence.
  Qed.
  (* a point is close to itself (IsClose is reflexive on non-NaN points): duplicates are never created *)
  Hypothesis close_refl : forall p, close p p = true.
  Theorem uappend_NoDup l p : NoDup l -> NoDup (uappend l p).
  Proof.
    intros H. destruct (uappend_cases l p) as [[E _]|[E N]]; rewrite E; [exact H|].
    apply NoDup_app'; [exact H|repeat constructor; intros []|].
    intros x Hx Hp. destruct Hp as [<-|Hf]; [|destruct Hf]. pose proof (N _ Hx) as C. rewrite close_refl in C. discriminate.
  Qed.
  (* more: a list whose members are pairwise not close stays so (this is what the function is for) *)
  Hypothesis close_sym : forall p q, close p q = close q p.
  Definition separated (l : list A) : Prop := ForallOrdPairs (fun x y => close x y = false) l.
  Lemma separated_app_one l p : separated l -> (forall x, In x l -> close x p = false) -> separated (l ++ [p]).
  Proof.
    induction 1 as [|a r Ha Hr IH]; intros N; cbn.
    - repeat constructor.
    - constructor.
      + apply Forall_app. split; [exact Ha|]. constructor; [apply N; now left|constructor].
      + apply IH. intros x Hx. apply N. now right.
  Qed.
  Theorem uappend_separated l p : separated l -> separated (uappend l p).
  Proof.
    intros H. destruct (uappend_cases l p) as [[E _]|[E N]]; rewrite E; [exact H|]. now apply separated_app_one.
  Qed.
End UniqueAppend.

(* ================= (R) MaxPoint / MinPoint ================= *)
(* generic scan with a real-valued score (MaxPoint: score p = p . vec); strict comparison keeps the first maximiser *)
Definition rltb (x y : R) : bool := if Rlt_dec x y then true else false.
Section BestR.
  Context {A : Type} (score : A -> R).
  Fixpoint rbest (gt : bool) (l : list A) (best : A) : A :=
    match l with
    | [] => best
    | p :: r => if (if gt then rltb (score best) (score p) else rltb (score p) (score best)) then rbest gt r p else rbest gt r best
    end.
  Definition best_ofR (gt : bool) (l : list A) : result A := match l with [] => Err | a :: _ => Ok (rbest gt l a) end.
  Definition boundsR (gt : bool) (r q : A) : Prop := if gt then score q <= score r else score r <= score q.

  Lemma rbest_spec gt : forall l best,
    (rbest gt l best = best \/ In (rbest gt l best) l) /\ boundsR gt (rbest gt l best) best /\
    forall q, In q l -> boundsR gt (rbest gt l best) q.
  Proof.
    induction l as [|p r IH]; intros best; cbn [rbest].
    - repeat split; [now left|destruct gt; cbn; lra|intros q []].
    - destruct gt.
      + unfold rltb. destruct (Rlt_dec (score best) (score p)) as [Hlt|Hge].
        * destruct (IH p) as (M & B0 & BA). cbn [boundsR] in *. repeat split.
          -- right. destruct M as [->|M]; [now left|now right].
          -- lra.
          -- intros q [<-|Hq]; [exact B0|now apply BA].
        * destruct (IH best) as (M & B0 & BA). cbn [boundsR] in *. repeat split.
          -- destruct M as [M|M]; [now left|right; now right].
          -- exact B0.
          -- intros q [<-|Hq]; [lra|now apply BA].
      + unfold rltb. destruct (Rlt_dec (score p) (score best)) as [Hlt|Hge].
        * destruct (IH p) as (M & B0 & BA). cbn [boundsR] in *. repeat split.
          -- right. destruct M as [->|M]; [now left|now right].
          -- lra.
          -- intros q [<-|Hq]; [exact B0|now apply BA].
        * destruct (IH best) as (M & B0 & BA). cbn [boundsR] in *. repeat split.
          -- destruct M as [M|M]; [now left|right; now right].
          -- exact B0.
          -- intros q [<-|Hq]; [lra|now apply BA].
  Qed.
  Theorem best_ofR_spec gt l m : best_ofR gt l = Ok m -> In m l /\ forall q, In q l -> boundsR gt m q.
  Proof.
    destruct l as [|a r]; [discriminate|]. intros H.
    assert (Hm : m = rbest gt (a :: r) a) by (cbn [best_ofR] in H; congruence). subst m. clear H.
    destruct (rbest_spec gt (a :: r) a) as (M & _ & BA). split; [|exact BA].
    destruct M as [E|M]; [rewrite E; now left|exact M].
  Qed.
  Theorem best_ofR_err gt l : best_ofR gt l = Err <-> l = [].
  Proof. destruct l; cbn; split; congruence. Qed.
  (* idempotence: the result scanned alone, or scanned in front of the list it was chosen from, is itself *)
  Theorem best_ofR_single gt a : best_ofR gt [a] = Ok a.
  Proof. cbn. unfold rltb. destruct gt; destruct (Rlt_dec _ _); reflexivity. Qed.
  Lemma rbest_stays gt : forall l best, (forall q, In q l -> boundsR gt best q) -> rbest gt l best = best.
  Proof.
    induction l as [|p r IH]; intros best H; cbn [rbest]; [reflexivity|].
    pose proof (H p (or_introl eq_refl)) as Hp.
    unfold rltb. destruct gt; cbn [boundsR] in Hp; destruct (Rlt_dec _ _) as [L|L]; try lra; apply IH; intros q Hq; apply H; now right.
  Qed.
  Theorem best_ofR_idempotent gt l m : best_ofR gt l = Ok m -> best_ofR gt (m :: l) = Ok m.
  Proof.
    intros H. destruct (best_ofR_spec gt l m H) as [_ B]. cbn [best_ofR]. f_equal. apply rbest_stays.
    intros q [<-|Hq]; [destruct gt; cbn; lra|now apply B].
  Qed.
End BestR.
Definition max_pointR (l : list vec) (v : vec) : result vec := best_ofR (fun p => vdot p v) true l.
Definition min_pointR (l : list vec) (v : vec) : result vec := best_ofR (fun p => vdot p v) false l.
Theorem max_pointR_spec l v m : max_pointR l v = Ok m -> In m l /\ forall q, In q l -> vdot q v <= vdot m v.
Proof. apply (best_ofR_spec (fun p => vdot p v) true). Qed.
Theorem min_pointR_spec l v m : min_pointR l v = Ok m -> In m l /\ forall q, In q l -> vdot m v <= vdot q v.
Proof. apply (best_ofR_spec (fun p => vdot p v) false). Qed.
(* componentwise bounds: along a coordinate axis the result has the extreme coordinate *)
Theorem max_pointR_axis l m : max_pointR l (V 1 0 0) = Ok m -> In m l /\ forall q, In q l -> vx q <= vx m.
Proof.
  intros H. destruct (max_pointR_spec _ _ _ H) as [I B]. split; [exact I|]. intros q Hq. specialize (B q Hq).
  unfold vdot in B; cbn in B. lra.
Qed.
Theorem min_pointR_axis l m : min_pointR l (V 1 0 0) = Ok m -> In m l /\ forall q, In q l -> vx m <= vx q.
Proof.
  intros H. destruct (min_pointR_spec _ _ _ H) as [I B]. split; [exact I|]. intros q Hq. specialize (B q Hq).
  unfold vdot in B; cbn in B. lra.
Qed.
(* MinPoint is MaxPoint for the opposite direction (as values of the extreme dot product) *)
Theorem min_max_pointR l v m m' : min_pointR l v = Ok m -> max_pointR l (vneg v) = Ok m' -> vdot m v = vdot m' v.
Proof.
  intros H1 H2. destruct (min_pointR_spec _ _ _ H1) as [I1 B1]. destruct (max_pointR_spec _ _ _ H2) as [I2 B2].
  pose proof (B1 m' I2) as P1. pose proof (B2 m I1) as P2. unfold vdot, vneg in *; cbn in *. lra.
Qed.

(* ================= (R) DegreeToRadian / RadianToDegree ================= *)
Definition deg2radR (d : R) : R := d * (PI / 180).
Definition rad2degR (r : R) : R := r * (180 / PI).
Theorem rad2deg_deg2radR d : rad2degR (deg2radR d) = d.
Proof. unfold rad2degR, deg2radR. field. apply PI_neq0. Qed.
Theorem deg2rad_rad2degR r : deg2radR (rad2degR r) = r.
Proof. unfold rad2degR, deg2radR. field. apply PI_neq0. Qed.
Theorem deg2radR_180 : deg2radR 180 = PI.
Proof. unfold deg2radR. field. Qed.
(* (F) the two float64 constants of the code are the correctly rounded values of pi/180 and 180/pi, and are inverse up to 2^-52 *)
Definition c_d2r_R : R := IZR 5030569068109113 / IZR (2 ^ 58).
Definition c_r2d_R : R := IZR 1007958012753983 / IZR (2 ^ 44).
Theorem c_d2r_close : Rabs (c_d2r_R - PI / 180) <= / IZR (2 ^ 60).
Proof. unfold c_d2r_R. interval with (i_prec 100). Qed.
Theorem c_r2d_close : Rabs (c_r2d_R - 180 / PI) <= / IZR (2 ^ 48).
Proof. unfold c_r2d_R. interval with (i_prec 100). Qed.
Theorem c_product_close : Rabs (c_d2r_R * c_r2d_R - 1) <= / IZR (2 ^ 52).
Proof. unfold c_d2r_R, c_r2d_R. interval with (i_prec 120). Qed.
Lemma rv_SF x : rv x = SF2R radix2 (Prim2SF x).
Proof. unfold rv. apply B2R_Prim2B. Qed.
Lemma c_deg2rad_value : rv c_deg2rad = c_d2r_R /\ fin c_deg2rad.
Proof.
  split; [|unfold fin; rewrite is_finite_Prim2B; reflexivity].
  rewrite rv_SF. replace (Prim2SF c_deg2rad) with (S754_finite false 5030569068109113 (-58)) by (vm_compute; reflexivity).
  unfold SF2R, F2R, c_d2r_R; cbn [Fnum Fexp cond_Zopp]. cbn. lra.
Qed.
Lemma c_rad2deg_value : rv c_rad2deg = c_r2d_R /\ fin c_rad2deg.
Proof.
  split; [|unfold fin; rewrite is_finite_Prim2B; reflexivity].
  rewrite rv_SF. replace (Prim2SF c_rad2deg) with (S754_finite false 8063664102031864 (-47)) by (vm_compute; reflexivity).
  unfold SF2R, F2R, c_r2d_R; cbn [Fnum Fexp cond_Zopp]. cbn. lra.
Qed.
Lemma mul_real x y : fin x -> fin y -> Rabs (rnd (rv x * rv y)) < bpow radix2 FloatOps.emax ->
  rv (x * y)%float = rnd (rv x * rv y) /\ fin (x * y)%float.
Proof.
  intros Fx Fy Ho.
  assert (E : P2B (x * y)%float = @Bmult _ _ Hprec Hmax mode_NE (P2B x) (P2B y)) by exact (PrimFloat.mul_equiv x y).
  pose proof (Bmult_correct _ _ Hprec Hmax mode_NE (P2B x) (P2B y)) as H.
  cbn [round_mode] in H. fold (rv x) (rv y) in H. rewrite Rlt_bool_true in H by exact Ho.
  destruct H as (H1 & H2 & _). unfold rv, fin. rewrite E, H1, H2. unfold fin in *. now rewrite Fx, Fy.
Qed.
(* the float band: the code computes the one correctly rounded product with the correctly rounded constant *)
Theorem deg2rad_value d : fin d -> Rabs (rnd (rv d * c_d2r_R)) < bpow radix2 FloatOps.emax ->
  rv (deg2rad d) = rnd (rv d * c_d2r_R).
Proof.
  intros Fd Ho. destruct c_deg2rad_value as [Vc Fc]. unfold deg2rad. rewrite <- Vc in *.
  now destruct (mul_real d c_deg2rad Fd Fc Ho).
Qed.
Theorem rad2deg_value r : fin r -> Rabs (rnd (rv r * c_r2d_R)) < bpow radix2 FloatOps.emax ->
  rv (rad2deg r) = rnd (rv r * c_r2d_R).
Proof.
  intros Fr Ho. destruct c_rad2deg_value as [Vc Fc]. unfold rad2deg. rewrite <- Vc in *.
  now destruct (mul_real r c_rad2deg Fr Fc Ho).
Qed.

(* ================= (F) L1Norm is exact on integers ================= *)
Lemma int_abs x m : is_int x m -> is_int (abs x) (Z.abs m).
Proof.
  intros [Fx Vx]. destruct (abs_real x) as [Va Fa]. split; [apply Fa, Fx|].
  fold (rv (abs x)). rewrite Va. unfold rv. rewrite Vx. symmetry. apply abs_IZR.
Qed.
Theorem fl1norm_exact a ma : ibv K a ma -> is_int (fl1norm a) (Z.abs (zx ma) + Z.abs (zy ma) + Z.abs (zz ma)).
Proof.
  intros ([I1 B1] & [I2 B2] & [I3 B3]). unfold fl1norm. unfold bnd, K in *.
  apply int_add; [apply int_add|apply int_abs|]; try apply int_abs; auto; lia.
Qed.

(* ================= conjunctions quoted by properties/C20.v ================= *)
Theorem vl1norm_laws a b f :
  0 <= vl1norm a /\ vl1norm (vadd a b) <= vl1norm a + vl1norm b /\ vl1norm (vscale f a) = Rabs f * vl1norm a /\
  (vl1norm a = 0 <-> a = vzero) /\ vnorm a <= vl1norm a.
Proof.
  exact (conj (vl1norm_nonneg a) (conj (vl1norm_triangle a b) (conj (vl1norm_scale f a) (conj (vl1norm_zero_iff a) (vnorm_le_vl1norm a))))).
Qed.
Theorem almost_equalR_laws x y tol :
  almost_equalR x x tol /\ (almost_equalR x y tol -> almost_equalR y x tol) /\
  (0 <= tol -> (almost_equalR x y tol <-> Rabs (x - y) <= tol)) /\ (tol < 0 -> (almost_equalR x y tol <-> x = y)).
Proof.
  exact (conj (almost_equalR_refl x tol) (conj (almost_equalR_sym x y tol) (conj (almost_equalR_iff x y tol) (almost_equalR_neg_tol x y tol)))).
Qed.
Theorem is_closeR_laws p q eps :
  is_closeR p p eps /\ (is_closeR p q eps -> is_closeR q p eps) /\
  (0 <= eps -> (is_closeR p q eps <-> Rabs (vx p - vx q) <= eps /\ Rabs (vy p - vy q) <= eps /\ Rabs (vz p - vz q) <= eps)).
Proof. exact (conj (is_closeR_refl p eps) (conj (is_closeR_sym p q eps) (is_closeR_iff p q eps))). Qed.
Theorem deg_rad_inverseR x : rad2degR (deg2radR x) = x /\ deg2radR (rad2degR x) = x /\ deg2radR 180 = PI.
Proof. exact (conj (rad2deg_deg2radR x) (conj (deg2rad_rad2degR x) deg2radR_180)). Qed.
Theorem deg_rad_constants :
  rv c_deg2rad = c_d2r_R /\ rv c_rad2deg = c_r2d_R /\
  Rabs (c_d2r_R - PI / 180) <= / IZR (2 ^ 60) /\ Rabs (c_r2d_R - 180 / PI) <= / IZR (2 ^ 48) /\ Rabs (c_d2r_R * c_r2d_R - 1) <= / IZR (2 ^ 52).
Proof.
  exact (conj (proj1 c_deg2rad_value) (conj (proj1 c_rad2deg_value) (conj c_d2r_close (conj c_r2d_close c_product_close)))).
Qed.
Theorem max_min_pointR_laws l v m :
  (max_pointR l v = Ok m -> In m l /\ forall q, In q l -> vdot q v <= vdot m v) /\
  (min_pointR l v = Ok m -> In m l /\ forall q, In q l -> vdot m v <= vdot q v) /\
  (max_pointR l v = Err <-> l = []) /\ (min_pointR l v = Err <-> l = []).
Proof.
  exact (conj (max_pointR_spec l v m) (conj (min_pointR_spec l v m)
        (conj (best_ofR_err (fun p => vdot p v) true l) (best_ofR_err (fun p => vdot p v) false l)))).
Qed.
Theorem max_min_pointR_idempotent l v m :
  (max_pointR l v = Ok m -> max_pointR (m :: l) v = Ok m) /\ (min_pointR l v = Ok m -> min_pointR (m :: l) v = Ok m) /\
  max_pointR [m] v = Ok m /\ min_pointR [m] v = Ok m.
Proof.
  exact (conj (best_ofR_idempotent (fun p => vdot p v) true l m) (conj (best_ofR_idempotent (fun p => vdot p v) false l m)
        (conj (best_ofR_single (fun p => vdot p v) true m) (best_ofR_single (fun p => vdot p v) false m)))).
Qed.
Theorem max_min_pointR_axis l m :
  (max_pointR l (V 1 0 0) = Ok m -> In m l /\ forall q, In q l -> vx q <= vx m) /\
  (min_pointR l (V 1 0 0) = Ok m -> In m l /\ forall q, In q l -> vx m <= vx q).
Proof. exact (conj (max_pointR_axis l m) (min_pointR_axis l m)). Qed.
Theorem maxF_minF_laws l m :
  (Forall fin l -> maxF l = Ok m -> In m l /\ forall x, In x l -> rv x <= rv m) /\
  (Forall fin l -> minF l = Ok m -> In m l /\ forall x, In x l -> rv m <= rv x) /\
  (maxF l = Err <-> l = []) /\ (minF l = Err <-> l = []).
Proof. exact (conj (maxF_spec l m) (conj (minF_spec l m) (conj (maxF_err l) (minF_err l)))). Qed.

(* the 112-digit value of pi used by the run-time degree/radian judge (VecF.pi112) *)
Theorem pi112_close : Rabs (IZR 16312081666030376401667486162748272 / IZR (2 ^ 112) - PI) <= / IZR (2 ^ 110).
Proof. interval with (i_prec 140). Qed.
