(* GenC04.v — property C04 stated of the REGENERATED INT64 kernels (generated/Generated64.v: `NewHighSpatialID`'s threshold and
   `ExtendedSpatialID.Higher`, translated from /repo's Go source with Go's int64 semantics explicit; M A = option (A * bool):
   None = run-time panic, flag = no operation left the int64 range; go_value = what Go returns, wrapped or not).
   Until now "the int64 threshold product is Merge.thr64 / is the mathematical threshold below exponent 63" and "Higher on int64 is
   ZoomCore.higher" were assumptions validated by differential execution; GenEq64Merge.v / GenEq64Zoom.v prove them for the regenerated
   code, so the statements below are about what the translator reads from the source on every run:
     - zooms 0..35, threshold exponent 2*(MH-H)+(MV-V) <= 62: the code computes, with no wrap, exactly thr = 4^(MH-H)*2^(MV-V)    (gen64_threshold_is_thr)
     - hence the code's count test `len(unitIDs) == threshold` is the covering test of the specification                          (gen64_count_test_is_covering)
     - zooms 0..35, ANY exponent (also the wrapping ones 63..105): the value Go computes is Merge.thr64, the threshold of the
       executable model merge64; thr64 is right for 0 <= MV-V <= 63 only (beyond, Go's saturated power differs:
       GenEq64Merge.thr64_differs_beyond), which zooms <= 35 and the harness bound MV-V <= 40 never reach                       (gen64_threshold_go_value_is_thr64)
     - the first wrapping exponents computed on the generated kernel itself: 63 -> MinInt64, 64 -> 0                              (gen64_threshold_first_wraps)
     - Higher on a valid ID with differences 0..61 (merge passes h-H, v-V <= 35): no wrap, the floor ancestor on all three axes    (gen64_Higher_is_floor_ancestor)
     - Higher with hDiff < 0 panics (division by int64(2^negative) = 0); with vDiff < 0 it does NOT panic: the count is
       uint64(vDiff) and the shift fills with the sign (the Z-model ZoomCore.higher shifts left there: it is the code's model only
       for vDiff >= 0, which is all the merge and the dispatch entry ever pass)                                                  (gen64_Higher_negative_differences)
   An edit of these Go functions changes Generated64.v, breaks GenEq64Merge/GenEq64Zoom and therefore this file and properties/C04.v.
   NOT imported by DC04.v / Dispatch.v (the extracted model must not depend on SIDGen); only properties/C04.v imports it. *)
From Coq Require Import ZArith Lia Bool List.
From SID Require Import Base Ids ZoomCore Merge MergeCheck MergeProof MergeRegion GenTac.
From SID Require I64.
From SIDGen Require Generated Generated64.
From SID Require GenEqHigher GenEq64Merge GenEq64Zoom.
Import ListNotations.
Open Scope Z_scope.

Section Threshold.
  (* a member at zooms (hz, vz) between the target (H, V) and the maximal zooms (MH, MV): the arguments MergeExtendedSpatialIds passes are
     u.hDiff = MH-hz, u.vDiff = MV-vz (NewUnitDividedSpatialID) and hDiff = hz-H, vDiff = vz-V (NewHighSpatialID) *)
  Variables H V MH MV hz vz : Z.
  Hypothesis ZH : 0 <= H <= hz /\ hz <= MH <= 35.
  Hypothesis ZV : 0 <= V <= vz /\ vz <= MV <= 35.

  Let bounds : (- 2 ^ 61 <= hz - H <= 2 ^ 61) /\ (- 2 ^ 61 <= MH - hz <= 2 ^ 61) /\ (- 2 ^ 61 <= vz - V <= 2 ^ 61) /\ (- 2 ^ 61 <= MV - vz <= 2 ^ 61).
  Proof. assert (35 < 2 ^ 61) by (apply Z.lt_trans with (2 ^ 6); [reflexivity|apply Z.pow_lt_mono_r; lia]). lia. Qed.

  Theorem gen64_threshold_is_thr : 2 * (MH - H) + (MV - V) <= 62 ->
    Generated64.NewHighSpatialID_threshold (MH - hz) (MV - vz) (hz - H) (vz - V) = Some (thr H V MH MV, true).
  Proof.
    intros F. destruct bounds as (B1 & B2 & B3 & B4).
    rewrite (GenEq64Merge.gen64_NewHighSpatialID_threshold_fits (MH - hz) (MV - vz) (hz - H) (vz - V) B1 B2 B3 B4) by lia.
    rewrite GenEq64Merge.gen_NewHighSpatialID_threshold_eq. unfold thr.
    replace (hz - H + (MH - hz)) with (MH - H) by lia. replace (vz - V + (MV - vz)) with (MV - V) by lia. reflexivity.
  Qed.

  (* whatever the exponent (zooms 0..35 give up to 105): Go's value, wrapped or not, is the executable model's threshold *)
  Theorem gen64_threshold_go_value_is_thr64 :
    I64.go_value (Generated64.NewHighSpatialID_threshold (MH - hz) (MV - vz) (hz - H) (vz - V)) = Some (thr64 H V MH MV).
  Proof.
    destruct bounds as (B1 & B2 & B3 & B4).
    apply (GenEq64Merge.gen64_NewHighSpatialID_threshold_thr64 H V MH MV (MH - hz) (MV - vz) (hz - H) (vz - V) B1 B2 B3 B4); lia.
  Qed.
End Threshold.

(* the first wrapping exponents, computed on the generated kernel: 2*31+1 = 63 gives MinInt64, 2*32 = 64 gives 0 (one zoom-32 ID merged to
   target zoom 0) — the flag is off, and a non-empty group can never have that many unit IDs *)
Theorem gen64_threshold_first_wraps :
  Generated64.NewHighSpatialID_threshold 0 0 31 0 = Some (2 ^ 62, true) /\
  Generated64.NewHighSpatialID_threshold 0 0 31 1 = Some (- 2 ^ 63, false) /\
  Generated64.NewHighSpatialID_threshold 0 0 32 0 = Some (0, false) /\
  thr64 0 0 31 1 = - 2 ^ 63 /\ thr64 0 0 32 0 = 0.
Proof. repeat split; vm_compute; reflexivity. Qed.

(* C04 on the generated code: the count test the Go code performs for the group of an eligible input i — number of distinct unit IDs ==
   the int64 threshold it computes — succeeds exactly when the target voxel of i is completely filled by eligible inputs *)
Theorem gen64_count_test_is_covering H V ids i :
  0 <= H <= 35 -> 0 <= V <= 35 -> (forall j, In j ids -> valid j) -> fits64 H V ids -> In i ids -> elig H V i ->
  exists t, Generated64.NewHighSpatialID_threshold (maxz eh ids - eh i) (maxz ev ids - ev i) (eh i - H) (ev i - V) = Some (t, true) /\
    (Z.of_nat (length (nodupb eid_eqb (flat_map (units (maxz eh ids) (maxz ev ids)) (group H V (el H V ids) (tgt H V i))))) = t
     <-> fullS H V (fun j => In j ids) (tgt H V i)).
Proof.
  intros HH HV Hv F Hi [Eh Ev].
  assert (Hwf : forall j, In j ids -> wfz j) by (intros j Hj; apply valid_wfz, Hv, Hj).
  pose proof (maxz_ge eh ids i Hi) as Mh. pose proof (maxz_ge ev ids i Hi) as Mv.
  assert (M35h : maxz eh ids <= 35) by (apply maxz_le; [lia|]; intros j Hj; destruct (Hv j Hj) as (A & _); lia).
  assert (M35v : maxz ev ids <= 35) by (apply maxz_le; [lia|]; intros j Hj; destruct (Hv j Hj) as (_ & A & _); lia).
  exists (thr H V (maxz eh ids) (maxz ev ids)). split.
  - apply gen64_threshold_is_thr; try lia. unfold fits64 in F. lia.
  - assert (Hel : In i (el H V ids)) by (apply el_In; tauto).
    rewrite <- (full_fullS H V ltac:(lia) ltac:(lia) ids Hwf i Hel).
    rewrite <- (dense_full H V ids Hwf (tgt H V i) (ex_intro _ i (conj Hel eq_refl))).
    unfold dense. symmetry. apply Z.eqb_eq.
Qed.

(* ---- Higher ---- *)
Theorem gen64_Higher_is_floor_ancestor i hd vd : valid i -> 0 <= hd <= 61 -> 0 <= vd <= 61 ->
  Generated64.ExtendedSpatialID_Higher (eh i) (ex i) (ey i) (ev i) (ef i) hd vd =
    Some (eid_tuple {| eh := eh i - hd; ex := anc hd (ex i); ey := anc hd (ey i); ev := ev i - vd; ef := anc vd (ef i) |}, true).
Proof.
  intros (Hh & Hv & Hx & Hy & Hf) Hhd Hvd.
  assert (P62 : 35 < 2 ^ 62) by (apply Z.lt_trans with (2 ^ 6); [reflexivity|apply Z.pow_lt_mono_r; lia]).
  assert (P : forall z, 0 <= z <= 35 -> 2 ^ z < 2 ^ 63) by (intros; apply Z.pow_lt_mono_r; lia).
  pose proof (P _ Hh).
  rewrite GenEq64Zoom.gen64_ExtendedSpatialID_Higher_fits by lia.
  rewrite GenEqHigher.gen_ExtendedSpatialID_Higher_eq.
  rewrite (higher_anc (mk (eh i) (ex i) (ey i) (ev i) (ef i)) hd vd) by (cbn; lia). reflexivity.
Qed.
(* negative differences: hDiff < 0 is a panic (None); vDiff < 0 is not — the result's vertical index is the sign of f *)
Theorem gen64_Higher_negative_differences :
  (forall h x y v f hd vd, hd < 0 -> Generated64.ExtendedSpatialID_Higher h x y v f hd vd = None) /\
  (forall h x y v f hd vd, 0 <= hd <= 61 -> vd < 0 ->
     exists hz xx yy vz e, Generated64.ExtendedSpatialID_Higher h x y v f hd vd = Some ((hz, xx, yy, vz, if f <? 0 then -1 else 0), e)).
Proof. exact (conj GenEq64Zoom.gen64_ExtendedSpatialID_Higher_panics GenEq64Zoom.gen64_ExtendedSpatialID_Higher_negative_vDiff). Qed.

(* non-vacuity *)
Example gen64_threshold_example : Generated64.NewHighSpatialID_threshold 1 2 1 2 = Some (256, true) /\ thr 9 9 11 13 = 256.
Proof. split; vm_compute; reflexivity. Qed.
Example gen64_Higher_example :
  Generated64.ExtendedSpatialID_Higher 3 5 5 3 (-2) 1 1 = Some ((2, 2, 2, 2, -1), true) /\
  Generated64.ExtendedSpatialID_Higher 3 5 5 3 (-2) (-1) 1 = None /\
  I64.go_value (Generated64.ExtendedSpatialID_Higher 3 5 5 3 (-2) 1 (-1)) = Some (2, 2, 2, 4, -1).
Proof. repeat split; vm_compute; reflexivity. Qed.
