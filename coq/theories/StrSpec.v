(* StrSpec.v — declarative specification of the string layer Str.v (strconv.ParseInt(s, 10, 64), strconv.FormatInt(z, 10),
   strings.Split(s, "/"), strings.Join(l, "/")), proved about the definitions of Str.v without changing them.
   Source of the rules: $GOROOT/src/strconv/atoi.go (Go 1.23): ParseInt strips ONE leading '+' or '-', then ParseUint with an explicit
   base 10 accepts one or more bytes '0'..'9' and nothing else (underscores are accepted only when the base argument is 0), the value must
   fit int64; strconv.Atoi(s) = ParseInt(s, 10, 0) with int = int64 on this platform (same language, same values).
   Main results: parse_spec (accepted language and value), parse_is_ref (Str.parse = a left-to-right reference scanner), print_canonical,
   canonical_parse_print (the canonical spelling of a value is unique: it is print), print_inj, join_split_id, split_length,
   split_fields_no_slash. *)
From Coq Require Import ZArith String Ascii List Bool Lia DecimalString DecimalZ Decimal DecimalFacts.
From SID Require Import Str.
Import ListNotations.
Open Scope Z_scope.

(* =====================================================================================================================
   1. ASCII digits and the value of a digit string, read left to right
   ===================================================================================================================== *)
Definition digit_val (c : ascii) : option Z :=
  match c with
  | "0"%char => Some 0 | "1"%char => Some 1 | "2"%char => Some 2 | "3"%char => Some 3 | "4"%char => Some 4
  | "5"%char => Some 5 | "6"%char => Some 6 | "7"%char => Some 7 | "8"%char => Some 8 | "9"%char => Some 9
  | _ => None
  end.
(* exactly the bytes 48..57, with value byte - 48 *)
Lemma digit_val_spec c k : digit_val c = Some k <-> (48 <= nat_of_ascii c <= 57)%nat /\ k = Z.of_nat (nat_of_ascii c) - 48.
Proof.
  destruct c as [[|] [|] [|] [|] [|] [|] [|] [|]]; cbn [digit_val];
    (split; [intros H; first [discriminate H | injection H as <-; cbn; split; [lia|reflexivity]]
            |intros [H1 H2]; cbn in H1, H2; subst k; first [reflexivity | exfalso; lia]]).
Qed.

(* value of a string of digits with accumulator; None as soon as a byte is not a digit *)
Fixpoint sval (s : string) (acc : Z) : option Z :=
  match s with
  | EmptyString => Some acc
  | String c r => match digit_val c with Some k => sval r (acc * 10 + k) | None => None end
  end.
(* value of Coq's decimal numerals, read left to right *)
Fixpoint uval (d : uint) (acc : Z) : Z :=
  match d with
  | Nil => acc
  | D0 l => uval l (acc * 10 + 0) | D1 l => uval l (acc * 10 + 1) | D2 l => uval l (acc * 10 + 2) | D3 l => uval l (acc * 10 + 3)
  | D4 l => uval l (acc * 10 + 4) | D5 l => uval l (acc * 10 + 5) | D6 l => uval l (acc * 10 + 6) | D7 l => uval l (acc * 10 + 7)
  | D8 l => uval l (acc * 10 + 8) | D9 l => uval l (acc * 10 + 9)
  end.

Lemma of_uint_acc_uval d acc : Z.pos (Pos.of_uint_acc d acc) = uval d (Z.pos acc).
Proof.
  revert acc. induction d; intros acc; cbn [Pos.of_uint_acc uval]; try reflexivity; rewrite IHd; f_equal; lia.
Qed.
Lemma of_uint_uval d : Z.of_uint d = uval d 0.
Proof.
  unfold Z.of_uint. induction d; cbn [Pos.of_uint uval]; try reflexivity; try exact IHd;
    cbn [Z.of_N]; rewrite of_uint_acc_uval; reflexivity.
Qed.

Lemma uint_of_char_uval c d acc :
  option_map (fun u => uval u acc) (uint_of_char c (Some d)) =
  match digit_val c with Some k => Some (uval d (acc * 10 + k)) | None => None end.
Proof. destruct c as [[|] [|] [|] [|] [|] [|] [|] [|]]; reflexivity. Qed.
Lemma uint_of_char_None c : uint_of_char c None = None.
Proof. reflexivity. Qed.

(* the library's string -> numeral reader computes the left-to-right value, and fails exactly when some byte is not a digit *)
Lemma uint_of_string_sval s acc : option_map (fun u => uval u acc) (NilEmpty.uint_of_string s) = sval s acc.
Proof.
  revert acc. induction s as [|c r IH]; intros acc; [reflexivity|]. cbn [NilEmpty.uint_of_string sval].
  destruct (NilEmpty.uint_of_string r) as [d|] eqn:E.
  - rewrite uint_of_char_uval. destruct (digit_val c) as [k|]; [|reflexivity]. rewrite <- IH. reflexivity.
  - cbn. destruct (digit_val c) as [k|]; [|reflexivity]. rewrite <- IH. reflexivity.
Qed.

(* =====================================================================================================================
   2. Str.parse = the reference scanner of strconv.ParseInt(s, 10, 64)
   ===================================================================================================================== *)
(* one optional sign *)
Definition sign_split (s : string) : bool * string :=
  match s with
  | String "+"%char r => (false, r)
  | String "-"%char r => (true, r)
  | _ => (false, s)
  end.
Definition parse_ref (s : string) : option Z :=
  let '(neg, body) := sign_split s in
  match body with
  | EmptyString => None
  | _ => match sval body 0 with
         | Some n => let z := if neg then - n else n in if int64_ok z then Some z else None
         | None => None
         end
  end.

Lemma sval_not_digit_head c r acc : digit_val c = None -> sval (String c r) acc = None.
Proof. intros H. cbn. now rewrite H. Qed.

Lemma nilzero_uint_sval s : s <> EmptyString -> option_map (fun u => uval u 0) (NilZero.uint_of_string s) = sval s 0.
Proof. intros H. destruct s; [congruence|]. unfold NilZero.uint_of_string. apply uint_of_string_sval. Qed.

Theorem parse_is_ref s : parse s = parse_ref s.
Proof.
  unfold parse, parse_ref.
  destruct s as [|c r]; [reflexivity|].
  destruct (Ascii.eqb_spec c "+"%char) as [->|Hp].
  - (* "+" r *)
    cbn [sign_split]. destruct r as [|d r']; [reflexivity|].
    destruct (Ascii.eqb_spec d "-"%char) as [->|Hm].
    { cbn. reflexivity. }
    destruct (Ascii.eqb_spec d "+"%char) as [->|Hq].
    { cbn. reflexivity. }
    assert (B : match String d r' with String "-"%char _ | String "+"%char _ => EmptyString | _ => String d r' end = String d r').
    { destruct d as [[|] [|] [|] [|] [|] [|] [|] [|]]; try reflexivity; congruence. }
    rewrite B. unfold NilZero.int_of_string. destruct (Ascii.eqb_spec d "-"%char); [congruence|].
    pose proof (nilzero_uint_sval (String d r') ltac:(discriminate)) as U.
    destruct (NilZero.uint_of_string (String d r')) as [u|]; cbn [option_map] in U |- *.
    + rewrite <- U. cbn [Z.of_int]. rewrite of_uint_uval. reflexivity.
    + rewrite <- U. reflexivity.
  - assert (B : match String c r with String "+"%char r0 => match r0 with String "-"%char _ | String "+"%char _ => EmptyString | _ => r0 end | _ => String c r end = String c r).
    { destruct c as [[|] [|] [|] [|] [|] [|] [|] [|]]; try reflexivity; congruence. }
    rewrite B. unfold NilZero.int_of_string.
    destruct (Ascii.eqb_spec c "-"%char) as [->|Hm].
    + (* "-" r *)
      cbn [sign_split]. destruct r as [|d r']; [reflexivity|].
      pose proof (nilzero_uint_sval (String d r') ltac:(discriminate)) as U.
      destruct (NilZero.uint_of_string (String d r')) as [u|]; cbn [option_map] in U |- *.
      * rewrite <- U. cbn [Z.of_int]. rewrite of_uint_uval. reflexivity.
      * rewrite <- U. reflexivity.
    + assert (S : sign_split (String c r) = (false, String c r)).
      { destruct c as [[|] [|] [|] [|] [|] [|] [|] [|]]; try reflexivity; congruence. }
      rewrite S.
      pose proof (nilzero_uint_sval (String c r) ltac:(discriminate)) as U.
      destruct (NilZero.uint_of_string (String c r)) as [u|]; cbn [option_map] in U |- *.
      * rewrite <- U. cbn [Z.of_int]. rewrite of_uint_uval. reflexivity.
      * rewrite <- U. reflexivity.
Qed.

(* =====================================================================================================================
   3. the accepted language and the value, declaratively
   ===================================================================================================================== *)
Definition bytes (s : string) : list ascii := list_ascii_of_string s.
Definition is_digit (c : ascii) : Prop := (48 <= nat_of_ascii c <= 57)%nat.                 (* '0'..'9' *)
Definition dec_step (a : Z) (c : ascii) : Z := a * 10 + (Z.of_nat (nat_of_ascii c) - 48).
Definition dec_value (s : string) : Z := fold_left dec_step (bytes s) 0.                       (* decimal value, most significant digit first *)
Definition digits (s : string) : Prop := s <> EmptyString /\ Forall is_digit (bytes s).        (* one or more ASCII digits *)

(* strconv.ParseInt(s, 10, 64) returns (z, nil) *)
Definition ParseInt_accepts (s : string) (z : Z) : Prop :=
  exists sign body : string,
    s = (sign ++ body)%string /\ (sign = EmptyString \/ sign = "+"%string \/ sign = "-"%string) /\ digits body /\
    z = (if String.eqb sign "-" then - dec_value body else dec_value body) /\ - 2 ^ 63 <= z < 2 ^ 63.

Lemma sval_spec s acc n : sval s acc = Some n <-> Forall is_digit (bytes s) /\ n = fold_left dec_step (bytes s) acc.
Proof.
  revert acc. induction s as [|c r IH]; intros acc; cbn [sval bytes list_ascii_of_string fold_left].
  - split; [intros [= <-]; split; [constructor|reflexivity]|intros [_ ->]; reflexivity].
  - destruct (digit_val c) as [k|] eqn:E.
    + apply digit_val_spec in E. destruct E as [Hd ->]. rewrite IH. unfold dec_step at 2. fold (bytes r). split.
      * intros [F ->]. split; [constructor; assumption|reflexivity].
      * intros [F ->]. inversion F; subst. split; [assumption|reflexivity].
    + split; [discriminate|]. intros [F _]. inversion F as [|? ? Hc _]; subst.
      assert (X : digit_val c = Some (Z.of_nat (nat_of_ascii c) - 48)) by (apply digit_val_spec; split; [exact Hc|reflexivity]). congruence.
Qed.
Lemma int64_ok_spec z : int64_ok z = true <-> - 2 ^ 63 <= z < 2 ^ 63.
Proof. unfold int64_ok. rewrite andb_true_iff, Z.leb_le, Z.ltb_lt. tauto. Qed.
Lemma sign_split_digit c r : is_digit c -> sign_split (String c r) = (false, String c r).
Proof.
  unfold is_digit. destruct c as [[|] [|] [|] [|] [|] [|] [|] [|]]; cbn; intros H; first [reflexivity | exfalso; lia].
Qed.

Theorem parse_ref_spec s z : parse_ref s = Some z <-> ParseInt_accepts s z.
Proof.
  unfold parse_ref, ParseInt_accepts. split.
  - destruct (sign_split s) as [neg body] eqn:S. destruct body as [|c r]; [discriminate|].
    destruct (sval (String c r) 0) as [n|] eqn:V; [|discriminate]. cbv zeta.
    destruct (int64_ok (if neg then - n else n)) eqn:R; [|discriminate]. intros [= <-].
    apply sval_spec in V. destruct V as [F ->]. apply int64_ok_spec in R.
    assert (D : digits (String c r)) by (split; [discriminate|exact F]).
    destruct s as [|a s']; [discriminate|]. unfold sign_split in S.
    destruct (Ascii.eqb_spec a "+"%char) as [->|Hp].
    { injection S as E1 E2. subst neg s'. exists "+"%string, (String c r).
      split; [reflexivity|]. split; [auto|]. split; [exact D|]. split; [reflexivity|exact R]. }
    destruct (Ascii.eqb_spec a "-"%char) as [->|Hm].
    { injection S as E1 E2. subst neg s'. exists "-"%string, (String c r).
      split; [reflexivity|]. split; [auto|]. split; [exact D|]. split; [reflexivity|exact R]. }
    assert (S' : (false, String a s') = (neg, String c r)).
    { rewrite <- S. destruct a as [[|] [|] [|] [|] [|] [|] [|] [|]]; try reflexivity; congruence. }
    injection S' as E1 E2 E3. subst neg a s'. exists EmptyString, (String c r).
    split; [reflexivity|]. split; [auto|]. split; [exact D|]. split; [reflexivity|exact R].
  - intros (sign & body & -> & Hs & (Hne & F) & -> & R). destruct body as [|c r]; [congruence|].
    assert (Hc : is_digit c) by (inversion F; assumption).
    assert (V : sval (String c r) 0 = Some (dec_value (String c r))) by (apply sval_spec; split; [exact F|reflexivity]).
    destruct Hs as [->|[->| ->]]; cbn [append String.eqb Ascii.eqb Bool.eqb] in *.
    + rewrite (sign_split_digit c r Hc), V. cbv zeta. apply int64_ok_spec in R. now rewrite R.
    + cbn [sign_split]. rewrite V. cbv zeta. apply int64_ok_spec in R. now rewrite R.
    + cbn [sign_split]. rewrite V. cbv zeta. apply int64_ok_spec in R. now rewrite R.
Qed.

(* Str.parse accepts exactly the language of strconv.ParseInt(s, 10, 64), with its value *)
Theorem parse_spec s z : parse s = Some z <-> ParseInt_accepts s z.
Proof. rewrite parse_is_ref. apply parse_ref_spec. Qed.
Corollary parse_rejects s : parse s = None <-> forall z, ~ ParseInt_accepts s z.
Proof.
  split.
  - intros H z A. apply parse_spec in A. congruence.
  - intros H. destruct (parse s) as [z|] eqn:E; [|reflexivity]. exfalso. apply (H z). now apply parse_spec.
Qed.

(* =====================================================================================================================
   4. strconv.FormatInt(z, 10): canonical spelling, injective; the canonical spelling of a value is unique
   ===================================================================================================================== *)
(* "0", or a digit 1..9 followed by digits, optionally preceded by "-": no '+', no leading zero, no "-0" *)
Definition canonical (s : string) : Prop :=
  s = "0"%string \/
  exists (sign : string) (c : ascii) (r : string),
    s = (sign ++ String c r)%string /\ (sign = EmptyString \/ sign = "-"%string) /\ (49 <= nat_of_ascii c <= 57)%nat /\ Forall is_digit (bytes r).

Lemma string_of_uint_digits u : Forall is_digit (bytes (NilEmpty.string_of_uint u)).
Proof. induction u; cbn; constructor; try assumption; unfold is_digit; cbn; lia. Qed.
Lemma nzhead_fix_shape u : nzhead u = u -> u <> Nil ->
  exists c r, NilZero.string_of_uint u = String c r /\ (49 <= nat_of_ascii c <= 57)%nat /\ Forall is_digit (bytes r).
Proof.
  intros H N. destruct u; try congruence;
    try (eexists _, _; split; [reflexivity|]; split; [cbn; lia|apply string_of_uint_digits]).
  exfalso. apply (nzhead_nonzero (D0 u) u). exact H.
Qed.
Lemma norm_fix_canonical d : norm d = d -> canonical (NilZero.string_of_int d).
Proof.
  destruct d as [u|u]; cbn [norm NilZero.string_of_int].
  - intros H. assert (U : unorm u = u) by congruence. destruct (nzhead u) as [] eqn:Z.
    1: { left. apply unorm_0 in Z. rewrite Z in U. rewrite <- U. reflexivity. }
    all: right; assert (NZ : nzhead u <> Nil) by (rewrite Z; discriminate);
      rewrite (unorm_nzhead u NZ) in U;
      assert (N : u <> Nil) by (intros ->; cbn in Z; discriminate);
      destruct (nzhead_fix_shape u U N) as (c & r & E & Hc & F); exists EmptyString, c, r; cbn; auto.
  - intros H. destruct (nzhead u) as [] eqn:Z; try discriminate.
    all: right; assert (U : nzhead u = u) by congruence;
      assert (N : u <> Nil) by (intros ->; cbn in Z; discriminate);
      destruct (nzhead_fix_shape u U N) as (c & r & E & Hc & F); exists "-"%string, c, r; cbn; rewrite E; auto.
Qed.
Theorem print_canonical z : canonical (print z).
Proof.
  unfold print. apply norm_fix_canonical. rewrite <- (DecimalZ.to_of (Z.to_int z)), DecimalZ.of_to. reflexivity.
Qed.

Theorem print_inj a b : print a = print b -> a = b.
Proof.
  unfold print. intros H. apply (f_equal NilZero.int_of_string) in H.
  destruct (to_int_not_nil a) as [A1 A2]. destruct (to_int_not_nil b) as [B1 B2].
  rewrite !NilZero.isi in H by assumption. injection H as H. apply (f_equal Z.of_int) in H. now rewrite !DecimalZ.of_to in H.
Qed.

Lemma head_nonzero_norm c r u : (49 <= nat_of_ascii c <= 57)%nat -> NilEmpty.uint_of_string (String c r) = Some u ->
  unorm u = u /\ nzhead u = u /\ u <> Nil.
Proof.
  cbn [NilEmpty.uint_of_string]. destruct (NilEmpty.uint_of_string r) as [u'|]; [|intros _ H; discriminate H].
  destruct c as [[|] [|] [|] [|] [|] [|] [|] [|]]; cbn; intros Hc H;
    first [discriminate H | exfalso; lia | injection H as <-; repeat split; discriminate].
Qed.

(* a canonical string that parses to z IS print z: every other accepted spelling of z differs from print z by a '+', leading zeros or "-0" *)
Theorem canonical_parse_print s z : canonical s -> parse s = Some z -> s = print z.
Proof.
  intros [->|(sign & c & r & -> & Hs & Hc & F)] H.
  - vm_compute in H. injection H as <-. reflexivity.
  - unfold parse in H.
    assert (B : forall t : unit, match (sign ++ String c r)%string with
                          | String "+"%char r0 => match r0 with String "-"%char _ | String "+"%char _ => EmptyString | _ => r0 end
                          | _ => (sign ++ String c r)%string end = (sign ++ String c r)%string).
    { intros _. destruct Hs as [->| ->]; cbn [append]; [|reflexivity].
      destruct c as [[|] [|] [|] [|] [|] [|] [|] [|]]; try reflexivity. cbn in Hc. lia. }
    rewrite (B tt) in H. destruct (NilZero.int_of_string (sign ++ String c r)) as [d|] eqn:E; [|discriminate].
    cbv zeta in H. destruct (int64_ok (Z.of_int d)); [|discriminate]. injection H as <-.
    pose proof (NilZero.sis _ _ E) as S. unfold print. rewrite DecimalZ.to_of.
    assert (N : norm d = d).
    { destruct Hs as [->| ->]; cbn [append] in E; unfold NilZero.int_of_string in E.
      - assert (Hm : (c =? "-")%char = false).
        { destruct c as [[|] [|] [|] [|] [|] [|] [|] [|]]; try reflexivity. cbn in Hc. lia. }
        rewrite Hm in E. unfold NilZero.uint_of_string in E.
        destruct (NilEmpty.uint_of_string (String c r)) as [u|] eqn:U; [|discriminate]. injection E as <-.
        destruct (head_nonzero_norm c r u Hc U) as (U1 & _ & _). cbn [norm]. now rewrite U1.
      - cbn [Ascii.eqb Bool.eqb] in E. unfold NilZero.uint_of_string in E.
        destruct (NilEmpty.uint_of_string (String c r)) as [u|] eqn:U; [|discriminate]. injection E as <-.
        destruct (head_nonzero_norm c r u Hc U) as (_ & U2 & U3). cbn [norm]. rewrite U2. destruct u; congruence. }
    rewrite N. symmetry. exact S.
Qed.
Corollary parse_print_or_noncanonical s z : parse s = Some z -> s = print z \/ ~ canonical s.
Proof.
  intros H. destruct (string_dec s (print z)) as [E|NE]; [now left|]. right. intros C. apply NE. now apply canonical_parse_print.
Qed.

(* =====================================================================================================================
   5. strings.Split(s, "/") and strings.Join(l, "/")
   ===================================================================================================================== *)
Lemma split_fields_no_slash s : forallb noslash (split s) = true.
Proof.
  induction s as [|c r IH]; [reflexivity|]. cbn [split].
  destruct (Ascii.eqb c slash) eqn:E.
  - cbn. exact IH.
  - destruct (split r) as [|h t] eqn:Es.
    + cbn. now rewrite E.
    + cbn in IH |- *. apply andb_true_iff in IH. destruct IH as [Hh Ht]. now rewrite E, Hh, Ht.
Qed.
Lemma join_cons2 a b r : join (a :: b :: r) = (a ++ String slash (join (b :: r)))%string.
Proof. reflexivity. Qed.
(* Join undoes Split on every string *)
Theorem join_split_id s : join (split s) = s.
Proof.
  induction s as [|c r IH]; [reflexivity|]. cbn [split].
  destruct (Ascii.eqb c slash) eqn:E.
  - apply Ascii.eqb_eq in E. subst c. pose proof (split_nonempty r) as Hne.
    destruct (split r) as [|b t] eqn:Es; [congruence|]. rewrite join_cons2, IH. reflexivity.
  - pose proof (split_nonempty r) as Hne. destruct (split r) as [|h t] eqn:Es; [congruence|].
    destruct t as [|b t'].
    + cbn in IH |- *. now rewrite IH.
    + rewrite join_cons2. cbn [append]. f_equal. rewrite <- join_cons2. exact IH.
Qed.
Fixpoint count_slash (s : string) : nat :=
  match s with EmptyString => 0%nat | String c r => ((if Ascii.eqb c slash then 1 else 0) + count_slash r)%nat end.
(* number of fields = 1 + number of '/' *)
Theorem split_length s : length (split s) = S (count_slash s).
Proof.
  induction s as [|c r IH]; [reflexivity|]. cbn [split count_slash].
  destruct (Ascii.eqb c slash).
  - cbn. now rewrite IH.
  - pose proof (split_nonempty r) as Hne. destruct (split r) as [|h t]; [congruence|]. cbn in IH |- *. exact IH.
Qed.
(* Split undoes Join on non-empty lists of slash-free fields: Str.split_join; never the empty list: Str.split_nonempty *)

(* =====================================================================================================================
   6. boolean checkers used at run time on the outputs of the real strconv / strings functions
   ===================================================================================================================== *)
Definition is_digitb (c : ascii) : bool := Nat.leb 48 (nat_of_ascii c) && Nat.leb (nat_of_ascii c) 57.
Definition is_nzdigitb (c : ascii) : bool := Nat.leb 49 (nat_of_ascii c) && Nat.leb (nat_of_ascii c) 57.
Fixpoint all_digitsb (s : string) : bool := match s with EmptyString => true | String c r => is_digitb c && all_digitsb r end.
Definition canonicalb (s : string) : bool :=
  match s with
  | EmptyString => false
  | String c r =>
      if String.eqb s "0" then true
      else if Ascii.eqb c "-"%char then match r with String d r' => is_nzdigitb d && all_digitsb r' | EmptyString => false end
      else is_nzdigitb c && all_digitsb r
  end.
Lemma is_digitb_spec c : is_digitb c = true <-> is_digit c.
Proof. unfold is_digitb, is_digit. rewrite andb_true_iff, !Nat.leb_le. tauto. Qed.
Lemma is_nzdigitb_spec c : is_nzdigitb c = true <-> (49 <= nat_of_ascii c <= 57)%nat.
Proof. unfold is_nzdigitb. rewrite andb_true_iff, !Nat.leb_le. tauto. Qed.
Lemma all_digitsb_spec s : all_digitsb s = true <-> Forall is_digit (bytes s).
Proof.
  induction s as [|c r IH]; cbn [all_digitsb bytes list_ascii_of_string]; [split; [constructor|reflexivity]|].
  rewrite andb_true_iff, is_digitb_spec, IH. fold (bytes r). split; [intros [A B]; now constructor|intros H; inversion H; tauto].
Qed.
Lemma canonicalb_spec s : canonicalb s = true <-> canonical s.
Proof.
  unfold canonicalb, canonical. destruct s as [|c r].
  - split; [discriminate|]. intros [H|(sg & c & r & H & [->| ->] & _)]; cbn in H; discriminate.
  - destruct (String.eqb_spec (String c r) "0") as [E|NE]; [split; [now left|reflexivity]|].
    destruct (Ascii.eqb_spec c "-"%char) as [->|Hm].
    + destruct r as [|d r'].
      * split; [discriminate|]. intros [H|(sg & c & r & H & [->| ->] & Hc & _)]; [congruence| |]; cbn in H.
        -- injection H as <- _. cbn in Hc. lia.
        -- injection H as H. discriminate.
      * rewrite andb_true_iff, is_nzdigitb_spec, all_digitsb_spec. split.
        -- intros [A B]. right. exists "-"%string, d, r'. cbn. auto.
        -- intros [H|(sg & c & r & H & [->| ->] & Hc & F)]; [congruence| |]; cbn in H.
           ++ injection H as <- _. cbn in Hc. lia.
           ++ injection H as <- <-. auto.
    + rewrite andb_true_iff, is_nzdigitb_spec, all_digitsb_spec. split.
      * intros [A B]. right. exists EmptyString, c, r. cbn. auto.
      * intros [H|(sg & c' & r' & H & [->| ->] & Hc & F)]; [congruence| |]; cbn in H.
        -- injection H as <- <-. auto.
        -- injection H as -> _. congruence.
Qed.

(* FormatInt: the observed string must parse (reference scanner) to the argument and be canonical; that pins it to Str.print *)
Definition opt_Z_eqb (a b : option Z) : bool := match a, b with Some x, Some y => Z.eqb x y | None, None => true | _, _ => false end.
Definition check_format (z : Z) (s : string) : bool := opt_Z_eqb (parse_ref s) (Some z) && canonicalb s.
Theorem check_format_sound z s : int64_ok z = true -> check_format z s = true <-> s = print z.
Proof.
  intros Hz. unfold check_format. rewrite andb_true_iff, canonicalb_spec. split.
  - intros [P C]. apply canonical_parse_print; [exact C|]. rewrite parse_is_ref.
    destruct (parse_ref s) as [y|]; cbn in P; [|discriminate]. apply Z.eqb_eq in P. now subst.
  - intros ->. split; [|apply print_canonical]. rewrite <- parse_is_ref, (parse_print z Hz). cbn. apply Z.eqb_refl.
Qed.
(* ParseInt: value or error flag, against the reference scanner (= Str.parse by parse_is_ref, = the declarative language by parse_ref_spec) *)
Definition check_parseint (s : string) (obs : option Z) : bool := opt_Z_eqb (parse_ref s) obs.
Theorem check_parseint_sound s obs : check_parseint s obs = true <->
  match obs with Some z => ParseInt_accepts s z | None => forall z, ~ ParseInt_accepts s z end.
Proof.
  unfold check_parseint. destruct obs as [z|].
  - rewrite <- parse_ref_spec. destruct (parse_ref s) as [y|]; cbn; [rewrite Z.eqb_eq; split; congruence|split; discriminate].
  - rewrite <- parse_rejects, parse_is_ref. destruct (parse_ref s); cbn; split; congruence.
Qed.
(* Split: the observed fields are slash-free, there is at least one, and joining them gives the input back; that pins them to Str.split *)
Definition check_split (s : string) (o : list string) : bool :=
  match o with [] => false | _ => forallb noslash o && String.eqb (join o) s end.
Theorem check_split_sound s o : check_split s o = true <-> o = split s.
Proof.
  unfold check_split. split.
  - destruct o as [|a r]; [discriminate|]. rewrite andb_true_iff, String.eqb_eq. intros [N <-].
    symmetry. apply split_join; [discriminate|exact N].
  - intros ->. pose proof (split_nonempty s). destruct (split s) as [|a r] eqn:E; [congruence|].
    rewrite <- E, split_fields_no_slash, join_split_id. cbn. apply String.eqb_refl.
Qed.
(* Join: for a non-empty list of slash-free fields the output splits back into the fields; in every case it is Str.join *)
Definition check_join (l : list string) (o : string) : bool :=
  String.eqb o (join l) && match l with [] => true | _ => if forallb noslash l then list_eqb String.eqb (split o) l else true end.
Theorem check_join_sound l o : check_join l o = true <-> o = join l.
Proof.
  unfold check_join. rewrite andb_true_iff, String.eqb_eq. split; [tauto|]. intros ->. split; [reflexivity|].
  destruct l as [|a r]; [reflexivity|]. destruct (forallb noslash (a :: r)) eqn:N; [|reflexivity].
  rewrite (split_join (a :: r)) by (discriminate || exact N).
  destruct (list_eqb_spec String.eqb String.eqb_spec (a :: r) (a :: r)); congruence.
Qed.
