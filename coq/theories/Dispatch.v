(* Dispatch.v — one entry point for the harness: (property, function, arguments, observed output) ↦ verdict.
   Each property owns a table of entries in its own DCxx.v; this file only selects the table. *)
From Coq Require Import String List.
From SID Require Import Wire DC01 DC02 DC07.
Import ListNotations.
Open Scope string_scope.

Definition tables : list (string * table) :=
  [("C01", table_C01); ("C02", table_C02); ("C07", table_C07)].

Definition dispatch (oracle : oracle_t) (prop fn : string) (args : list val) (obs : val) : verdict :=
  match find (fun e => String.eqb (fst e) prop) tables with
  | Some (_, t) => run_table t oracle fn args obs
  | None => bad_case
  end.
