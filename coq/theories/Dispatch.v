(* Dispatch.v — one entry point for the harness: (property, function, arguments, observed output) ↦ verdict.
   Each property owns a table of entries in its own DCxx.v; this file only selects the table. *)
From Coq Require Import String List.
From SID Require Import Wire DC01 DC02 DC03 DC04 DC05 DC06 DC07 DC08 DC09 DC10 DC11 DC12 DC13 DC14 DC15 DC16 DC17 DC18 DC19 DC20.
Import ListNotations.
Open Scope string_scope.

Definition tables : list (string * table) :=
  [("C01", table_C01); ("C02", table_C02); ("C03", table_C03); ("C04", table_C04); ("C05", table_C05); ("C06", table_C06); ("C07", table_C07); ("C08", table_C08); ("C09", table_C09); ("C10", table_C10); ("C11", table_C11); ("C12", table_C12); ("C13", table_C13); ("C14", table_C14); ("C15", table_C15); ("C16", table_C16); ("C17", table_C17); ("C18", table_C18); ("C19", table_C19); ("C20", table_C20)].

Definition dispatch (oracle : oracle_t) (prop fn : string) (args : list val) (obs : val) : verdict :=
  match find (fun e => String.eqb (fst e) prop) tables with
  | Some (_, t) => run_table t oracle fn args obs
  | None => bad_case
  end.
