(* GenEq64Merge.v — the merge threshold of integrate/merge_zoom.go (NewHighSpatialID: threshold := hDiffIndex * hDiffIndex * vDiffIndex with
   hDiffIndex = int64(math.Pow(2, float64(hDiff+u.hDiff))), vDiffIndex likewise), found by its role (the value of the field `threshold` of the
   returned struct) and regenerated over Z (Generated.NewHighSpatialID_threshold) and in int64 mode (Generated64.…):
   (b) bridge; fits iff-side: exact when 2*eh + ev <= 62; (a) the value Go computes = C04's hand-written Merge.thr64 for exponents eh >= 0,
   0 <= ev <= 63 — and NOT beyond: for eh = 0 and ev >= 64 Go's saturating conversion gives MinInt64 where thr64 (unbounded power, then wrap)
   gives 0 ([thr64_differs_beyond]); zooms are at most 35 so the merge never gets there. *)
From Coq Require Import ZArith Bool Lia.
From SIDGen Require Import Generated Generated64.
From SID Require Import I64 GenEq64Tac Merge.
Open Scope Z_scope.

Lemma gen64_NewHighSpatialID_threshold_exact : forall uh uv hd vd r,
  Generated64.NewHighSpatialID_threshold uh uv hd vd = Some (r, true) -> r = Generated.NewHighSpatialID_threshold uh uv hd vd.
Proof. bridge no_callee. Qed.

(* the unbounded kernel is the mathematical threshold 2^eh * 2^eh * 2^ev (whatever the grouping of the product in the source) *)
Lemma gen_NewHighSpatialID_threshold_eq : forall uh uv hd vd,
  Generated.NewHighSpatialID_threshold uh uv hd vd = 2 ^ (hd + uh) * 2 ^ (hd + uh) * 2 ^ (vd + uv).
Proof. intros. repeat autounfold with sidgen. cbv zeta. ring. Qed.

Lemma pow2_ge1 k : 0 <= k -> 1 <= 2 ^ k.
Proof. intros H. apply (Z.pow_le_mono_r 2 0 k); lia. Qed.

(* one multiplication or addition that stays in range: replace it by its value *)
Ltac okm slv :=
  first [ rewrite mul64_ok by slv | rewrite add64_ok by slv | rewrite sub64_ok by slv | rewrite pow2_64_ok by slv ];
  rewrite ?bind_ret_l; cbv beta zeta.

(* nothing wraps while the exponent 2*eh + ev of the product stays below 63 *)
Theorem gen64_NewHighSpatialID_threshold_fits : forall uh uv hd vd,
  - 2 ^ 61 <= hd <= 2 ^ 61 -> - 2 ^ 61 <= uh <= 2 ^ 61 -> - 2 ^ 61 <= vd <= 2 ^ 61 -> - 2 ^ 61 <= uv <= 2 ^ 61 ->
  0 <= hd + uh -> 0 <= vd + uv -> 2 * (hd + uh) + (vd + uv) <= 62 ->
  Generated64.NewHighSpatialID_threshold uh uv hd vd = Some (Generated.NewHighSpatialID_threshold uh uv hd vd, true).
Proof.
  intros uh uv hd vd H1 H2 H3 H4 Ph Pv F. repeat autounfold with sidgen64. repeat autounfold with sidgen. cbv zeta.
  assert (2 ^ 61 + 2 ^ 61 < 2 ^ 63) by (change (2 ^ 63) with (4 * 2 ^ 61); lia).
  assert (B : 2 ^ (hd + uh) * 2 ^ (hd + uh) * 2 ^ (vd + uv) <= 2 ^ 62).
  { rewrite <- !Z.pow_add_r by lia. apply Z.pow_le_mono_r; lia. }
  pose proof (pow2_ge1 (hd + uh) Ph). pose proof (pow2_ge1 (vd + uv) Pv).
  assert (2 ^ 62 < 2 ^ 63) by (apply Z.pow_lt_mono_r; lia).
  repeat okm ltac:(first [lia | nia]). reflexivity.
Qed.

(* ---- (a) what Go computes (flag or not) = Merge.thr64 ---- *)
Lemma w64_mult_2_64 k : w64 (2 ^ 64 * k) = 0.
Proof. unfold w64. rewrite Z.add_comm, Z.mul_comm, Z_mod_plus_full. reflexivity. Qed.
Lemma w64_pow_big e : 64 <= e -> w64 (2 ^ e) = 0.
Proof. intros H. replace e with (64 + (e - 64)) by lia. rewrite Z.pow_add_r by lia. apply w64_mult_2_64. Qed.
(* the inner wraps of a product do not matter *)
Ltac w64_flat := repeat first [ rewrite w64_mul_l | rewrite w64_mul_r ].

Theorem gen64_NewHighSpatialID_threshold_thr64 : forall H V MH MV uh uv hd vd,
  - 2 ^ 61 <= hd <= 2 ^ 61 -> - 2 ^ 61 <= uh <= 2 ^ 61 -> - 2 ^ 61 <= vd <= 2 ^ 61 -> - 2 ^ 61 <= uv <= 2 ^ 61 ->
  hd + uh = MH - H -> vd + uv = MV - V -> 0 <= MH - H -> 0 <= MV - V <= 63 ->
  go_value (Generated64.NewHighSpatialID_threshold uh uv hd vd) = Some (thr64 H V MH MV).
Proof.
  intros H V MH MV uh uv hd vd H1 H2 H3 H4 Eh Ev Ph Pv. repeat autounfold with sidgen64. unfold thr64. cbv zeta. change wrap64 with w64.
  assert (2 ^ 61 + 2 ^ 61 < 2 ^ 63) by (change (2 ^ 63) with (4 * 2 ^ 61); lia).
  rewrite !(add64_ok hd uh) by lia. rewrite !(add64_ok vd uv) by lia. rewrite ?bind_ret_l.
  rewrite Eh, Ev. set (eh := MH - H) in *. set (ev := MV - V) in *.
  (* the two powers: their int64 values a, b are congruent to 2^eh, 2^ev as far as the product is concerned *)
  assert (A : exists a ea, pow2_64 eh = Some (a, ea) /\ (forall x, w64 (a * a * x) = w64 (2 ^ eh * 2 ^ eh * x))).
  { unfold pow2_64. destruct (Z.ltb_spec eh 63); [exists (2 ^ eh), true; split; reflexivity|].
    exists (- 2 ^ 63), false. split; [reflexivity|]. intros x.
    replace (- 2 ^ 63 * - 2 ^ 63 * x) with (2 ^ 64 * (2 ^ 62 * x)) by (change (2 ^ 64) with (4 * 2 ^ 62); change (2 ^ 63) with (2 * 2 ^ 62); ring).
    rewrite w64_mult_2_64. replace (2 ^ eh * 2 ^ eh * x) with (2 ^ 64 * (2 ^ (2 * eh - 64) * x)).
    - now rewrite w64_mult_2_64.
    - rewrite <- (Z.pow_add_r 2 eh eh) by lia. rewrite Z.mul_assoc, <- Z.pow_add_r by lia. f_equal. f_equal. lia. }
  assert (B : exists b eb, pow2_64 ev = Some (b, eb) /\ (forall x, w64 (x * b) = w64 (x * 2 ^ ev))).
  { unfold pow2_64. destruct (Z.ltb_spec ev 63); [exists (2 ^ ev), true; split; reflexivity|].
    assert (ev = 63) as -> by lia. exists (- 2 ^ 63), false. split; [reflexivity|]. intros x. apply w64_eq_mod.
    replace (x * - 2 ^ 63) with (x * 2 ^ 63 + (- x) * 2 ^ 64) by (change (2 ^ 64) with (2 * 2 ^ 63); ring). apply Z_mod_plus_full. }
  destruct A as (a & ea & -> & Ha). destruct B as (b & eb & -> & Hb).
  unfold mul64, ex, ret. rewrite !bind_Some. cbv beta iota. cbn [go_value]. f_equal. w64_flat.
  transitivity (w64 (a * a * b)); [f_equal; ring|]. rewrite Ha, Hb. reflexivity.
Qed.
(* beyond: a saturated second factor times an odd first product *)
Theorem thr64_differs_beyond :
  go_value (Generated64.NewHighSpatialID_threshold 0 0 0 64) = Some (- 2 ^ 63) /\ thr64 0 0 0 64 = 0.
Proof. split; vm_compute; reflexivity. Qed.
