(* GenEquiv.v — the second tie between model and source (DESIGN.md 4.2), split by kernel so that an edit of one Go kernel breaks only
   the lemmas (and the property files) that depend on it: GenTac (tactic, CalculateArithmeticShift), GenEqCheck, GenEqAlt, GenEqZoom, GenEqHigher, GenEqConst
   over generated/Generated.v (integers), GenEqFloat (= GenFTac, GenEqFPoint, GenEqFVertex, GenEqFBit, GenEqFShift) over generated/GeneratedF.v (binary64),
   GenEq64 (= I64, GenEq64Tac, GenEq64Alt, GenEq64Zoom, GenEq64Merge, GenEq64Quadkey) over generated/Generated64.v (the integer kernels with Go's int64 semantics),
   GenEqFSpatial over generated/GeneratedFS.v (the float64 helpers of common/spatial, struct values as tuples). *)
From SID Require Export GenTac GenEqCheck GenEqAlt GenEqZoom GenEqHigher GenEqConst GenEqFloat GenEq64 GenEqFSpatial.
