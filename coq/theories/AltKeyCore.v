(* AltKeyCore.v — shared executable models of the altitude-key index arithmetic in transform/convert_quadkey_and_Vertical_id.go:
   validateIndexExists, ConvertZToMinMaxAltitudekey (after the repairs 84c8b2c and the zoom check), convertZToMinAltitudekey, ConvertAltitudekeyToMinMaxZ.
   Definitions only; the covering theorems are in AltKey.v (property C12). *)
From Coq Require Import ZArith Lia Bool.
From SID Require Import Base.
Open Scope Z_scope.

Definition zorigin : Z := 25.                        (* consts.ZOriginValue *)
Definition zbase_offset_neg : Z := 2 ^ 24.           (* consts.ZBaseOffsetForNegativeFIndex = 1 << (ZOriginValue - 1) *)

(* validateIndexExists(index, zoom, minValueIsNegative): true = the index exists *)
Definition index_exists (i z : Z) (neg : bool) : bool :=
  let r := ashift 1 z in
  negb ((r - 1 <? i) || (i <? (if neg then - r else 0))).

(* ConvertZToMinMaxAltitudekey(inputIndex, inputZoom, outputZoom, zBaseExponent, zBaseOffset) *)
Definition z2key_raw (f z out E O : Z) : Z * Z :=
  let fraction := if z - zorigin <? 0 then 0 else z - zorigin in
  let toUnit := zorigin - z + fraction in
  let lower := ashift f toUnit in
  let upper := ashift (f + 1) toUnit in
  let offset := ashift O fraction in
  let toKey := out - E - fraction in
  (ashift (lower + offset) toKey, - ashift (- (upper + offset)) toKey - 1).
(* both exported conversions first refuse zooms outside 0..35 (shape.CheckZoom on the source and the target zoom; fix commit in /repo) *)
Definition zoom_ok (z : Z) : bool := (0 <=? z) && (z <=? 35).
Definition z2key (f z out E O : Z) : result (Z * Z) :=
  if negb (zoom_ok z) || negb (zoom_ok out) then Err
  else if negb (index_exists f z true) then Err
  else let '(mn, mx) := z2key_raw f z out E O in
       if index_exists mn out false && index_exists mx out false then Ok (mn, mx) else Err.

(* convertZToMinAltitudekey *)
Definition z2minkey (f z out E O : Z) : result Z :=
  if negb (index_exists f z true) then Err
  else let o := ashift (ashift f (- (z - zorigin)) + O) (out - E) in
       if index_exists o out false then Ok o else Err.

(* ConvertAltitudekeyToMinMaxZ(altitudekey, altitudekeyZoomLevel, outputZoom, zBaseExponent, zBaseOffset) *)
Definition key2z (k kz out E O : Z) : result (Z * Z) :=
  let inres := ashift 1 kz in
  if negb (zoom_ok kz) || negb (zoom_ok out) then Err
  else if (inres - 1 <? k) || (k <? 0) then Err
  else
    let zd := E - kz in
    let imin := ashift k zd in
    let imax := if 0 <? zd then ashift (k + 1) zd - 1 else imin in
    let od := out - zorigin in
    let omin := ashift (imin - O) od in
    let omax := if 0 <? od then ashift (imax - O + 1) od - 1 else ashift (imax - O) od in
    let ores := ashift 1 out in
    if (ores - 1 <? omax) || (omin <? - ores) then Err else Ok (omin, omax).
