(* DC07.v — dispatch entries of property C07: (arguments, observed output) ↦ verdict.
   corr = the implementation's output equals the output of the executable *float twin* ShiftF.shift_api_f, which goes through the same
          binary64 operations (Pow, float64(), Mod, int64()) and the same repeated-addition loop as the Go code (computed fuel);
   prop = the property's boolean checker: the observed string is the printed modular translation (Shift.check_shift), and for the law
          entry every observed string is compared with the specification (not with another observed string).
   Domain.  Every entry is TOTAL on well-shaped arguments (d_shift_total, d_shift_laws_total, the history entries for a well-formed prelude):
   - valid ID (the property's quantifier), every sum inside int64: judged as above;
   - ID that parses but is not valid (index outside the grid, vertical index outside -2^v..2^v-1, vertical zoom outside 0..35, in any
     accepted spelling) with 0 <= hZoom <= 35, every sum inside int64 and x+dx, y+dy <= 2^53 (float64() exact): still judged — the float
     twin is total there and equals the integer model (ShiftF.wrap_fx_exact needs no validity), prop = the observed string is the modular
     translation of the WRAPPED voxel (check_shift: (x+dx) mod 2^h; law entry: the five strings of the integer model shift_api);
   - anything else (hZoom outside 0..35 — on "-1/0/0/0/0" the library does not return —, a sum outside int64, a non-valid ID whose x+dx
     exceeds 2^53, a shift below -4094 * 2^h for which the twin refuses the fuel): class "skipped", recomputed here from the arguments
     alone (call_dom / the twin's own refusal); counted as guard_skips, neither an evaluation nor a pass;
   - bad_case only for a malformed wire shape (wrong arity / types, a prelude of another shape). *)
From Coq Require Import ZArith String List Bool.
From SID Require Import Base Str Ids Wire Shift ShiftF.
Import ListNotations.
Open Scope string_scope.

Definition all64 (l : list Z) : bool := forallb int64_ok l.
(* the call stays inside int64 arithmetic: x+dx, y+dy, f+dv as the code computes them *)
Definition dom_shift (i : eid) (dx dy dv : Z) : bool :=
  validb i && all64 [dx; dy; dv; ex i + dx; ey i + dy; ef i + dv].

Definition c07_skipped : verdict := mkv true true "skipped" VNil.
(* one call is judged: malformed string (the answer is ""), or every sum inside int64 and either a valid ID or a horizontal zoom in 0..35
   with x+dx, y+dy <= 2^53 *)
Definition call_dom (id : string) (dx dy dv : Z) : bool :=
  match parse_eid id with
  | None => true
  | Some i => all64 [dx; dy; dv; ex i + dx; ey i + dy; ef i + dv] &&
              (validb i || ((0 <=? eh i)%Z && (eh i <=? 35)%Z && (ex i + dx <=? 2 ^ 53)%Z && (ey i + dy <=? 2 ^ 53)%Z))
  end.
Lemma call_dom_valid i dx dy dv : valid i -> call_dom (print_eid i) dx dy dv = dom_shift i dx dy dv.
Proof.
  intros Hv. unfold call_dom, dom_shift. rewrite parse_print_eid by now apply valid_fields_ok.
  apply validb_spec in Hv. rewrite Hv. cbn [orb andb]. apply andb_true_r.
Qed.

Definition d_shift (args : list val) (obs : val) : verdict :=
  match args with
  | [VS id; VZ dx; VZ dy; VZ dv] =>
      if call_dom id dx dy dv then
        match shift_api_f id dx dy dv with
        | Some m => match obs with
                    | VS o => mkv (String.eqb m o) (check_shift id dx dy dv o) "-" (VS m)
                    | _ => mkv false false "-" (VS m)       (* panic / timeout / another type: never the model's answer *)
                    end
        | None => c07_skipped       (* the twin refuses the fuel: more than 4096 additions in the loop *)
        end
      else c07_skipped
  | _ => bad_case
  end.

(* laws between calls: [s1 = shift id a; s2 = shift s1 b; s12 = shift id (a+b); back = shift s1 (-a); zero = shift id 0] *)
Definition obind {A B} (o : option A) (f : A -> option B) : option B := match o with Some a => f a | None => None end.
Definition shift_laws_model (id : string) (a1 a2 a3 b1 b2 b3 : Z) : option (list string) :=
  obind (shift_api_f id a1 a2 a3) (fun s1 =>
  obind (shift_api_f s1 b1 b2 b3) (fun s2 =>
  obind (shift_api_f id (a1 + b1) (a2 + b2) (a3 + b3)) (fun s12 =>
  obind (shift_api_f s1 (- a1) (- a2) (- a3)) (fun back =>
  obind (shift_api_f id 0 0 0) (fun zero => Some [s1; s2; s12; back; zero]))))).
Definition check_shift_laws (id : string) (a1 a2 a3 b1 b2 b3 : Z) (o : list string) : bool :=
  match o with
  | [s1; s2; s12; back; zero] =>
      let norm := match parse_eid id with Some i => print_eid i | None => EmptyString end in
      check_shift id a1 a2 a3 s1 &&
      check_shift id (a1 + b1) (a2 + b2) (a3 + b3) s2 && check_shift id (a1 + b1) (a2 + b2) (a3 + b3) s12 &&
      String.eqb back norm && String.eqb zero norm
  | _ => false
  end.
(* every intermediate of the five calls (and the sums / negations the invoker forms) stays inside int64 *)
Definition dom_laws (i : eid) (a1 a2 a3 b1 b2 b3 : Z) : bool :=
  let w := 2 ^ eh i in
  validb i &&
  all64 [a1; a2; a3; b1; b2; b3; a1 + b1; a2 + b2; a3 + b3; - a1; - a2; - a3;
         ex i + a1; ey i + a2; ef i + a3; (ex i + a1) mod w + b1; (ey i + a2) mod w + b2; ef i + a3 + b3;
         ex i + (a1 + b1); ey i + (a2 + b2); (ex i + a1) mod w - a1; (ey i + a2) mod w - a2].
(* the five strings of the integer model (total on Z) *)
Definition shift_laws_int (id : string) (a1 a2 a3 b1 b2 b3 : Z) : list string :=
  let s1 := shift_api id a1 a2 a3 in
  [s1; shift_api s1 b1 b2 b3; shift_api id (a1 + b1) (a2 + b2) (a3 + b3); shift_api s1 (- a1) (- a2) (- a3); shift_api id 0 0 0].
(* a non-valid ID: each of the five calls is judged on its own (call_dom), and the sums / negations the invoker forms are int64 *)
Definition dom_laws_ext (id : string) (a1 a2 a3 b1 b2 b3 : Z) : bool :=
  let s1 := shift_api id a1 a2 a3 in
  all64 [a1 + b1; a2 + b2; a3 + b3; - a1; - a2; - a3] &&
  call_dom id a1 a2 a3 && call_dom s1 b1 b2 b3 && call_dom id (a1 + b1) (a2 + b2) (a3 + b3) &&
  call_dom s1 (- a1) (- a2) (- a3) && call_dom id 0 0 0.
Definition laws_dom (id : string) (a1 a2 a3 b1 b2 b3 : Z) : bool :=
  match parse_eid id with
  | None => true
  | Some i => if validb i then dom_laws i a1 a2 a3 b1 b2 b3 else dom_laws_ext id a1 a2 a3 b1 b2 b3
  end.
(* prop: valid ID (or malformed string) — the law checker; non-valid ID — the integer model from the wrapped voxel (back / zero are the
   wrapped ID there, not the ID itself) *)
Definition laws_prop (id : string) (a1 a2 a3 b1 b2 b3 : Z) (o : list string) : bool :=
  match parse_eid id with
  | Some i => if validb i then check_shift_laws id a1 a2 a3 b1 b2 b3 o else same_list (shift_laws_int id a1 a2 a3 b1 b2 b3) o
  | None => check_shift_laws id a1 a2 a3 b1 b2 b3 o
  end.
Definition d_shift_laws (args : list val) (obs : val) : verdict :=
  match args with
  | [VS id; VZ a1; VZ a2; VZ a3; VZ b1; VZ b2; VZ b3] =>
      if laws_dom id a1 a2 a3 b1 b2 b3 then
        match shift_laws_model id a1 a2 a3 b1 b2 b3 with
        | Some m => match as_LS obs with
                    | Some o => mkv (same_list m o) (laws_prop id a1 a2 a3 b1 b2 b3 o) "-" (of_LS m)
                    | None => mkv false false "-" (of_LS m)
                    end
        | None => c07_skipped
        end
      else c07_skipped
  | _ => bad_case
  end.
(* on a valid ID the entry's prop IS the law checker *)
Lemma laws_prop_valid i a1 a2 a3 b1 b2 b3 o : valid i ->
  laws_prop (print_eid i) a1 a2 a3 b1 b2 b3 o = check_shift_laws (print_eid i) a1 a2 a3 b1 b2 b3 o.
Proof.
  intros Hv. unfold laws_prop. rewrite parse_print_eid by now apply valid_fields_ok.
  apply validb_spec in Hv. now rewrite Hv.
Qed.

(* ---- totality: on well-shaped arguments the class is "-" or "skipped", never "bad-case", whatever was observed ---- *)
Definition class_total (v : verdict) : Prop := v_class v = "-" \/ v_class v = "skipped".
Lemma class_total_not_bad v : class_total v -> v_class v <> "bad-case".
Proof. intros [E|E]; rewrite E; discriminate. Qed.
Theorem d_shift_total id dx dy dv obs : class_total (d_shift [VS id; VZ dx; VZ dy; VZ dv] obs).
Proof.
  unfold d_shift, class_total. destruct (call_dom id dx dy dv); [|right; reflexivity].
  destruct (shift_api_f id dx dy dv); [|right; reflexivity]. destruct obs; left; reflexivity.
Qed.
Theorem d_shift_laws_total id a1 a2 a3 b1 b2 b3 obs :
  class_total (d_shift_laws [VS id; VZ a1; VZ a2; VZ a3; VZ b1; VZ b2; VZ b3] obs).
Proof.
  unfold d_shift_laws, class_total. destruct (laws_dom id a1 a2 a3 b1 b2 b3); [|right; reflexivity].
  destruct (shift_laws_model id a1 a2 a3 b1 b2 b3); [|right; reflexivity]. destruct (as_LS obs); left; reflexivity.
Qed.
(* "skipped" is answered only outside the judged domain or where the twin itself refuses; inside, the case is judged *)
Theorem d_shift_skipped_only_outside id dx dy dv obs : v_class (d_shift [VS id; VZ dx; VZ dy; VZ dv] obs) = "skipped" ->
  call_dom id dx dy dv = false \/ shift_api_f id dx dy dv = None.
Proof.
  unfold d_shift. destruct (call_dom id dx dy dv); [|now left]. destruct (shift_api_f id dx dy dv); [|now right].
  destruct obs; cbn; discriminate.
Qed.
(* a valid ID inside int64 and inside the proved range of the float layer is always judged (never skipped) *)
Theorem d_shift_judged_on_quantifier i dx dy dv obs : valid i -> dom_shift i dx dy dv = true ->
  hshift_ok i (ex i) dx -> hshift_ok i (ey i) dy -> v_class (d_shift [VS (print_eid i); VZ dx; VZ dy; VZ dv] obs) = "-".
Proof.
  intros Hv Hd Hx Hy. unfold d_shift. rewrite (call_dom_valid i dx dy dv Hv), Hd, (shift_api_f_exact i dx dy dv Hv Hx Hy).
  destruct obs; reflexivity.
Qed.

(* the law checker compares every observed string with the specification *)
Theorem check_shift_laws_sound i a1 a2 a3 b1 b2 b3 o : valid i -> check_shift_laws (print_eid i) a1 a2 a3 b1 b2 b3 o = true ->
  o = [print_eid (shift_spec i a1 a2 a3); print_eid (shift_spec i (a1 + b1) (a2 + b2) (a3 + b3));
       print_eid (shift_spec i (a1 + b1) (a2 + b2) (a3 + b3)); print_eid i; print_eid i].
Proof.
  intros Hv. unfold check_shift_laws.
  destruct o as [|s1 [|s2 [|s12 [|back [|zero [|x r]]]]]]; try discriminate.
  rewrite parse_print_eid by now apply valid_fields_ok.
  rewrite !andb_true_iff. intros ((((H1 & H2) & H3) & H4) & H5).
  apply (check_shift_sound i _ _ _ _ Hv) in H1, H2, H3. apply String.eqb_eq in H4, H5. congruence.
Qed.

(* History entries.  The property quantifies over every history of exported calls: before the shift is asked for, the caller may have parsed
   the same string itself (object.NewExtendedSpatialID) and changed ITS OWN object with the exported mutators.  The last argument of these
   entries is that prelude, a list of operations
       [SetX n] [SetY n] [SetZ n] [SetZoom h v] [ResetExtendedSpatialID s]
   which the invoker performs on its own parse of the ID string immediately before the call of the plain entry (law entry: before each of
   the three calls that are given the string id).  The prelude is data of
   the case (replays are exact); the model is a function of the string and the shift alone, so the verdict is that of the plain entry
   (with_prelude_verdict).  A prelude of another shape is a bad case, never a pass. *)
Definition op_ok (v : val) : bool :=
  match v with
  | VL [VS name; VZ n] => existsb (String.eqb name) ["SetX"; "SetY"; "SetZ"] && int64_ok n
  | VL [VS name; VZ h; VZ v] => String.eqb name "SetZoom" && int64_ok h && int64_ok v
  | VL [VS name; VS _] => String.eqb name "ResetExtendedSpatialID"
  | _ => false
  end.
Definition prelude_ok (p : val) : bool := match p with VL l => forallb op_ok l | _ => false end.
(* k = number of arguments of the plain entry; the prelude follows them *)
Definition with_prelude (k : nat) (d : list val -> val -> verdict) (args : list val) (obs : val) : verdict :=
  match skipn k args with
  | [p] => if prelude_ok p then d (firstn k args) obs else bad_case
  | _ => bad_case
  end.
Definition d_shift_hist := with_prelude 4 d_shift.
Definition d_shift_laws_hist := with_prelude 7 d_shift_laws.

(* whatever the caller did to its own parsed object, the expected answer and the verdict are those of the plain call *)
Theorem with_prelude_verdict k d args p obs : length args = k -> prelude_ok p = true ->
  with_prelude k d (args ++ [p]) obs = d args obs.
Proof.
  intros Hk Hp. unfold with_prelude. subst k.
  rewrite skipn_app, skipn_all, Nat.sub_diag, firstn_app, firstn_all, Nat.sub_diag. cbn. rewrite Hp, app_nil_r. reflexivity.
Qed.
Theorem shift_history_independent id dx dy dv p obs : prelude_ok p = true ->
  d_shift_hist [VS id; VZ dx; VZ dy; VZ dv; p] obs = d_shift [VS id; VZ dx; VZ dy; VZ dv] obs.
Proof. intros Hp. exact (with_prelude_verdict 4 d_shift [VS id; VZ dx; VZ dy; VZ dv] p obs eq_refl Hp). Qed.
Theorem shift_laws_history_independent id a1 a2 a3 b1 b2 b3 p obs : prelude_ok p = true ->
  d_shift_laws_hist [VS id; VZ a1; VZ a2; VZ a3; VZ b1; VZ b2; VZ b3; p] obs = d_shift_laws [VS id; VZ a1; VZ a2; VZ a3; VZ b1; VZ b2; VZ b3] obs.
Proof. intros Hp. exact (with_prelude_verdict 7 d_shift_laws [VS id; VZ a1; VZ a2; VZ a3; VZ b1; VZ b2; VZ b3] p obs eq_refl Hp). Qed.

(* totality of the history entries: a well-formed prelude never makes a case unprocessable *)
Theorem d_shift_hist_total id dx dy dv p obs : prelude_ok p = true -> class_total (d_shift_hist [VS id; VZ dx; VZ dy; VZ dv; p] obs).
Proof. intros Hp. rewrite shift_history_independent by exact Hp. apply d_shift_total. Qed.
Theorem d_shift_laws_hist_total id a1 a2 a3 b1 b2 b3 p obs : prelude_ok p = true ->
  class_total (d_shift_laws_hist [VS id; VZ a1; VZ a2; VZ a3; VZ b1; VZ b2; VZ b3; p] obs).
Proof. intros Hp. rewrite shift_laws_history_independent by exact Hp. apply d_shift_laws_total. Qed.
(* all four entries of the table at once *)
Theorem table_C07_never_bad_case id dx dy dv b1 b2 b3 p obs : prelude_ok p = true ->
  v_class (d_shift [VS id; VZ dx; VZ dy; VZ dv] obs) <> "bad-case" /\
  v_class (d_shift_laws [VS id; VZ dx; VZ dy; VZ dv; VZ b1; VZ b2; VZ b3] obs) <> "bad-case" /\
  v_class (d_shift_hist [VS id; VZ dx; VZ dy; VZ dv; p] obs) <> "bad-case" /\
  v_class (d_shift_laws_hist [VS id; VZ dx; VZ dy; VZ dv; VZ b1; VZ b2; VZ b3; p] obs) <> "bad-case".
Proof.
  intros Hp. repeat split; apply class_total_not_bad;
    [apply d_shift_total | apply d_shift_laws_total | now apply d_shift_hist_total | now apply d_shift_laws_hist_total].
Qed.

Definition table_C07 : table :=
  [("GetShiftingSpatialID", fun _ => d_shift); ("ShiftLaws", fun _ => d_shift_laws);
   ("GetShiftingSpatialIDAfterOwnMutation", fun _ => d_shift_hist); ("ShiftLawsAfterOwnMutation", fun _ => d_shift_laws_hist)].
