(* DC07.v — dispatch entries of property C07: (arguments, observed output) ↦ verdict.
   corr = the implementation's output equals the output of the executable *float twin* ShiftF.shift_api_f, which goes through the same
          binary64 operations (Pow, float64(), Mod, int64()) and the same repeated-addition loop as the Go code (computed fuel);
   prop = the property's boolean checker: the observed string is the printed modular translation (Shift.check_shift), and for the law
          entry every observed string is compared with the specification (not with another observed string).
   Domain: IDs that parse but are not valid (zoom outside 0..35, index outside the grid — e.g. "-1/0/0/0/0", on which the library does not
   return) and shifts that leave int64 are outside the property's quantifier AND outside what the model claims: the entries answer bad_case
   there (never a silent pass); the generators do not produce them. *)
From Coq Require Import ZArith String List Bool.
From SID Require Import Base Str Ids Wire Shift ShiftF.
Import ListNotations.
Open Scope string_scope.

Definition all64 (l : list Z) : bool := forallb int64_ok l.
(* the call stays inside int64 arithmetic: x+dx, y+dy, f+dv as the code computes them *)
Definition dom_shift (i : eid) (dx dy dv : Z) : bool :=
  validb i && all64 [dx; dy; dv; ex i + dx; ey i + dy; ef i + dv].

Definition d_shift (args : list val) (obs : val) : verdict :=
  match args, obs with
  | [VS id; VZ dx; VZ dy; VZ dv], VS o =>
      match parse_eid id with
      | None => mkv (String.eqb EmptyString o) (check_shift id dx dy dv o) "-" (VS EmptyString)
      | Some i =>
          if dom_shift i dx dy dv then
            match shift_api_f id dx dy dv with
            | Some m => mkv (String.eqb m o) (check_shift id dx dy dv o) "-" (VS m)
            | None => bad_case
            end
          else bad_case
      end
  | _, _ => bad_case
  end.

(* laws between calls: [s1 = shift id a; s2 = shift s1 b; s12 = shift id (a+b); back = shift s1 (-a); zero = shift id 0] *)
Definition obind {A B} (o : option A) (f : A -> option B) : option B := match o with Some a => f a | None => None end.
Definition shift_laws_model (id : string) (a1 a2 a3 b1 b2 b3 : Z) : option (list string) :=
  obind (shift_api_f id a1 a2 a3) (fun s1 =>
  obind (shift_api_f s1 b1 b2 b3) (fun s2 =>
  obind (shift_api_f id (a1 + b1) (a2 + b2) (a3 + b3)) (fun s12 =>
  obind (shift_api_f s1 (- a1) (- a2) (- a3)) (fun back =>
  obind (shift_api_f id 0 0 0) (fun zero => Some [s1; s2; s12; back; zero]))))).
Definition check_shift_laws (id : string) (a1 a2 a3 b1 b2 b3 : Z) (o : list string) : bool :=
  match o with
  | [s1; s2; s12; back; zero] =>
      let norm := match parse_eid id with Some i => print_eid i | None => EmptyString end in
      check_shift id a1 a2 a3 s1 &&
      check_shift id (a1 + b1) (a2 + b2) (a3 + b3) s2 && check_shift id (a1 + b1) (a2 + b2) (a3 + b3) s12 &&
      String.eqb back norm && String.eqb zero norm
  | _ => false
  end.
(* every intermediate of the five calls (and the sums / negations the invoker forms) stays inside int64 *)
Definition dom_laws (i : eid) (a1 a2 a3 b1 b2 b3 : Z) : bool :=
  let w := 2 ^ eh i in
  validb i &&
  all64 [a1; a2; a3; b1; b2; b3; a1 + b1; a2 + b2; a3 + b3; - a1; - a2; - a3;
         ex i + a1; ey i + a2; ef i + a3; (ex i + a1) mod w + b1; (ey i + a2) mod w + b2; ef i + a3 + b3;
         ex i + (a1 + b1); ey i + (a2 + b2); (ex i + a1) mod w - a1; (ey i + a2) mod w - a2].
Definition d_shift_laws (args : list val) (obs : val) : verdict :=
  match args, as_LS obs with
  | [VS id; VZ a1; VZ a2; VZ a3; VZ b1; VZ b2; VZ b3], Some o =>
      let ok := match parse_eid id with Some i => dom_laws i a1 a2 a3 b1 b2 b3 | None => true end in
      if ok then
        match shift_laws_model id a1 a2 a3 b1 b2 b3 with
        | Some m => mkv (same_list m o) (check_shift_laws id a1 a2 a3 b1 b2 b3 o) "-" (of_LS m)
        | None => bad_case
        end
      else bad_case
  | _, _ => bad_case
  end.

(* the law checker compares every observed string with the specification *)
Theorem check_shift_laws_sound i a1 a2 a3 b1 b2 b3 o : valid i -> check_shift_laws (print_eid i) a1 a2 a3 b1 b2 b3 o = true ->
  o = [print_eid (shift_spec i a1 a2 a3); print_eid (shift_spec i (a1 + b1) (a2 + b2) (a3 + b3));
       print_eid (shift_spec i (a1 + b1) (a2 + b2) (a3 + b3)); print_eid i; print_eid i].
Proof.
  intros Hv. unfold check_shift_laws.
  destruct o as [|s1 [|s2 [|s12 [|back [|zero [|x r]]]]]]; try discriminate.
  rewrite parse_print_eid by now apply valid_fields_ok.
  rewrite !andb_true_iff. intros ((((H1 & H2) & H3) & H4) & H5).
  apply (check_shift_sound i _ _ _ _ Hv) in H1, H2, H3. apply String.eqb_eq in H4, H5. congruence.
Qed.

(* History entries.  The property quantifies over every history of exported calls: before the shift is asked for, the caller may have parsed
   the same string itself (object.NewExtendedSpatialID) and changed ITS OWN object with the exported mutators.  The last argument of these
   entries is that prelude, a list of operations
       [SetX n] [SetY n] [SetZ n] [SetZoom h v] [ResetExtendedSpatialID s]
   which the invoker performs on its own parse of the ID string immediately before the call of the plain entry (law entry: before each of
   the three calls that are given the string id).  The prelude is data of
   the case (replays are exact); the model is a function of the string and the shift alone, so the verdict is that of the plain entry
   (with_prelude_verdict).  A prelude of another shape is a bad case, never a pass. *)
Definition op_ok (v : val) : bool :=
  match v with
  | VL [VS name; VZ n] => existsb (String.eqb name) ["SetX"; "SetY"; "SetZ"] && int64_ok n
  | VL [VS name; VZ h; VZ v] => String.eqb name "SetZoom" && int64_ok h && int64_ok v
  | VL [VS name; VS _] => String.eqb name "ResetExtendedSpatialID"
  | _ => false
  end.
Definition prelude_ok (p : val) : bool := match p with VL l => forallb op_ok l | _ => false end.
(* k = number of arguments of the plain entry; the prelude follows them *)
Definition with_prelude (k : nat) (d : list val -> val -> verdict) (args : list val) (obs : val) : verdict :=
  match skipn k args with
  | [p] => if prelude_ok p then d (firstn k args) obs else bad_case
  | _ => bad_case
  end.
Definition d_shift_hist := with_prelude 4 d_shift.
Definition d_shift_laws_hist := with_prelude 7 d_shift_laws.

(* whatever the caller did to its own parsed object, the expected answer and the verdict are those of the plain call *)
Theorem with_prelude_verdict k d args p obs : length args = k -> prelude_ok p = true ->
  with_prelude k d (args ++ [p]) obs = d args obs.
Proof.
  intros Hk Hp. unfold with_prelude. subst k.
  rewrite skipn_app, skipn_all, Nat.sub_diag, firstn_app, firstn_all, Nat.sub_diag. cbn. rewrite Hp, app_nil_r. reflexivity.
Qed.
Theorem shift_history_independent id dx dy dv p obs : prelude_ok p = true ->
  d_shift_hist [VS id; VZ dx; VZ dy; VZ dv; p] obs = d_shift [VS id; VZ dx; VZ dy; VZ dv] obs.
Proof. intros Hp. exact (with_prelude_verdict 4 d_shift [VS id; VZ dx; VZ dy; VZ dv] p obs eq_refl Hp). Qed.
Theorem shift_laws_history_independent id a1 a2 a3 b1 b2 b3 p obs : prelude_ok p = true ->
  d_shift_laws_hist [VS id; VZ a1; VZ a2; VZ a3; VZ b1; VZ b2; VZ b3; p] obs = d_shift_laws [VS id; VZ a1; VZ a2; VZ a3; VZ b1; VZ b2; VZ b3] obs.
Proof. intros Hp. exact (with_prelude_verdict 7 d_shift_laws [VS id; VZ a1; VZ a2; VZ a3; VZ b1; VZ b2; VZ b3] p obs eq_refl Hp). Qed.

Definition table_C07 : table :=
  [("GetShiftingSpatialID", fun _ => d_shift); ("ShiftLaws", fun _ => d_shift_laws);
   ("GetShiftingSpatialIDAfterOwnMutation", fun _ => d_shift_hist); ("ShiftLawsAfterOwnMutation", fun _ => d_shift_laws_hist)].
