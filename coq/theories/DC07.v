(* DC07.v — dispatch entries of property C07: (arguments, observed output) ↦ verdict.
   corr = the executable model's output equals the implementation's observed output (projected observables);
   prop = the property's boolean checker accepts the implementation's observed output. *)
From Coq Require Import ZArith String List Bool.
From SID Require Import Base Str Ids Wire Shift.
Import ListNotations.
Open Scope string_scope.

  Definition d_shift (args : list val) (obs : val) : verdict :=
    match args, obs with
    | [VS id; VZ dx; VZ dy; VZ dv], VS o =>
        let m := shift_api id dx dy dv in
        mkv (String.eqb m o) (check_shift id dx dy dv o) "-" (VS m)
    | _, _ => bad_case
    end.

  (* laws between calls: [s1; s2 = shift s1 b; s12 = shift id (a+b); back = shift s1 (-a); zero = shift id 0] *)
  Definition shift_laws_model (id : string) (a1 a2 a3 b1 b2 b3 : Z) : list string :=
    let s1 := shift_api id a1 a2 a3 in
    [s1; shift_api s1 b1 b2 b3; shift_api id (a1 + b1) (a2 + b2) (a3 + b3); shift_api s1 (- a1) (- a2) (- a3); shift_api id 0 0 0].
  Definition check_shift_laws (id : string) (a1 a2 a3 b1 b2 b3 : Z) (o : list string) : bool :=
    match o with
    | [s1; s2; s12; back; zero] =>
        let norm := match parse_eid id with Some i => print_eid i | None => EmptyString end in
        check_shift id a1 a2 a3 s1 && String.eqb s2 s12 && String.eqb back norm && String.eqb zero norm
    | _ => false
    end.
  Definition d_shift_laws (args : list val) (obs : val) : verdict :=
    match args, as_LS obs with
    | [VS id; VZ a1; VZ a2; VZ a3; VZ b1; VZ b2; VZ b3], Some o =>
        let m := shift_laws_model id a1 a2 a3 b1 b2 b3 in
        mkv (same_list m o) (check_shift_laws id a1 a2 a3 b1 b2 b3 o) "-" (of_LS m)
    | _, _ => bad_case
    end.


Definition table_C07 : table :=
  [("GetShiftingSpatialID", fun _ => d_shift); ("ShiftLaws", fun _ => d_shift_laws)].
