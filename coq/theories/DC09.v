(* DC09.v — dispatch entries of property C09 (consistency between point lookup, zoom change, merge and overlap check).
   Every entry's Go invoker performs several related calls of the REAL functions and returns all results;
   corr = each result equals what the composed models (PointF + libm oracle, ChangeZoom, Merge, Consistency.overlap_check_api) predict;
   prop = the checker of Consistency.v (proved equivalent to its specification) accepts the observed results — it only relates the
          observed results to each other (no external reference), as the property says;
   class = "alt_underflow" exactly as DC01 decides it (the code's vertical index differs from the exact floor and the altitude is in
           FF.alt_underflow at that zoom), evaluated only when the model agrees and the checker rejects.
   Calls whose result would be huge are refused by the invoker with a marker (the shrinker may propose them) and pass here. *)
From Coq Require Import ZArith String List Bool Floats.
From SID Require Import Base Str Ids Wire ZoomCore ChangeZoom Merge MergeApi F64 ExactRef PointF FF Consistency.
Import ListNotations.
Open Scope string_scope.
Open Scope Z_scope.

Definition skip_marker : string := "skipped-too-large".
Definition is_skip (obs : val) : bool := match obs with VS s => String.eqb s skip_marker | _ => false end.
Definition pass : verdict := mkv true true "-" VNil.
Definition expect_error (obs : val) : verdict := let e := is_err obs in mkv e e "-" (VE VNil).
Definition cap : Z := 4096.

Definition ofun (oracle : oracle_t) (name : string) (x : float) : float :=
  match oracle name [VF x] with VF r => r | _ => nan end.
Definition as_point (v : val) : option point :=
  match v with
  | VL [VF a; VF b; VF c] => Some {| plon := a; plat := b; palt := c |}
  | _ => None
  end.
Definition as_zz (v : val) : option (Z * Z) := match v with VL [VZ a; VZ b] => Some (a, b) | _ => None end.
Definition as_zzs (v : val) : option (list (Z * Z)) := match as_L v with Some l => all_opt (map as_zz l) | None => None end.
Definition res_strings (r : result (list string)) : val := match r with Ok l => of_LS l | Err => VE VNil end.
Definition set_eq (m o : list string) : bool := same_set m o && Nat.eqb (List.length m) (List.length o).

(* the recorded finding class of C01/C09 (D12), decided as DC01.class_point decides it *)
Definition class_alt (p : point) (v : Z) : bool :=
  match f_f (palt p) v, exact_f (palt p) v with
  | Some f, Some f' => negb (f =? f') && alt_underflow_b (palt p) v
  | _, _ => false
  end.
Definition class_of (p : point) (vs : list Z) : string := if existsb (class_alt p) vs then "alt_underflow" else "-".

(* policy shared with the invokers: the overlap function is called only on zoom pairs that are close enough for a wrong choice of the
   common zoom to stay cheap; zoom-in results are bounded by `cap` *)
Definition ovl_called (h1 v1 h2 v2 : Z) : bool := 2 * Z.abs (h1 - h2) + Z.abs (v1 - v2) <=? 18.
Definition chg_cost (h1 v1 h2 v2 : Z) : Z := 4 ^ Z.max 0 (h2 - h1) * 2 ^ Z.max 0 (v2 - v1).
Definition zooms_ok (l : list Z) : bool := forallb check_zoom l.

(* the single ID of one stored point through the API model *)
Definition point_id (oracle : oracle_t) (p : point) (h v : Z) : option string :=
  match points_api (ofun oracle "tan") (ofun oracle "cos") (ofun oracle "log") false [p] h v with
  | Ok [s] => Some s
  | _ => None
  end.
Definition ovl_model (s1 s2 : string) (h1 v1 h2 v2 : Z) : option (result bool) :=
  if ovl_called h1 v1 h2 v2 then Some (overlap_check_api s1 s2) else None.
Definition ovl_val (m : option (result bool)) : val :=
  match m with Some (Ok b) => VB b | Some Err => VE VNil | None => VNil end.
Definition ovl_agrees (m : option (result bool)) (o : val) : bool :=
  match m, o with
  | Some (Ok b), VB b' => Bool.eqb b b'
  | None, VNil => true
  | _, _ => false
  end.
Definition ovl_obs (o : val) : option bool := match o with VB b => Some b | _ => None end.
Definition ovl_present (called : bool) (o : val) : bool := if called then match o with VB _ => true | _ => false end else true.

(* ---- PointNesting: [stored point; h1; v1; h2; v2] ↦ [ID at (h1,v1); ID at (h2,v2); ChangeExtendedSpatialIdsZoom([ID1], h2, v2);
        CheckExtendedSpatialIdsOverlap(ID1, ID2) or nil when not called] ---- *)
Definition d_nesting (oracle : oracle_t) (args : list val) (obs : val) : verdict :=
  match args with
  | [pv; VZ h1; VZ v1; VZ h2; VZ v2] =>
      match as_point pv with
      | Some p =>
          if is_skip obs then pass
          else if negb (zooms_ok [h1; v1; h2; v2]) then expect_error obs
          else if cap <? chg_cost h1 v1 h2 v2 then pass
          else match point_id oracle p h1 v1, point_id oracle p h2 v2 with
               | Some s1, Some s2 =>
                   let mchg := change_one_fast s1 h2 v2 in        (* = change_ext_api [s1] h2 v2: Consistency.change_one_fast_spec *)
                   let movl := ovl_model s1 s2 h1 v1 h2 v2 in
                   let mval := VL [VS s1; VS s2; res_strings mchg; ovl_val movl] in
                   match obs with
                   | VL [VS o1; VS o2; ochg; oovl] =>
                       match as_LS ochg with
                       | Some lc =>
                           let corr := String.eqb o1 s1 && String.eqb o2 s2 &&
                                       (match mchg with Ok ml => set_eq ml lc | Err => false end) && ovl_agrees movl oovl in
                           let prop := check_nesting h1 v1 h2 v2 o1 o2 lc (ovl_obs oovl) &&
                                       ovl_present (ovl_called h1 v1 h2 v2) oovl in
                           mkv corr prop (if corr && negb prop then class_of p [v1; v2] else "-") mval
                       | None => bad_case
                       end
                   | _ => mkv false false "-" mval        (* an error although all arguments are in the domain *)
                   end
               | _, _ => bad_case
               end
      | None => bad_case
      end
  | _ => bad_case
  end.

(* ---- ZoomInOut: [ID; H; V] ↦ [number of IDs after ChangeExtendedSpatialIdsZoom([ID], H, V); that list changed back to the ID's own zooms] ---- *)
Definition d_in_out (args : list val) (obs : val) : verdict :=
  match args with
  | [VS id; VZ H; VZ V] =>
      if is_skip obs then pass
      else match parse_eid id with
           | None => expect_error obs
           | Some i =>
               if negb (check_zoom H && check_zoom V) then expect_error obs
               else if negb (validb i) then pass                      (* outside the property's quantifier *)
               else if cap <? 4 ^ Z.abs (H - eh i) * 2 ^ Z.abs (V - ev i) then pass
               else match change_one_fast id H V with           (* = change_ext_api [id] H V *)
                    | Ok mid =>
                        let mback := change_ext_api mid (eh i) (ev i) in
                        let mval := VL [VZ (Z.of_nat (List.length mid)); res_strings mback] in
                        match obs with
                        | VL [VZ n; oback] =>
                            match as_LS oback with
                            | Some lb =>
                                let corr := (n =? Z.of_nat (List.length mid)) && (match mback with Ok mb => set_eq mb lb | Err => false end) in
                                let prop := if (eh i <=? H) && (ev i <=? V) then check_in_out id H V n lb else true in
                                mkv corr prop "-" mval
                            | None => bad_case
                            end
                        | _ => mkv false false "-" mval
                        end
                    | Err => expect_error obs
                    end
           end
  | _ => bad_case
  end.

(* ---- MergeDescendants: [ID; dh; dv; seed] ↦ [the descendants at (h+dh, v+dv) shuffled / repeated by the seed;
        MergeExtendedSpatialIds(that list, h, v)] ---- *)
Definition d_merge_desc (args : list val) (obs : val) : verdict :=
  match args with
  | [VS id; VZ dh; VZ dv; VZ _] =>
      if is_skip obs then pass
      else match parse_eid id with
           | None => expect_error obs
           | Some i =>
               if negb (validb i) then pass
               else if negb ((0 <=? dh) && (dh <=? 3) && (0 <=? dv) && (dv <=? 4) && (eh i + dh <=? 35) && (ev i + dv <=? 35)) then pass
               else
                 let D := map print_eid (one (eh i + dh) (ev i + dv) i) in      (* = change_eids [i] ..: Consistency.change_single *)
                 match obs with
                 | VL [olist; omerged] =>
                     match as_LS olist, as_LS omerged with
                     | Some ll, Some lm =>
                         let mm := merge_ext_api ll (eh i) (ev i) in
                         let corr := same_set D ll && (match mm with Ok m => set_eq m lm | Err => false end) in
                         let prop := check_merge_desc id lm in
                         mkv corr prop "-" (VL [of_LS D; res_strings mm])
                     | _, _ => bad_case
                     end
                 | _ => mkv false false "-" (VL [of_LS D; of_LS [print_eid i]])
                 end
           end
  | _ => bad_case
  end.

(* ---- PointLadder: [stored point; zoom pairs; index pairs] ↦ [the point's ID at every zoom pair;
        CheckExtendedSpatialIdsOverlap on the listed pairs of those IDs (nil where not called)] ---- *)
Definition nth_zz (zs : list (Z * Z)) (a : Z) : option (Z * Z) := if a <? 0 then None else nth_error zs (Z.to_nat a).
Definition nth_s (l : list string) (a : Z) : option string := if a <? 0 then None else nth_error l (Z.to_nat a).
Definition pair_model (zs : list (Z * Z)) (ids : list string) (ab : Z * Z) : option (result bool) :=
  match nth_zz zs (fst ab), nth_zz zs (snd ab), nth_s ids (fst ab), nth_s ids (snd ab) with
  | Some (h1, v1), Some (h2, v2), Some s1, Some s2 => ovl_model s1 s2 h1 v1 h2 v2
  | _, _, _, _ => None
  end.
Definition pair_called (zs : list (Z * Z)) (ab : Z * Z) : bool :=
  match nth_zz zs (fst ab), nth_zz zs (snd ab) with
  | Some (h1, v1), Some (h2, v2) => ovl_called h1 v1 h2 v2
  | _, _ => false
  end.
Fixpoint all2 {A B} (f : A -> B -> bool) (a : list A) (b : list B) : bool :=
  match a, b with
  | [], [] => true
  | x :: r, y :: s => f x y && all2 f r s
  | _, _ => false
  end.
Definition d_ladder (oracle : oracle_t) (args : list val) (obs : val) : verdict :=
  match args with
  | [pv; zv; pairsv] =>
      match as_point pv, as_zzs zv, as_zzs pairsv with
      | Some p, Some zs, Some pairs =>
          if is_skip obs then pass
          else if negb (forallb (fun z => check_zoom (fst z) && check_zoom (snd z)) zs) then expect_error obs
          else match all_opt (map (fun z => point_id oracle p (fst z) (snd z)) zs) with
               | Some ids =>
                   let mb := map (pair_model zs ids) pairs in
                   let mval := VL [of_LS ids; VL (map ovl_val mb)] in
                   match obs with
                   | VL [oids; VL obools] =>
                       match as_LS oids with
                       | Some li =>
                           let corr := same_list ids li && all2 ovl_agrees mb obools in
                           let prop := check_ladder zs li (map ovl_obs obools) &&
                                       all2 (fun ab o => ovl_present (pair_called zs ab) o) pairs obools in
                           mkv corr prop (if corr && negb prop then class_of p (map snd zs) else "-") mval
                       | None => bad_case
                       end
                   | _ => mkv false false "-" mval
                   end
               | None => bad_case
               end
      | _, _, _ => bad_case
      end
  | _ => bad_case
  end.

Definition table_C09 : table :=
  [("PointNesting", d_nesting); ("ZoomInOut", fun _ => d_in_out); ("MergeDescendants", fun _ => d_merge_desc); ("PointLadder", d_ladder)].
