(* DC09.v — dispatch entries of property C09 (consistency between point lookup, zoom change, merge and overlap check).
   Every entry's Go invoker performs several related calls of the REAL functions and returns all results; the entry CallHistory runs a
   whole list of such steps (and unjudged caller actions) through one caller and judges each step as a standalone case;
   corr  = each result equals what the composed models (PointF + libm oracle, ChangeZoom, Merge, Consistency.overlap_check_api) predict
           (zoom-change results are put by the invoker into the model's loop order — y, then x, then f — and compared as lists),
           AND the validated assumption of the latitude theorems holds on this case (the libm float m is finite with 0 <= m < 2);
   prop  = prop_nesting / prop_ladder / prop_in_out / prop_merge_desc below: the checker of Consistency.v (proved equivalent to its
           specification) applied to the observed value; it only relates the observed results to each other (no external reference);
           `*_verdict` theorems at the end say what a verdict with prop = true and class "-" means;
   class = "alt_underflow" (D12) ONLY when the failure is explained by the vertical axis alone: every other conjunct of the checker holds
           on the observed values, every observed vertical index is either the exact floor or has the defect's shape (the code answered 0,
           the exact floor is -1, and the quotient alt/2^(25-v) rounds to -0: Consistency.alt_vanishes_b), at least one has, and the exact
           floors are nested;
           "skipped" when the invoker refused an over-size call AND this entry's own estimate exceeds the cap.
   Outside the entry's domain — non-finite or out-of-range coordinates (NewPoint accepts NaN and any altitude, the property's "valid points"
   are lon in [-180,180], |lat| <= 85.0511287798, alt in [-2^25, 2^25)), parseable-but-invalid IDs, a zoom-out target in ZoomInOut,
   a marker without an over-size estimate — the answer is bad_case, never a pass. *)
From Coq Require Import ZArith String List Bool Floats Lia.
From SID Require Import Base Str Ids Wire ZoomCore ChangeZoom Merge MergeApi F64 ExactRef PointF FF YF Consistency.
Import ListNotations.
Open Scope string_scope.
Open Scope Z_scope.

Definition skip_marker : string := "skipped-too-large".
Definition is_skip (obs : val) : bool := match obs with VS s => String.eqb s skip_marker | _ => false end.
Definition skipv : verdict := mkv true true "skipped" VNil.
Definition expect_error (obs : val) : verdict := let e := is_err obs in mkv e e "-" (VE VNil).
Definition cap : Z := 4096.

Definition ofun (oracle : oracle_t) (name : string) (x : float) : float :=
  match oracle name [VF x] with VF r => r | _ => nan end.
Definition as_point (v : val) : option point :=
  match v with
  | VL [VF a; VF b; VF c] => Some {| plon := a; plat := b; palt := c |}
  | _ => None
  end.
Definition as_zz (v : val) : option (Z * Z) := match v with VL [VZ a; VZ b] => Some (a, b) | _ => None end.
Definition as_zzs (v : val) : option (list (Z * Z)) := match as_L v with Some l => all_opt (map as_zz l) | None => None end.
Definition as_bools (l : list val) : option (list bool) := all_opt (map as_B l).
Definition res_strings (r : result (list string)) : val := match r with Ok l => of_LS l | Err => VE VNil end.
Definition set_eq (m o : list string) : bool := same_set m o && Nat.eqb (List.length m) (List.length o).

(* the property's "valid points", on the stored floats (NaN fails every comparison) *)
Definition in_domain_point (p : point) : bool :=
  (abs (plon p) <=? 180)%float && (abs (plat p) <=? c_latmax)%float && (- pow2f 25 <=? palt p)%float && (palt p <? pow2f 25)%float.
(* the validated assumption of the latitude theorems: the float m = 1 - Log(Tan r + 1/Cos r)/Pi computed from Go's libm answers is finite
   and 0 <= m < 2 (infinities and NaN fail the comparisons) *)
Definition libm_guard (oracle : oracle_t) (p : point) : bool :=
  let m := merc_m (ofun oracle "tan") (ofun oracle "cos") (ofun oracle "log") (plat p) in (0 <=? m)%float && (m <? 2)%float.

Definition chg_cost (h1 v1 h2 v2 : Z) : Z := 4 ^ Z.max 0 (h2 - h1) * 2 ^ Z.max 0 (v2 - v1).
Definition zooms_ok (l : list Z) : bool := forallb check_zoom l.

(* the single ID of one stored point through the API model *)
Definition point_id (oracle : oracle_t) (p : point) (h v : Z) : option string :=
  match points_api (ofun oracle "tan") (ofun oracle "cos") (ofun oracle "log") false [p] h v with
  | Ok [s] => Some s
  | _ => None
  end.
Definition ovl_val (m : result bool) : val := match m with Ok b => VB b | Err => VE VNil end.
Definition ovl_agrees (m : result bool) (o : bool) : bool := match m with Ok b => Bool.eqb b o | Err => false end.

(* ---- the shape of the recorded defect on one observed vertical index: Some (exact floor, has-the-defect) or None (unexplained) ---- *)
Definition f_explained (p : point) (v f : Z) : option (Z * bool) :=
  match exact_f (palt p) v with
  | Some f' => if f =? f' then Some (f', false)
               else if alt_vanishes_b (palt p) v && alt_underflow_b (palt p) v && (f =? 0) && (f' =? -1) then Some (f', true)
               else None
  | None => None
  end.

(* ================================================================================================================== *)
(* PointNesting: [stored point; h1; v1; h2; v2] ↦ [ID at (h1,v1); ID at (h2,v2); ChangeExtendedSpatialIdsZoom([ID1], h2, v2);
   CheckExtendedSpatialIdsOverlap(ID1, ID2)]                                                                          *)
(* ================================================================================================================== *)
Definition prop_nesting (h1 v1 h2 v2 : Z) (obs : val) : bool :=
  match obs with
  | VL [VS o1; VS o2; ochg; VB b] =>
      match as_LS ochg with Some lc => check_nesting h1 v1 h2 v2 o1 o2 lc b | None => false end
  | _ => false
  end.
Definition explained_nesting (p : point) (h1 v1 h2 v2 : Z) (obs : val) : bool :=
  match obs with
  | VL [VS o1; VS o2; ochg; VB b] =>
      match as_LS ochg, parse_eid o1, parse_eid o2 with
      | Some lc, Some e1, Some e2 =>
          (eh e1 =? h1) && (ev e1 =? v1) && (eh e2 =? h2) && (ev e2 =? v2) && validb e1 && validb e2 &&
          rel1b h1 (ex e1) h2 (ex e2) && rel1b h1 (ey e1) h2 (ey e2) &&
          check_change [e1] h2 v2 lc && Bool.eqb b (overlapsb e1 e2) &&
          match f_explained p v1 (ef e1), f_explained p v2 (ef e2) with
          | Some (f1, d1), Some (f2, d2) => (d1 || d2) && rel1b v1 f1 v2 f2
          | _, _ => false
          end
      | _, _, _ => false
      end
  | _ => false
  end.
Definition corr_nesting (s1 s2 : string) (mchg : result (list string)) (movl : result bool) (obs : val) : bool :=
  match obs with
  | VL [VS o1; VS o2; ochg; VB b] =>
      match as_LS ochg with
      | Some lc => String.eqb o1 s1 && String.eqb o2 s2 && (match mchg with Ok ml => same_list ml lc | Err => false end) && ovl_agrees movl b
      | None => false
      end
  | _ => false
  end.
Definition d_nesting_core (oracle : oracle_t) (p : point) (h1 v1 h2 v2 : Z) (obs : val) : verdict :=
  if negb (zooms_ok [h1; v1; h2; v2]) then (if is_skip obs then bad_case else expect_error obs)
  else if cap <? chg_cost h1 v1 h2 v2 then (if is_skip obs then skipv else bad_case)
  else if is_skip obs then bad_case
  else if negb (in_domain_point p) then bad_case
  else match point_id oracle p h1 v1, point_id oracle p h2 v2 with
       | Some s1, Some s2 =>
           let mchg := change_one_fast s1 h2 v2 in        (* = change_ext_api [s1] h2 v2: Consistency.change_one_fast_spec *)
           let movl := overlap_check_api s1 s2 in
           let corr := corr_nesting s1 s2 mchg movl obs && libm_guard oracle p in
           let prop := prop_nesting h1 v1 h2 v2 obs in
           mkv corr prop (if corr && negb prop && explained_nesting p h1 v1 h2 v2 obs then "alt_underflow" else "-")
               (VL [VS s1; VS s2; res_strings mchg; ovl_val movl])
       | _, _ => bad_case
       end.
Definition d_nesting (oracle : oracle_t) (args : list val) (obs : val) : verdict :=
  match args with
  | [pv; VZ h1; VZ v1; VZ h2; VZ v2] =>
      match as_point pv with Some p => d_nesting_core oracle p h1 v1 h2 v2 obs | None => bad_case end
  | _ => bad_case
  end.

(* ================================================================================================================== *)
(* ZoomInOut: [ID; H; V] ↦ [ChangeExtendedSpatialIdsZoom([ID], H, V); that list changed back to the ID's own zooms]    *)
(* ================================================================================================================== *)
Definition prop_in_out (id : string) (H V : Z) (obs : val) : bool :=
  match obs with
  | VL [omid; oback] =>
      match as_LS omid, as_LS oback with
      | Some lm, Some lb => check_in_out id H V (Z.of_nat (List.length lm)) lb
      | _, _ => false
      end
  | _ => false
  end.
Definition corr_in_out (mid : list string) (mback : result (list string)) (obs : val) : bool :=
  match obs with
  | VL [omid; oback] =>
      match as_LS omid, as_LS oback with
      | Some lm, Some lb => same_list mid lm && (match mback with Ok mb => set_eq mb lb | Err => false end)
      | _, _ => false
      end
  | _ => false
  end.
Definition d_in_out_core (id : string) (H V : Z) (obs : val) : verdict :=
  match parse_eid id with
  | None => if is_skip obs then bad_case else expect_error obs
  | Some i =>
      if negb (check_zoom H && check_zoom V) then (if is_skip obs then bad_case else expect_error obs)
      else if negb (validb i) then bad_case                                   (* outside the property's quantifier *)
      else if negb ((eh i <=? H) && (ev i <=? V)) then bad_case               (* not a zoom-in: outside this entry *)
      else if cap <? 4 ^ (H - eh i) * 2 ^ (V - ev i) then (if is_skip obs then skipv else bad_case)
      else if is_skip obs then bad_case
      else match change_one_fast id H V with                                  (* = change_ext_api [id] H V *)
           | Ok mid =>
               let mback := Ok [print_eid i] in      (* = change_ext_api mid (eh i) (ev i) on this branch: Consistency.zoom_in_out_api *)
               mkv (corr_in_out mid mback obs) (prop_in_out id H V obs) "-" (VL [of_LS mid; res_strings mback])
           | Err => bad_case
           end
  end.
Definition d_in_out (args : list val) (obs : val) : verdict :=
  match args with
  | [VS id; VZ H; VZ V] => d_in_out_core id H V obs
  | _ => bad_case
  end.

(* ================================================================================================================== *)
(* MergeDescendants: [ID; dh; dv; seed] ↦ [the descendants at (h+dh, v+dv) shuffled / repeated by the seed;
   MergeExtendedSpatialIds(that list, h, v)]                                                                          *)
(* ================================================================================================================== *)
Definition prop_merge_desc (id : string) (obs : val) : bool :=
  match obs with
  | VL [olist; omerged] =>
      match as_LS olist, as_LS omerged with
      | Some _, Some lm => check_merge_desc id lm
      | _, _ => false
      end
  | _ => false
  end.
Definition corr_merge_desc (D : list string) (h v : Z) (obs : val) : bool :=
  match obs with
  | VL [olist; omerged] =>
      match as_LS olist, as_LS omerged with
      | Some ll, Some lm => same_set D ll && (match merge_ext_api ll h v with Ok m => set_eq m lm | Err => false end)
      | _, _ => false
      end
  | _ => false
  end.
Definition merge_desc_in_range (i : eid) (dh dv : Z) : bool :=
  (0 <=? dh) && (dh <=? 3) && (0 <=? dv) && (dv <=? 4) && (eh i + dh <=? 35) && (ev i + dv <=? 35).
Definition d_merge_desc_core (id : string) (dh dv : Z) (obs : val) : verdict :=
  match parse_eid id with
  | None => if is_skip obs then bad_case else expect_error obs
  | Some i =>
      if negb (validb i) then bad_case
      else if negb (merge_desc_in_range i dh dv) then (if is_skip obs then skipv else bad_case)
      else if is_skip obs then bad_case
      else
        let D := map print_eid (one (eh i + dh) (ev i + dv) i) in      (* = change_eids [i] ..: Consistency.change_single *)
        mkv (corr_merge_desc D (eh i) (ev i) obs) (prop_merge_desc id obs) "-" (VL [of_LS D; of_LS [print_eid i]])
  end.
Definition d_merge_desc (args : list val) (obs : val) : verdict :=
  match args with
  | [VS id; VZ dh; VZ dv; VZ _] => d_merge_desc_core id dh dv obs
  | _ => bad_case
  end.

(* ================================================================================================================== *)
(* PointLadder: [stored point; zoom pairs; index pairs] ↦ [the point's ID at every zoom pair;
   CheckExtendedSpatialIdsOverlap on the listed pairs of those IDs]                                                   *)
(* ================================================================================================================== *)
Definition nth_z {A} (l : list A) (a : Z) : option A := if a <? 0 then None else nth_error l (Z.to_nat a).
Definition pairs_ok (n : nat) (pairs : list (Z * Z)) : bool :=
  forallb (fun ab => (0 <=? fst ab) && (fst ab <? Z.of_nat n) && (0 <=? snd ab) && (snd ab <? Z.of_nat n)) pairs.
Fixpoint all2 {A B} (f : A -> B -> bool) (a : list A) (b : list B) : bool :=
  match a, b with
  | [], [] => true
  | x :: r, y :: s => f x y && all2 f r s
  | _, _ => false
  end.
Definition pair_model (ids : list string) (ab : Z * Z) : result bool :=
  match nth_z ids (fst ab), nth_z ids (snd ab) with
  | Some s1, Some s2 => overlap_check_api s1 s2
  | _, _ => Err
  end.
Definition prop_ladder (zs pairs : list (Z * Z)) (obs : val) : bool :=
  match obs with
  | VL [oids; VL obools] =>
      match as_LS oids, as_bools obools with
      | Some li, Some lb => check_ladder zs li lb && Nat.eqb (List.length lb) (List.length pairs)
      | _, _ => false
      end
  | _ => false
  end.
Definition corr_ladder (ids : list string) (pairs : list (Z * Z)) (obs : val) : bool :=
  match obs with
  | VL [oids; VL obools] =>
      match as_LS oids, as_bools obools with
      | Some li, Some lb => same_list ids li && all2 ovl_agrees (map (pair_model ids) pairs) lb
      | _, _ => false
      end
  | _ => false
  end.
Definition explained_ladder (p : point) (zs pairs : list (Z * Z)) (obs : val) : bool :=
  match obs with
  | VL [oids; VL obools] =>
      match as_LS oids, as_bools obools with
      | Some li, Some lb =>
          match map_opt parse_eid li with
          | Some es =>
              list_eqb eqb2 (zooms_of es) zs && forallb validb es &&
              all_pairs (fun a b => rel1b (eh a) (ex a) (eh b) (ex b) && rel1b (eh a) (ey a) (eh b) (ey b)) es &&
              all2 (fun ab b => match nth_z es (fst ab), nth_z es (snd ab) with
                                | Some a, Some c => Bool.eqb b (overlapsb a c)
                                | _, _ => false end) pairs lb &&
              match all_opt (map (fun e => f_explained p (ev e) (ef e)) es) with
              | Some fs => existsb snd fs &&
                           all_pairs (fun a b => rel1b (fst a) (snd a) (fst b) (snd b)) (combine (map ev es) (map fst fs))
              | None => false
              end
          | None => false
          end
      | _, _ => false
      end
  | _ => false
  end.
Definition d_ladder_core (oracle : oracle_t) (p : point) (zs pairs : list (Z * Z)) (obs : val) : verdict :=
  if negb (forallb (fun z => check_zoom (fst z) && check_zoom (snd z)) zs) then (if is_skip obs then bad_case else expect_error obs)
  else if is_skip obs then bad_case                                  (* this entry never refuses: every call is a point lookup or a zoom-out *)
  else if negb (in_domain_point p) || negb (pairs_ok (List.length zs) pairs) then bad_case
  else match all_opt (map (fun z => point_id oracle p (fst z) (snd z)) zs) with
       | Some ids =>
           let corr := corr_ladder ids pairs obs && libm_guard oracle p in
           let prop := prop_ladder zs pairs obs in
           mkv corr prop (if corr && negb prop && explained_ladder p zs pairs obs then "alt_underflow" else "-")
               (VL [of_LS ids; VL (map (fun ab => ovl_val (pair_model ids ab)) pairs)])
       | None => bad_case
       end.
Definition d_ladder (oracle : oracle_t) (args : list val) (obs : val) : verdict :=
  match args with
  | [pv; zv; pairsv] =>
      match as_point pv, as_zzs zv, as_zzs pairsv with
      | Some p, Some zs, Some pairs => d_ladder_core oracle p zs pairs obs
      | _, _, _ => bad_case
      end
  | _ => bad_case
  end.

Definition base_table_C09 : table :=
  [("PointNesting", d_nesting); ("ZoomInOut", fun _ => d_in_out); ("MergeDescendants", fun _ => d_merge_desc); ("PointLadder", d_ladder)].

(* ================================================================================================================== *)
(* CallHistory: [scribble?; steps] ↦ the list of the steps' observations. step = [name; arguments]; all steps are made back to back by ONE
   caller (same point objects, same ID buffer, refilled in place; with scribble? = true the caller overwrites its inputs and the returned
   slices after every library call), after a fixed priming sequence. A step named like one of the four entries is judged EXACTLY as that
   entry's standalone case (the models keep no state: Consistency.history_is_stateless, history_steps_independent below); a step "call-*" is
   a caller action whose results are thrown away (observation nil, neutral verdict). An answer that depends on what was called before —
   a memo keyed on part of the arguments, state written before validation, a result aliasing library or caller memory, a scratch buffer
   that is not reset — shows as a failure of the step that received it. *)
(* ================================================================================================================== *)
Definition is_action (name : string) : bool := prefix "call-" name.
Definition neutral : verdict := mkv true true "-" VNil.
Definition d_step (oracle : oracle_t) (st ob : val) : verdict :=
  match st with
  | VL [VS name; VL sargs] =>
      if is_action name then (match ob with VNil => neutral | _ => bad_case end)
      else run_table base_table_C09 oracle name sargs ob
  | _ => bad_case
  end.
Definition is_judged (st : val) : bool := match st with VL [VS name; VL _] => negb (is_action name) | _ => false end.
Fixpoint map2 {A B C} (f : A -> B -> C) (a : list A) (b : list B) : list C :=
  match a, b with x :: r, y :: s => f x y :: map2 f r s | _, _ => [] end.
Definition judge_history (oracle : oracle_t) (steps obss : list val) : list verdict := map2 (d_step oracle) steps obss.
Definition has_class (c : string) (v : verdict) : bool := String.eqb (v_class v) c.
Definition d_history (oracle : oracle_t) (args : list val) (obs : val) : verdict :=
  match args, obs with
  | [VB _; VL steps], VL obss =>
      if negb (Nat.eqb (List.length steps) (List.length obss)) || negb (existsb is_judged steps) then bad_case
      else
        let vs := judge_history oracle steps obss in
        if existsb (has_class "bad-case") vs then bad_case
        else if existsb (has_class "skipped") vs then bad_case          (* histories are generated under the size caps *)
        else
          let unexcused := existsb (fun v => negb (v_prop v) && has_class "-" v) vs in
          let cls := if unexcused then "-"
                     else match find (fun v => negb (has_class "-" v)) vs with Some v => v_class v | None => "-" end in
          mkv (forallb v_corr vs) (forallb v_prop vs) cls (VL (map v_model vs))
  | _, _ => bad_case
  end.

Definition table_C09 : table := (base_table_C09 ++ [("CallHistory", d_history)])%list.

(* every step of a history is judged as the same step on its own: the verdict does not depend on the other steps *)
Theorem history_steps_independent oracle steps obss i st ob :
  nth_error steps i = Some st -> nth_error obss i = Some ob -> nth_error (judge_history oracle steps obss) i = Some (d_step oracle st ob).
Proof.
  unfold judge_history. revert obss i. induction steps as [|a r IH]; intros obss i; [destruct i; discriminate|].
  destruct obss as [|b s]; [destruct i; discriminate|]. destruct i as [|i]; cbn [nth_error map2].
  - intros [= ->] [= ->]. reflexivity.
  - apply IH.
Qed.
(* a history verdict with prop = true under class "-" means that EVERY step's own verdict has prop = true *)
Theorem d_history_verdict oracle b steps obss :
  v_prop (d_history oracle [VB b; VL steps] (VL obss)) = true ->
  List.length steps = List.length obss /\ forall i st ob, nth_error steps i = Some st -> nth_error obss i = Some ob -> v_prop (d_step oracle st ob) = true.
Proof.
  unfold d_history.
  destruct (Nat.eqb (List.length steps) (List.length obss)) eqn:L; cbn [negb orb]; [|discriminate].
  destruct (existsb is_judged steps); cbn [negb]; [|discriminate].
  destruct (existsb (has_class "bad-case") (judge_history oracle steps obss)); [discriminate|].
  destruct (existsb (has_class "skipped") (judge_history oracle steps obss)); [discriminate|].
  cbn [v_prop mkv]. intros P. split; [now apply Nat.eqb_eq|].
  intros i st ob E1 E2. rewrite forallb_forall in P. apply P.
  apply (nth_error_In _ i). now apply history_steps_independent.
Qed.

(* ================================================================================================================== *)
(* What a verdict means: prop = true under class "-" is either the documented error on invalid arguments, or the       *)
(* specification of Consistency.v on the observed value. Every other branch is bad_case (prop = false) or "skipped".   *)
(* ================================================================================================================== *)
Lemma bad_case_prop : v_prop bad_case = false. Proof. reflexivity. Qed.

Ltac split_ifs :=
  repeat match goal with
         | |- context [if ?c then _ else _] => destruct c eqn:?
         | |- context [match ?x with _ => _ end] => destruct x eqn:?
         end.

Theorem d_nesting_verdict oracle p h1 v1 h2 v2 obs :
  v_prop (d_nesting_core oracle p h1 v1 h2 v2 obs) = true -> v_class (d_nesting_core oracle p h1 v1 h2 v2 obs) = "-" ->
  (zooms_ok [h1; v1; h2; v2] = false /\ is_err obs = true) \/
  (zooms_ok [h1; v1; h2; v2] = true /\ in_domain_point p = true /\
   exists o1 o2 ochg lc b, obs = VL [VS o1; VS o2; ochg; VB b] /\ as_LS ochg = Some lc /\ nesting_spec h1 v1 h2 v2 o1 o2 lc b).
Proof.
  unfold d_nesting_core.
  destruct (zooms_ok [h1; v1; h2; v2]) eqn:Z; cbn [negb].
  2:{ destruct (is_skip obs); [discriminate|]. cbn. intros E _. left. auto. }
  destruct (cap <? chg_cost h1 v1 h2 v2). { destruct (is_skip obs); cbn; discriminate. }
  destruct (is_skip obs); [discriminate|].
  destruct (in_domain_point p) eqn:D; cbn [negb]; [|discriminate].
  destruct (point_id oracle p h1 v1) as [s1|]; [|discriminate]. destruct (point_id oracle p h2 v2) as [s2|]; [|discriminate].
  cbn [v_prop v_class mkv]. intros P _. right. split; [reflexivity|]. split; [reflexivity|].
  unfold prop_nesting in P.
  destruct obs as [| | | |l| | | |]; try discriminate.
  destruct l as [|a l]; [discriminate|]. destruct a; try discriminate.
  destruct l as [|a l]; [discriminate|]. destruct a; try discriminate.
  destruct l as [|ochg l]; [discriminate|]. destruct l as [|a l]; [discriminate|]. destruct a; try discriminate.
  destruct l; [|discriminate]. destruct (as_LS ochg) as [lc|] eqn:EL; [|discriminate].
  apply check_nesting_sound in P. eauto 10.
Qed.

Theorem d_in_out_verdict id H V obs :
  v_prop (d_in_out_core id H V obs) = true -> v_class (d_in_out_core id H V obs) = "-" ->
  ((parse_eid id = None \/ check_zoom H && check_zoom V = false) /\ is_err obs = true) \/
  (exists omid oback lm lb, obs = VL [omid; oback] /\ as_LS omid = Some lm /\ as_LS oback = Some lb /\
                            in_out_spec id H V (Z.of_nat (List.length lm)) lb).
Proof.
  unfold d_in_out_core. destruct (parse_eid id) as [i|] eqn:E.
  2:{ destruct (is_skip obs); [discriminate|]. cbn. intros P _. left. auto. }
  destruct (check_zoom H && check_zoom V) eqn:Z; cbn [negb].
  2:{ destruct (is_skip obs); [discriminate|]. cbn. intros P _. left. auto. }
  destruct (validb i); cbn [negb]; [|discriminate].
  destruct ((eh i <=? H) && (ev i <=? V)); cbn [negb]; [|discriminate].
  destruct (cap <? 4 ^ (H - eh i) * 2 ^ (V - ev i)). { destruct (is_skip obs); cbn; discriminate. }
  destruct (is_skip obs); [discriminate|].
  destruct (change_one_fast id H V) as [mid|]; [|discriminate].
  cbn [v_prop v_class mkv]. intros P _. right. unfold prop_in_out in P.
  destruct obs as [| | | |l| | | |]; try discriminate.
  destruct l as [|omid l]; [discriminate|]. destruct l as [|oback l]; [discriminate|]. destruct l; [|discriminate].
  destruct (as_LS omid) as [lm|] eqn:E1; [|discriminate]. destruct (as_LS oback) as [lb|] eqn:E2; [|discriminate].
  apply check_in_out_sound in P. eauto 10.
Qed.

Theorem d_merge_desc_verdict id dh dv obs :
  v_prop (d_merge_desc_core id dh dv obs) = true -> v_class (d_merge_desc_core id dh dv obs) = "-" ->
  (parse_eid id = None /\ is_err obs = true) \/
  (exists olist omerged ll lm, obs = VL [olist; omerged] /\ as_LS olist = Some ll /\ as_LS omerged = Some lm /\ merge_desc_spec id lm).
Proof.
  unfold d_merge_desc_core. destruct (parse_eid id) as [i|] eqn:E.
  2:{ destruct (is_skip obs); [discriminate|]. cbn. intros P _. left. auto. }
  destruct (validb i); cbn [negb]; [|discriminate].
  destruct (merge_desc_in_range i dh dv); cbn [negb]. 2:{ destruct (is_skip obs); cbn; discriminate. }
  destruct (is_skip obs); [discriminate|].
  cbn [v_prop v_class mkv]. intros P _. right. unfold prop_merge_desc in P.
  destruct obs as [| | | |l| | | |]; try discriminate.
  destruct l as [|olist l]; [discriminate|]. destruct l as [|omerged l]; [discriminate|]. destruct l; [|discriminate].
  destruct (as_LS olist) as [ll|] eqn:E1; [|discriminate]. destruct (as_LS omerged) as [lm|] eqn:E2; [|discriminate].
  apply check_merge_desc_sound in P. eauto 10.
Qed.

Theorem d_ladder_verdict oracle p zs pairs obs :
  v_prop (d_ladder_core oracle p zs pairs obs) = true -> v_class (d_ladder_core oracle p zs pairs obs) = "-" ->
  (forallb (fun z => check_zoom (fst z) && check_zoom (snd z)) zs = false /\ is_err obs = true) \/
  (in_domain_point p = true /\
   exists oids obools li lb, obs = VL [oids; VL obools] /\ as_LS oids = Some li /\ as_bools obools = Some lb /\
                             List.length lb = List.length pairs /\ ladder_spec zs li lb).
Proof.
  unfold d_ladder_core. destruct (forallb (fun z => check_zoom (fst z) && check_zoom (snd z)) zs) eqn:Z; cbn [negb].
  2:{ destruct (is_skip obs); [discriminate|]. cbn. intros P _. left. auto. }
  destruct (is_skip obs); [discriminate|].
  destruct (in_domain_point p) eqn:D; cbn [negb orb]; [|discriminate].
  destruct (pairs_ok (List.length zs) pairs); cbn [negb]; [|discriminate].
  destruct (all_opt (map (fun z => point_id oracle p (fst z) (snd z)) zs)) as [ids|]; [|discriminate].
  cbn [v_prop v_class mkv]. intros P _. right. split; [reflexivity|]. unfold prop_ladder in P.
  destruct obs as [| | | |l| | | |]; try discriminate.
  destruct l as [|oids l]; [discriminate|]. destruct l as [|ob l]; [discriminate|]. destruct ob as [| | | |obools| | | |]; try discriminate.
  destruct l; [|discriminate].
  destruct (as_LS oids) as [li|] eqn:E1; [|discriminate]. destruct (as_bools obools) as [lb|] eqn:E2; [|discriminate].
  apply andb_true_iff in P. destruct P as [P L]. apply Nat.eqb_eq in L. apply check_ladder_sound in P. eauto 12.
Qed.
