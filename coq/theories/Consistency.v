(* Consistency.v — property C09: point lookup, zoom change, merge and overlap check agree with each other.
   No new model of the four operations: this file composes the finished models
     ChangeZoom.change_eids / change_ext_api      (integrate.ChangeExtendedSpatialIdsZoom, C03),
     Merge.merge / merge_ext_api                  (integrate.MergeExtendedSpatialIds, C04),
     PointF.x_f / y_f / f_f / point_eid           (shape.GetExtendedSpatialIdsOnPoints, bit-exact binary64 + libm oracle, C01),
   adds the model of detector.CheckExtendedSpatialIdsOverlap following the Go code step by step (split both IDs, Atoi of the zoom
   fields with the errors dropped, per-axis minimum zoom, two ChangeExtendedSpatialIdsZoom calls, compare element [0]); it differs from the
   code outside valid IDs only: Atoi's clamped value on a range error is modelled as 0 (unobservable), the panic of [0] on an empty list as Err
   (unreachable), and zoom fields >= 63 with an index of -2^63 (int64 wrap of 2^|d|; C03's model boundary). All theorems are about these
   MODELS; the tie to the Go code is differential execution (DC09.v). It proves
     1. zoom in, then out: the ID comes back — as a list, and at the string level;
     2. merging the complete set of descendants (any order, any repetition, any map order inside merge) gives back exactly the ID;
     3. nesting of the voxels of one point over zooms, for the float code: x for every finite longitude of the domain, y for every
        libm oracle whose value lands in range, f outside the defect class alt_vanishes (negative altitude whose quotient alt/2^(25-v) rounds to -0; inside C01's
        alt_underflow; refuted on it, and the class is exactly the defect);
        hence the voxels of a point at any two zoom pairs (also crossed ones) overlap;
     4. the overlap check on printed valid IDs decides `overlaps`, so it answers true on two voxels of the same point.
   The boolean checkers used by DC09.v are defined here and proved equivalent to their specifications. *)
From Coq Require Import ZArith Reals Lia Lra String List Bool Permutation Floats.
From Flocq Require Import Core BinarySingleNaN.
From SID Require Import Base Str Ids Voxel ZoomCore ChangeZoom Merge MergeCheck MergeProof MergeRegion MergeApi.
From SID Require Import F64 ExactRef PointF PtBridge FF XF YF.
Import ListNotations.
Open Scope Z_scope.

(* ================================================================================================================== *)
(* 0. Small facts                                                                                                      *)
(* ================================================================================================================== *)

Lemma anc_nonneg_inv d n : 0 <= d -> 0 <= anc d n -> 0 <= n.
Proof.
  intros Hd Ha. unfold anc in Ha. pose proof (pow2_pos d Hd) as Hp.
  destruct (Z_lt_le_dec n 0) as [L|L]; [|exact L]. exfalso.
  assert (n / 2 ^ d < 0) by (apply Z.div_lt_upper_bound; lia). lia.
Qed.

Lemma anc_mono d a b : 0 <= d -> a <= b -> anc d a <= anc d b.
Proof. intros Hd L. unfold anc. apply Z.div_le_mono; [apply pow2_pos; exact Hd | exact L]. Qed.

(* the last index of a zoom is the descendant of the last index of every coarser zoom *)
Lemma anc_top d z : 0 <= d -> 0 <= z -> anc d (2 ^ (z + d) - 1) = 2 ^ z - 1.
Proof.
  intros Hd Hz. apply desc_iff; [exact Hd|]. rewrite Z.pow_add_r by lia.
  pose proof (pow2_pos d Hd). pose proof (pow2_pos z Hz). nia.
Qed.

(* clamping into the last column commutes with taking the ancestor *)
Lemma anc_min_top d z n : 0 <= d -> 0 <= z ->
  anc d (Z.min n (2 ^ (z + d) - 1)) = Z.min (anc d n) (2 ^ z - 1).
Proof.
  intros Hd Hz. destruct (Z_le_gt_dec n (2 ^ (z + d) - 1)) as [L|G].
  - rewrite Z.min_l by exact L. pose proof (anc_mono d _ _ Hd L) as M. rewrite anc_top in M by assumption. lia.
  - rewrite Z.min_r by lia. rewrite anc_top by assumption.
    assert (M : anc d (2 ^ (z + d) - 1) <= anc d n) by (apply anc_mono; lia). rewrite anc_top in M by assumption. lia.
Qed.

Lemma nodupb_const (a : eid) l : l <> [] -> (forall b, In b l -> b = a) -> nodupb eid_eqb l = [a].
Proof.
  induction l as [|b r IH]; [congruence|]. intros _ Hall. cbn [nodupb].
  assert (Eb : b = a) by (apply Hall; now left). subst b.
  destruct r as [|c r'].
  - reflexivity.
  - assert (M : memb eid_eqb a (c :: r') = true).
    { apply (memb_In eid_eqb eid_eqb_spec). left. apply Hall. right. now left. }
    rewrite M. apply IH; [discriminate|]. intros b Hb. apply Hall. now right.
Qed.

Lemma singleton_of_NoDup {A} (m : list A) (a : A) : NoDup m -> (forall o, In o m <-> o = a) -> m = [a].
Proof.
  intros ND E. destruct m as [|b r].
  - exfalso. apply (proj2 (E a) eq_refl).
  - assert (b = a) by (apply E; now left). subst b. destruct r as [|c r']; [reflexivity|].
    exfalso. assert (c = a) by (apply E; right; now left). subst c.
    inversion ND as [|? ? Hn _]. apply Hn. now left.
Qed.

Lemma flat_map_nonempty {A B} (f : A -> list B) l : l <> [] -> (forall a, In a l -> f a <> []) -> flat_map f l <> [].
Proof.
  destruct l as [|a r]; [congruence|]. intros _ Hf. cbn. specialize (Hf a (or_introl eq_refl)).
  destruct (f a); [congruence|discriminate].
Qed.

(* ================================================================================================================== *)
(* 1. Zoom in, then out                                                                                                *)
(* ================================================================================================================== *)

(* the result for a single ID is the list of the loops as written (Unique has nothing to remove) *)
Lemma change_single i H V : change_eids [i] H V = one H V i.
Proof.
  unfold change_eids. cbn [flat_map]. rewrite app_nil_r. apply (nodupb_id eid_eqb eid_eqb_spec). apply one_NoDup.
Qed.

Lemma one_nonempty i H V : one H V i <> [].
Proof.
  intros E. pose proof (one_length H V i) as L. rewrite E in L. cbn [List.length] in L.
  assert (0 < 4 ^ Z.max 0 (H - eh i) * 2 ^ Z.max 0 (V - ev i)).
  { apply Z.mul_pos_pos; apply Z.pow_pos_nonneg; lia. }
  lia.
Qed.

(* members of the zoom-in result: well formed, and the input is their ancestor *)
Lemma descendant_facts i H V o : wf i -> eh i <= H -> ev i <= V -> In o (one H V i) ->
  wf o /\ eh o = H /\ ev o = V /\ ancestor o (eh i) (ev i) = i.
Proof.
  intros (W1 & W2 & W3 & W4) HH HV Ho.
  apply one_exact in Ho; [|unfold wf; lia|lia|lia]. destruct Ho as (E1 & E2 & Rx & Ry & Rf).
  rewrite E1 in Rx, Ry. rewrite E2 in Rf. rewrite rel1_le in Rx, Ry, Rf by lia.
  assert (X0 : 0 <= ex o) by (apply (anc_nonneg_inv (H - eh i)); lia).
  assert (Y0 : 0 <= ey o) by (apply (anc_nonneg_inv (H - eh i)); lia).
  split; [unfold wf; lia|]. split; [exact E1|]. split; [exact E2|].
  unfold ancestor. rewrite E1, E2, Rx, Ry, Rf. destruct i; reflexivity.
Qed.

Lemma descendant_back i H V o : wf i -> eh i <= H -> ev i <= V -> In o (one H V i) -> one (eh i) (ev i) o = [i].
Proof.
  intros Wi HH HV Ho. pose proof Wi as (W1 & W2 & _).
  destruct (descendant_facts i H V o Wi HH HV Ho) as (Wo & E1 & E2 & EA).
  destruct (lower_single o (eh i) (ev i) Wo ltac:(lia) ltac:(lia)) as [L _]. now rewrite L, EA.
Qed.

(* C09 (2nd clause): zooming an ID in (on either or both axes, by any amount) and then back out returns exactly that ID — as a list *)
Theorem zoom_in_out i H V : wf i -> eh i <= H -> ev i <= V ->
  change_eids (change_eids [i] H V) (eh i) (ev i) = [i].
Proof.
  intros Wi HH HV. rewrite (change_single i H V). unfold change_eids. apply nodupb_const.
  - apply flat_map_nonempty; [apply one_nonempty|]. intros o Ho. rewrite (descendant_back i H V o Wi HH HV Ho). discriminate.
  - intros b Hb. apply in_flat_map in Hb. destruct Hb as (o & Ho & Hb).
    rewrite (descendant_back i H V o Wi HH HV Ho) in Hb. destruct Hb as [<-|[]]. reflexivity.
Qed.

Corollary zoom_in_out_valid i H V : valid i -> eh i <= H -> ev i <= V ->
  change_eids (change_eids [i] H V) (eh i) (ev i) = [i].
Proof. intros Hv. apply zoom_in_out. now apply valid_wf. Qed.

(* the size of the intermediate list *)
Lemma zoom_in_size i H V : eh i <= H -> ev i <= V ->
  List.length (change_eids [i] H V) = Z.to_nat (4 ^ (H - eh i) * 2 ^ (V - ev i)).
Proof. intros HH HV. rewrite change_single, one_length. now rewrite !Z.max_r by lia. Qed.

(* the same at the level of the exported function, on the printed ID *)
Theorem zoom_in_out_api i H V : valid i -> eh i <= H <= 35 -> ev i <= V <= 35 ->
  exists mid, change_ext_api [print_eid i] H V = Ok mid /\
              List.length mid = Z.to_nat (4 ^ (H - eh i) * 2 ^ (V - ev i)) /\
              change_ext_api mid (eh i) (ev i) = Ok [print_eid i].
Proof.
  intros Hv HH HV. pose proof Hv as (Zh & Zv & _).
  assert (V1 : forall j, In j [i] -> valid j) by (intros j [<-|[]]; exact Hv).
  exists (map print_eid (change_eids [i] H V)). split; [|split].
  - apply (change_ext_api_spec [i] H V V1); lia.
  - rewrite map_length. apply zoom_in_size; lia.
  - rewrite change_ext_api_spec; [|intros o Ho; apply (change_valid [i] H V o V1); [lia|lia|exact Ho]|lia|lia].
    rewrite zoom_in_out_valid by (auto; lia). reflexivity.
Qed.

(* ================================================================================================================== *)
(* 2. Merging the complete set of descendants                                                                          *)
(* ================================================================================================================== *)

Section MergeDescendants.
  Variable ord : list eid -> list eid.                       (* Go map iteration orders inside merge: any permutation *)
  Hypothesis ord_perm : forall l, Permutation (ord l) l.

  (* C09 (3rd clause): any list whose members are exactly the descendants of i at (H,V) — in any order, with any repetition —
     merges at i's own zooms to exactly [i] *)
  Theorem merge_descendants i H V l : wf i -> eh i <= H -> ev i <= V ->
    (forall o, In o l <-> In o (change_eids [i] H V)) ->
    merge ord (eh i) (ev i) l = [i].
  Proof.
    intros Wi HH HV Hl. pose proof Wi as (W1 & W2 & W3 & W4).
    assert (D : forall o, In o l -> wf o /\ eh o = H /\ ev o = V /\ ancestor o (eh i) (ev i) = i).
    { intros o Ho. apply Hl in Ho. rewrite change_single in Ho. now apply descendant_facts. }
    assert (Wl : forall o, In o l -> wfz o).
    { intros o Ho. destruct (D o Ho) as ((A & B & C & E) & _). unfold wfz. lia. }
    assert (El : forall o, In o l -> elig (eh i) (ev i) o /\ tgt (eh i) (ev i) o = i).
    { intros o Ho. destruct (D o Ho) as (_ & E1 & E2 & EA). split; [unfold elig; lia|]. exact EA. }
    (* the voxel i is completely filled by the list: the descendants cover its region *)
    assert (Full : fullS (eh i) (ev i) (fun j => In j l) i).
    { intros p Hp. destruct (raise_partition i H V Wi HH HV) as (_ & _ & _ & Cov & _).
      destruct (Cov p Hp) as (o & Ho & Hop). exists o.
      assert (Hol : In o l) by (apply Hl; now rewrite change_single).
      split; [exact Hol|]. split; [apply (El o Hol)|exact Hop]. }
    assert (NE : exists o, In o l).
    { destruct (one H V i) as [|o r] eqn:E; [exfalso; now apply (one_nonempty i H V)|].
      exists o. apply Hl. rewrite change_single, E. now left. }
    apply singleton_of_NoDup.
    - apply (merge_NoDup ord ord_perm (eh i) (ev i) l).
    - intros o. rewrite (merge_is_S ord ord_perm (eh i) (ev i) W1 W2 l Wl o). unfold S. split.
      + intros [[Ho Ne]|[(j & Hj & _ & Tj & _)|(Ho & _ & NF)]].
        * exfalso. apply Ne. apply (El o Ho).
        * rewrite <- Tj. apply (El j Hj).
        * exfalso. apply NF. destruct (El o Ho) as [_ ->]. exact Full.
      + intros ->. right; left. destruct NE as (j & Hj). exists j. destruct (El j Hj) as [A B]. auto.
  Qed.

  Corollary merge_descendants_permuted i H V l : wf i -> eh i <= H -> ev i <= V ->
    Permutation l (change_eids [i] H V) -> merge ord (eh i) (ev i) l = [i].
  Proof.
    intros Wi HH HV P. apply (merge_descendants i H V l Wi HH HV).
    intros o. split; apply Permutation_in; [exact P|now apply Permutation_sym].
  Qed.
  Corollary merge_descendants_repeated i H V l extra : wf i -> eh i <= H -> ev i <= V ->
    Permutation l (change_eids [i] H V ++ extra) -> incl extra (change_eids [i] H V) -> merge ord (eh i) (ev i) l = [i].
  Proof.
    intros Wi HH HV P Inc. apply (merge_descendants i H V l Wi HH HV).
    intros o. split.
    - intros Ho. apply (Permutation_in _ P) in Ho. apply in_app_iff in Ho. destruct Ho; auto.
    - intros Ho. apply (Permutation_in _ (Permutation_sym P)). apply in_app_iff. now left.
  Qed.
End MergeDescendants.

Theorem merge_descendants_valid ord : (forall l, Permutation (ord l) l) ->
  forall i H V l, valid i -> eh i <= H -> ev i <= V ->
  (forall o, In o l <-> In o (change_eids [i] H V)) ->
  merge ord (eh i) (ev i) l = [i].
Proof. intros P i H V l Hv. apply (merge_descendants ord P i H V l). now apply valid_wf. Qed.

(* the exported function on the printed descendants. MergeExtendedSpatialIds computes its threshold 4^dh * 2^dv in int64 (Merge.merge_x64);
   the hypothesis 2 dh + dv <= 62 keeps it from wrapping (beyond it the descendants could not be enumerated anyway) *)
Lemma descendants_fit64 i H V l : 0 <= H -> 0 <= V -> 2 * (H - eh i) + (V - ev i) <= 62 -> eh i <= H -> ev i <= V ->
  (forall o, In o l -> eh o = H /\ ev o = V) -> fits64 (eh i) (ev i) l.
Proof.
  intros H0 V0 B Lh Lv Hz. unfold fits64.
  assert (A1 : maxz eh l <= H) by (apply maxz_le; [exact H0|]; intros o Ho; destruct (Hz o Ho); lia).
  assert (A2 : maxz ev l <= V) by (apply maxz_le; [exact V0|]; intros o Ho; destruct (Hz o Ho); lia).
  lia.
Qed.
Theorem merge_descendants_api i H V l : valid i -> eh i <= H <= 35 -> ev i <= V <= 35 -> 2 * (H - eh i) + (V - ev i) <= 62 ->
  (forall o, In o l <-> In o (change_eids [i] H V)) ->
  merge_ext_api (map print_eid l) (eh i) (ev i) = Ok [print_eid i].
Proof.
  intros Hv HH HV B Hl. pose proof Hv as (Zh & Zv & _).
  assert (V1 : forall j, In j [i] -> valid j) by (intros j [<-|[]]; exact Hv).
  rewrite merge_ext_api_ok; [|lia|lia|intros o Ho; apply (change_valid [i] H V o V1); [lia|lia|now apply Hl]|].
  - unfold merge_x. rewrite (merge_descendants (fun l => l) (fun l => Permutation_refl l) i H V l); auto; try lia.
    now apply valid_wf.
  - apply (descendants_fit64 i H V l); try lia. intros o Ho. apply Hl in Ho. now apply change_at_zoom in Ho.
Qed.

(* zoom in with ChangeExtendedSpatialIdsZoom, then merge at the ID's own zooms: the ID *)
Corollary zoom_in_then_merge_api i H V : valid i -> eh i <= H <= 35 -> ev i <= V <= 35 -> 2 * (H - eh i) + (V - ev i) <= 62 ->
  exists mid, change_ext_api [print_eid i] H V = Ok mid /\ merge_ext_api mid (eh i) (ev i) = Ok [print_eid i].
Proof.
  intros Hv HH HV B. pose proof Hv as (Zh & Zv & _).
  assert (V1 : forall j, In j [i] -> valid j) by (intros j [<-|[]]; exact Hv).
  exists (map print_eid (change_eids [i] H V)). split.
  - apply (change_ext_api_spec [i] H V V1); lia.
  - apply (merge_descendants_api i H V); auto. tauto.
Qed.

(* ================================================================================================================== *)
(* 3. detector.CheckExtendedSpatialIdsOverlap                                                                          *)
(* ================================================================================================================== *)

(* strconv.Atoi with the error dropped (`z, _ := strconv.Atoi(..)`): 0 for a syntax error. (For a range error Go returns the clamped
   value; such an ID is refused by the zoom change below whatever the target zoom is, so the difference is not observable.) *)
Definition atoi0 (s : string) : Z := match parse s with Some z => z | None => 0 end.

Definition overlap_check_api (s1 s2 : string) : result bool :=
  match split s1, split s2 with
  | [a0; _; _; a3; _], [b0; _; _; b3; _] =>
      let h1 := atoi0 a0 in let h2 := atoi0 b0 in
      let H := if h2 <? h1 then h2 else h1 in            (* target := h1; if h1 > h2 { target = h2 } *)
      let v1 := atoi0 a3 in let v2 := atoi0 b3 in
      let V := if v2 <? v1 then v2 else v1 in
      match change_ext_api [s1] H V with
      | Err => Err
      | Ok r1 =>
          match change_ext_api [s2] H V with
          | Err => Err
          | Ok r2 => match r1, r2 with
                     | a :: _, b :: _ => Ok (String.eqb a b)
                     | _, _ => Err                       (* index [0] of an empty result would panic: never happens, see below *)
                     end
          end
      end
  | _, _ => Err
  end.

Lemma split_print_eid i : split (print_eid i) = [print (eh i); print (ex i); print (ey i); print (ev i); print (ef i)].
Proof. unfold print_eid. apply split_join; [discriminate|]. cbn. now rewrite !print_noslash. Qed.

Lemma small_int64_ok z : 0 <= z <= 35 -> int64_ok z = true.
Proof. intros Hz. unfold int64_ok. apply andb_true_iff. split; [apply Z.leb_le|apply Z.ltb_lt]; lia. Qed.

Lemma change_lower_single i H V : valid i -> 0 <= H <= eh i -> 0 <= V <= ev i -> change_eids [i] H V = [ancestor i H V].
Proof. intros Hv HH HV. rewrite change_single. apply lower_single; auto. now apply valid_wf. Qed.

(* the common coarser grid decides the relation: equal ancestors at the per-axis minimum zooms <-> overlaps *)
Lemma ancestors_equal_iff_overlaps i j : 0 <= eh i -> 0 <= eh j -> 0 <= ev i -> 0 <= ev j ->
  ancestor i (Z.min (eh i) (eh j)) (Z.min (ev i) (ev j)) = ancestor j (Z.min (eh i) (eh j)) (Z.min (ev i) (ev j)) <-> overlaps i j.
Proof.
  intros A B C D. unfold overlaps, ancestor, mk. split.
  - intros E. injection E as Ex Ey Ef. unfold rel1.
    destruct (Z.leb_spec (eh i) (eh j)) as [L|L]; destruct (Z.leb_spec (ev i) (ev j)) as [M|M].
    + rewrite Z.min_l in * by lia. rewrite !Z.sub_diag, !anc_0 in *. auto.
    + rewrite (Z.min_l (eh i)) in * by lia. rewrite (Z.min_r (ev i)) in * by lia. rewrite !Z.sub_diag, !anc_0 in *. auto.
    + rewrite (Z.min_r (eh i)) in * by lia. rewrite (Z.min_l (ev i)) in * by lia. rewrite !Z.sub_diag, !anc_0 in *. auto.
    + rewrite Z.min_r in * by lia. rewrite !Z.sub_diag, !anc_0 in *. auto.
  - unfold rel1. intros (Rx & Ry & Rf).
    destruct (Z.leb_spec (eh i) (eh j)) as [L|L]; destruct (Z.leb_spec (ev i) (ev j)) as [M|M].
    + rewrite !Z.min_l by lia. rewrite !Z.sub_diag, !anc_0. now rewrite Rx, Ry, Rf.
    + rewrite (Z.min_l (eh i)) by lia. rewrite (Z.min_r (ev i)) by lia. rewrite !Z.sub_diag, !anc_0. now rewrite Rx, Ry, Rf.
    + rewrite (Z.min_r (eh i)) by lia. rewrite (Z.min_l (ev i)) by lia. rewrite !Z.sub_diag, !anc_0. now rewrite Rx, Ry, Rf.
    + rewrite !Z.min_r by lia. rewrite !Z.sub_diag, !anc_0. now rewrite Rx, Ry, Rf.
Qed.

(* C05 (extended form) as needed here: on the printed form of two valid IDs the check never fails and decides `overlaps` *)
Theorem overlap_check_api_spec i j : valid i -> valid j ->
  overlap_check_api (print_eid i) (print_eid j) = Ok (overlapsb i j).
Proof.
  intros Vi Vj. pose proof Vi as (Hi & Zi & _). pose proof Vj as (Hj & Zj & _).
  unfold overlap_check_api. rewrite !split_print_eid. unfold atoi0.
  rewrite !parse_print by (apply small_int64_ok; assumption).
  set (H := if eh j <? eh i then eh j else eh i). set (V := if ev j <? ev i then ev j else ev i).
  assert (EH : H = Z.min (eh i) (eh j)) by (unfold H; destruct (Z.ltb_spec (eh j) (eh i)); lia).
  assert (EV : V = Z.min (ev i) (ev j)) by (unfold V; destruct (Z.ltb_spec (ev j) (ev i)); lia).
  assert (V1 : forall k, In k [i] -> valid k) by (intros k [<-|[]]; exact Vi).
  assert (V2 : forall k, In k [j] -> valid k) by (intros k [<-|[]]; exact Vj).
  change [print_eid i] with (map print_eid [i]). change [print_eid j] with (map print_eid [j]).
  rewrite (change_ext_api_spec [i] H V V1) by lia. rewrite (change_ext_api_spec [j] H V V2) by lia.
  rewrite (change_lower_single i H V Vi) by lia. rewrite (change_lower_single j H V Vj) by lia.
  cbn [map]. f_equal.
  assert (VA : valid (ancestor i H V)).
  { apply (change_valid [i] H V _ V1); [lia|lia|]. rewrite (change_lower_single i H V Vi) by lia. now left. }
  assert (VB' : valid (ancestor j H V)).
  { apply (change_valid [j] H V _ V2); [lia|lia|]. rewrite (change_lower_single j H V Vj) by lia. now left. }
  destruct (overlapsb i j) eqn:O.
  - apply overlapsb_spec in O. apply String.eqb_eq. f_equal. rewrite EH, EV. apply ancestors_equal_iff_overlaps; auto; lia.
  - apply String.eqb_neq. intros E. apply print_eid_inj in E; [|now apply valid_fields_ok|now apply valid_fields_ok].
    rewrite EH, EV in E. apply ancestors_equal_iff_overlaps in E; try lia. apply overlapsb_spec in E. congruence.
Qed.

Corollary overlap_check_api_true_iff i j : valid i -> valid j ->
  overlap_check_api (print_eid i) (print_eid j) = Ok true <-> overlaps i j.
Proof.
  intros Vi Vj. rewrite overlap_check_api_spec by assumption. rewrite <- overlapsb_spec.
  split; [intros [= ->]; reflexivity | intros ->; reflexivity].
Qed.

(* an ID and the IDs obtained from it by a zoom change are reported as overlapping (zoom-out: the ancestor; zoom-in: every descendant) *)
Corollary overlap_with_changed i H V o : valid i -> 0 <= H <= 35 -> 0 <= V <= 35 -> In o (change_eids [i] H V) ->
  overlap_check_api (print_eid i) (print_eid o) = Ok true.
Proof.
  intros Vi HH HV Ho.
  assert (V1 : forall k, In k [i] -> valid k) by (intros k [<-|[]]; exact Vi).
  apply overlap_check_api_true_iff; [exact Vi|apply (change_valid [i] H V o V1 HH HV Ho)|].
  apply (change_exact_valid [i] H V o V1 HH HV) in Ho. destruct Ho as (_ & _ & k & [<-|[]] & O). exact O.
Qed.

(* ================================================================================================================== *)
(* 4. Nesting of the voxels of one point over zooms, for the binary64 code                                             *)
(* ================================================================================================================== *)

Lemma floor_unit_range z w : 0 <= z -> (0 <= w < 1)%R -> 0 <= Zfloor (bpow radix2 z * w) < 2 ^ z.
Proof.
  intros Hz [W0 W1]. assert (P : (0 < bpow radix2 z)%R) by apply bpow_gt_0. split.
  - apply Zfloor_lub. simpl. nra.
  - apply lt_IZR. apply Rle_lt_trans with (bpow radix2 z * w)%R; [apply Zfloor_lb|]. rewrite Voxel.IZR_pow2 by exact Hz. nra.
Qed.

(* ---- longitude: EVERY finite longitude of the domain, every pair of zooms. The column at the coarser zoom is the floor-ancestor of
        the column at the finer zoom, because the code scales the same float Q = RN(RN(lon+180)/360) by an exact power of two before
        the floor, and clamping into the last column commutes with the ancestor map. No finding class on this axis. ---- *)
Theorem x_nested (lon : pfloat) (h h' : Z) : 0 <= h' <= h -> h <= 35 -> ffin lon = true -> (-180 <= fval lon <= 180)%R ->
  exists x, x_f lon h = Some x /\ x_f lon h' = Some (anc (h - h') x) /\ 0 <= x < 2 ^ h.
Proof.
  intros Hh H35 Fl Hl. destruct (x_f_range lon h ltac:(lia) Fl Hl) as (x & Ex & Rx).
  exists x. split; [exact Ex|]. split; [|exact Rx].
  rewrite x_f_spec in Ex by (assumption || lia). injection Ex as <-.
  rewrite x_f_spec by (assumption || lia). f_equal.
  rewrite (nested_floor (Qx (fval lon)) h' h) by lia.
  pose proof (anc_min_top (h - h') h' (Zfloor (bpow radix2 h * Qx (fval lon))) ltac:(lia) ltac:(lia)) as A.
  replace (h' + (h - h')) with h in A by lia. now rewrite A.
Qed.


(* ---- the exact shape of the denormal defect (D12) ---- *)
Definition alt_vanishes (alt : pfloat) (v : Z) : Prop :=
  (fval alt < 0)%R /\ rnd (fval alt * bpow radix2 (v - 25)) = 0%R.
Definition alt_vanishes_b (alt : pfloat) (v : Z) : bool :=
  (alt <? 0)%float && (alt / (pow2f 25 / pow2f v) =? 0)%float.

Lemma bpow_fmt e : -1074 <= e -> fmt (bpow radix2 e).
Proof. intros He. replace (bpow radix2 e) with (IZR 1 * bpow radix2 e)%R by ring. apply fmt_int; [simpl; lia | exact He]. Qed.
Lemma rnd_opp x : rnd (- x) = (- rnd x)%R.
Proof. apply round_NE_opp. Qed.
Lemma rnd_abs_le x e : -1074 <= e -> (Rabs x <= bpow radix2 e)%R -> (Rabs (rnd x) <= bpow radix2 e)%R.
Proof.
  intros He Hx. apply Rabs_le_inv in Hx. destruct Hx as [A B]. apply Rabs_le. split.
  - rewrite <- (rnd_fmt (- bpow radix2 e)) by (apply generic_format_opp, bpow_fmt; exact He). now apply rnd_le.
  - rewrite <- (rnd_fmt (bpow radix2 e)) by (apply bpow_fmt; exact He). now apply rnd_le.
Qed.

(* the quotient alt / 2^(25-v) as the code computes it: one rounding of the exact product alt * 2^(v-25) *)
Lemma quot_val alt v : 0 <= v <= 35 -> ffin alt = true -> (Rabs (fval alt) <= bpow radix2 40)%R ->
  fval (alt / (pow2f 25 / pow2f v)) = rnd (fval alt * bpow radix2 (v - 25)) /\ ffin (alt / (pow2f 25 / pow2f v)) = true /\
  (Rabs (rnd (fval alt * bpow radix2 (v - 25))) <= bpow radix2 50)%R.
Proof.
  intros Hv Fa Hb. destruct (res_val v Hv) as [Rv Rf]. set (res := (pow2f 25 / pow2f v)%float) in *.
  assert (Ediv : (fval alt / bpow radix2 (25 - v) = fval alt * bpow radix2 (v - 25))%R).
  { unfold Rdiv. rewrite <- bpow_opp. f_equal. f_equal. lia. }
  assert (Bq : (Rabs (fval alt * bpow radix2 (v - 25)) <= bpow radix2 50)%R).
  { rewrite Rabs_mult, (Rabs_pos_eq (bpow radix2 (v - 25))) by apply bpow_ge_0.
    replace 50 with (40 + 10) by lia. rewrite bpow_plus.
    apply Rmult_le_compat; [apply Rabs_pos | apply bpow_ge_0 | exact Hb | apply bpow_le; lia]. }
  pose proof (rnd_abs_le _ 50 ltac:(lia) Bq) as Br.
  destruct (div_val alt res Fa) as [V F].
  - rewrite Rv. apply Rgt_not_eq, bpow_gt_0.
  - rewrite Rv, Ediv. apply Rle_lt_trans with (1 := Br). apply bpow_lt. lia.
  - rewrite Rv, Ediv in V. auto.
Qed.

Lemma f_f_floor_rnd alt v : 0 <= v <= 35 -> ffin alt = true -> (Rabs (fval alt) <= bpow radix2 40)%R ->
  f_f alt v = Some (Zfloor (rnd (fval alt * bpow radix2 (v - 25)))).
Proof.
  intros Hv Fa Hb. destruct (quot_val alt v Hv Fa Hb) as (V & F & B). unfold f_f.
  rewrite Ztrunc_ffloor; [now rewrite V | exact F |]. rewrite V. apply Rle_lt_trans with (1 := B). apply bpow_lt. lia.
Qed.

Lemma alt_vanishes_b_spec alt v : 0 <= v <= 35 -> ffin alt = true -> (Rabs (fval alt) <= bpow radix2 40)%R ->
  alt_vanishes_b alt v = true <-> alt_vanishes alt v.
Proof.
  intros Hv Fa Hb. destruct (quot_val alt v Hv Fa Hb) as (V & F & _). destruct zero_val as [Z0 F0].
  unfold alt_vanishes_b, alt_vanishes. rewrite andb_true_iff, (ltb_val _ _ Fa F0), (eqb_val _ _ F F0), Z0, V.
  destruct (Rlt_bool_spec (fval alt) 0); destruct (Req_bool_spec (rnd (fval alt * bpow radix2 (v - 25))) 0); split; intros [A B]; try discriminate; try lra; auto.
Qed.

(* the class is inside C01's alt_underflow, and it is exactly the defect: the code answers 0, the floor is -1 *)
Lemma vanishes_small alt v : alt_vanishes alt v -> (- bpow radix2 (-1074) < fval alt * bpow radix2 (v - 25) < 0)%R.
Proof.
  intros [N R0]. assert (P : (0 < bpow radix2 (v - 25))%R) by apply bpow_gt_0. split; [|nra].
  destruct (Rle_or_lt (fval alt * bpow radix2 (v - 25)) (- bpow radix2 (-1074))) as [L|L]; [|exact L]. exfalso.
  apply rnd_le in L. rewrite (rnd_fmt (- bpow radix2 (-1074))) in L by (apply generic_format_opp, bpow_fmt; lia).
  pose proof (bpow_gt_0 radix2 (-1074)). lra.
Qed.
Lemma vanishes_underflow alt v : alt_vanishes alt v -> alt_underflow alt v.
Proof.
  intros Hv. pose proof (vanishes_small alt v Hv) as [A B]. destruct Hv as [N _]. split; [lra|].
  rewrite Rabs_left by exact N.
  assert (P : (0 < bpow radix2 (v - 25))%R) by apply bpow_gt_0.
  assert (E : bpow radix2 (-1074) = (bpow radix2 (-1049 - v) * bpow radix2 (v - 25))%R) by (rewrite <- bpow_plus; f_equal; lia).
  assert (L : (- fval alt < bpow radix2 (-1049 - v))%R) by (rewrite E in A; nra).
  apply Rlt_le_trans with (1 := L). apply bpow_le. lia.
Qed.
Theorem vanishes_is_the_defect alt v : 0 <= v <= 35 -> ffin alt = true -> (Rabs (fval alt) <= bpow radix2 40)%R ->
  alt_vanishes alt v -> f_f alt v = Some 0 /\ F_exact v (fval alt) = -1.
Proof.
  intros Hv Fa Hb Hc. pose proof (vanishes_small alt v Hc) as [A B]. destruct Hc as [N R0].
  rewrite (f_f_floor_rnd alt v Hv Fa Hb), R0, F_exact_alt. split; [now rewrite Zfloor_IZR|].
  apply Zfloor_imp. assert (bpow radix2 (-1074) < 1)%R by (change 1%R with (bpow radix2 0); apply bpow_lt; lia).
  change (IZR (-1)) with (-1)%R. change (IZR (-1 + 1)) with 0%R.
  set (q := (fval alt * bpow radix2 (v - 25))%R) in *. set (e := bpow radix2 (-1074)) in *. clearbody q e. lra.
Qed.
Lemma vanishes_coarser alt v v' : v' <= v -> alt_vanishes alt v -> alt_vanishes alt v'.
Proof.
  intros L [N R0]. split; [exact N|].
  assert (E : (fval alt * bpow radix2 (v' - 25) = fval alt * bpow radix2 (v - 25) * bpow radix2 (v' - v))%R).
  { rewrite Rmult_assoc, <- bpow_plus. do 2 f_equal. lia. }
  assert (P1 : (0 < bpow radix2 (v' - v) <= 1)%R).
  { split; [apply bpow_gt_0|]. change 1%R with (bpow radix2 0). apply bpow_le. lia. }
  assert (P2 : (0 < bpow radix2 (v - 25))%R) by apply bpow_gt_0.
  assert (Q : (fval alt * bpow radix2 (v - 25) < 0)%R) by nra.
  set (q := (fval alt * bpow radix2 (v - 25))%R) in *. clearbody q.
  apply Rle_antisym.
  - apply Rle_trans with (rnd 0); [apply rnd_le | rewrite rnd_0; apply Rle_refl]. rewrite E. nra.
  - rewrite <- R0. apply rnd_le. rewrite E. nra.
Qed.

(* exactness of the altitude index outside the defect class — sharper than FF.f_f_exact: positive denormal altitudes and negative ones
   whose quotient does not round to zero are included *)
Theorem f_f_exact_sharp alt v : 0 <= v <= 35 -> ffin alt = true -> (Rabs (fval alt) <= bpow radix2 40)%R ->
  ~ alt_vanishes alt v -> f_f alt v = Some (F_exact v (fval alt)).
Proof.
  intros Hv Fa Hb Nv.
  destruct (Rle_or_lt (bpow radix2 (-997 - v)) (Rabs (fval alt))) as [L|L].
  { apply f_f_exact; auto. intros [_ C]. lra. }
  destruct (Req_dec (fval alt) 0) as [E0|N0].
  { apply f_f_exact; auto. intros [C _]. contradiction. }
  rewrite (f_f_floor_rnd alt v Hv Fa Hb), F_exact_alt. f_equal.
  set (q := (fval alt * bpow radix2 (v - 25))%R) in *.
  assert (P : (0 < bpow radix2 (v - 25))%R) by apply bpow_gt_0.
  assert (Eb : bpow radix2 (-1022) = (bpow radix2 (-997 - v) * bpow radix2 (v - 25))%R) by (rewrite <- bpow_plus; f_equal; lia).
  assert (S1 : (bpow radix2 (-1022) < 1)%R) by (change 1%R with (bpow radix2 0); apply bpow_lt; lia).
  assert (Q : (Rabs q < bpow radix2 (-1022))%R).
  { unfold q. rewrite Rabs_mult, (Rabs_pos_eq (bpow radix2 (v - 25))) by lra. rewrite Eb. apply Rmult_lt_compat_r; assumption. }
  pose proof (rnd_abs_le q (-1022) ltac:(lia) (Rlt_le _ _ Q)) as RQ.
  apply Rabs_lt_inv in Q. apply Rabs_le_inv in RQ.
  destruct (Rlt_or_le (fval alt) 0) as [Neg|Pos].
  - assert (q < 0)%R by (unfold q; nra).
    assert (R1 : (rnd q <= 0)%R) by (rewrite <- rnd_0; apply rnd_le; lra).
    assert (R2 : rnd q <> 0%R) by (intros C; apply Nv; split; assumption).
    rewrite (Zfloor_imp (-1) (rnd q)), (Zfloor_imp (-1) q); [reflexivity | |]; change (IZR (-1)) with (-1)%R; change (IZR (-1 + 1)) with 0%R; lra.
  - assert (0 < q)%R by (unfold q; nra).
    assert (R1 : (0 <= rnd q)%R) by (rewrite <- rnd_0; apply rnd_le; lra).
    rewrite (Zfloor_imp 0 (rnd q)), (Zfloor_imp 0 q); [reflexivity | |]; simpl; lra.
Qed.

Lemma not_vanishes_finer alt v v' : v' <= v -> ~ alt_vanishes alt v' -> ~ alt_vanishes alt v.
Proof. intros L N C. apply N. now apply (vanishes_coarser alt v v'). Qed.
Lemma not_underflow_not_vanishes alt v : ~ alt_underflow alt v -> ~ alt_vanishes alt v.
Proof. intros N C. apply N. now apply vanishes_underflow. Qed.

(* ---- altitude: every finite altitude (|alt| <= 2^40) outside the defect class at the COARSER zoom (the class shrinks as the zoom
        grows) ---- *)
Theorem f_nested_partial (alt : pfloat) (v v' : Z) : 0 <= v' <= v -> v <= 35 ->
  ffin alt = true -> (Rabs (fval alt) <= bpow radix2 40)%R -> ~ alt_vanishes alt v' ->
  exists f, f_f alt v = Some f /\ f_f alt v' = Some (anc (v - v') f).
Proof.
  intros Hv H35 Fa Ba Nu. exists (F_exact v (fval alt)).
  rewrite (f_f_exact_sharp alt v) by (try assumption; try lia; now apply (not_vanishes_finer alt v v'); [lia|]).
  rewrite (f_f_exact_sharp alt v') by (try assumption; lia).
  split; [reflexivity|]. f_equal. rewrite !F_exact_norm. apply nested_floor. lia.
Qed.

(* on the class the statement is false of the code (D12): the smallest negative denormal altitude is in layer -1 at vertical zoom 25
   (cell height 1 m: the division is exact) but in layer 0 at zoom 24 (the quotient underflows to -0) — and the parent of -1 is -1 *)
Theorem f_nesting_underflow_refuted :
  exists alt v v', 0 <= v' <= v /\ v <= 35 /\ ffin alt = true /\ (Rabs (fval alt) <= bpow radix2 25)%R /\ alt_vanishes alt v' /\
    f_f alt v = Some (-1) /\ f_f alt v' = Some 0 /\ anc (v - v') (-1) <> 0 /\ ~ rel1 v (-1) v' 0.
Proof.
  exists alt_witness, 25, 24. destruct alt_witness_val as [Vw Fw].
  assert (P : (0 < bpow radix2 (-1074))%R) by apply bpow_gt_0.
  assert (Q2 : (bpow radix2 (-1074) < bpow radix2 25)%R) by (apply bpow_lt; lia).
  assert (Q3 : (bpow radix2 25 <= bpow radix2 40)%R) by (apply bpow_le; lia).
  assert (B25 : (Rabs (fval alt_witness) <= bpow radix2 25)%R) by (rewrite Vw, Rabs_Ropp, Rabs_pos_eq by lra; lra).
  split; [lia|]. split; [lia|]. split; [exact Fw|]. split; [exact B25|].
  split; [apply alt_vanishes_b_spec; [lia | exact Fw | lra | vm_compute; reflexivity]|].
  split; [vm_compute; reflexivity|]. split; [vm_compute; reflexivity|].
  split; vm_compute; discriminate.
Qed.

Section WithOracle.
  Variable m_tan m_cos m_log : pfloat -> pfloat.               (* Go's math.Tan / Cos / Log: any functions *)
  Notation yf := (y_f m_tan m_cos m_log).
  Notation mm := (merc_m m_tan m_cos m_log).
  Notation peid := (point_eid m_tan m_cos m_log).
  Notation papi := (points_api m_tan m_cos m_log).

  (* ---- latitude: whatever the libm functions answer, the rows of one latitude are nested, because the zoom enters only through the
          last (exact) multiplication of the float m = 1 - Log(Tan r + 1/Cos r)/Pi by 2^h. Guard: m is finite and 0 <= m < 2, i.e. the
          row is inside its range (equivalently 0 <= row at zoom 35 < 2^35, see y_nested_from_row35). ---- *)
  Theorem y_nested lat h h' : 0 <= h' <= h -> h <= 35 -> ffin (mm lat) = true -> (0 <= fval (mm lat) < 2)%R ->
    exists y, yf lat h = Some y /\ yf lat h' = Some (anc (h - h') y) /\ 0 <= y < 2 ^ h.
  Proof.
    intros Hh H35 Fm Hm. exists (Zfloor (bpow radix2 h * (fval (mm lat) / 2))).
    rewrite (y_f_inrange m_tan m_cos m_log lat h) by (try assumption; lia).
    rewrite (y_f_inrange m_tan m_cos m_log lat h') by (try assumption; lia).
    split; [reflexivity|]. split; [f_equal; apply nested_floor; lia|].
    apply floor_unit_range; [lia|lra].
  Qed.
  Theorem y_nested_from_row35 lat r h h' : ffin (mm lat) = true -> (Rabs (fval (mm lat)) <= 4)%R ->
    yf lat 35 = Some r -> 0 <= r < 2 ^ 35 -> 0 <= h' <= h -> h <= 35 ->
    yf lat h = Some (anc (35 - h) r) /\ yf lat h' = Some (anc (h - h') (anc (35 - h) r)).
  Proof.
    intros Fm Bm Y35 Hr Hh H35.
    destruct (y_f_nested m_tan m_cos m_log lat r Fm Bm Y35 Hr h ltac:(lia)) as [A _].
    destruct (y_f_nested m_tan m_cos m_log lat r Fm Bm Y35 Hr h' ltac:(lia)) as [B _].
    split; [exact A|]. rewrite B. f_equal. rewrite anc_compose by lia. f_equal. lia.
  Qed.

  (* ---- the whole point ---- *)
  (* domain of the property on the stored floats: finite longitude in [-180,180], finite altitude in [-2^25, 2^25), and the libm
     oracle's Mercator float in range (validated at run time and certified per sample by C01's latcert step, not proved) *)
  Definition pt_dom (p : point) : Prop :=
    ffin (plon p) = true /\ (-180 <= fval (plon p) <= 180)%R /\
    ffin (palt p) = true /\ (- bpow radix2 25 <= fval (palt p) < bpow radix2 25)%R /\
    ffin (mm (plat p)) = true /\ (0 <= fval (mm (plat p)) < 2)%R.

  (* the voxel that the code computes for p at (h,v), in closed form *)
  Definition pvox (p : point) (h v : Z) : eid :=
    mk h (Z.min (Zfloor (bpow radix2 h * Qx (fval (plon p)))) (2 ^ h - 1))
         (Zfloor (bpow radix2 h * (fval (mm (plat p)) / 2)))
       v (F_exact v (fval (palt p))).

  Lemma alt_abs40 a : (- bpow radix2 25 <= a < bpow radix2 25)%R -> (Rabs a <= bpow radix2 40)%R.
  Proof.
    intros [A B]. assert (L : (bpow radix2 25 <= bpow radix2 40)%R) by (apply bpow_le; lia).
    apply Rabs_le. lra.
  Qed.

  Lemma point_eid_pvox p h v : 0 <= h <= 35 -> 0 <= v <= 35 -> pt_dom p -> ~ alt_vanishes (palt p) v ->
    peid p h v = Some (pvox p h v).
  Proof.
    intros Hh Hv (Fl & Hl & Fa & Ha & Fm & Hm) Nu. unfold point_eid, pvox.
    rewrite (x_f_spec _ _ Hh Fl Hl), (y_f_inrange m_tan m_cos m_log _ _ Hh Fm Hm).
    rewrite (f_f_exact_sharp _ _ Hv Fa (alt_abs40 _ Ha) Nu). reflexivity.
  Qed.

  Lemma pvox_valid p h v : 0 <= h <= 35 -> 0 <= v <= 35 -> pt_dom p -> valid (pvox p h v).
  Proof.
    intros Hh Hv (Fl & Hl & Fa & Ha & Fm & Hm). unfold valid, pvox, mk. cbn [eh ex ey ev ef].
    pose proof (Qx_range _ Hl) as [Q0 Q1]. pose proof (pow2_pos h ltac:(lia)) as Ph.
    assert (X0 : 0 <= Zfloor (bpow radix2 h * Qx (fval (plon p)))).
    { apply Zfloor_lub. simpl. pose proof (bpow_gt_0 radix2 h). nra. }
    pose proof (floor_unit_range h (fval (mm (plat p)) / 2) ltac:(lia) ltac:(lra)).
    pose proof (F_exact_range v (fval (palt p)) ltac:(lia) Ha).
    repeat split; lia.
  Qed.

  (* the closed forms at two zoom pairs are related on each axis independently — also for crossed zoom orders *)
  Lemma rel1_clamped z1 z2 r : 0 <= z1 -> 0 <= z2 ->
    rel1 z1 (Z.min (Zfloor (bpow radix2 z1 * r)) (2 ^ z1 - 1)) z2 (Z.min (Zfloor (bpow radix2 z2 * r)) (2 ^ z2 - 1)).
  Proof.
    intros H1 H2. unfold rel1. destruct (Z.leb_spec z1 z2) as [L|L].
    - pose proof (anc_min_top (z2 - z1) z1 (Zfloor (bpow radix2 z2 * r)) ltac:(lia) H1) as A.
      replace (z1 + (z2 - z1)) with z2 in A by lia. rewrite A. now rewrite <- (nested_floor r z1 z2) by lia.
    - pose proof (anc_min_top (z1 - z2) z2 (Zfloor (bpow radix2 z1 * r)) ltac:(lia) H2) as A.
      replace (z2 + (z1 - z2)) with z1 in A by lia. rewrite A. now rewrite <- (nested_floor r z2 z1) by lia.
  Qed.
  Lemma pvox_overlaps p h1 v1 h2 v2 : 0 <= h1 -> 0 <= v1 -> 0 <= h2 -> 0 <= v2 -> overlaps (pvox p h1 v1) (pvox p h2 v2).
  Proof.
    intros A B C D. unfold overlaps, pvox, mk. cbn [eh ex ey ev ef]. split; [|split].
    - now apply rel1_clamped.
    - now apply rel1_of_point.
    - rewrite !F_exact_norm. now apply rel1_of_point.
  Qed.

  (* C09 (1st clause) for the float code, _partial: guard = the altitude is outside alt_vanishes at the coarser vertical zoom, and the
     libm oracle's Mercator float is in range (pt_dom). Under it: the ID of the point at the coarser zooms (each axis independently
     coarser or equal) is the zoom-out of its ID at the finer zooms — as voxels, as the list returned by the zoom change, and at the
     level of the two exported functions. *)
  Theorem point_nesting_partial p h v h' v' : 0 <= h' <= h -> h <= 35 -> 0 <= v' <= v -> v <= 35 ->
    pt_dom p -> ~ alt_vanishes (palt p) v' ->
    exists i i', peid p h v = Some i /\ peid p h' v' = Some i' /\ valid i /\ valid i' /\
                 eh i = h /\ ev i = v /\ eh i' = h' /\ ev i' = v' /\
                 ex i' = anc (h - h') (ex i) /\ ey i' = anc (h - h') (ey i) /\ ef i' = anc (v - v') (ef i) /\
                 change_eids [i] h' v' = [i'].
  Proof.
    intros Hh H35 Hv V35 D Nu.
    assert (Nu2 : ~ alt_vanishes (palt p) v) by (apply (not_vanishes_finer _ v v'); [lia|exact Nu]).
    exists (pvox p h v), (pvox p h' v').
    split; [apply point_eid_pvox; auto; lia|]. split; [apply point_eid_pvox; auto; lia|].
    assert (V1 : valid (pvox p h v)) by (apply pvox_valid; auto; lia).
    assert (V2 : valid (pvox p h' v')) by (apply pvox_valid; auto; lia).
    split; [exact V1|]. split; [exact V2|].
    pose proof (pvox_overlaps p h' v' h v ltac:(lia) ltac:(lia) ltac:(lia) ltac:(lia)) as (Rx & Ry & Rf).
    cbn [pvox mk eh ex ey ev ef] in Rx, Ry, Rf. rewrite rel1_le in Rx, Ry, Rf by lia.
    repeat (split; [reflexivity|]).
    split; [cbn [pvox mk ex]; now rewrite Rx|]. split; [cbn [pvox mk ey]; now rewrite Ry|]. split; [cbn [pvox mk ef]; now rewrite Rf|].
    rewrite (change_lower_single _ h' v' V1) by (cbn [pvox mk eh ev]; lia).
    f_equal. unfold ancestor. cbn [pvox mk eh ex ey ev ef]. now rewrite Rx, Ry, Rf.
  Qed.

  (* "nested" read on regions of space: every point of the finer voxel lies in the coarser voxel (same guards) *)
  Theorem point_regions_nested_partial p h v h' v' : 0 <= h' <= h -> h <= 35 -> 0 <= v' <= v -> v <= 35 ->
    pt_dom p -> ~ alt_vanishes (palt p) v' ->
    exists i i', peid p h v = Some i /\ peid p h' v' = Some i' /\ forall q, inR i q -> inR i' q.
  Proof.
    intros Hh H35 Hv V35 D Nu.
    destruct (point_nesting_partial p h v h' v' Hh H35 Hv V35 D Nu) as (i & i' & E1 & E2 & V1 & V2 & Z1 & Z2 & _ & _ & _ & _ & _ & C).
    exists i, i'. split; [exact E1|]. split; [exact E2|].
    destruct (lower_single i h' v' (valid_wf i V1) ltac:(lia) ltac:(lia)) as [L R].
    rewrite <- change_single, C in L. injection L as ->. exact R.
  Qed.

  (* the same through the exported functions: GetExtendedSpatialIdsOnPoints at both zoom pairs, ChangeExtendedSpatialIdsZoom on the
     finer answer returns the coarser answer *)
  Theorem point_nesting_api_partial p h v h' v' : 0 <= h' <= h -> h <= 35 -> 0 <= v' <= v -> v <= 35 ->
    pt_dom p -> ~ alt_vanishes (palt p) v' ->
    exists s s', papi false [p] h v = Ok [s] /\ papi false [p] h' v' = Ok [s'] /\ change_ext_api [s] h' v' = Ok [s'].
  Proof.
    intros Hh H35 Hv V35 D Nu.
    destruct (point_nesting_partial p h v h' v' Hh H35 Hv V35 D Nu) as (i & i' & E1 & E2 & V1 & V2 & _ & _ & _ & _ & _ & _ & _ & C).
    exists (print_eid i), (print_eid i').
    assert (Z1 : forall z, 0 <= z <= 35 -> check_zoom z = true) by (intros z Hz; now apply check_zoom_spec).
    unfold points_api. rewrite !Z1 by lia. cbn [andb negb points_eids]. rewrite E1, E2. cbn [map].
    split; [reflexivity|]. split; [reflexivity|].
    change [print_eid i] with (map print_eid [i]). rewrite change_ext_api_spec; [|intros k [<-|[]]; exact V1|lia|lia].
    now rewrite C.
  Qed.

  (* hence the voxels of one point at ANY two zoom pairs (no order between them, crossed orders included) overlap, and the overlap
     check of the library says so *)
  Theorem point_voxels_overlap_partial p h1 v1 h2 v2 : 0 <= h1 <= 35 -> 0 <= v1 <= 35 -> 0 <= h2 <= 35 -> 0 <= v2 <= 35 ->
    pt_dom p -> ~ alt_vanishes (palt p) (Z.min v1 v2) ->
    exists i j, peid p h1 v1 = Some i /\ peid p h2 v2 = Some j /\ overlaps i j /\
                overlap_check_api (print_eid i) (print_eid j) = Ok true.
  Proof.
    intros A B C E D Nu.
    assert (N1 : ~ alt_vanishes (palt p) v1) by (apply (not_vanishes_finer _ v1 (Z.min v1 v2)); [lia|exact Nu]).
    assert (N2 : ~ alt_vanishes (palt p) v2) by (apply (not_vanishes_finer _ v2 (Z.min v1 v2)); [lia|exact Nu]).
    exists (pvox p h1 v1), (pvox p h2 v2).
    split; [now apply point_eid_pvox|]. split; [now apply point_eid_pvox|].
    assert (O : overlaps (pvox p h1 v1) (pvox p h2 v2)) by (apply pvox_overlaps; lia).
    split; [exact O|]. apply overlap_check_api_true_iff; auto using pvox_valid.
  Qed.

  (* refutation on the class, at the level of voxels: for every libm oracle, the two voxels of the point (0, 0, -2^-1074 m) at vertical
     zooms 25 and 24 (same horizontal zoom) do not overlap *)
  Theorem point_nesting_underflow_refuted :
    exists p, ffin (plon p) = true /\ ffin (palt p) = true /\ (Rabs (fval (palt p)) <= bpow radix2 25)%R /\ alt_vanishes (palt p) 24 /\
      forall h i j, peid p h 25 = Some i -> peid p h 24 = Some j -> ef i = -1 /\ ef j = 0 /\ ~ overlaps i j.
  Proof.
    exists {| plon := 0%float; plat := 0%float; palt := alt_witness |}. cbn [plon plat palt].
    destruct alt_witness_val as [Vw Fw].
    assert (P : (0 < bpow radix2 (-1074))%R) by apply bpow_gt_0.
    assert (Q2 : (bpow radix2 (-1074) < bpow radix2 25)%R) by (apply bpow_lt; lia).
    assert (Q3 : (bpow radix2 25 <= bpow radix2 40)%R) by (apply bpow_le; lia).
    assert (B25 : (Rabs (fval alt_witness) <= bpow radix2 25)%R) by (rewrite Vw, Rabs_Ropp, Rabs_pos_eq by lra; lra).
    split; [vm_compute; reflexivity|]. split; [exact Fw|]. split; [exact B25|].
    split; [apply alt_vanishes_b_spec; [lia | exact Fw | lra | vm_compute; reflexivity]|].
    intros h i j. unfold point_eid. cbn [plon plat palt].
    destruct (x_f 0%float h) as [x|]; [|discriminate]. destruct (yf 0%float h) as [y|]; [|discriminate].
    replace (f_f alt_witness 25) with (Some (-1)) by (vm_compute; reflexivity).
    replace (f_f alt_witness 24) with (Some 0) by (vm_compute; reflexivity).
    intros [= <-] [= <-]. cbn [mk ef]. split; [reflexivity|]. split; [reflexivity|].
    unfold overlaps. cbn [mk eh ex ey ev ef]. intros (_ & _ & R). revert R. vm_compute. discriminate.
  Qed.
End WithOracle.

(* non-vacuity of pt_dom and of the guard: the point (139.75, 0, -75.5 m) with an oracle whose Mercator float is 1 (the equator) *)
Definition example_point : point := {| plon := 139.75%float; plat := 0%float; palt := (-75.5)%float |}.
Lemma pt_dom_example_concrete :
  pt_dom (fun _ => 0%float) (fun _ => 1%float) (fun _ => 0%float) example_point /\ ~ alt_vanishes (palt example_point) 0.
Proof.
  unfold example_point.
  assert (VL : fval 139.75%float = (559 / 4)%R /\ ffin 139.75%float = true).
  { rewrite fval_SF, ffin_SF. replace (Prim2SF 139.75%float) with (S754_finite false 4917015999414272 (-45)) by (vm_compute; reflexivity).
    split; [|reflexivity]. cbn [SF2R cond_Zopp]. unfold F2R. cbn [Fnum Fexp]. simpl bpow. change (Z.pow_pos 2 45) with 35184372088832. lra. }
  assert (VA : fval (-75.5)%float = (- 151 / 2)%R /\ ffin (-75.5)%float = true).
  { rewrite fval_SF, ffin_SF. replace (Prim2SF (-75.5)%float) with (S754_finite true 5312840185413632 (-46)) by (vm_compute; reflexivity).
    split; [|reflexivity]. cbn [SF2R cond_Zopp]. unfold F2R. cbn [Fnum Fexp]. simpl bpow. change (Z.pow_pos 2 46) with 70368744177664. rewrite opp_IZR. lra. }
  assert (VM : fval 1%float = 1%R /\ ffin 1%float = true) by exact c1_val.
  destruct VL as [L1 L2]. destruct VA as [A1 A2]. destruct VM as [M1 M2].
  assert (P25 : bpow radix2 25 = 33554432%R) by (simpl; lra).
  split.
  - unfold pt_dom. cbn [plon plat palt].
    replace (merc_m (fun _ => 0%float) (fun _ => 1%float) (fun _ => 0%float) 0%float) with 1%float by (vm_compute; reflexivity).
    rewrite L1, L2, A1, A2, M1, M2, P25. repeat split; lra.
  - apply not_underflow_not_vanishes. cbn [palt]. unfold alt_underflow. rewrite A1. intros [_ C].
    assert (B : (bpow radix2 (-997 - 0) < 1)%R) by (change 1%R with (bpow radix2 0); apply bpow_lt; lia).
    rewrite Rabs_left in C by lra. lra.
Qed.
Example pt_dom_example :
  exists (t c l : pfloat -> pfloat) p, pt_dom t c l p /\ ~ alt_vanishes (palt p) 0.
Proof. exists (fun _ => 0%float), (fun _ => 1%float), (fun _ => 0%float), example_point. exact pt_dom_example_concrete. Qed.

(* ================================================================================================================== *)
(* 5. Boolean checkers run by DC09.v on the implementation's observed outputs, with their meaning                      *)
(* ================================================================================================================== *)

(* ---- one point at two zoom pairs: id1 at (h1,v1), id2 at (h2,v2), chg = ChangeExtendedSpatialIdsZoom([id1], h2, v2),
        ovl = CheckExtendedSpatialIdsOverlap(id1, id2) ---- *)
Definition check_nesting (h1 v1 h2 v2 : Z) (id1 id2 : string) (chg : list string) (ovl : bool) : bool :=
  match parse_eid id1, parse_eid id2 with
  | Some e1, Some e2 =>
      (eh e1 =? h1) && (ev e1 =? v1) && (eh e2 =? h2) && (ev e2 =? v2) && validb e1 && validb e2 && overlapsb e1 e2 &&
      check_change [e1] h2 v2 chg && memb String.eqb id2 chg && ovl
  | _, _ => false
  end.
(* what C09 demands of the four observed results: both IDs are valid IDs at the requested zooms; nested (on each axis the coarser index
   is the floor-ancestor of the finer); the zoom change of the first ID to the second zoom pair is exactly the set of voxels of that grid
   meeting it (C03's specification, without repetition) and contains the second ID; the overlap check answered true *)
Definition nesting_spec (h1 v1 h2 v2 : Z) (id1 id2 : string) (chg : list string) (ovl : bool) : Prop :=
  exists e1 e2, parse_eid id1 = Some e1 /\ parse_eid id2 = Some e2 /\
    eh e1 = h1 /\ ev e1 = v1 /\ eh e2 = h2 /\ ev e2 = v2 /\ valid e1 /\ valid e2 /\ overlaps e1 e2 /\
    spec_obs [e1] h2 v2 chg /\ In id2 chg /\ ovl = true.

Theorem check_nesting_sound h1 v1 h2 v2 id1 id2 chg ovl :
  check_nesting h1 v1 h2 v2 id1 id2 chg ovl = true <-> nesting_spec h1 v1 h2 v2 id1 id2 chg ovl.
Proof.
  unfold check_nesting, nesting_spec.
  destruct (parse_eid id1) as [e1|]; [|split; [discriminate|intros (a & b & E & _); discriminate]].
  destruct (parse_eid id2) as [e2|]; [|split; [discriminate|intros (a & b & _ & E & _); discriminate]].
  rewrite !andb_true_iff, !Z.eqb_eq, !validb_spec, overlapsb_spec, (memb_In String.eqb String.eqb_spec).
  assert (C : valid e1 -> valid e2 -> eh e2 = h2 -> ev e2 = v2 -> (check_change [e1] h2 v2 chg = true <-> spec_obs [e1] h2 v2 chg)).
  { intros V1 V2 <- <-. destruct V2 as (A & B & _). apply check_change_sound; auto. intros k [<-|[]]. exact V1. }
  split.
  - intros H. exists e1, e2. destruct H as (((((((((A1 & A2) & A3) & A4) & A5) & A6) & A7) & A8) & A9) & A10).
    repeat (split; [reflexivity || assumption|]). split; [now apply C|]. auto.
  - intros (a & b & [= <-] & [= <-] & A1 & A2 & A3 & A4 & A5 & A6 & A7 & A8 & A9 & A10).
    pose proof (proj2 (C A5 A6 A3 A4) A8). tauto.
Qed.

(* when the second zoom pair is coarser or equal on both axes, the specification says: the zoom change returned exactly [id2] *)
Theorem nesting_spec_ordered h1 v1 h2 v2 id1 id2 chg ovl : nesting_spec h1 v1 h2 v2 id1 id2 chg ovl -> h2 <= h1 -> v2 <= v1 -> chg = [id2].
Proof.
  intros (e1 & e2 & _ & _ & Z1 & Z2 & Z3 & Z4 & V1 & V2 & _ & [ND Hs] & Hin & _) Lh Lv.
  pose proof V2 as (R1 & R2 & _). rewrite Z3 in R1. rewrite Z4 in R2.
  assert (V1' : forall k, In k [e1] -> valid k) by (intros k [<-|[]]; exact V1).
  assert (U : forall s, In s chg -> s = print_eid (ancestor e1 h2 v2)).
  { intros s Hs'. apply Hs in Hs'. destruct Hs' as (o & -> & Zo). f_equal.
    apply (change_exact_valid [e1] h2 v2 o V1' R1 R2) in Zo.
    rewrite (change_lower_single e1 h2 v2 V1) in Zo by lia. destruct Zo as [<-|[]]. reflexivity. }
  apply singleton_of_NoDup; [exact ND|]. intros s. split.
  - intros Hs'. rewrite (U s Hs'). symmetry. now apply U.
  - intros ->. exact Hin.
Qed.

(* ---- zoom in then out: size = number of IDs after zooming in, back = result of zooming that list out again ---- *)
Definition check_in_out (id : string) (H V size : Z) (back : list string) : bool :=
  match parse_eid id with
  | Some i => (size =? 4 ^ (H - eh i) * 2 ^ (V - ev i)) && list_eqb String.eqb back [print_eid i]
  | None => false
  end.
Definition in_out_spec (id : string) (H V size : Z) (back : list string) : Prop :=
  exists i, parse_eid id = Some i /\ size = 4 ^ (H - eh i) * 2 ^ (V - ev i) /\ back = [print_eid i].
Theorem check_in_out_sound id H V size back : check_in_out id H V size back = true <-> in_out_spec id H V size back.
Proof.
  unfold check_in_out, in_out_spec. destruct (parse_eid id) as [i|]; [|split; [discriminate|intros (a & E & _); discriminate]].
  rewrite andb_true_iff, Z.eqb_eq.
  destruct (list_eqb_spec String.eqb String.eqb_spec back [print_eid i]) as [E|N]; split.
  - intros [A _]. exists i. auto.
  - intros (a & [= <-] & A & B). auto.
  - intros [_ B]. discriminate.
  - intros (a & [= <-] & A & B). contradiction.
Qed.

(* ---- merge of the descendants: merged = MergeExtendedSpatialIds(shuffled descendants of id, own zooms of id) ---- *)
Definition check_merge_desc (id : string) (merged : list string) : bool :=
  match parse_eid id with Some i => list_eqb String.eqb merged [print_eid i] | None => false end.
Definition merge_desc_spec (id : string) (merged : list string) : Prop :=
  exists i, parse_eid id = Some i /\ merged = [print_eid i].
Theorem check_merge_desc_sound id merged : check_merge_desc id merged = true <-> merge_desc_spec id merged.
Proof.
  unfold check_merge_desc, merge_desc_spec. destruct (parse_eid id) as [i|]; [|split; [discriminate|intros (a & E & _); discriminate]].
  destruct (list_eqb_spec String.eqb String.eqb_spec merged [print_eid i]) as [E|N]; split; auto.
  - intros _. exists i. auto.
  - discriminate.
  - intros (a & [= <-] & B). contradiction.
Qed.

(* ---- one point at a ladder of zoom pairs: valid IDs at the requested zooms, pairwise nested; every overlap call said "overlapping" ---- *)
Fixpoint all_pairs {A} (r : A -> A -> bool) (l : list A) : bool :=
  match l with [] => true | a :: t => forallb (r a) t && all_pairs r t end.
Definition zooms_of (es : list eid) : list (Z * Z) := map (fun e => (eh e, ev e)) es.
Definition check_ladder (zs : list (Z * Z)) (ids : list string) (bools : list bool) : bool :=
  match map_opt parse_eid ids with
  | Some es => list_eqb eqb2 (zooms_of es) zs && forallb validb es && all_pairs overlapsb es && forallb (fun b => b) bools
  | None => false
  end.
Definition ladder_spec (zs : list (Z * Z)) (ids : list string) (bools : list bool) : Prop :=
  exists es, map_opt parse_eid ids = Some es /\ zooms_of es = zs /\ Forall valid es /\ ForallOrdPairs overlaps es /\ Forall (fun b => b = true) bools.
Lemma all_pairs_spec l : all_pairs overlapsb l = true <-> ForallOrdPairs overlaps l.
Proof.
  induction l as [|a t IH]; cbn [all_pairs].
  - split; [constructor|reflexivity].
  - rewrite andb_true_iff, IH, forallb_forall. split.
    + intros [A B]. constructor; [|exact B]. apply Forall_forall. intros x Hx. apply overlapsb_spec. now apply A.
    + intros F. inversion F as [|? ? FA FB]; subst. split; [|exact FB]. intros x Hx. apply overlapsb_spec.
      rewrite Forall_forall in FA. now apply FA.
Qed.
Theorem check_ladder_sound zs ids bools : check_ladder zs ids bools = true <-> ladder_spec zs ids bools.
Proof.
  unfold check_ladder, ladder_spec. destruct (map_opt parse_eid ids) as [es|]; [|split; [discriminate|intros (a & E & _); discriminate]].
  rewrite !andb_true_iff, all_pairs_spec, !forallb_forall, <- !Forall_forall.
  assert (Vv : Forall (fun x => validb x = true) es <-> Forall valid es).
  { rewrite !Forall_forall. split; intros F x Hx; apply validb_spec; auto. }
  rewrite Vv. destruct (list_eqb_spec eqb2 eqb2_spec (zooms_of es) zs) as [E|N]; split.
  - intros [[[_ P0] P] Q]. exists es. auto.
  - intros (a & [= <-] & _ & P0 & P & Q). auto.
  - intros [[[X _] _] _]. discriminate.
  - intros (a & [= <-] & X & _). contradiction.
Qed.
(* the relation is symmetric, so "ordered pairs" means all pairs *)
Lemma ladder_all_pairs es : ForallOrdPairs overlaps es -> forall i j, In i es -> In j es -> i = j \/ overlaps i j.
Proof.
  induction 1 as [|a t FA FB IH]; [intros ? ? []|].
  rewrite Forall_forall in FA. intros i j [<-|Hi] [<-|Hj]; auto.
  right. apply overlaps_sym. auto.
Qed.

(* the model's own answers pass the checkers (so a "prop" failure is never produced by the checker being too strict on the model) *)
Theorem model_passes_check_nesting (t c l : pfloat -> pfloat) p h v h' v' :
  0 <= h' <= h -> h <= 35 -> 0 <= v' <= v -> v <= 35 -> pt_dom t c l p -> ~ alt_vanishes (palt p) v' ->
  exists i i', point_eid t c l p h v = Some i /\ point_eid t c l p h' v' = Some i' /\
    change_ext_api [print_eid i] h' v' = Ok [print_eid i'] /\
    overlap_check_api (print_eid i) (print_eid i') = Ok true /\
    check_nesting h v h' v' (print_eid i) (print_eid i') [print_eid i'] true = true.
Proof.
  intros Hh H35 Hv V35 D Nu.
  destruct (point_nesting_partial t c l p h v h' v' Hh H35 Hv V35 D Nu)
    as (i & i' & E1 & E2 & V1 & V2 & Z1 & Z2 & Z3 & Z4 & Rx & Ry & Rf & C).
  exists i, i'. split; [exact E1|]. split; [exact E2|].
  assert (O : overlaps i i').
  { unfold overlaps. rewrite Z1, Z2, Z3, Z4. rewrite !rel1_ge by lia. auto. }
  assert (V1' : forall k, In k [i] -> valid k) by (intros k [<-|[]]; exact V1).
  split; [|split].
  - change [print_eid i] with (map print_eid [i]). rewrite change_ext_api_spec; [|exact V1'|lia|lia]. now rewrite C.
  - now apply overlap_check_api_true_iff.
  - apply check_nesting_sound. exists i, i'. rewrite !parse_print_eid by now apply valid_fields_ok.
    repeat (split; [reflexivity || assumption|]). split; [|split; [now left|reflexivity]].
    apply check_change_sound; [exact V1'|lia|lia|].
    pose proof (model_passes_check [i] h' v' V1' ltac:(lia) ltac:(lia)) as M. now rewrite C in M.
Qed.
Theorem model_passes_check_in_out i H V : valid i -> eh i <= H <= 35 -> ev i <= V <= 35 ->
  exists mid, change_ext_api [print_eid i] H V = Ok mid /\
    exists back, change_ext_api mid (eh i) (ev i) = Ok back /\
    check_in_out (print_eid i) H V (Z.of_nat (List.length mid)) back = true.
Proof.
  intros Vi HH HV. destruct (zoom_in_out_api i H V Vi HH HV) as (mid & A & L & B).
  exists mid. split; [exact A|]. exists [print_eid i]. split; [exact B|].
  apply check_in_out_sound. exists i. split; [apply parse_print_eid; now apply valid_fields_ok|]. split; [|reflexivity].
  rewrite L. apply Z2Nat.id. apply Z.mul_nonneg_nonneg; apply Z.pow_nonneg; lia.
Qed.
Theorem model_passes_check_merge_desc i H V l : valid i -> eh i <= H <= 35 -> ev i <= V <= 35 -> 2 * (H - eh i) + (V - ev i) <= 62 ->
  (forall o, In o l <-> In o (change_eids [i] H V)) ->
  exists merged, merge_ext_api (map print_eid l) (eh i) (ev i) = Ok merged /\ check_merge_desc (print_eid i) merged = true.
Proof.
  intros Vi HH HV B Hl. exists [print_eid i]. split; [now apply (merge_descendants_api i H V)|].
  apply check_merge_desc_sound. exists i. split; [apply parse_print_eid; now apply valid_fields_ok|reflexivity].
Qed.

(* concrete instances (the seeded-change witnesses of this property) *)
Example overlap_crossed_zoom_orders :
  overlap_check_api "4/14/6/25/101" "5/28/12/24/50" = Ok true.
Proof. vm_compute. reflexivity. Qed.
Example merge_descendants_below_ground :
  match change_ext_api ["20/931348/412858/20/-1"%string] 21 21 with
  | Ok mid => merge_ext_api mid 20 20
  | Err => Err
  end = Ok ["20/931348/412858/20/-1"%string].
Proof. vm_compute. reflexivity. Qed.
Example zoom_in_out_below_ground :
  match change_ext_api ["3/1/1/3/-8"%string] 5 6 with
  | Ok mid => (List.length mid, change_ext_api mid 3 3)
  | Err => (0%nat, Err)
  end = (128%nat, Ok ["3/1/1/3/-8"%string]).
Proof. vm_compute. reflexivity. Qed.

(* ================================================================================================================== *)
(* 6. Executable short-cut for the dispatch entries                                                                    *)
(* ================================================================================================================== *)

(* ChangeExtendedSpatialIdsZoom on ONE valid ID: the printed result of the loops; common.Unique has nothing to remove, so the
   quadratic de-duplication of the executable model is skipped (proved equal to the API model on every input) *)
Definition change_one_fast (id : string) (H V : Z) : result (list string) :=
  match parse_eid id with
  | Some i => if validb i && check_zoom H && check_zoom V then Ok (map print_eid (one H V i)) else change_ext_api [id] H V
  | None => change_ext_api [id] H V
  end.
Theorem change_one_fast_spec id H V : change_one_fast id H V = change_ext_api [id] H V.
Proof.
  unfold change_one_fast. destruct (parse_eid id) as [i|] eqn:E; [|reflexivity].
  destruct (validb i && check_zoom H && check_zoom V) eqn:G; [|reflexivity].
  apply andb_true_iff in G. destruct G as [G Z2]. apply andb_true_iff in G. destruct G as [Vi Z1].
  apply validb_spec in Vi. apply check_zoom_spec in Z1, Z2.
  rewrite (change_ext_api_parsed [id] [i] H V); [now rewrite change_single| cbn [parse_all]; now rewrite E | intros k [<-|[]]; exact Vi | lia | lia].
Qed.

(* ================================================================================================================== *)
(* 7. Call histories: the four models keep no state                                                                    *)
(* ================================================================================================================== *)
(* The property quantifies over every history of calls of the four exported functions. On the model side a history is a list of calls and
   its answers are `map run_call`: each answer is a function of that call's own arguments, whatever was called before (valid or failing
   calls, the same arguments or related ones). This is what justifies judging every step of a CallHistory case of DC09 exactly like a
   standalone case. On the code it is not a theorem: it is what the CallHistory cases check. *)
Section History.
  Variable m_tan m_cos m_log : pfloat -> pfloat.
  Inductive call :=
  | CallPoints (has_nil : bool) (l : list point) (h v : Z)       (* shape.GetExtendedSpatialIdsOnPoints *)
  | CallChange (ids : list string) (H V : Z)                     (* integrate.ChangeExtendedSpatialIdsZoom *)
  | CallMerge (ids : list string) (H V : Z)                      (* integrate.MergeExtendedSpatialIds *)
  | CallOverlap (a b : string).                                  (* detector.CheckExtendedSpatialIdsOverlap *)
  Inductive call_result := ResIds (r : result (list string)) | ResBool (r : result bool).
  Definition run_call (c : call) : call_result :=
    match c with
    | CallPoints n l h v => ResIds (points_api m_tan m_cos m_log n l h v)
    | CallChange ids H V => ResIds (change_ext_api ids H V)
    | CallMerge ids H V => ResIds (merge_ext_api ids H V)
    | CallOverlap a b => ResBool (overlap_check_api a b)
    end.
  Definition run_history (h : list call) : list call_result := map run_call h.

  Theorem history_is_stateless h i c : nth_error h i = Some c -> nth_error (run_history h) i = Some (run_call c).
  Proof. intros E. unfold run_history. now apply map_nth_error. Qed.

  (* the same call made twice, with anything in between, is answered twice the same *)
  Theorem repeated_call_same_answer before between after c :
    nth_error (run_history (before ++ c :: between ++ c :: after)) (List.length before) =
    nth_error (run_history (before ++ c :: between ++ c :: after)) (List.length before + 1 + List.length between)%nat.
  Proof.
    rewrite (history_is_stateless _ (List.length before) c), (history_is_stateless _ (List.length before + 1 + List.length between)%nat c); [reflexivity| |].
    - rewrite nth_error_app2 by lia. replace (List.length before + 1 + List.length between - List.length before)%nat with (Datatypes.S (List.length between)) by lia.
      cbn [nth_error]. rewrite nth_error_app2 by lia. now rewrite Nat.sub_diag.
    - rewrite nth_error_app2 by lia. now rewrite Nat.sub_diag.
  Qed.

  (* C09's second clause inside ANY history: whatever is called before, between and after, zooming a valid ID in and zooming the answer out
     again returns [ID] *)
  Theorem zoom_in_out_in_any_history before between after i H V : valid i -> eh i <= H <= 35 -> ev i <= V <= 35 ->
    exists mid,
      nth_error (run_history (before ++ CallChange [print_eid i] H V :: between ++ CallChange mid (eh i) (ev i) :: after)) (List.length before)
        = Some (ResIds (Ok mid)) /\
      nth_error (run_history (before ++ CallChange [print_eid i] H V :: between ++ CallChange mid (eh i) (ev i) :: after))
                (List.length before + 1 + List.length between)%nat = Some (ResIds (Ok [print_eid i])).
  Proof.
    intros Vi HH HV. destruct (zoom_in_out_api i H V Vi HH HV) as (mid & A & _ & B). exists mid. split.
    - rewrite (history_is_stateless _ _ (CallChange [print_eid i] H V)); [cbn [run_call]; now rewrite A|].
      rewrite nth_error_app2 by lia. now rewrite Nat.sub_diag.
    - rewrite (history_is_stateless _ _ (CallChange mid (eh i) (ev i))); [cbn [run_call]; now rewrite B|].
      rewrite nth_error_app2 by lia. replace (List.length before + 1 + List.length between - List.length before)%nat with (Datatypes.S (List.length between)) by lia.
      cbn [nth_error]. rewrite nth_error_app2 by lia. now rewrite Nat.sub_diag.
  Qed.
End History.

(* a concrete history: a failing call (zoom 36), the valid call, an unrelated overlap check, the failing call again, the valid call again *)
Example history_example :
  run_history (fun x => x) (fun x => x) (fun x => x)
    [CallChange ["3/1/1/3/-8"%string] 36 2; CallChange ["3/1/1/3/-8"%string] 3 2; CallOverlap "4/14/6/25/101" "5/28/12/24/50";
     CallChange ["3/1/1/3/-8"%string] 36 2; CallChange ["3/1/1/3/-8"%string] 3 2; CallMerge ["3/1/1/3/-8"%string; "3/1/b/3/-8"%string] 3 2]
  = [ResIds Err; ResIds (Ok ["3/1/1/2/-4"%string]); ResBool (Ok true); ResIds Err; ResIds (Ok ["3/1/1/2/-4"%string]); ResIds Err].
Proof. vm_compute. reflexivity. Qed.
