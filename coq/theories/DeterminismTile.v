(* DeterminismTile.v — property C16, instances for the tile conversions (model: Tile.v, property C13) and for the exported per-axis
   helpers integrate.HorizontalZoom / VerticalZoom (model: ZoomCore.hzoom / vzoom).  The tile statements restate the owner's lemmas in
   the vocabulary of Determinism.v (same_members; any Go map order applied on top). *)
From Coq Require Import ZArith List Bool Permutation String.
From SID Require Import Base Str Ids ZoomCore ChangeZoom Tile Determinism.
Import ListNotations.
Open Scope Z_scope.

(* ConvertTileXYZsToExtendedSpatialIDs: the result is the key set of a map.  Requests with the same members: both calls fail, or they
   return permutations of one duplicate-free list, whatever the two map orders *)
Theorem tiles_eids_perm_invariant (ord ord' : list eid -> list eid) l1 l2 E O outV :
  (forall x, Permutation (ord x) x) -> (forall x, Permutation (ord' x) x) -> same_members l1 l2 ->
  match tiles_to_eids l1 E O outV, tiles_to_eids l2 E O outV with
  | Ok r1, Ok r2 => Permutation (ord r1) (ord' r2)
  | Err, Err => True
  | _, _ => False
  end.
Proof.
  intros Po Po' S. pose proof (tiles_to_eids_set_invariant l1 l2 E O outV S) as X.
  destruct (tiles_to_eids l1 E O outV), (tiles_to_eids l2 E O outV); try exact X. now apply perm_ord.
Qed.
Theorem tiles_eids_nodup (ord : list eid -> list eid) l E O outV r :
  (forall x, Permutation (ord x) x) -> tiles_to_eids l E O outV = Ok r -> NoDup (ord r).
Proof. intros Po H. eapply Permutation_NoDup; [apply Permutation_sym, Po|exact (tiles_to_eids_NoDup l E O outV r H)]. Qed.
(* ConvertTileXYZsToSpatialIDs: every extended ID of that map expanded: the same multiset of spatial IDs (not documented as
   de-duplicated: tiles of different horizontal zooms may expand onto the same spatial ID) *)
Theorem tiles_sids_perm_invariant l1 l2 E O outV : same_members l1 l2 ->
  match tiles_to_sids l1 E O outV, tiles_to_sids l2 E O outV with
  | Ok s1, Ok s2 => Permutation s1 s2
  | Err, Err => True
  | _, _ => False
  end.
Proof. exact (tiles_to_sids_set_invariant l1 l2 E O outV). Qed.
Theorem tiles_sids_nodup_one_hzoom l E O outV h js : tiles_to_sids_rec l E O outV = Ok js ->
  (forall t, In t l -> th t = h /\ 0 <= tx t /\ 0 <= ty t) -> NoDup js.
Proof. exact (tiles_to_sids_NoDup_one_hzoom l E O outV h js). Qed.

(* integrate.HorizontalZoom / VerticalZoom: functions of their arguments (no map, no state in the model); no index twice *)
Theorem hzoom_nodup zin x y zout : NoDup (hzoom zin x y zout).
Proof. exact (hzoom_NoDup zin x y zout). Qed.
Theorem vzoom_nodup zin f zout : NoDup (vzoom zin f zout).
Proof. exact (vzoom_NoDup zin f zout). Qed.
(* what the seeded one-entry cache keyed on (x, y, zoom difference) breaks: the same x, y and difference at another input zoom is another result *)
Example hzoom_depends_on_the_input_zoom : hzoom_strs 5 3 3 7 <> hzoom_strs 6 3 3 8 /\ (7 - 5 = 8 - 6).
Proof. split; [vm_compute; discriminate|reflexivity]. Qed.
Example tiles_order_example :
  tiles_to_eids [mkt 3 1 2 25 0; mkt 3 1 2 25 1; mkt 3 1 2 25 0] 25 0 25 = Ok [mk 3 1 2 25 1; mk 3 1 2 25 0] /\
  tiles_to_eids [mkt 3 1 2 25 1; mkt 3 1 2 25 0] 25 0 25 = Ok [mk 3 1 2 25 1; mk 3 1 2 25 0].
Proof. split; vm_compute; reflexivity. Qed.
